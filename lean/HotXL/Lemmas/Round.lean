/-
  HotXL.Lemmas.Round — helper lemmas for property C17 (rounding / integer functions, radix
  conversions, roman numerals).
-/
import HotXL.Model.Fn.Round
import HotXL.Model.Fn.Eng
import Mathlib.Tactic.Linarith

namespace HotXL.Lemmas.Round
open HotXL HotXL.Ops HotXL.Fn HotXL.Fn.Round

/-! ## digit strings: printing (`BASE`, `hex`) and reading (`int(text, base)`) are inverse -/

/-- value of a least-significant-first digit list -/
def ofDigits (b : Nat) : List Nat → Nat
  | [] => 0
  | d :: ds => d + b * ofDigits b ds

theorem baseDigits_zero (b : Nat) : baseDigits b 0 = [] := by
  rw [baseDigits]; simp

theorem baseDigits_step (b n : Nat) (hb : 2 ≤ b) (hn : n ≠ 0) :
    baseDigits b n = (n % b) :: baseDigits b (n / b) := by
  rw [baseDigits]; simp [hb, hn]

theorem ofDigits_baseDigits (b : Nat) (hb : 2 ≤ b) (n : Nat) : ofDigits b (baseDigits b n) = n := by
  induction n using Nat.strongRecOn with
  | _ n ih =>
    by_cases hn : n = 0
    · subst hn; simp [baseDigits_zero, ofDigits]
    · rw [baseDigits_step b n hb hn, ofDigits, ih (n / b) (Nat.div_lt_self (by omega) (by omega))]
      exact Nat.mod_add_div n b

theorem baseDigits_lt (b : Nat) (hb : 2 ≤ b) (n : Nat) : ∀ d ∈ baseDigits b n, d < b := by
  induction n using Nat.strongRecOn with
  | _ n ih =>
    by_cases hn : n = 0
    · subst hn; simp [baseDigits_zero]
    · rw [baseDigits_step b n hb hn]
      intro d hd
      rcases List.mem_cons.mp hd with h | h
      · subst h; exact Nat.mod_lt _ (by omega)
      · exact ih (n / b) (Nat.div_lt_self (by omega) (by omega)) d h

theorem baseDigits_ne_nil (b : Nat) (hb : 2 ≤ b) (n : Nat) (hn : n ≠ 0) : baseDigits b n ≠ [] := by
  rw [baseDigits_step b n hb hn]; simp

/-- `al` prints the digits below `b` as characters that `digitVal` reads back -/
def GoodAlphabet (al : Nat → Char) (b : Nat) : Prop :=
  ∀ d, d < b → digitVal (al d) = some d ∧ al d ≠ '_'

theorem digitsBase_map (al : Nat → Char) (b : Nat) (hal : GoodAlphabet al b) :
    ∀ (ms : List Nat) (acc : Nat) (prev : Bool), (∀ d ∈ ms, d < b) → (ms ≠ [] ∨ prev = true) →
      digitsBase b (ms.map al) acc prev = some (ms.foldl (fun a d => a * b + d) acc) := by
  intro ms
  induction ms with
  | nil => intro acc prev _ h; simp at h; subst h; simp [digitsBase]
  | cons m ms ih =>
    intro acc prev hlt _
    have hm := hal m (hlt m (by simp))
    simp only [List.map_cons, digitsBase, hm.2, if_false, hm.1, hlt m (by simp), if_true, List.foldl_cons]
    exact ih _ true (fun d hd => hlt d (by simp [hd])) (Or.inr rfl)

def ValidDigit (b : Nat) (c : Char) : Prop := ∃ d, digitVal c = some d ∧ d < b

theorem validDigit_ne_underscore {b : Nat} {c : Char} (h : ValidDigit b c) : c ≠ '_' := by
  rintro rfl; obtain ⟨d, hd, _⟩ := h; simp [digitVal] at hd

theorem validDigit_toNat {b : Nat} {c : Char} (h : ValidDigit b c) : 48 ≤ c.toNat := by
  obtain ⟨d, hd, _⟩ := h
  unfold digitVal at hd
  simp only [Bool.and_eq_true, decide_eq_true_eq] at hd
  split at hd
  · omega
  · split at hd
    · omega
    · split at hd
      · omega
      · simp at hd

theorem validDigit_not_space {b : Nat} {c : Char} (h : ValidDigit b c) : PyNum.isPySpace c = false := by
  have := validDigit_toNat h
  simp only [PyNum.isPySpace, Bool.or_eq_false_iff, Bool.and_eq_false_iff, decide_eq_false_iff_not, beq_eq_false_iff_ne]
  omega

theorem unsignedBase_plain (b : Nat) (hb : 2 ≤ b) (s : List Char) (hs : s ≠ [])
    (hv : ∀ c ∈ s, ValidDigit b c) : unsignedBase b s = digitsBase b s 0 false := by
  have hb0 : b ≠ 0 := by omega
  have plain : plainBody b s = digitsBase b s 0 false := by
    cases s with
    | nil => exact absurd rfl hs
    | cons c r => simp [plainBody, validDigit_ne_underscore (hv c (by simp))]
  unfold unsignedBase
  split
  · next p r =>
    have hp : ValidDigit b p := hv p (by simp)
    obtain ⟨d, hd, hlt⟩ := hp
    have h1 : ((p = 'x' || p = 'X') && (b = 16 || b = 0)) = false := by
      rw [Bool.and_eq_false_iff]
      by_cases hx : p = 'x'
      · subst hx; simp [digitVal] at hd; right; simp; omega
      · by_cases hX : p = 'X'
        · subst hX; simp [digitVal] at hd; right; simp; omega
        · left; simp [hx, hX]
    have h2 : ((p = 'o' || p = 'O') && (b = 8 || b = 0)) = false := by
      rw [Bool.and_eq_false_iff]
      by_cases hx : p = 'o'
      · subst hx; simp [digitVal] at hd; right; simp; omega
      · by_cases hX : p = 'O'
        · subst hX; simp [digitVal] at hd; right; simp; omega
        · left; simp [hx, hX]
    have h3 : ((p = 'b' || p = 'B') && (b = 2 || b = 0)) = false := by
      rw [Bool.and_eq_false_iff]
      by_cases hx : p = 'b'
      · subst hx; simp [digitVal] at hd; right; simp; omega
      · by_cases hX : p = 'B'
        · subst hX; simp [digitVal] at hd; right; simp; omega
        · left; simp [hx, hX]
    rw [if_neg (by rw [h1]; simp), if_neg (by rw [h2]; simp), if_neg (by rw [h3]; simp), if_neg hb0]
    exact plain
  · simp only [hb0, if_false]
    exact plain

theorem stripLeft_of_head {c : Char} {r : List Char} (h : PyNum.isPySpace c = false) :
    PyNum.stripLeft (c :: r) = c :: r := by
  simp [PyNum.stripLeft, List.dropWhile, h]

theorem strip_valid (b : Nat) (s : List Char) (hv : ∀ c ∈ s, ValidDigit b c) : PyNum.strip s = s := by
  have key : ∀ t : List Char, (∀ c ∈ t, ValidDigit b c) → PyNum.stripLeft t = t := by
    intro t ht
    cases t with
    | nil => rfl
    | cons c r => exact stripLeft_of_head (validDigit_not_space (ht c (by simp)))
  unfold PyNum.strip
  rw [key s hv, key s.reverse (fun c hc => hv c (List.mem_reverse.mp hc)), List.reverse_reverse]

theorem pyIntBase_plain (b : Nat) (hb : 2 ≤ b) (hb' : b ≤ 36) (s : List Char) (hs : s ≠ [])
    (hv : ∀ c ∈ s, ValidDigit b c) :
    pyIntBase? s (b : Int) = (digitsBase b s 0 false).map (fun n => (n : Int)) := by
  unfold pyIntBase?
  have h0 : ¬ ((b : Int) < 0) := by omega
  rw [if_neg h0, strip_valid b s hv]
  simp only [Int.toNat_natCast]
  have hr : (!(decide (b = 0) || (decide (2 ≤ b) && decide (b ≤ 36)))) = false := by simp [hb, hb']
  rw [hr]
  simp only [Bool.false_eq_true, if_false]
  cases s with
  | nil => exact absurd rfl hs
  | cons c r =>
    have hc := validDigit_toNat (hv c (by simp))
    have h1 : c ≠ '-' := by rintro rfl; simp at hc
    have h2 : c ≠ '+' := by rintro rfl; simp at hc
    split
    · next r' heq => simp at heq; exact absurd heq.1 h1
    · next r' heq => simp at heq; exact absurd heq.1 h2
    · rw [unsignedBase_plain b hb _ (by simp) hv]

theorem foldl_reverse_ofDigits (b : Nat) (ds : List Nat) :
    ds.reverse.foldl (fun a d => a * b + d) 0 = ofDigits b ds := by
  induction ds with
  | nil => rfl
  | cons d ds ih =>
    rw [List.reverse_cons, List.foldl_append, ih]
    simp [ofDigits, Nat.mul_comm, Nat.add_comm]

/-- printing digits (least significant first in `ds`) most-significant first with a good
    alphabet and reading the text back with `int(text, b)` gives the value -/
theorem pyIntBase_print (al : Nat → Char) (b : Nat) (hb : 2 ≤ b) (hb' : b ≤ 36) (hal : GoodAlphabet al b)
    (ds : List Nat) (hne : ds ≠ []) (hlt : ∀ d ∈ ds, d < b) :
    pyIntBase? (ds.reverse.map al) (b : Int) = some ((ofDigits b ds : Nat) : Int) := by
  have hv : ∀ c ∈ ds.reverse.map al, ValidDigit b c := by
    intro c hc
    obtain ⟨d, hd, rfl⟩ := List.mem_map.mp hc
    have := hlt d (List.mem_reverse.mp hd)
    exact ⟨d, (hal d this).1, this⟩
  rw [pyIntBase_plain b hb hb' _ (by simpa using hne) hv,
    digitsBase_map al b hal ds.reverse 0 false (fun d hd => hlt d (List.mem_reverse.mp hd)) (Or.inl (by simpa using hne)),
    foldl_reverse_ofDigits]
  rfl

theorem alphabet_good : GoodAlphabet (fun d => alphabet.getD d '?') 36 := by
  unfold GoodAlphabet; decide +kernel
theorem hexAlphabet_good : GoodAlphabet (fun d => Eng.hexAlphabet.getD d '?') 16 := by
  unfold GoodAlphabet; decide +kernel
theorem goodAlphabet_mono {al : Nat → Char} {b c : Nat} (h : GoodAlphabet al c) (hbc : b ≤ c) : GoodAlphabet al b :=
  fun d hd => h d (by omega)

/-! ## evaluation of the radix builtins on integer arguments -/

theorem parseNumber_num (n : Num) : parseNumber (.num n) = .ok n := rfl

theorem hexText_parse (m : Nat) : pyIntBase? (Eng.hexText m) 16 = some (m : Int) := by
  by_cases hm : m = 0
  · subst hm; decide
  · have h := pyIntBase_print (fun d => Eng.hexAlphabet.getD d '?') 16 (by omega) (by omega) hexAlphabet_good
      (baseDigits 16 m) (baseDigits_ne_nil 16 (by omega) m hm) (baseDigits_lt 16 (by omega) m)
    rw [ofDigits_baseDigits 16 (by omega)] at h
    simpa [Eng.hexText, hm] using h

theorem dec2hex_int (n : Int) (h1 : -549755813888 ≤ n) (h2 : n < 549755813888) :
    Eng.DEC2HEX [.num (.int n)] =
      .ok (.str (Eng.hexText (if n < 0 then n + 1099511627776 else n).toNat)) := by
  simp only [Eng.DEC2HEX, Eng.dec2hexCore, parseNumber_num, negPlaces, Num.toRat,
    Generated.dec2hexLow, Generated.dec2hexHigh, Generated.dec2hexWrap]
  simp
  constructor
  · have : ((-549755813888 : Int) : Rat) ≤ (n : Rat) := by exact_mod_cast h1
    simpa using this
  · have : (n : Rat) < ((549755813888 : Int) : Rat) := by exact_mod_cast h2
    simpa using this

theorem ratcast_lt {a b : Int} : ((a : Rat) < (b : Rat)) ↔ a < b := by exact_mod_cast Iff.rfl

theorem ratcast_le {a b : Int} : ((a : Rat) ≤ (b : Rat)) ↔ a ≤ b := by exact_mod_cast Iff.rfl

theorem dec2hex_out (n : Int) (h : n < -549755813888 ∨ 549755813888 ≤ n) :
    Eng.DEC2HEX [.num (.int n)] = .ok (.err .num) := by
  simp only [Eng.DEC2HEX, Eng.dec2hexCore, parseNumber_num, negPlaces, Num.toRat,
    Generated.dec2hexLow, Generated.dec2hexHigh, ratcast_lt, ratcast_le]
  simp [h]

theorem hex2dec_out (s : List Char) (dec : Int) (hs : pyIntBase? s 16 = some dec)
    (h : dec < 0 ∨ 1099511627776 ≤ dec) : Eng.HEX2DEC [.str s] = .ok (.err .num) := by
  simp only [Eng.HEX2DEC, Generated.hex2decBase, hs, Generated.hex2decZero, Generated.hex2decLimit]
  rcases h with h | h <;> simp [h]

theorem base_int (n r : Int) (hn : 0 ≤ n) (h2 : 2 ≤ r) (h36 : r ≤ 36) :
    BASE [.num (.int n), .num (.int r)] =
      .ok (.str (if n = 0 then ['0'] else digitsText (baseDigits r.toNat n.toNat))) := by
  simp only [BASE, baseCore, parseNumber_num, negPlaces, Num.toRat, Generated.baseMin, Generated.baseMax,
    Num.isZero, baseText]
  have a1 : ¬ ((n : Rat) < 0) := by exact_mod_cast (show ¬ n < 0 by omega)
  have a2 : ¬ ((r : Rat) < 2) := by exact_mod_cast (show ¬ r < 2 by omega)
  have a3 : ¬ ((36 : Rat) < (r : Rat)) := by exact_mod_cast (show ¬ (36 : Int) < r by omega)
  have a4 : ((n : Rat) = 0) ↔ n = 0 := by exact_mod_cast Iff.rfl
  simp [a1, a2, a3, a4]
  split <;> rfl

theorem baseText_parse (b m : Nat) (hb : 2 ≤ b) (hb' : b ≤ 36) :
    pyIntBase? (if m = 0 then ['0'] else digitsText (baseDigits b m)) (b : Int) = some (m : Int) := by
  have hal := goodAlphabet_mono alphabet_good hb'
  by_cases hm : m = 0
  · subst hm
    have h := pyIntBase_print (fun d => alphabet.getD d '?') b hb hb' hal [0] (by simp) (by simp; omega)
    have e0 : alphabet[0]?.getD '?' = '0' := by decide
    simpa [ofDigits, e0] using h
  · have h := pyIntBase_print (fun d => alphabet.getD d '?') b hb hb' hal
      (baseDigits b m) (baseDigits_ne_nil b hb m hm) (baseDigits_lt b hb m)
    rw [ofDigits_baseDigits b hb] at h
    simpa [digitsText, hm] using h

theorem baseDigits_bound (b : Nat) (hb : 2 ≤ b) (n : Nat) : n < b ^ (baseDigits b n).length := by
  induction n using Nat.strongRecOn with
  | _ n ih =>
    by_cases hn : n = 0
    · subst hn; simp [baseDigits_zero]
    · rw [baseDigits_step b n hb hn, List.length_cons, Nat.pow_succ]
      have := ih (n / b) (Nat.div_lt_self (by omega) (by omega))
      have h2 := Nat.mod_add_div n b
      have h3 := Nat.mod_lt n (show 0 < b by omega)
      nlinarith

theorem baseDigits_lower (b : Nat) (hb : 2 ≤ b) (n : Nat) (hn : n ≠ 0) : b ^ ((baseDigits b n).length - 1) ≤ n := by
  induction n using Nat.strongRecOn with
  | _ n ih =>
    rw [baseDigits_step b n hb hn, List.length_cons, Nat.add_sub_cancel]
    by_cases hq : n / b = 0
    · rw [hq, baseDigits_zero]; simp; omega
    · have := ih (n / b) (Nat.div_lt_self (by omega) (by omega)) hq
      have hlen : (baseDigits b (n / b)).length = ((baseDigits b (n / b)).length - 1) + 1 := by
        have := baseDigits_ne_nil b hb (n / b) hq
        have : 0 < (baseDigits b (n / b)).length := List.length_pos_iff.mpr this
        omega
      rw [hlen, Nat.pow_succ]
      exact Nat.le_trans (Nat.mul_le_mul_right _ this) (Nat.div_mul_le_self n b)

end HotXL.Lemmas.Round
