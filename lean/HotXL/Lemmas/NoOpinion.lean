import HotXL.Lemmas.ErrorFlow

/-!
# "No opinion" is absorbing

The builtin models answer `Value.other <tag>` with one of the `noOpinionTags` where they do not
compute the result (dateutil text, text of a float, a square root, …).  Such an answer must never
flow on into an operator or another function as if it were a known value: the lemmas below show
that no value in flight is ever a no-opinion value unless the host supplied it, and that a
comparison of two lists / host objects is never given an opinion.
-/

namespace HotXL.NoOpinion
open HotXL HotXL.Ops HotXL.Eval HotXL.Syntax HotXL.ErrorFlow

/-- a call of a name the host did not register never yields a no-opinion value: it yields a known
    value, an error value, or the whole evaluation becomes `Exn.unmodelled` -/
theorem builtin_value_known (env : Env) (name : List Char) (args : List Value) (log log' : Log) (v : Value)
    (hc : env.custom name = none) (h : callFunction env name args log = (.ok v, log')) :
    isNoOpinion v = false := by
  rw [callFunction_eq] at h
  unfold resolve at h
  simp only [hc] at h
  by_cases hr : Builtins.isRegistered (String.ofList name) = true
  · simp only [hr, if_true] at h
    cases hm : Builtins.model? (String.ofList name) with
    | none => simp [hm] at h
    | some b =>
      simp only [hm] at h
      cases hb : b args with
      | error e =>
        simp only [hb] at h
        have := (Prod.mk.inj h).1
        cases this
        rfl
      | ok w =>
        simp only [hb] at h
        by_cases hw : isNoOpinion w = true
        · simp [hw] at h
        · simp only [hw] at h
          have hv := (Prod.mk.inj h).1
          simp only [Except.ok.injEq] at hv
          subst hv
          simpa using hw
  · simp [hr] at h

/-- an operator never yields a foreign value: whatever `&` cannot spell and whatever two lists
    compare to is "no opinion", never a value -/
theorem binOfOp_value_not_other (op : BinOp) (l r v : Value) (h : binOfOp op l r = .ok v) :
    ∀ t, v ≠ .other t := by
  intro t ht
  subst ht
  cases op <;> simp only [binOfOp] at h <;> split at h <;> simp_all

/-- comparing two lists / host objects: no opinion (Python's own comparison of those objects) -/
theorem cmp_two_foreign (op : CmpOp) (l r : Value) (hl : isForeign l = true) (hr : isForeign r = true) :
    evalLogicG op l r = .ok (.other "comparison-of-two-foreign-values") := by
  simp [evalLogicG, hl, hr]

/-- with a scalar on either side the evaluator's comparison is `evaluate_logic` itself -/
theorem cmp_not_both_foreign (op : CmpOp) (l r : Value) (h : (isForeign l && isForeign r) = false) :
    evalLogicG op l r = evalLogic op l r := by
  simp [evalLogicG, h]

end HotXL.NoOpinion
