/-
  HotXL.Lemmas.Lookup — helper lemmas for property C18 (CHOOSE / INDEX / MATCH of
  `HotXL.Model.Fn.Lookup`): the glob relation `GlobMatches` and its equivalence with
  `globMatch`, casts between `Int` and `Rat`, reductions of the Python-semantics helpers on
  numbers, the loop invariants of MATCH's scans.  Core Lean only.
-/
import HotXL.Model.Fn.Lookup

set_option linter.unusedSimpArgs false
set_option linter.unusedVariables false

namespace HotXL.Lookup
open HotXL HotXL.Ops HotXL.Fn HotXL.Fn.Lookup

/-! ### glob patterns -/

/-- the standard meaning of a glob pattern: `*` stands for any sequence of characters
    (possibly empty), `?` for any one character, any other character for itself -/
inductive GlobMatches : List Char → List Char → Prop
  | nil : GlobMatches [] []
  | star (p u v : List Char) : GlobMatches p v → GlobMatches ('*' :: p) (u ++ v)
  | qmark (p : List Char) (c : Char) (s : List Char) : GlobMatches p s → GlobMatches ('?' :: p) (c :: s)
  | lit (a : Char) (p s : List Char) : a ≠ '*' → a ≠ '?' → GlobMatches p s → GlobMatches (a :: p) (a :: s)

theorem anySuffix_iff (f : List Char → Bool) (s : List Char) :
    anySuffix f s = true ↔ ∃ u v, s = u ++ v ∧ f v = true := by
  induction s with
  | nil =>
    simp only [anySuffix]
    constructor
    · intro h; exact ⟨[], [], rfl, h⟩
    · rintro ⟨u, v, h, hf⟩
      have hv : v = [] := (List.append_eq_nil_iff.mp h.symm).2
      subst hv; exact hf
  | cons d s ih =>
    simp only [anySuffix, Bool.or_eq_true, ih]
    constructor
    · rintro (h | ⟨u, v, rfl, hf⟩)
      · exact ⟨[], d :: s, rfl, h⟩
      · exact ⟨d :: u, v, rfl, hf⟩
    · rintro ⟨u, v, h, hf⟩
      cases u with
      | nil => left; simp at h; subst h; exact hf
      | cons e u =>
        right
        simp at h
        exact ⟨u, v, h.2, hf⟩

theorem globMatch_nil (s : List Char) : globMatch [] s = s.isEmpty := by simp [globMatch]
theorem globMatch_star (p s : List Char) : globMatch ('*' :: p) s = anySuffix (globMatch p) s := by
  simp [globMatch]
theorem globMatch_cons_nil (c : Char) (p : List Char) (h : c ≠ '*') : globMatch (c :: p) [] = false := by
  simp [globMatch, h]
theorem globMatch_cons_cons (c d : Char) (p s : List Char) (h : c ≠ '*') :
    globMatch (c :: p) (d :: s) = ((c = '?' || c = d) && globMatch p s) := by
  simp [globMatch, h]

theorem glob_sound (p s : List Char) : globMatch p s = true → GlobMatches p s := by
  induction p generalizing s with
  | nil =>
    intro h
    rw [globMatch_nil] at h
    cases s with
    | nil => exact .nil
    | cons _ _ => simp at h
  | cons c p ih =>
    intro h
    by_cases hc : c = '*'
    · subst hc
      rw [globMatch_star, anySuffix_iff] at h
      obtain ⟨u, v, rfl, hv⟩ := h
      exact .star p u v (ih v hv)
    · cases s with
      | nil => rw [globMatch_cons_nil c p hc] at h; simp at h
      | cons d s =>
        rw [globMatch_cons_cons c d p s hc] at h
        simp only [Bool.and_eq_true, Bool.or_eq_true, decide_eq_true_eq] at h
        obtain ⟨h1, h2⟩ := h
        by_cases hq : c = '?'
        · subst hq; exact .qmark p d s (ih s h2)
        · rcases h1 with h1 | h1
          · exact absurd h1 hq
          · subst h1; exact .lit c p s hc hq (ih s h2)

theorem glob_complete (p s : List Char) : GlobMatches p s → globMatch p s = true := by
  intro h
  induction h with
  | nil => simp [globMatch]
  | star p u v _ ih => rw [globMatch_star, anySuffix_iff]; exact ⟨u, v, rfl, ih⟩
  | qmark p c s _ ih =>
    rw [globMatch_cons_cons _ _ _ _ (by decide)]; simp [ih]
  | lit a p s h1 h2 _ ih =>
    rw [globMatch_cons_cons _ _ _ _ h1]; simp [ih]

/-! ### Int / Rat casts -/

theorem cast_lt_one (i : Int) : ((i:Rat) < 1) ↔ i < 1 := by
  have h : (1:Rat) = ((1:Int):Rat) := by rfl
  rw [h]; exact Rat.intCast_lt_intCast
theorem cast_gt_254 (i : Int) : ((i:Rat) > 254) ↔ i > 254 := by
  have h : (254:Rat) = ((254:Int):Rat) := by rfl
  rw [h]; exact Rat.intCast_lt_intCast
theorem cast_lt_zero (i : Int) : ((i:Rat) < 0) ↔ i < 0 := by
  have h : (0:Rat) = ((0:Int):Rat) := by rfl
  rw [h]; exact Rat.intCast_lt_intCast
theorem cast_eq_zero (i : Int) : ((i:Rat) = 0) ↔ i = 0 := by
  have h : (0:Rat) = ((0:Int):Rat) := by rfl
  rw [h]; exact Rat.intCast_inj
theorem cast_eq_one (i : Int) : ((i:Rat) = 1) ↔ i = 1 := by
  have h : (1:Rat) = ((1:Int):Rat) := by rfl
  rw [h]; exact Rat.intCast_inj
theorem cast_len_lt (n i : Int) : ((n:Rat) < (i:Rat) + 1) ↔ n < i + 1 := by
  have h : (1:Rat) = ((1:Int):Rat) := by rfl
  rw [h, ← Rat.intCast_add]; exact Rat.intCast_lt_intCast

/-! ### Python subscripting, INDEX -/

theorem pyListGet_cons_pos {α : Type} (a : α) (xs : List α) (i : Int) (h : 1 ≤ i) :
    pyListGet (a :: xs) i = xs[(i - 1).toNat]? := by
  have h0 : (0:Int) ≤ i := by omega
  simp only [pyListGet, h0, if_true]
  have : i.toNat = (i - 1).toNat + 1 := by omega
  rw [this, List.getElem?_cons_succ]


/-- an index argument: omitted / blank, or an integer -/
def idxVal : Option Int → Value
  | none => .blank
  | some i => .num (.int i)

/-- a nested (two-dimensional) array -/
def arr2 (rows : List (List Value)) : Value := .arr (rows.map .arr)

/-- column `k` (0-based) of a nested array; `none` when some row is too short -/
def column? : List (List Value) → Nat → Option (List Value)
  | [], _ => some []
  | row :: rest, k =>
    match row[k]?, column? rest k with
    | some v, some vs => some (v :: vs)
    | _, _ => none

theorem column?_eq_some_iff (rows : List (List Value)) (k : Nat) (col : List Value) :
    column? rows k = some col ↔ col.map some = rows.map (fun row => row[k]?) := by
  induction rows generalizing col with
  | nil => cases col <;> simp [column?]
  | cons row rest ih =>
    simp only [column?, List.map_cons]
    cases h1 : row[k]? with
    | none =>
      simp only [reduceCtorEq, false_iff]
      intro h
      cases col with
      | nil => simp at h
      | cons a as => simp at h
    | some v =>
      cases h2 : column? rest k with
      | none =>
        simp only [reduceCtorEq, false_iff]
        intro h
        cases col with
        | nil => simp at h
        | cons a as =>
          simp only [List.map_cons, List.cons.injEq] at h
          have := (ih as).mpr h.2
          rw [h2] at this; cases this
      | some vs =>
        have hvs := (ih vs).mp h2
        simp only [Option.some.injEq]
        constructor
        · intro h; subst h; simp [hvs]
        · intro h
          cases col with
          | nil => simp at h
          | cons a as =>
            simp only [List.map_cons, List.cons.injEq, Option.some.injEq] at h
            have h3 := (ih as).mpr h.2
            rw [h2] at h3
            cases h3
            rw [h.1]

theorem indexArg_idxVal (o : Option Int) : indexArg (idxVal o) = .ok (o.map Num.int) := by
  cases o <;> simp [idxVal, indexArg, parseNumber, toNumber]

theorem pred1_int (i : Int) : pred1 (.int i) = .int (i - 1) := rfl

theorem isZero_int (i : Int) : Num.isZero (.int i) = decide (i = 0) := by
  simp only [Num.isZero, Num.toRat, cast_eq_zero]

theorem numNegative_int (o : Option Int) : numNegative (o.map Num.int) = decide (o.getD 0 < 0) := by
  cases o with
  | none => simp [numNegative]
  | some i => simp only [Option.map, numNegative, Num.toRat, Option.getD, cast_lt_zero]

theorem pySubscript_arr (xs : List Value) (i : Int) (h : 1 ≤ i) :
    pySubscript (.arr xs) (pred1 (.int i)) = xs[(i - 1).toNat]? := by
  have h0 : (0:Int) ≤ i - 1 := by omega
  simp only [pred1_int, pySubscript, pyListGet, h0, if_true]

theorem subscriptAll_rows (rows : List (List Value)) (c : Int) (h : 1 ≤ c) :
    subscriptAll (pred1 (.int c)) (rows.map .arr) = column? rows (c - 1).toNat := by
  induction rows with
  | nil => simp [subscriptAll, column?]
  | cons row rest ih =>
    simp only [List.map_cons, subscriptAll, column?, ih, pySubscript_arr _ _ h]
    cases row[(c - 1).toNat]? <;> cases column? rest (c - 1).toNat <;> rfl


def spec2d (rows : List (List Value)) (r c : Option Int) : Value :=
  match r, c with
  | none, none => .err .value
  | _, _ =>
    if r.getD 0 < 0 ∨ c.getD 0 < 0 then .err .value
    else if r.getD 0 = 0 ∧ c.getD 0 = 0 then arr2 rows
    else if r.getD 0 = 0 then refOr ((column? rows (c.getD 0 - 1).toNat).map .arr)
    else if c.getD 0 = 0 then refOr ((rows[(r.getD 0 - 1).toNat]?).map .arr)
    else refOr ((rows[(r.getD 0 - 1).toNat]?).bind (fun row => row[(c.getD 0 - 1).toNat]?))

theorem index3_arr2 (row0 : List Value) (rest : List (List Value)) (r c : Option Int)
    (h : ¬ (r = none ∧ c = none)) :
    index3 (arr2 (row0 :: rest)) (idxVal r) (idxVal c) =
      if r.getD 0 < 0 ∨ c.getD 0 < 0 then .ok (.err .value)
      else .ok (indexCore ((row0 :: rest).map .arr) true (r.map .int) (c.map .int)) := by
  cases r <;> cases c <;>
    simp_all [index3, arr2, idxVal, indexArg, parseNumber, toNumber, numNegative, isArr, Num.toRat, cast_lt_zero]

theorem getElem?_map_arr (rows : List (List Value)) (k : Nat) :
    (rows.map Value.arr)[k]? = (rows[k]?).map Value.arr := by simp

theorem row_elem (rows : List (List Value)) (k : Nat) (c : Int) (hc : 1 ≤ c) :
    ((rows[k]?).map Value.arr).bind (fun row => pySubscript row (pred1 (.int c)))
      = (rows[k]?).bind (fun row => row[(c - 1).toNat]?) := by
  cases rows[k]? with
  | none => rfl
  | some row => simp only [Option.map, Option.bind, pySubscript_arr _ _ hc]

theorem indexCore_col (rows : List (List Value)) (c : Int) :
    indexCore (rows.map .arr) true none (some (.int c)) = indexCore (rows.map .arr) true (some (.int 0)) (some (.int c)) := by
  by_cases hc0 : c = 0 <;> simp [indexCore, isZero_int, hc0]

theorem indexCore_row (arr : List Value) (b : Bool) (r : Int) :
    indexCore arr b (some (.int r)) none = indexCore arr b (some (.int r)) (some (.int 0)) := by
  by_cases hr0 : r = 0 <;> simp [indexCore, isZero_int, hr0]

theorem indexCore_rows_int (rows : List (List Value)) (r c : Int) (hr : 0 ≤ r) (hc : 0 ≤ c) :
    indexCore (rows.map .arr) true (some (.int r)) (some (.int c)) =
      if r = 0 ∧ c = 0 then arr2 rows
      else if r = 0 then refOr ((column? rows (c - 1).toNat).map .arr)
      else if c = 0 then refOr ((rows[(r - 1).toNat]?).map .arr)
      else refOr ((rows[(r - 1).toNat]?).bind (fun row => row[(c - 1).toNat]?)) := by
  by_cases hr0 : r = 0
  · by_cases hc0 : c = 0
    · simp only [indexCore, isZero_int, hr0, hc0, decide_true, Bool.and_self, if_true, and_self, arr2]
    · have hc1 : 1 ≤ c := by omega
      simp only [indexCore, isZero_int, hr0, hc0, decide_true, decide_false, Bool.true_and, Bool.and_false,
        Bool.false_eq_true, if_false, if_true, and_false, true_and, Bool.not_true, subscriptAll_rows _ _ hc1]
  · have hr1 : 1 ≤ r := by omega
    by_cases hc0 : c = 0
    · simp only [indexCore, isZero_int, hr0, hc0, decide_true, decide_false, Bool.false_and, Bool.and_true,
        Bool.false_eq_true, if_false, if_true, false_and, and_true, pySubscript_arr _ _ hr1, getElem?_map_arr]
    · have hc1 : 1 ≤ c := by omega
      simp only [indexCore, isZero_int, hr0, hc0, decide_false, Bool.false_and, Bool.and_false,
        Bool.false_eq_true, if_false, false_and, and_false, Bool.not_true, pySubscript_arr _ _ hr1,
        getElem?_map_arr, row_elem _ _ _ hc1]

def single1d (xs : List Value) (i : Int) : Value :=
  if i < 0 then .err .value else if i = 0 then .arr xs else refOr xs[(i - 1).toNat]?

def spec1d (xs : List Value) (r c : Option Int) : Value :=
  match r, c with
  | none, none => .err .value
  | none, some i => single1d xs i
  | some i, none => single1d xs i
  | some r, some c =>
    if r < 0 ∨ c < 0 then .err .value
    else if r = 0 ∧ c = 0 then .arr xs
    else if r = 0 then .err .ref
    else if c = 0 ∨ c = 1 then refOr xs[(r - 1).toNat]?
    else .err .ref

theorem index3_flat (x0 : Value) (rest : List Value) (h0 : isArr x0 = false) (r c : Option Int)
    (h : ¬ (r = none ∧ c = none)) :
    index3 (.arr (x0 :: rest)) (idxVal r) (idxVal c) =
      if r.getD 0 < 0 ∨ c.getD 0 < 0 then .ok (.err .value)
      else .ok (indexCore (x0 :: rest) false (r.map .int) (c.map .int)) := by
  cases r <;> cases c <;>
    simp_all [index3, idxVal, indexArg, parseNumber, toNumber, numNegative, Num.toRat, cast_lt_zero]

theorem indexCore_flat_single_row (xs : List Value) (i : Int) (hi : 0 ≤ i) :
    indexCore xs false (some (.int i)) none = single1d xs i := by
  by_cases h0 : i = 0
  · simp only [indexCore, isZero_int, h0, decide_true, if_true, single1d, Int.lt_irrefl, if_false]
  · have h1 : 1 ≤ i := by omega
    have hn : ¬ i < 0 := by omega
    simp only [indexCore, isZero_int, h0, decide_false, Bool.false_eq_true, if_false, single1d, hn,
      pySubscript_arr _ _ h1]

theorem indexCore_flat_single_col (xs : List Value) (i : Int) (hi : 0 ≤ i) :
    indexCore xs false none (some (.int i)) = single1d xs i := by
  by_cases h0 : i = 0
  · simp only [indexCore, isZero_int, h0, decide_true, if_true, single1d, Int.lt_irrefl, if_false]
  · have h1 : 1 ≤ i := by omega
    have hn : ¬ i < 0 := by omega
    simp only [indexCore, isZero_int, h0, decide_false, Bool.false_eq_true, if_false, single1d, hn,
      pySubscript_arr _ _ h1]

theorem indexCore_flat_both (xs : List Value) (r c : Int) (hr : 0 ≤ r) (hc : 0 ≤ c) :
    indexCore xs false (some (.int r)) (some (.int c)) =
      if r = 0 ∧ c = 0 then .arr xs
      else if r = 0 then .err .ref
      else if c = 0 ∨ c = 1 then refOr xs[(r - 1).toNat]?
      else .err .ref := by
  by_cases hr0 : r = 0
  · by_cases hc0 : c = 0
    · simp only [indexCore, isZero_int, hr0, hc0, decide_true, Bool.and_self, if_true, and_self]
    · simp only [indexCore, isZero_int, hr0, hc0, decide_true, decide_false, Bool.and_false,
        Bool.false_eq_true, if_false, if_true, and_false, Bool.not_false]
  · have hr1 : 1 ≤ r := by omega
    by_cases hc0 : c = 0
    · simp only [indexCore, isZero_int, hr0, hc0, decide_true, decide_false, Bool.false_and,
        Bool.false_eq_true, if_false, if_true, false_and, true_or, pySubscript_arr _ _ hr1]
    · by_cases hc1 : c = 1
      · simp only [indexCore, isZero_int, hr0, hc0, hc1, decide_false, Bool.false_and,
          Bool.false_eq_true, if_false, if_true, false_and, or_true, Bool.not_false, Num.toRat, cast_eq_one,
          pySubscript_arr _ _ hr1]
        simp
      · simp only [indexCore, isZero_int, hr0, hc0, hc1, decide_false, Bool.false_and,
          Bool.false_eq_true, if_false, if_true, false_and, or_self, Bool.not_false, Num.toRat, cast_eq_one]


/-! ### MATCH types 1 and −1: the scan with its running candidate -/

abbrev val (n : Num) : Rat := Num.toRat n

/-- `a < b` when ascending, `a > b` when descending -/
def ltD (asc : Bool) (a b : Rat) : Prop := if asc then a < b else b < a
/-- `a ≤ b` when ascending, `a ≥ b` when descending -/
def leD (asc : Bool) (a b : Rat) : Prop := if asc then a ≤ b else b ≤ a

instance (asc : Bool) (a b : Rat) : Decidable (ltD asc a b) := by unfold ltD; infer_instance

theorem pyEq_num (a b : Num) : pyEqValue (.num a) (.num b) = decide (val a = val b) := by
  simp [pyEqValue, pyNumeric?]
theorem before_num (asc : Bool) (a b : Num) :
    before asc (.num a) (.num b) = some (decide (ltD asc (val a) (val b))) := by
  cases asc <;> simp [before, pyGtValue, pyLtValue, pyNumeric?, ltD]
theorem truthy_num (a : Num) : pyTruthy (.num a) = !decide (val a = 0) := by
  simp [pyTruthy, Num.isZero]

/-- the answer of a type 1 / −1 scan is right for the array `whole` and the lookup value `X` -/
def ScanGood (asc : Bool) (X : Rat) (whole : List Num) (res : Except Err Value) : Prop :=
  (∃ i : Nat, res = .ok (.num (.int ((i + 1 : Nat) : Int))) ∧ ∃ h : i < whole.length,
      leD asc (val whole[i]) X ∧ ∀ y ∈ whole, leD asc (val y) X → leD asc (val y) (val whole[i]))
  ∨ (res = .ok (.err .na) ∧ ∀ y ∈ whole, ¬ leD asc (val y) X)

/-- loop invariant on the items already passed -/
def ScanInv (asc : Bool) (X : Rat) (pre : List Num) : Option (Nat × Num) → Prop
  | none => ∀ y ∈ pre, ltD asc X (val y)
  | some (bi, bn) => ∃ k, bi = k + 1 ∧ ∃ h : k < pre.length, pre[k] = bn ∧ ltD asc (val bn) X ∧
      ∀ y ∈ pre, ltD asc (val y) X → leD asc (val y) (val bn)

def liftBest (b : Option (Nat × Num)) : Option (Nat × Value) := b.map (fun p => (p.1, .num p.2))

theorem scanBest_good (asc : Bool) (q : Num) (rest : List Num) :
    ∀ (pre : List Num) (idx : Nat) (best : Option (Nat × Num)),
      idx = pre.length →
      List.Pairwise (fun a b => val a = 0 → leD asc 0 (val b)) (pre ++ rest) →
      (∀ y ∈ pre, val y ≠ val q) →
      ScanInv asc (val q) pre best →
      ScanGood asc (val q) (pre ++ rest) (scanBest asc (.num q) (rest.map .num) idx (liftBest best)) := by
  induction rest with
  | nil =>
    intro pre idx best hidx _ hne hinv
    simp only [List.map_nil, List.append_nil, scanBest]
    cases best with
    | none =>
      right
      refine ⟨rfl, ?_⟩
      intro y hy
      have := hinv y hy
      cases asc <;> simp only [ltD, leD] at * <;> grind
    | some p =>
      obtain ⟨bi, bn⟩ := p
      obtain ⟨k, rfl, hk, hpk, hlt, hmax⟩ := hinv
      left
      refine ⟨k, rfl, hk, ?_, ?_⟩
      · rw [hpk]; cases asc <;> simp only [ltD, leD] at * <;> grind
      · intro y hy hle
        rw [hpk]
        apply hmax y hy
        have := hne y hy
        cases asc <;> simp only [ltD, leD] at * <;> grind
  | cons item rest ih =>
    intro pre idx best hidx hpw hne hinv
    have hassoc : pre ++ item :: rest = (pre ++ [item]) ++ rest := by simp
    have hlen : idx + 1 = (pre ++ [item]).length := by simp [hidx]
    simp only [List.map_cons, scanBest, pyEq_num, before_num]
    by_cases heq : val item = val q
    · -- found: position idx + 1
      simp only [heq, decide_true, if_true]
      left
      refine ⟨idx, rfl, by simp [hidx], ?_, ?_⟩
      · have : (pre ++ item :: rest)[idx]'(by simp [hidx]) = item := by simp [hidx]
        rw [this, heq]; cases asc <;> simp only [leD] <;> grind
      · intro y _ hle
        have : (pre ++ item :: rest)[idx]'(by simp [hidx]) = item := by simp [hidx]
        rw [this, heq]; exact hle
    · simp only [heq, decide_false, Bool.false_eq_true, if_false]
      have hne' : ∀ y ∈ pre ++ [item], val y ≠ val q := by
        intro y hy
        rcases List.mem_append.mp hy with h | h
        · exact hne y h
        · simp at h; subst h; exact heq
      rw [hassoc] at hpw ⊢
      by_cases hlt : ltD asc (val item) (val q)
      · simp only [hlt, decide_true]
        -- the item is a candidate
        have hnew : ScanInv asc (val q) (pre ++ [item]) (some (idx + 1, item)) → 
            ScanGood asc (val q) (pre ++ [item] ++ rest)
              (scanBest asc (.num q) (rest.map .num) (idx + 1) (some (idx + 1, .num item))) := by
          intro h
          exact ih (pre ++ [item]) (idx + 1) (some (idx + 1, item)) hlen hpw hne' h
        cases best with
        | none =>
          simp only [liftBest, Option.map]
          apply hnew
          refine ⟨idx, rfl, by simp [hidx], by simp [hidx], hlt, ?_⟩
          intro y hy hy2
          rcases List.mem_append.mp hy with h | h
          · have := hinv y h
            cases asc <;> simp only [ltD, leD] at * <;> grind
          · simp at h; subst h; cases asc <;> simp only [leD] <;> grind
        | some p =>
          obtain ⟨bi, bn⟩ := p
          obtain ⟨k, rfl, hk, hpk, hblt, hmax⟩ := hinv
          simp only [liftBest, Option.map, truthy_num, before_num, Bool.not_not]
          by_cases hz : val bn = 0
          · -- the falsy candidate: replaced whatever the item is
            simp only [hz, decide_true, if_true]
            apply hnew
            refine ⟨idx, rfl, by simp [hidx], by simp [hidx], hlt, ?_⟩
            intro y hy hy2
            rcases List.mem_append.mp hy with h | h
            · have h1 := hmax y h hy2
              -- `bn` stands before `item` in the array
              have h2 : leD asc 0 (val item) := by
                have hp := (List.pairwise_append.mp (List.pairwise_append.mp hpw).1).2.2
                have : bn ∈ pre := by rw [← hpk]; exact List.getElem_mem hk
                exact hp bn this item (by simp) hz
              rw [hz] at h1
              cases asc <;> simp only [leD] at * <;> grind
            · simp at h; subst h; cases asc <;> simp only [leD] <;> grind
          · simp only [hz, decide_false, Bool.false_eq_true, if_false]
            by_cases hgt : ltD asc (val bn) (val item)
            · simp only [hgt, decide_true]
              apply hnew
              refine ⟨idx, rfl, by simp [hidx], by simp [hidx], hlt, ?_⟩
              intro y hy hy2
              rcases List.mem_append.mp hy with h | h
              · have h1 := hmax y h hy2
                cases asc <;> simp only [ltD, leD] at * <;> grind
              · simp at h; subst h; cases asc <;> simp only [leD] <;> grind
            · simp only [hgt, decide_false]
              have := ih (pre ++ [item]) (idx + 1) (some (k + 1, bn)) hlen hpw hne' (by
                refine ⟨k, rfl, by simp; omega, ?_, hblt, ?_⟩
                · rw [List.getElem_append_left hk]; exact hpk
                · intro y hy hy2
                  rcases List.mem_append.mp hy with h | h
                  · exact hmax y h hy2
                  · simp at h; subst h
                    cases asc <;> simp only [ltD, leD] at * <;> grind)
              simpa only [liftBest, Option.map] using this
      · simp only [hlt, decide_false]
        apply ih (pre ++ [item]) (idx + 1) best hlen hpw hne'
        cases best with
        | none =>
          intro y hy
          rcases List.mem_append.mp hy with h | h
          · exact hinv y h
          · simp at h; subst h
            cases asc <;> simp only [ltD] at * <;> grind
        | some p =>
          obtain ⟨bi, bn⟩ := p
          obtain ⟨k, rfl, hk, hpk, hblt, hmax⟩ := hinv
          refine ⟨k, rfl, by simp; omega, ?_, hblt, ?_⟩
          · rw [List.getElem_append_left hk]; exact hpk
          · intro y hy hy2
            rcases List.mem_append.mp hy with h | h
            · exact hmax y h hy2
            · simp at h; subst h; exact absurd hy2 hlt

/-! ### MATCH type 0 -/

/-- "the item equals the lookup value" at match type 0: numbers (and everything that is not text)
    by Python `==`, text by the lower-cased glob; a text lookup value equals no non-text item -/
def eqv (x item : Value) : Bool :=
  match x, item with
  | .str p, .str s => globMatch (lowerAscii p) (lowerAscii s)
  | .str _, _ => false
  | _, _ => pyEqValue item x

/-- the items can be compared with the lookup value at type 0 without an exception -/
def TextOK (x : Value) (xs : List Value) : Prop :=
  hasBracket x = false ∧ ∀ p, x = .str p → ∀ v ∈ xs, ∃ s, v = .str s

theorem itemMatches_eqv (x item : Value) (h : ∀ p, x = .str p → ∃ s, item = .str s) :
    itemMatches x item = some (eqv x item) := by
  cases x with
  | str p =>
    obtain ⟨s, rfl⟩ := h p rfl
    simp [itemMatches, eqv]
  | _ => simp [itemMatches, eqv]

theorem scanExact_spec (x : Value) (xs : List Value) (k : Nat)
    (h : ∀ p, x = .str p → ∀ v ∈ xs, ∃ s, v = .str s) :
    scanExact x xs k = .ok (match xs.findIdx? (eqv x) with
      | some i => posValue (k + i)
      | none => .err .na) := by
  induction xs generalizing k with
  | nil => simp [scanExact]
  | cons item rest ih =>
    have h1 : ∀ p, x = .str p → ∃ s, item = .str s := fun p hp => h p hp item (by simp)
    have h2 : ∀ p, x = .str p → ∀ v ∈ rest, ∃ s, v = .str s :=
      fun p hp v hv => h p hp v (by simp [hv])
    simp only [scanExact, itemMatches_eqv x item h1, List.findIdx?_cons]
    cases he : eqv x item with
    | true => simp
    | false =>
      simp only [Bool.false_eq_true, if_false, ih (k + 1) h2]
      cases rest.findIdx? (eqv x) with
      | none => simp
      | some i => simp only [Option.map]; congr 2; omega

theorem matchType_zero : matchType? (.num (.int 0)) = some .exact := by decide
theorem matchType_one : matchType? (.num (.int 1)) = some .asc := by decide
theorem matchType_neg : matchType? (.num (.int (-1))) = some .desc := by decide


/-- no wildcard character in the text -/
def NoWild (p : List Char) : Prop := ∀ c ∈ p, c ≠ '*' ∧ c ≠ '?'

theorem glob_literal (p s : List Char) (h : NoWild p) : globMatch p s = true ↔ p = s := by
  induction p generalizing s with
  | nil => cases s <;> simp [globMatch]
  | cons c p ih =>
    have hc := h c (by simp)
    have hp : NoWild p := fun d hd => h d (by simp [hd])
    cases s with
    | nil => simp [globMatch_cons_nil c p hc.1]
    | cons d s =>
      rw [globMatch_cons_cons c d p s hc.1]
      simp only [Bool.and_eq_true, Bool.or_eq_true, decide_eq_true_eq, ih s hp, List.cons.injEq]
      constructor
      · rintro ⟨h1 | h1, h2⟩
        · exact absurd h1 hc.2
        · exact ⟨h1, h2⟩
      · rintro ⟨h1, h2⟩; exact ⟨Or.inr h1, h2⟩

theorem lower_upper_ne : ∀ n < 91, 65 ≤ n → Char.ofNat (n + 32) ≠ '*' ∧ Char.ofNat (n + 32) ≠ '?' := by decide

theorem lowerChar_wild (c : Char) (h : c ≠ '*' ∧ c ≠ '?') : lowerChar c ≠ '*' ∧ lowerChar c ≠ '?' := by
  unfold lowerChar
  split
  · rename_i hu
    have h1 : 'A'.toNat = 65 := by decide
    have h2 : 'Z'.toNat = 90 := by decide
    exact lower_upper_ne c.toNat (by omega) (by omega)
  · exact h

theorem noWild_lower (p : List Char) (h : NoWild p) : NoWild (lowerAscii p) := by
  intro c hc
  simp only [lowerAscii, List.mem_map] at hc
  obtain ⟨d, hd, rfl⟩ := hc
  exact lowerChar_wild d (h d hd)

/-! ### the complete descriptions of INDEX on nested and on flat arrays, MATCH type 0 -/

theorem index_2d_spec (rows : List (List Value)) (hne : rows ≠ []) (r c : Option Int) :
    INDEX [arr2 rows, idxVal r, idxVal c] = .ok (spec2d rows r c) := by
  cases rows with
  | nil => exact absurd rfl hne
  | cons row0 rest =>
    simp only [INDEX]
    by_cases h : r = none ∧ c = none
    · obtain ⟨rfl, rfl⟩ := h
      simp [index3, arr2, idxVal, spec2d]
    · rw [index3_arr2 _ _ _ _ h]
      by_cases hneg : r.getD 0 < 0 ∨ c.getD 0 < 0
      · have : spec2d (row0 :: rest) r c = .err .value := by
          cases r <;> cases c <;> simp_all [spec2d]
        rw [this, if_pos hneg]
      · rw [if_neg hneg]
        have hr : 0 ≤ r.getD 0 := by omega
        have hc : 0 ≤ c.getD 0 := by omega
        congr 1
        cases r with
        | none =>
          cases c with
          | none => exact absurd ⟨rfl, rfl⟩ h
          | some c =>
            simp only [Option.map, indexCore_col, indexCore_rows_int _ 0 c (by omega) hc, spec2d, Option.getD]
            simp only [Option.getD] at hneg
            rw [if_neg hneg]
        | some r =>
          cases c with
          | none =>
            simp only [Option.map, indexCore_row, indexCore_rows_int _ r 0 hr (by omega), spec2d, Option.getD]
            simp only [Option.getD] at hneg
            rw [if_neg hneg]
          | some c =>
            simp only [Option.map, indexCore_rows_int _ r c hr hc, spec2d, Option.getD]
            simp only [Option.getD] at hneg
            rw [if_neg hneg]


theorem index_1d_spec (x0 : Value) (rest : List Value) (h0 : isArr x0 = false) (r c : Option Int) :
    INDEX [.arr (x0 :: rest), idxVal r, idxVal c] = .ok (spec1d (x0 :: rest) r c) := by
  simp only [INDEX]
  by_cases h : r = none ∧ c = none
  · obtain ⟨rfl, rfl⟩ := h
    simp [index3, idxVal, spec1d]
  · rw [index3_flat _ _ h0 _ _ h]
    by_cases hneg : r.getD 0 < 0 ∨ c.getD 0 < 0
    · have : spec1d (x0 :: rest) r c = .err .value := by
        cases r <;> cases c <;> simp_all [spec1d, single1d]
      rw [this, if_pos hneg]
    · rw [if_neg hneg]
      congr 1
      cases r with
      | none =>
        cases c with
        | none => exact absurd ⟨rfl, rfl⟩ h
        | some c =>
          simp only [Option.getD] at hneg
          simp only [Option.map, spec1d, indexCore_flat_single_col _ c (by omega)]
      | some r =>
        cases c with
        | none =>
          simp only [Option.getD] at hneg
          simp only [Option.map, spec1d, indexCore_flat_single_row _ r (by omega)]
        | some c =>
          simp only [Option.getD] at hneg
          simp only [Option.map, spec1d, indexCore_flat_both _ r c (by omega) (by omega)]
          rw [if_neg hneg]

theorem match_exact_findIdx (x : Value) (xs : List Value) (h : TextOK x xs) :
    MATCH [x, .arr xs, .num (.int 0)] = .ok (match xs.findIdx? (eqv x) with
      | some i => posValue i
      | none => .err .na) := by
  simp only [MATCH, match3, matchType_zero, h.1, Bool.false_eq_true, if_false]
  split
  · rename_i hf
    simp only [Bool.and_eq_true, Bool.not_eq_true', pyTruthy, List.isEmpty_eq_false_iff] at hf
    have : xs = [] := by simpa using hf.2
    subst this; simp
  · rw [scanExact_spec x xs 0 h.2]; simp

theorem spec2d_neg (rows : List (List Value)) (r c : Option Int) (h : r.getD 0 < 0 ∨ c.getD 0 < 0) :
    spec2d rows r c = .err .value := by
  cases r <;> cases c <;> simp_all [spec2d]

theorem spec2d_nonneg (rows : List (List Value)) (r c : Option Int) (hnn : ¬ (r = none ∧ c = none))
    (hneg : ¬ (r.getD 0 < 0 ∨ c.getD 0 < 0)) :
    spec2d rows r c =
      if r.getD 0 = 0 ∧ c.getD 0 = 0 then arr2 rows
      else if r.getD 0 = 0 then refOr ((column? rows (c.getD 0 - 1).toNat).map .arr)
      else if c.getD 0 = 0 then refOr ((rows[(r.getD 0 - 1).toNat]?).map .arr)
      else refOr ((rows[(r.getD 0 - 1).toNat]?).bind (fun row => row[(c.getD 0 - 1).toNat]?)) := by
  cases r with
  | none =>
    cases c with
    | none => exact absurd ⟨rfl, rfl⟩ hnn
    | some c => simp only [spec2d]; rw [if_neg hneg]
  | some r =>
    cases c with
    | none => simp only [spec2d]; rw [if_neg hneg]
    | some c => simp only [spec2d]; rw [if_neg hneg]

theorem column?_isSome (rows : List (List Value)) (k : Nat) (h : ∀ row ∈ rows, k < row.length) :
    ∃ col, column? rows k = some col := by
  induction rows with
  | nil => exact ⟨[], rfl⟩
  | cons row rest ih =>
    obtain ⟨col, hcol⟩ := ih (fun r hr => h r (by simp [hr]))
    have hk := h row (by simp)
    exact ⟨row[k] :: col, by simp only [column?, List.getElem?_eq_getElem hk, hcol]⟩

theorem column?_none (rows : List (List Value)) (k : Nat) (hne : rows ≠ [])
    (h : ∀ row ∈ rows, row.length ≤ k) : column? rows k = none := by
  cases rows with
  | nil => exact absurd rfl hne
  | cons row rest =>
    have hk : row[k]? = none := List.getElem?_eq_none (h row (by simp))
    simp only [column?, hk]

theorem ScanGood.pos {asc : Bool} {X : Rat} {whole : List Num} {res : Except Err Value}
    (g : ScanGood asc X whole res) (i : Nat) (h : res = .ok (posValue i)) :
    ∃ hi : i < whole.length, leD asc (val whole[i]) X ∧
      ∀ y ∈ whole, leD asc (val y) X → leD asc (val y) (val whole[i]) := by
  rcases g with ⟨k, hk, hlt, h1, h2⟩ | ⟨hna, _⟩
  · rw [hk] at h
    simp only [posValue, Except.ok.injEq, Value.num.injEq, Num.int.injEq] at h
    have : k = i := by omega
    subst this
    exact ⟨hlt, h1, h2⟩
  · rw [hna] at h; cases h

theorem ScanGood.na_iff {asc : Bool} {X : Rat} {whole : List Num} {res : Except Err Value}
    (g : ScanGood asc X whole res) :
    res = .ok (.err .na) ↔ ∀ y ∈ whole, ¬ leD asc (val y) X := by
  rcases g with ⟨k, hk, hlt, h1, _⟩ | ⟨hna, hall⟩
  · constructor
    · intro h; rw [hk] at h; cases h
    · intro hall; exact absurd h1 (hall _ (List.getElem_mem hlt))
  · exact ⟨fun _ => hall, fun _ => hna⟩

theorem ScanGood.total {asc : Bool} {X : Rat} {whole : List Num} {res : Except Err Value}
    (g : ScanGood asc X whole res) :
    (∃ i, i < whole.length ∧ res = .ok (posValue i)) ∨ res = .ok (.err .na) := by
  rcases g with ⟨k, hk, hlt, _, _⟩ | ⟨hna, _⟩
  · exact Or.inl ⟨k, hlt, hk⟩
  · exact Or.inr hna

/-- MATCH type 1 (`asc = true`) / −1 on an array of numbers sorted that way gives the right answer -/
theorem match_sorted (asc : Bool) (q : Num) (ns : List Num)
    (hs : ns.Pairwise (fun a b => leD asc (val a) (val b))) :
    ScanGood asc (val q) ns
      (MATCH [.num q, .arr (ns.map .num), .num (.int (if asc then 1 else -1))]) := by
  have hmt : matchType? (.num (.int (if asc then 1 else -1))) = some (if asc then .asc else .desc) := by
    cases asc <;> decide
  simp only [MATCH, match3, hmt]
  split
  · rename_i hf
    simp only [Bool.and_eq_true, Bool.not_eq_true', pyTruthy] at hf
    have : ns = [] := by simpa using hf.2
    subst this
    right; exact ⟨rfl, by simp⟩
  · have hz : ns.Pairwise (fun a b => val a = 0 → leD asc 0 (val b)) :=
      hs.imp (fun {a b} h h0 => by rw [← h0]; exact h)
    have := scanBest_good asc q ns [] 0 none rfl (by simpa using hz) (by simp) (by simp [ScanInv])
    cases asc <;> simpa [liftBest] using this

/-- the sorted numeric arrays the statement speaks about (duplicates allowed) -/
def Ascending (ns : List Num) : Prop := ns.Pairwise (fun a b => Num.toRat a ≤ Num.toRat b)
def Descending (ns : List Num) : Prop := ns.Pairwise (fun a b => Num.toRat b ≤ Num.toRat a)

theorem asc_leD (ns : List Num) (h : Ascending ns) : ns.Pairwise (fun a b => leD true (val a) (val b)) :=
  h.imp (fun {_ _} h => by simpa [leD] using h)
theorem desc_leD (ns : List Num) (h : Descending ns) : ns.Pairwise (fun a b => leD false (val a) (val b)) :=
  h.imp (fun {_ _} h => by simpa [leD] using h)

end HotXL.Lookup
