/-
  HotXL.Lemmas.RomanFloat — ROMAN on a whole number that arrives as a FLOAT (`1994.0`): the greedy
  loop on the rational (`romanLoopRat`, `int(number / arabic)` by truncation) takes the same steps
  as the loop on the integer (`romanLoop`, floor division), for every table with positive keys.
-/
import HotXL.Lemmas.RoundRoman
import Mathlib.Algebra.Order.Floor.Semiring
import Mathlib.Data.Rat.Floor

namespace HotXL.Lemmas.Round
open HotXL HotXL.Ops HotXL.Fn HotXL.Fn.Round

/-- `int(n / a)` on the exact quotient of two naturals is the floor division `n // a` -/
theorem ratTrunc_natCast_div (n a : Nat) : (ratTrunc ((n : Rat) / (a : Rat))).toNat = n / a := by
  have h0 : (0 : Rat) ≤ (n : Rat) / (a : Rat) := div_nonneg (Nat.cast_nonneg n) (Nat.cast_nonneg a)
  have hfl : ((n : Rat) / (a : Rat)).floor = ((n / a : Nat) : Int) := by
    exact (Rat.floor_natCast_div_natCast n a).trans (Int.natCast_ediv n a).symm
  simp only [ratTrunc, if_pos h0, hfl, Int.toNat_natCast]

/-- the remainder step stays inside the naturals -/
theorem natCast_sub_mul_div (n a : Nat) :
    (n : Rat) - ((a * (n / a) : Nat) : Rat) = ((n - a * (n / a) : Nat) : Rat) := by
  rw [Nat.cast_sub (Nat.mul_div_le n a)]

/-- on a natural number the float loop of ROMAN is the integer loop, for ANY table (with a key 0
    both model loops take `n / 0 = 0` copies; Python would raise ZeroDivisionError there, which is
    why the statement used below asks for positive keys) -/
theorem romanLoopRat_natCast_any (tbl : List (Nat × List Char)) (n : Nat) :
    romanLoopRat tbl (n : Rat) = romanLoop tbl n := by
  induction tbl generalizing n with
  | nil => rfl
  | cons p rest ih =>
    obtain ⟨a, r⟩ := p
    simp only [romanLoopRat, romanLoop]
    by_cases hn : n = 0
    · subst hn; simp
    · have hq : ((n : Rat) = 0) ↔ n = 0 := Nat.cast_eq_zero
      rw [if_neg (by rw [hq]; exact hn), if_neg hn, ratTrunc_natCast_div, natCast_sub_mul_div, ih]

/-- on a natural number the float loop of ROMAN (`int(number / arabic)`, truncation of the exact
    quotient) is the integer loop (`number // arabic`), for every table with positive keys -/
theorem romanLoopRat_natCast (tbl : List (Nat × List Char)) (_h : ∀ p ∈ tbl, 0 < p.1) (n : Nat) :
    romanLoopRat tbl (n : Rat) = romanLoop tbl n :=
  romanLoopRat_natCast_any tbl n

/-- every key of `numerals(form + 1)` is positive, for the five forms 0..4 -/
theorem numerals_pos (f : Nat) (hf : f ≤ 4) : ∀ p ∈ numerals (some (f + 1)), 0 < p.1 := by
  have hcases : f = 0 ∨ f = 1 ∨ f = 2 ∨ f = 3 ∨ f = 4 := by omega
  rcases hcases with rfl | rfl | rfl | rfl | rfl <;> decide +kernel

/-- evaluation of ROMAN on a float number and an int form inside the accepted ranges -/
theorem roman_flt (q : Rat) (f : Int) (h1 : 0 < q) (h2 : q < 4000) (hf0 : 0 ≤ f) (hf4 : f ≤ 4) :
    ROMAN [.num (.flt q), .num (.int f)] = .ok (.str (romanLoopRat (numerals (some (f + 1).toNat)) q)) := by
  have a3 : (0 : Rat) ≤ (f : Rat) := by exact_mod_cast hf0
  have a4 : (f : Rat) ≤ 4 := by exact_mod_cast hf4
  simp only [ROMAN, romanCore, parseNumber_num, Num.toRat, Generated.romanLimit, Generated.romanMaxForm, compressOf, integral?]
  simp [h1, h2, a3, a4]

/-- evaluation of ROMAN on a float number with the default form -/
theorem roman_flt_default (q : Rat) (h1 : 0 < q) (h2 : q < 4000) :
    ROMAN [.num (.flt q)] = .ok (.str (romanLoopRat (numerals (some 1)) q)) := by
  simp only [ROMAN, romanCore, parseNumber_num, Num.toRat, Generated.romanLimit, Generated.romanMaxForm, compressOf, integral?]
  simp [h1, h2]

end HotXL.Lemmas.Round
