/-
  HotXL.Lemmas.Record — helper definitions and lemmas for C01: the nine canonical code
  texts, the well-formedness predicate on the `{'result', 'error'}` record, the closed
  error table, and the fuel lemma of the lexer model.
-/
import HotXL.Model.Eval
namespace HotXL.Eval
open HotXL HotXL.Lexer HotXL.Syntax

/-- the nine canonical spreadsheet error codes, copied from the property statement
    (NOT from /repo: the generated table is compared against this list) -/
def nineCodes : List String :=
  ["#ERROR!", "#DIV/0!", "#NAME?", "#N/A", "#NULL!", "#NUM!", "#REF!", "#VALUE!", "#GETTING_DATA"]

/-- what the statement demands of the record returned by `parse`:
    * the error entry, when set, is one of the nine codes (true by typing of `Err`; kept visible);
    * when the error entry is set the result entry is empty;
    * the result entry is never itself an error object.
    (That the record has exactly the two entries is the shape of the structure `Record`.) -/
structure WellFormed (r : Record) : Prop where
  error_canonical : ∀ e, r.error = some e → e.code ∈ nineCodes
  error_excludes_result : r.error.isSome → r.result = none
  result_not_error : ∀ e, r.result ≠ some (.err e)

theorem code_mem_nine (e : Err) : e.code ∈ nineCodes := by cases e <;> decide

theorem nineCodes_eq : nineCodes = Err.all.map Err.code := by decide

theorem code_injective {a b : Err} (h : a.code = b.code) : a = b := by
  cases a <;> cases b <;> first | rfl | (exact absurd h (by decide))

theorem find?_none_of_forall {α : Type} (l : List α) (p : α → Bool) (h : ∀ x ∈ l, p x = false) :
    l.find? p = none := by
  simp only [List.find?_eq_none]
  intro x hx
  simp [h x hx]

/-- every key of the generated `errdict` is one of the nine code texts -/
theorem errorTable_keys : ∀ p ∈ Generated.errorTable, p.1 ∈ nineCodes := by decide

/-- a message that is not a key of the table falls through to the default -/
theorem fromMessage_default {m : String} (h : ∀ p ∈ Generated.errorTable, p.1 ≠ m) :
    fromMessage m = (errOfSingletonName Generated.errorDefault).getD .error := by
  have hf : Generated.errorTable.find? (fun p => p.1 = m) = none := by
    apply find?_none_of_forall
    intro p hp
    simpa using h p hp
  unfold fromMessage
  simp only [hf]

/-! ### the lexer's fuel -/

/-- a rule that fires consumes at least one character -/
theorem lexOne_pos {rules : List TK} {s : List Char} {k : TK} {n : Nat}
    (h : lexOne rules s = some (k, n)) : 0 < n := by
  unfold lexOne at h
  obtain ⟨a, _, ha⟩ := List.exists_of_findSome?_eq_some h
  split at ha
  · split at ha
    · cases ha
    · simp at ha; omega
  · cases ha

/-- any two amounts of fuel above the input length give the same token stream -/
theorem tokenizeAux_fuel (rules : List TK) : ∀ (fuel : Nat) (s : List Char), s.length < fuel →
    ∀ fuel', s.length < fuel' → tokenizeAux rules fuel s = tokenizeAux rules fuel' s := by
  intro fuel
  induction fuel with
  | zero => intro s h; omega
  | succ f ih =>
    intro s h fuel' h'
    obtain ⟨g, rfl⟩ : ∃ g, fuel' = g + 1 := ⟨fuel' - 1, by omega⟩
    cases s with
    | nil => simp [tokenizeAux]
    | cons c cs =>
      unfold tokenizeAux
      cases hl : lexOne rules (c :: cs) with
      | none => rfl
      | some kn =>
        obtain ⟨k, n⟩ := kn
        have hn := lexOne_pos hl
        have hlen : ((c :: cs).drop n).length < f := by
          simp [List.length_drop] at h ⊢; omega
        have hlen' : ((c :: cs).drop n).length < g := by
          simp [List.length_drop] at h' ⊢; omega
        simp only [ih _ hlen g hlen']

/-- the out-of-fuel branch of `tokenizeAux` is reached only on the empty remainder: with
    fuel above the input length, running out of fuel and running out of input coincide -/
theorem tokenizeAux_nil (rules : List TK) (fuel : Nat) : tokenizeAux rules fuel [] = [] := by
  cases fuel <;> simp [tokenizeAux]

end HotXL.Eval

/-! ### the parser's fuel: consumption, and "enough fuel" -/
namespace HotXL.Syntax
open HotXL HotXL.Lexer

/-- consumption: what is left after a successful parse is shorter than the input -/
theorem consume_all : ∀ f : Nat,
    (∀ ts x r, parsePrimary f ts = .ok (x, r) → r.length < ts.length) ∧
    (∀ acc ts x r, parseVarSeq f acc ts = .ok (x, r) → r.length ≤ ts.length) ∧
    (∀ m ts x r, parseExpr f m ts = .ok (x, r) → r.length < ts.length) ∧
    (∀ m l ts x r, parseLoop f m l ts = .ok (x, r) → r.length ≤ ts.length) ∧
    (∀ ts x r, parseItems f ts = .ok (x, r) → r.length ≤ ts.length) := by
  intro f
  induction f with
  | zero =>
    refine ⟨?_, ?_, ?_, ?_, ?_⟩ <;> intros <;> simp_all [parsePrimary, parseVarSeq, parseExpr, parseLoop, parseItems]
  | succ f ih =>
    obtain ⟨ihP, ihV, ihE, ihL, ihI⟩ := ih
    refine ⟨?_, ?_, ?_, ?_, ?_⟩
    · intro ts x r h
      unfold parsePrimary at h
      split at h
      · simp at h
      · rename_i t r0
        split at h
        all_goals (repeat' (split at h))
        all_goals (try (simp at h))
        all_goals (try (have hI := ihI _ _ _ ‹parseItems f _ = Except.ok (_, _)›))
        all_goals (try (have hE := ihE _ _ _ _ ‹parseExpr f _ _ = Except.ok (_, _)›))
        all_goals (try (have hV := ihV _ _ _ _ h))
        all_goals (try (obtain ⟨_, rfl⟩ := h))
        all_goals (simp only [List.length_cons] at *)
        all_goals (try omega)
    · intro acc ts x r h
      unfold parseVarSeq at h
      split at h
      · split at h
        · have := ihV _ _ _ _ h; simp; omega
        · simp at h
        · simp at h
      · simp at h; simp [h.2]
    · intro m ts x r h
      unfold parseExpr at h
      split at h
      · simp at h
      · rename_i l r1 hp
        have h1 := ihP _ _ _ hp
        have h2 := ihL _ _ _ _ _ h
        omega
    · intro m l ts x r h
      unfold parseLoop at h
      repeat' (split at h)
      all_goals (try (dsimp only at h))
      all_goals (repeat' (split at h))
      all_goals (try (simp at h))
      all_goals (try (have hE := ihE _ _ _ _ ‹parseExpr f _ _ = Except.ok (_, _)›))
      all_goals (try (have hL := ihL _ _ _ _ _ h))
      all_goals (try (obtain ⟨_, rfl⟩ := h))
      all_goals (simp only [List.length_cons, List.length_nil] at *)
      all_goals (try omega)
    · intro ts x r h
      unfold parseItems at h
      repeat' (split at h)
      all_goals (try (simp at h))
      all_goals (try (have hE := ihE _ _ _ _ ‹parseExpr f _ _ = Except.ok (_, _)›))
      all_goals (try (have hI := ihI _ _ _ ‹parseItems f _ = Except.ok (_, _)›))
      all_goals (try (obtain ⟨_, rfl⟩ := h))
      all_goals (simp only [List.length_cons, List.length_nil] at *)
      all_goals (try omega)


theorem parsePrimary_consumes {f : Nat} {ts : List Token} {x : Expr} {r : List Token}
    (h : parsePrimary f ts = .ok (x, r)) : r.length < ts.length := (consume_all f).1 ts x r h
theorem parseExpr_consumes {f m : Nat} {ts : List Token} {x : Expr} {r : List Token}
    (h : parseExpr f m ts = .ok (x, r)) : r.length < ts.length := (consume_all f).2.2.1 m ts x r h

/-- enough fuel: at or above the stated bound, more fuel changes nothing (errors included) -/
theorem enough_all : ∀ f : Nat,
    (∀ ts, 3 * ts.length + 1 ≤ f → ∀ g, f ≤ g → ∀ v, parsePrimary f ts = v → parsePrimary g ts = v) ∧
    (∀ acc ts, ts.length + 1 ≤ f → ∀ g, f ≤ g → ∀ v, parseVarSeq f acc ts = v → parseVarSeq g acc ts = v) ∧
    (∀ m ts, 3 * ts.length + 2 ≤ f → ∀ g, f ≤ g → ∀ v, parseExpr f m ts = v → parseExpr g m ts = v) ∧
    (∀ m l ts, 3 * ts.length + 1 ≤ f → ∀ g, f ≤ g → ∀ v, parseLoop f m l ts = v → parseLoop g m l ts = v) ∧
    (∀ ts, 3 * ts.length + 3 ≤ f → ∀ g, f ≤ g → ∀ v, parseItems f ts = v → parseItems g ts = v) := by
  intro f
  induction f with
  | zero =>
    refine ⟨?_, ?_, ?_, ?_, ?_⟩ <;> intros <;> omega
  | succ f ih =>
    obtain ⟨ihP, ihV, ihE, ihL, ihI⟩ := ih
    refine ⟨?_, ?_, ?_, ?_, ?_⟩
    · intro ts hb g hle v h
      obtain ⟨g, rfl⟩ : ∃ g', g = g' + 1 := ⟨g - 1, by omega⟩
      have hle' : f ≤ g := by omega
      unfold parsePrimary at h ⊢
      split at h
      · exact h
      · rename_i t r
        simp only [List.length_cons] at hb
        split at h
        all_goals try exact h
        · -- FUNCTION
          split at h
          · exact h
          · simp only [List.length_cons] at hb
            split at h
            · rename_i e hI
              rw [ihI _ (by omega) g hle' _ hI]
              exact h
            · rename_i items r2 hI
              rw [ihI _ (by omega) g hle' _ hI]
              exact h
          · exact h
          · exact h
        · -- LBRACKET
          split at h
          · rename_i e hI
            rw [ihI _ (by omega) g hle' _ hI]
            exact h
          · rename_i items r2 hI
            rw [ihI _ (by omega) g hle' _ hI]
            exact h
        · -- LPAREN
          split at h
          · rename_i e hE
            rw [ihE _ _ (by omega) g hle' _ hE]
            exact h
          · rename_i x r2 hE
            rw [ihE _ _ (by omega) g hle' _ hE]
            exact h
        · exact ihV _ _ (by omega) g hle' v h
        · -- MINUS
          split at h
          · rename_i e hE
            rw [ihE _ _ (by omega) g hle' _ hE]
            exact h
          · rename_i x r2 hE
            rw [ihE _ _ (by omega) g hle' _ hE]
            exact h
    · intro acc ts hb g hle v h
      obtain ⟨g, rfl⟩ : ∃ g', g = g' + 1 := ⟨g - 1, by omega⟩
      have hle' : f ≤ g := by omega
      unfold parseVarSeq at h ⊢
      split at h
      · split at h
        · exact ihV _ _ (by simp only [List.length_cons] at hb; omega) g hle' v h
        · exact h
        · exact h
      · exact h
    · intro m ts hb g hle v h
      obtain ⟨g, rfl⟩ : ∃ g', g = g' + 1 := ⟨g - 1, by omega⟩
      have hle' : f ≤ g := by omega
      unfold parseExpr at h ⊢
      split at h
      · rename_i e hp
        rw [ihP ts (by omega) g hle' _ hp]
        exact h
      · rename_i l r hp
        rw [ihP ts (by omega) g hle' _ hp]
        have := parsePrimary_consumes hp
        exact ihL _ _ _ (by omega) g hle' v h
    · intro m l ts hb g hle v h
      obtain ⟨g, rfl⟩ : ∃ g', g = g' + 1 := ⟨g - 1, by omega⟩
      have hle' : f ≤ g := by omega
      unfold parseLoop at h ⊢
      split at h
      · exact h
      · rename_i t r
        dsimp only
        split at h
        · exact h
        · rename_i op h1
          split at h
          · exact h
          · rename_i lv as h2
            by_cases h3 : lv ≥ m
            · simp only [h3, if_true] at h ⊢
              simp only [List.length_cons] at hb
              cases as <;> dsimp only at h ⊢ <;>
              · split at h
                · rename_i e hE
                  rw [ihE _ _ (by omega) g hle' _ hE]
                  exact h
                · rename_i rhs r2 hE
                  rw [ihE _ _ (by omega) g hle' _ hE]
                  have := parseExpr_consumes hE
                  exact ihL _ _ _ (by omega) g hle' v h
            · simp only [h3, if_false] at h ⊢
              exact h
    · intro ts hb g hle v h
      obtain ⟨g, rfl⟩ : ∃ g', g = g' + 1 := ⟨g - 1, by omega⟩
      have hle' : f ≤ g := by omega
      unfold parseItems at h ⊢
      split at h
      · exact h
      · rename_i t r
        simp only [List.length_cons] at hb
        split at h
        · rename_i c1; rw [if_pos c1]; exact h
        · rename_i c1; rw [if_neg c1]
          split at h
          · rename_i c2; rw [if_pos c2]
            split at h
            · rename_i e hI
              rw [ihI _ (by omega) g hle' _ hI]
              exact h
            · rename_i items r2 hI
              rw [ihI _ (by omega) g hle' _ hI]
              exact h
          · rename_i c2; rw [if_neg c2]
            split at h
            · rename_i e hE
              rw [ihE _ _ (by simp only [List.length_cons]; omega) g hle' _ hE]
              exact h
            · rename_i x r2 hE
              rw [ihE _ _ (by simp only [List.length_cons]; omega) g hle' _ hE]
              have hc := parseExpr_consumes hE
              simp only [List.length_cons] at hc
              dsimp only
              split at h
              · rename_i e hI
                rw [ihI _ (by omega) g hle' _ hI]
                exact h
              · rename_i items r3 hI
                rw [ihI _ (by omega) g hle' _ hI]
                exact h

theorem parseVarSeq_consumes {f : Nat} {acc : List (List Char)} {ts : List Token} {x : Expr} {r : List Token}
    (h : parseVarSeq f acc ts = .ok (x, r)) : r.length ≤ ts.length := (consume_all f).2.1 acc ts x r h
theorem parseLoop_consumes {f m : Nat} {l : Expr} {ts : List Token} {x : Expr} {r : List Token}
    (h : parseLoop f m l ts = .ok (x, r)) : r.length ≤ ts.length := (consume_all f).2.2.2.1 m l ts x r h
theorem parseItems_consumes {f : Nat} {ts : List Token} {x : List Item} {r : List Token}
    (h : parseItems f ts = .ok (x, r)) : r.length ≤ ts.length := (consume_all f).2.2.2.2 ts x r h

end HotXL.Syntax
