/-
  HotXL.Lemmas.Events — the event log of `Eval.evalExpr` (C10).

  * `RefNode`, `refsPostorder`, `refsList`: the reference / call nodes of a tree in post-order
    (arguments before their call, left operand before right operand);
  * `nodeEvents env n`: what the `Parser.call_*` model logs for the node `n` alone;
  * the log is a pure writer (`evalExpr_writer`): the value never depends on the log so far, the
    log only grows at its end;
  * `evalExpr_events`: the events logged are a prefix of those of the post-order nodes, all of
    them (one per node) when the evaluation does not abort.
-/
import HotXL.Model.Eval
import HotXL.Props.C19

namespace HotXL.Events
open HotXL HotXL.Syntax HotXL.Eval

/-- a node of an expression tree that raises an event: a cell, a range, a variable (sequence;
    `name` is its first name, the one `p_expression_varseq` passes on), a call -/
inductive RefNode where
  | cell (label : List Char)
  | range (a b : List Char)
  | var (name : List Char)
  | call (name : List Char) (kind : SeqKind) (a b : List Expr)
  deriving Repr

mutual
/-- the reference / call nodes of a tree in post-order: left operand before right operand, the
    arguments of a call (each in turn, left to right) before the call itself -/
def refsPostorder : Expr → List RefNode
  | .num _ => []
  | .str _ => []
  | .errLit _ => []
  | .blankSlot => []
  | .neg e => refsPostorder e
  | .bin _ l r => refsPostorder l ++ refsPostorder r
  | .call name kind a b => refsList a ++ refsList b ++ [.call name kind a b]
  | .arr _ a b => refsList a ++ refsList b
  | .var names => [.var (names.headD [])]
  | .cell l => [.cell l]
  | .range a b => [.range a b]
/-- the same for a sequence of argument slots / array elements -/
def refsList : List Expr → List RefNode
  | [] => []
  | e :: es => refsPostorder e ++ refsList es
end

/-- the values of a list of argument slots (the event log does not influence them:
    `evalList_writer`); `[]` if their evaluation aborts -/
def valuesOf (env : Env) (es : List Expr) : List Value :=
  match (evalList env es []).1 with
  | .ok vs => vs
  | .error _ => []

/-- the arguments `call_function` receives for the call node `name(kind a b)` -/
def callArgs (env : Env) (kind : SeqKind) (a b : List Expr) : List Value :=
  seqValues kind (valuesOf env a) (valuesOf env b)

/-- what `call_cell_value` / `call_range_value` / `call_variable` / `call_function` log for one
    node (nothing when they raise before `emit`) -/
def nodeEvents (env : Env) : RefNode → List Event
  | .cell l => (callCell env l []).2
  | .range a b => (callRange env a b []).2
  | .var n => (callVariable env n []).2
  | .call name kind a b => (callFunction env name (callArgs env kind a b) []).2

/-- all events of a tree, in post-order -/
def allEvents (env : Env) (t : Expr) : List Event := (refsPostorder t).flatMap (nodeEvents env)
def allEventsList (env : Env) (es : List Expr) : List Event := (refsList es).flatMap (nodeEvents env)

/-! ### the four `call_*` are writers -/

theorem callCell_writer (env : Env) (l : List Char) (log : Log) :
    callCell env l log = ((callCell env l []).1, log ++ (callCell env l []).2) := by
  unfold callCell
  cases h : Cell.extractLabel (Cell.upper l) with
  | none => simp [h]
  | some p => simp [h]

theorem callRange_writer (env : Env) (a b : List Char) (log : Log) :
    callRange env a b log = ((callRange env a b []).1, log ++ (callRange env a b []).2) := by
  unfold callRange
  cases h : Cell.extractLabel (Cell.upper a) with
  | none => simp [h]
  | some p =>
    cases h' : Cell.extractLabel (Cell.upper b) with
    | none => simp [h, h']
    | some q => simp [h, h']

theorem callVariable_writer (env : Env) (n : List Char) (log : Log) :
    callVariable env n log = ((callVariable env n []).1, log ++ (callVariable env n []).2) := by
  unfold callVariable
  cases env.vars n with
  | some v => simp
  | none =>
    cases predefined n with
    | some v => simp
    | none => simp

/-- name resolution of `call_function`: instance functions shadow the registry -/
def resolveFn (env : Env) (name : List Char) : Option HostFn :=
  match env.custom name with
  | some f => some f
  | none =>
    if Builtins.isRegistered (String.ofList name) then
      match Builtins.model? (String.ofList name) with
      | some b => some (fun a => match b a with
            | .ok v => if isNoOpinion v then .error .unmodelled else .ok v
            | .error e => .error (.xl e))
      | none => some (fun _ => .error .unmodelled)
    else none

/-- the rest of `call_function` once the name is resolved -/
def callWith (fn? : Option HostFn) (name : List Char) (args : List Value) (log : Log) :
    Except Exn Value × Log :=
  match fn? with
  | none => (.error (.xl .name), log)
  | some f =>
    match f args with
    | .ok v => (.ok v, log ++ [.fn name args])
    | .error .unmodelled => (.error .unmodelled, log)
    | .error x => (.ok (.err x.toErr), log ++ [.fn name args])

/-- `Eval.callFunction` is literally these two steps -/
theorem callFunction_eq (env : Env) (n : List Char) (args : List Value) (log : Log) :
    callFunction env n args log = callWith (resolveFn env n) n args log := rfl

theorem callWith_writer (fn? : Option HostFn) (n : List Char) (args : List Value) (log : Log) :
    callWith fn? n args log = ((callWith fn? n args []).1, log ++ (callWith fn? n args []).2) := by
  unfold callWith
  cases fn? with
  | none => simp
  | some f =>
    cases hf : f args with
    | ok v => simp [hf]
    | error x => cases x <;> simp [hf]

theorem callFunction_writer (env : Env) (n : List Char) (args : List Value) (log : Log) :
    callFunction env n args log =
      ((callFunction env n args []).1, log ++ (callFunction env n args []).2) := by
  simp only [callFunction_eq]
  exact callWith_writer _ _ _ _

/-! ### a successful `call_*` logs exactly one event -/

theorem callCell_ok {env : Env} {l : List Char} {v : Value} {log : Log}
    (h : callCell env l [] = (.ok v, log)) : ∃ e, log = [e] := by
  unfold callCell at h
  cases hx : Cell.extractLabel (Cell.upper l) with
  | none => simp [hx] at h
  | some p => simp [hx] at h; exact ⟨_, h.2.symm⟩

theorem callRange_ok {env : Env} {a b : List Char} {v : Value} {log : Log}
    (h : callRange env a b [] = (.ok v, log)) : ∃ e, log = [e] := by
  unfold callRange at h
  cases hx : Cell.extractLabel (Cell.upper a) with
  | none => simp [hx] at h
  | some p =>
    cases hy : Cell.extractLabel (Cell.upper b) with
    | none => simp [hx, hy] at h
    | some q => simp [hx, hy] at h; exact ⟨_, h.2.symm⟩

theorem callVariable_events (env : Env) (n : List Char) :
    (callVariable env n []).2 = [.var n] := by
  unfold callVariable
  cases env.vars n with
  | some v => simp
  | none =>
    cases predefined n with
    | some v => simp
    | none => simp

theorem callWith_ok {fn? : Option HostFn} {n : List Char} {args : List Value} {v : Value} {log : Log}
    (h : callWith fn? n args [] = (.ok v, log)) : log = [.fn n args] := by
  unfold callWith at h
  cases fn? with
  | none => simp at h
  | some f =>
    cases hf : f args with
    | ok w => simp [hf] at h; exact h.2.symm
    | error x => cases x <;> simp [hf] at h <;> exact h.2.symm

theorem callFunction_ok {env : Env} {n : List Char} {args : List Value} {v : Value} {log : Log}
    (h : callFunction env n args [] = (.ok v, log)) : log = [.fn n args] := by
  rw [callFunction_eq] at h
  exact callWith_ok h

/-! ### the evaluator is a writer: values never depend on the log so far -/

mutual
theorem evalExpr_writer (env : Env) : ∀ (t : Expr) (log : Log),
    evalExpr env t log = ((evalExpr env t []).1, log ++ (evalExpr env t []).2)
  | .num l, log => by simp only [evalExpr]; split <;> simp
  | .str s, log => by simp [evalExpr]
  | .errLit t, log => by simp [evalExpr]
  | .blankSlot, log => by simp [evalExpr]
  | .neg e, log => by
    have ih := evalExpr_writer env e log
    rw [evalExpr, evalExpr, ih]
    rcases evalExpr env e [] with ⟨r, lg⟩
    cases r with
    | error x => simp
    | ok v => simp only []; split <;> rfl
  | .bin op l r, log => by
    have ih := evalExpr_writer env l log
    rw [evalExpr, evalExpr, ih]
    rcases evalExpr env l [] with ⟨x, lg⟩
    cases x with
    | error x => simp
    | ok lv =>
      simp only []
      have ih2 := evalExpr_writer env r (log ++ lg)
      have ih3 := evalExpr_writer env r lg
      rw [ih2, ih3]
      rcases evalExpr env r [] with ⟨y, lg2⟩
      cases y <;> simp
  | .call name kind a b, log => by
    have ih := evalList_writer env a log
    rw [evalExpr, evalExpr, ih]
    rcases evalList env a [] with ⟨x, lg⟩
    cases x with
    | error x => simp
    | ok av =>
      simp only []
      have ih2 := evalList_writer env b (log ++ lg)
      have ih3 := evalList_writer env b lg
      rw [ih2, ih3]
      rcases evalList env b [] with ⟨y, lg2⟩
      cases y with
      | error x => simp
      | ok bv =>
        simp only []
        rw [callFunction_writer env name _ (log ++ lg ++ lg2), callFunction_writer env name _ (lg ++ lg2)]
        simp
  | .arr kind a b, log => by
    have ih := evalList_writer env a log
    rw [evalExpr, evalExpr, ih]
    rcases evalList env a [] with ⟨x, lg⟩
    cases x with
    | error x => simp
    | ok av =>
      simp only []
      have ih2 := evalList_writer env b (log ++ lg)
      have ih3 := evalList_writer env b lg
      rw [ih2, ih3]
      rcases evalList env b [] with ⟨y, lg2⟩
      cases y <;> simp
  | .var names, log => by
    rw [evalExpr, evalExpr]; exact callVariable_writer _ _ _
  | .cell l, log => by
    rw [evalExpr, evalExpr]; exact callCell_writer _ _ _
  | .range a b, log => by
    rw [evalExpr, evalExpr]; exact callRange_writer _ _ _ _
theorem evalList_writer (env : Env) : ∀ (es : List Expr) (log : Log),
    evalList env es log = ((evalList env es []).1, log ++ (evalList env es []).2)
  | [], log => by simp [evalList]
  | e :: es, log => by
    have ih := evalExpr_writer env e log
    rw [evalList, evalList, ih]
    rcases evalExpr env e [] with ⟨x, lg⟩
    cases x with
    | error x => simp
    | ok v =>
      simp only []
      have ih2 := evalList_writer env es (log ++ lg)
      have ih3 := evalList_writer env es lg
      rw [ih2, ih3]
      rcases evalList env es [] with ⟨y, lg2⟩
      cases y <;> simp
end

/-! ### the events are those of the post-order nodes -/

/-- every node of the list raises exactly one event -/
def EachOne (env : Env) (ns : List RefNode) : Prop := ∀ n ∈ ns, ∃ e, nodeEvents env n = [e]

theorem EachOne.append {env : Env} {a b : List RefNode} (ha : EachOne env a) (hb : EachOne env b) :
    EachOne env (a ++ b) := by
  intro n hn
  rcases List.mem_append.mp hn with h | h
  · exact ha n h
  · exact hb n h

theorem eachOne_nil (env : Env) : EachOne env [] := by intro n hn; cases hn

theorem eachOne_singleton {env : Env} {n : RefNode} (h : ∃ e, nodeEvents env n = [e]) :
    EachOne env [n] := by
  intro m hm
  rw [List.mem_singleton] at hm
  subst hm; exact h

theorem allEvents_bin (env : Env) (op : BinOp) (l r : Expr) :
    allEvents env (.bin op l r) = allEvents env l ++ allEvents env r := by
  simp [allEvents, refsPostorder]

theorem allEvents_call (env : Env) (name : List Char) (kind : SeqKind) (a b : List Expr) :
    allEvents env (.call name kind a b) =
      allEventsList env a ++ allEventsList env b ++ nodeEvents env (.call name kind a b) := by
  simp [allEvents, allEventsList, refsPostorder]

theorem allEvents_arr (env : Env) (kind : SeqKind) (a b : List Expr) :
    allEvents env (.arr kind a b) = allEventsList env a ++ allEventsList env b := by
  simp [allEvents, allEventsList, refsPostorder]

theorem allEventsList_cons (env : Env) (e : Expr) (es : List Expr) :
    allEventsList env (e :: es) = allEvents env e ++ allEventsList env es := by
  simp [allEvents, allEventsList, refsList]

/-- the statement proved by mutual induction, for a tree -/
def Spec (env : Env) (t : Expr) : Prop :=
  (evalExpr env t []).2 <+: allEvents env t ∧
  ∀ v, (evalExpr env t []).1 = .ok v →
    (evalExpr env t []).2 = allEvents env t ∧ EachOne env (refsPostorder t)

def SpecList (env : Env) (es : List Expr) : Prop :=
  (evalList env es []).2 <+: allEventsList env es ∧
  ∀ vs, (evalList env es []).1 = .ok vs →
    (evalList env es []).2 = allEventsList env es ∧ EachOne env (refsList es)

/-- two sequences evaluated one after the other (arguments `a` then `b`) -/
theorem seq2 {env : Env} {a b : List Expr} (ha : SpecList env a) (hb : SpecList env b) :
    ∀ x lg, evalList env a [] = (x, lg) →
      match x with
      | .error _ => lg <+: allEventsList env a ++ allEventsList env b
      | .ok av => valuesOf env a = av ∧ lg = allEventsList env a ∧ EachOne env (refsList a) ∧
          ∀ y lg2, evalList env b [] = (y, lg2) →
            lg ++ lg2 <+: allEventsList env a ++ allEventsList env b ∧
            ∀ bv, y = .ok bv → valuesOf env b = bv ∧
              lg ++ lg2 = allEventsList env a ++ allEventsList env b ∧ EachOne env (refsList b) := by
  intro x lg h
  cases x with
  | error e =>
    have := ha.1; rw [h] at this
    exact List.IsPrefix.trans this (List.prefix_append _ _)
  | ok av =>
    have h2 := ha.2 av (by rw [h])
    rw [h] at h2
    refine ⟨by simp [valuesOf, h], h2.1, h2.2, ?_⟩
    intro y lg2 hy
    have h3 := hb.1; rw [hy] at h3
    simp only at h2
    refine ⟨?_, ?_⟩
    · rw [h2.1]; exact (List.prefix_append_right_inj _).mpr h3
    · intro bv hbv
      subst hbv
      have h4 := hb.2 bv (by rw [hy])
      rw [hy] at h4
      refine ⟨by simp [valuesOf, hy], ?_, h4.2⟩
      have h5 : lg2 = allEventsList env b := h4.1
      rw [h2.1, h5]


theorem pre_nil (l : List Event) : ([] : List Event) <+: l := List.nil_prefix

mutual
theorem evalExpr_spec (env : Env) : ∀ t : Expr, Spec env t
  | .num l => by
    simp only [Spec, evalExpr]; split <;> simp [allEvents, refsPostorder, eachOne_nil]
  | .str s => by simp [Spec, evalExpr, allEvents, refsPostorder, eachOne_nil]
  | .errLit t => by simp [Spec, evalExpr, allEvents, refsPostorder]
  | .blankSlot => by simp [Spec, evalExpr, allEvents, refsPostorder, eachOne_nil]
  | .neg e => by
    have ih := evalExpr_spec env e
    unfold Spec at ih ⊢
    rw [evalExpr]
    have hall : allEvents env (.neg e) = allEvents env e := by simp [allEvents, refsPostorder]
    have href : refsPostorder (.neg e) = refsPostorder e := by simp [refsPostorder]
    rw [hall, href]
    rcases h : evalExpr env e [] with ⟨x, lg⟩
    rw [h] at ih
    cases x with
    | error x => exact ⟨ih.1, by simp⟩
    | ok v =>
      have ih2 := ih.2 v rfl
      simp only []
      split
      · exact ⟨ih.1, fun _ _ => ih2⟩
      · exact ⟨ih.1, by simp⟩
  | .bin op l r => by
    have ihl := evalExpr_spec env l
    have ihr := evalExpr_spec env r
    unfold Spec at ihl ihr ⊢
    rw [evalExpr, allEvents_bin]
    have href : refsPostorder (.bin op l r) = refsPostorder l ++ refsPostorder r := by
      simp [refsPostorder]
    rw [href]
    rcases h : evalExpr env l [] with ⟨x, lg⟩
    rw [h] at ihl
    cases x with
    | error x => exact ⟨List.IsPrefix.trans ihl.1 (List.prefix_append _ _), by simp⟩
    | ok lv =>
      have il := ihl.2 lv rfl
      have hlg : lg = allEvents env l := il.1
      simp only []
      rw [evalExpr_writer env r lg]
      rcases h2 : evalExpr env r [] with ⟨y, lg2⟩
      rw [h2] at ihr
      have hp : lg ++ lg2 <+: allEvents env l ++ allEvents env r := by
        rw [hlg]; exact (List.prefix_append_right_inj _).mpr ihr.1
      cases y with
      | error y => exact ⟨hp, by simp⟩
      | ok rv =>
        have ir := ihr.2 rv rfl
        have hlg2 : lg2 = allEvents env r := ir.1
        refine ⟨hp, fun _ _ => ⟨?_, il.2.append ir.2⟩⟩
        simp only []
        rw [hlg, hlg2]
  | .call name kind a b => by
    have s := seq2 (evalList_spec env a) (evalList_spec env b)
    unfold Spec
    rw [evalExpr, allEvents_call]
    have href : refsPostorder (.call name kind a b) =
        refsList a ++ refsList b ++ [.call name kind a b] := by simp [refsPostorder]
    rw [href]
    rcases h : evalList env a [] with ⟨x, lg⟩
    have s1 := s x lg h
    cases x with
    | error x =>
      exact ⟨List.IsPrefix.trans s1 (List.prefix_append _ _), by simp⟩
    | ok av =>
      obtain ⟨hva, hlg, hea, s2⟩ := s1
      simp only []
      rw [evalList_writer env b lg]
      rcases h2 : evalList env b [] with ⟨y, lg2⟩
      obtain ⟨hp, s3⟩ := s2 y lg2 h2
      cases y with
      | error y => exact ⟨List.IsPrefix.trans hp (List.prefix_append _ _), by simp⟩
      | ok bv =>
        obtain ⟨hvb, hlg2, heb⟩ := s3 bv rfl
        simp only []
        rw [callFunction_writer env name _ (lg ++ lg2)]
        have hn : nodeEvents env (.call name kind a b) =
            (callFunction env name (seqValues kind av bv) []).2 := by
          simp [nodeEvents, callArgs, hva, hvb]
        rw [hn, hlg2]
        refine ⟨List.prefix_refl _, ?_⟩
        intro v hv
        refine ⟨rfl, (hea.append heb).append (eachOne_singleton ?_)⟩
        rw [hn]
        exact ⟨_, callFunction_ok (v := v) (Prod.ext hv rfl)⟩
  | .arr kind a b => by
    have s := seq2 (evalList_spec env a) (evalList_spec env b)
    unfold Spec
    rw [evalExpr, allEvents_arr]
    have href : refsPostorder (.arr kind a b) = refsList a ++ refsList b := by simp [refsPostorder]
    rw [href]
    rcases h : evalList env a [] with ⟨x, lg⟩
    have s1 := s x lg h
    cases x with
    | error x => exact ⟨s1, by simp⟩
    | ok av =>
      obtain ⟨hva, hlg, hea, s2⟩ := s1
      simp only []
      rw [evalList_writer env b lg]
      rcases h2 : evalList env b [] with ⟨y, lg2⟩
      obtain ⟨hp, s3⟩ := s2 y lg2 h2
      cases y with
      | error y => exact ⟨hp, by simp⟩
      | ok bv =>
        obtain ⟨hvb, hlg2, heb⟩ := s3 bv rfl
        exact ⟨hp, fun _ _ => ⟨hlg2, hea.append heb⟩⟩
  | .var names => by
    unfold Spec
    rw [evalExpr]
    have hall : allEvents env (.var names) = (callVariable env (names.headD []) []).2 := by
      simp [allEvents, refsPostorder, nodeEvents]
    rw [hall]
    refine ⟨List.prefix_refl _, fun v hv => ⟨rfl, ?_⟩⟩
    simp only [refsPostorder]
    exact eachOne_singleton ⟨_, callVariable_events env _⟩
  | .cell l => by
    unfold Spec
    rw [evalExpr]
    have hall : allEvents env (.cell l) = (callCell env l []).2 := by
      simp [allEvents, refsPostorder, nodeEvents]
    rw [hall]
    refine ⟨List.prefix_refl _, fun v hv => ⟨rfl, ?_⟩⟩
    simp only [refsPostorder]
    exact eachOne_singleton (callCell_ok (v := v) (Prod.ext hv rfl))
  | .range a b => by
    unfold Spec
    rw [evalExpr]
    have hall : allEvents env (.range a b) = (callRange env a b []).2 := by
      simp [allEvents, refsPostorder, nodeEvents]
    rw [hall]
    refine ⟨List.prefix_refl _, fun v hv => ⟨rfl, ?_⟩⟩
    simp only [refsPostorder]
    exact eachOne_singleton (callRange_ok (v := v) (Prod.ext hv rfl))
theorem evalList_spec (env : Env) : ∀ es : List Expr, SpecList env es
  | [] => by simp [SpecList, evalList, allEventsList, refsList, eachOne_nil]
  | e :: es => by
    have ihe := evalExpr_spec env e
    have ihs := evalList_spec env es
    unfold Spec at ihe
    unfold SpecList at ihs ⊢
    rw [evalList, allEventsList_cons]
    have href : refsList (e :: es) = refsPostorder e ++ refsList es := by simp [refsList]
    rw [href]
    rcases h : evalExpr env e [] with ⟨x, lg⟩
    rw [h] at ihe
    cases x with
    | error x => exact ⟨List.IsPrefix.trans ihe.1 (List.prefix_append _ _), by simp⟩
    | ok v =>
      have il := ihe.2 v rfl
      have hlg : lg = allEvents env e := il.1
      simp only []
      rw [evalList_writer env es lg]
      rcases h2 : evalList env es [] with ⟨y, lg2⟩
      rw [h2] at ihs
      have hp : lg ++ lg2 <+: allEvents env e ++ allEventsList env es := by
        rw [hlg]; exact (List.prefix_append_right_inj _).mpr ihs.1
      cases y with
      | error y => exact ⟨hp, by simp⟩
      | ok vs =>
        have ir := ihs.2 vs rfl
        have hlg2 : lg2 = allEventsList env es := ir.1
        refine ⟨hp, fun _ _ => ⟨?_, il.2.append ir.2⟩⟩
        simp only []
        rw [hlg, hlg2]
end

/-! ### cell and range events on valid labels (`Props.C19.fmt`) -/

open HotXL.Cell
open HotXL.Props.C19 (fmt)

/-- the row part `extract_label` delivers for row number `n` written with marker `ra` -/
def rowPart (ra : Bool) (n : Nat) : ParsedLabel :=
  { index := (n : Int) - 1, label := PyNum.natToDec n, isAbsolute := ra }
/-- the column part `extract_label` delivers for the (upper-cased) letters `cs` with marker `ca` -/
def colPart (ca : Bool) (cs : List Char) : ParsedLabel :=
  { index := colLabelToIndex cs, label := upper cs, isAbsolute := ca }

theorem upper_fmt (ca ra : Bool) (cs : List Char) (n : Nat) :
    upper (fmt ca cs ra n) = fmt ca (upper cs) ra n := by
  unfold fmt
  rw [show (if ca then ['$'] else []) = dollar ca from rfl,
    show (if ra then ['$'] else []) = dollar ra from rfl,
    upper_append, upper_append, upper_append, upper_dollar, upper_dollar,
    upper_of_all_digits (PyNum.natToDec_all_digits n)]

/-- decomposition of an upper-cased label -/
theorem extract_upper_fmt (ca ra : Bool) (cs : List Char) (n : Nat)
    (hcs : cs ≠ []) (hl : ∀ c ∈ cs, isLetter c = true) (hn : 1 ≤ n) :
    extractLabel (upper (fmt ca cs ra n)) = some (rowPart ra n, colPart ca cs) := by
  rw [upper_fmt]
  have hup := all_upper_upper hl
  have hl' : ∀ c ∈ upper cs, isLetter c = true := fun c hc => isLetter_of_isUpperAZ (hup c hc)
  have hne : upper cs ≠ [] := fun h => hcs (upper_eq_nil_iff.mp h)
  unfold fmt
  rw [extractLabel_of_shape ca ra (upper cs) _ hne hl' (PyNum.natToDec_ne_nil n)
    (PyNum.natToDec_all_digits n)]
  rw [(Props.C19.row_roundtrip n hn).1, Props.C19.col_case_insensitive]
  rfl

/-- recomposition of a row part and a column part (possibly of different labels) -/
theorem toLabel_parts (ca ra : Bool) (cs : List Char) (n : Nat)
    (hcs : cs ≠ []) (hl : ∀ c ∈ cs, isLetter c = true) (hn : 1 ≤ n) :
    toLabel (rowPart ra n) (colPart ca cs) = upper (fmt ca cs ra n) := by
  obtain ⟨row, col, h1, h2, _⟩ := Props.C19.label_roundtrip ca ra (upper cs) n
    (fun h => hcs (upper_eq_nil_iff.mp h))
    (fun c hc => isLetter_of_isUpperAZ (all_upper_upper hl c hc)) hn
  rw [← upper_fmt, extract_upper_fmt ca ra cs n hcs hl hn] at h1
  injection h1 with h1
  injection h1 with hr hc
  rw [hr, hc, h2, ← upper_fmt, upper_idem]


theorem extract_toLabel_parts (ca ra : Bool) (cs : List Char) (n : Nat)
    (hcs : cs ≠ []) (hl : ∀ c ∈ cs, isLetter c = true) (hn : 1 ≤ n) :
    extractLabel (toLabel (rowPart ra n) (colPart ca cs)) = some (rowPart ra n, colPart ca cs) := by
  rw [toLabel_parts ca ra cs n hcs hl hn, extract_upper_fmt ca ra cs n hcs hl hn]

/-- `call_cell_value` on a valid label -/
theorem callCell_fmt (env : Env) (ca ra : Bool) (cs : List Char) (n : Nat)
    (hcs : cs ≠ []) (hl : ∀ c ∈ cs, isLetter c = true) (hn : 1 ≤ n) (log : Log) :
    callCell env (fmt ca cs ra n) log =
      (.ok (env.cellValue (upper (fmt ca cs ra n))),
        log ++ [.cell (upper (fmt ca cs ra n)) (rowPart ra n) (colPart ca cs)]) := by
  unfold callCell
  simp only [extract_upper_fmt ca ra cs n hcs hl hn]

/-- the part with the smaller index (the first one on a tie), as `call_range_value` picks it -/
def lo (p q : ParsedLabel) : ParsedLabel := if p.index ≤ q.index then p else q
/-- the part with the larger index (the second one on a tie) -/
def hi (p q : ParsedLabel) : ParsedLabel := if p.index ≤ q.index then q else p

theorem lo_hi_cases (p q : ParsedLabel) :
    (lo p q = p ∧ hi p q = q ∧ p.index ≤ q.index) ∨ (lo p q = q ∧ hi p q = p ∧ q.index < p.index) := by
  unfold lo hi
  by_cases h : p.index ≤ q.index
  · left; simp [h]
  · right; simp [h]; omega

/-- `call_range_value` on two valid labels -/
theorem callRange_fmt (env : Env) (ca ra cb rb : Bool) (cs ds : List Char) (n m : Nat)
    (hcs : cs ≠ []) (hl : ∀ c ∈ cs, isLetter c = true) (hn : 1 ≤ n)
    (hds : ds ≠ []) (hl' : ∀ c ∈ ds, isLetter c = true) (hm : 1 ≤ m) (log : Log) :
    callRange env (fmt ca cs ra n) (fmt cb ds rb m) log =
      (.ok (env.rangeValue
          (toLabel (lo (rowPart ra n) (rowPart rb m)) (lo (colPart ca cs) (colPart cb ds)))
          (toLabel (hi (rowPart ra n) (rowPart rb m)) (hi (colPart ca cs) (colPart cb ds)))),
        log ++ [.range
          (toLabel (lo (rowPart ra n) (rowPart rb m)) (lo (colPart ca cs) (colPart cb ds)))
          (lo (rowPart ra n) (rowPart rb m)) (lo (colPart ca cs) (colPart cb ds))
          (toLabel (hi (rowPart ra n) (rowPart rb m)) (hi (colPart ca cs) (colPart cb ds)))
          (hi (rowPart ra n) (rowPart rb m)) (hi (colPart ca cs) (colPart cb ds))]) := by
  unfold callRange
  simp only [extract_upper_fmt ca ra cs n hcs hl hn, extract_upper_fmt cb rb ds m hds hl' hm]
  unfold lo hi
  by_cases h1 : (rowPart ra n).index ≤ (rowPart rb m).index <;>
    by_cases h2 : (colPart ca cs).index ≤ (colPart cb ds).index <;> simp [h1, h2]

end HotXL.Events
