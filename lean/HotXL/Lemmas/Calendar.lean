/-
  HotXL.Lemmas.Calendar — the transcription of CPython's calendar arithmetic in
  `HotXL.Model.Calendar` (`_ymd2ord`, `_ord2ymd`, `_is_leap`, `_days_in_month`, `weekday`) is a
  lawful proleptic Gregorian calendar, for ALL years (no bound, negative years included):

  * `ordinal_of_ymd_of_ordinal` : `ymdOfOrdinal n` is a valid date whose ordinal is `n`;
  * `ordinal_strict_mono`       : the lexicographic order on valid dates is the order of ordinals;
  * `ymd_of_ordinal_of_ymd`     : `ymdOfOrdinal (ordinalOfYMD y m d) = (y, m, d)` on valid dates;
  * `year_length`, `month_length`, `ordinal_succ_*`: a year has 365/366 days, consecutive days have
    consecutive ordinals; `weekday_succ`, `weekday_anchor`: weekdays cycle mod 7, 1900-01-01 is a Monday.

  The proof is layered (a monolithic `omega` over the closed forms does not terminate in reasonable
  time): 400-year / 100-year / 4-year / 1-year blocks (`daysBeforeYear_decomp`, `isLeap_decomp`),
  then the month inside the year by a finite check over the 2 × 365 (leap flag, day-of-year) pairs.
  Core Lean only.
-/
import HotXL.Model.Calendar

namespace HotXL.Calendar

/-! ### leap years and the days before a year -/

theorem isLeap_iff (y : Int) : isLeap y = true ↔ (y % 4 = 0 ∧ (y % 100 ≠ 0 ∨ y % 400 = 0)) := by
  simp [isLeap]

theorem daysBeforeYear_eq (y : Int) :
    daysBeforeYear y = (y - 1) * 365 + (y - 1) / 4 - (y - 1) / 100 + (y - 1) / 400 := rfl

/-- one year on: 365 or 366 days -/
theorem daysBeforeYear_succ (y : Int) :
    daysBeforeYear (y + 1) = daysBeforeYear y + (if isLeap y then 366 else 365) := by
  simp only [daysBeforeYear_eq]
  have e : y + 1 - 1 = y := by omega
  rw [e]
  by_cases h4 : y % 4 = 0 <;> by_cases h100 : y % 100 = 0 <;> by_cases h400 : y % 400 = 0 <;>
    simp [isLeap, h4, h100, h400] <;> omega

/-- the 400 / 100 / 4 / 1-year blocks: 146097, 36524, 1461, 365 days -/
theorem daysBeforeYear_decomp (a b c e : Int) (hb : 0 ≤ b ∧ b ≤ 3) (hc : 0 ≤ c ∧ c ≤ 24) (he : 0 ≤ e ∧ e ≤ 3) :
    daysBeforeYear (400 * a + 100 * b + 4 * c + e + 1) = 146097 * a + 36524 * b + 1461 * c + 365 * e := by
  simp only [daysBeforeYear_eq]
  omega

theorem daysBeforeYear_add_400 (y : Int) : daysBeforeYear (y + 400) = daysBeforeYear y + 146097 := by
  simp only [daysBeforeYear_eq]
  omega

theorem isLeap_decomp (a b c e : Int) (hb : 0 ≤ b ∧ b ≤ 3) (hc : 0 ≤ c ∧ c ≤ 24) (he : 0 ≤ e ∧ e ≤ 3) :
    isLeap (400 * a + 100 * b + 4 * c + e + 1) = (decide (e = 3) && (decide (c ≠ 24) || decide (b = 3))) := by
  rw [Bool.eq_iff_iff, isLeap_iff]
  simp only [Bool.and_eq_true, Bool.or_eq_true, decide_eq_true_eq]
  omega

theorem isLeap_add_400 (y : Int) : isLeap (y + 400) = isLeap y := by
  rw [Bool.eq_iff_iff, isLeap_iff, isLeap_iff]
  omega

/-- a later year starts at least 365 days per year later -/
theorem daysBeforeYear_mono (a b : Int) (h : a ≤ b) : daysBeforeYear a + 365 * (b - a) ≤ daysBeforeYear b := by
  simp only [daysBeforeYear_eq]
  omega

/-! ### months: tables as functions of the leap flag -/

def dimL (leap : Bool) (m : Nat) : Int := if m = 2 && leap then 29 else daysInMonthCommon m
def dbmL (leap : Bool) (m : Nat) : Int := daysBeforeMonthCommon m + (if m > 2 && leap then 1 else 0)

theorem daysInMonth_eq (y : Int) (m : Nat) : daysInMonth y m = dimL (isLeap y) m := rfl
theorem daysBeforeMonth_eq (y : Int) (m : Nat) : daysBeforeMonth y m = dbmL (isLeap y) m := rfl

def yearLenL (leap : Bool) : Int := if leap then 366 else 365

theorem month_table : ∀ leap : Bool, ∀ m : Nat, m < 13 → 1 ≤ m →
    0 ≤ dbmL leap m ∧ 28 ≤ dimL leap m ∧ dimL leap m ≤ 31 ∧
    dbmL leap m + dimL leap m = (if m = 12 then yearLenL leap else dbmL leap (m + 1)) := by
  decide +kernel

theorem month_table_lt : ∀ leap : Bool, ∀ m : Nat, m < 13 → ∀ m' : Nat, m' < 13 → 1 ≤ m → m < m' →
    dbmL leap m + dimL leap m ≤ dbmL leap m' := by
  decide +kernel

theorem month_table_le_year : ∀ leap : Bool, ∀ m : Nat, m < 13 → 1 ≤ m →
    dbmL leap m + dimL leap m ≤ yearLenL leap := by
  decide +kernel

/-- a calendar date with no bound on the year -/
def ValidMD (y : Int) (m : Nat) (d : Int) : Prop := 1 ≤ m ∧ m ≤ 12 ∧ 1 ≤ d ∧ d ≤ daysInMonth y m

instance (y : Int) (m : Nat) (d : Int) : Decidable (ValidMD y m d) := by unfold ValidMD; infer_instance

theorem validYMD_iff (y : Int) (m : Nat) (d : Int) :
    validYMD y m d = true ↔ (1 ≤ y ∧ y ≤ 9999 ∧ ValidMD y m d) := by
  simp only [validYMD, ValidMD, Bool.and_eq_true, decide_eq_true_eq]
  constructor
  · rintro ⟨⟨⟨⟨⟨h1, h2⟩, h3⟩, h4⟩, h5⟩, h6⟩; exact ⟨h1, h2, h3, h4, h5, h6⟩
  · rintro ⟨h1, h2, h3, h4, h5, h6⟩; exact ⟨⟨⟨⟨⟨h1, h2⟩, h3⟩, h4⟩, h5⟩, h6⟩

/-! ### the month and day inside a year, as `_ord2ymd` finds them -/

/-- month and day from the zero-based day of the year: the estimate `(n + 50) >> 5`, corrected
    downwards when it is one too large -/
def monthDay (leap : Bool) (n : Int) : Nat × Int :=
  let month : Nat := ((n + 50) / 32).toNat
  let preceding := daysBeforeMonthCommon month + (if month > 2 && leap then 1 else 0)
  if preceding > n then
    let month' := month - 1
    let preceding' := preceding - (daysInMonthCommon month' + (if month' = 2 && leap then 1 else 0))
    (month', n - preceding' + 1)
  else (month, n - preceding + 1)

/-- all 2 × 365 cases -/
theorem monthDay_spec_nat : ∀ leap : Bool, ∀ n : Nat, n < 365 →
    (1 ≤ (monthDay leap (n : Int)).1 ∧ (monthDay leap n).1 ≤ 12 ∧ 1 ≤ (monthDay leap n).2 ∧
      (monthDay leap n).2 ≤ dimL leap (monthDay leap n).1 ∧
      dbmL leap (monthDay leap n).1 + (monthDay leap n).2 = (n : Int) + 1) := by
  decide +kernel

theorem monthDay_spec (leap : Bool) (r : Int) (h0 : 0 ≤ r) (h1 : r < 365) :
    1 ≤ (monthDay leap r).1 ∧ (monthDay leap r).1 ≤ 12 ∧ 1 ≤ (monthDay leap r).2 ∧
      (monthDay leap r).2 ≤ dimL leap (monthDay leap r).1 ∧
      dbmL leap (monthDay leap r).1 + (monthDay leap r).2 = r + 1 := by
  have := monthDay_spec_nat leap r.toNat (by omega)
  rwa [Int.toNat_of_nonneg h0] at this

theorem ite_triple {α β γ : Type} (c : Prop) [Decidable c] (y : α) (m m' : β) (d d' : γ) :
    (if c then (y, m', d') else (y, m, d)) =
      (y, (if c then (m', d') else (m, d)).1, (if c then (m', d') else (m, d)).2) := by
  split <;> rfl

/-- `_ord2ymd` written over the block decomposition of `ord - 1` -/
theorem ymdOfOrdinal_eq (ord : Int) :
    ymdOfOrdinal ord =
      (let n0 := ord - 1
       let a := n0 / 146097
       let b := n0 % 146097 / 36524
       let c := n0 % 146097 % 36524 / 1461
       let e := n0 % 146097 % 36524 % 1461 / 365
       let r := n0 % 146097 % 36524 % 1461 % 365
       if e = 4 ∨ b = 4 then (a * 400 + 1 + b * 100 + c * 4 + e - 1, 12, 31)
       else
         let leap : Bool := e = 3 && (c ≠ 24 || b = 3)
         (a * 400 + 1 + b * 100 + c * 4 + e, (monthDay leap r).1, (monthDay leap r).2)) := by
  unfold ymdOfOrdinal monthDay
  by_cases h : (ord - 1) % 146097 % 36524 % 1461 / 365 = 4 ∨ (ord - 1) % 146097 / 36524 = 4
  · have h' : ((decide ((ord - 1) % 146097 % 36524 % 1461 / 365 = 4) ||
        decide ((ord - 1) % 146097 / 36524 = 4)) = true) := by simpa using h
    simp only [h', h, if_true]
  · have h' : ¬ ((decide ((ord - 1) % 146097 % 36524 % 1461 / 365 = 4) ||
        decide ((ord - 1) % 146097 / 36524 = 4)) = true) := by simpa using h
    simp only [h', h, if_false]
    exact ite_triple _ _ _ _ _ _

/-- the core of `_ord2ymd`: from the block decomposition `146097 a + 36524 b + 1461 c + 365 e + r`
    of `ord - 1` (remainders in range) it returns a valid date with that ordinal -/
theorem ymd_core (a b c e r : Int) (hb : 0 ≤ b) (hc : 0 ≤ c) (he : 0 ≤ e) (hr : 0 ≤ r ∧ r < 365)
    (h4 : 365 * e + r < 1461) (h100 : 1461 * c + 365 * e + r < 36524)
    (h400 : 36524 * b + 1461 * c + 365 * e + r < 146097) :
    let p : Int × Nat × Int :=
      if e = 4 ∨ b = 4 then (a * 400 + 1 + b * 100 + c * 4 + e - 1, 12, 31)
      else (a * 400 + 1 + b * 100 + c * 4 + e,
            (monthDay (decide (e = 3) && (decide (c ≠ 24) || decide (b = 3))) r).1,
            (monthDay (decide (e = 3) && (decide (c ≠ 24) || decide (b = 3))) r).2)
    ValidMD p.1 p.2.1 p.2.2 ∧
      ordinalOfYMD p.1 p.2.1 p.2.2 = 146097 * a + 36524 * b + 1461 * c + 365 * e + r + 1 := by
  intro p
  by_cases hb4 : b = 4
  · -- the last day of a 400-year cycle
    have hp : p = (400 * a + 100 * 3 + 4 * 24 + 3 + 1, 12, 31) := by
      simp only [p, hb4, or_true, if_true]
      congr 1; omega
    rw [hp]
    have hl := isLeap_decomp a 3 24 3 (by omega) (by omega) (by omega)
    have hd := daysBeforeYear_decomp a 3 24 3 (by omega) (by omega) (by omega)
    simp only [ValidMD, ordinalOfYMD, daysInMonth_eq, daysBeforeMonth_eq, hl, hd]
    refine ⟨by decide, ?_⟩
    simp only [dbmL, daysBeforeMonthCommon]
    simp
    omega
  · by_cases he4 : e = 4
    · -- the last day of a leap year
      have hp : p = (400 * a + 100 * b + 4 * c + 3 + 1, 12, 31) := by
        simp only [p, he4, true_or, if_true]
        congr 1; omega
      rw [hp]
      have hc24 : c ≠ 24 := by omega
      have hl := isLeap_decomp a b c 3 (by omega) (by omega) (by omega)
      have hd := daysBeforeYear_decomp a b c 3 (by omega) (by omega) (by omega)
      simp only [ValidMD, ordinalOfYMD, daysInMonth_eq, daysBeforeMonth_eq, hl, hd]
      simp [hc24, dbmL, dimL, daysBeforeMonthCommon, daysInMonthCommon]
      omega
    · have hp : p = (400 * a + 100 * b + 4 * c + e + 1,
            (monthDay (decide (e = 3) && (decide (c ≠ 24) || decide (b = 3))) r).1,
            (monthDay (decide (e = 3) && (decide (c ≠ 24) || decide (b = 3))) r).2) := by
        simp only [p, he4, hb4, or_self, if_false]
        congr 1; omega
      rw [hp]
      have hl := isLeap_decomp a b c e (by omega) (by omega) (by omega)
      have hd := daysBeforeYear_decomp a b c e (by omega) (by omega) (by omega)
      obtain ⟨s1, s2, s3, s4, s5⟩ :=
        monthDay_spec (decide (e = 3) && (decide (c ≠ 24) || decide (b = 3))) r hr.1 hr.2
      simp only [ValidMD, ordinalOfYMD, daysInMonth_eq, daysBeforeMonth_eq, hl, hd]
      refine ⟨⟨s1, s2, s3, s4⟩, ?_⟩
      omega

/-! ### the laws -/

/-- LAW 1 (`_ord2ymd` then `_ymd2ord`): for EVERY integer `n`, `ymdOfOrdinal n` is a valid
    calendar date and its ordinal is `n`. -/
theorem ordinal_of_ymd_of_ordinal (n : Int) :
    ValidMD (ymdOfOrdinal n).1 (ymdOfOrdinal n).2.1 (ymdOfOrdinal n).2.2 ∧
    ordinalOfYMD (ymdOfOrdinal n).1 (ymdOfOrdinal n).2.1 (ymdOfOrdinal n).2.2 = n := by
  rw [ymdOfOrdinal_eq]
  have h := ymd_core ((n - 1) / 146097) ((n - 1) % 146097 / 36524) ((n - 1) % 146097 % 36524 / 1461)
    ((n - 1) % 146097 % 36524 % 1461 / 365) ((n - 1) % 146097 % 36524 % 1461 % 365)
    (by omega) (by omega) (by omega) (by omega) (by omega) (by omega) (by omega)
  have hn : 146097 * ((n - 1) / 146097) + 36524 * ((n - 1) % 146097 / 36524) +
      1461 * ((n - 1) % 146097 % 36524 / 1461) + 365 * ((n - 1) % 146097 % 36524 % 1461 / 365) +
      (n - 1) % 146097 % 36524 % 1461 % 365 + 1 = n := by omega
  rw [hn] at h
  exact h

/-- a valid date lies inside its year -/
theorem ordinal_bounds {y : Int} {m : Nat} {d : Int} (h : ValidMD y m d) :
    daysBeforeYear y + 1 ≤ ordinalOfYMD y m d ∧ ordinalOfYMD y m d ≤ daysBeforeYear (y + 1) := by
  obtain ⟨h1, h2, h3, h4⟩ := h
  have t := month_table (isLeap y) m (by omega) h1
  have t2 := month_table_le_year (isLeap y) m (by omega) h1
  rw [daysBeforeYear_succ]
  simp only [ordinalOfYMD, daysBeforeMonth_eq]
  rw [daysInMonth_eq] at h4
  simp only [yearLenL] at t2
  constructor <;> omega

/-- lexicographic order on (year, month, day) -/
def LexLt (y : Int) (m : Nat) (d : Int) (y' : Int) (m' : Nat) (d' : Int) : Prop :=
  y < y' ∨ (y = y' ∧ (m < m' ∨ (m = m' ∧ d < d')))

theorem ordinal_lt_of_lexLt {y : Int} {m : Nat} {d : Int} {y' : Int} {m' : Nat} {d' : Int}
    (hv : ValidMD y m d) (hv' : ValidMD y' m' d') (h : LexLt y m d y' m' d') :
    ordinalOfYMD y m d < ordinalOfYMD y' m' d' := by
  rcases h with h | ⟨rfl, h | ⟨rfl, h⟩⟩
  · have b1 := (ordinal_bounds hv).2
    have b2 := (ordinal_bounds hv').1
    have b3 := daysBeforeYear_mono (y + 1) y' (by omega)
    omega
  · obtain ⟨h1, h2, h3, h4⟩ := hv
    obtain ⟨h1', h2', h3', h4'⟩ := hv'
    have t := month_table_lt (isLeap y) m (by omega) m' (by omega) h1 h
    simp only [ordinalOfYMD, daysBeforeMonth_eq]
    rw [daysInMonth_eq] at h4
    omega
  · simp only [ordinalOfYMD]; omega

theorem lex_trichotomy (y : Int) (m : Nat) (d : Int) (y' : Int) (m' : Nat) (d' : Int) :
    LexLt y m d y' m' d' ∨ (y = y' ∧ m = m' ∧ d = d') ∨ LexLt y' m' d' y m d := by
  unfold LexLt; omega

/-- LAW 2: on valid dates the lexicographic order of (year, month, day) is the order of the ordinals -/
theorem ordinal_strict_mono {y : Int} {m : Nat} {d : Int} {y' : Int} {m' : Nat} {d' : Int}
    (hv : ValidMD y m d) (hv' : ValidMD y' m' d') :
    LexLt y m d y' m' d' ↔ ordinalOfYMD y m d < ordinalOfYMD y' m' d' := by
  constructor
  · exact ordinal_lt_of_lexLt hv hv'
  · intro h
    rcases lex_trichotomy y m d y' m' d' with h1 | ⟨rfl, rfl, rfl⟩ | h3
    · exact h1
    · omega
    · have := ordinal_lt_of_lexLt hv' hv h3; omega

/-- distinct valid dates have distinct ordinals -/
theorem ordinal_injective {y : Int} {m : Nat} {d : Int} {y' : Int} {m' : Nat} {d' : Int}
    (hv : ValidMD y m d) (hv' : ValidMD y' m' d') (h : ordinalOfYMD y m d = ordinalOfYMD y' m' d') :
    y = y' ∧ m = m' ∧ d = d' := by
  rcases lex_trichotomy y m d y' m' d' with h1 | h2 | h3
  · have := ordinal_lt_of_lexLt hv hv' h1; omega
  · exact h2
  · have := ordinal_lt_of_lexLt hv' hv h3; omega

/-- LAW 3 (`_ymd2ord` then `_ord2ymd`): a valid date is recovered from its ordinal -/
theorem ymd_of_ordinal_of_ymd {y : Int} {m : Nat} {d : Int} (hv : ValidMD y m d) :
    ymdOfOrdinal (ordinalOfYMD y m d) = (y, m, d) := by
  obtain ⟨hv', he⟩ := ordinal_of_ymd_of_ordinal (ordinalOfYMD y m d)
  obtain ⟨e1, e2, e3⟩ := ordinal_injective hv' hv he
  exact Prod.ext e1 (Prod.ext e2 e3)

/-- LAW 4: a year has 366 days if it is a leap year, else 365 -/
theorem year_length (y : Int) :
    ordinalOfYMD (y + 1) 1 1 - ordinalOfYMD y 1 1 = if isLeap y then 366 else 365 := by
  simp only [ordinalOfYMD, daysBeforeMonth_eq, daysBeforeYear_succ]
  have : ∀ l, dbmL l 1 = 0 := by decide
  rw [this, this]
  omega

/-- the day after a day that is not the last of its month -/
theorem ordinal_succ_day (y : Int) (m : Nat) (d : Int) :
    ordinalOfYMD y m (d + 1) = ordinalOfYMD y m d + 1 := by
  simp only [ordinalOfYMD]; omega

/-- the first of the next month follows the last day of a month -/
theorem ordinal_succ_month (y : Int) (m : Nat) (h1 : 1 ≤ m) (h2 : m < 12) :
    ordinalOfYMD y (m + 1) 1 = ordinalOfYMD y m (daysInMonth y m) + 1 := by
  have t := month_table (isLeap y) m (by omega) h1
  have hm : ¬ m = 12 := by omega
  simp only [hm, if_false] at t
  simp only [ordinalOfYMD, daysBeforeMonth_eq, daysInMonth_eq]
  omega

/-- 1 January follows 31 December -/
theorem ordinal_succ_year (y : Int) : ordinalOfYMD (y + 1) 1 1 = ordinalOfYMD y 12 31 + 1 := by
  simp only [ordinalOfYMD, daysBeforeMonth_eq, daysBeforeYear_succ]
  cases isLeap y <;> simp [dbmL, daysBeforeMonthCommon] <;> omega

/-- the calendar repeats every 400 years = 146097 days (a whole number of weeks) -/
theorem ordinal_add_400 (y : Int) (m : Nat) (d : Int) :
    ordinalOfYMD (y + 400) m d = ordinalOfYMD y m d + 146097 := by
  simp only [ordinalOfYMD, daysBeforeMonth, daysBeforeYear_add_400, isLeap_add_400]; omega

/-- LAW 5: the next day is the next weekday (mod 7) -/
theorem weekday_succ (n : Int) : weekday (n + 1) = (weekday n + 1) % 7 := by
  unfold weekday; omega

theorem weekday_range (n : Int) : 0 ≤ weekday n ∧ weekday n < 7 := by
  unfold weekday; omega

/-- the anchor: 1 January 1900 was a Monday (`weekday` 0) -/
theorem weekday_anchor : weekday (ordinalOfYMD 1900 1 1) = 0 := by decide

/-- years and ordinals bound each other: ordinals 1 … 3652059 are exactly the years 1 … 9999 -/
theorem year_range_of_ordinal (n : Int) (h1 : 1 ≤ n) (h2 : n ≤ 3652059) :
    1 ≤ (ymdOfOrdinal n).1 ∧ (ymdOfOrdinal n).1 ≤ 9999 := by
  obtain ⟨hv, he⟩ := ordinal_of_ymd_of_ordinal n
  have b := ordinal_bounds hv
  rw [he] at b
  constructor
  · by_cases h : 1 ≤ (ymdOfOrdinal n).1
    · exact h
    · have m := daysBeforeYear_mono ((ymdOfOrdinal n).1 + 1) 1 (by omega)
      have : daysBeforeYear 1 = 0 := by decide
      omega
  · by_cases h : (ymdOfOrdinal n).1 ≤ 9999
    · exact h
    · have m := daysBeforeYear_mono 10000 (ymdOfOrdinal n).1 (by omega)
      have : daysBeforeYear 10000 = 3652059 := by decide
      omega

/-- on ordinals 1 … 3652059 (`date.min` … `date.max`) the result satisfies the model's `validYMD` -/
theorem validYMD_ymdOfOrdinal (n : Int) (h1 : 1 ≤ n) (h2 : n ≤ 3652059) :
    validYMD (ymdOfOrdinal n).1 (ymdOfOrdinal n).2.1 (ymdOfOrdinal n).2.2 = true := by
  rw [validYMD_iff]
  obtain ⟨hv, _⟩ := ordinal_of_ymd_of_ordinal n
  obtain ⟨a, b⟩ := year_range_of_ordinal n h1 h2
  exact ⟨a, b, hv⟩

end HotXL.Calendar
