/-
  HotXL.Lemmas.Cell — helper lemmas about `HotXL.Cell` (model of hotxlfp/helper/cell.py)
  used by `HotXL.Props.C19`.  Core Lean only.
-/
import HotXL.Model.Cell
import HotXL.Lemmas.PyNum

namespace HotXL.Cell
open HotXL.PyNum (toNat_ofNat_small eq_ofNat_of_toNat_eq)

/-! ### facts about the generated tables (break if the tables change) -/

theorem baseLen_eq : baseLen = 26 := by decide

theorem baseLen_cast : (baseLen : Int) = 26 := by rw [baseLen_eq]; rfl

theorem chrOffset_eq : Generated.columnChrOffset = 97 := by decide

/-- the `i`-th letter of the alphabet is found at position `i` of the generated base -/
theorem find_base_table : ∀ i, i < 26 → find (Char.ofNat (65 + i)) base = (i : Int) := by decide +kernel

/-! ### character classes -/

theorem isUpperAZ_iff {c : Char} : isUpperAZ c = true ↔ 65 ≤ c.toNat ∧ c.toNat ≤ 90 := by
  simp [isUpperAZ, Bool.and_eq_true, decide_eq_true_eq]

theorem isLowerAZ_iff {c : Char} : isLowerAZ c = true ↔ 97 ≤ c.toNat ∧ c.toNat ≤ 122 := by
  simp [isLowerAZ, Bool.and_eq_true, decide_eq_true_eq]

theorem isLetter_iff {c : Char} :
    isLetter c = true ↔ (65 ≤ c.toNat ∧ c.toNat ≤ 90) ∨ (97 ≤ c.toNat ∧ c.toNat ≤ 122) := by
  simp [isLetter, Bool.or_eq_true, isUpperAZ_iff, isLowerAZ_iff]

theorem isDigit_iff {c : Char} : isDigit c = true ↔ 48 ≤ c.toNat ∧ c.toNat ≤ 57 := by
  simp [isDigit, Bool.and_eq_true, decide_eq_true_eq]

theorem isDigit_eq_pyIsDigit (c : Char) : isDigit c = PyNum.isDigit c := rfl

theorem isLetter_of_isUpperAZ {c : Char} (h : isUpperAZ c = true) : isLetter c = true := by
  simp [isLetter, h]

theorem isLowerAZ_false_iff {c : Char} : isLowerAZ c = false ↔ ¬ (97 ≤ c.toNat ∧ c.toNat ≤ 122) := by
  rw [← isLowerAZ_iff]; simp

theorem isUpperAZ_false_iff {c : Char} : isUpperAZ c = false ↔ ¬ (65 ≤ c.toNat ∧ c.toNat ≤ 90) := by
  rw [← isUpperAZ_iff]; simp

/-- `BASE.find(c) = ord(c) - 65` for an upper-case letter -/
theorem find_base_upper {c : Char} (h : isUpperAZ c = true) : find c base = (c.toNat : Int) - 65 := by
  have hb := isUpperAZ_iff.mp h
  have ht := find_base_table (c.toNat - 65) (by omega)
  rw [show 65 + (c.toNat - 65) = c.toNat by omega, Char.ofNat_toNat] at ht
  rw [ht]; omega

/-! ### `upper` -/

theorem upperChar_of_not_lower {c : Char} (h : isLowerAZ c = false) : upperChar c = c := by
  simp [upperChar, h]

theorem upperChar_of_lower {c : Char} (h : isLowerAZ c = true) :
    upperChar c = Char.ofNat (c.toNat - 32) := by
  simp [upperChar, h]

theorem upperChar_of_upper {c : Char} (h : isUpperAZ c = true) : upperChar c = c := by
  apply upperChar_of_not_lower
  have := isUpperAZ_iff.mp h
  rw [isLowerAZ_false_iff]; omega

theorem toNat_upperChar_of_lower {c : Char} (h : isLowerAZ c = true) :
    (upperChar c).toNat = c.toNat - 32 := by
  have := isLowerAZ_iff.mp h
  rw [upperChar_of_lower h, toNat_ofNat_small _ (by omega)]

theorem isLowerAZ_upperChar (c : Char) : isLowerAZ (upperChar c) = false := by
  cases h : isLowerAZ c with
  | false => rw [upperChar_of_not_lower h, h]
  | true =>
    have := isLowerAZ_iff.mp h
    rw [isLowerAZ_false_iff, toNat_upperChar_of_lower h]; omega

theorem isUpperAZ_upperChar {c : Char} (h : isLetter c = true) : isUpperAZ (upperChar c) = true := by
  cases hl : isLowerAZ c with
  | false =>
    rw [upperChar_of_not_lower hl]
    simpa [isLetter, hl] using h
  | true =>
    have := isLowerAZ_iff.mp hl
    rw [isUpperAZ_iff, toNat_upperChar_of_lower hl]; omega

theorem upperChar_idem (c : Char) : upperChar (upperChar c) = upperChar c :=
  upperChar_of_not_lower (isLowerAZ_upperChar c)

theorem upper_nil : upper [] = [] := rfl
theorem upper_cons (c : Char) (l : List Char) : upper (c :: l) = upperChar c :: upper l := rfl
theorem upper_append (a b : List Char) : upper (a ++ b) = upper a ++ upper b := by
  simp [upper]
theorem length_upper (l : List Char) : (upper l).length = l.length := by simp [upper]
theorem upper_eq_nil_iff {l : List Char} : upper l = [] ↔ l = [] := by simp [upper]

theorem upper_idem (l : List Char) : upper (upper l) = upper l := by
  simp [upper, upperChar_idem]

theorem upper_of_forall {l : List Char} (h : ∀ c ∈ l, upperChar c = c) : upper l = l := by
  induction l with
  | nil => rfl
  | cons c t ih =>
    rw [upper_cons, h c (by simp), ih (fun d hd => h d (by simp [hd]))]

theorem upper_of_all_upper {l : List Char} (h : ∀ c ∈ l, isUpperAZ c = true) : upper l = l :=
  upper_of_forall (fun c hc => upperChar_of_upper (h c hc))

theorem upper_of_all_digits {l : List Char} (h : ∀ c ∈ l, isDigit c = true) : upper l = l := by
  apply upper_of_forall
  intro c hc
  apply upperChar_of_not_lower
  have := isDigit_iff.mp (h c hc)
  rw [isLowerAZ_false_iff]; omega

theorem all_upper_upper {l : List Char} (h : ∀ c ∈ l, isLetter c = true) :
    ∀ c ∈ upper l, isUpperAZ c = true := by
  intro c hc
  simp only [upper, List.mem_map] at hc
  obtain ⟨d, hd, rfl⟩ := hc
  exact isUpperAZ_upperChar (h d hd)

/-- ASCII `str.lower()` (used only to state case-insensitivity) -/
def lowerChar (c : Char) : Char := if isUpperAZ c then Char.ofNat (c.toNat + 32) else c
def lower (s : List Char) : List Char := s.map lowerChar

theorem upperChar_lowerChar (c : Char) : upperChar (lowerChar c) = upperChar c := by
  cases h : isUpperAZ c with
  | false => simp [lowerChar, h]
  | true =>
    have hb := isUpperAZ_iff.mp h
    have hl : lowerChar c = Char.ofNat (c.toNat + 32) := by simp [lowerChar, h]
    have hn : (lowerChar c).toNat = c.toNat + 32 := by
      rw [hl, toNat_ofNat_small _ (by omega)]
    have hlow : isLowerAZ (lowerChar c) = true := by rw [isLowerAZ_iff, hn]; omega
    rw [upperChar_of_lower hlow, hn, upperChar_of_upper h,
      show c.toNat + 32 - 32 = c.toNat by omega, Char.ofNat_toNat]

theorem upper_lower (l : List Char) : upper (lower l) = upper l := by
  simp [upper, lower, upperChar_lowerChar]

theorem isLowerAZ_lowerChar {c : Char} (h : isLetter c = true) : isLowerAZ (lowerChar c) = true := by
  cases hu : isUpperAZ c with
  | false =>
    have : lowerChar c = c := by simp [lowerChar, hu]
    rw [this]; simpa [isLetter, hu] using h
  | true =>
    have hb := isUpperAZ_iff.mp hu
    have hl : lowerChar c = Char.ofNat (c.toNat + 32) := by simp [lowerChar, hu]
    rw [isLowerAZ_iff, hl, toNat_ofNat_small _ (by omega)]; omega

/-! ### the column number as a natural number -/

/-- value of an upper-case letter as a bijective base-26 digit: `A ↦ 1 … Z ↦ 26`.
    (Irreducible: see `PyNum.digitVal`.) -/
def letterVal (c : Char) : Nat := c.toNat - 64
theorem letterVal_eq (c : Char) : letterVal c = c.toNat - 64 := rfl
attribute [irreducible] letterVal

/-- `column_label_to_index(label) + 1` for an upper-case label, as a natural number -/
def colVal : List Char → Nat
  | [] => 0
  | c :: cs => 26 ^ cs.length * letterVal c + colVal cs

theorem colVal_nil : colVal [] = 0 := by simp only [colVal]
theorem colVal_cons (c : Char) (cs : List Char) :
    colVal (c :: cs) = 26 ^ cs.length * letterVal c + colVal cs := by simp only [colVal]

theorem letterVal_bounds {c : Char} (h : isUpperAZ c = true) : 1 ≤ letterVal c ∧ letterVal c ≤ 26 := by
  have := isUpperAZ_iff.mp h
  rw [letterVal_eq]; omega

theorem colSum_nil : colSum [] = 0 := by simp only [colSum]
theorem colSum_cons (c : Char) (cs : List Char) :
    colSum (c :: cs) = (baseLen : Int) ^ cs.length * (find c base + 1) + colSum cs := by
  simp only [colSum]

theorem colSum_eq_colVal {l : List Char} (h : ∀ c ∈ l, isUpperAZ c = true) :
    colSum l = (colVal l : Int) := by
  induction l with
  | nil => rw [colSum_nil, colVal_nil]; rfl
  | cons c t ih =>
    have hc := h c (by simp)
    have hb := isUpperAZ_iff.mp hc
    rw [colSum_cons, colVal_cons, ih (fun d hd => h d (by simp [hd])), find_base_upper hc,
      baseLen_cast, Int.natCast_add, Int.natCast_mul, Int.natCast_pow]
    have : (c.toNat : Int) - 65 + 1 = (letterVal c : Int) := by rw [letterVal_eq]; omega
    rw [this]; rfl

theorem colVal_snoc (l : List Char) (c : Char) :
    colVal (l ++ [c]) = 26 * colVal l + letterVal c := by
  induction l with
  | nil => simp [colVal_cons, colVal_nil]
  | cons x t ih =>
    rw [List.cons_append, colVal_cons, colVal_cons, ih, List.length_append, List.length_singleton,
      Nat.pow_succ]
    grind

/-! ### bounds: labels of length `k` occupy the block `[G k, 26 * G k]` -/

/-- `G k = 1 + 26 + … + 26^(k-1)`: the value (`colVal`) of the first `k`-letter label `"A" * k` -/
def G : Nat → Nat
  | 0 => 0
  | k + 1 => 26 * G k + 1

theorem G_zero : G 0 = 0 := by simp only [G]
theorem G_succ (k : Nat) : G (k + 1) = 26 * G k + 1 := by simp only [G]

theorem pow_eq_G (k : Nat) : 26 ^ k = 25 * G k + 1 := by
  induction k with
  | zero => simp [G_zero]
  | succ k ih => rw [Nat.pow_succ, ih, G_succ]; omega

theorem G_mono {a b : Nat} (h : a ≤ b) : G a ≤ G b := by
  induction h with
  | refl => exact Nat.le_refl _
  | step _ ih => rw [G_succ]; omega

theorem colVal_bounds {l : List Char} (h : ∀ c ∈ l, isUpperAZ c = true) :
    G l.length ≤ colVal l ∧ colVal l ≤ 26 * G l.length := by
  induction l using snoc_induction with
  | nil => simp [colVal_nil, G_zero]
  | snoc t c ih =>
    have hc := letterVal_bounds (h c (by simp))
    have := ih (fun d hd => h d (by simp [hd]))
    rw [colVal_snoc, List.length_append, List.length_singleton, G_succ]
    omega

theorem colVal_pos {l : List Char} (hne : l ≠ []) (h : ∀ c ∈ l, isUpperAZ c = true) :
    1 ≤ colVal l := by
  have := (colVal_bounds h).1
  cases l with
  | nil => exact absurd rfl hne
  | cons c t => rw [List.length_cons, G_succ] at this; omega

/-- shorter labels come first -/
theorem colVal_lt_of_length_lt {a b : List Char} (ha : ∀ c ∈ a, isUpperAZ c = true)
    (hb : ∀ c ∈ b, isUpperAZ c = true) (hlen : a.length < b.length) : colVal a < colVal b := by
  have h1 := (colVal_bounds ha).2
  have h2 := (colVal_bounds hb).1
  have h3 : G (a.length + 1) ≤ G b.length := G_mono hlen
  rw [G_succ] at h3
  omega

/-- among labels of equal length the order is decided by the first differing letter -/
theorem colVal_cons_lt_iff {x y : Char} {a b : List Char}
    (ha : ∀ c ∈ a, isUpperAZ c = true) (hb : ∀ c ∈ b, isUpperAZ c = true)
    (hlen : a.length = b.length) :
    colVal (x :: a) < colVal (y :: b) ↔
      letterVal x < letterVal y ∨ (letterVal x = letterVal y ∧ colVal a < colVal b) := by
  have hA := colVal_bounds ha
  have hB := colVal_bounds hb
  rw [hlen] at hA
  rw [colVal_cons, colVal_cons, hlen]
  have hP := pow_eq_G b.length
  generalize 26 ^ b.length = P at *
  generalize G b.length = g at *
  generalize colVal a = va at *
  generalize colVal b = vb at *
  generalize letterVal x = dx
  generalize letterVal y = dy
  rcases Nat.lt_trichotomy dx dy with hlt | heq | hgt
  · have : P * (dx + 1) ≤ P * dy := Nat.mul_le_mul_left P hlt
    rw [Nat.mul_add, Nat.mul_one] at this
    constructor
    · intro _; exact Or.inl hlt
    · intro _; omega
  · subst heq
    constructor
    · intro h; exact Or.inr ⟨rfl, by omega⟩
    · intro h; rcases h with h | ⟨_, h⟩ <;> omega
  · have : P * (dy + 1) ≤ P * dx := Nat.mul_le_mul_left P hgt
    rw [Nat.mul_add, Nat.mul_one] at this
    constructor
    · intro _; omega
    · intro h; rcases h with h | ⟨h, _⟩ <;> omega

/-! ### the `while` loop of `column_index_to_label` -/

theorem colLoop_neg {column : Int} (h : column < 0) (acc : List Char) : colLoop column acc = acc := by
  rw [colLoop, dif_neg (by omega)]

theorem colLoop_nat (n : Nat) (acc : List Char) :
    colLoop (n : Int) acc = colLoop ((n : Int) / 26 - 1) (Char.ofNat (n % 26 + 97) :: acc) := by
  rw [colLoop, dif_pos ⟨by omega, by decide⟩, baseLen_cast, chrOffset_eq]
  have : ((n : Int) % 26).toNat = n % 26 := by omega
  rw [this]

theorem colLoop_acc (column : Int) (acc : List Char) :
    colLoop column acc = colLoop column [] ++ acc := by
  refine colLoop.induct (motive := fun column _ =>
      ∀ acc', colLoop column acc' = colLoop column [] ++ acc') ?_ ?_ column [] acc
  · intro column _ h ih acc'
    rw [colLoop.eq_1 column acc', colLoop.eq_1 column [], dif_pos h, dif_pos h, ih, ih [_]]
    simp
  · intro column _ h acc'
    rw [colLoop.eq_1 column acc', colLoop.eq_1 column [], dif_neg h, dif_neg h]
    rfl

theorem upperChar_ofNat_lower {k : Nat} (h : k < 26) :
    upperChar (Char.ofNat (k + 97)) = Char.ofNat (k + 65) := by
  have ht : (Char.ofNat (k + 97)).toNat = k + 97 := toNat_ofNat_small _ (by omega)
  have hl : isLowerAZ (Char.ofNat (k + 97)) = true := by rw [isLowerAZ_iff, ht]; omega
  rw [upperChar_of_lower hl, ht]
  exact congrArg Char.ofNat (by omega)

/-- the label of a column number below 26 is a single letter -/
theorem colIndexToLabel_lt {n : Nat} (h : n < 26) :
    colIndexToLabel (n : Int) = [Char.ofNat (n + 65)] := by
  unfold colIndexToLabel
  rw [colLoop_nat, colLoop_neg (by omega), Nat.mod_eq_of_lt h, upper_cons, upper_nil,
    upperChar_ofNat_lower h]

/-- `label(n) = label(n // 26 - 1) + letter(n % 26)` for `n ≥ 26` -/
theorem colIndexToLabel_ge {n : Nat} (h : 26 ≤ n) :
    colIndexToLabel (n : Int) =
      colIndexToLabel ((n / 26 - 1 : Nat) : Int) ++ [Char.ofNat (n % 26 + 65)] := by
  unfold colIndexToLabel
  have hcast : (n : Int) / 26 - 1 = ((n / 26 - 1 : Nat) : Int) := by omega
  rw [colLoop_nat, colLoop_acc, hcast, upper_append, upper_cons, upper_nil,
    upperChar_ofNat_lower (Nat.mod_lt _ (by omega))]

theorem isUpperAZ_ofNat {k : Nat} (h : k < 26) : isUpperAZ (Char.ofNat (k + 65)) = true := by
  rw [isUpperAZ_iff, toNat_ofNat_small _ (by omega)]; omega

theorem letterVal_ofNat {k : Nat} (h : k < 26) : letterVal (Char.ofNat (k + 65)) = k + 1 := by
  rw [letterVal_eq, toNat_ofNat_small _ (by omega)]; omega

/-- `column_index_to_label` produces non-empty upper-case labels whose value is `n + 1` -/
theorem colIndexToLabel_spec (n : Nat) :
    colIndexToLabel (n : Int) ≠ [] ∧ (∀ c ∈ colIndexToLabel (n : Int), isUpperAZ c = true) ∧
      colVal (colIndexToLabel (n : Int)) = n + 1 := by
  induction n using Nat.strongRecOn with
  | _ n ih =>
    by_cases h : n < 26
    · rw [colIndexToLabel_lt h]
      refine ⟨List.cons_ne_nil _ _, ?_, ?_⟩
      · intro c hc
        rw [List.mem_singleton] at hc; subst hc
        exact isUpperAZ_ofNat h
      · rw [colVal_cons, colVal_nil, letterVal_ofNat h]; simp
    · have hm : n % 26 < 26 := Nat.mod_lt _ (by omega)
      obtain ⟨_, h2, h3⟩ := ih (n / 26 - 1) (by omega)
      rw [colIndexToLabel_ge (by omega)]
      refine ⟨by simp, ?_, ?_⟩
      · intro c hc
        rw [List.mem_append, List.mem_singleton] at hc
        cases hc with
        | inl hc => exact h2 c hc
        | inr hc => subst hc; exact isUpperAZ_ofNat hm
      · rw [colVal_snoc, h3, letterVal_ofNat hm]; omega

/-- every non-empty upper-case label is the label of its own value minus one -/
theorem colIndexToLabel_colVal (l : List Char) :
    l ≠ [] → (∀ c ∈ l, isUpperAZ c = true) → colIndexToLabel ((colVal l - 1 : Nat) : Int) = l := by
  induction l using snoc_induction with
  | nil => intro h; exact absurd rfl h
  | snoc t c ih =>
    intro _ hup
    have hc := hup c (by simp)
    have hcb := isUpperAZ_iff.mp hc
    have hv := letterVal_bounds hc
    have hchar : Char.ofNat (letterVal c - 1 + 65) = c := by
      rw [letterVal_eq, show c.toNat - 64 - 1 + 65 = c.toNat by omega, Char.ofNat_toNat]
    rw [colVal_snoc]
    by_cases ht : t = []
    · subst ht
      rw [colVal_nil, List.nil_append,
        show 26 * 0 + letterVal c - 1 = letterVal c - 1 by omega,
        colIndexToLabel_lt (by omega), hchar]
    · have hupt : ∀ d ∈ t, isUpperAZ d = true := fun d hd => hup d (by simp [hd])
      have hpos := colVal_pos ht hupt
      have hge : 26 ≤ 26 * colVal t + letterVal c - 1 := by omega
      rw [colIndexToLabel_ge hge,
        show (26 * colVal t + letterVal c - 1) / 26 - 1 = colVal t - 1 by omega,
        show (26 * colVal t + letterVal c - 1) % 26 = letterVal c - 1 by omega,
        ih ht hupt, hchar]

/-! ### the matcher -/

/-- optional `$` marker -/
def dollar (b : Bool) : List Char := if b then ['$'] else []

theorem not_isLetter_dollar : isLetter '$' = false := by decide
theorem not_isDigit_dollar : isDigit '$' = false := by decide

theorem not_isLetter_of_isDigit {c : Char} (h : isDigit c = true) : isLetter c = false := by
  have := isDigit_iff.mp h
  cases hl : isLetter c with
  | false => rfl
  | true => have := isLetter_iff.mp hl; omega

/-- the optional-`$` step of the matcher -/
def stripDollar (s : List Char) : Bool × List Char :=
  match s with
  | '$' :: r => (true, r)
  | _ => (false, s)

theorem matchLabel_eq (s : List Char) :
    matchLabel s =
      (let p := stripDollar s
       let col := p.2.takeWhile isLetter
       let q := stripDollar (p.2.dropWhile isLetter)
       if col.isEmpty then none else
       if q.2.isEmpty then none else
       if q.2.all isDigit then some (p.1, col, q.1, q.2) else none) := by
  rfl

theorem stripDollar_dollar (b : Bool) (t : List Char) (h : t.head? ≠ some '$') :
    stripDollar (dollar b ++ t) = (b, t) := by
  cases b with
  | true => rfl
  | false =>
    show stripDollar t = (false, t)
    unfold stripDollar
    split
    · exact absurd rfl h
    · rfl

theorem stripDollar_spec (s : List Char) : s = dollar (stripDollar s).1 ++ (stripDollar s).2 := by
  unfold stripDollar
  split <;> rfl

theorem takeWhile_dropWhile_letters {cs t : List Char} (hcs : ∀ c ∈ cs, isLetter c = true)
    (ht : ∀ c, t.head? = some c → isLetter c = false) :
    (cs ++ t).takeWhile isLetter = cs ∧ (cs ++ t).dropWhile isLetter = t := by
  rw [List.takeWhile_append_of_pos hcs, List.dropWhile_append_of_pos hcs]
  cases t with
  | nil => simp
  | cons x r =>
    have hx := ht x rfl
    simp [hx]

/-- the matcher accepts `[$]letters[$]digits` and returns its four groups -/
theorem matchLabel_of_shape (ca ra : Bool) (cs ds : List Char) (hcs : cs ≠ [])
    (hl : ∀ c ∈ cs, isLetter c = true) (hds : ds ≠ []) (hd : ∀ c ∈ ds, isDigit c = true) :
    matchLabel (dollar ca ++ cs ++ dollar ra ++ ds) = some (ca, cs, ra, ds) := by
  have hhead_ds : ds.head? ≠ some '$' := by
    intro h
    have := hd '$' (List.mem_of_mem_head? h)
    rw [not_isDigit_dollar] at this; exact Bool.noConfusion this
  have hhead_cs : (cs ++ (dollar ra ++ ds)).head? ≠ some '$' := by
    cases cs with
    | nil => exact absurd rfl hcs
    | cons c t =>
      intro h
      simp only [List.cons_append, List.head?_cons, Option.some.injEq] at h
      have := hl c (by simp)
      rw [h, not_isLetter_dollar] at this; exact Bool.noConfusion this
  have hnl : ∀ c, (dollar ra ++ ds).head? = some c → isLetter c = false := by
    intro c hc
    cases ra with
    | true =>
      simp only [dollar, if_true, List.cons_append, List.head?_cons, Option.some.injEq] at hc
      subst hc; exact not_isLetter_dollar
    | false =>
      exact not_isLetter_of_isDigit (hd c (List.mem_of_mem_head? hc))
  have hsplit := takeWhile_dropWhile_letters (t := dollar ra ++ ds) hl hnl
  rw [matchLabel_eq, List.append_assoc, List.append_assoc,
    stripDollar_dollar ca _ hhead_cs]
  simp only [hsplit.1, hsplit.2, stripDollar_dollar ra _ hhead_ds]
  have h1 : cs.isEmpty = false := by cases cs with | nil => exact absurd rfl hcs | cons _ _ => rfl
  have h2 : ds.isEmpty = false := by cases ds with | nil => exact absurd rfl hds | cons _ _ => rfl
  have h3 : ds.all isDigit = true := List.all_eq_true.mpr hd
  simp [h1, h2, h3]

/-- whatever the matcher accepts has the shape `[$]letters[$]digits`, and the groups are its parts -/
theorem shape_of_matchLabel {s : List Char} {ca ra : Bool} {cs ds : List Char}
    (h : matchLabel s = some (ca, cs, ra, ds)) :
    s = dollar ca ++ cs ++ dollar ra ++ ds ∧ cs ≠ [] ∧ (∀ c ∈ cs, isLetter c = true) ∧
      ds ≠ [] ∧ (∀ c ∈ ds, isDigit c = true) := by
  rw [matchLabel_eq] at h
  simp only at h
  split at h
  · exact absurd h (by simp)
  · next h1 =>
    split at h
    · exact absurd h (by simp)
    · next h2 =>
      split at h
      · next h3 =>
        simp only [Option.some.injEq, Prod.mk.injEq] at h
        obtain ⟨e1, e2, e3, e4⟩ := h
        have hs1 := stripDollar_spec s
        have hs2 := stripDollar_spec ((stripDollar s).2.dropWhile isLetter)
        have htd := List.takeWhile_append_dropWhile (p := isLetter) (l := (stripDollar s).2)
        rw [e3, e4] at hs2
        rw [e1] at hs1
        refine ⟨?_, ?_, ?_, ?_, ?_⟩
        · rw [hs1, List.append_assoc, List.append_assoc, ← hs2, ← e2, htd]
        · rw [← e2]; intro hnil; rw [hnil] at h1; exact h1 rfl
        · rw [← e2]; intro c hc
          have := List.all_eq_true.mp (List.all_takeWhile (p := isLetter) (l := (stripDollar s).2))
          exact this c hc
        · rw [← e4]; intro hnil; rw [hnil] at h2; exact h2 rfl
        · rw [← e4]; exact List.all_eq_true.mp h3
      · exact absurd h (by simp)

/-! ### order -/

theorem char_lt_iff_toNat {x y : Char} : x < y ↔ x.toNat < y.toNat := by
  rw [Char.lt_def, UInt32.lt_iff_toNat_lt, Char.toNat_val, Char.toNat_val]

theorem letterVal_lt_iff {x y : Char} (hx : isUpperAZ x = true) (hy : isUpperAZ y = true) :
    letterVal x < letterVal y ↔ x < y := by
  have := isUpperAZ_iff.mp hx
  have := isUpperAZ_iff.mp hy
  rw [char_lt_iff_toNat, letterVal_eq, letterVal_eq]; omega

theorem letterVal_eq_iff {x y : Char} (hx : isUpperAZ x = true) (hy : isUpperAZ y = true) :
    letterVal x = letterVal y ↔ x = y := by
  have := isUpperAZ_iff.mp hx
  have := isUpperAZ_iff.mp hy
  rw [← Char.toNat_inj, letterVal_eq, letterVal_eq]; omega

/-- among upper-case labels of equal length, numeric order is lexicographic order -/
theorem colVal_lt_iff_lex (a : List Char) : ∀ b : List Char, a.length = b.length →
    (∀ c ∈ a, isUpperAZ c = true) → (∀ c ∈ b, isUpperAZ c = true) →
    (colVal a < colVal b ↔ a < b) := by
  induction a with
  | nil =>
    intro b hlen _ _
    cases b with
    | nil => simp [colVal_nil]
    | cons y b => simp at hlen
  | cons x a ih =>
    intro b hlen ha hb
    cases b with
    | nil => simp at hlen
    | cons y b =>
      have hlen' : a.length = b.length := by simpa using hlen
      have ha' : ∀ c ∈ a, isUpperAZ c = true := fun c hc => ha c (by simp [hc])
      have hb' : ∀ c ∈ b, isUpperAZ c = true := fun c hc => hb c (by simp [hc])
      rw [colVal_cons_lt_iff ha' hb' hlen', List.cons_lt_cons_iff,
        letterVal_lt_iff (ha x (by simp)) (hb y (by simp)),
        letterVal_eq_iff (ha x (by simp)) (hb y (by simp)), ih b hlen' ha' hb']

/-! ### glue used by `Props/C19` -/

/-- on upper-case labels `column_label_to_index` is the bijective base-26 value minus one -/
theorem colLabelToIndex_upper {l : List Char} (h : ∀ c ∈ l, isUpperAZ c = true) :
    colLabelToIndex l = (colVal l : Int) - 1 := by
  unfold colLabelToIndex
  rw [upper_of_all_upper h, colSum_eq_colVal h]

theorem extractLabel_of_shape (ca ra : Bool) (cs ds : List Char) (hcs : cs ≠ [])
    (hl : ∀ c ∈ cs, isLetter c = true) (hds : ds ≠ []) (hd : ∀ c ∈ ds, isDigit c = true) :
    extractLabel ((if ca then ['$'] else []) ++ cs ++ (if ra then ['$'] else []) ++ ds) =
      some ({ index := rowLabelToIndex ds, label := ds, isAbsolute := ra },
            { index := colLabelToIndex cs, label := cs, isAbsolute := ca }) := by
  unfold extractLabel
  rw [show (if ca then ['$'] else []) = dollar ca from rfl,
    show (if ra then ['$'] else []) = dollar ra from rfl,
    matchLabel_of_shape ca ra cs ds hcs hl hds hd]

theorem upper_dollar (b : Bool) : upper (dollar b) = dollar b := by
  cases b <;> decide

end HotXL.Cell
