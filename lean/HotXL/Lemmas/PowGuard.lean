/-
  HotXL.Lemmas.PowGuard — helper lemmas for property C16: the integer-overflow guard of POWER and PV
  (`HotXL.Fn.Math.intPowGuard`, `bitLength`): what it means arithmetically.

  `abs(number) > 1 and power > 0 and (abs(number).bit_length() - 1) * power >= 1024`
    ⇔  |number| ≥ 2, power ≥ 1 and (2 ^ ⌊log₂ |number|⌋) ^ power ≥ 2 ^ 1024            (`intPowGuard_exact`)
    ⇒  |number ^ power| ≥ 2 ^ 1024                                                    (`intPowGuard_sound`)
  and where it does not fire (power ≥ 0) the exact power has fewer than 2048 bits       (`below_guard_bounded`).
-/
import HotXL.Model.Fn.Math
import HotXL.Model.Fn.Fin
import Mathlib.Tactic.Linarith
import Mathlib.Tactic.Ring

namespace HotXL.Lemmas.PowGuard
open HotXL HotXL.Ops HotXL.Fn HotXL.Fn.Math

-- `2 ^ 1024`, `2 ^ 2048` appear as literals in the statements
set_option exponentiation.threshold 2100

/-- the shortcut exponentiation of the model is exponentiation -/
theorem intPow_eq (x : Int) (n : Nat) : intPow x n = x ^ n := by
  unfold intPow
  split
  · rename_i h; subst h
    split
    · rename_i hn; subst hn; rfl
    · rename_i hn; exact (zero_pow hn).symm
  · split
    · rename_i h; subst h; exact (one_pow n).symm
    · split
      · rename_i h; subst h
        split
        · rename_i hn; exact (Even.neg_one_pow (Nat.even_iff.mpr hn)).symm
        · rename_i hn
          have : n % 2 = 1 := by omega
          exact (Odd.neg_one_pow (Nat.odd_iff.mpr this)).symm
      · rfl

/-- `abs(x).bit_length()` is the number of binary digits: `2^(len-1) ≤ |x| < 2^len` for `x ≠ 0` -/
theorem bitLength_spec (x : Int) (hx : x ≠ 0) :
    2 ^ (bitLength x - 1) ≤ x.natAbs ∧ x.natAbs < 2 ^ bitLength x := by
  have h0 : x.natAbs ≠ 0 := Int.natAbs_ne_zero.mpr hx
  simp only [bitLength, if_neg h0, Nat.add_sub_cancel]
  exact ⟨Nat.log2_self_le h0, Nat.lt_log2_self⟩

theorem bitLength_zero : bitLength 0 = 0 := rfl

theorem bitLength_pred (x : Int) (hx : 1 < x.natAbs) : ((bitLength x : Int) - 1) = (x.natAbs.log2 : Int) := by
  have h0 : x.natAbs ≠ 0 := by omega
  simp only [bitLength, if_neg h0]
  push_cast
  ring

/-- the guard of POWER, spelled out with the constants of the source -/
theorem intPowGuard_iff (x y : Int) :
    intPowGuard x y = true ↔ 1 < x.natAbs ∧ 0 < y ∧ (1024 : Int) ≤ ((bitLength x : Int) - 1) * y := by
  -- restate with the values of the generated constants (checked by unfolding them)
  show (decide ((1 : Int) < (x.natAbs : Int)) && decide ((0 : Int) < y) &&
      decide ((1024 : Int) ≤ ((bitLength x : Int) - 1) * y)) = true ↔ _
  simp only [Bool.and_eq_true, decide_eq_true_eq]
  constructor
  · rintro ⟨⟨a, b⟩, c⟩
    exact ⟨by omega, b, c⟩
  · rintro ⟨a, b, c⟩
    exact ⟨⟨by omega, b⟩, c⟩

/-- the guard of PV is the guard of POWER on the growth factor `1 + rate` and `periods` -/
theorem pvGuard_int (r n : Int) : pvGuard (.int r) (.int n) = intPowGuard (1 + r) n := rfl

theorem pvGuard_flt_left (q : Rat) (n : Num) : pvGuard (.flt q) n = false := rfl
theorem pvGuard_flt_right (r : Num) (q : Rat) : pvGuard r (.flt q) = false := by cases r <;> rfl

/-- the guard fires exactly when the largest power of two not above `|x|`, raised to `y`, reaches
    `2 ^ 1024` -/
theorem intPowGuard_exact (x y : Int) :
    intPowGuard x y = true ↔ 1 < x.natAbs ∧ 0 < y ∧ 2 ^ 1024 ≤ (2 ^ x.natAbs.log2) ^ y.toNat := by
  rw [intPowGuard_iff]
  constructor
  · rintro ⟨a, b, c⟩
    refine ⟨a, b, ?_⟩
    rw [bitLength_pred x a] at c
    obtain ⟨n, rfl⟩ := Int.eq_ofNat_of_zero_le b.le
    rw [Int.toNat_natCast, ← Nat.pow_mul]
    have c' : 1024 ≤ x.natAbs.log2 * n := by exact_mod_cast c
    exact Nat.pow_le_pow_right (by decide) c'
  · rintro ⟨a, b, c⟩
    refine ⟨a, b, ?_⟩
    rw [bitLength_pred x a]
    obtain ⟨n, rfl⟩ := Int.eq_ofNat_of_zero_le b.le
    rw [Int.toNat_natCast, ← Nat.pow_mul] at c
    have c' : 1024 ≤ x.natAbs.log2 * n := (Nat.pow_le_pow_iff_right (by decide)).mp c
    exact_mod_cast c'

/-- where the guard fires the exact integer power is at least `2 ^ 1024` in magnitude: beyond every
    double (so `#NUM!` never replaces a representable result) -/
theorem intPowGuard_sound (x y : Int) (h : intPowGuard x y = true) : 2 ^ 1024 ≤ (x ^ y.toNat).natAbs := by
  obtain ⟨a, _, c⟩ := (intPowGuard_exact x y).mp h
  rw [Int.natAbs_pow]
  exact le_trans c (Nat.pow_le_pow_left (Nat.log2_self_le (by omega)) _)

/-- where the guard does not fire (and the exponent is not negative) the exact integer power has
    fewer than 2048 bits: the exact computation `number ** power` is bounded independently of the
    arguments -/
theorem below_guard_bounded (x y : Int) (hy : 0 ≤ y) (h : intPowGuard x y = false) :
    (x ^ y.toNat).natAbs < 2 ^ 2048 := by
  have hng : ¬ (intPowGuard x y = true) := by rw [h]; exact Bool.false_ne_true
  rw [intPowGuard_iff] at hng
  rw [Int.natAbs_pow]
  obtain ⟨n, rfl⟩ := Int.eq_ofNat_of_zero_le hy
  rw [Int.toNat_natCast]
  have one_lt : (1 : Nat) < 2 ^ 2048 := Nat.one_lt_two_pow (by decide)
  by_cases ha : 1 < x.natAbs
  · by_cases hn : n = 0
    · subst hn; rw [Nat.pow_zero]; exact one_lt
    · have hn' : (0 : Int) < (n : Int) := by omega
      have hc : ¬ ((1024 : Int) ≤ ((bitLength x : Int) - 1) * (n : Int)) := fun c => hng ⟨ha, hn', c⟩
      rw [bitLength_pred x ha] at hc
      have hc' : x.natAbs.log2 * n < 1024 := by
        have : ¬ (1024 ≤ x.natAbs.log2 * n) := fun c => hc (by exact_mod_cast c)
        omega
      have hL : 1 ≤ x.natAbs.log2 := (Nat.le_log2 (by omega)).mpr (by rw [Nat.pow_one]; omega)
      have hnle : n ≤ x.natAbs.log2 * n := Nat.le_mul_of_pos_left n hL
      have h1 : x.natAbs ^ n < (2 ^ (x.natAbs.log2 + 1)) ^ n := Nat.pow_lt_pow_left Nat.lt_log2_self hn
      rw [← Nat.pow_mul] at h1
      have h2 : (x.natAbs.log2 + 1) * n ≤ 2048 := by
        have : (x.natAbs.log2 + 1) * n = x.natAbs.log2 * n + n := by ring
        omega
      exact lt_of_lt_of_le h1 (Nat.pow_le_pow_right (by decide) h2)
  · have hle : x.natAbs ≤ 1 := by omega
    calc x.natAbs ^ n ≤ 1 ^ n := Nat.pow_le_pow_left hle n
      _ = 1 := Nat.one_pow n
      _ < 2 ^ 2048 := one_lt

end HotXL.Lemmas.PowGuard
