/-
  HotXL.Lemmas.Serial — closed forms of `Dates.serialize` / `Dates.parseNum` (the model of
  `serialize_date` / `parse_date` of hotxlfp/formulas/utils.py) once the generated constants
  are pinned, and the arithmetic facts property C13 is built from.  Core Lean only.

  Everything here is derived from `HotXL.Generated.serializeDateConsts`, `serializeDateCompares`,
  `parseDateConsts`, `parseDateCompares`, `date1900`, `epochDate` by `decide`: an edit of one of
  the literals or comparison operators in utils.py changes the generated table and the pin
  lemmas below stop checking.
-/
import HotXL.Model.Operators

namespace HotXL.Serial
open HotXL HotXL.Ops HotXL.Dates

/-! ### the generated constants, pinned -/

theorem sConsts_pinned :
    Generated.serializeDateConsts = [0, 1000, 1000, -2203891200000, 86400000, 1, 86400000, 2] := by decide

theorem sCompares_pinned : Generated.serializeDateCompares = ["Eq", "Lt"] := by decide

theorem pConsts_pinned : Generated.parseDateConsts = [0, 1, 60, 1, 86400, 2, 86400] := by decide

theorem pCompares_pinned : Generated.parseDateCompares = ["Lt", "Lt", "LtE"] := by decide

theorem date1900_pinned : Generated.date1900 = [1900, 1, 1, 0, 0, 0, 0] := by decide

theorem epochDate_pinned : Generated.epochDate = [1970, 1, 1, 0, 0, 0, 0] := by decide

/-- `epoch_seconds(date_1900)` = −2 208 988 800 s: computed from the calendar model -/
theorem epochSeconds1900_eq : epochSeconds1900 = -2208988800 := by decide

theorem usPerDay_eq : usPerDay = 86400000000 := by decide

/-- microseconds from `date_1900` to midnight of a calendar day (calendar model) -/
def usOfYMD (y : Int) (m : Nat) (d : Int) : Int :=
  (Calendar.ordinalOfYMD y m d - ordOf Generated.date1900) * usPerDay

/-- 1 March 1900 is 59 days after 1 January 1900 (31 + 28: 1900 is not a leap year) -/
theorem us_1900_03_01 : usOfYMD 1900 3 1 = 59 * usPerDay := by decide

/-- 30 December 1899 is 2 days before 1 January 1900 -/
theorem us_1899_12_30 : usOfYMD 1899 12 30 = -2 * usPerDay := by decide

theorem us_1900_01_01 : usOfYMD 1900 1 1 = 0 := by decide

theorem us_1900_02_28 : usOfYMD 1900 2 28 = 58 * usPerDay := by decide

theorem sConst_vals : sConst 0 = 0 ∧ sConst 1 = 1000 ∧ sConst 2 = 1000 ∧ sConst 3 = -2203891200000 ∧
    sConst 4 = 86400000 ∧ sConst 5 = 1 ∧ sConst 6 = 86400000 ∧ sConst 7 = 2 := by decide

theorem pConst_vals : pConst 0 = 0 ∧ pConst 1 = 1 ∧ pConst 2 = 60 ∧ pConst 3 = 1 ∧
    pConst 4 = 86400 ∧ pConst 5 = 2 ∧ pConst 6 = 86400 := by decide

theorem sCompare_1 : Generated.serializeDateCompares.getD 1 "" = "Lt" := by decide

theorem pCompare_vals : Generated.parseDateCompares.getD 0 "" = "Lt" ∧
    Generated.parseDateCompares.getD 1 "" = "Lt" ∧ Generated.parseDateCompares.getD 2 "" = "LtE" := by decide

theorem cmpBy_Lt (a b : Rat) : cmpBy "Lt" a b = decide (a < b) := rfl
theorem cmpBy_LtE (a b : Rat) : cmpBy "LtE" a b = decide (a ≤ b) := rfl

/-! ### casts -/

theorem cast_lt {a b : Int} : ((a : Rat) < (b : Rat)) ↔ a < b := Rat.intCast_lt_intCast
theorem cast_le {a b : Int} : ((a : Rat) ≤ (b : Rat)) ↔ a ≤ b := Rat.intCast_le_intCast

/-- the millisecond comparison of `serialize_date` is the comparison with 1 March 1900 -/
theorem boundary_iff (us : Int) :
    (((-2208988800 : Int) : Rat) + (us : Rat) / 1000000) * ((1000 : Int) : Rat) < ((-2203891200000 : Int) : Rat)
      ↔ us < 59 * 86400000000 := by
  constructor
  · intro h
    have : (us : Rat) < ((59 * 86400000000 : Int) : Rat) := by grind
    exact cast_lt.mp this
  · intro h
    have : (us : Rat) < ((59 * 86400000000 : Int) : Rat) := cast_lt.mpr h
    grind

/-! ### closed forms -/

theorem serialize_zero : serialize 0 = .int 0 := by decide

/-- `serialize_date` of any datetime other than `date_1900` itself: days since 1900-01-01 as a
    fraction, plus 1 before 1 March 1900 and plus 2 from then on -/
theorem serialize_closed (us : Int) (h : us ≠ 0) :
    serialize us = .flt ((us : Rat) / 86400000000 + (if us < 59 * 86400000000 then 1 else 2)) := by
  obtain ⟨_, c1, c2, c3, c4, c5, c6, c7⟩ := sConst_vals
  unfold serialize
  rw [if_neg h]
  simp only [c1, c2, c3, c4, c5, c6, c7, sCompare_1, cmpBy_Lt, epochSeconds1900_eq, decide_eq_true_eq]
  by_cases hb : us < 59 * 86400000000
  · rw [if_pos ((boundary_iff us).mpr hb), if_pos hb]
    congr 1
    grind
  · rw [if_neg (fun hh => hb ((boundary_iff us).mp hh)), if_neg hb]
    congr 1
    grind

/-- the serial number as an exact rational -/
def serial (us : Int) : Rat := Num.toRat (serialize us)

theorem serial_zero : serial 0 = 0 := by decide

theorem serial_closed (us : Int) (h : us ≠ 0) :
    serial us = (us : Rat) / 86400000000 + (if us < 59 * 86400000000 then 1 else 2) := by
  unfold serial
  rw [serialize_closed us h]
  rfl

theorem serial_early (us : Int) (h : us ≠ 0) (hb : us < 59 * 86400000000) :
    serial us = (us : Rat) / 86400000000 + 1 := by
  rw [serial_closed us h, if_pos hb]

theorem serial_late (us : Int) (hb : 59 * 86400000000 ≤ us) :
    serial us = (us : Rat) / 86400000000 + 2 := by
  rw [serial_closed us (by omega), if_neg (by omega)]

/-- `parse_date` on a number -/
theorem parseNum_closed (s : Rat) :
    parseNum s =
      if s < 0 then none
      else if s < 1 then some 0
      else if s ≤ 60 then some (roundHalfEven ((s - 1) * 86400 * 1000000))
      else some (roundHalfEven ((s - 2) * 86400 * 1000000)) := by
  obtain ⟨p0, p1, p2, p3, p4, p5, p6⟩ := pConst_vals
  obtain ⟨q0, q1, q2⟩ := pCompare_vals
  unfold parseNum
  simp only [p0, p1, p2, p3, p4, p5, p6, q0, q1, q2, cmpBy_Lt, cmpBy_LtE, decide_eq_true_eq]
  rfl

/-- Python's `round` leaves a whole number alone -/
theorem roundHalfEven_int (n : Int) : roundHalfEven (n : Rat) = n := by
  unfold roundHalfEven
  simp only [Rat.floor_intCast]
  have : (n : Rat) - (n : Rat) = 0 := by grind
  rw [this]
  have : (0 : Rat) < 1 / 2 := by grind
  rw [if_pos this]

theorem roundHalfEven_of_eq {q : Rat} {n : Int} (h : q = (n : Rat)) : roundHalfEven q = n := by
  rw [h, roundHalfEven_int]

end HotXL.Serial
