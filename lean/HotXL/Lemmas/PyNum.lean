/-
  HotXL.Lemmas.PyNum — lemmas about `HotXL.PyNum` (Python `int(str)` / `str(int)` on ASCII):
  `str(n)` is a non-empty digit string without leading zero, and `int(str(i)) = i`.
  Core Lean only.
-/
import HotXL.Model.PyNum

namespace HotXL

/-! ### induction from the right -/

theorem snoc_induction {α : Type} {P : List α → Prop} (nil : P [])
    (snoc : ∀ l a, P l → P (l ++ [a])) : ∀ l, P l := by
  suffices h : ∀ l : List α, P l.reverse by
    intro l; have := h l.reverse; rwa [List.reverse_reverse] at this
  intro l
  induction l with
  | nil => exact nil
  | cons a t ih => rw [List.reverse_cons]; exact snoc _ _ ih

end HotXL

namespace HotXL.PyNum

/-! ### characters -/

/-- `ord(chr(n)) = n` below the surrogate range -/
theorem toNat_ofNat_small (n : Nat) (h : n < 0xd800) : (Char.ofNat n).toNat = n := by
  have hv : n.isValidChar := Or.inl h
  rw [Char.ofNat, dif_pos hv]
  rfl

/-- `chr(ord(c)) = c`, in the form "a character is determined by its code" -/
theorem eq_ofNat_of_toNat_eq {c : Char} {n : Nat} (h : c.toNat = n) : c = Char.ofNat n := by
  rw [← h, Char.ofNat_toNat]

theorem isDigit_iff {c : Char} : isDigit c = true ↔ 48 ≤ c.toNat ∧ c.toNat ≤ 57 := by
  simp [isDigit, Bool.and_eq_true, decide_eq_true_eq]

theorem isPySpace_iff {c : Char} :
    isPySpace c = true ↔ (9 ≤ c.toNat ∧ c.toNat ≤ 13) ∨ c.toNat = 32 ∨ (28 ≤ c.toNat ∧ c.toNat ≤ 31) := by
  simp [isPySpace, Bool.or_eq_true, Bool.and_eq_true, decide_eq_true_eq, or_assoc]

theorem not_isPySpace_of_isDigit {c : Char} (h : isDigit c = true) : isPySpace c = false := by
  have h' := isDigit_iff.mp h
  cases hs : isPySpace c with
  | false => rfl
  | true => have := isPySpace_iff.mp hs; omega

theorem toNat_digitChar {d : Nat} (h : d < 10) : (digitChar d).toNat = d + 48 := by
  unfold digitChar
  exact toNat_ofNat_small _ (by omega)

theorem isDigit_digitChar {d : Nat} (h : d < 10) : isDigit (digitChar d) = true := by
  rw [isDigit_iff, toNat_digitChar h]; omega

theorem digitChar_zero : digitChar 0 = '0' := by decide

theorem digitChar_ne_zero {d : Nat} (h : d < 10) (h0 : d ≠ 0) : digitChar d ≠ '0' := by
  intro he
  have := congrArg Char.toNat he
  rw [toNat_digitChar h] at this
  have h48 : ('0' : Char).toNat = 48 := by decide
  omega

/-! ### `str(n)` -/

theorem natDigitsAux_acc (n : Nat) (acc : List Char) :
    natDigitsAux n acc = natDigitsAux n [] ++ acc := by
  induction n using Nat.strongRecOn generalizing acc with
  | _ n ih =>
    rw [natDigitsAux, natDigitsAux.eq_1 n []]
    split
    · rfl
    · rw [ih (n / 10) (by omega) (digitChar (n % 10) :: acc),
        ih (n / 10) (by omega) [digitChar (n % 10)]]
      simp

theorem natToDec_lt_ten {n : Nat} (h : n < 10) : natToDec n = [digitChar n] := by
  rw [natToDec, natDigitsAux, dif_pos h]

/-- `str(n) = str(n // 10) + chr(48 + n % 10)` for `n ≥ 10` -/
theorem natToDec_ge_ten {n : Nat} (h : 10 ≤ n) :
    natToDec n = natToDec (n / 10) ++ [digitChar (n % 10)] := by
  rw [natToDec, natDigitsAux, dif_neg (by omega), natDigitsAux_acc]
  rfl

/-- `str(n)` consists of decimal digits only -/
theorem natToDec_all_digits (n : Nat) : ∀ c ∈ natToDec n, isDigit c = true := by
  induction n using Nat.strongRecOn with
  | _ n ih =>
    by_cases h : n < 10
    · rw [natToDec_lt_ten h]
      intro c hc
      rw [List.mem_singleton] at hc
      subst hc
      exact isDigit_digitChar h
    · rw [natToDec_ge_ten (by omega)]
      intro c hc
      rw [List.mem_append, List.mem_singleton] at hc
      cases hc with
      | inl hc => exact ih (n / 10) (by omega) c hc
      | inr hc => subst hc; exact isDigit_digitChar (Nat.mod_lt _ (by omega))

/-- `str(n)` is never empty -/
theorem natToDec_ne_nil (n : Nat) : natToDec n ≠ [] := by
  by_cases h : n < 10
  · rw [natToDec_lt_ten h]; exact List.cons_ne_nil _ _
  · rw [natToDec_ge_ten (by omega)]; simp

/-- `str(n)` has no leading zero when `n ≥ 1` -/
theorem natToDec_head_ne_zero (n : Nat) (hn : 1 ≤ n) : (natToDec n).head? ≠ some '0' := by
  induction n using Nat.strongRecOn with
  | _ n ih =>
    by_cases h : n < 10
    · rw [natToDec_lt_ten h]
      simp only [List.head?_cons, ne_eq, Option.some.injEq]
      exact digitChar_ne_zero h (by omega)
    · rw [natToDec_ge_ten (by omega)]
      have := ih (n / 10) (by omega) (by omega)
      have hne := natToDec_ne_nil (n / 10)
      cases hd : natToDec (n / 10) with
      | nil => exact absurd hd hne
      | cons a t => rw [hd] at this; simpa using this

/-- `str(0) = "0"` -/
theorem natToDec_zero : natToDec 0 = ['0'] := by
  rw [natToDec_lt_ten (by omega), digitChar_zero]

/-! ### `int(s)` on digit strings -/

/-- value of a digit character.  (Irreducible on purpose: `whnf` on `x - 48` with a symbolic `x`
    is exponentially slow, which makes equation-lemma generation time out otherwise.) -/
def digitVal (c : Char) : Nat := c.toNat - 48
theorem digitVal_eq (c : Char) : digitVal c = c.toNat - 48 := rfl
attribute [irreducible] digitVal

/-- the value of a digit string read left to right starting from `acc` -/
def decVal (acc : Nat) : List Char → Nat
  | [] => acc
  | c :: s => decVal (acc * 10 + digitVal c) s

theorem decVal_nil (acc : Nat) : decVal acc [] = acc := by
  simp only [decVal]

theorem decVal_cons (acc : Nat) (c : Char) (s : List Char) :
    decVal acc (c :: s) = decVal (acc * 10 + digitVal c) s := by
  simp only [decVal]

theorem digitsUnderscore_nil (acc : Nat) (b : Bool) :
    digitsUnderscore [] acc b = if b then some acc else none := by
  rw [digitsUnderscore.eq_def]

theorem digitsUnderscore_cons_digit (c : Char) (t : List Char) (acc : Nat) (b : Bool)
    (hc : isDigit c = true) :
    digitsUnderscore (c :: t) acc b = digitsUnderscore t (acc * 10 + digitVal c) true := by
  rw [digitsUnderscore.eq_def]
  simp only [hc, if_true, digitVal_eq]

theorem decVal_append (acc : Nat) (s t : List Char) :
    decVal acc (s ++ t) = decVal (decVal acc s) t := by
  induction s generalizing acc with
  | nil => rw [List.nil_append, decVal_nil]
  | cons c s ih => rw [List.cons_append, decVal_cons, decVal_cons, ih]

theorem digitsUnderscore_digits (s : List Char) (hs : ∀ c ∈ s, isDigit c = true) (acc : Nat) :
    digitsUnderscore s acc true = some (decVal acc s) := by
  induction s generalizing acc with
  | nil => simp [digitsUnderscore_nil, decVal_nil]
  | cons c t ih =>
    have hc : isDigit c = true := hs c (by simp)
    rw [decVal_cons, digitsUnderscore_cons_digit _ _ _ _ hc]
    exact ih (fun d hd => hs d (by simp [hd])) _

theorem digitsUnderscore_digits_ne_nil (s : List Char) (hne : s ≠ [])
    (hs : ∀ c ∈ s, isDigit c = true) (acc : Nat) (b : Bool) :
    digitsUnderscore s acc b = some (decVal acc s) := by
  cases s with
  | nil => exact absurd rfl hne
  | cons c t =>
    have hc : isDigit c = true := hs c (by simp)
    rw [decVal_cons, digitsUnderscore_cons_digit _ _ _ _ hc]
    exact digitsUnderscore_digits t (fun d hd => hs d (by simp [hd])) _

/-- a non-empty string of digits is an unsigned decimal literal with the obvious value -/
theorem decNat?_digits (s : List Char) (hne : s ≠ []) (hs : ∀ c ∈ s, isDigit c = true) :
    decNat? s = some (decVal 0 s) := by
  cases s with
  | nil => exact absurd rfl hne
  | cons c t =>
    have hc : isDigit c = true := hs c (by simp)
    rw [decNat?, if_pos hc]
    exact digitsUnderscore_digits_ne_nil _ hne hs 0 false

/-- the decimal value of `str(n)` is `n` -/
theorem decVal_natToDec (n : Nat) : decVal 0 (natToDec n) = n := by
  induction n using Nat.strongRecOn with
  | _ n ih =>
    by_cases h : n < 10
    · rw [natToDec_lt_ten h, decVal_cons, decVal_nil, digitVal_eq, toNat_digitChar h]; omega
    · rw [natToDec_ge_ten (by omega), decVal_append, ih (n / 10) (by omega), decVal_cons,
        decVal_nil, digitVal_eq, toNat_digitChar (Nat.mod_lt _ (by omega))]
      omega

theorem decNat?_natToDec (n : Nat) : decNat? (natToDec n) = some n := by
  rw [decNat?_digits _ (natToDec_ne_nil n) (natToDec_all_digits n), decVal_natToDec]

/-- a non-empty digit string without leading zero is `str(n)` of its own value `n ≥ 1`;
    i.e. `str(int(s)) = s` for such strings -/
theorem natToDec_decVal (s : List Char) : s ≠ [] → (∀ c ∈ s, isDigit c = true) →
    s.head? ≠ some '0' → 1 ≤ decVal 0 s ∧ natToDec (decVal 0 s) = s := by
  induction s using snoc_induction with
  | nil => intro h; exact absurd rfl h
  | snoc t d ih =>
    intro _ hs hhead
    have hd := isDigit_iff.mp (hs d (by simp))
    have hchar : digitChar (digitVal d) = d := by
      rw [digitVal_eq, digitChar, show d.toNat - 48 + 48 = d.toNat by omega, Char.ofNat_toNat]
    have hdv : digitVal d < 10 := by rw [digitVal_eq]; omega
    rw [decVal_append, decVal_cons, decVal_nil]
    by_cases ht : t = []
    · subst ht
      rw [decVal_nil]
      have hne : digitVal d ≠ 0 := by
        intro h0
        apply hhead
        rw [← hchar, h0, digitChar_zero]; rfl
      refine ⟨by omega, ?_⟩
      rw [show 0 * 10 + digitVal d = digitVal d by omega, natToDec_lt_ten hdv, hchar]; rfl
    · have hhead' : t.head? ≠ some '0' := by
        cases t with
        | nil => exact absurd rfl ht
        | cons a u => simpa using hhead
      obtain ⟨h1, h2⟩ := ih ht (fun c hc => hs c (by simp [hc])) hhead'
      refine ⟨by omega, ?_⟩
      rw [natToDec_ge_ten (by omega),
        show (decVal 0 t * 10 + digitVal d) / 10 = decVal 0 t by omega,
        show (decVal 0 t * 10 + digitVal d) % 10 = digitVal d by omega, h2, hchar]

/-! ### `strip` -/

theorem stripLeft_of_head {c : Char} {s : List Char} (h : isPySpace c = false) :
    stripLeft (c :: s) = c :: s := by
  simp [stripLeft, h]

/-- `strip` leaves a string alone whose first and last characters are not white space -/
theorem strip_eq_self {s : List Char}
    (hfirst : ∀ c, s.head? = some c → isPySpace c = false)
    (hlast : ∀ c, s.getLast? = some c → isPySpace c = false) : strip s = s := by
  cases s with
  | nil => simp [strip, stripLeft]
  | cons a t =>
    have h1 : stripLeft (a :: t) = a :: t := stripLeft_of_head (hfirst a rfl)
    unfold strip
    rw [h1]
    cases hr : (a :: t).reverse with
    | nil => simp at hr
    | cons b u =>
      have hb : (a :: t).getLast? = some b := by
        rw [List.getLast?_eq_head?_reverse, hr]; rfl
      rw [stripLeft_of_head (hlast b hb), ← hr, List.reverse_reverse]

theorem strip_digits (s : List Char) (hs : ∀ c ∈ s, isDigit c = true) : strip s = s := by
  apply strip_eq_self
  · intro c hc
    exact not_isPySpace_of_isDigit (hs c (List.mem_of_mem_head? hc))
  · intro c hc
    exact not_isPySpace_of_isDigit (hs c (List.mem_of_getLast? hc))

/-- `int(s)` for a non-empty digit string `s` -/
theorem pyInt?_digits (s : List Char) (hne : s ≠ []) (hs : ∀ c ∈ s, isDigit c = true) :
    pyInt? s = some (decVal 0 s : Int) := by
  unfold pyInt?
  rw [strip_digits s hs]
  split
  · next r =>
    have := hs '-' (by simp)
    exact absurd this (by decide)
  · next r =>
    have := hs '+' (by simp)
    exact absurd this (by decide)
  · rw [decNat?_digits s hne hs]; rfl

/-- `int(str(n)) = n` for natural numbers -/
theorem pyInt?_natToDec (n : Nat) : pyInt? (natToDec n) = some (n : Int) := by
  rw [pyInt?_digits _ (natToDec_ne_nil n) (natToDec_all_digits n), decVal_natToDec]

/-- `int(str(i)) = i` for integers -/
theorem pyInt?_intToDec (i : Int) : pyInt? (intToDec i) = some i := by
  unfold intToDec
  split
  · next hneg =>
    have hstrip : strip ('-' :: natToDec i.natAbs) = '-' :: natToDec i.natAbs := by
      apply strip_eq_self
      · intro c hc
        simp only [List.head?_cons, Option.some.injEq] at hc
        subst hc; decide
      · intro c hc
        rw [List.getLast?_cons_of_ne_nil (natToDec_ne_nil _)] at hc
        exact not_isPySpace_of_isDigit (natToDec_all_digits _ c (List.mem_of_getLast? hc))
    unfold pyInt?
    rw [hstrip]
    have hi : -(i.natAbs : Int) = i := by omega
    simp only [decNat?_natToDec]
    show some (-(i.natAbs : Int)) = some i
    rw [hi]
  · next hpos =>
    rw [pyInt?_natToDec]
    congr 1
    omega

/-! ### sanity checks -/

example : natToDec 1048576 = "1048576".toList := by
  simp [natToDec_ge_ten, natToDec_lt_ten, digitChar]
example : pyInt? "0042".toList = some 42 := by
  rw [pyInt?_digits _ (by simp) (by decide)]; simp [decVal, digitVal_eq]
example : intToDec (-305) = "-305".toList := by
  simp [intToDec, natToDec_ge_ten, natToDec_lt_ten, digitChar]

end HotXL.PyNum
