/-
  HotXL.Lemmas.RoundRomanC — kernel-decided chunks (≤ 1000 numbers each) of the roman-numeral facts of
  property C17, over the WHOLE range 1..3999 (lifted by `lift4`); re-checked against the numeral
  tables regenerated from /repo.
-/
import HotXL.Lemmas.RoundRoman

namespace HotXL.Lemmas.Round
open HotXL HotXL.Fn HotXL.Fn.Round

theorem denotes_4_0 : ∀ j, j < 1000 → denotesOK 4 (j + 1) = true := by decide +kernel
theorem denotes_4_1 : ∀ j, j < 1000 → denotesOK 4 (j + 1001) = true := by decide +kernel
theorem denotes_4_2 : ∀ j, j < 1000 → denotesOK 4 (j + 2001) = true := by decide +kernel
theorem denotes_4_3 : ∀ j, j < 999 → denotesOK 4 (j + 3001) = true := by decide +kernel
theorem denotes_4 : ∀ n, 1 ≤ n → n ≤ 3999 → denotesOK 4 n = true :=
  lift4 _ denotes_4_0 denotes_4_1 denotes_4_2 denotes_4_3

theorem arabic_0 : ∀ j, j < 1000 → arabicOK (j + 1) = true := by decide +kernel
theorem arabic_1 : ∀ j, j < 1000 → arabicOK (j + 1001) = true := by decide +kernel
theorem arabic_2 : ∀ j, j < 1000 → arabicOK (j + 2001) = true := by decide +kernel
theorem arabic_3 : ∀ j, j < 999 → arabicOK (j + 3001) = true := by decide +kernel
theorem arabic_all : ∀ n, 1 ≤ n → n ≤ 3999 → arabicOK n = true :=
  lift4 _ arabic_0 arabic_1 arabic_2 arabic_3

end HotXL.Lemmas.Round
