/-
  HotXL.Lemmas.Text — helper lemmas for property C15 (text functions): white-space trimming,
  case mapping on ASCII, joins, the independent specification `replaceAll` of "replace every
  occurrence" and the occurrence positions of the k-th-occurrence scan.
-/
import HotXL.Model.Fn.Text
import HotXL.Model.Eval

namespace HotXL.Lemmas.Text
open HotXL HotXL.Ops HotXL.Fn HotXL.Fn.Text

/-! ### characters -/

/-- `ord(chr(n)) = n` for every Unicode scalar value -/
theorem toNat_ofNat_valid (n : Nat) (h : n.isValidChar) : (Char.ofNat n).toNat = n := by
  rw [Char.ofNat, dif_pos h]
  rfl

/-! ### TRIM -/

/-- `s` contains no two adjacent spaces -/
def noDbl : List Char → Bool
  | a :: b :: r => !(a = ' ' && b = ' ') && noDbl (b :: r)
  | _ => true

/-- recursive form of "remove the trailing spaces" -/
def rstrip : List Char → List Char
  | [] => []
  | c :: r => if c = ' ' ∧ rstrip r = [] then [] else c :: rstrip r

def noSp (s : List Char) : List Char := s.filter (· ≠ ' ')

theorem rstrip_append_singleton (l : List Char) (c : Char) :
    rstrip (l ++ [c]) = if c = ' ' then rstrip l else l ++ [c] := by
  induction l with
  | nil => by_cases h : c = ' ' <;> simp [rstrip, h]
  | cons a l ih =>
    by_cases h : c = ' '
    · simp only [h, if_true] at ih ⊢
      simp [rstrip, ih]
    · simp only [h, if_false] at ih ⊢
      simp [rstrip, ih]

theorem reverse_dropWhile_eq_rstrip (l : List Char) :
    (l.dropWhile (· = ' ')).reverse = rstrip l.reverse := by
  induction l with
  | nil => simp [rstrip]
  | cons c l ih =>
    rw [List.reverse_cons, rstrip_append_singleton]
    by_cases h : c = ' '
    · simp [h, ih]
    · simp [h]

theorem stripSpaces_eq (s : List Char) : stripSpaces s = rstrip (lstripSpaces s) := by
  unfold stripSpaces
  have := reverse_dropWhile_eq_rstrip (lstripSpaces s).reverse
  rw [List.reverse_reverse] at this
  exact this

theorem noSp_rstrip (l : List Char) : noSp (rstrip l) = noSp l := by
  induction l with
  | nil => rfl
  | cons c r ih =>
    unfold rstrip
    split
    · next h =>
      have : noSp r = [] := by rw [← ih, h.2]; rfl
      simp [noSp, h.1] at this ⊢
      exact this
    · simp only [noSp, List.filter_cons] at ih ⊢
      rw [ih]

theorem noSp_lstrip (l : List Char) : noSp (lstripSpaces l) = noSp l := by
  induction l with
  | nil => rfl
  | cons c r ih =>
    by_cases h : c = ' '
    · simp only [lstripSpaces, List.dropWhile_cons, h, decide_true, if_true] at ih ⊢
      simp [noSp] at ih ⊢
      exact ih
    · simp [lstripSpaces, h]

theorem noSp_collapse (p : Bool) (l : List Char) : noSp (collapseSpaces p l) = noSp l := by
  induction l generalizing p with
  | nil => rfl
  | cons c r ih =>
    unfold collapseSpaces
    by_cases h : c = ' '
    · cases p <;> simp [h, noSp] <;> (have := ih true; simp [noSp] at this; exact this)
    · simp only [h, if_false, noSp, List.filter_cons]
      have := ih false
      simp only [noSp] at this
      rw [this]

theorem rstrip_prefix (l : List Char) : rstrip l <+: l := by
  induction l with
  | nil => exact List.prefix_refl _
  | cons c r ih =>
    unfold rstrip
    split
    · exact List.nil_prefix
    · exact (List.cons_prefix_cons).mpr ⟨rfl, ih⟩

theorem lstrip_suffix (l : List Char) : lstripSpaces l <:+ l := List.dropWhile_suffix _

theorem stripSpaces_infix (l : List Char) : stripSpaces l <:+: l := by
  rw [stripSpaces_eq]
  exact (rstrip_prefix _).isInfix.trans (lstrip_suffix l).isInfix

/-- `noDbl` says that the two-space string is not an infix -/
theorem noDbl_iff (l : List Char) : noDbl l = true ↔ ¬ [' ', ' '] <:+: l := by
  induction l with
  | nil => simp [noDbl]
  | cons a r ih =>
    cases r with
    | nil =>
      simp only [noDbl, true_iff]
      intro h
      have := h.length_le
      simp at this
    | cons b r =>
      rw [List.infix_cons_iff]
      simp only [noDbl, Bool.and_eq_true, Bool.not_eq_true', ih]
      constructor
      · rintro ⟨h1, h2⟩ (h | h)
        · have := (List.cons_prefix_cons.mp h)
          have h3 := List.cons_prefix_cons.mp this.2
          simp [← this.1, ← h3.1] at h1
        · exact h2 h
      · intro h
        refine ⟨?_, fun h2 => h (Or.inr h2)⟩
        by_cases ha : a = ' ' <;> by_cases hb : b = ' ' <;> simp [ha, hb]
        exact h (Or.inl (by rw [ha, hb]; exact List.cons_prefix_cons.mpr ⟨rfl, List.cons_prefix_cons.mpr ⟨rfl, List.nil_prefix⟩⟩))

theorem noDbl_collapse (l : List Char) :
    noDbl (collapseSpaces false l) = true ∧ noDbl (' ' :: collapseSpaces true l) = true := by
  induction l with
  | nil => simp [collapseSpaces, noDbl]
  | cons c r ih =>
    by_cases h : c = ' '
    · simp only [collapseSpaces, h, if_true]
      exact ⟨ih.2, ih.2⟩
    · simp only [collapseSpaces, h, if_false]
      refine ⟨?_, ?_⟩
      · cases hr : collapseSpaces false r with
        | nil => simp [noDbl]
        | cons b t => simp [noDbl, h, ← hr, ih.1]
      · have h1 : noDbl (c :: collapseSpaces false r) = true := by
          cases hr : collapseSpaces false r with
          | nil => simp [noDbl]
          | cons b t => simp [noDbl, h, ← hr, ih.1]
        simp [noDbl, h, h1]

theorem head?_lstrip (l : List Char) : (lstripSpaces l).head? ≠ some ' ' := by
  have := List.head?_dropWhile_not (· = ' ') l
  intro h
  unfold lstripSpaces at h
  rw [h] at this
  simp at this

theorem getLast?_rstrip (l : List Char) : (rstrip l).getLast? ≠ some ' ' := by
  induction l with
  | nil => simp [rstrip]
  | cons c r ih =>
    unfold rstrip
    split
    · simp
    · next h =>
      cases hr : rstrip r with
      | nil =>
        simp only [List.getLast?_singleton, ne_eq, Option.some.injEq]
        intro hc
        exact h ⟨hc, hr⟩
      | cons b t =>
        rw [List.getLast?_cons_cons, ← hr]
        exact ih

theorem head?_rstrip (l : List Char) (h : l.head? ≠ some ' ') : (rstrip l).head? ≠ some ' ' := by
  cases l with
  | nil => simp [rstrip]
  | cons c r =>
    unfold rstrip
    split
    · simp
    · simpa using h

/-- a text without leading, trailing or doubled spaces is a fixed point of `trim` -/
theorem collapse_fixed (p : Bool) (l : List Char) (h : noDbl l = true) (hp : p = true → l.head? ≠ some ' ') :
    collapseSpaces p l = l := by
  induction l generalizing p with
  | nil => rfl
  | cons c r ih =>
    unfold collapseSpaces
    by_cases hc : c = ' '
    · have hp' : p = false := by
        cases p with
        | false => rfl
        | true => exact absurd (by simp [hc]) (hp rfl)
      simp only [hc, if_true, hp', Bool.false_eq_true, if_false]
      congr 1
      apply ih
      · cases r with
        | nil => rfl
        | cons b t => simp only [noDbl, Bool.and_eq_true] at h; exact h.2
      · intro _
        cases r with
        | nil => simp
        | cons b t =>
          simp only [noDbl, hc, Bool.and_eq_true, Bool.not_eq_true', decide_true, Bool.true_and, decide_eq_false_iff_not] at h
          simpa using h.1
    · simp only [hc, if_false]
      congr 1
      apply ih
      · cases r with
        | nil => rfl
        | cons b t => simp only [noDbl, Bool.and_eq_true] at h; exact h.2
      · intro h'; cases h'

theorem lstrip_fixed (l : List Char) (h : l.head? ≠ some ' ') : lstripSpaces l = l := by
  cases l with
  | nil => rfl
  | cons c r =>
    have : c ≠ ' ' := by simpa using h
    simp [lstripSpaces, this]

theorem rstrip_fixed (l : List Char) (h : l.getLast? ≠ some ' ') : rstrip l = l := by
  induction l with
  | nil => rfl
  | cons c r ih =>
    unfold rstrip
    cases r with
    | nil =>
      have : c ≠ ' ' := by simpa using h
      simp [rstrip, this]
    | cons b t =>
      rw [List.getLast?_cons_cons] at h
      rw [ih h]
      simp

theorem trim_fixed (l : List Char) (h1 : noDbl l = true) (h2 : l.head? ≠ some ' ') (h3 : l.getLast? ≠ some ' ') :
    trim l = l := by
  unfold trim
  rw [collapse_fixed false l h1 (by intro h; cases h), stripSpaces_eq, lstrip_fixed l h2, rstrip_fixed l h3]

theorem trim_props (s : List Char) :
    noDbl (trim s) = true ∧ (trim s).head? ≠ some ' ' ∧ (trim s).getLast? ≠ some ' ' ∧ noSp (trim s) = noSp s := by
  refine ⟨?_, ?_, ?_, ?_⟩
  · rw [noDbl_iff]
    intro h
    have := h.trans (stripSpaces_infix (collapseSpaces false s))
    exact (noDbl_iff _).mp (noDbl_collapse s).1 this
  · unfold trim; rw [stripSpaces_eq]
    exact head?_rstrip _ (head?_lstrip _)
  · unfold trim; rw [stripSpaces_eq]
    exact getLast?_rstrip _
  · unfold trim; rw [stripSpaces_eq, noSp_rstrip, noSp_lstrip, noSp_collapse]

/-! ### the words of a text (maximal runs of non-space characters) -/

def closeWord (p : List Char × List (List Char)) : List (List Char) :=
  if p.1 = [] then p.2 else p.1 :: p.2

/-- (the word the text starts with — empty if it starts with a space —, the words after it) -/
def wordsAux : List Char → List Char × List (List Char)
  | [] => ([], [])
  | c :: r => if c = ' ' then ([], closeWord (wordsAux r)) else (c :: (wordsAux r).1, (wordsAux r).2)

/-- the space-separated words of a text, in order (`[w for w in s.split(' ') if w]`) -/
def words (s : List Char) : List (List Char) := closeWord (wordsAux s)

theorem words_space (s : List Char) : words (' ' :: s) = words s := by
  simp [words, wordsAux, closeWord]

theorem words_lstrip (s : List Char) : words (lstripSpaces s) = words s := by
  induction s with
  | nil => rfl
  | cons c r ih =>
    by_cases h : c = ' '
    · subst h
      rw [words_space, ← ih]
      simp [lstripSpaces]
    · simp [lstripSpaces, h]

theorem wordsAux_collapse (s : List Char) :
    wordsAux (collapseSpaces false s) = wordsAux s ∧ words (collapseSpaces true s) = words s := by
  induction s with
  | nil => exact ⟨rfl, rfl⟩
  | cons c r ih =>
    by_cases h : c = ' '
    · subst h
      simp only [collapseSpaces, if_true, Bool.false_eq_true, if_false]
      refine ⟨?_, ?_⟩
      · have := ih.2
        simp only [words] at this
        simp [wordsAux, this]
      · rw [words_space]; exact ih.2
    · simp only [collapseSpaces, h, if_false]
      have e : wordsAux (c :: collapseSpaces false r) = wordsAux (c :: r) := by
        simp [wordsAux, h, ih.1]
      exact ⟨e, by simp only [words, e]⟩

theorem wordsAux_rstrip (s : List Char) : wordsAux (rstrip s) = wordsAux s := by
  induction s with
  | nil => rfl
  | cons c r ih =>
    unfold rstrip
    split
    · next hc =>
      rw [hc.1]
      have : wordsAux r = ([], []) := by rw [← ih, hc.2]; rfl
      simp [wordsAux, this, closeWord]
    · by_cases h : c = ' ' <;> simp [wordsAux, h, ih]

theorem words_trim (s : List Char) : words (trim s) = words s := by
  unfold trim
  rw [stripSpaces_eq]
  simp only [words]
  rw [wordsAux_rstrip]
  have := words_lstrip (collapseSpaces false s)
  simp only [words] at this
  rw [this, (wordsAux_collapse s).1]


/-! ### ASCII case mapping -/

theorem toNat_upperChar (c : Char) :
    (upperChar c).toNat = if 97 ≤ c.toNat ∧ c.toNat ≤ 122 then c.toNat - 32 else c.toNat := by
  unfold upperChar isAsciiLower
  by_cases h : 97 ≤ c.toNat ∧ c.toNat ≤ 122
  · simp only [h, decide_true, Bool.and_self, if_true, and_self]
    exact toNat_ofNat_valid _ (Or.inl (by omega))
  · rw [if_neg h, if_neg (by simpa using h)]

theorem toNat_lowerChar (c : Char) :
    (lowerChar c).toNat = if 65 ≤ c.toNat ∧ c.toNat ≤ 90 then c.toNat + 32 else c.toNat := by
  unfold lowerChar isAsciiUpper
  by_cases h : 65 ≤ c.toNat ∧ c.toNat ≤ 90
  · simp only [h, decide_true, Bool.and_self, if_true, and_self]
    exact toNat_ofNat_valid _ (Or.inl (by omega))
  · rw [if_neg h, if_neg (by simpa using h)]

theorem upper_upper (c : Char) : upperChar (upperChar c) = upperChar c := by
  apply Char.toNat_inj.mp
  simp only [toNat_upperChar]
  repeat' split
  all_goals omega

theorem lower_lower (c : Char) : lowerChar (lowerChar c) = lowerChar c := by
  apply Char.toNat_inj.mp
  simp only [toNat_lowerChar]
  repeat' split
  all_goals omega

theorem lower_upper (c : Char) : lowerChar (upperChar c) = lowerChar c := by
  apply Char.toNat_inj.mp
  simp only [toNat_upperChar, toNat_lowerChar]
  repeat' split
  all_goals omega

theorem upper_lower (c : Char) : upperChar (lowerChar c) = upperChar c := by
  apply Char.toNat_inj.mp
  simp only [toNat_upperChar, toNat_lowerChar]
  repeat' split
  all_goals omega

theorem letter_upper (c : Char) : isAsciiLetter (upperChar c) = isAsciiLetter c := by
  simp only [isAsciiLetter, isAsciiLower, isAsciiUpper, toNat_upperChar]
  split <;> first | rfl | (rw [Bool.eq_iff_iff]; simp; try omega)

theorem letter_lower (c : Char) : isAsciiLetter (lowerChar c) = isAsciiLetter c := by
  simp only [isAsciiLetter, isAsciiLower, isAsciiUpper, toNat_lowerChar]
  split <;> first | rfl | (rw [Bool.eq_iff_iff]; simp; try omega)

theorem ascii_upper (c : Char) (h : c.toNat < 128) : (upperChar c).toNat < 128 := by
  rw [toNat_upperChar]; split <;> omega

theorem ascii_lower (c : Char) (h : c.toNat < 128) : (lowerChar c).toNat < 128 := by
  rw [toNat_lowerChar]; split <;> omega

/-- a character and its upper-case form: the same, or a lower-case letter and the capital 32 below -/
theorem upperChar_cases (c : Char) :
    upperChar c = c ∨ (isAsciiLower c = true ∧ isAsciiUpper (upperChar c) = true ∧ (upperChar c).toNat + 32 = c.toNat) := by
  by_cases h : 97 ≤ c.toNat ∧ c.toNat ≤ 122
  · right
    have := toNat_upperChar c
    rw [if_pos h] at this
    simp only [isAsciiLower, isAsciiUpper, this, Bool.and_eq_true, decide_eq_true_eq]
    omega
  · left
    apply Char.toNat_inj.mp
    rw [toNat_upperChar, if_neg h]

theorem lowerChar_cases (c : Char) :
    lowerChar c = c ∨ (isAsciiUpper c = true ∧ isAsciiLower (lowerChar c) = true ∧ (lowerChar c).toNat = c.toNat + 32) := by
  by_cases h : 65 ≤ c.toNat ∧ c.toNat ≤ 90
  · right
    have := toNat_lowerChar c
    rw [if_pos h] at this
    refine ⟨?_, ?_, this⟩
    · simp only [isAsciiUpper, Bool.and_eq_true, decide_eq_true_eq]; exact h
    · simp only [isAsciiLower, Bool.and_eq_true, decide_eq_true_eq]; omega
  · left
    apply Char.toNat_inj.mp
    rw [toNat_lowerChar, if_neg h]

theorem titleGo_length (p : Bool) (s : List Char) : (titleGo p s).length = s.length := by
  induction s generalizing p with
  | nil => rfl
  | cons c r ih => simp [titleGo, ih]

theorem titleGo_idem (p : Bool) (s : List Char) : titleGo p (titleGo p s) = titleGo p s := by
  induction s generalizing p with
  | nil => rfl
  | cons c r ih =>
    cases p
    · simp only [titleGo, Bool.false_eq_true, if_false, upper_upper, letter_upper, ih]
    · simp only [titleGo, if_true, lower_lower, letter_lower, ih]

theorem lower_titleGo (p : Bool) (s : List Char) : (titleGo p s).map lowerChar = s.map lowerChar := by
  induction s generalizing p with
  | nil => rfl
  | cons c r ih =>
    cases p
    · simp only [titleGo, Bool.false_eq_true, if_false, List.map_cons, lower_upper, ih]
    · simp only [titleGo, if_true, List.map_cons, lower_lower, ih]

theorem titleGo_all_ascii (p : Bool) (s : List Char) (h : s.all (fun c => c.toNat < 128) = true) :
    (titleGo p s).all (fun c => c.toNat < 128) = true := by
  induction s generalizing p with
  | nil => rfl
  | cons c r ih =>
    simp only [List.all_cons, Bool.and_eq_true, decide_eq_true_eq] at h
    simp only [titleGo, List.all_cons, Bool.and_eq_true, decide_eq_true_eq]
    refine ⟨?_, ih _ h.2⟩
    split
    · exact ascii_lower c h.1
    · exact ascii_upper c h.1

/-- position by position, PROPER's output is the upper- or the lower-case form of the input character:
    upper-case exactly at the start and after a non-letter -/
theorem titleGo_getElem (p : Bool) (s : List Char) (i : Nat) (h : i < s.length) :
    (titleGo p s)[i]'(by rw [titleGo_length]; exact h) =
      if (if i = 0 then p else isAsciiLetter (s[i - 1]'(by omega))) then lowerChar s[i] else upperChar s[i] := by
  induction s generalizing p i with
  | nil => simp at h
  | cons c r ih =>
    cases i with
    | zero => simp [titleGo]
    | succ j =>
      simp only [titleGo, List.getElem_cons_succ]
      rw [ih]
      · cases j with
        | zero => simp
        | succ k => simp
      · simpa using h

/-! ### CLEAN -/

theorem clean_idem (s : List Char) : clean (clean s) = clean s := by
  simp [clean, List.filter_filter]

theorem clean_sublist (s : List Char) : (clean s).Sublist s := List.filter_sublist

theorem clean_no_control (s : List Char) : ∀ c ∈ clean s, 31 < c.toNat := by
  intro c hc
  simpa using (List.mem_filter.mp hc).2

theorem clean_length (s : List Char) : (clean s).length + s.countP (fun c => c.toNat ≤ 31) = s.length := by
  induction s with
  | nil => rfl
  | cons c r ih =>
    by_cases h : 31 < c.toNat
    · have h' : ¬ c.toNat ≤ 31 := by omega
      simp only [clean, List.filter_cons, h, decide_true, if_true, List.length_cons, List.countP_cons, h',
        decide_false, Bool.false_eq_true, if_false] at ih ⊢
      omega
    · have h' : c.toNat ≤ 31 := by omega
      simp only [clean, List.filter_cons, h, decide_false, Bool.false_eq_true, if_false, List.length_cons,
        List.countP_cons, h', decide_true, if_true] at ih ⊢
      omega

theorem clean_fixed (s : List Char) (h : ∀ c ∈ s, 31 < c.toNat) : clean s = s := by
  unfold clean
  rw [List.filter_eq_self]
  intro c hc
  simpa using h c hc

/-! ### joins -/

theorem pyJoin_eq_intercalate (d : List Char) (xs : List (List Char)) : pyJoin d xs = d.intercalate xs := by
  induction xs with
  | nil => simp [pyJoin, List.intercalate]
  | cons x r ih =>
    cases r with
    | nil => simp [pyJoin, List.intercalate]
    | cons y t =>
      simp only [pyJoin, ih]
      simp [List.intercalate, List.intersperse]

/-! ### SUBSTITUTE: `replaceAll`, the specification of "replace every occurrence" -/

/-- the leftmost occurrence of `old`: the text before it and the text after it -/
def cutFirst (old : List Char) : List Char → Option (List Char × List Char)
  | [] => none
  | c :: r =>
    if old.isPrefixOf (c :: r) then some ([], (c :: r).drop old.length)
    else (cutFirst old r).map (fun p => (c :: p.1, p.2))

theorem cutFirst_eq {old s a b : List Char} (h : cutFirst old s = some (a, b)) : s = a ++ old ++ b := by
  induction s generalizing a b with
  | nil => simp [cutFirst] at h
  | cons c r ih =>
    unfold cutFirst at h
    split at h
    · next hp =>
      have hp' := List.isPrefixOf_iff_prefix.mp hp
      simp only [Option.some.injEq, Prod.mk.injEq] at h
      rw [← h.1, ← h.2, List.nil_append]
      exact (List.prefix_iff_eq_append.mp hp').symm
    · cases hr : cutFirst old r with
      | none => simp [hr] at h
      | some p =>
        obtain ⟨a', b'⟩ := p
        simp only [hr, Option.map_some, Option.some.injEq, Prod.mk.injEq] at h
        rw [← h.1, ← h.2, ih hr]
        simp

/-- `replaceAll old new s`: cut at the leftmost occurrence of `old`, put `new` in its place and go on
    in the text after that occurrence (so the replaced occurrences do not overlap and the inserted
    text is not searched again) -/
def replaceAll (old new : List Char) (s : List Char) : List Char :=
  if _hold : old = [] then s else
  match _h : cutFirst old s with
  | none => s
  | some (_a, b) => _a ++ new ++ replaceAll old new b
termination_by s.length
decreasing_by
  have := congrArg List.length (cutFirst_eq _h)
  have : old.length ≠ 0 := by simpa using _hold
  simp only [List.length_append] at *
  omega

theorem replaceAll_none {old new s : List Char} (hold : old ≠ []) (h : cutFirst old s = none) :
    replaceAll old new s = s := by
  rw [replaceAll, dif_neg hold]
  split
  · rfl
  · next h' => rw [h] at h'; cases h'

theorem replaceAll_some {old new s a b : List Char} (hold : old ≠ []) (h : cutFirst old s = some (a, b)) :
    replaceAll old new s = a ++ new ++ replaceAll old new b := by
  rw [replaceAll, dif_neg hold]
  split
  · next h' => rw [h] at h'; cases h'
  · next a' b' h' =>
    rw [h] at h'
    simp only [Option.some.injEq, Prod.mk.injEq] at h'
    rw [h'.1, h'.2]


theorem cutFirst_none_iff {old : List Char} (hold : old ≠ []) (s : List Char) :
    cutFirst old s = none ↔ ¬ old <:+: s := by
  induction s with
  | nil =>
    simp only [cutFirst, true_iff]
    intro h
    exact hold (List.eq_nil_of_infix_nil h)
  | cons c r ih =>
    rw [List.infix_cons_iff, cutFirst]
    split
    · next hp =>
      simp only [reduceCtorEq, false_iff]
      exact fun hn => hn (Or.inl (List.isPrefixOf_iff_prefix.mp hp))
    · next hp =>
      rw [Option.map_eq_none_iff, ih]
      have : ¬ old <+: c :: r := fun h => hp (List.isPrefixOf_iff_prefix.mpr h)
      simp [this]

theorem not_infix_dropLast {old : List Char} (hold : old ≠ []) : ¬ old <:+: old.dropLast := by
  intro h
  have := h.length_le
  have : old.length ≠ 0 := by simpa using hold
  simp only [List.length_dropLast] at *
  omega

theorem cutFirst_spec {old s a b : List Char} (hold : old ≠ []) (h : cutFirst old s = some (a, b)) :
    s = a ++ old ++ b ∧ ¬ old <:+: a ++ old.dropLast := by
  refine ⟨cutFirst_eq h, ?_⟩
  induction s generalizing a b with
  | nil => simp [cutFirst] at h
  | cons c r ih =>
    unfold cutFirst at h
    split at h
    · simp only [Option.some.injEq, Prod.mk.injEq] at h
      rw [← h.1, List.nil_append]
      exact not_infix_dropLast hold
    · next hp =>
      cases hr : cutFirst old r with
      | none => simp [hr] at h
      | some p =>
        obtain ⟨a', b'⟩ := p
        simp only [hr, Option.map_some, Option.some.injEq, Prod.mk.injEq] at h
        rw [← h.1, List.cons_append, List.infix_cons_iff]
        rintro (hpre | hin)
        · apply hp
          apply List.isPrefixOf_iff_prefix.mpr
          refine hpre.trans ?_
          rw [cutFirst_eq hr]
          apply List.cons_prefix_cons.mpr ⟨rfl, ?_⟩
          rw [List.append_assoc]
          apply (List.prefix_append_right_inj _).mpr
          exact (List.dropLast_prefix old).trans (List.prefix_append _ _)
        · exact ih hr hin

theorem cutFirst_of_spec {old : List Char} (hold : old ≠ []) (a b : List Char)
    (h : ¬ old <:+: a ++ old.dropLast) : cutFirst old (a ++ old ++ b) = some (a, b) := by
  induction a with
  | nil =>
    obtain ⟨o, os, rfl⟩ := List.exists_cons_of_ne_nil hold
    have hp : (o :: os).isPrefixOf (o :: os ++ b) = true := List.isPrefixOf_iff_prefix.mpr (List.prefix_append _ _)
    simp only [List.nil_append, List.cons_append] at hp ⊢
    rw [cutFirst, if_pos hp]
    have : (o :: (os ++ b)).drop (o :: os).length = b := by
      rw [← List.cons_append, List.drop_left]
    rw [this]
  | cons c a ih =>
    have hnp : ¬ (old.isPrefixOf (c :: a ++ old ++ b) = true) := by
      intro hp
      have hp' := List.isPrefixOf_iff_prefix.mp hp
      apply h
      have h2 : (c :: a ++ old.dropLast) <+: c :: a ++ old ++ b := by
        rw [List.append_assoc]
        apply (List.prefix_append_right_inj _).mpr
        exact (List.dropLast_prefix old).trans (List.prefix_append _ _)
      have hl : old.length ≤ (c :: a ++ old.dropLast).length := by
        have : old.length ≠ 0 := by simpa using hold
        simp only [List.cons_append, List.length_cons, List.length_append, List.length_dropLast]
        omega
      exact (List.prefix_of_prefix_length_le hp' h2 hl).isInfix
    have h' : ¬ old <:+: a ++ old.dropLast := by
      intro hin
      apply h
      rw [List.cons_append, List.infix_cons_iff]
      exact Or.inr hin
    simp only [List.cons_append] at hnp ⊢
    rw [cutFirst, if_neg hnp, ih h']
    rfl

/-- what "replace every occurrence, left to right, without overlap" means, as a relation: a text
    without occurrence is unchanged; otherwise the text is `a ++ old ++ b` where the shown occurrence
    is the leftmost one (`old` does not occur in `a ++ old.dropLast`, i.e. no occurrence starts
    inside `a`), and the result is `a ++ new ++ b'` with `b'` the result for `b` -/
inductive ReplAll (old new : List Char) : List Char → List Char → Prop
  | done (s : List Char) : ¬ old <:+: s → ReplAll old new s s
  | step (a b b' : List Char) : ¬ old <:+: a ++ old.dropLast → ReplAll old new b b' →
      ReplAll old new (a ++ old ++ b) (a ++ new ++ b')

theorem replaceAll_rel {old : List Char} (hold : old ≠ []) (new s : List Char) :
    ReplAll old new s (replaceAll old new s) := by
  induction hn : s.length using Nat.strongRecOn generalizing s with
  | _ n ih =>
    cases hc : cutFirst old s with
    | none =>
      rw [replaceAll_none hold hc]
      exact .done s ((cutFirst_none_iff hold s).mp hc)
    | some p =>
      obtain ⟨a, b⟩ := p
      rw [replaceAll_some hold hc]
      have hs := cutFirst_spec hold hc
      have hlen : b.length < n := by
        have := congrArg List.length hs.1
        have : old.length ≠ 0 := by simpa using hold
        simp only [List.length_append] at *
        omega
      have := ih b.length hlen b rfl
      conv => lhs; rw [hs.1]
      exact .step a b _ hs.2 this

theorem ReplAll_unique {old : List Char} (hold : old ≠ []) {new s r : List Char} (h : ReplAll old new s r) :
    r = replaceAll old new s := by
  induction h with
  | done s hs => rw [replaceAll_none hold ((cutFirst_none_iff hold s).mpr hs)]
  | step a b b' ha _ ih => rw [replaceAll_some hold (cutFirst_of_spec hold a b ha), ih]


/-! ### the model's `str.replace` is `replaceAll` -/

theorem replaceAll_nil {old : List Char} (hold : old ≠ []) (new : List Char) : replaceAll old new [] = [] :=
  replaceAll_none hold rfl

theorem replaceAll_cons_pos {old : List Char} (hold : old ≠ []) (new : List Char) (c : Char) (r : List Char)
    (hp : old.isPrefixOf (c :: r) = true) :
    replaceAll old new (c :: r) = new ++ replaceAll old new ((c :: r).drop old.length) := by
  have : cutFirst old (c :: r) = some ([], (c :: r).drop old.length) := by rw [cutFirst, if_pos hp]
  rw [replaceAll_some hold this, List.nil_append]

theorem replaceAll_cons_neg {old : List Char} (hold : old ≠ []) (new : List Char) (c : Char) (r : List Char)
    (hp : ¬ old.isPrefixOf (c :: r) = true) :
    replaceAll old new (c :: r) = c :: replaceAll old new r := by
  cases hr : cutFirst old r with
  | none =>
    have : cutFirst old (c :: r) = none := by rw [cutFirst, if_neg hp, hr]; rfl
    rw [replaceAll_none hold this, replaceAll_none hold hr]
  | some p =>
    obtain ⟨a, b⟩ := p
    have : cutFirst old (c :: r) = some (c :: a, b) := by rw [cutFirst, if_neg hp, hr]; rfl
    rw [replaceAll_some hold this, replaceAll_some hold hr]
    simp

theorem replaceGo_skip (old new : List Char) (k : Nat) (s : List Char) :
    replaceGo old new k s = replaceGo old new 0 (s.drop k) := by
  induction k generalizing s with
  | zero => simp
  | succ k ih =>
    cases s with
    | nil => simp [replaceGo]
    | cons c r => simp only [replaceGo, List.drop_succ_cons]; exact ih r

theorem replaceGo_eq_replaceAll {old : List Char} (hold : old ≠ []) (new s : List Char) :
    replaceGo old new 0 s = replaceAll old new s := by
  induction hn : s.length using Nat.strongRecOn generalizing s with
  | _ n ih =>
    cases s with
    | nil => rw [replaceAll_nil hold]; rfl
    | cons c r =>
      by_cases hp : old.isPrefixOf (c :: r) = true
      · rw [replaceAll_cons_pos hold new c r hp, replaceGo, if_pos hp, replaceGo_skip]
        have hl : old.length ≠ 0 := by simpa using hold
        have hd : (c :: r).drop old.length = r.drop (old.length - 1) := by
          obtain ⟨m, hm⟩ := Nat.exists_eq_succ_of_ne_zero hl
          rw [hm]; simp
        rw [hd]
        congr 1
        apply ih _ _ _ rfl
        rw [← hn]
        simp only [List.length_drop, List.length_cons]
        omega
      · rw [replaceAll_cons_neg hold new c r hp, replaceGo, if_neg hp]
        congr 1
        apply ih _ _ _ rfl
        rw [← hn]; simp

theorem pyReplace_eq_replaceAll {old : List Char} (hold : old ≠ []) (new s : List Char) :
    pyReplace s old new = replaceAll old new s := by
  unfold pyReplace
  rw [if_neg (by simpa using hold)]
  exact replaceGo_eq_replaceAll hold new s

/-! ### the k-th occurrence -/

/-- the start positions at which `old` occurs in `s`, in increasing order (overlapping occurrences
    included) -/
def occPositions (old s : List Char) : List Nat :=
  (List.range s.length).filter (fun i => old.isPrefixOf (s.drop i))

theorem occPositions_cons (old : List Char) (c : Char) (r : List Char) :
    occPositions old (c :: r) =
      (if old.isPrefixOf (c :: r) then [0] else []) ++ (occPositions old r).map (· + 1) := by
  unfold occPositions
  rw [List.length_cons, List.range_succ_eq_map, List.filter_cons, List.filter_map]
  simp only [List.drop_zero]
  have : ((fun i => old.isPrefixOf (List.drop i (c :: r))) ∘ Nat.succ) = fun i => old.isPrefixOf (List.drop i r) := by
    funext i; simp
  rw [this]
  split <;> simp

theorem kthScan_spec (old new : List Char) (s : List Char) (k : Nat) (hk : 1 ≤ k) :
    kthScan old new k s =
      ((occPositions old s)[k - 1]?).map (fun i => s.take i ++ new ++ s.drop (i + old.length)) := by
  induction s generalizing k with
  | nil => simp [kthScan, occPositions]
  | cons c r ih =>
    rw [occPositions_cons, kthScan]
    by_cases hp : old.isPrefixOf (c :: r) = true
    · simp only [hp, if_true]
      by_cases hk1 : k ≤ 1
      · have : k = 1 := by omega
        subst this
        simp
      · rw [if_neg hk1, ih (k - 1) (by omega)]
        obtain ⟨m, rfl⟩ : ∃ m, k = m + 2 := ⟨k - 2, by omega⟩
        have e1 : m + 2 - 1 = m + 1 := by omega
        simp only [e1, List.singleton_append, List.getElem?_cons_succ, List.getElem?_map, Option.map_map]
        congr 1
        funext i
        simp [Nat.add_right_comm]
    · simp only [hp, Bool.false_eq_true, if_false, List.nil_append, ih k hk, List.getElem?_map, Option.map_map]
      congr 1
      funext i
      simp [Nat.add_right_comm]


/-! ### non-self-overlapping old texts: every occurrence is replaced -/

/-- `old` does not overlap itself: no proper non-empty prefix of it is also a suffix -/
def NoBorder (old : List Char) : Prop :=
  ∀ k, 0 < k → k < old.length → old.take k ≠ old.drop (old.length - k)

theorem mem_occPositions (old s : List Char) (i : Nat) :
    i ∈ occPositions old s ↔ i < s.length ∧ old <+: s.drop i := by
  simp [occPositions, List.mem_filter, List.isPrefixOf_iff_prefix]

/-- two occurrences of a non-self-overlapping text do not overlap -/
theorem occurrences_disjoint {old : List Char} (hnb : NoBorder old) (s : List Char) (i j : Nat)
    (hi : old <+: s.drop i) (hj : old <+: s.drop j) (hij : i < j) : i + old.length ≤ j := by
  by_cases h : i + old.length ≤ j
  · exact h
  · exfalso
    obtain ⟨t, ht⟩ := hi
    have hd : s.drop j = old.drop (j - i) ++ t := by
      have : s.drop j = (s.drop i).drop (j - i) := by
        rw [List.drop_drop]; congr 1; omega
      rw [this, ← ht, List.drop_append_of_le_length (by omega)]
    rw [hd] at hj
    have h1 : old.drop (j - i) <+: old := by
      apply List.prefix_of_prefix_length_le (List.prefix_append _ _) hj
      simp
    have h2 := List.prefix_iff_eq_take.mp h1
    simp only [List.length_drop] at h2
    exact hnb (old.length - (j - i)) (by omega) (by omega)
      (by rw [← h2]; congr 1; omega)

/-- the specification the oracle uses: replace, left to right, the occurrences that start at the
    (increasing, pairwise non-overlapping) absolute positions `ps`; `s` is the text from absolute
    position `at` on, `m` the length of the old text -/
def replaceAt (m : Nat) (new : List Char) : List Nat → Nat → List Char → List Char
  | [], _, s => s
  | p :: ps, pos, s => s.take (p - pos) ++ new ++ replaceAt m new ps (p + m) (s.drop (p - pos + m))

theorem replaceAt_shift (m : Nat) (new : List Char) (c : Nat) (ps : List Nat) (pos : Nat) (s : List Char) :
    replaceAt m new (ps.map (· + c)) (pos + c) s = replaceAt m new ps pos s := by
  induction ps generalizing pos s with
  | nil => rfl
  | cons p ps ih =>
    simp only [List.map_cons, replaceAt]
    have e : p + c - (pos + c) = p - pos := by omega
    rw [e, show p + c + m = (p + m) + c by omega, ih]

theorem occPositions_split (old : List Char) (m : Nat) (s : List Char) :
    occPositions old s = (occPositions old s).filter (· < m) ++ (occPositions old (s.drop m)).map (· + m) := by
  induction m generalizing s with
  | zero => simp
  | succ m ih =>
    cases s with
    | nil => simp [occPositions]
    | cons c r =>
      rw [List.drop_succ_cons, occPositions_cons, List.filter_append, List.filter_map]
      conv => lhs; rw [ih r]
      have : ((fun x => decide (x < m + 1)) ∘ fun x => x + 1) = fun x => decide (x < m) := by
        funext x; simp
      rw [this]
      have h0 : List.filter (fun x => decide (x < m + 1)) (if old.isPrefixOf (c :: r) = true then [0] else []) =
          (if old.isPrefixOf (c :: r) = true then [0] else []) := by
        split <;> simp
      rw [h0, List.map_append, List.map_map, List.append_assoc]
      congr 2

theorem replaceGo_eq_replaceAt {old : List Char} (hold : old ≠ []) (hnb : NoBorder old) (new s : List Char) :
    replaceGo old new 0 s = replaceAt old.length new (occPositions old s) 0 s := by
  induction hn : s.length using Nat.strongRecOn generalizing s with
  | _ n ih =>
    cases s with
    | nil => simp [replaceGo, occPositions, replaceAt]
    | cons c r =>
      have hl : old.length ≠ 0 := by simpa using hold
      by_cases hp : old.isPrefixOf (c :: r) = true
      · -- an occurrence starts here; no other one starts inside it
        have hsplit := occPositions_split old old.length (c :: r)
        have hfil : (occPositions old (c :: r)).filter (· < old.length) = [0] := by
          rw [occPositions_cons, if_pos hp, List.filter_append, List.filter_map]
          have : List.filter ((fun x => decide (x < old.length)) ∘ fun x => x + 1) (occPositions old r) = [] := by
            rw [List.filter_eq_nil_iff]
            intro j hj
            have hj' := (mem_occPositions old r j).mp hj
            have := occurrences_disjoint hnb (c :: r) 0 (j + 1) (by simpa using List.isPrefixOf_iff_prefix.mp hp)
              (by simpa using hj'.2) (by omega)
            simp; omega
          rw [this]
          simp; omega
        rw [hsplit, hfil]
        simp only [List.singleton_append, replaceAt, Nat.sub_self, List.take_zero, List.nil_append, Nat.zero_add]
        rw [replaceGo, if_pos hp, replaceGo_skip]
        have hd : (c :: r).drop old.length = r.drop (old.length - 1) := by
          obtain ⟨m, hm⟩ := Nat.exists_eq_succ_of_ne_zero hl
          rw [hm]; simp
        rw [hd]
        congr 1
        have := replaceAt_shift old.length new old.length (occPositions old (r.drop (old.length - 1))) 0 (r.drop (old.length - 1))
        rw [Nat.zero_add] at this
        rw [this]
        apply ih _ _ _ rfl
        rw [← hn]
        simp only [List.length_drop, List.length_cons]
        omega
      · rw [replaceGo, if_neg hp, occPositions_cons, if_neg hp, List.nil_append]
        have hr := ih r.length (by rw [← hn]; simp) r rfl
        rw [hr]
        cases hps : occPositions old r with
        | nil => simp [replaceAt]
        | cons p ps =>
          simp only [List.map_cons, replaceAt, Nat.sub_zero]
          rw [show p + 1 + old.length = (p + old.length) + 1 by omega, replaceAt_shift]
          simp

/-! ### evaluator helpers -/

theorem caseFn_covered (cm : CaseMap) (f : List Char → List Char) (s : List Char) (h : cm.covers s = true) :
    caseFn cm f [.str s] = .ok (.str (f s)) := by
  simp [caseFn, onText, textOf?, pyStr?, h]

theorem all_ascii_map (f : Char → Char) (hf : ∀ c, c.toNat < 128 → (f c).toNat < 128) (s : List Char)
    (h : s.all (fun c => c.toNat < 128) = true) : (s.map f).all (fun c => c.toNat < 128) = true := by
  simp only [List.all_eq_true, decide_eq_true_eq, List.mem_map] at h ⊢
  rintro c ⟨d, hd, rfl⟩
  exact hf d (h d hd)

open HotXL.Eval in
/-- a registered, modelled builtin that returns `v` and is not shadowed by a custom function -/
theorem callBuiltin (env : Env) (name : List Char) (b : Fn.Builtin) (args : List Value) (v : Value) (log : Log)
    (hc : env.custom name = none) (hr : Builtins.isRegistered (String.ofList name) = true)
    (hm : Builtins.model? (String.ofList name) = some b) (hv : b args = .ok v)
    (hno : isNoOpinion v = false) :
    callFunction env name args log = (.ok v, log ++ [.fn name args]) := by
  simp [callFunction, hc, hr, hm, hv, hno]

theorem sub_ints (a b : Int) :
    evalArith 64 .sub (.num (.int a)) (.num (.int b)) = .ok (.num (.int (a - b))) := by
  simp [evalArith, isErr, arithScalar, valueAndType, leftTypeKnown, convLookup, Generated.convTable,
    ArithOp.sym, Ty.name, Operand.ty, applyConv, applyOp, applyResult, numSub]

theorem add_ints (a b : Int) :
    evalArith 64 .add (.num (.int a)) (.num (.int b)) = .ok (.num (.int (a + b))) := by
  simp [evalArith, isErr, arithScalar, valueAndType, leftTypeKnown, convLookup, Generated.convTable,
    ArithOp.sym, Ty.name, Operand.ty, applyConv, applyOp, applyResult, numAdd]

/-! ### TRIM: the result is the words joined by single spaces -/

def tailpart (ws : List (List Char)) : List Char :=
  match ws with
  | [] => []
  | _ => ' ' :: pyJoin [' '] ws

theorem pyJoin_cons (x : List Char) (ws : List (List Char)) : pyJoin [' '] (x :: ws) = x ++ tailpart ws := by
  cases ws with
  | nil => simp [pyJoin, tailpart]
  | cons y r => simp [pyJoin, tailpart]

theorem canon_aux (t : List Char) (h1 : noDbl t = true) (h3 : t.getLast? ≠ some ' ') :
    t = (wordsAux t).1 ++ tailpart (wordsAux t).2 := by
  induction t with
  | nil => rfl
  | cons c r ih =>
    have hr1 : noDbl r = true := by
      cases r with
      | nil => rfl
      | cons b t => simp only [noDbl, Bool.and_eq_true] at h1; exact h1.2
    by_cases hc : c = ' '
    · subst hc
      cases r with
      | nil => simp at h3
      | cons b t =>
        have hb : b ≠ ' ' := by
          simp only [noDbl, Bool.and_eq_true, Bool.not_eq_true', decide_true, Bool.true_and,
            decide_eq_false_iff_not] at h1
          exact h1.1
        have hr3 : (b :: t).getLast? ≠ some ' ' := by rwa [List.getLast?_cons_cons] at h3
        have := ih hr1 hr3
        have hw : wordsAux (b :: t) = (b :: (wordsAux t).1, (wordsAux t).2) := by simp [wordsAux, hb]
        rw [hw] at this
        simp only [wordsAux, if_true, closeWord, hb, if_false, List.nil_append]
        simp only [reduceCtorEq, if_false, tailpart, pyJoin_cons]
        exact congrArg _ this
    · have hr3 : r.getLast? ≠ some ' ' := by
        cases r with
        | nil => simp
        | cons b t => rwa [List.getLast?_cons_cons] at h3
      have := ih hr1 hr3
      simp only [wordsAux, hc, if_false, List.cons_append]
      exact congrArg _ this

/-- a text without leading, trailing or doubled spaces is its words joined by single spaces -/
theorem canonical_of_shape (t : List Char) (h1 : noDbl t = true) (h2 : t.head? ≠ some ' ') (h3 : t.getLast? ≠ some ' ') :
    t = pyJoin [' '] (words t) := by
  cases t with
  | nil => rfl
  | cons c r =>
    have hc : c ≠ ' ' := by simpa using h2
    have := canon_aux (c :: r) h1 h3
    have hw : wordsAux (c :: r) = (c :: (wordsAux r).1, (wordsAux r).2) := by simp [wordsAux, hc]
    rw [hw] at this
    simp only [words, hw, closeWord, reduceCtorEq, if_false, pyJoin_cons]
    exact this

theorem trim_eq_join_words (s : List Char) : trim s = [' '].intercalate (words s) := by
  have hp := trim_props s
  rw [← pyJoin_eq_intercalate, ← words_trim s]
  exact canonical_of_shape _ hp.1 hp.2.1 hp.2.2.1


end HotXL.Lemmas.Text
