/-
  HotXL.Lemmas.Lexer — lemmas about the lexer model (`HotXL.Model.Lexer`):
  rule order (from the generated table), character classes, `spanLen`, the string scanner,
  one step of `tokenize`, first-character analysis of `lexOne`, locality of the matchers
  (a white-space character ends every match except `WHITESPACE` and `STRING`), bounds.
  Core Lean only.
-/
import HotXL.Model.Lexer
import HotXL.Model.Eval
import HotXL.Lemmas.PyNum
import HotXL.Lemmas.Cell

namespace HotXL.Lexer

/-! ### rule order (a fact about the generated table) -/

/-- the rules after `WHITESPACE` and `STRING`, in master order -/
def lateRules : List TK :=
  [.FUNCTION, .XLERROR, .ABSOLUTE_CELL, .MIXED_CELL, .RELATIVE_CELL,
   .VARIABLE, .NUMBER, .LBRACKET, .RBRACKET, .AMP, .SINGLESPACE, .DECIMAL, .COLON, .SEMICOLON,
   .COMMA, .BACKSLASH, .MULT, .DIV, .MINUS, .PLUS, .CARET, .LPAREN, .RPAREN, .NOTEQUAL,
   .GREATEREQ, .LESSEQ, .GREATER, .LESS, .QUOTATION, .APOSTROPHE, .EXCLAMATION, .EQUAL,
   .PERCENT, .HASH]

/-- the rules after `NUMBER` (all literal texts), in master order -/
def litRules : List TK :=
  [.LBRACKET, .RBRACKET, .AMP, .SINGLESPACE, .DECIMAL, .COLON, .SEMICOLON,
   .COMMA, .BACKSLASH, .MULT, .DIV, .MINUS, .PLUS, .CARET, .LPAREN, .RPAREN, .NOTEQUAL,
   .GREATEREQ, .LESSEQ, .GREATER, .LESS, .QUOTATION, .APOSTROPHE, .EXCLAMATION, .EQUAL,
   .PERCENT, .HASH]

/-- the master order of `Generated.lexRules`: `WHITESPACE`, `STRING`, then `lateRules` -/
theorem ruleOrder_eq : ruleOrder = .WHITESPACE :: .STRING :: lateRules := by decide +kernel

theorem lateRules_eq : lateRules =
    [.FUNCTION, .XLERROR, .ABSOLUTE_CELL, .MIXED_CELL, .RELATIVE_CELL, .VARIABLE, .NUMBER] ++ litRules := rfl

/-! ### characters -/

theorem char_eq_of_toNat_eq {c d : Char} (h : c.toNat = d.toNat) : c = d := by
  rw [← Char.ofNat_toNat (c := c), ← Char.ofNat_toNat (c := d), h]

theorem char_ne_of_toNat_ne {c d : Char} (h : c.toNat ≠ d.toNat) : c ≠ d := fun e => h (e ▸ rfl)

theorem isUpper_iff {c : Char} : isUpper c = true ↔ 65 ≤ c.toNat ∧ c.toNat ≤ 90 := by
  simp [isUpper]
theorem isLower_iff {c : Char} : isLower c = true ↔ 97 ≤ c.toNat ∧ c.toNat ≤ 122 := by
  simp [isLower]
theorem isAlpha_iff {c : Char} :
    isAlpha c = true ↔ (65 ≤ c.toNat ∧ c.toNat ≤ 90) ∨ (97 ≤ c.toNat ∧ c.toNat ≤ 122) := by
  simp [isAlpha, isUpper_iff, isLower_iff]
theorem isDigit_iff {c : Char} : isDigit c = true ↔ 48 ≤ c.toNat ∧ c.toNat ≤ 57 := by
  simp [isDigit]
theorem eq_char_iff {c d : Char} : c = d ↔ c.toNat = d.toNat :=
  ⟨fun h => h ▸ rfl, char_eq_of_toNat_eq⟩
theorem isWord_iff {c : Char} :
    isWord c = true ↔ (65 ≤ c.toNat ∧ c.toNat ≤ 90) ∨ (97 ≤ c.toNat ∧ c.toNat ≤ 122) ∨
      (48 ≤ c.toNat ∧ c.toNat ≤ 57) ∨ c.toNat = 95 := by
  simp only [isWord, Bool.or_eq_true, isAlpha_iff, isDigit_iff, decide_eq_true_eq, eq_char_iff (d := '_')]
  have : '_'.toNat = 95 := rfl
  rw [this]; omega
theorem isWordDot_iff {c : Char} :
    isWordDot c = true ↔ (65 ≤ c.toNat ∧ c.toNat ≤ 90) ∨ (97 ≤ c.toNat ∧ c.toNat ≤ 122) ∨
      (48 ≤ c.toNat ∧ c.toNat ≤ 57) ∨ c.toNat = 95 ∨ c.toNat = 46 := by
  simp only [isWordDot, Bool.or_eq_true, isWord_iff, decide_eq_true_eq, eq_char_iff (d := '.')]
  have : '.'.toNat = 46 := rfl
  rw [this]; omega
theorem isAlphaDot_iff {c : Char} :
    isAlphaDot c = true ↔ (65 ≤ c.toNat ∧ c.toNat ≤ 90) ∨ (97 ≤ c.toNat ∧ c.toNat ≤ 122) ∨ c.toNat = 46 := by
  simp only [isAlphaDot, Bool.or_eq_true, isAlpha_iff, decide_eq_true_eq, eq_char_iff (d := '.')]
  have : '.'.toNat = 46 := rfl
  rw [this]; omega
theorem isAlphaUnderscore_iff {c : Char} :
    isAlphaUnderscore c = true ↔ (65 ≤ c.toNat ∧ c.toNat ≤ 90) ∨ (97 ≤ c.toNat ∧ c.toNat ≤ 122) ∨ c.toNat = 95 := by
  simp only [isAlphaUnderscore, Bool.or_eq_true, isAlpha_iff, decide_eq_true_eq, eq_char_iff (d := '_')]
  have : '_'.toNat = 95 := rfl
  rw [this]; omega
theorem isErrChar_iff {c : Char} :
    isErrChar c = true ↔ (65 ≤ c.toNat ∧ c.toNat ≤ 90) ∨ (48 ≤ c.toNat ∧ c.toNat ≤ 57) ∨ c.toNat = 47 := by
  simp only [isErrChar, Bool.or_eq_true, isUpper_iff, isDigit_iff, decide_eq_true_eq, eq_char_iff (d := '/')]
  have : '/'.toNat = 47 := rfl
  rw [this]; omega
theorem isSpace_iff {c : Char} :
    isSpace c = true ↔ (9 ≤ c.toNat ∧ c.toNat ≤ 13) ∨ (28 ≤ c.toNat ∧ c.toNat ≤ 32) ∨ c.toNat = 133 ∨
      c.toNat = 160 ∨ c.toNat = 5760 ∨ (8192 ≤ c.toNat ∧ c.toNat ≤ 8202) ∨ c.toNat = 8232 ∨
      c.toNat = 8233 ∨ c.toNat = 8239 ∨ c.toNat = 8287 ∨ c.toNat = 12288 := by
  simp only [isSpace, Bool.or_eq_true, Bool.and_eq_true, decide_eq_true_eq]
  omega

theorem eq_false_of_not {b : Bool} (h : ¬ b = true) : b = false := by simpa using h

/-- a white-space character is in none of the character classes of the other rules -/
theorem space_classes {c : Char} (h : isSpace c = true) :
    isAlpha c = false ∧ isDigit c = false ∧ isWord c = false ∧ isWordDot c = false ∧
    isAlphaDot c = false ∧ isAlphaUnderscore c = false ∧ isErrChar c = false := by
  have h' := isSpace_iff.mp h
  refine ⟨eq_false_of_not ?_, eq_false_of_not ?_, eq_false_of_not ?_, eq_false_of_not ?_,
    eq_false_of_not ?_, eq_false_of_not ?_, eq_false_of_not ?_⟩
  · rw [isAlpha_iff]; omega
  · rw [isDigit_iff]; omega
  · rw [isWord_iff]; omega
  · rw [isWordDot_iff]; omega
  · rw [isAlphaDot_iff]; omega
  · rw [isAlphaUnderscore_iff]; omega
  · rw [isErrChar_iff]; omega

/-- a digit is in none of the classes that start an earlier rule -/
theorem digit_classes {c : Char} (h : isDigit c = true) :
    isSpace c = false ∧ isAlpha c = false ∧ isAlphaDot c = false ∧ isAlphaUnderscore c = false ∧
    c ≠ '"' ∧ c ≠ '\'' ∧ c ≠ '#' ∧ c ≠ '$' ∧ c ≠ '.' ∧ c ≠ '(' := by
  have h' := isDigit_iff.mp h
  refine ⟨eq_false_of_not ?_, eq_false_of_not ?_, eq_false_of_not ?_, eq_false_of_not ?_,
    ?_, ?_, ?_, ?_, ?_, ?_⟩
  · rw [isSpace_iff]; omega
  · rw [isAlpha_iff]; omega
  · rw [isAlphaDot_iff]; omega
  · rw [isAlphaUnderscore_iff]; omega
  all_goals (intro e; subst e; revert h; decide)

theorem space_ne {c d : Char} (h : isSpace c = true) (hd : isSpace d = false) : c ≠ d := by
  intro e; subst e; rw [h] at hd; cases hd

/-! ### `spanLen` -/

theorem spanLen_nil (p : Char → Bool) : spanLen p [] = 0 := rfl
theorem spanLen_cons (p : Char → Bool) (c : Char) (cs : List Char) :
    spanLen p (c :: cs) = if p c then spanLen p cs + 1 else 0 := rfl
theorem spanLen_cons_true {p : Char → Bool} {c : Char} (h : p c = true) (cs : List Char) :
    spanLen p (c :: cs) = spanLen p cs + 1 := by rw [spanLen_cons, if_pos h]
theorem spanLen_cons_false {p : Char → Bool} {c : Char} (h : p c = false) (cs : List Char) :
    spanLen p (c :: cs) = 0 := by rw [spanLen_cons, h]; rfl

theorem spanLen_le (p : Char → Bool) (s : List Char) : spanLen p s ≤ s.length := by
  induction s with
  | nil => exact Nat.le_refl _
  | cons c cs ih => rw [spanLen_cons]; split <;> simp <;> omega

theorem spanLen_append_all {p : Char → Bool} {a : List Char} (h : ∀ c ∈ a, p c = true) (s : List Char) :
    spanLen p (a ++ s) = a.length + spanLen p s := by
  induction a with
  | nil => simp
  | cons c a ih =>
    rw [List.cons_append, spanLen_cons_true (h c (by simp)), ih (fun d hd => h d (by simp [hd]))]
    simp; omega

/-- a character outside the class ends the span, whatever follows -/
theorem spanLen_append_stop {p : Char → Bool} {sp : Char} (h : p sp = false) (u x : List Char) :
    spanLen p (u ++ sp :: x) = spanLen p u := by
  induction u with
  | nil => rw [List.nil_append, spanLen_cons_false h]; rfl
  | cons c u ih => rw [List.cons_append, spanLen_cons, spanLen_cons, ih]

theorem spanLen_all {p : Char → Bool} {a : List Char} (h : ∀ c ∈ a, p c = true) : spanLen p a = a.length := by
  have := spanLen_append_all h []
  simpa [spanLen_nil] using this

/-- the span of a block of class characters followed by something that does not start with one -/
theorem spanLen_block {p : Char → Bool} {a : List Char} (h : ∀ c ∈ a, p c = true) {s : List Char}
    (hs : ∀ c, s.head? = some c → p c = false) : spanLen p (a ++ s) = a.length := by
  rw [spanLen_append_all h]
  cases s with
  | nil => rfl
  | cons c cs => rw [spanLen_cons_false (hs c rfl)]; rfl

theorem head?_drop_append_stop (u x : List Char) (sp : Char) (n : Nat) (hn : n ≤ u.length) :
    ((u ++ sp :: x).drop n).head? = ((u ++ [sp]).drop n).head? := by
  induction u generalizing n with
  | nil => simp at hn; subst hn; rfl
  | cons c u ih =>
    cases n with
    | zero => rfl
    | succ n => simp only [List.cons_append, List.drop_succ_cons]; exact ih n (by simpa using hn)

/-! ### one step of the lexer -/

/-- what rule `k` contributes at the cursor -/
def lexStep (k : TK) (s : List Char) : Option (TK × Nat) :=
  match matchTok k s with
  | some n => if n = 0 then none else some (k, n)
  | none => none

theorem lexOne_eq (rules : List TK) (s : List Char) :
    lexOne rules s = rules.findSome? (fun k => lexStep k s) := rfl

theorem lexOne_nil (s : List Char) : lexOne [] s = none := rfl

theorem lexOne_cons (k : TK) (rules : List TK) (s : List Char) :
    lexOne (k :: rules) s = match lexStep k s with
      | some r => some r
      | none => lexOne rules s := by
  rw [lexOne_eq, List.findSome?_cons]
  cases lexStep k s <;> rfl

theorem lexOne_cons_none {k : TK} {s : List Char} (h : lexStep k s = none) (rules : List TK) :
    lexOne (k :: rules) s = lexOne rules s := by rw [lexOne_cons, h]

theorem lexOne_cons_some {k : TK} {s : List Char} {r : TK × Nat} (h : lexStep k s = some r) (rules : List TK) :
    lexOne (k :: rules) s = some r := by rw [lexOne_cons, h]

theorem lexOne_append_none {r1 : List TK} {s : List Char} (h : ∀ k ∈ r1, lexStep k s = none) (r2 : List TK) :
    lexOne (r1 ++ r2) s = lexOne r2 s := by
  induction r1 with
  | nil => rfl
  | cons k r1 ih =>
    rw [List.cons_append, lexOne_cons_none (h k (by simp))]
    exact ih (fun j hj => h j (by simp [hj]))

theorem lexStep_of_none {k : TK} {s : List Char} (h : matchTok k s = none) : lexStep k s = none := by
  rw [lexStep, h]

theorem lexStep_of_some {k : TK} {s : List Char} {n : Nat} (h : matchTok k s = some n) (hn : n ≠ 0) :
    lexStep k s = some (k, n) := by
  rw [lexStep, h]; simp [hn]

theorem lexOne_congr {rules : List TK} {s t : List Char} (h : ∀ k ∈ rules, matchTok k s = matchTok k t) :
    lexOne rules s = lexOne rules t := by
  induction rules with
  | nil => rfl
  | cons k rules ih =>
    rw [lexOne_cons, lexOne_cons, lexStep, lexStep, h k (by simp), ih (fun j hj => h j (by simp [hj]))]

/-- a successful step reports a non-empty match of the rule it names -/
theorem lexOne_some {rules : List TK} {s : List Char} {k : TK} {n : Nat} (h : lexOne rules s = some (k, n)) :
    k ∈ rules ∧ matchTok k s = some n ∧ n ≠ 0 := by
  induction rules with
  | nil => simp [lexOne_nil] at h
  | cons j rules ih =>
    rw [lexOne_cons] at h
    cases hj : lexStep j s with
    | none => rw [hj] at h; have := ih h; exact ⟨by simp [this.1], this.2⟩
    | some r =>
      rw [hj] at h
      simp only [Option.some.injEq] at h
      subst h
      unfold lexStep at hj
      split at hj
      · rename_i m hm
        split at hj
        · cases hj
        · simp only [Option.some.injEq, Prod.mk.injEq] at hj
          obtain ⟨rfl, rfl⟩ := hj
          exact ⟨by simp, hm, by assumption⟩
      · cases hj

/-! ### `tokenizeAux`: enough fuel is enough -/

theorem tokenizeAux_nil (rules : List TK) (fuel : Nat) : tokenizeAux rules fuel [] = [] := by
  cases fuel <;> rfl

theorem tokenizeAux_succ (rules : List TK) (fuel : Nat) (c : Char) (cs : List Char) :
    tokenizeAux rules (fuel + 1) (c :: cs) =
      match lexOne rules (c :: cs) with
      | none => [{ kind := .LEXERROR, text := (c :: cs).take 1 }]
      | some (k, n) =>
        if k = .WHITESPACE then tokenizeAux rules fuel ((c :: cs).drop n)
        else { kind := k, text := (c :: cs).take n } :: tokenizeAux rules fuel ((c :: cs).drop n) := by
  rw [tokenizeAux]
  · cases lexOne rules (c :: cs) with
    | none => rfl
    | some r => obtain ⟨k, n⟩ := r; rfl
  · intro h; cases h

theorem tokenizeAux_fuel (rules : List TK) : ∀ (f1 f2 : Nat) (s : List Char),
    s.length < f1 → s.length < f2 → tokenizeAux rules f1 s = tokenizeAux rules f2 s := by
  intro f1
  induction f1 with
  | zero => intro f2 s h1; omega
  | succ f1 ih =>
    intro f2 s h1 h2
    cases f2 with
    | zero => omega
    | succ f2 =>
      cases s with
      | nil => rw [tokenizeAux_nil, tokenizeAux_nil]
      | cons c cs =>
        rw [tokenizeAux_succ, tokenizeAux_succ]
        cases hl : lexOne rules (c :: cs) with
        | none => rfl
        | some r =>
          obtain ⟨k, n⟩ := r
          have hn : n ≠ 0 := (lexOne_some hl).2.2
          have hlen : ((c :: cs).drop n).length < (c :: cs).length := by
            rw [List.length_drop]; simp; omega
          have e := ih f2 ((c :: cs).drop n) (by omega) (by omega)
          simp only [e]

theorem tokenize_nil : tokenize [] = [] := rfl

/-- one step of `tokenize` on a non-empty input -/
theorem tokenize_step (s : List Char) (hs : s ≠ []) :
    tokenize s =
      match lexOne ruleOrder s with
      | none => [{ kind := .LEXERROR, text := s.take 1 }]
      | some (k, n) =>
        if k = .WHITESPACE then tokenize (s.drop n)
        else { kind := k, text := s.take n } :: tokenize (s.drop n) := by
  cases s with
  | nil => exact absurd rfl hs
  | cons c cs =>
    unfold tokenize
    rw [tokenizeAux_succ]
    cases hl : lexOne ruleOrder (c :: cs) with
    | none => rfl
    | some r =>
      obtain ⟨k, n⟩ := r
      have hn : n ≠ 0 := (lexOne_some hl).2.2
      have e := tokenizeAux_fuel ruleOrder (c :: cs).length (((c :: cs).drop n).length + 1) ((c :: cs).drop n)
        (by rw [List.length_drop]; simp; omega) (by omega)
      simp only [e]

theorem tokenize_of_lexOne {s : List Char} {k : TK} {n : Nat} (h : lexOne ruleOrder s = some (k, n))
    (hk : k ≠ .WHITESPACE) : tokenize s = { kind := k, text := s.take n } :: tokenize (s.drop n) := by
  have hs : s ≠ [] := by
    intro e; subst e
    have := (lexOne_some h).2
    revert this; cases k <;> simp [matchTok, matchSpan, matchString, matchFunction, matchXlError,
      matchLettersDigits, matchAbsoluteCell, matchMixedCell, matchVariable, matchLit, spanLen]
  rw [tokenize_step s hs, h]; simp [hk]

theorem tokenize_of_lexOne_ws {s : List Char} {n : Nat} (h : lexOne ruleOrder s = some (.WHITESPACE, n)) :
    tokenize s = tokenize (s.drop n) := by
  by_cases hs : s = []
  · subst hs; simp
  · rw [tokenize_step s hs, h]; simp


/-! ### the string scanner -/

theorem scanString_nil (q : Char) (p : Nat) (pb : Bool) (le : Option Nat) : scanString q [] p pb le = le := rfl

theorem scanString_cons (q c : Char) (cs : List Char) (p : Nat) (pb : Bool) (le : Option Nat) :
    scanString q (c :: cs) p pb le =
      if c = q then
        if pb then scanString q cs (p + 1) false (some (p + 1)) else some (p + 1)
      else scanString q cs (p + 1) (c = '\\') le := rfl

/-- without a quote character the scanner runs to the end and falls back on the last escaped quote -/
theorem scanString_noquote {q : Char} : ∀ (x : List Char) (p : Nat) (pb : Bool) (le : Option Nat),
    q ∉ x → scanString q x p pb le = le
  | [], _, _, _, _ => rfl
  | c :: cs, p, pb, le, h => by
    have hc : c ≠ q := fun e => h (by simp [e])
    rw [scanString_cons, if_neg hc]
    exact scanString_noquote cs _ _ _ (fun hm => h (by simp [hm]))

/-- characters without the quote, then the quote, then the end of the input: the match ends
    just past that quote (also when the last character before it is a backslash: the engine
    backtracks from the failed "escaped quote" reading) -/
theorem scanString_body_close {q : Char} : ∀ (body : List Char) (p : Nat) (pb : Bool) (le : Option Nat),
    q ∉ body → scanString q (body ++ [q]) p pb le = some (p + body.length + 1)
  | [], p, pb, le, _ => by
    rw [List.nil_append, scanString_cons, if_pos rfl]
    cases pb <;> simp [scanString_nil]
  | c :: cs, p, pb, le, h => by
    have hc : c ≠ q := fun e => h (by simp [e])
    rw [List.cons_append, scanString_cons, if_neg hc,
      scanString_body_close cs _ _ _ (fun hm => h (by simp [hm]))]
    simp; omega

theorem matchString_of_ne {c : Char} (cs : List Char) (h1 : c ≠ '"') (h2 : c ≠ '\'') :
    matchString (c :: cs) = none := by
  unfold matchString
  split
  · rename_i h; injection h with h _; exact absurd h h1
  · rename_i h; injection h with h _; exact absurd h h2
  · rfl

theorem matchString_dq (cs : List Char) : matchString ('"' :: cs) = scanString '"' cs 1 false none := by
  simp [matchString]
theorem matchString_sq (cs : List Char) : matchString ('\'' :: cs) = scanString '\'' cs 1 false none := by
  simp [matchString]

/-- `q` is one of the two quote characters -/
def IsQuote (q : Char) : Prop := q = '"' ∨ q = '\''

theorem matchString_quote {q : Char} (hq : IsQuote q) (cs : List Char) :
    matchString (q :: cs) = scanString q cs 1 false none := by
  rcases hq with rfl | rfl
  · exact matchString_dq cs
  · exact matchString_sq cs

theorem isSpace_quote {q : Char} (hq : IsQuote q) : isSpace q = false := by
  rcases hq with rfl | rfl <;> decide

/-! ### first-character analysis -/

theorem lexStep_ws_of_not_space {c : Char} (h : isSpace c = false) (cs : List Char) :
    lexStep .WHITESPACE (c :: cs) = none := by
  simp [lexStep, matchTok, matchSpan, spanLen_cons_false h]

theorem matchFunction_of_first {c : Char} (h1 : isAlpha c = false) (h2 : isAlphaDot c = false) (cs : List Char) :
    matchFunction (c :: cs) = none := by
  simp [matchFunction, h1, spanLen_cons_false h2]

theorem matchXlError_of_first {c : Char} (h : c ≠ '#') (cs : List Char) : matchXlError (c :: cs) = none := by
  unfold matchXlError
  split
  · rename_i h'; injection h' with h' _; exact absurd h' h
  · rfl

theorem matchAbsoluteCell_of_first {c : Char} (h : c ≠ '$') (cs : List Char) : matchAbsoluteCell (c :: cs) = none := by
  unfold matchAbsoluteCell
  split
  · rename_i h'; injection h' with h' _; exact absurd h' h
  · rfl

theorem matchLettersDigits_of_first {c : Char} (h : isAlpha c = false) (cs : List Char) :
    matchLettersDigits (c :: cs) = none := by
  simp [matchLettersDigits, spanLen_cons_false h]

theorem matchMixedCell_of_first {c : Char} (h : c ≠ '$') (h2 : isAlpha c = false) (cs : List Char) :
    matchMixedCell (c :: cs) = none := by
  unfold matchMixedCell
  split
  · rename_i h'; injection h' with h' _; exact absurd h' h
  · simp [spanLen_cons_false h2]

theorem matchVariable_of_first {c : Char} (h1 : isAlpha c = false) (h2 : isAlphaUnderscore c = false) (cs : List Char) :
    matchVariable (c :: cs) = none := by
  simp [matchVariable, h1, spanLen_cons_false h2]


/-- a first character that is no white space, quote, letter, digit, `_`, `.`, `#` or `$`
    can only start one of the literal-text rules -/
theorem lexOne_punct {c : Char} (cs : List Char) (hsp : isSpace c = false) (hq1 : c ≠ '"') (hq2 : c ≠ '\'')
    (ha : isAlpha c = false) (hd : isDigit c = false) (hdot : c ≠ '.') (hu : c ≠ '_')
    (hh : c ≠ '#') (hdl : c ≠ '$') :
    lexOne ruleOrder (c :: cs) = lexOne litRules (c :: cs) := by
  have had : isAlphaDot c = false := by simp [isAlphaDot, ha, hdot]
  have hau : isAlphaUnderscore c = false := by simp [isAlphaUnderscore, ha, hu]
  rw [ruleOrder_eq, lexOne_cons_none (lexStep_ws_of_not_space hsp cs),
    lexOne_cons_none (lexStep_of_none (by exact matchString_of_ne cs hq1 hq2)), lateRules_eq]
  apply lexOne_append_none
  intro k hk
  simp only [List.mem_cons, List.not_mem_nil, or_false] at hk
  rcases hk with rfl | rfl | rfl | rfl | rfl | rfl | rfl
  · exact lexStep_of_none (matchFunction_of_first ha had cs)
  · exact lexStep_of_none (matchXlError_of_first hh cs)
  · exact lexStep_of_none (matchAbsoluteCell_of_first hdl cs)
  · exact lexStep_of_none (matchMixedCell_of_first hdl ha cs)
  · exact lexStep_of_none (matchLettersDigits_of_first ha cs)
  · exact lexStep_of_none (matchVariable_of_first ha hau cs)
  · exact lexStep_of_none (by simp [matchTok, matchSpan, spanLen_cons_false hd])

/-- a digit starts a `NUMBER` token: the maximal run of digits -/
theorem lexOne_digit {c : Char} (h : isDigit c = true) (cs : List Char) :
    lexOne ruleOrder (c :: cs) = some (.NUMBER, spanLen isDigit (c :: cs)) := by
  obtain ⟨hsp, ha, had, hau, hq1, hq2, hh, hdl, _, _⟩ := digit_classes h
  rw [ruleOrder_eq, lexOne_cons_none (lexStep_ws_of_not_space hsp cs),
    lexOne_cons_none (lexStep_of_none (by exact matchString_of_ne cs hq1 hq2))]
  simp only [lateRules]
  rw [lexOne_cons_none (lexStep_of_none (by exact matchFunction_of_first ha had cs)),
    lexOne_cons_none (lexStep_of_none (by exact matchXlError_of_first hh cs)),
    lexOne_cons_none (lexStep_of_none (by exact matchAbsoluteCell_of_first hdl cs)),
    lexOne_cons_none (lexStep_of_none (by exact matchMixedCell_of_first hdl ha cs)),
    lexOne_cons_none (lexStep_of_none (by exact matchLettersDigits_of_first ha cs)),
    lexOne_cons_none (lexStep_of_none (by exact matchVariable_of_first ha hau cs))]
  apply lexOne_cons_some
  apply lexStep_of_some
  · simp [matchTok, matchSpan, spanLen_cons_true h]
  · rw [spanLen_cons_true h]; omega

theorem lexOne_lit_percent (cs : List Char) : lexOne litRules ('%' :: cs) = some (.PERCENT, 1) := by
  simp [litRules, lexOne_cons, lexStep, matchTok, matchLit, List.isPrefixOf]



/-- the characters that are a token on their own whatever follows them, with their token kind -/
def singles : List (Char × TK) :=
  [('{', .LBRACKET), ('}', .RBRACKET), ('&', .AMP), (':', .COLON), (';', .SEMICOLON), (',', .COMMA),
   ('\\', .BACKSLASH), ('*', .MULT), ('/', .DIV), ('-', .MINUS), ('+', .PLUS), ('^', .CARET),
   ('(', .LPAREN), (')', .RPAREN), ('!', .EXCLAMATION), ('=', .EQUAL), ('%', .PERCENT)]

theorem lexOne_single {c : Char} {k : TK} (h : (c, k) ∈ singles) (cs : List Char) :
    lexOne ruleOrder (c :: cs) = some (k, 1) := by
  simp only [singles, List.mem_cons, Prod.mk.injEq, List.not_mem_nil, or_false] at h
  rcases h with ⟨rfl, rfl⟩ | ⟨rfl, rfl⟩ | ⟨rfl, rfl⟩ | ⟨rfl, rfl⟩ | ⟨rfl, rfl⟩ | ⟨rfl, rfl⟩ | ⟨rfl, rfl⟩ |
    ⟨rfl, rfl⟩ | ⟨rfl, rfl⟩ | ⟨rfl, rfl⟩ | ⟨rfl, rfl⟩ | ⟨rfl, rfl⟩ | ⟨rfl, rfl⟩ | ⟨rfl, rfl⟩ | ⟨rfl, rfl⟩ |
    ⟨rfl, rfl⟩ | ⟨rfl, rfl⟩
  all_goals
    rw [lexOne_punct cs (by decide) (by decide) (by decide) (by decide) (by decide) (by decide)
      (by decide) (by decide) (by decide)]
    simp [litRules, lexOne_cons, lexStep, matchTok, matchLit, List.isPrefixOf]



theorem lexStep_string_none {s : List Char} (h : matchString s = none) : lexStep .STRING s = none :=
  lexStep_of_none (k := .STRING) (s := s) h
theorem lexStep_function_none {s : List Char} (h : matchFunction s = none) : lexStep .FUNCTION s = none :=
  lexStep_of_none (k := .FUNCTION) (s := s) h
theorem lexStep_xlerror_none {s : List Char} (h : matchXlError s = none) : lexStep .XLERROR s = none :=
  lexStep_of_none (k := .XLERROR) (s := s) h
theorem lexStep_abs_none {s : List Char} (h : matchAbsoluteCell s = none) : lexStep .ABSOLUTE_CELL s = none :=
  lexStep_of_none (k := .ABSOLUTE_CELL) (s := s) h
theorem lexStep_mixed_none {s : List Char} (h : matchMixedCell s = none) : lexStep .MIXED_CELL s = none :=
  lexStep_of_none (k := .MIXED_CELL) (s := s) h
theorem lexStep_rel_none {s : List Char} (h : matchLettersDigits s = none) : lexStep .RELATIVE_CELL s = none :=
  lexStep_of_none (k := .RELATIVE_CELL) (s := s) h
theorem lexStep_var_none {s : List Char} (h : matchVariable s = none) : lexStep .VARIABLE s = none :=
  lexStep_of_none (k := .VARIABLE) (s := s) h
theorem lexStep_number_none {c : Char} (h : isDigit c = false) (cs : List Char) : lexStep .NUMBER (c :: cs) = none :=
  lexStep_of_none (k := .NUMBER) (by simp [matchTok, matchSpan, spanLen_cons_false h])

/-- a dot in front of a digit is the `DECIMAL` token (the `FUNCTION` rule, which also may
    start with a dot, wants an opening parenthesis after the dots and letters) -/
theorem lexOne_dot_digit {d : Char} (hd : isDigit d = true) (cs : List Char) :
    lexOne ruleOrder ('.' :: d :: cs) = some (.DECIMAL, 1) := by
  obtain ⟨_, _, had, _, _, _, _, _, _, hpar⟩ := digit_classes hd
  have hfun : matchFunction ('.' :: d :: cs) = none := by
    have h1 : spanLen isAlphaDot ('.' :: d :: cs) = 1 := by
      rw [spanLen_cons_true (by decide), spanLen_cons_false had]
    simp [matchFunction, h1, hpar, show isAlpha '.' = false by decide]
  rw [ruleOrder_eq, lexOne_cons_none (lexStep_ws_of_not_space (by decide) _),
    lexOne_cons_none (lexStep_string_none (matchString_of_ne _ (by decide) (by decide)))]
  simp only [lateRules]
  rw [lexOne_cons_none (lexStep_function_none hfun),
    lexOne_cons_none (lexStep_xlerror_none (matchXlError_of_first (by decide) _)),
    lexOne_cons_none (lexStep_abs_none (matchAbsoluteCell_of_first (by decide) _)),
    lexOne_cons_none (lexStep_mixed_none (matchMixedCell_of_first (by decide) (by decide) _)),
    lexOne_cons_none (lexStep_rel_none (matchLettersDigits_of_first (by decide) _)),
    lexOne_cons_none (lexStep_var_none (matchVariable_of_first (by decide) (by decide) _)),
    lexOne_cons_none (lexStep_number_none (by decide) _)]
  simp [lexOne_cons, lexStep, matchTok, matchLit, List.isPrefixOf]

/-! ### whole tokens -/

theorem tokenize_single {c : Char} {k : TK} (h : (c, k) ∈ singles) (cs : List Char) :
    tokenize (c :: cs) = ⟨k, [c]⟩ :: tokenize cs := by
  have hk : k ≠ .WHITESPACE := by
    have : ∀ p ∈ singles, p.2 ≠ TK.WHITESPACE := by decide
    exact this (c, k) h
  rw [tokenize_of_lexOne (lexOne_single h cs) hk]; rfl

/-- a non-empty run of digits followed by something that does not start with a digit is one
    `NUMBER` token -/
theorem tokenize_number {a : List Char} (hne : a ≠ []) (ha : ∀ c ∈ a, isDigit c = true) {rest : List Char}
    (hrest : ∀ c, rest.head? = some c → isDigit c = false) :
    tokenize (a ++ rest) = ⟨.NUMBER, a⟩ :: tokenize rest := by
  cases a with
  | nil => exact absurd rfl hne
  | cons c cs =>
    have h := lexOne_digit (ha c (by simp)) (cs ++ rest)
    rw [← List.cons_append, spanLen_block ha hrest] at h
    rw [tokenize_of_lexOne h (by decide)]
    simp

theorem tokenize_dot_digits {b : List Char} (hne : b ≠ []) (hb : ∀ c ∈ b, isDigit c = true) :
    tokenize ('.' :: b) = [⟨.DECIMAL, ['.']⟩, ⟨.NUMBER, b⟩] := by
  cases b with
  | nil => exact absurd rfl hne
  | cons d ds =>
    rw [tokenize_of_lexOne (lexOne_dot_digit (hb d (by simp)) ds) (by decide)]
    have := tokenize_number hne hb (rest := []) (by simp)
    simp only [List.append_nil, tokenize_nil] at this
    simp [this]

/-- a quote, characters without that quote, the quote, end of input: one `STRING` token -/
theorem tokenize_string {q : Char} (hq : IsQuote q) {body : List Char} (hb : q ∉ body) :
    tokenize (q :: body ++ [q]) = [⟨.STRING, q :: body ++ [q]⟩] := by
  have hm : matchString (q :: (body ++ [q])) = some (body.length + 2) := by
    rw [matchString_quote hq, scanString_body_close body 1 false none hb]; congr 1; omega
  have hl : lexOne ruleOrder (q :: (body ++ [q])) = some (.STRING, body.length + 2) := by
    rw [ruleOrder_eq, lexOne_cons_none (lexStep_ws_of_not_space (isSpace_quote hq) _)]
    exact lexOne_cons_some (lexStep_of_some (k := .STRING) hm (by omega)) _
  have hlen : (q :: (body ++ [q])).length = body.length + 2 := by simp
  rw [List.cons_append, tokenize_of_lexOne hl (by decide), ← hlen, List.take_length, List.drop_length, tokenize_nil]

open HotXL.Syntax HotXL.Eval

/-! ### the five numeric literal forms as token lists -/

theorem not_digit_head_nil : ∀ c, ([] : List Char).head? = some c → isDigit c = false := by simp

theorem tokenize_int {a : List Char} (hne : a ≠ []) (ha : ∀ c ∈ a, isDigit c = true) :
    tokenize a = [⟨.NUMBER, a⟩] := by
  have := tokenize_number hne ha (rest := []) not_digit_head_nil
  simpa [tokenize_nil] using this

theorem tokenize_dec {a b : List Char} (hna : a ≠ []) (ha : ∀ c ∈ a, isDigit c = true)
    (hnb : b ≠ []) (hb : ∀ c ∈ b, isDigit c = true) :
    tokenize (a ++ '.' :: b) = [⟨.NUMBER, a⟩, ⟨.DECIMAL, ['.']⟩, ⟨.NUMBER, b⟩] := by
  rw [tokenize_number hna ha (rest := '.' :: b) (by simp; decide), tokenize_dot_digits hnb hb]

theorem tokenize_pct {a : List Char} (hna : a ≠ []) (ha : ∀ c ∈ a, isDigit c = true) :
    tokenize (a ++ ['%']) = [⟨.NUMBER, a⟩, ⟨.PERCENT, ['%']⟩] := by
  rw [tokenize_number hna ha (rest := ['%']) (by simp; decide),
    tokenize_single (c := '%') (k := .PERCENT) (by decide) [], tokenize_nil]

theorem tokenize_pow {a b : List Char} (hna : a ≠ []) (ha : ∀ c ∈ a, isDigit c = true)
    (hnb : b ≠ []) (hb : ∀ c ∈ b, isDigit c = true) :
    tokenize (a ++ '^' :: b) = [⟨.NUMBER, a⟩, ⟨.CARET, ['^']⟩, ⟨.NUMBER, b⟩] := by
  rw [tokenize_number hna ha (rest := '^' :: b) (by simp; decide),
    tokenize_single (c := '^') (k := .CARET) (by decide) b, tokenize_int hnb hb]

/-! ### `digitsVal` is the positional value -/

theorem digitsVal_eq_decVal (ds : List Char) : digitsVal ds = PyNum.decVal 0 ds := by
  unfold digitsVal
  suffices h : ∀ acc, ds.foldl (fun a c => a * 10 + (c.toNat - 48)) acc = PyNum.decVal acc ds from h 0
  induction ds with
  | nil => intro acc; rw [List.foldl_nil, PyNum.decVal_nil]
  | cons c cs ih => intro acc; rw [List.foldl_cons, PyNum.decVal_cons, PyNum.digitVal_eq, ih]

theorem decVal_acc (acc : Nat) (t : List Char) :
    PyNum.decVal acc t = acc * 10 ^ t.length + PyNum.decVal 0 t := by
  induction t generalizing acc with
  | nil => simp [PyNum.decVal_nil]
  | cons c t ih =>
    rw [PyNum.decVal_cons, PyNum.decVal_cons, ih, ih (0 * 10 + PyNum.digitVal c), List.length_cons,
      Nat.pow_succ]
    generalize 10 ^ t.length = P
    have e : (acc * 10 + PyNum.digitVal c) * P = acc * (P * 10) + PyNum.digitVal c * P := by
      rw [Nat.add_mul, Nat.mul_assoc, Nat.mul_comm 10 P]
    rw [e, Nat.zero_mul, Nat.zero_add, Nat.add_assoc]

theorem digitsVal_nil : digitsVal [] = 0 := rfl

theorem digitsVal_append (a b : List Char) : digitsVal (a ++ b) = digitsVal a * 10 ^ b.length + digitsVal b := by
  rw [digitsVal_eq_decVal, digitsVal_eq_decVal, digitsVal_eq_decVal, PyNum.decVal_append, decVal_acc]

theorem digitsVal_snoc (a : List Char) (d : Char) : digitsVal (a ++ [d]) = 10 * digitsVal a + (d.toNat - 48) := by
  rw [digitsVal_append]
  have : digitsVal [d] = d.toNat - 48 := by
    rw [digitsVal_eq_decVal, PyNum.decVal_cons, PyNum.decVal_nil, PyNum.digitVal_eq]; omega
  rw [this]; simp; omega

theorem digitsVal_natToDec (n : Nat) : digitsVal (PyNum.natToDec n) = n := by
  rw [digitsVal_eq_decVal, PyNum.decVal_natToDec]

open HotXL.Syntax HotXL.Eval

/-! ### cell labels -/

theorem alpha_classes {c : Char} (h : isAlpha c = true) :
    isSpace c = false ∧ isDigit c = false ∧ isWordDot c = true ∧ isAlphaDot c = true ∧
    c ≠ '"' ∧ c ≠ '\'' ∧ c ≠ '#' ∧ c ≠ '$' ∧ c ≠ '(' := by
  have h' := isAlpha_iff.mp h
  refine ⟨eq_false_of_not ?_, eq_false_of_not ?_, ?_, ?_, ?_, ?_, ?_, ?_, ?_⟩
  · rw [isSpace_iff]; omega
  · rw [isDigit_iff]; omega
  · rw [isWordDot_iff]; omega
  · rw [isAlphaDot_iff]; omega
  all_goals (intro e; subst e; revert h; decide)

theorem digit_isWordDot {c : Char} (h : isDigit c = true) : isWordDot c = true := by
  have h' := isDigit_iff.mp h
  rw [isWordDot_iff]; omega

/-- the text of a cell label: optional `$`, letters, optional `$`, digits -/
def cellText (ca ra : Bool) (cs ds : List Char) : List Char :=
  (if ca then ['$'] else []) ++ (cs ++ ((if ra then ['$'] else []) ++ ds))

/-- the token kind of a cell label by its `$` markers -/
def cellKind (ca ra : Bool) : TK :=
  if ca && ra then .ABSOLUTE_CELL else if ca || ra then .MIXED_CELL else .RELATIVE_CELL

theorem matchLettersDigits_block {cs ds : List Char} (hcs : cs ≠ []) (hl : ∀ c ∈ cs, isAlpha c = true)
    (hds : ds ≠ []) (hd : ∀ c ∈ ds, isDigit c = true) :
    matchLettersDigits (cs ++ ds) = some (cs.length + ds.length) := by
  have h1 : spanLen isAlpha (cs ++ ds) = cs.length :=
    spanLen_block hl (by
      intro c hc
      cases ds with
      | nil => simp at hc
      | cons d ds => simp at hc; subst hc; exact (digit_classes (hd d (by simp))).2.1)
  have hcl : cs.length ≠ 0 := by simpa using hcs
  have hdl : ds.length ≠ 0 := by simpa using hds
  simp [matchLettersDigits, h1, hcl, spanLen_all hd, hdl]


theorem dollar_start_steps (rest : List Char) :
    lexStep .WHITESPACE ('$' :: rest) = none ∧ lexStep .STRING ('$' :: rest) = none ∧
    lexStep .FUNCTION ('$' :: rest) = none ∧ lexStep .XLERROR ('$' :: rest) = none :=
  ⟨lexStep_ws_of_not_space (by decide) _, lexStep_string_none (matchString_of_ne _ (by decide) (by decide)),
   lexStep_function_none (matchFunction_of_first (by decide) (by decide) _),
   lexStep_xlerror_none (matchXlError_of_first (by decide) _)⟩

section cells
variable {cs ds : List Char} (hcs : cs ≠ []) (hl : ∀ c ∈ cs, isAlpha c = true)
  (hds : ds ≠ []) (hd : ∀ c ∈ ds, isDigit c = true)
include hds hd in
theorem head_digit : ∃ d ds', ds = d :: ds' ∧ isDigit d = true := by
  cases ds with
  | nil => exact absurd rfl hds
  | cons d ds' => exact ⟨d, ds', rfl, hd d (by simp)⟩

include hcs hl in
theorem head_alpha : ∃ c cs', cs = c :: cs' ∧ isAlpha c = true := by
  cases cs with
  | nil => exact absurd rfl hcs
  | cons c cs' => exact ⟨c, cs', rfl, hl c (by simp)⟩

include hcs hl hds hd

/-- `A1` -/
theorem lexOne_cell_rel : lexOne ruleOrder (cs ++ ds) = some (.RELATIVE_CELL, cs.length + ds.length) := by
  obtain ⟨c, cs', hcs', hc⟩ := head_alpha hcs hl
  obtain ⟨d, ds', hds', hdd⟩ := head_digit hds hd
  obtain ⟨hsp, _, _, _, hq1, hq2, hh, hdl, _⟩ := alpha_classes hc
  obtain ⟨_, hda, hdad, _, _, _, _, hd_dl, _, hd_par⟩ := digit_classes hdd
  have hcl : cs.length ≠ 0 := by simpa using hcs
  have hwd : spanLen isWordDot (cs ++ ds) = (cs ++ ds).length := spanLen_all (by
    intro x hx
    rcases List.mem_append.mp hx with hx | hx
    · exact (alpha_classes (hl x hx)).2.2.1
    · exact digit_isWordDot (hd x hx))
  have had : spanLen isAlphaDot (cs ++ ds) = cs.length := spanLen_block
    (fun x hx => (alpha_classes (hl x hx)).2.2.2.1) (by rw [hds']; intro x hx; simp at hx; subst hx; exact hdad)
  have hal : spanLen isAlpha (cs ++ ds) = cs.length := spanLen_block hl
    (by rw [hds']; intro x hx; simp at hx; subst hx; exact hda)
  have hfun : matchFunction (cs ++ ds) = none := by
    unfold matchFunction
    simp only [hwd, had, List.drop_length, List.drop_left, List.head?_nil]
    rw [hds']; simp [hd_par]
    rw [hcs']; simp
  have hmix : matchMixedCell (cs ++ ds) = none := by
    unfold matchMixedCell
    split
    · rename_i h; rw [hcs'] at h; injection h with h _; exact absurd h hdl
    · simp only [hal, hcl, if_false, List.drop_left]
      rw [hds']
      split
      · rename_i h; injection h with h _; exact absurd h hd_dl
      · rfl
  have hrel := matchLettersDigits_block hcs hl hds hd
  rw [hcs'] at hfun hmix hrel ⊢
  simp only [List.cons_append] at hfun hmix hrel ⊢
  rw [ruleOrder_eq, lexOne_cons_none (lexStep_ws_of_not_space hsp _),
    lexOne_cons_none (lexStep_string_none (matchString_of_ne _ hq1 hq2))]
  simp only [lateRules]
  rw [lexOne_cons_none (lexStep_function_none hfun),
    lexOne_cons_none (lexStep_xlerror_none (matchXlError_of_first hh _)),
    lexOne_cons_none (lexStep_abs_none (matchAbsoluteCell_of_first hdl _)),
    lexOne_cons_none (lexStep_mixed_none hmix)]
  apply lexOne_cons_some
  exact lexStep_of_some (k := .RELATIVE_CELL) hrel (by simp)


/-- `A$1` -/
theorem lexOne_cell_mixed_row :
    lexOne ruleOrder (cs ++ '$' :: ds) = some (.MIXED_CELL, cs.length + 1 + ds.length) := by
  obtain ⟨c, cs', hcs', hc⟩ := head_alpha hcs hl
  obtain ⟨hsp, _, _, _, hq1, hq2, hh, hdl, _⟩ := alpha_classes hc
  have hcl : cs.length ≠ 0 := by simpa using hcs
  have hdlen : ds.length ≠ 0 := by simpa using hds
  have hwd : spanLen isWordDot (cs ++ '$' :: ds) = cs.length := spanLen_block
    (fun x hx => (alpha_classes (hl x hx)).2.2.1) (by intro x hx; simp at hx; subst hx; decide)
  have had : spanLen isAlphaDot (cs ++ '$' :: ds) = cs.length := spanLen_block
    (fun x hx => (alpha_classes (hl x hx)).2.2.2.1) (by intro x hx; simp at hx; subst hx; decide)
  have hal : spanLen isAlpha (cs ++ '$' :: ds) = cs.length := spanLen_block hl
    (by intro x hx; simp at hx; subst hx; decide)
  have hfun : matchFunction (cs ++ '$' :: ds) = none := by
    unfold matchFunction
    simp only [hwd, had, List.drop_left]
    rw [hcs']; simp
  have hmix : matchMixedCell (cs ++ '$' :: ds) = some (cs.length + 1 + ds.length) := by
    unfold matchMixedCell
    split
    · rename_i h; rw [hcs'] at h; injection h with h _; exact absurd h hdl
    · simp [hal, hcl, spanLen_all hd, hdlen]
  rw [hcs'] at hfun hmix ⊢
  simp only [List.cons_append] at hfun hmix ⊢
  rw [ruleOrder_eq, lexOne_cons_none (lexStep_ws_of_not_space hsp _),
    lexOne_cons_none (lexStep_string_none (matchString_of_ne _ hq1 hq2))]
  simp only [lateRules]
  rw [lexOne_cons_none (lexStep_function_none hfun),
    lexOne_cons_none (lexStep_xlerror_none (matchXlError_of_first hh _)),
    lexOne_cons_none (lexStep_abs_none (matchAbsoluteCell_of_first hdl _))]
  apply lexOne_cons_some
  exact lexStep_of_some (k := .MIXED_CELL) hmix (by simp)

/-- `$A1` -/
theorem lexOne_cell_mixed_col :
    lexOne ruleOrder ('$' :: (cs ++ ds)) = some (.MIXED_CELL, 1 + cs.length + ds.length) := by
  obtain ⟨d, ds', hds', hdd⟩ := head_digit hds hd
  obtain ⟨_, hda, _, _, _, _, _, hd_dl, _, _⟩ := digit_classes hdd
  have hcl : cs.length ≠ 0 := by simpa using hcs
  have hal : spanLen isAlpha (cs ++ ds) = cs.length := spanLen_block hl
    (by rw [hds']; intro x hx; simp at hx; subst hx; exact hda)
  have habs : matchAbsoluteCell ('$' :: (cs ++ ds)) = none := by
    unfold matchAbsoluteCell
    simp only [hal, hcl, if_false, List.drop_left]
    rw [hds']
    split
    · rename_i h; injection h with h _; exact absurd h hd_dl
    · rfl
  have hmix : matchMixedCell ('$' :: (cs ++ ds)) = some (1 + cs.length + ds.length) := by
    unfold matchMixedCell
    simp only [matchLettersDigits_block hcs hl hds hd, Option.map_some]
    congr 1; omega
  obtain ⟨h1, h2, h3, h4⟩ := dollar_start_steps (cs ++ ds)
  rw [ruleOrder_eq, lexOne_cons_none h1, lexOne_cons_none h2]
  simp only [lateRules]
  rw [lexOne_cons_none h3, lexOne_cons_none h4, lexOne_cons_none (lexStep_abs_none habs)]
  apply lexOne_cons_some
  exact lexStep_of_some (k := .MIXED_CELL) hmix (by omega)

/-- `$A$1` -/
theorem lexOne_cell_abs :
    lexOne ruleOrder ('$' :: (cs ++ '$' :: ds)) = some (.ABSOLUTE_CELL, 1 + cs.length + 1 + ds.length) := by
  have hcl : cs.length ≠ 0 := by simpa using hcs
  have hdlen : ds.length ≠ 0 := by simpa using hds
  have hal : spanLen isAlpha (cs ++ '$' :: ds) = cs.length := spanLen_block hl
    (by intro x hx; simp at hx; subst hx; decide)
  have habs : matchAbsoluteCell ('$' :: (cs ++ '$' :: ds)) = some (1 + cs.length + 1 + ds.length) := by
    unfold matchAbsoluteCell
    simp [hal, hcl, spanLen_all hd, hdlen]
  obtain ⟨h1, h2, h3, h4⟩ := dollar_start_steps (cs ++ '$' :: ds)
  rw [ruleOrder_eq, lexOne_cons_none h1, lexOne_cons_none h2]
  simp only [lateRules]
  rw [lexOne_cons_none h3, lexOne_cons_none h4]
  apply lexOne_cons_some
  exact lexStep_of_some (k := .ABSOLUTE_CELL) habs (by omega)

/-- a cell label is one token, of the kind its `$` markers say -/
theorem tokenize_cell (ca ra : Bool) :
    tokenize (cellText ca ra cs ds) = [⟨cellKind ca ra, cellText ca ra cs ds⟩] := by
  have key : ∀ (s : List Char) (k : TK) (n : Nat), lexOne ruleOrder s = some (k, n) → n = s.length →
      k ≠ .WHITESPACE → tokenize s = [⟨k, s⟩] := by
    intro s k n h hn hk
    rw [tokenize_of_lexOne h hk, hn, List.take_length, List.drop_length, tokenize_nil]
  cases ca <;> cases ra
  · have e : cellText false false cs ds = cs ++ ds := by simp [cellText]
    rw [e]; exact key _ _ _ (lexOne_cell_rel hcs hl hds hd) (by simp) (by decide)
  · have e : cellText false true cs ds = cs ++ '$' :: ds := by simp [cellText]
    rw [e]; exact key _ _ _ (lexOne_cell_mixed_row hcs hl hds hd) (by simp; omega) (by decide)
  · have e : cellText true false cs ds = '$' :: (cs ++ ds) := by simp [cellText]
    rw [e]; exact key _ _ _ (lexOne_cell_mixed_col hcs hl hds hd) (by simp; omega) (by decide)
  · have e : cellText true true cs ds = '$' :: (cs ++ '$' :: ds) := by simp [cellText]
    rw [e]; exact key _ _ _ (lexOne_cell_abs hcs hl hds hd) (by simp; omega) (by decide)

end cells

open HotXL.Syntax HotXL.Eval

theorem isLetter_eq_isAlpha (c : Char) : Cell.isLetter c = isAlpha c := rfl
theorem cellIsDigit_eq_isDigit (c : Char) : Cell.isDigit c = isDigit c := rfl

theorem isAlpha_upperChar {c : Char} (h : isAlpha c = true) : isAlpha (Cell.upperChar c) = true := by
  rw [← isLetter_eq_isAlpha] at h ⊢
  exact Cell.isLetter_of_isUpperAZ (Cell.isUpperAZ_upperChar h)

theorem upper_cellText (ca ra : Bool) (cs ds : List Char) (hd : ∀ c ∈ ds, isDigit c = true) :
    Cell.upper (cellText ca ra cs ds) = cellText ca ra (Cell.upper cs) ds := by
  have hds : Cell.upper ds = ds := Cell.upper_of_all_digits hd
  cases ca <;> cases ra <;> simp [cellText, Cell.upper_append, hds, Cell.upper_cons] <;> rfl


/-! ### white space -/

/-- a white-space character starts a `WHITESPACE` token: the maximal run of white space -/
theorem lexOne_space {c : Char} (h : isSpace c = true) (cs : List Char) :
    lexOne ruleOrder (c :: cs) = some (.WHITESPACE, spanLen isSpace (c :: cs)) := by
  rw [ruleOrder_eq]
  apply lexOne_cons_some
  apply lexStep_of_some
  · simp [matchTok, matchSpan, spanLen_cons_true h]
  · rw [spanLen_cons_true h]; omega

/-- dropping the leading white space of the input does not change the tokens -/
theorem tokenize_drop_spaces (s : List Char) : tokenize (s.drop (spanLen isSpace s)) = tokenize s := by
  cases s with
  | nil => rfl
  | cons c cs =>
    by_cases h : isSpace c = true
    · rw [tokenize_of_lexOne_ws (lexOne_space h cs)]
    · rw [spanLen_cons_false (eq_false_of_not h)]; rfl

/-- **leading white space is dropped** -/
theorem tokenize_leading_ws {ws : List Char} (hws : ∀ c ∈ ws, isSpace c = true) (s : List Char) :
    tokenize (ws ++ s) = tokenize s := by
  rw [← tokenize_drop_spaces (ws ++ s), spanLen_append_all hws, ← List.drop_drop, List.drop_left,
    tokenize_drop_spaces]


/-! ### the string scanner across a token boundary -/

theorem scanString_append_noquote {q : Char} {x : List Char} (hx : q ∉ x) :
    ∀ (u : List Char) (p : Nat) (pb : Bool) (le : Option Nat),
      scanString q (u ++ x) p pb le = scanString q u p pb le
  | [], p, pb, le => by rw [List.nil_append, scanString_noquote x p pb le hx, scanString_nil]
  | c :: cs, p, pb, le => by
    rw [List.cons_append, scanString_cons, scanString_cons,
      scanString_append_noquote hx cs, scanString_append_noquote hx cs]

theorem scanString_isSome_of_le {q : Char} : ∀ (s : List Char) (p : Nat) (pb : Bool) (le : Option Nat),
    le.isSome = true → (scanString q s p pb le).isSome = true
  | [], _, _, _, h => h
  | c :: cs, p, pb, le, h => by
    rw [scanString_cons]
    split
    · split
      · exact scanString_isSome_of_le cs _ _ _ rfl
      · rfl
    · exact scanString_isSome_of_le cs _ _ _ h

/-- the scanner fails only when there is no further quote character -/
theorem not_mem_of_scanString_none {q : Char} : ∀ (s : List Char) (p : Nat) (pb : Bool) (le : Option Nat),
    scanString q s p pb le = none → q ∉ s
  | [], _, _, _, _ => by simp
  | c :: cs, p, pb, le, h => by
    rw [scanString_cons] at h
    split at h
    · split at h
      · have := scanString_isSome_of_le (q := q) cs (p + 1) false (some (p + 1)) rfl
        rw [h] at this; cases this
      · cases h
    · rename_i hc
      have := not_mem_of_scanString_none cs _ _ _ h
      simp only [List.mem_cons, not_or]
      exact ⟨fun e => hc e.symm, this⟩

/-- a match that ends at or before the cursor is the remembered escaped quote, and no quote follows -/
theorem scanString_le {q : Char} : ∀ (x : List Char) (p : Nat) (pb : Bool) (le : Option Nat) (r : Nat),
    scanString q x p pb le = some r → r ≤ p → q ∉ x ∧ le = some r
  | [], _, _, _, _, h, _ => ⟨by simp, h⟩
  | c :: cs, p, pb, le, r, h, hr => by
    rw [scanString_cons] at h
    split at h
    · split at h
      · have := (scanString_le cs _ _ _ r h (by omega)).2
        simp only [Option.some.injEq] at this; omega
      · simp only [Option.some.injEq] at h; omega
    · rename_i hc
      have := scanString_le cs _ _ _ r h (by omega)
      exact ⟨by simp only [List.mem_cons, not_or]; exact ⟨fun e => hc e.symm, this.1⟩, this.2⟩

/-- a match ends after the cursor, unless it is the remembered escaped quote -/
theorem scanString_pos {q : Char} (x : List Char) (p : Nat) (pb : Bool) (r : Nat)
    (h : scanString q x p pb none = some r) : p < r := by
  by_cases hr : r ≤ p
  · have := (scanString_le x p pb none r h hr).2; cases this
  · omega

/-- a match never extends past the end of the input -/
theorem scanString_bound {q : Char} : ∀ (x : List Char) (p : Nat) (pb : Bool) (le : Option Nat) (r : Nat),
    scanString q x p pb le = some r → (∀ m, le = some m → m ≤ p) → r ≤ p + x.length
  | [], p, _, le, r, h, hle => by have := hle r h; simp; omega
  | c :: cs, p, pb, le, r, h, hle => by
    rw [scanString_cons] at h
    split at h
    · split at h
      · have := scanString_bound cs _ _ _ r h (by intro m hm; simp at hm; omega)
        simp; omega
      · simp only [Option.some.injEq] at h; simp; omega
    · have := scanString_bound cs _ _ _ r h (by intro m hm; have := hle m hm; omega)
      simp; omega

/-- state of the scanner after the characters `u`: finished with a match (`inl`), or still
    scanning (`inr (pos, prevBackslash, lastEsc)`) -/
def scanRun (q : Char) : List Char → Nat → Bool → Option Nat → Sum Nat (Nat × Bool × Option Nat)
  | [], p, pb, le => .inr (p, pb, le)
  | c :: cs, p, pb, le =>
    if c = q then
      if pb then scanRun q cs (p + 1) false (some (p + 1)) else .inl (p + 1)
    else scanRun q cs (p + 1) (c = '\\') le

theorem scanString_append (q : Char) (x : List Char) : ∀ (u : List Char) (p : Nat) (pb : Bool) (le : Option Nat),
    scanString q (u ++ x) p pb le =
      match scanRun q u p pb le with
      | .inl r => some r
      | .inr (p', pb', le') => scanString q x p' pb' le'
  | [], _, _, _ => rfl
  | c :: cs, p, pb, le => by
    rw [List.cons_append, scanString_cons, scanRun]
    split
    · split
      · exact scanString_append q x cs _ _ _
      · rfl
    · exact scanString_append q x cs _ _ _

theorem scanRun_pos {q : Char} : ∀ (u : List Char) (p : Nat) (pb : Bool) (le : Option Nat) (p' : Nat) (pb' : Bool)
    (le' : Option Nat), scanRun q u p pb le = .inr (p', pb', le') → p' = p + u.length
  | [], p, pb, le, p', pb', le', h => by simp [scanRun] at h; simp [h.1]
  | c :: cs, p, pb, le, p', pb', le', h => by
    rw [scanRun] at h
    split at h
    · split at h
      · have := scanRun_pos cs _ _ _ _ _ _ h; simp; omega
      · cases h
    · have := scanRun_pos cs _ _ _ _ _ _ h; simp; omega

/-- **a real `STRING` boundary stays one when white space is inserted after it**: if on
    `q u ++ rest` the match is exactly `q u`, it is exactly `q u` on `q u ++ ws ++ rest` -/
theorem scanString_insert {q : Char} {u rest ws : List Char} (hws : q ∉ ws)
    (h : scanString q (u ++ rest) 1 false none = some (u.length + 1)) :
    scanString q (u ++ (ws ++ rest)) 1 false none = some (u.length + 1) := by
  rw [scanString_append] at h ⊢
  cases hr : scanRun q u 1 false none with
  | inl r => rw [hr] at h; exact h
  | inr st =>
    obtain ⟨p', pb', le'⟩ := st
    rw [hr] at h
    simp only at h ⊢
    have hp := scanRun_pos u _ _ _ _ _ _ hr
    obtain ⟨hq, hle⟩ := scanString_le rest p' pb' le' _ h (by omega)
    rw [scanString_noquote (ws ++ rest) p' pb' le' (by simp [hws, hq]), hle]


/-! ### locality: a white-space character ends every match of the later rules -/

theorem head?_drop_stop {u x : List Char} {sp t : Char} {n : Nat} (hn : n ≤ u.length) (hne : sp ≠ t) :
    (((u ++ sp :: x).drop n).head? = some t) ↔ ((u.drop n).head? = some t) := by
  rw [List.drop_append_of_le_length hn]
  cases u.drop n with
  | nil => simp [hne]
  | cons c r => simp

theorem space_ne_chars {sp : Char} (h : isSpace sp = true) :
    sp ≠ '(' ∧ sp ≠ '!' ∧ sp ≠ '?' ∧ sp ≠ '$' ∧ sp ≠ '#' ∧ sp ≠ '"' ∧ sp ≠ '\'' := by
  refine ⟨?_, ?_, ?_, ?_, ?_, ?_, ?_⟩ <;> (intro e; subst e; revert h; decide)

section loc
variable {sp : Char} (hsp : isSpace sp = true) (u x : List Char)
include hsp

theorem matchFunction_loc : matchFunction (u ++ sp :: x) = matchFunction u := by
  obtain ⟨ha, _, _, hwd, had, _, _⟩ := space_classes hsp
  have hpar := (space_ne_chars hsp).1
  cases u with
  | nil => simp [matchFunction, ha, spanLen_cons_false had, spanLen_nil]
  | cons c u' =>
    have e1 := head?_drop_stop (u := c :: u') (x := x) (sp := sp) (t := '(')
      (spanLen_le isWordDot (c :: u')) hpar
    have e2 := head?_drop_stop (u := c :: u') (x := x) (sp := sp) (t := '(')
      (spanLen_le isAlphaDot (c :: u')) hpar
    have hs1 : spanLen isWordDot (c :: (u' ++ sp :: x)) = spanLen isWordDot (c :: u') := by
      rw [← List.cons_append]; exact spanLen_append_stop hwd _ _
    have hs2 : spanLen isAlphaDot (c :: (u' ++ sp :: x)) = spanLen isAlphaDot (c :: u') := by
      rw [← List.cons_append]; exact spanLen_append_stop had _ _
    rw [List.cons_append] at e1 e2
    unfold matchFunction
    simp only [List.cons_append, hs1, hs2, e1, e2]

omit hsp in
theorem matchSpan_loc {p : Char → Bool} (hp : p sp = false) : matchSpan p (u ++ sp :: x) = matchSpan p u := by
  unfold matchSpan; rw [spanLen_append_stop hp]

theorem matchVariable_loc : matchVariable (u ++ sp :: x) = matchVariable u := by
  obtain ⟨ha, _, hw, _, _, hau, _⟩ := space_classes hsp
  cases u with
  | nil => simp [matchVariable, ha, spanLen_cons_false hau, spanLen_nil]
  | cons c u' =>
    have hs1 : spanLen isWord (c :: (u' ++ sp :: x)) = spanLen isWord (c :: u') := by
      rw [← List.cons_append]; exact spanLen_append_stop hw _ _
    have hs2 : spanLen isAlphaUnderscore (c :: (u' ++ sp :: x)) = spanLen isAlphaUnderscore (c :: u') := by
      rw [← List.cons_append]; exact spanLen_append_stop hau _ _
    unfold matchVariable
    simp only [List.cons_append, hs1, hs2]

theorem matchLettersDigits_loc : matchLettersDigits (u ++ sp :: x) = matchLettersDigits u := by
  obtain ⟨ha, hd, _⟩ := space_classes hsp
  unfold matchLettersDigits
  simp only [spanLen_append_stop ha]
  rw [List.drop_append_of_le_length (spanLen_le isAlpha u), spanLen_append_stop hd]

theorem matchXlError_loc : matchXlError (u ++ sp :: x) = matchXlError u := by
  obtain ⟨_, _, _, _, _, _, he⟩ := space_classes hsp
  obtain ⟨_, hbang, hqm, _, hhash, _, _⟩ := space_ne_chars hsp
  cases u with
  | nil =>
    rw [List.nil_append, matchXlError_of_first hhash]; rfl
  | cons c u' =>
    by_cases hc : c = '#'
    · subst hc
      simp only [matchXlError, List.cons_append, spanLen_append_stop he]
      rw [List.drop_append_of_le_length (spanLen_le isErrChar u')]
      cases hdr : u'.drop (spanLen isErrChar u') with
      | nil =>
        simp only [List.nil_append, List.head?_cons, List.head?_nil]
        split
        · rfl
        · split
          · rename_i h; injection h with h; exact absurd h hbang
          · rename_i h; injection h with h; exact absurd h hqm
          · rfl
      | cons d r => rfl
    · rw [List.cons_append, matchXlError_of_first hc, matchXlError_of_first hc]

end loc


section loc2
variable {sp : Char} (hsp : isSpace sp = true) (u x : List Char)
include hsp

theorem matchAbsoluteCell_loc : matchAbsoluteCell (u ++ sp :: x) = matchAbsoluteCell u := by
  obtain ⟨ha, hd, _⟩ := space_classes hsp
  have hdl := (space_ne_chars hsp).2.2.2.1
  cases u with
  | nil => rw [List.nil_append, matchAbsoluteCell_of_first hdl]; rfl
  | cons c u' =>
    by_cases hc : c = '$'
    · subst hc
      simp only [matchAbsoluteCell, List.cons_append, spanLen_append_stop ha]
      split
      · rfl
      · rw [List.drop_append_of_le_length (spanLen_le isAlpha u')]
        cases hdr : u'.drop (spanLen isAlpha u') with
        | nil =>
          simp only [List.nil_append]
          split
          · rename_i h; injection h with h _; exact absurd h hdl
          · rfl
        | cons d r =>
          by_cases hd' : d = '$'
          · subst hd'; simp only [List.cons_append, spanLen_append_stop hd]
          · simp only [List.cons_append]
            split
            · rename_i h; injection h with h _; exact absurd h hd'
            · split
              · rename_i h; injection h with h _; exact absurd h hd'
              · rfl
    · rw [List.cons_append, matchAbsoluteCell_of_first hc, matchAbsoluteCell_of_first hc]

theorem matchMixedCell_loc (hu : u ≠ []) : matchMixedCell (u ++ sp :: x) = matchMixedCell u := by
  obtain ⟨ha, hd, _⟩ := space_classes hsp
  have hdl := (space_ne_chars hsp).2.2.2.1
  cases u with
  | nil => exact absurd rfl hu
  | cons c u' =>
    by_cases hc : c = '$'
    · subst hc
      simp only [matchMixedCell, List.cons_append, matchLettersDigits_loc hsp]
    · have hs1 : spanLen isAlpha (c :: (u' ++ sp :: x)) = spanLen isAlpha (c :: u') := by
        rw [← List.cons_append]; exact spanLen_append_stop ha _ _
      unfold matchMixedCell
      rw [List.cons_append]
      split
      · rename_i h; injection h with h _; exact absurd h hc
      · split
        · rename_i h; injection h with h _; exact absurd h hc
        · simp only [hs1]
          split
          · rfl
          · rw [← List.cons_append, List.drop_append_of_le_length (spanLen_le isAlpha (c :: u'))]
            cases hdr : (c :: u').drop (spanLen isAlpha (c :: u')) with
            | nil =>
              simp only [List.nil_append]
              split
              · rename_i h; injection h with h _; exact absurd h hdl
              · rfl
            | cons d r =>
              by_cases hd' : d = '$'
              · subst hd'; simp only [List.cons_append, spanLen_append_stop hd]
              · simp only [List.cons_append]
                split
                · rename_i h; injection h with h _; exact absurd h hd'
                · split
                  · rename_i h; injection h with h _; exact absurd h hd'
                  · rfl

omit hsp in
theorem isPrefixOf_loc : ∀ (lit u : List Char), sp ∉ lit → lit.isPrefixOf (u ++ sp :: x) = lit.isPrefixOf u
  | [], _, _ => by simp
  | a :: lit, [], h => by
    have : (a == sp) = false := by
      simp only [beq_eq_false_iff_ne, ne_eq]; intro e; exact h (by simp [e])
    simp [List.isPrefixOf, this]
  | a :: lit, c :: u, h => by
    simp only [List.cons_append, List.isPrefixOf]
    rw [isPrefixOf_loc lit u (fun hm => h (by simp [hm]))]

omit hsp in
theorem matchLit_loc (lit : List Char) (h : sp ∉ lit) : matchLit lit (u ++ sp :: x) = matchLit lit u := by
  unfold matchLit; rw [isPrefixOf_loc x lit u h]

end loc2


theorem space_not_mem_lit {sp : Char} (hsp : isSpace sp = true) {lit : List Char}
    (h : ∀ c ∈ lit, isSpace c = false) : sp ∉ lit := by
  intro hm; have := h sp hm; rw [hsp] at this; cases this

/-- every rule after `STRING` gives the same answer on `u ++ sp :: x` as on `u` alone when `sp`
    is a white-space character (and `u` is not empty) -/
theorem matchTok_loc {sp : Char} (hsp : isSpace sp = true) {u : List Char} (hu : u ≠ []) (x : List Char)
    {k : TK} (hk : k ∈ lateRules) : matchTok k (u ++ sp :: x) = matchTok k u := by
  obtain ⟨_, hd, _⟩ := space_classes hsp
  simp only [lateRules, List.mem_cons, List.not_mem_nil, or_false] at hk
  rcases hk with rfl | rfl | rfl | rfl | rfl | rfl | rfl | rfl | rfl | rfl | rfl | rfl | rfl | rfl | rfl | rfl |
    rfl | rfl | rfl | rfl | rfl | rfl | rfl | rfl | rfl | rfl | rfl | rfl | rfl | rfl | rfl | rfl | rfl | rfl
  · exact matchFunction_loc hsp u x
  · exact matchXlError_loc hsp u x
  · exact matchAbsoluteCell_loc hsp u x
  · exact matchMixedCell_loc hsp u x hu
  · exact matchLettersDigits_loc hsp u x
  · exact matchVariable_loc hsp u x
  · exact matchSpan_loc u x hd
  · exact matchLit_loc u x _ (space_not_mem_lit hsp (by decide))
  · exact matchLit_loc u x _ (space_not_mem_lit hsp (by decide))
  · exact matchLit_loc u x _ (space_not_mem_lit hsp (by decide))
  · -- SINGLESPACE: decided by the first character of `u`
    cases u with
    | nil => exact absurd rfl hu
    | cons c u' => simp [matchTok, matchLit, List.isPrefixOf]
  all_goals exact matchLit_loc u x _ (space_not_mem_lit hsp (by decide))

theorem lexOne_lateRules_loc {sp : Char} (hsp : isSpace sp = true) {u : List Char} (hu : u ≠ []) (x : List Char) :
    lexOne lateRules (u ++ sp :: x) = lexOne lateRules u :=
  lexOne_congr (fun _ hk => matchTok_loc hsp hu x hk)


/-! ### a match never extends past the end of the input -/

theorem matchSpan_le {p : Char → Bool} {s : List Char} {n : Nat} (h : matchSpan p s = some n) : n ≤ s.length := by
  unfold matchSpan at h
  simp only at h
  split at h
  · cases h
  · simp only [Option.some.injEq] at h; subst h; exact spanLen_le p s

theorem matchString_le {s : List Char} {n : Nat} (h : matchString s = some n) : n ≤ s.length := by
  unfold matchString at h
  split at h
  · have := scanString_bound _ 1 false none n h (by simp); simp; omega
  · have := scanString_bound _ 1 false none n h (by simp); simp; omega
  · cases h

theorem matchFunction_le {s : List Char} {n : Nat} (h : matchFunction s = some n) : n ≤ s.length := by
  cases s with
  | nil => simp [matchFunction, spanLen_nil] at h
  | cons c t =>
    simp only [matchFunction] at h
    split at h
    · simp only [Option.some.injEq] at h; subst h; exact spanLen_le _ _
    · split at h
      · simp only [Option.some.injEq] at h; subst h; exact spanLen_le _ _
      · cases h

theorem length_of_drop_cons {l r : List Char} {c : Char} {n : Nat} (h : l.drop n = c :: r) :
    n + 1 + r.length = l.length := by
  have := congrArg List.length h
  simp only [List.length_drop, List.length_cons] at this
  omega

theorem matchXlError_le {s : List Char} {n : Nat} (h : matchXlError s = some n) : n ≤ s.length := by
  unfold matchXlError at h
  split at h
  · rename_i rest
    simp only at h
    split at h
    · cases h
    · have hb := spanLen_le isErrChar rest
      cases hdr : rest.drop (spanLen isErrChar rest) with
      | nil =>
        rw [hdr] at h
        simp only [List.head?_nil, Option.some.injEq] at h
        subst h; simp; omega
      | cons d r =>
        have hl := length_of_drop_cons hdr
        rw [hdr] at h
        simp only [List.head?_cons] at h
        split at h <;> (simp only [Option.some.injEq] at h; subst h; simp; omega)
  · cases h

theorem matchLettersDigits_le {s : List Char} {n : Nat} (h : matchLettersDigits s = some n) : n ≤ s.length := by
  unfold matchLettersDigits at h
  simp only at h
  split at h
  · cases h
  · split at h
    · cases h
    · simp only [Option.some.injEq] at h; subst h
      have h1 := spanLen_le isAlpha s
      have h2 := spanLen_le isDigit (s.drop (spanLen isAlpha s))
      rw [List.length_drop] at h2; omega

theorem matchAbsoluteCell_le {s : List Char} {n : Nat} (h : matchAbsoluteCell s = some n) : n ≤ s.length := by
  unfold matchAbsoluteCell at h
  split at h
  · rename_i rest
    simp only at h
    split at h
    · cases h
    · split at h
      · rename_i r2 hdr
        split at h
        · cases h
        · simp only [Option.some.injEq] at h; subst h
          have hl := length_of_drop_cons hdr
          have := spanLen_le isDigit r2
          simp; omega
      · cases h
  · cases h

theorem matchMixedCell_le {s : List Char} {n : Nat} (h : matchMixedCell s = some n) : n ≤ s.length := by
  unfold matchMixedCell at h
  split at h
  · rename_i rest
    cases hm : matchLettersDigits rest with
    | none => rw [hm] at h; cases h
    | some m =>
      rw [hm] at h
      simp only [Option.map_some, Option.some.injEq] at h; subst h
      have := matchLettersDigits_le hm; simp; omega
  · simp only at h
    split at h
    · cases h
    · split at h
      · rename_i r2 hdr
        split at h
        · cases h
        · simp only [Option.some.injEq] at h; subst h
          have hl := length_of_drop_cons hdr
          have := spanLen_le isDigit r2
          omega
      · cases h

theorem matchVariable_le {s : List Char} {n : Nat} (h : matchVariable s = some n) : n ≤ s.length := by
  cases s with
  | nil => simp [matchVariable, spanLen_nil] at h
  | cons c t =>
    simp only [matchVariable] at h
    split at h
    · simp only [Option.some.injEq] at h; subst h; exact spanLen_le _ _
    · split at h
      · simp only [Option.some.injEq] at h; subst h; exact spanLen_le _ _
      · cases h

theorem matchLit_le {lit s : List Char} {n : Nat} (h : matchLit lit s = some n) : n ≤ s.length := by
  unfold matchLit at h
  split at h
  · rename_i hp
    simp only [Option.some.injEq] at h; subst h
    exact (List.isPrefixOf_iff_prefix.mp hp).length_le
  · cases h

theorem matchTok_le {k : TK} {s : List Char} {n : Nat} (h : matchTok k s = some n) : n ≤ s.length := by
  cases k
  case WHITESPACE => exact matchSpan_le h
  case STRING => exact matchString_le h
  case FUNCTION => exact matchFunction_le h
  case XLERROR => exact matchXlError_le h
  case ABSOLUTE_CELL => exact matchAbsoluteCell_le h
  case MIXED_CELL => exact matchMixedCell_le h
  case RELATIVE_CELL => exact matchLettersDigits_le h
  case VARIABLE => exact matchVariable_le h
  case NUMBER => exact matchSpan_le h
  case LEXERROR => cases h
  all_goals exact matchLit_le h

/-- the token the lexer takes lies within the input -/
theorem lexOne_le_length {rules : List TK} {s : List Char} {k : TK} {n : Nat}
    (h : lexOne rules s = some (k, n)) : n ≤ s.length :=
  matchTok_le (lexOne_some h).2.1


/-! ### white space at a token boundary -/

theorem lexOne_ruleOrder (s : List Char) :
    lexOne ruleOrder s = match lexStep .WHITESPACE s with
      | some r => some r
      | none => match lexStep .STRING s with
        | some r => some r
        | none => lexOne lateRules s := by
  rw [ruleOrder_eq, lexOne_cons, lexOne_cons] <;> (cases lexStep .WHITESPACE s <;> rfl)

theorem lexStep_kind {k : TK} {s : List Char} {r : TK × Nat} (h : lexStep k s = some r) :
    r.1 = k ∧ matchTok k s = some r.2 ∧ r.2 ≠ 0 := by
  unfold lexStep at h
  split at h
  · rename_i n hn
    split at h
    · cases h
    · simp only [Option.some.injEq] at h; subst h; exact ⟨rfl, hn, by assumption⟩
  · cases h

theorem not_space_of_lexStep_ws_none {c : Char} {cs : List Char} (h : lexStep .WHITESPACE (c :: cs) = none) :
    isSpace c = false := by
  by_cases hc : isSpace c = true
  · have : lexStep .WHITESPACE (c :: cs) = some (.WHITESPACE, spanLen isSpace (c :: cs)) :=
      lexStep_of_some (by simp [matchTok, matchSpan, spanLen_cons_true hc]) (by rw [spanLen_cons_true hc]; omega)
    rw [this] at h; cases h
  · exact eq_false_of_not hc

theorem isQuote_of_matchString {c : Char} {cs : List Char} {n : Nat} (h : matchString (c :: cs) = some n) :
    IsQuote c := by
  by_cases h1 : c = '"'
  · exact Or.inl h1
  · by_cases h2 : c = '\''
    · exact Or.inr h2
    · rw [matchString_of_ne cs h1 h2] at h; cases h

theorem lexStep_string_eq_none {s : List Char} (h : lexStep .STRING s = none) : matchString s = none := by
  cases hm : matchString s with
  | none => rfl
  | some n =>
    exfalso
    cases s with
    | nil => simp [matchString] at hm
    | cons c cs =>
      have hq := isQuote_of_matchString hm
      rw [matchString_quote hq] at hm
      have := scanString_pos _ _ _ _ hm
      have h' : lexStep .STRING (c :: cs) = some (.STRING, n) :=
        lexStep_of_some (k := .STRING) (by rw [← hm]; exact matchString_quote hq cs) (by omega)
      rw [h'] at h; cases h

theorem quote_not_mem_spaces {q : Char} (hq : IsQuote q) {ws : List Char} (hws : ∀ c ∈ ws, isSpace c = true) :
    q ∉ ws := by
  intro hm; have := hws q hm; rw [isSpace_quote hq] at this; cases this

/-- the `STRING` rule at a real boundary: failing stays failing when white space is inserted -/
theorem matchString_insert_none {c : Char} {u rest ws : List Char} (hws : ∀ c ∈ ws, isSpace c = true)
    (h : matchString (c :: (u ++ rest)) = none) : matchString (c :: (u ++ (ws ++ rest))) = none := by
  by_cases h1 : c = '"' ∨ c = '\''
  · have hq : IsQuote c := h1
    rw [matchString_quote hq] at h ⊢
    have hn := not_mem_of_scanString_none _ _ _ _ h
    have : c ∉ u ++ (ws ++ rest) := by
      simp only [List.mem_append, not_or] at hn ⊢
      exact ⟨hn.1, quote_not_mem_spaces hq hws, hn.2⟩
    exact scanString_noquote _ _ _ _ this
  · simp only [not_or] at h1
    exact matchString_of_ne _ h1.1 h1.2

/-- the `STRING` rule at a real boundary: a match that is exactly the token stays exactly the
    token when white space is inserted -/
theorem matchString_insert_some {c : Char} {u rest ws : List Char} (hws : ∀ c ∈ ws, isSpace c = true)
    (h : matchString (c :: (u ++ rest)) = some (u.length + 1)) :
    matchString (c :: (u ++ (ws ++ rest))) = some (u.length + 1) := by
  have hq := isQuote_of_matchString h
  rw [matchString_quote hq] at h ⊢
  exact scanString_insert (quote_not_mem_spaces hq hws) h

/-- **a real token boundary stays one when white space is inserted.**  If the text `t1` is on
    its own exactly one token of kind `k` (not white space), and in `t1 ++ rest` the lexer also
    takes exactly `t1` as a `k` token, then so it does in `t1 ++ ws ++ rest`. -/
theorem lexOne_insert_ws {t1 rest ws : List Char} {k : TK} (hws : ∀ c ∈ ws, isSpace c = true)
    (h1 : lexOne ruleOrder t1 = some (k, t1.length))
    (h2 : lexOne ruleOrder (t1 ++ rest) = some (k, t1.length)) (hk : k ≠ .WHITESPACE) :
    lexOne ruleOrder (t1 ++ (ws ++ rest)) = some (k, t1.length) := by
  cases ws with
  | nil => simpa using h2
  | cons sp ws' =>
    have hsp : isSpace sp = true := hws sp (by simp)
    cases t1 with
    | nil => exact absurd rfl (lexOne_some h1).2.2
    | cons c u =>
      rw [lexOne_ruleOrder] at h1 h2 ⊢
      -- the WHITESPACE rule does not fire: `c` is no white space
      have hW1 : lexStep .WHITESPACE (c :: u) = none := by
        cases e : lexStep .WHITESPACE (c :: u) with
        | none => rfl
        | some r =>
          rw [e] at h1
          simp only [Option.some.injEq] at h1
          have := (lexStep_kind e).1
          rw [h1] at this; exact absurd this hk
      have hc := not_space_of_lexStep_ws_none hW1
      rw [List.cons_append] at h2 ⊢
      rw [lexStep_ws_of_not_space hc] at h1 h2 ⊢
      simp only at h1 h2 ⊢
      cases e2 : lexStep .STRING (c :: (u ++ rest)) with
      | some r =>
        rw [e2] at h2
        simp only [Option.some.injEq] at h2
        subst h2
        obtain ⟨hk2, hm, _⟩ := lexStep_kind e2
        simp only at hm hk2
        subst hk2
        have hm' : matchString (c :: (u ++ rest)) = some (u.length + 1) := hm
        have := matchString_insert_some hws hm'
        rw [lexStep_of_some (k := .STRING) this (by omega)]
        rfl
      | none =>
        rw [e2] at h2
        simp only at h2
        have hnone := matchString_insert_none hws (lexStep_string_eq_none e2)
        rw [lexStep_string_none hnone]
        simp only
        have hk' : k ∈ lateRules := (lexOne_some h2).1
        have hS1 : lexStep .STRING (c :: u) = none := by
          cases e : lexStep .STRING (c :: u) with
          | none => rfl
          | some r =>
            rw [e] at h1
            simp only [Option.some.injEq] at h1
            have := (lexStep_kind e).1
            rw [h1] at this
            simp only at this
            subst this
            exact absurd hk' (by decide)
        rw [hS1] at h1
        simp only at h1
        rw [← List.cons_append, List.cons_append (a := sp), lexOne_lateRules_loc hsp (by simp)]
        exact h1


/-- white space inserted at a real token boundary is dropped -/
theorem tokenize_insert_ws {t1 rest ws : List Char} {k : TK} (hws : ∀ c ∈ ws, isSpace c = true)
    (h1 : lexOne ruleOrder t1 = some (k, t1.length))
    (h2 : lexOne ruleOrder (t1 ++ rest) = some (k, t1.length)) (hk : k ≠ .WHITESPACE) :
    tokenize (t1 ++ (ws ++ rest)) = ⟨k, t1⟩ :: tokenize rest ∧
    tokenize (t1 ++ rest) = ⟨k, t1⟩ :: tokenize rest := by
  have h3 := lexOne_insert_ws hws h1 h2 hk
  constructor
  · rw [tokenize_of_lexOne h3 hk, List.take_left, List.drop_left, tokenize_leading_ws hws]
  · rw [tokenize_of_lexOne h2 hk, List.take_left, List.drop_left]

theorem take_spanLen_all (p : Char → Bool) : ∀ (s : List Char), ∀ c ∈ s.take (spanLen p s), p c = true
  | [], c, h => by simp [spanLen_nil] at h
  | d :: ds, c, h => by
    by_cases hd : p d = true
    · rw [spanLen_cons_true hd, List.take_succ_cons, List.mem_cons] at h
      rcases h with rfl | h
      · exact hd
      · exact take_spanLen_all p ds c h
    · rw [spanLen_cons_false (eq_false_of_not hd)] at h; simp at h

/-- appending white space at the end does not change the first token the lexer takes -/
theorem lexOne_append_ws {c : Char} {cs ws : List Char} (hc : isSpace c = false)
    (hws : ∀ c ∈ ws, isSpace c = true) :
    lexOne ruleOrder (c :: cs ++ ws) = lexOne ruleOrder (c :: cs) := by
  cases ws with
  | nil => simp
  | cons sp ws' =>
    have hsp : isSpace sp = true := hws sp (by simp)
    have hstr : matchString (c :: cs ++ sp :: ws') = matchString (c :: cs) := by
      by_cases h1 : c = '"' ∨ c = '\''
      · have hq : IsQuote c := h1
        rw [List.cons_append, matchString_quote hq, matchString_quote hq,
          scanString_append_noquote (quote_not_mem_spaces hq hws)]
      · simp only [not_or] at h1
        rw [List.cons_append, matchString_of_ne _ h1.1 h1.2, matchString_of_ne _ h1.1 h1.2]
    rw [lexOne_ruleOrder, lexOne_ruleOrder, lexOne_lateRules_loc hsp (by simp)]
    have e1 : lexStep .WHITESPACE (c :: cs ++ sp :: ws') = none := by
      rw [List.cons_append]; exact lexStep_ws_of_not_space hc _
    have e2 : lexStep .STRING (c :: cs ++ sp :: ws') = lexStep .STRING (c :: cs) := by
      unfold lexStep
      show (match matchString (c :: cs ++ sp :: ws') with | some n => _ | none => _) = _
      rw [hstr]; rfl
    rw [e1, lexStep_ws_of_not_space hc, e2]

/-- **trailing white space is dropped** -/
theorem tokenize_trailing_ws {ws : List Char} (hws : ∀ c ∈ ws, isSpace c = true) :
    ∀ (n : Nat) (s : List Char), s.length ≤ n → tokenize (s ++ ws) = tokenize s := by
  intro n
  induction n with
  | zero =>
    intro s hs
    have : s = [] := List.eq_nil_of_length_eq_zero (by omega)
    subst this
    have := tokenize_leading_ws hws []
    simpa using this
  | succ n ih =>
    intro s hs
    cases s with
    | nil => have := tokenize_leading_ws hws []; simpa using this
    | cons c cs =>
      by_cases hc : isSpace c = true
      · -- strip the leading white space of `s` on both sides
        have hk : 1 ≤ spanLen isSpace (c :: cs) := by rw [spanLen_cons_true hc]; omega
        have hsplit : (c :: cs) = (c :: cs).take (spanLen isSpace (c :: cs)) ++ (c :: cs).drop (spanLen isSpace (c :: cs)) :=
          (List.take_append_drop _ _).symm
        have hlen : ((c :: cs).drop (spanLen isSpace (c :: cs))).length ≤ n := by
          rw [List.length_drop]; simp at hs ⊢; omega
        rw [← tokenize_drop_spaces (c :: cs), ← ih _ hlen]
        conv => lhs; rw [hsplit, List.append_assoc]
        exact tokenize_leading_ws (take_spanLen_all isSpace _) _
      · have hc' : isSpace c = false := eq_false_of_not hc
        have hl := lexOne_append_ws (cs := cs) hc' hws
        cases hlo : lexOne ruleOrder (c :: cs) with
        | none =>
          rw [hlo] at hl
          rw [tokenize_step _ (by simp), tokenize_step (c :: cs) (by simp), hl, hlo]
          rfl
        | some r =>
          obtain ⟨k, m⟩ := r
          rw [hlo] at hl
          have hm := lexOne_le_length hlo
          have hm0 : m ≠ 0 := (lexOne_some hlo).2.2
          have hkws : k ≠ .WHITESPACE := by
            intro e; subst e
            have := (lexOne_some hlo).2.1
            simp [matchTok, matchSpan, spanLen_cons_false hc'] at this
          rw [tokenize_of_lexOne hl hkws, tokenize_of_lexOne hlo hkws, List.take_append_of_le_length hm,
            List.drop_append_of_le_length hm, ih]
          rw [List.length_drop]; simp at hs ⊢; omega


/-! ### self-delimiting tokens: white space anywhere between them is dropped -/

/-- the text `t` is taken as one token of kind `k` whatever follows it -/
def SelfDelim (k : TK) (t : List Char) : Prop :=
  k ≠ .WHITESPACE ∧ ∀ rest, lexOne ruleOrder (t ++ rest) = some (k, t.length)

theorem selfDelim_single {c : Char} {k : TK} (h : (c, k) ∈ singles) : SelfDelim k [c] := by
  refine ⟨?_, fun rest => lexOne_single h rest⟩
  have : ∀ p ∈ singles, p.2 ≠ TK.WHITESPACE := by decide
  exact this (c, k) h

/-- does the scanner stand behind a backslash after `body` -/
def endsEsc : Bool → List Char → Bool
  | pb, [] => pb
  | _, c :: cs => endsEsc (c = '\\') cs

theorem endsEsc_eq (pb : Bool) (body : List Char) :
    endsEsc pb body = match body.getLast? with | none => pb | some c => decide (c = '\\') := by
  induction body generalizing pb with
  | nil => rfl
  | cons c cs ih =>
    rw [endsEsc, ih]
    cases cs with
    | nil => rfl
    | cons d ds =>
      rw [List.getLast?_cons_cons]
      cases hg : (d :: ds).getLast? with
      | none => simp at hg
      | some e => rfl

/-- characters without the quote and not ending in a backslash, then the quote: the match ends
    just past that quote whatever follows -/
theorem scanString_close {q : Char} (rest : List Char) : ∀ (body : List Char) (p : Nat) (pb : Bool) (le : Option Nat),
    q ∉ body → endsEsc pb body = false → scanString q (body ++ q :: rest) p pb le = some (p + body.length + 1)
  | [], p, pb, le, _, he => by
    simp only [endsEsc] at he; subst he
    rw [List.nil_append, scanString_cons, if_pos rfl]; simp
  | c :: cs, p, pb, le, h, he => by
    have hc : c ≠ q := fun e => h (by simp [e])
    rw [List.cons_append, scanString_cons, if_neg hc,
      scanString_close rest cs _ _ _ (fun hm => h (by simp [hm])) he]
    simp; omega

theorem selfDelim_string {q : Char} (hq : IsQuote q) {body : List Char} (hb : q ∉ body)
    (hlast : body.getLast? ≠ some '\\') : SelfDelim .STRING (q :: body ++ [q]) := by
  refine ⟨by decide, fun rest => ?_⟩
  have he : endsEsc false body = false := by
    rw [endsEsc_eq]
    cases hg : body.getLast? with
    | none => rfl
    | some c =>
      simp only [decide_eq_false_iff_not]
      intro e; subst e; exact hlast hg
  have hm : matchString (q :: (body ++ q :: rest)) = some (body.length + 2) := by
    rw [matchString_quote hq, scanString_close rest body 1 false none hb he]; congr 1; omega
  have : (q :: body ++ [q]) ++ rest = q :: (body ++ q :: rest) := by simp
  rw [this, ruleOrder_eq, lexOne_cons_none (lexStep_ws_of_not_space (isSpace_quote hq) _)]
  have hlen : (q :: body ++ [q]).length = body.length + 2 := by simp
  rw [hlen]
  exact lexOne_cons_some (lexStep_of_some (k := .STRING) hm (by omega)) _

/-- token texts written one after the other, each preceded by a gap, and a final gap -/
def renderGaps : List (List Char × TK × List Char) → List Char → List Char
  | [], tail => tail
  | (g, _, t) :: r, tail => g ++ (t ++ renderGaps r tail)

/-- **white space between self-delimiting tokens is dropped**: whatever white space (possibly
    none) stands before, between and after them, the token stream is the list of the tokens -/
theorem tokenize_renderGaps : ∀ (items : List (List Char × TK × List Char)) (tail : List Char),
    (∀ i ∈ items, (∀ c ∈ i.1, isSpace c = true) ∧ SelfDelim i.2.1 i.2.2) →
    (∀ c ∈ tail, isSpace c = true) →
    tokenize (renderGaps items tail) = items.map (fun i => ⟨i.2.1, i.2.2⟩)
  | [], tail, _, ht => by
    have := tokenize_leading_ws ht []
    simpa [renderGaps, tokenize_nil] using this
  | (g, k, t) :: r, tail, h, ht => by
    obtain ⟨hg, hk, hsd⟩ := h (g, k, t) (by simp)
    rw [renderGaps, tokenize_leading_ws hg, tokenize_of_lexOne (hsd _) hk, List.take_left, List.drop_left,
      tokenize_renderGaps r tail (fun i hi => h i (by simp [hi])) ht]
    rfl

end HotXL.Lexer
