/-
  HotXL.Lemmas.DateTime — helper lemmas for property C14 about the model of
  hotxlfp/formulas/dateandtime.py (`HotXL.Fn.DateTime`): the generated constants pinned by `decide`
  (an edited literal / comparison operator in /repo changes `HotXL.Generated.DateTime` and these
  stop checking), closed forms of DATE, TIME, EDATE, DATEDIF, WEEKDAY on well-typed arguments,
  `parse_date` on whole serial numbers and `serialize_date` on whole days.
-/
import HotXL.Model.Fn.DateTime
import HotXL.Lemmas.Calendar
import Mathlib.Tactic.Linarith
import Mathlib.Tactic.FieldSimp
import Mathlib.Tactic.Ring
import Mathlib.Tactic.NormNum
import Mathlib.Tactic.IntervalCases
import Mathlib.Tactic.SplitIfs

namespace HotXL.Fn.DateTime
open HotXL HotXL.Ops HotXL.Fn HotXL.Calendar



theorem usPerDay_eq : usPerDay = 86400000000 := by decide

theorem epochOrd_eq : epochOrd = 693596 := by decide

theorem dateInts_pinned : Generated.dateInts = [1900, 1900] := by decide

theorem dateCompares_pinned : Generated.dateCompares = ["Lt"] := by decide

theorem timeInts_pinned : Generated.timeInts = [1900, 1, 1] := by decide

def dateUs (y : Int) (m : Nat) (d : Int) : Int := (ordinalOfYMD y m d - epochOrd) * usPerDay

def todUs (h mi s : Int) : Int := ((h * 60 + mi) * 60 + s) * 1000000

theorem todUs_range (h mi s : Int) (h1 : 0 ≤ h ∧ h < 24) (h2 : 0 ≤ mi ∧ mi < 60) (h3 : 0 ≤ s ∧ s < 60) :
    0 ≤ todUs h mi s ∧ todUs h mi s < usPerDay := by
  rw [usPerDay_eq]; unfold todUs; omega

theorem ordinalOf_dateUs (y : Int) (m : Nat) (d tod : Int) (h0 : 0 ≤ tod) (h1 : tod < usPerDay) :
    ordinalOf (dateUs y m d + tod) = ordinalOfYMD y m d := by
  unfold ordinalOf dayIndex dateUs
  rw [usPerDay_eq] at *
  omega

theorem timeOfDay_dateUs (y : Int) (m : Nat) (d tod : Int) (h0 : 0 ≤ tod) (h1 : tod < usPerDay) :
    timeOfDay (dateUs y m d + tod) = tod := by
  unfold timeOfDay dateUs
  rw [usPerDay_eq] at *
  omega

theorem cmpI_Lt (a b : Int) : cmpI "Lt" a b = decide (a < b) := rfl

theorem cmpI_Gt (a b : Int) : cmpI "Gt" a b = decide (a > b) := rfl

theorem cmpI_Eq (a b : Int) : cmpI "Eq" a b = decide (a = b) := rfl

theorem cmpI_NotEq (a b : Int) : cmpI "NotEq" a b = decide (a ≠ b) := rfl

theorem cmpI_GtE (a b : Int) : cmpI "GtE" a b = decide (a ≥ b) := rfl

theorem parseNumber_int (i : Int) : parseNumber (vInt i) = .ok (.int i) := rfl

theorem parseNumber_int' (i : Int) : parseNumber (.num (.int i)) = .ok (.int i) := rfl

theorem DATE_int (y m d : Int) :
    DATE [vInt y, vInt m, vInt d] =
      match mkDateTime? (if y < 1900 then y + 1900 else y) m d 0 0 0 with
      | some us => .ok (.date us)
      | none => .error .error := by
  simp only [DATE, parseNumber_int, numIndex?, dC, dateInts_pinned, dateCompares_pinned, List.getD_cons_zero,
    List.getD_cons_succ, cmpI_Lt, decide_eq_true_eq]
  rfl

theorem mkDateTime?_valid (y : Int) (m : Nat) (d h mi s : Int) (hv : validYMD y m d = true)
    (h1 : 0 ≤ h ∧ h < 24) (h2 : 0 ≤ mi ∧ mi < 60) (h3 : 0 ≤ s ∧ s < 60) :
    mkDateTime? y (m : Int) d h mi s = some (dateUs y m d + todUs h mi s) := by
  have hm : 1 ≤ m := ((validYMD_iff y m d).mp hv).2.2.1
  have hm' : (1 : Int) ≤ (m : Int) := by omega
  simp [mkDateTime?, hv, hm', h1.1, h1.2, h2.1, h2.2, h3.1, h3.2, dateUs, todUs]

theorem TIME_int (h mi s : Int) :
    TIME [vInt h, vInt mi, vInt s] =
      match mkDateTime? 1900 1 1 h mi s with
      | some us => .ok (.date us)
      | none => .error .error := by
  simp only [TIME, vInt, parseNumber_int', numIndex?, rawIndex?, tC, timeInts_pinned, List.getD_cons_zero, List.getD_cons_succ]
  rfl

theorem parseDateConsts_pinned : Generated.parseDateConsts = [0, 1, 60, 1, 86400, 2, 86400] := by decide

theorem parseDateCompares_pinned : Generated.parseDateCompares = ["Lt", "Lt", "LtE"] := by decide

theorem serializeDateConsts_pinned :
    Generated.serializeDateConsts = [0, 1000, 1000, -2203891200000, 86400000, 1, 86400000, 2] := by decide

theorem serializeDateCompares_pinned : Generated.serializeDateCompares = ["Eq", "Lt"] := by decide

theorem date1900_pinned : Generated.date1900 = [1900, 1, 1, 0, 0, 0, 0] := by decide

theorem epochSeconds1900_eq : Dates.epochSeconds1900 = -2208988800 := by decide

theorem usEnd_eq : Ops.usEnd = 2958464 * 86400000000 := by decide

theorem roundHalfEven_intCast (k : Int) : Dates.roundHalfEven (k : Rat) = k := by
  unfold Dates.roundHalfEven
  simp [Rat.floor_intCast]

/-- `parse_date` of a whole serial number from 61 on: midnight, `s - 2` days after 1900-01-01 -/
theorem parseNum_int (s : Int) (h : 61 ≤ s) : Dates.parseNum (s : Rat) = some ((s - 2) * 86400000000) := by
  have h0 : ¬ ((s : Rat) < 0) := by
    have : (0 : Rat) ≤ (s : Rat) := by exact_mod_cast (by omega : (0 : Int) ≤ s)
    linarith
  have h1 : ¬ ((s : Rat) < 1) := by
    have : (1 : Rat) ≤ (s : Rat) := by exact_mod_cast (by omega : (1 : Int) ≤ s)
    linarith
  have h2 : ¬ ((s : Rat) ≤ 60) := by
    have : (61 : Rat) ≤ (s : Rat) := by exact_mod_cast h
    linarith
  have e : ((s : Rat) - 2) * 86400 * 1000000 = (((s - 2) * 86400000000 : Int) : Rat) := by
    push_cast; ring
  simp only [Dates.parseNum, Dates.pConst, parseDateConsts_pinned, parseDateCompares_pinned, List.getD_cons_zero,
    List.getD_cons_succ, Dates.cmpBy, decide_eq_true_eq, Int.cast_zero, Int.cast_one, Int.cast_ofNat, h0, h1, h2, if_false, e,
    roundHalfEven_intCast]

theorem pdOf_serial (s : Int) (h1 : 61 ≤ s) (h2 : s ≤ 2958465) :
    pdOf (vInt s) = .date ((s - 2) * 86400000000) := by
  have hlt : (s - 2) * 86400000000 < Ops.usEnd := by rw [usEnd_eq]; omega
  simp only [pdOf, vInt, parseDate, parseDateValue, Num.toRat, parseNum_int s h1, hlt, if_true]

/-- the serial of midnight `k` days after 1900-01-01, from 1 March 1900 on: `k + 2` (a float) -/
theorem serialize_late_day (k : Int) (h : 59 ≤ k) :
    Dates.serialize (k * 86400000000) = .flt ((k : Rat) + 2) := by
  have hne : ¬ (k * 86400000000 = 0) := by omega
  have hk : (59 : Rat) ≤ (k : Rat) := by exact_mod_cast h
  have hlt : ¬ (((-2208988800 : Int) : Rat) + ((k * 86400000000 : Int) : Rat) / 1000000) * ((1000 : Int) : Rat)
      < ((-2203891200000 : Int) : Rat) := by
    push_cast
    intro hh
    linarith
  simp only [Dates.serialize, hne, if_false, Dates.sConst, serializeDateConsts_pinned, serializeDateCompares_pinned,
    List.getD_cons_zero, List.getD_cons_succ, Dates.cmpBy, decide_eq_true_eq, epochSeconds1900_eq, hlt]
  rw [Num.flt.injEq]
  push_cast
  ring

/-- before 1 March 1900 (and after 1900-01-01T00:00): `k + 1` -/
theorem serialize_early_day (k : Int) (h0 : 1 ≤ k) (h : k < 59) :
    Dates.serialize (k * 86400000000) = .flt ((k : Rat) + 1) := by
  have hne : ¬ (k * 86400000000 = 0) := by omega
  have hk : (k : Rat) < 59 := by exact_mod_cast h
  have hlt : (((-2208988800 : Int) : Rat) + ((k * 86400000000 : Int) : Rat) / 1000000) * ((1000 : Int) : Rat)
      < ((-2203891200000 : Int) : Rat) := by
    push_cast
    linarith
  simp only [Dates.serialize, hne, if_false, Dates.sConst, serializeDateConsts_pinned, serializeDateCompares_pinned,
    List.getD_cons_zero, List.getD_cons_succ, Dates.cmpBy, decide_eq_true_eq, epochSeconds1900_eq, hlt, if_true]
  rw [Num.flt.injEq]
  push_cast
  ring

theorem serialize_zero : Dates.serialize 0 = .int 0 := by decide

theorem numTrunc_flt_int (k : Int) : numTrunc (.flt (k : Rat)) = k := by
  simp [numTrunc]

theorem numSub_flt (a b : Rat) : numSub (.flt a) (.flt b) = .flt (a - b) := rfl

theorem serial_diff (a b : Int) : ((b : Rat) + 2) - ((a : Rat) + 2) = ((b - a : Int) : Rat) := by
  push_cast; ring

theorem edateInts_pinned : Generated.edateInts =
    [1900, 1, 1, 12, 12, 12, 12, 1, 1, 12, 1, 1, 2, 29, 4, 0, 100, 0, 400, 0, 28, 4, 6, 9, 11, 30, 31,
     31, 29, 4, 0, 100, 0, 400, 0, 28, 31, 30, 31, 30, 31, 31, 30, 31, 30, 31, 1, 9999, 1900] := by decide

theorem edateCompares_pinned : Generated.edateCompares =
    ["Eq", "Eq", "Gt", "Lt", "Eq", "Eq", "NotEq", "Eq", "In", "Eq", "NotEq", "Eq", "Gt", "Lt"] := by decide

theorem edateLeapB_eq (y : Int) : edateLeapB y = isLeap y := by
  simp only [edateLeapB, eC, eK, edateInts_pinned, edateCompares_pinned, List.getD_cons_zero, List.getD_cons_succ,
    cmpI_Eq, cmpI_NotEq]
  rw [Bool.eq_iff_iff, isLeap_iff]
  simp only [Bool.or_eq_true, Bool.and_eq_true, decide_eq_true_eq]
  omega

theorem edateLeapA_eq (y : Int) : edateLeapA y = isLeap y := by
  simp only [edateLeapA, eC, eK, edateInts_pinned, edateCompares_pinned, List.getD_cons_zero, List.getD_cons_succ,
    cmpI_Eq, cmpI_NotEq]
  rw [Bool.eq_iff_iff, isLeap_iff]
  simp only [Bool.or_eq_true, Bool.and_eq_true, decide_eq_true_eq]
  omega

theorem edateMonthList_eq (y : Int) :
    edateMonthList y = [31, if isLeap y then 29 else 28, 31, 30, 31, 30, 31, 31, 30, 31, 30, 31] := by
  simp only [edateMonthList, edateLeapB_eq, eC, edateInts_pinned, List.getD_cons_zero, List.getD_cons_succ]

/-- EDATE's own 12-entry month-length list with its own leap rule is the calendar's month length -/
theorem edate_month_table (y : Int) (m : Nat) (h1 : 1 ≤ m) (h2 : m ≤ 12) :
    pyListGet? (edateMonthList y) ((m : Int) - 1) = some (daysInMonth y m) := by
  rw [edateMonthList_eq, daysInMonth_eq]
  interval_cases m <;> cases isLeap y <;> rfl

theorem daysInMonth_range (y : Int) (m : Nat) (h1 : 1 ≤ m) (h2 : m ≤ 12) :
    28 ≤ daysInMonth y m ∧ daysInMonth y m ≤ 31 := by
  rw [daysInMonth_eq]
  have := month_table (isLeap y) m (by omega) h1
  omega

/-- the month arithmetic of EDATE on a start datetime with components (y, m, d) -/
theorem edateCore_spec (us n y : Int) (m : Nat) (d : Int) (hy : yearOf us = y) (hm : monthOf us = (m : Int))
    (hd : dayOf us = d) (hv : validYMD y m d = true) :
    edateCore false us n =
      (if 1900 ≤ (12 * y + ((m : Int) - 1) + n) / 12 ∧ (12 * y + ((m : Int) - 1) + n) / 12 ≤ 9999 then
        .ok (.date (dateUs ((12 * y + ((m : Int) - 1) + n) / 12) (((12 * y + ((m : Int) - 1) + n) % 12 + 1).toNat)
          (min d (daysInMonth ((12 * y + ((m : Int) - 1) + n) / 12) (((12 * y + ((m : Int) - 1) + n) % 12 + 1).toNat)))))
      else .ok (.err .num)) := by
  obtain ⟨_, _, hm1, hm12, hd1, hdm⟩ := (validYMD_iff y m d).mp hv
  -- the target (year, month)
  generalize hY : (12 * y + ((m : Int) - 1) + n) / 12 = Y
  generalize hM : ((12 * y + ((m : Int) - 1) + n) % 12 + 1).toNat = M
  have hM1 : 1 ≤ M ∧ M ≤ 12 := by omega
  have hMi : (M : Int) = (12 * y + ((m : Int) - 1) + n) % 12 + 1 := by omega
  have key : (if decide (monthOf us + n % 12 > 12) = true then (yearOf us + n / 12 + 1, monthOf us + n % 12 - 12)
      else if decide (monthOf us + n % 12 < 1) = true then (yearOf us + n / 12 - 1, monthOf us + n % 12 + 12)
      else (yearOf us + n / 12, monthOf us + n % 12)) = (Y, (M : Int)) := by
    rw [hy, hm]
    by_cases h : (m : Int) + n % 12 > 12
    · simp only [h, decide_true, if_true]; congr 1 <;> omega
    · have h' : ¬ ((m : Int) + n % 12 < 1) := by omega
      simp only [h, h', decide_false, if_false, Bool.false_eq_true]; congr 1 <;> omega
  have hlen := edate_month_table Y M hM1.1 hM1.2
  have hr := daysInMonth_range Y M hM1.1 hM1.2
  simp only [edateCore, eC, eK, edateInts_pinned, edateCompares_pinned, List.getD_cons_zero, List.getD_cons_succ,
    cmpI_Gt, cmpI_Lt, Bool.false_eq_true, if_false, key, hlen, hd]
  by_cases hr1 : 1900 ≤ Y ∧ Y ≤ 9999
  · have c1 : ¬ (Y > 9999) := by omega
    have c2 : ¬ (Y < 1900) := by omega
    have hv' : validYMD Y M (min d (daysInMonth Y M)) = true := by
      rw [validYMD_iff]; refine ⟨by omega, by omega, hM1.1, hM1.2, by omega, by omega⟩
    have mk := mkDateTime?_valid Y M (min d (daysInMonth Y M)) 0 0 0 hv' (by omega) (by omega) (by omega)
    simp only [c1, c2, decide_false, Bool.or_self, Bool.false_eq_true, if_false, mk, hr1, and_self, if_true]
    simp [todUs]
  · have c : (decide (Y > 9999) || decide (Y < 1900)) = true := by
      simp only [Bool.or_eq_true, decide_eq_true_eq]; omega
    simp only [c, if_true, hr1, if_false]

theorem datedifInts_pinned : Generated.datedifInts =
    [0, 1, 0, 12, 1, 0, 1, 30, 4, 6, 9, 11, 31, 2, 29, 28, 12, 1, 12, 1] := by decide

theorem datedifCompares_pinned : Generated.datedifCompares =
    ["NotEq", "Eq", "Lt", "Eq", "Lt", "Eq", "Lt", "Eq", "Lt", "Eq", "Eq", "GtE", "In", "NotEq", "Eq", "Lt", "Eq", "Gt"] := by
  decide

theorem datedifStrs_pinned : Generated.datedifStrs = ["y", "m", "d", "md", "ym", "yd"] := by decide

theorem fS_vals : fS 0 = ['y'] ∧ fS 1 = ['m'] ∧ fS 2 = ['d'] ∧ fS 3 = ['m', 'd'] ∧ fS 4 = ['y', 'm'] ∧
    fS 5 = ['y', 'd'] := by decide

theorem DATEDIF_dates (a b : Int) (u : List Char) :
    DATEDIF [.date a, .date b, .str u] = datedifCore a b (asciiLower u) := rfl

theorem datedifCore_eq (a : Int) (u : List Char) : datedifCore a a u = .ok (vInt 0) := by
  simp [datedifCore, fK, fC, datedifCompares_pinned, datedifInts_pinned, cmpI_Eq]

theorem datedifCore_gt (a b : Int) (u : List Char) (h : b < a) : datedifCore a b u = .ok (.err .num) := by
  have h1 : ¬ a = b := by omega
  have h2 : ¬ a < b := by omega
  simp [datedifCore, fK, datedifCompares_pinned, cmpI_Eq, cmpI_Lt, h1, h2]

theorem datedifCore_m (a b : Int) (h : a < b) :
    datedifCore a b ['m'] = .ok (vInt ((yearOf b - yearOf a) * 12 + monthOf b - monthOf a -
      (if dayOf b < dayOf a then 1 else 0))) := by
  obtain ⟨s0, s1, s2, s3, s4, s5⟩ := fS_vals
  have h1 : ¬ a = b := by omega
  simp [datedifCore, fK, fC, datedifCompares_pinned, datedifInts_pinned, cmpI_Eq, cmpI_Lt, h1, h, s0, s1]

theorem datedifCore_y (a b : Int) (h : a < b) :
    datedifCore a b ['y'] = .ok (vInt (yearOf b - yearOf a -
      (if monthOf b < monthOf a ∨ (monthOf b = monthOf a ∧ dayOf b < dayOf a) then 1 else 0))) := by
  obtain ⟨s0, s1, s2, s3, s4, s5⟩ := fS_vals
  have h1 : ¬ a = b := by omega
  simp [datedifCore, fK, fC, datedifCompares_pinned, datedifInts_pinned, cmpI_Eq, cmpI_Lt, h1, h, s0]

theorem datedifCore_ym (a b : Int) (h : a < b) :
    datedifCore a b ['y', 'm'] = .ok (vInt (((yearOf b - yearOf a) * 12 + monthOf b - monthOf a -
      (if dayOf b < dayOf a then 1 else 0)) % 12)) := by
  obtain ⟨s0, s1, s2, s3, s4, s5⟩ := fS_vals
  have h1 : ¬ a = b := by omega
  simp only [datedifCore, fK, fC, datedifCompares_pinned, datedifInts_pinned, cmpI_Eq, cmpI_Lt, h1, h, s0, s1, s2, s3, s4,
    List.getD_cons_zero, List.getD_cons_succ, decide_false, decide_true, Bool.false_eq_true, if_false, if_true]
  simp
  split <;> simp

theorem datedifCore_d (a b : Int) (h : a < b) :
    datedifCore a b ['d'] = .ok (vInt (numTrunc (numSub (Dates.serialize b) (Dates.serialize a)))) := by
  obtain ⟨s0, s1, s2, s3, s4, s5⟩ := fS_vals
  have h1 : ¬ a = b := by omega
  simp [datedifCore, fK, datedifCompares_pinned, cmpI_Eq, cmpI_Lt, h1, h, s0, s1, s2]

theorem weekdayInts_pinned : Generated.weekdayInts = [1, 3, 2, 1, 1, 6, 1, 2] := by decide

theorem WEEKDAY_date (us : Int) (t : Value) :
    WEEKDAY [.date us, t] =
      (if eqInt t 3 then .ok (vInt (weekday (ordinalOf us)))
       else if eqInt t 2 then .ok (vInt (weekday (ordinalOf us) + 1))
       else if eqInt t 1 then (if weekday (ordinalOf us) = 6 then .ok (vInt 1) else .ok (vInt (weekday (ordinalOf us) + 2)))
       else .ok (.err .num)) := by
  simp only [WEEKDAY, weekdayCore, pdOf, parseDate, wC, weekdayInts_pinned, List.getD_cons_zero, List.getD_cons_succ]

theorem WEEKDAY_default (us : Int) : WEEKDAY [.date us] = WEEKDAY [.date us, vInt 1] := by
  simp only [WEEKDAY, wC, weekdayInts_pinned, List.getD_cons_zero]

theorem eqInt_int (t k : Int) : eqInt (vInt t) k = decide (t = k) := by
  simp [eqInt, vInt, pyNumeric?, Num.toRat]

theorem pdOf_text (s : List Char) (us : Int) (hnum : toNumberText s = .text) (hiso : isoDate? s = some us) :
    pdOf (.str s) = .date us := by
  simp only [pdOf, parseDate, hnum, hiso]

theorem year_ge_1900 (n : Int) (h : 693596 ≤ n) : 1900 ≤ (ymdOfOrdinal n).1 := by
  obtain ⟨hv, he⟩ := Calendar.ordinal_of_ymd_of_ordinal n
  have b := (Calendar.ordinal_bounds hv).2
  rw [he] at b
  by_cases h' : 1900 ≤ (ymdOfOrdinal n).1
  · exact h'
  · have mm := Calendar.daysBeforeYear_mono ((ymdOfOrdinal n).1 + 1) 1900 (by omega)
    have : daysBeforeYear 1900 = 693595 := by decide
    omega

theorem usPerDay_pos : (0 : Int) < usPerDay := by decide

/-- midnight of a date from 1 March 1900 on is `k ≥ 59` whole days after 1900-01-01 -/
theorem dateUs_days (y : Int) (m : Nat) (d : Int) :
    dateUs y m d = (ordinalOfYMD y m d - ordinalOfYMD 1900 1 1) * 86400000000 := by
  unfold dateUs; rw [usPerDay_eq]; rfl


/-! ### ISO-8601 text built from arbitrary digit characters -/


def dval (c : Char) : Nat := c.toNat - 48

theorem ordOf_date1900 : Dates.ordOf Generated.date1900 = epochOrd := by decide

theorem isoDate?_date (y1 y2 y3 y4 m1 m2 d1 d2 : Char)
    (h : PyNum.isDigit y1 = true ∧ PyNum.isDigit y2 = true ∧ PyNum.isDigit y3 = true ∧ PyNum.isDigit y4 = true ∧
      PyNum.isDigit m1 = true ∧ PyNum.isDigit m2 = true ∧ PyNum.isDigit d1 = true ∧ PyNum.isDigit d2 = true) :
    isoDate? [y1, y2, y3, y4, '-', m1, m2, '-', d1, d2] =
      (if validYMD ((((dval y1 * 10 + dval y2) * 10 + dval y3) * 10 + dval y4 : Nat) : Int) (dval m1 * 10 + dval m2)
          ((dval d1 * 10 + dval d2 : Nat) : Int) = true then
        some (dateUs ((((dval y1 * 10 + dval y2) * 10 + dval y3) * 10 + dval y4 : Nat) : Int) (dval m1 * 10 + dval m2)
          ((dval d1 * 10 + dval d2 : Nat) : Int))
      else none) := by
  obtain ⟨a1, a2, a3, a4, a5, a6, a7, a8⟩ := h
  simp [isoDate?, a1, a2, a3, a4, a5, a6, a7, a8, ordOf_date1900, dateUs, dval, usPerDay]




theorem isoDate?_datetime (sep y1 y2 y3 y4 m1 m2 d1 d2 h1 h2 i1 i2 s1 s2 : Char) (hsep : sep = 'T' ∨ sep = ' ')
    (h : PyNum.isDigit y1 = true ∧ PyNum.isDigit y2 = true ∧ PyNum.isDigit y3 = true ∧ PyNum.isDigit y4 = true ∧
      PyNum.isDigit m1 = true ∧ PyNum.isDigit m2 = true ∧ PyNum.isDigit d1 = true ∧ PyNum.isDigit d2 = true ∧
      PyNum.isDigit h1 = true ∧ PyNum.isDigit h2 = true ∧ PyNum.isDigit i1 = true ∧ PyNum.isDigit i2 = true ∧
      PyNum.isDigit s1 = true ∧ PyNum.isDigit s2 = true) :
    isoDate? [y1, y2, y3, y4, '-', m1, m2, '-', d1, d2, sep, h1, h2, ':', i1, i2, ':', s1, s2] =
      (if validYMD ((((dval y1 * 10 + dval y2) * 10 + dval y3) * 10 + dval y4 : Nat) : Int) (dval m1 * 10 + dval m2)
          ((dval d1 * 10 + dval d2 : Nat) : Int) = true ∧ dval h1 * 10 + dval h2 < 24 ∧ dval i1 * 10 + dval i2 < 60 ∧
          dval s1 * 10 + dval s2 < 60 then
        some (dateUs ((((dval y1 * 10 + dval y2) * 10 + dval y3) * 10 + dval y4 : Nat) : Int) (dval m1 * 10 + dval m2)
          ((dval d1 * 10 + dval d2 : Nat) : Int) +
          todUs ((dval h1 * 10 + dval h2 : Nat) : Int) ((dval i1 * 10 + dval i2 : Nat) : Int) ((dval s1 * 10 + dval s2 : Nat) : Int))
      else none) := by
  obtain ⟨a1, a2, a3, a4, a5, a6, a7, a8, a9, a10, a11, a12, a13, a14⟩ := h
  rcases hsep with rfl | rfl <;>
  simp [isoDate?, a1, a2, a3, a4, a5, a6, a7, a8, a9, a10, a11, a12, a13, a14, ordOf_date1900, dateUs, dval, usPerDay, todUs]
  all_goals (split_ifs <;> simp_all)



theorem digit_facts (c : Char) (h : PyNum.isDigit c = true) :
    PyNum.isPySpace c = false ∧ c ≠ '-' ∧ c ≠ '+' ∧ c ≠ '_' ∧ c ≠ '.' := by
  simp only [PyNum.isDigit, Bool.and_eq_true, decide_eq_true_eq] at h
  have e : ('0'.toNat = 48) ∧ ('9'.toNat = 57) := by decide
  rw [e.1, e.2] at h
  refine ⟨?_, ?_, ?_, ?_, ?_⟩
  · simp only [PyNum.isPySpace, Bool.or_eq_false_iff, Bool.and_eq_false_iff, decide_eq_false_iff_not, beq_eq_false_iff_ne]
    omega
  all_goals (intro hc; subst hc; revert h; decide)

/-- text that starts with four digits and a `-` and is already stripped is not a number for
    `to_number` (neither `int()` nor `float()` accepts it) -/
theorem toNumberText_of_date_prefix (y1 y2 y3 y4 : Char) (rest : List Char)
    (h : PyNum.isDigit y1 = true ∧ PyNum.isDigit y2 = true ∧ PyNum.isDigit y3 = true ∧ PyNum.isDigit y4 = true)
    (hs : PyNum.strip (y1 :: y2 :: y3 :: y4 :: '-' :: rest) = y1 :: y2 :: y3 :: y4 :: '-' :: rest) :
    toNumberText (y1 :: y2 :: y3 :: y4 :: '-' :: rest) = .text := by
  obtain ⟨a1, a2, a3, a4⟩ := h
  obtain ⟨_, n1, n2, _, _⟩ := digit_facts y1 a1
  have hm : PyNum.isDigit '-' = false := by decide
  have hi : PyNum.pyInt? (y1 :: y2 :: y3 :: y4 :: '-' :: rest) = none := by
    unfold PyNum.pyInt?
    rw [hs]
    split
    · rename_i heq; simp only [List.cons.injEq] at heq; exact absurd heq.1 n1
    · rename_i heq; simp only [List.cons.injEq] at heq; exact absurd heq.1 n2
    · simp [PyNum.decNat?, PyNum.digitsUnderscore, a1, a2, a3, a4, hm]
  have hf : pyFloat? (y1 :: y2 :: y3 :: y4 :: '-' :: rest) = none := by
    unfold pyFloat?
    rw [hs]
    simp only []
    split
    · rename_i heq
      split at heq
      · rename_i h'; simp only [List.cons.injEq] at h'; exact absurd h'.1 n1
      · rename_i h'; simp only [List.cons.injEq] at h'; exact absurd h'.1 n2
      · simp [List.dropWhile, a1, a2, a3, a4, hm] at heq
    · rename_i heq
      split at heq
      · rename_i h'; simp only [List.cons.injEq] at h'; exact absurd h'.1 n1
      · rename_i h'; simp only [List.cons.injEq] at h'; exact absurd h'.1 n2
      · simp [List.dropWhile, a1, a2, a3, a4, hm] at heq
    · rfl
  simp only [toNumberText, hi, hf]




theorem strip_id (a b : Char) (l : List Char) (ha : PyNum.isPySpace a = false) (hb : PyNum.isPySpace b = false) :
    PyNum.strip (a :: (l ++ [b])) = a :: (l ++ [b]) := by
  have h1 : PyNum.stripLeft (a :: (l ++ [b])) = a :: (l ++ [b]) := by
    simp [PyNum.stripLeft, List.dropWhile, ha]
  have h2 : (a :: (l ++ [b])).reverse = b :: (l.reverse ++ [a]) := by simp
  have h3 : PyNum.stripLeft (b :: (l.reverse ++ [a])) = b :: (l.reverse ++ [a]) := by
    simp [PyNum.stripLeft, List.dropWhile, hb]
  unfold PyNum.strip
  rw [h1, h2, h3, ← h2, List.reverse_reverse]

theorem toNumberText_isoDate (y1 y2 y3 y4 m1 m2 d1 d2 : Char)
    (h : PyNum.isDigit y1 = true ∧ PyNum.isDigit y2 = true ∧ PyNum.isDigit y3 = true ∧ PyNum.isDigit y4 = true ∧
      PyNum.isDigit d2 = true) :
    toNumberText [y1, y2, y3, y4, '-', m1, m2, '-', d1, d2] = .text := by
  obtain ⟨a1, a2, a3, a4, a5⟩ := h
  apply toNumberText_of_date_prefix y1 y2 y3 y4 _ ⟨a1, a2, a3, a4⟩
  exact strip_id y1 d2 [y2, y3, y4, '-', m1, m2, '-', d1] (digit_facts y1 a1).1 (digit_facts d2 a5).1

theorem toNumberText_isoDateTime (sep y1 y2 y3 y4 m1 m2 d1 d2 h1 h2 i1 i2 s1 s2 : Char)
    (h : PyNum.isDigit y1 = true ∧ PyNum.isDigit y2 = true ∧ PyNum.isDigit y3 = true ∧ PyNum.isDigit y4 = true ∧
      PyNum.isDigit s2 = true) :
    toNumberText [y1, y2, y3, y4, '-', m1, m2, '-', d1, d2, sep, h1, h2, ':', i1, i2, ':', s1, s2] = .text := by
  obtain ⟨a1, a2, a3, a4, a5⟩ := h
  apply toNumberText_of_date_prefix y1 y2 y3 y4 _ ⟨a1, a2, a3, a4⟩
  exact strip_id y1 s2 [y2, y3, y4, '-', m1, m2, '-', d1, d2, sep, h1, h2, ':', i1, i2, ':', s1]
    (digit_facts y1 a1).1 (digit_facts s2 a5).1


theorem isoDate?_datetime_hm (sep y1 y2 y3 y4 m1 m2 d1 d2 h1 h2 i1 i2 : Char) (hsep : sep = 'T' ∨ sep = ' ')
    (h : PyNum.isDigit y1 = true ∧ PyNum.isDigit y2 = true ∧ PyNum.isDigit y3 = true ∧ PyNum.isDigit y4 = true ∧
      PyNum.isDigit m1 = true ∧ PyNum.isDigit m2 = true ∧ PyNum.isDigit d1 = true ∧ PyNum.isDigit d2 = true ∧
      PyNum.isDigit h1 = true ∧ PyNum.isDigit h2 = true ∧ PyNum.isDigit i1 = true ∧ PyNum.isDigit i2 = true) :
    isoDate? [y1, y2, y3, y4, '-', m1, m2, '-', d1, d2, sep, h1, h2, ':', i1, i2] =
      (if validYMD ((((dval y1 * 10 + dval y2) * 10 + dval y3) * 10 + dval y4 : Nat) : Int) (dval m1 * 10 + dval m2)
          ((dval d1 * 10 + dval d2 : Nat) : Int) = true ∧ dval h1 * 10 + dval h2 < 24 ∧ dval i1 * 10 + dval i2 < 60 then
        some (dateUs ((((dval y1 * 10 + dval y2) * 10 + dval y3) * 10 + dval y4 : Nat) : Int) (dval m1 * 10 + dval m2)
          ((dval d1 * 10 + dval d2 : Nat) : Int) +
          todUs ((dval h1 * 10 + dval h2 : Nat) : Int) ((dval i1 * 10 + dval i2 : Nat) : Int) 0)
      else none) := by
  obtain ⟨a1, a2, a3, a4, a5, a6, a7, a8, a9, a10, a11, a12⟩ := h
  rcases hsep with rfl | rfl <;>
  simp [isoDate?, a1, a2, a3, a4, a5, a6, a7, a8, a9, a10, a11, a12, ordOf_date1900, dateUs, dval, usPerDay, todUs]
  all_goals (split_ifs <;> simp_all)

theorem toNumberText_isoDateTime_hm (sep y1 y2 y3 y4 m1 m2 d1 d2 h1 h2 i1 i2 : Char)
    (h : PyNum.isDigit y1 = true ∧ PyNum.isDigit y2 = true ∧ PyNum.isDigit y3 = true ∧ PyNum.isDigit y4 = true ∧
      PyNum.isDigit i2 = true) :
    toNumberText [y1, y2, y3, y4, '-', m1, m2, '-', d1, d2, sep, h1, h2, ':', i1, i2] = .text := by
  obtain ⟨a1, a2, a3, a4, a5⟩ := h
  apply toNumberText_of_date_prefix y1 y2 y3 y4 _ ⟨a1, a2, a3, a4⟩
  exact strip_id y1 i2 [y2, y3, y4, '-', m1, m2, '-', d1, d2, sep, h1, h2, ':', i1]
    (digit_facts y1 a1).1 (digit_facts i2 a5).1

end HotXL.Fn.DateTime
