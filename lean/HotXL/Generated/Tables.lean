-- GENERATED: all generated tables
import HotXL.Generated.Cell
import HotXL.Generated.Grammar
import HotXL.Generated.Lexer
import HotXL.Generated.Operators
import HotXL.Generated.Registry
