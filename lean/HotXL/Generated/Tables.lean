-- GENERATED: all generated tables
import HotXL.Generated.Cell
import HotXL.Generated.Criteria
import HotXL.Generated.DateTime
import HotXL.Generated.Grammar
import HotXL.Generated.Lexer
import HotXL.Generated.Operators
import HotXL.Generated.Power
import HotXL.Generated.Registry
import HotXL.Generated.Round
