import HotXL.Model.Cell
import HotXL.Driver.Util
namespace HotXL.Driver.Cell
open HotXL HotXL.Cell HotXL.Driver

def pl (p : ParsedLabel) : String := s!"({p.index} {sStr p.label} {sBool p.isAbsolute})"

def handle (op : String) (args : List Sexp) : Option String :=
  match op, args with
  | "cell.col2idx", [a] => do let s ← strArg a; pure (toString (colLabelToIndex s))
  | "cell.idx2col", [a] => do let i ← intArg a; pure (sStr (colIndexToLabel i))
  | "cell.row2idx", [a] => do let s ← strArg a; pure (toString (rowLabelToIndex s))
  | "cell.idx2row", [a] => do let i ← intArg a; pure (sStr (rowIndexToLabel i))
  | "cell.extract", [a] => do
      let s ← strArg a
      match extractLabel s with
      | none => pure "none"
      | some (r, c) => pure s!"({pl r} {pl c} {sStr (toLabel r c)})"
  | _, _ => none
end HotXL.Driver.Cell
