import HotXL.Model.Emitter
import HotXL.Driver.Util
namespace HotXL.Driver.Emitter
open HotXL HotXL.Emitter HotXL.Driver

def opOf : Sexp → Option Op
  | .list [.atom "on", n, cb, ctx] => do pure (.on (← natArg n) (← natArg cb) (← natArg ctx))
  | .list [.atom "once", n, cb, ctx] => do pure (.once (← natArg n) (← natArg cb) (← natArg ctx))
  | .list [.atom "off", n] => do pure (.off (← natArg n))
  | .list [.atom "offcb", n, cb] => do pure (.offCb (← natArg n) (← natArg cb))
  | .list [.atom "emit", n, a] => do pure (.emit (← natArg n) (← natArg a))
  | _ => none

def opsOf : Sexp → Option (List Op)
  | .list xs => xs.mapM opOf
  | _ => none

def showCall (c : Call) : String :=
  s!"({c.cb} {c.arg} {c.ctx} {c.name} {c.depth})"

def probeArg : Nat := 999

/-- `emitter.run <fuel> <nNames> (body0 body1 …) (ops…)`: the call log of the history,
    then the call log of two probe emits per name (callback bodies off) that observe
    the final subscriptions through the public API only -/
def handle (op : String) (args : List Sexp) : Option String :=
  match op, args with
  | "emitter.run", [f, nn, .list bodies, ops] => do
      let fuel ← natArg f
      let nNames ← natArg nn
      let bs ← bodies.mapM opsOf
      let sc : Scripts := fun cb => bs.getD cb []
      let os ← opsOf ops
      let (σ, log) := run fuel sc os
      let probes := (List.range nNames).flatMap (fun n => [Op.emit n probeArg, Op.emit n probeArg])
      let (_, plog) := runOps 0 sc fuel σ probes
      let logS := " ".intercalate (log.map showCall)
      let plogS := " ".intercalate (plog.map showCall)
      pure s!"(({logS}) ({plogS}))"
  | _, _ => none
end HotXL.Driver.Emitter
