import HotXL.Model.Interleave
import HotXL.Driver.Util
/-
  Driver op for the interleaving model.

    interleave.run <discipline> ((<enc formula> <limit>) …) (<activation id> …)

  * activation `i` evaluates the i-th formula; its input is `Lexer.tokenize` of the text (the
    model of ply's lexer on hotxlfp's rules; a trailing `LEXERROR` pseudo-token = `t_error` raises);
  * `<limit>` = `-` or a number `k`: the activation's machine halts (an exception leaves `parse`)
    right after its k-th `token()` call — the machine state is the number of fetches;
  * `<discipline>` = `owned` (lexRef = id), `shared` (lexRef = 0) or `(perparser p₀ p₁ …)`
    (activation i runs on parser pᵢ, lexRef = parserOf);
  * the schedule is performed by `Interleave.run` from `Sys.initial` with empty lexers.

    interleave.batch (<discipline> (…) (…)) …      -- several runs in one request

  Answer: `((<phase> <fetches> (<tok> …)) …)`, one entry per activation, `<tok>` = `(KIND <enc text>)`
  or `eof`: the results of its `token()` calls in order.
-/
namespace HotXL.Driver.Interleave
open HotXL HotXL.Interleave HotXL.Lexer HotXL.Driver

def showTok : Option Token → String
  | some t => s!"({t.kind.name} {sStr t.text})"
  | none => "eof"

def showPhase : Phase → String
  | .fresh => "fresh" | .running => "running" | .finished => "finished"

def limitArg : Sexp → Option (Option Nat)
  | .atom "-" => some none
  | .atom s => s.toNat?.map some
  | _ => none

def actArg : Sexp → Option (List Char × Option Nat)
  | .list [f, l] => do pure (← strArg f, ← limitArg l)
  | _ => none

/-- the limit is per activation, `Config.halted` is not: fold it into the machine state
    (state = number of fetches, and whether the limit is reached) -/
def mkConfig (acts : List (List Char × Option Nat)) (lexRef parserOf : ActId → Nat) : Config Token (Nat × Bool) :=
  { input := fun a => match acts[a]? with | some (f, _) => tokenize f | none => [],
    lexRef := lexRef, parserOf := parserOf, init := (0, false),
    δ := fun a s _ =>
      let n := s.1 + 1
      let lim := match acts[a]? with | some (_, some k) => decide (k ≤ n) | _ => false
      (n, lim),
    halted := fun s => s.2 }

def runOne (disc : Sexp) (as sch : List Sexp) : Option String := do
  let acts ← as.mapM actArg
  let sched ← sch.mapM natArg
  let (lexRef, parserOf) ← (match disc with
    | .atom "owned" => some ((fun a => a), (fun a => a))
    | .atom "shared" => some ((fun _ => 0), (fun a => a))
    | .list (.atom "perparser" :: ps) => do
        let ps ← ps.mapM natArg
        let f : ActId → Nat := fun a => ps.getD a a
        pure (f, f)
    | _ => none : Option ((ActId → Nat) × (ActId → Nat)))
  let c := mkConfig acts lexRef parserOf
  let σ := run c (Sys.initial c (fun _ => { data := [], pos := 0 })) sched
  let one (a : Nat) : String :=
    let A := σ.act a
    s!"({showPhase A.phase} {A.st.1} ({" ".intercalate (A.seen.map showTok)}))"
  pure ("(" ++ " ".intercalate ((List.range acts.length).map one) ++ ")")

def handle (op : String) (args : List Sexp) : Option String :=
  match op, args with
  | "interleave.run", [disc, .list as, .list sch] => runOne disc as sch
  | "interleave.batch", runs => do
      -- `interleave.batch (<discipline> (<act>…) (<id>…)) …` → `(<answer> …)`
      let rs ← runs.mapM (fun r => match r with
        | .list [disc, .list as, .list sch] => runOne disc as sch
        | _ => none)
      pure ("(" ++ " ".intercalate rs ++ ")")
  | _, _ => none

end HotXL.Driver.Interleave
