/-
  Driver ops of the real-valued math family (C16):
    `math NAME value…`   the Float instance of the generic model of Model/Fn/Math.lean and
                         Model/Fn/Fin.lean applied to values:
                         `(bits n)` = the IEEE-754 double with bit pattern `n` is returned,
                         `(e tag)`  = the call's value is the error `tag`, `(o unmodelled-builtin)`.
    `math.powint a b`    POWER on two ints with non-negative exponent: `(i n)`, `(e tag)` or `none`
    `math.float value`   `float()` of a number value: `(bits n)`, `(e error)` = OverflowError
    `evalf <formula> <env>`  `eval` with the real-valued builtins present: every registered name that has no exact model
                         but a generic one (Model/Fn/Math.lean, Model/Fn/Fin.lean) is supplied to the evaluator as a
                         host function computed by the Float instance (libm) - the evaluator model itself is the proved one,
                         unchanged; a finite double travels on as the exact rational it denotes, a non-finite one as
                         `(o float-nonfinite)`; POWER on two ints with a non-negative exponent is the exact int.
-/
import HotXL.Model.Fn.Math
import HotXL.Model.Fn.Fin
import HotXL.Driver.Util
import HotXL.Driver.Eval
namespace HotXL.Driver.Math
open HotXL HotXL.Fn HotXL.Driver

def floatTable : List (String × (List Value → Except Err Float)) :=
  Fn.Math.fnTable Fn.Math.floatOps ++ Fn.Fin.fnTable Fn.Math.floatOps

def showF (r : Except Err Float) : String :=
  match r with
  | .ok x => s!"(bits {x.toBits})"
  | .error e => s!"(e {e.tag})"

/-- the exact rational a finite double denotes -/
def ratOfFloat (x : Float) : Option Rat :=
  let bits : Nat := x.toBits.toNat
  let s : Nat := bits / 2 ^ 63
  let e : Nat := (bits / 2 ^ 52) % 2048
  let m : Nat := bits % 2 ^ 52
  if e = 2047 then none
  else
    let mant : Nat := if e = 0 then m else 2 ^ 52 + m
    let ex : Int := if e = 0 then -1074 else (e : Int) - 1075
    let q : Rat := if ex ≥ 0 then (((mant * 2 ^ ex.toNat : Nat) : Int) : Rat) else mkRat (mant : Int) (2 ^ (-ex).toNat)
    some (if s = 1 then -q else q)

/-- a registered real-valued builtin without an exact model, as a host function over the Float instance -/
def floatHost (name : String) : Option Eval.HostFn :=
  if (Builtins.model? name).isSome then none
  else
    match floatTable.find? (fun p => p.1 = name) with
    | none => none
    | some p => some (fun args =>
        let viaFloat : Except Eval.Exn Value :=
          match p.2 args with
          | .ok x =>
            match ratOfFloat x with
            | some q => .ok (.num (.flt q))
            | none => .ok (.other "float-nonfinite")
          | .error e => .error (.xl e)
        if name = "POWER" then
          match args with
          | [a, b] =>
            match Fn.Math.powerIntExact a b with
            | some (.ok i) => .ok (.num (.int i))
            | some (.error e) => .error (.xl e)
            | none => viaFloat
          | _ => viaFloat
        else viaFloat)

def withFloatBuiltins (env : Eval.Env) : Eval.Env :=
  { env with custom := fun n =>
      match env.custom n with
      | some f => some f
      | none => floatHost (String.ofList n) }

def handle (op : String) (args : List Sexp) : Option String :=
  match op, args with
  | "evalf", [a, e] => do
      let s ← strArg a
      let env ← Driver.Eval.envOf e
      let (r, log) := Eval.parseTop (withFloatBuiltins env) s
      pure ("(" ++ Driver.Eval.showRecord r ++ " (" ++ " ".intercalate (log.map Driver.Eval.showEvent) ++ "))")
  | "math", (n :: vs) => do
      let name ← strArg n
      let args ← vs.mapM Value.ofSexp
      match floatTable.find? (fun p => p.1 = String.ofList name) with
      | some p => pure (showF (p.2 args))
      | none => pure "(o unmodelled-builtin)"
  | "math.powint", [a, b] => do
      let a ← Value.ofSexp a
      let b ← Value.ofSexp b
      match Fn.Math.powerIntExact a b with
      | some (.ok i) => pure s!"(i {i})"
      | some (.error e) => pure s!"(e {e.tag})"
      | none => pure "none"
  | "math.float", [a] => do
      match (← Value.ofSexp a) with
      | .num n => pure (showF (Fn.Math.lift (Fn.Math.ofNum Fn.Math.floatOps n)))
      | _ => none
  | _, _ => none
end HotXL.Driver.Math
