/-
  Driver ops of the real-valued math family (C16):
    `math NAME value…`   the Float instance of the generic model of Model/Fn/Math.lean and
                         Model/Fn/Fin.lean applied to values:
                         `(bits n)` = the IEEE-754 double with bit pattern `n` is returned,
                         `(e tag)`  = the call's value is the error `tag`, `(o unmodelled-builtin)`.
    `math.powint a b`    POWER on two ints with non-negative exponent: `(i n)`, `(e tag)` or `none`
    `math.float value`   `float()` of a number value: `(bits n)`, `(e error)` = OverflowError
-/
import HotXL.Model.Fn.Math
import HotXL.Model.Fn.Fin
import HotXL.Driver.Util
namespace HotXL.Driver.Math
open HotXL HotXL.Fn HotXL.Driver

def floatTable : List (String × (List Value → Except Err Float)) :=
  Fn.Math.fnTable Fn.Math.floatOps ++ Fn.Fin.fnTable Fn.Math.floatOps

def showF (r : Except Err Float) : String :=
  match r with
  | .ok x => s!"(bits {x.toBits})"
  | .error e => s!"(e {e.tag})"

def handle (op : String) (args : List Sexp) : Option String :=
  match op, args with
  | "math", (n :: vs) => do
      let name ← strArg n
      let args ← vs.mapM Value.ofSexp
      match floatTable.find? (fun p => p.1 = String.ofList name) with
      | some p => pure (showF (p.2 args))
      | none => pure "(o unmodelled-builtin)"
  | "math.powint", [a, b] => do
      let a ← Value.ofSexp a
      let b ← Value.ofSexp b
      match Fn.Math.powerIntExact a b with
      | some (.ok i) => pure s!"(i {i})"
      | some (.error e) => pure s!"(e {e.tag})"
      | none => pure "none"
  | "math.float", [a] => do
      match (← Value.ofSexp a) with
      | .num n => pure (showF (Fn.Math.lift (Fn.Math.ofNum Fn.Math.floatOps n)))
      | _ => none
  | _, _ => none
end HotXL.Driver.Math
