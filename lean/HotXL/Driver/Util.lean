import HotXL.Model.Basic
namespace HotXL.Driver
open HotXL

def strArg : Sexp → Option (List Char)
  | .atom s => some (decodeChars s)
  | _ => none
def intArg : Sexp → Option Int
  | .atom s => s.toInt?
  | _ => none
def natArg : Sexp → Option Nat
  | .atom s => s.toNat?
  | _ => none
def sStr (cs : List Char) : String := encodeChars cs
def sBool (b : Bool) : String := if b then "1" else "0"
end HotXL.Driver
