import HotXL.Model.Eval
import HotXL.Driver.Util
namespace HotXL.Driver.Eval
open HotXL HotXL.Lexer HotXL.Syntax HotXL.Ops HotXL.Eval HotXL.Driver

def showTok (t : Token) : String := s!"({t.kind.name} {sStr t.text})"

def showNumLit : NumLit → String
  | .int a => s!"(num int {sStr a} _)"
  | .dec a b => s!"(num dec {sStr a} {sStr b})"
  | .dotDec b => s!"(num dot _ {sStr b})"
  | .pow a b => s!"(num pow {sStr a} {sStr b})"
  | .pct a => s!"(num pct {sStr a} _)"

def kindName : SeqKind → String
  | .empty => "empty" | .flat => "flat" | .rows => "rows"

mutual
def showExpr : Expr → String
  | .num l => showNumLit l
  | .str s => s!"(str {sStr s})"
  | .errLit t => s!"(errlit {sStr t})"
  | .neg e => s!"(neg {showExpr e})"
  | .bin op l r => s!"(bin {sStr op.text} {showExpr l} {showExpr r})"
  | .call name k a b => s!"(call {sStr name} {kindName k} ({showList a}) ({showList b}))"
  | .arr k a b => s!"(arr {kindName k} ({showList a}) ({showList b}))"
  | .var names => "(var " ++ " ".intercalate (names.map sStr) ++ ")"
  | .cell l => s!"(cell {sStr l})"
  | .range a b => s!"(range {sStr a} {sStr b})"
  | .blankSlot => "blank"
def showList : List Expr → String
  | [] => ""
  | [e] => showExpr e
  | e :: es => showExpr e ++ " " ++ showList es
end

def showVal (v : Value) : String := (Value.toSexp v).toStr

def showErrOpt : Option Err → String
  | none => "none"
  | some e => e.tag

def showRecord (r : Record) : String :=
  let res := match r.result with | none => "none" | some v => showVal v
  s!"(rec {res} {showErrOpt r.error})"

def showPL (p : Cell.ParsedLabel) : String := s!"({p.index} {sStr p.label} {sBool p.isAbsolute})"

def showEvent : Event → String
  | .cell l r c => s!"(cell {sStr l} {showPL r} {showPL c})"
  | .range sl sr sc el er ec => s!"(range {sStr sl} {showPL sr} {showPL sc} {sStr el} {showPL er} {showPL ec})"
  | .var n => s!"(var {sStr n})"
  | .fn n args => s!"(fn {sStr n} (" ++ " ".intercalate (args.map showVal) ++ "))"

/-- host function descriptions: `(const v)`, `(raisexl tag)`, `(raisepy msg)`, `(args)`, `(first)` -/
def hostFnOf : Sexp → Option HostFn
  | .list [.atom "const", v] => do let x ← Value.ofSexp v; pure (fun _ => .ok x)
  | .list [.atom "raisexl", .atom t] => do let e ← Err.ofTag t; pure (fun _ => .error (.xl e))
  | .list [.atom "raisepy", m] => do let s ← strArg m; pure (fun _ => .error (.py (String.ofList s)))
  | .list [.atom "args"] => some (fun a => .ok (.arr a))
  | .list [.atom "first"] => some (fun a => .ok (a.headD .blank))
  | _ => none

def lookupAssoc {α : Type} (l : List (List Char × α)) (k : List Char) : Option α :=
  (l.find? (fun p => p.1 = k)).map (·.2)

/-- `(env (vars (name v)…) (fns (name desc)…) (cells (label v)…) (ranges (l1 l2 v)…))` -/
def envOf : Sexp → Option Env
  | .list [.atom "env", .list (.atom "vars" :: vs), .list (.atom "fns" :: fs),
           .list (.atom "cells" :: cs), .list (.atom "ranges" :: rs)] => do
    let vars ← vs.mapM (fun s => match s with
      | .list [n, v] => do pure ((← strArg n), (← Value.ofSexp v))
      | _ => none)
    let fns ← fs.mapM (fun s => match s with
      | .list [n, d] => do pure ((← strArg n), (← hostFnOf d))
      | _ => none)
    let cells ← cs.mapM (fun s => match s with
      | .list [n, v] => do pure ((← strArg n), (← Value.ofSexp v))
      | _ => none)
    let ranges ← rs.mapM (fun s => match s with
      | .list [a, b, v] => do pure (((← strArg a) ++ [':'] ++ (← strArg b)), (← Value.ofSexp v))
      | _ => none)
    pure { vars := lookupAssoc vars, custom := lookupAssoc fns,
           cellValue := fun l => (lookupAssoc cells l).getD .blank,
           rangeValue := fun a b => (lookupAssoc ranges (a ++ [':'] ++ b)).getD .blank }
  | _ => none

def arithOf : String → Option ArithOp
  | "+" => some .add | "-" => some .sub | "*" => some .mul | "/" => some .div | _ => none
def cmpOf : String → Option CmpOp
  | ">" => some .gt | "<" => some .lt | ">=" => some .ge | "<=" => some .le | "=" => some .eq | "<>" => some .ne | _ => none

def showRes (r : Ops.Res) : String :=
  match r with
  | .ok v => showVal v
  | .error e => s!"(raise {e.tag})"

def handle (op : String) (args : List Sexp) : Option String :=
  match op, args with
  | "lex", [a] => do
      let s ← strArg a
      pure ("(" ++ " ".intercalate ((tokenize s).map showTok) ++ ")")
  | "parse.tree", [a] => do
      let s ← strArg a
      match parseFormula s with
      | .ok e => pure (showExpr e)
      | .error .syntax => pure "!syntax"
      | .error .name => pure "!name"
  | "eval", [a, e] => do
      let s ← strArg a
      let env ← envOf e
      let (r, log) := parseTop env s
      pure ("(" ++ showRecord r ++ " (" ++ " ".intercalate (log.map showEvent) ++ "))")
  | "c04.batch", xs => do
      -- formulas…, then the environment: `((tree record) …)`
      let envS ← xs.getLast?
      let env ← envOf envS
      let fs ← (xs.dropLast).mapM strArg
      let one (s : List Char) : String :=
        let tree := match parseFormula s with
          | .ok e => showExpr e
          | .error .syntax => "!syntax"
          | .error .name => "!name"
        let (r, _) := parseTop env s
        "(" ++ tree ++ " " ++ showRecord r ++ ")"
      pure ("(" ++ " ".intercalate (fs.map one) ++ ")")
  | "fn", (n :: vs) => do
      -- `fn NAME v…`: the model of a registered builtin applied to values
      let name ← strArg n
      let args ← vs.mapM Value.ofSexp
      match Builtins.model? (String.ofList name) with
      | some b => pure (showRes (b args))
      | none => pure "(o unmodelled-builtin)"
  | "setters", (i :: vs) => do
      -- `setters <init> <v>…`: value of a reference after the setter calls `v…` (C10)
      let init ← Value.ofSexp i
      let calls ← vs.mapM Value.ofSexp
      pure (showVal (applySetters init calls))
  | "arith", [.atom o, a, b] => do
      let aop ← arithOf o
      pure (showRes (evalArith 64 aop (← Value.ofSexp a) (← Value.ofSexp b)))
  | "cmp", [.atom o, a, b] => do
      let cop ← cmpOf o
      pure (showRes (evalLogic cop (← Value.ofSexp a) (← Value.ofSexp b)))
  | "amp", [a, b] => do pure (showRes (evalAmp (← Value.ofSexp a) (← Value.ofSexp b)))
  | "neg", [a] => do pure (showRes (evalNeg (← Value.ofSexp a)))
  | "date.serial", [a] => do
      let us ← intArg a
      pure (showVal (.num (Dates.serialize us)))
  | "date.parse", [a] => do
      let v ← Value.ofSexp a
      match v with
      | .num n => pure (match Dates.parseNum (Num.toRat n) with | some us => showVal (.date us) | none => "(e num)")
      | _ => none
  | _, _ => none
end HotXL.Driver.Eval
