/-
  Driver op for the session model (`HotXL.Model.Session`):

    session.run <op>…      ops: (new 0|1) (var pid name value) (fn pid name desc) (cell pid label value)
                                (range pid a b value) (debug pid 0|1) (parse pid formula)
    answer: ((outs o…) (hidden (tb n…) (stderr k) (glex id|none) (p errorok stackdepth clonedata|none)…))
            one `o` per op: `(rec value|none errtag|none)` for a parse, `-` for a registration,
            `(new pid)`, `!` for an unknown parser; `tb` = the nine traceback-chain lengths in the order
            of `Err.all`; `stderr` = number of tracebacks printed; one `p` per parser.
-/
import HotXL.Model.Session
import HotXL.Driver.Eval
namespace HotXL.Driver.Session
open HotXL HotXL.Eval HotXL.Session HotXL.Driver

def boolArg : Sexp → Option Bool
  | .atom "1" => some true
  | .atom "0" => some false
  | _ => none

def opOf : Sexp → Option Op
  | .list [.atom "new", d] => do pure (.newParser (← boolArg d))
  | .list [.atom "var", p, n, v] => do pure (.setVariable (← natArg p) (← strArg n) (← Value.ofSexp v))
  | .list [.atom "fn", p, n, d] => do pure (.setFunction (← natArg p) (← strArg n) (← HotXL.Driver.Eval.hostFnOf d))
  | .list [.atom "cell", p, l, v] => do pure (.setCell (← natArg p) (← strArg l) (← Value.ofSexp v))
  | .list [.atom "range", p, a, b, v] => do pure (.setRange (← natArg p) (← strArg a) (← strArg b) (← Value.ofSexp v))
  | .list [.atom "debug", p, d] => do pure (.setDebug (← natArg p) (← boolArg d))
  | .list [.atom "parse", p, f] => do pure (.parse (← natArg p) (← strArg f))
  | _ => none

def showOut : Out → String
  | .none => "-"
  | .noParser => "!"
  | .created pid => s!"(new {pid})"
  | .record r _ => HotXL.Driver.Eval.showRecord r

def showParser (p : ParserSt) : String :=
  let clone := match p.hidden.lastClone with
    | some { lexdata := some d, .. } => sStr d
    | _ => "none"
  s!"(p {sBool p.hidden.errorok} {p.hidden.lrStacks.length} {clone})"

def showHidden (σ : State) : String :=
  let tb := " ".intercalate (Err.all.map (fun e => toString (σ.glob.tbLen e)))
  let gl := match σ.glob.globalLexer with | some i => toString i | none => "none"
  let ps := " ".intercalate (σ.parsers.map showParser)
  s!"(hidden (tb {tb}) (stderr {σ.glob.stderr.length}) (glex {gl}) {ps})"

def handle (op : String) (args : List Sexp) : Option String :=
  match op with
  | "session.run" => do
      let ops ← args.mapM opOf
      let os := outs ops State.init
      let σ := run ops State.init
      pure ("((outs " ++ " ".intercalate (os.map showOut) ++ ") " ++ showHidden σ ++ ")")
  | _ => none
end HotXL.Driver.Session
