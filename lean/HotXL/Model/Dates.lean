/-
  HotXL.Model.Dates — `serialize_date` / `parse_date` of hotxlfp/formulas/utils.py on
  naive datetimes, measured in MICROSECONDS since `date_1900` (1900-01-01T00:00).
  Serial numbers are exact rationals; the integer constants of the two functions come
  from `HotXL.Generated` (source order) so that an edit of a literal re-checks the proofs.
-/
import HotXL.Model.Basic
import HotXL.Model.Calendar
import HotXL.Generated.Operators

namespace HotXL.Dates
open HotXL

def usPerDay : Int := 86400 * 1000000

/-- ordinal of a generated `[y,m,d,…]` date -/
def ordOf (l : List Nat) : Int :=
  Calendar.ordinalOfYMD (l.getD 0 1) (l.getD 1 1) (l.getD 2 1)

/-- `epoch_seconds(date_1900)` in seconds: (date_1900 - epoch).total_seconds() -/
def epochSeconds1900 : Int := (ordOf Generated.date1900 - ordOf Generated.epochDate) * 86400

def sConst (i : Nat) : Int := Generated.serializeDateConsts.getD i 0
def pConst (i : Nat) : Int := Generated.parseDateConsts.getD i 0

/-- python comparison named by its ast class -/
def cmpBy (name : String) (a b : Rat) : Bool :=
  match name with
  | "Lt" => a < b | "LtE" => a ≤ b | "Gt" => a > b | "GtE" => a ≥ b
  | "Eq" => a = b | "NotEq" => a ≠ b | _ => false

/-- `serialize_date(date)` for a datetime `us` microseconds after 1900-01-01:
    `0 if date == date_1900 else (date_ms - d1900_ms)/C4 + (C5 if date_ms <cmp> C3 else C7)` -/
def serialize (us : Int) : Num :=
  if us = 0 then .int (sConst 0) else
  -- date = epoch_seconds(date) * 1000 ; d1900 = epoch_seconds(date_1900) * 1000   (milliseconds)
  let dateMs : Rat := ((epochSeconds1900 : Rat) + (us : Rat) / 1000000) * (sConst 1 : Int)
  let d1900Ms : Rat := (epochSeconds1900 : Rat) * (sConst 2 : Int)
  if cmpBy (Generated.serializeDateCompares.getD 1 "") dateMs (sConst 3 : Int) then
    .flt ((dateMs - d1900Ms) / (sConst 4 : Int) + (sConst 5 : Int))
  else
    .flt ((dateMs - d1900Ms) / (sConst 6 : Int) + (sConst 7 : Int))

/-- Python's `round()` to an integer, half to even, of a rational -/
def roundHalfEven (q : Rat) : Int :=
  let f := q.floor
  let r := q - f
  if r < 1/2 then f else if r > 1/2 then f + 1 else if f % 2 = 0 then f else f + 1

/-- `parse_date(number)`; `none` = error (#NUM!).  The resulting datetime is
    `epoch + timedelta(seconds = epoch_seconds(date_1900) + (date - k) * 86400)`,
    timedelta rounding to whole microseconds (half to even). -/
def parseNum (date : Rat) : Option Int :=
  if cmpBy (Generated.parseDateCompares.getD 0 "") date (pConst 0 : Int) then none
  else if cmpBy (Generated.parseDateCompares.getD 1 "") date (pConst 1 : Int) then some 0
  else if cmpBy (Generated.parseDateCompares.getD 2 "") date (pConst 2 : Int) then
    some (roundHalfEven ((date - (pConst 3 : Int)) * (pConst 4 : Int) * 1000000))
  else
    some (roundHalfEven ((date - (pConst 5 : Int)) * (pConst 6 : Int) * 1000000))

end HotXL.Dates
