/-
  HotXL.Model.Session — a long-lived process holding several `hotxlfp.Parser` objects, with ALL the
  mutable state the code really has, as data.

  What the host can register on a parser (`Bindings`): variables, custom functions, the values the
  `callCellValue` / `callRangeValue` listeners deliver (= `Eval.Env`), and the `debug` flag.

  What exists besides (`ParserHidden`, `Global`) — found by reading hotxlfp/parser.py,
  hotxlfp/grammarparser/parser.py, hotxlfp/formulas/error.py, ply/lex.py and ply/yacc.py
  (`LRParser.parseopt_notrack`):

  per `FormulaParser`
    * `self.lex`, the PROTOTYPE lexer built by `lex.lex(module=lexer)`: fields `lexdata`, `lexpos`.
      After the repair `parse` does `self.yacc.parse(input, lexer=self.lex.clone())`: only CLONES are fed
      input, the prototype's fields are never written again.
    * the clone fed to the LAST parse: it stays alive because `parseopt_notrack` stores
      `self.token = lexer.token` (a bound method of the clone) on the LRParser object.  Its `lexdata`
      is the last formula, its `lexpos` the place where lexing stopped.
    * the LRParser object: `self.statestack`, `self.symstack` are REBOUND to fresh lists at the start
      of every parse and are left as they were when the parse returned or was aborted (observed on the
      real object: `[0, 1]` after `1+2`, `[0, 2, 18]` after `1+`); `self.state` is overwritten before
      every reduction; `self.errorok` is initialised `True` by `LRParser.__init__`, set to `False` when a
      syntax error is met and NEVER reset — and it is READ (`if errorcount == 0 or self.errorok:`).
  process-global
    * `ply.lex.lexer`: the last lexer BUILT (rebound by every `Parser()`); before the repair `parse`
      used it, now nothing reads it.
    * the nine `XLError` singletons (`error.NAME` …): every `raise` of such a shared object prepends
      the frames it crosses to the object's `__traceback__` chain.  The handlers (`Parser.parse`,
      `Parser.call_function`, `CONCATENATE`) reset `e.__traceback__ = None` (the repaired defect).
    * `sys.stderr`: `traceback.print_exc()` under `debug`.

  `step` computes the outcome of a `parse` from the parser's bindings (through `Eval.parseTop`) and
  WRITES the hidden state the way the code does.  The only hidden field the code reads, `errorok`, is
  read here too (`pErrorEntered`).  `stepLeaky` is the code BEFORE the traceback repair (no reset);
  it is used only in the negative example `Props.C02.leaky_grows`.

  Simplifications (all on the side of retaining MORE than the code):
    * the residue of the LR stacks after an aborted parse is a reduced form of a prefix of the token
      stream; the model keeps one entry per token of the whole formula (placeholder state numbers);
    * the cursor of the last clone after an aborted parse is somewhere inside the formula; the model
      writes the formula's length;
    * one traceback entry per raise (`framesPerRaise`); the real number is 4 to 7 depending on the
      raise site, so the leaky lengths are lower bounds;
    * a modelled builtin that "raises" `.error e` is charged to the singleton `e` even where the real
      exception is a fresh `TypeError` (mapped to #ERROR! later);
    * raises caught INSIDE a builtin (`CONCATENATE`) are not visible at this level: the family models
      return the error value directly.
-/
import HotXL.Model.Eval

namespace HotXL.Session
open HotXL HotXL.Eval HotXL.Syntax HotXL.Lexer

/-! ### state -/

/-- everything the host registers on one `Parser` -/
structure Bindings where
  env : Env            -- variables, custom functions, listener-provided cell / range values
  debug : Bool         -- `Parser(debug=…)`

/-- the mutable fields of a ply `Lexer` object -/
structure LexerObj where
  lexdata : Option (List Char)    -- `None` until `input()` is called
  lexpos : Nat

/-- hidden mutable state owned by one `FormulaParser` -/
structure ParserHidden where
  lexerId : Nat                   -- identity of the prototype lexer `self.lex`
  protoLexer : LexerObj           -- its fields
  lastClone : Option LexerObj     -- the clone of the last parse (alive through `self.yacc.token`)
  lrStacks : List Nat             -- `self.yacc.statestack` / `symstack` as the last parse left them
  errorok : Bool                  -- `self.yacc.errorok`

structure ParserSt where
  bindings : Bindings
  hidden : ParserHidden

/-- process-global hidden state -/
structure Global where
  globalLexer : Option Nat        -- `ply.lex.lexer`: identity of the last lexer built
  tbLen : Err → Nat               -- length of each singleton's `__traceback__` chain
  stderr : List String            -- what `traceback.print_exc()` wrote

structure State where
  parsers : List ParserSt
  glob : Global

def Global.init : Global := { globalLexer := none, tbLen := fun _ => 0, stderr := [] }

/-- a process in which no parser has been built yet -/
def State.init : State := { parsers := [], glob := Global.init }

/-- `Parser.__init__` + `FormulaParser.__init__` -/
def ParserSt.fresh (id : Nat) (debug : Bool) : ParserSt :=
  { bindings := { env := Env.empty, debug := debug },
    hidden := { lexerId := id, protoLexer := { lexdata := none, lexpos := 0 }, lastClone := none,
                lrStacks := [], errorok := true } }

/-! ### operations -/

inductive Op where
  | newParser (debug : Bool)                                   -- `hotxlfp.Parser(debug=…)`
  | setVariable (pid : Nat) (name : List Char) (v : Value)     -- `p.set_variable(name, v)`
  | setFunction (pid : Nat) (name : List Char) (f : HostFn)    -- `p.set_function(name, f)`
  | setCell (pid : Nat) (label : List Char) (v : Value)        -- the callCellValue listener now answers `v`
  | setRange (pid : Nat) (a b : List Char) (v : Value)         -- the callRangeValue listener now answers `v`
  | setDebug (pid : Nat) (b : Bool)                            -- `p.debug = b`
  | parse (pid : Nat) (f : List Char)                          -- `p.parse(f)`

inductive Out where
  | none                                   -- a registration call (returns `self`)
  | noParser                               -- no such parser object
  | created (pid : Nat)
  | record (r : Record) (log : Log)        -- the `{'result', 'error'}` record and the events delivered to the host

/-! ### one evaluation -/

/-- ply's test before it calls `p_error` (yacc.py: `if errorcount == 0 or self.errorok:`) -/
def pErrorEntered (errorcount : Nat) (errorok : Bool) : Bool := errorcount == 0 || errorok

/-- what ply's own error recovery would produce if `p_error` were skipped: symbols are discarded up to
    the end of the input and `parse` returns `None` -/
def recoveryRecord : Record := { result := none, error := none }

/-- the exception (if any) that reaches the handler of `Parser.parse` -/
def topExn (env : Env) (s : List Char) : Option Exn :=
  if s.isEmpty then none
  else match parseFormula s with
    | .error e => some (exnOfPErr e)
    | .ok x =>
      match (evalExpr env x []).1 with
      | .error .unmodelled => none
      | .error x => some x
      | .ok _ => none

/-- does ply meet a syntax error in `s` ? -/
def isSyntaxError (s : List Char) : Bool :=
  if s.isEmpty then false
  else match parseFormula s with
    | .error .syntax => true
    | _ => false

structure Run where
  record : Record
  log : Log
  top : Option Exn        -- the exception caught by `Parser.parse`

/-- `Parser.parse(f)` on a parser with bindings `b` whose LRParser object is in state `h`.
    The first syntax error of a parse is met with `errorcount = 0` (a local initialised at the start of
    every parse); `p_error` raises, so there is never a second one. -/
def evalRun (b : Bindings) (h : ParserHidden) (f : List Char) : Run :=
  if isSyntaxError f && !pErrorEntered 0 h.errorok then
    { record := recoveryRecord, log := [], top := none }
  else
    { record := (parseTop b.env f).1, log := (parseTop b.env f).2, top := topExn b.env f }

/-- the exception (if any) raised by the function behind a `callFunction` event; it is caught by
    `Parser.call_function` and becomes the value of the call -/
def fnExn (env : Env) (name : List Char) (args : List Value) : Option Exn :=
  match env.custom name with
  | some f =>
    match f args with
    | .error .unmodelled => none
    | .error x => some x
    | .ok _ => none
  | none =>
    match Builtins.model? (String.ofList name) with
    | some b =>
      match b args with
      | .error e => some (.xl e)
      | .ok _ => none
    | none => none

def caughtInCalls (env : Env) (log : Log) : List Exn :=
  log.filterMap (fun ev => match ev with
    | .fn n a => fnExn env n a
    | _ => none)

/-- the shared singleton object an exception is, if it is one -/
def singletonOf : Exn → Option Err
  | .xl e => some e
  | _ => none

/-- traceback entries added to a singleton by one `raise` (lower bound) -/
def framesPerRaise : Nat := 1

def bumpTb (tb : Err → Nat) (e : Err) : Err → Nat := fun x => if x = e then tb x + framesPerRaise else tb x
def clearTb (tb : Err → Nat) (e : Err) : Err → Nat := fun x => if x = e then 0 else tb x

/-- one exception travelling from its `raise` to the handler that catches it: the chain of a
    singleton grows during the raise; the repaired handlers reset it (`e.__traceback__ = None`),
    the handlers before the repair (`leaky`) did not -/
def raiseAndHandle (leaky : Bool) (tb : Err → Nat) (x : Exn) : Err → Nat :=
  match singletonOf x with
  | none => tb
  | some e => if leaky then bumpTb tb e else clearTb (bumpTb tb e) e

/-- text of an exception in the traceback printed under `debug` -/
def describe : Exn → String
  | .xl e => "hotxlfp.formulas.error.XLError: " ++ singletonMessage e
  | .py m => "Exception: " ++ m
  | .unmodelled => ""

/-- placeholder state numbers: one stack entry per shifted token -/
def lrResidue (f : List Char) (aborted : Bool) : List Nat :=
  if aborted then 0 :: (tokenize f).map (fun t => t.kind.ctorIdx + 2)
  else [0, 1]      -- `[0, goto[0]['expressions']]`: start state and accepting state

/-- the hidden fields of the FormulaParser after `parse(f)`; `''` never reaches ply -/
def hiddenAfter (h : ParserHidden) (f : List Char) (aborted : Bool) : ParserHidden :=
  if f.isEmpty then h
  else { h with
    lastClone := some { lexdata := some f, lexpos := f.length },
    lrStacks := lrResidue f aborted,
    errorok := if isSyntaxError f then false else h.errorok }

/-! ### the transition function -/

def setParser (σ : State) (pid : Nat) (p : ParserSt) : State := { σ with parsers := σ.parsers.set pid p }

def updEnv (p : ParserSt) (f : Env → Env) : ParserSt :=
  { p with bindings := { p.bindings with env := f p.bindings.env } }

def stepWith (leaky : Bool) (σ : State) : Op → State × Out
  | .newParser d =>
    let id := σ.parsers.length
    ({ parsers := σ.parsers ++ [ParserSt.fresh id d], glob := { σ.glob with globalLexer := some id } }, .created id)
  | .setVariable pid n v =>
    match σ.parsers[pid]? with
    | none => (σ, .noParser)
    | some p => (setParser σ pid (updEnv p (fun e => { e with vars := fun k => if k = n then some v else e.vars k })), .none)
  | .setFunction pid n g =>
    match σ.parsers[pid]? with
    | none => (σ, .noParser)
    | some p => (setParser σ pid (updEnv p (fun e => { e with custom := fun k => if k = n then some g else e.custom k })), .none)
  | .setCell pid l v =>
    match σ.parsers[pid]? with
    | none => (σ, .noParser)
    | some p => (setParser σ pid (updEnv p (fun e => { e with cellValue := fun k => if k = l then v else e.cellValue k })), .none)
  | .setRange pid a b v =>
    match σ.parsers[pid]? with
    | none => (σ, .noParser)
    | some p => (setParser σ pid (updEnv p (fun e => { e with
        rangeValue := fun k1 k2 => if k1 = a ∧ k2 = b then v else e.rangeValue k1 k2 })), .none)
  | .setDebug pid d =>
    match σ.parsers[pid]? with
    | none => (σ, .noParser)
    | some p => (setParser σ pid { p with bindings := { p.bindings with debug := d } }, .none)
  | .parse pid f =>
    match σ.parsers[pid]? with
    | none => (σ, .noParser)
    | some p =>
      let r := evalRun p.bindings p.hidden f
      -- exceptions in the order in which they are raised and caught
      let exns := caughtInCalls p.bindings.env r.log ++ r.top.toList
      let g : Global :=
        { σ.glob with
          tbLen := exns.foldl (raiseAndHandle leaky) σ.glob.tbLen,
          stderr := if p.bindings.debug then σ.glob.stderr ++ exns.map describe else σ.glob.stderr }
      ({ parsers := σ.parsers.set pid { p with hidden := hiddenAfter p.hidden f r.top.isSome }, glob := g },
       .record r.record r.log)

/-- the code as it is -/
def step : State → Op → State × Out := stepWith false

/-- the code before the traceback repair (handlers do not reset `__traceback__`) -/
def stepLeaky : State → Op → State × Out := stepWith true

def run (h : List Op) (σ : State) : State := h.foldl (fun s op => (step s op).1) σ
def runLeaky (h : List Op) (σ : State) : State := h.foldl (fun s op => (stepLeaky s op).1) σ

/-- the outcomes of a history, in order -/
def outs : List Op → State → List Out
  | [], _ => []
  | op :: h, σ => (step σ op).2 :: outs h (step σ op).1

/-! ### observations -/

def bindings (pid : Nat) (σ : State) : Option Bindings := σ.parsers[pid]?.map (·.bindings)
def hidden (pid : Nat) (σ : State) : Option ParserHidden := σ.parsers[pid]?.map (·.hidden)

def LexerObj.size (l : LexerObj) : Nat := 1 + (l.lexdata.map List.length).getD 0

/-- what one FormulaParser keeps alive: its prototype lexer, the last clone (with the text of the last
    formula), the LRParser object and the entries of its stacks -/
def ParserHidden.size (h : ParserHidden) : Nat :=
  h.protoLexer.size + (h.lastClone.map LexerObj.size).getD 0 + 1 + h.lrStacks.length

def tbTotal (tb : Err → Nat) : Nat := (Err.all.map tb).sum

/-- size of the hidden state that persists between evaluations: per-parser retained objects, the
    traceback chains of the nine singletons, the global lexer pointer.  NOT the stderr stream (output,
    not memory). -/
def State.hiddenSize (σ : State) : Nat :=
  (σ.parsers.map (fun p => p.hidden.size)).sum + tbTotal σ.glob.tbLen + 1

end HotXL.Session
