/-
  HotXL.Model.Builtins — the dispatcher registry (`formulas.dispatcher._registry_`):
  the names come from `HotXL.Generated.registry`, the models from the family tables.
-/
import HotXL.Model.Fn.Logic
import HotXL.Model.Fn.Info
import HotXL.Model.Fn.Stat
import HotXL.Model.Fn.Math
import HotXL.Model.Fn.Round
import HotXL.Model.Fn.Agg
import HotXL.Model.Fn.Text
import HotXL.Model.Fn.DateTime
import HotXL.Model.Fn.Eng
import HotXL.Model.Fn.Fin
import HotXL.Model.Fn.Lookup
import HotXL.Generated.Registry

namespace HotXL.Builtins
open HotXL

abbrev Builtin := List Value → Except Err Value

def table : List (String × Builtin) :=
  Fn.Logic.table ++ Fn.Info.table ++ Fn.Stat.table ++ Fn.Agg.table ++ Fn.Math.table ++ Fn.Round.table ++ Fn.Text.table ++
  Fn.DateTime.table ++ Fn.Eng.table ++ Fn.Fin.table ++ Fn.Lookup.table

def isRegistered (name : String) : Bool := Generated.registry.contains name

/-- the model of a registered builtin, if this family has been modelled -/
def model? (name : String) : Option Builtin := (table.find? (fun p => p.1 = name)).map (·.2)

end HotXL.Builtins
