/-
  HotXL.Model.Emitter — model of hotxlfp/tinyemitter.py (on / once / emit / off),
  with host callbacks given as scripts of further emitter operations.
-/
import HotXL.Model.Basic

namespace HotXL.Emitter

abbrev Name := Nat
abbrev CbId := Nat
abbrev Ctx  := Nat

/-- what `Listener.fn` is: the host callback itself, or the `onetime_listener`
    closure created by `once` (a fresh object `wid` whose `._` is the host callback) -/
inductive Fn where
  | plain (cb : CbId)
  | wrapper (wid : Nat) (cb : CbId)
  deriving DecidableEq, Repr

structure Listener where
  fn : Fn
  ctx : Ctx
  deriving DecidableEq, Repr

inductive Op where
  | on (n : Name) (cb : CbId) (ctx : Ctx)
  | once (n : Name) (cb : CbId) (ctx : Ctx)
  | off (n : Name)                      -- off(name)
  | offCb (n : Name) (cb : CbId)        -- off(name, callback)
  | emit (n : Name) (arg : Nat)
  deriving DecidableEq, Repr

/-- one call of a host callback -/
structure Call where
  cb : CbId
  arg : Nat
  ctx : Ctx
  via : Option Nat      -- `some wid` when delivered through a once-wrapper
  name : Name           -- the event name being delivered
  depth : Nat           -- nesting depth of the emit that delivered it (0 = outermost)
  deriving DecidableEq, Repr

structure State where
  subs : Name → List Listener       -- `self._e`
  nextWid : Nat                      -- allocation counter for once-wrappers
  fired : List Nat                   -- wrappers whose `fired` flag is set

def init : State := { subs := fun _ => [], nextWid := 0, fired := [] }

def setSubs (σ : State) (n : Name) (l : List Listener) : State :=
  { σ with subs := fun m => if m = n then l else σ.subs m }

/-- `event.fn != callback and (not hasattr(event.fn,'_') or event.fn._ != callback)`
    for a host callback `cb` -/
def keepsAgainstCb (cb : CbId) (l : Listener) : Bool :=
  match l.fn with
  | .plain c => c != cb
  | .wrapper _ c => c != cb

/-- the same test when `callback` is the wrapper object `wid` itself -/
def keepsAgainstWrapper (wid : Nat) (l : Listener) : Bool :=
  match l.fn with
  | .plain _ => true
  | .wrapper w _ => w != wid

def doOn (σ : State) (n : Name) (cb : CbId) (ctx : Ctx) : State :=
  setSubs σ n (σ.subs n ++ [{ fn := .plain cb, ctx := ctx }])

def doOnce (σ : State) (n : Name) (cb : CbId) (ctx : Ctx) : State :=
  let σ' := setSubs σ n (σ.subs n ++ [{ fn := .wrapper σ.nextWid cb, ctx := ctx }])
  { σ' with nextWid := σ.nextWid + 1 }

def doOff (σ : State) (n : Name) : State := setSubs σ n []

def doOffCb (σ : State) (n : Name) (cb : CbId) : State :=
  setSubs σ n ((σ.subs n).filter (keepsAgainstCb cb))

def doOffWrapper (σ : State) (n : Name) (wid : Nat) : State :=
  setSubs σ n ((σ.subs n).filter (keepsAgainstWrapper wid))

abbrev Scripts := CbId → List Op

mutual
/-- run a list of operations; `fuel` bounds the nesting depth of callbacks
    (a callback invoked at fuel 0 is logged but its body is not run — the harness's
    callbacks do exactly the same with their depth counter) -/
def runOps (fuel : Nat) (sc : Scripts) (depth : Nat) (σ : State) : List Op → State × List Call
  | [] => (σ, [])
  | op :: rest =>
    let (σ1, l1) := step fuel sc depth σ op
    let (σ2, l2) := runOps fuel sc depth σ1 rest
    (σ2, l1 ++ l2)
termination_by ops => (fuel, 2, ops.length)

def step (fuel : Nat) (sc : Scripts) (depth : Nat) (σ : State) : Op → State × List Call
  | .on n cb ctx => (doOn σ n cb ctx, [])
  | .once n cb ctx => (doOnce σ n cb ctx, [])
  | .off n => (doOff σ n, [])
  | .offCb n cb => (doOffCb σ n cb, [])
  | .emit n arg => deliver fuel sc depth σ n arg (σ.subs n)
termination_by (fuel, 1, 0)

/-- `for listener in listeners: listener.fn(*args, **listener.ctx)` over the snapshot -/
def deliver (fuel : Nat) (sc : Scripts) (depth : Nat) (σ : State) (n : Name) (arg : Nat) :
    List Listener → State × List Call
  | [] => (σ, [])
  | l :: ls =>
    let (σ1, l1) := call fuel sc depth σ n arg l
    let (σ2, l2) := deliver fuel sc depth σ1 n arg ls
    (σ2, l1 ++ l2)
termination_by ls => (fuel, 0, ls.length + 1)

/-- one listener call -/
def call (fuel : Nat) (sc : Scripts) (depth : Nat) (σ : State) (n : Name) (arg : Nat)
    (l : Listener) : State × List Call :=
  match l.fn with
  | .plain cb =>
    let entry : Call := { cb := cb, arg := arg, ctx := l.ctx, via := none, name := n, depth := depth }
    match fuel with
    | 0 => (σ, [entry])
    | f + 1 =>
      let (σ', log) := runOps f sc (depth + 1) σ (sc cb)
      (σ', entry :: log)
  | .wrapper wid cb =>
    if wid ∈ σ.fired then (σ, [])
    else
      let σ0 : State := { σ with fired := wid :: σ.fired }
      let σ1 := doOffWrapper σ0 n wid
      let entry : Call := { cb := cb, arg := arg, ctx := l.ctx, via := some wid, name := n, depth := depth }
      match fuel with
      | 0 => (σ1, [entry])
      | f + 1 =>
        let (σ', log) := runOps f sc (depth + 1) σ1 (sc cb)
        (σ', entry :: log)
termination_by (fuel, 0, 0)
end

/-- top-level run of a history from the initial state -/
def run (fuel : Nat) (sc : Scripts) (ops : List Op) : State × List Call :=
  runOps fuel sc 0 init ops

end HotXL.Emitter
