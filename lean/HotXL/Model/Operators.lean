/-
  HotXL.Model.Operators — model of hotxlfp/formulas/operators.py:
  `value_and_type`, `evaluate_arithmetic` over the (generated) implicit-conversion table,
  `ExcelArrayOps`, `ExcelComparator` / `evaluate_logic`, and the `&` and unary-minus
  reductions of the grammar.
-/
import HotXL.Model.Basic
import HotXL.Model.PyNum
import HotXL.Model.Dates
import HotXL.Generated.Operators

namespace HotXL.Ops
open HotXL

/-! ### Python numbers -/

def Num.toRat : Num → Rat
  | .int i => (i : Rat)
  | .flt q => q

def Num.isZero (n : Num) : Bool := Num.toRat n = 0

def numAdd : Num → Num → Num
  | .int a, .int b => .int (a + b)
  | a, b => .flt (Num.toRat a + Num.toRat b)
def numSub : Num → Num → Num
  | .int a, .int b => .int (a - b)
  | a, b => .flt (Num.toRat a - Num.toRat b)
def numMul : Num → Num → Num
  | .int a, .int b => .int (a * b)
  | a, b => .flt (Num.toRat a * Num.toRat b)
/-- `operator.truediv`; `none` = ZeroDivisionError -/
def numDiv (a b : Num) : Option Num :=
  if Num.isZero b then none else some (.flt (Num.toRat a / Num.toRat b))
def numNeg : Num → Num
  | .int a => .int (-a)
  | .flt q => .flt (-q)

/-! ### `to_number` on text (helper/number.py): `int(s)`, else `float(s)`, else the text -/

/-- `float(s)` for ASCII decimal text without exponent: `[sign] digits [. digits]` or
    `[sign] . digits` (after stripping white space).  Exponent forms, `inf`, `nan` and
    underscores are library behaviour and are not modelled (`none`). -/
def pyFloat? (s : List Char) : Option Rat :=
  let t := PyNum.strip s
  let (neg, body) := match t with
    | '-' :: r => (true, r)
    | '+' :: r => (false, r)
    | r => (false, r)
  let ip := body.takeWhile PyNum.isDigit
  let rest := body.dropWhile PyNum.isDigit
  let mk (i f : List Char) : Option Rat :=
    if i.isEmpty && f.isEmpty then none else
    let iv : Nat := i.foldl (fun a c => a * 10 + (c.toNat - 48)) 0
    let fv : Nat := f.foldl (fun a c => a * 10 + (c.toNat - 48)) 0
    let q : Rat := (iv : Rat) + (fv : Rat) / ((10 ^ f.length : Nat) : Rat)
    some (if neg then -q else q)
  match rest with
  | [] => mk ip []
  | '.' :: fr => if fr.all PyNum.isDigit then mk ip fr else none
  | _ => none

inductive ToNum where
  | num (n : Num)
  | text                      -- not a number: `to_number` returns the string itself
  deriving Repr

def toNumberText (s : List Char) : ToNum :=
  match PyNum.pyInt? s with
  | some i => .num (.int i)
  | none => match pyFloat? s with
    | some q => .num (.flt q)
    | none => .text

/-! ### `value_and_type` -/

inductive Ty where
  | number | date | string | none | error
  deriving DecidableEq, Repr

def Ty.name : Ty → String
  | .number => "number" | .date => "date" | .string => "string" | .none => "none" | .error => "error"

/-- ISO-8601 text `YYYY-MM-DD` optionally followed by `T`/space and `HH:MM[:SS]` — the only
    date text the model recognises (dateutil's other formats are library behaviour). -/
def isoDate? (s : List Char) : Option Int :=
  let digs (l : List Char) : Option Nat := if l.isEmpty || !l.all PyNum.isDigit then none else
    some (l.foldl (fun a c => a * 10 + (c.toNat - 48)) 0)
  let date? (d : List Char) : Option Int :=
    match d with
    | [y1, y2, y3, y4, '-', m1, m2, '-', d1, d2] => do
      let y ← digs [y1, y2, y3, y4]; let m ← digs [m1, m2]; let dd ← digs [d1, d2]
      if Calendar.validYMD y m dd then
        some ((Calendar.ordinalOfYMD y m dd - Dates.ordOf Generated.date1900) * Dates.usPerDay)
      else none
    | _ => none
  let time? (t : List Char) : Option Int :=
    match t with
    | [h1, h2, ':', m1, m2] => do
      let h ← digs [h1, h2]; let m ← digs [m1, m2]
      if h < 24 && m < 60 then some (((h * 60 + m) * 60 : Nat) * 1000000) else none
    | [h1, h2, ':', m1, m2, ':', s1, s2] => do
      let h ← digs [h1, h2]; let m ← digs [m1, m2]; let sec ← digs [s1, s2]
      if h < 24 && m < 60 && sec < 60 then some ((((h * 60 + m) * 60 + sec : Nat)) * 1000000) else none
    | _ => none
  if s.length = 10 then date? s
  else if s.length > 11 && (s.getD 10 'x' = 'T' || s.getD 10 'x' = ' ') then do
    let d ← date? (s.take 10); let t ← time? (s.drop 11); some (d + t)
  else none

/-- the typed operand of an arithmetic operator: `(value, type)` of `value_and_type` -/
inductive Operand where
  | number (n : Num)
  | date (us : Int)
  | string (s : List Char)
  | none
  | error (e : Err)
  deriving Repr

def Operand.ty : Operand → Ty
  | .number _ => .number | .date _ => .date | .string _ => .string | .none => .none | .error _ => .error

def valueAndType : Value → Operand
  | .num n => .number n
  | .bool b => .number (.int (if b then 1 else 0))   -- `isinstance(True, number_types)`
  | .date us => .date us
  | .str s =>
    match toNumberText s with
    | .num n => .number n
    | .text => match isoDate? s with
      | some us => .date us
      | none => .string s
  | .blank => .none
  | .err e => .error e
  | .arr _ => .error .value
  | .other _ => .error .value

/-! ### the conversion table (generated) -/

inductive ArithOp where
  | add | sub | mul | div
  deriving DecidableEq, Repr

def ArithOp.sym : ArithOp → String
  | .add => "+" | .sub => "-" | .mul => "*" | .div => "/"

/-- entry `(left, right, result)` of `IMPLICIT_DATA_TYPE_CONVERSIONS[op][ltype][rtype]` -/
def convLookup (op : ArithOp) (lt rt : Ty) : Option (String × String × String) :=
  match Generated.convTable.find? (fun r => r.1 = op.sym && r.2.1 = lt.name && r.2.2.1 = rt.name) with
  | some r => some (r.2.2.2.1, r.2.2.2.2.1, r.2.2.2.2.2)
  | none => none

/-- does `ltype in conversions` hold (some row for that left type)? -/
def leftTypeKnown (op : ArithOp) (lt : Ty) : Bool :=
  Generated.convTable.any (fun r => r.1 = op.sym && r.2.1 = lt.name)

/-- a converted operand: a Python number, or something on which the operator raises -/
inductive Conv where
  | num (n : Num)
  | err (e : Err)            -- serialize_date returned an error value
  | bad                      -- an object the numeric operator cannot take (TypeError)

/-- apply a named converter of the table to an operand -/
def applyConv (name : String) (v : Operand) : Conv :=
  match name, v with
  | "none", .number n => .num n
  | "none", .none => .bad
  | "none", _ => .bad
  | "zero", _ => .num (.int 0)
  | "serialize_date", .date us => .num (Dates.serialize us)
  | "serialize_date", .number n =>      -- serialize_date(parse_date(number))
    (match Dates.parseNum (Num.toRat n) with
     | some us => .num (Dates.serialize us)
     | none => .err .value)
  | "serialize_date", _ => .err .value
  | _, _ => .bad

/-- first microsecond after `datetime.max` (10000-01-01T00:00), counted from 1900-01-01 -/
def usEnd : Int := (Calendar.ordinalOfYMD 10000 1 1 - Dates.ordOf Generated.date1900) * Dates.usPerDay

/-- `parse_date(number)` as a value: `#NUM!` below 0; `none` = OverflowError (beyond year 9999) -/
def parseDateValue (q : Rat) : Option Value :=
  match Dates.parseNum q with
  | some us => if us < usEnd then some (.date us) else none
  | none => some (.err .num)

/-- the `result` converter; `none` = a raised Python exception -/
def applyResult (name : String) (n : Num) : Option Value :=
  match name with
  | "absent" => some (.num n)
  | "parse_date" => parseDateValue (Num.toRat n)
  | _ => some (.other "unmodelled-result-converter")

def applyOp (op : ArithOp) (a b : Num) : Option Num :=
  match op with
  | .add => some (numAdd a b)
  | .sub => some (numSub a b)
  | .mul => some (numMul a b)
  | .div => numDiv a b

/-- outcome of an operator: a value, or a raised Python exception (→ `#ERROR!` at the top) -/
abbrev Res := Except Err Value

/-- `evaluate_arithmetic` on two non-list, non-error operands -/
def arithScalar (op : ArithOp) (l r : Value) : Res :=
  let lo := valueAndType l
  let ro := valueAndType r
  if !leftTypeKnown op lo.ty then .ok (.err .value) else
  match convLookup op lo.ty ro.ty with
  | none => .ok (.err .value)
  | some (lc, rc, res) =>
    match applyConv lc lo, applyConv rc ro with
    | .num a, .num b =>
      (match applyOp op a b with
       | some n => (match applyResult res n with
                    | some v => .ok v
                    | none => .error .error)
       | none => .ok (.err .div0))
    | _, _ => .error .error       -- operator applied to an error object / None: TypeError

def isErr : Value → Option Err
  | .err e => some e
  | _ => none

/-- `adapt_value` of `ExcelArrayOps(arr)`: a one-element list collapses to its element,
    a non-list is repeated `len(arr)` times -/
def adaptValue (n : Nat) (v : Value) : List Value :=
  let v' := match v with
    | .arr [x] => x
    | x => x
  match v' with
  | .arr xs => xs
  | x => List.replicate n x

mutual
/-- `evaluate_arithmetic(op, lval, rval)`; `fuel` bounds the array nesting depth -/
def evalArith (fuel : Nat) (op : ArithOp) (l r : Value) : Res :=
  match isErr l with
  | some e => .ok (.err e)
  | none =>
  match isErr r with
  | some e => .ok (.err e)
  | none =>
  -- list ∘ list: a one-element array acts as its element, on either side, at any depth
  let single : Option (Value × Value × Bool) := match l, r with
    | .arr [x], .arr [y] => some (x, y, true)
    | .arr [x], .arr ys => some (x, .arr ys, false)
    | .arr xs, .arr [y] => some (.arr xs, y, false)
    | _, _ => none
  match single with
  | some (l', r', wrap) =>
    (match fuel with
     | 0 => .error .error
     | f + 1 => if wrap then (evalArith f op l' r').map (fun v => .arr [v]) else evalArith f op l' r')
  | none =>
  match l, r with
  | .arr xs, _ =>
    let ys := adaptValue xs.length r
    if ys.length ≠ xs.length then .ok (.err .value)
    else match fuel with
      | 0 => .error .error
      | f + 1 => (zipArith f op xs ys).map .arr
  | _, .arr ys =>
    -- reflected operator: `__radd__`/`__rsub__`/`__rmul__`/`__rtruediv__` of ExcelArrayOps(rval)
    let xs := adaptValue ys.length l
    if xs.length ≠ ys.length then .ok (.err .value)
    else match fuel with
      | 0 => .error .error
      | f + 1 => (zipArith f op xs ys).map .arr
  | _, _ => arithScalar op l r
termination_by (fuel, 0)

def zipArith (fuel : Nat) (op : ArithOp) : List Value → List Value → Except Err (List Value)
  | [], _ => .ok []
  | _, [] => .ok []
  | x :: xs, y :: ys => do
    let v ← evalArith fuel op x y
    let vs ← zipArith fuel op xs ys
    pure (v :: vs)
termination_by xs => (fuel, xs.length + 1)
end

/-! ### comparisons: `ExcelComparator`, `evaluate_logic` -/

inductive CmpOp where
  | gt | lt | ge | le | eq | ne
  deriving DecidableEq, Repr

/-- what `ExcelComparator.value` / `other` can be after the datetime→serial conversion -/
inductive CV where
  | num (n : Num)
  | bool (b : Bool)
  | str (s : List Char)
  | none
  | foreign
  deriving Repr

def toCV : Value → CV
  | .num n => .num n
  | .bool b => .bool b
  | .str s => .str s
  | .blank => .none
  | .date us => .num (Dates.serialize us)
  | _ => .foreign

/-- Python `type(a) != type(b)` on the modelled classes (int and float are different types) -/
def sameType : CV → CV → Bool
  | .num (.int _), .num (.int _) => true
  | .num (.flt _), .num (.flt _) => true
  | .bool _, .bool _ => true
  | .str _, .str _ => true
  | .none, .none => true
  | _, _ => false

/-- `convert_other` when `other is None` -/
def convertNone : CV → CV
  | .bool _ => .bool false
  | .num (.int _) => .num (.int 0)
  | .num (.flt _) => .num (.flt 0)
  | .str _ => .str []
  | _ => .none

def bothPlainNumbers : CV → CV → Bool
  | .num _, .num _ => true
  | _, _ => false

def strLt : List Char → List Char → Bool
  | [], [] => false
  | [], _ :: _ => true
  | _ :: _, [] => false
  | a :: as, b :: bs => if a.toNat < b.toNat then true else if a.toNat > b.toNat then false else strLt as bs

/-- Python `a < b` on equal-typed (or both numeric) operands; `none` = TypeError -/
def pyLt : CV → CV → Option Bool
  | .num a, .num b => some (Num.toRat a < Num.toRat b)
  | .bool a, .bool b => some (!a && b)
  | .str a, .str b => some (strLt a b)
  | _, _ => none

def pyEq : CV → CV → Bool
  | .num a, .num b => Num.toRat a = Num.toRat b
  | .bool a, .bool b => a = b
  | .str a, .str b => a = b
  | .none, .none => true
  | _, _ => false

/-- `ExcelComparator(self).__lt__(oth)` with `self.value` not None; `none` = TypeError -/
def cmpLtCore (self oth : CV) : Option Bool :=
  let oth := if sameType self oth then oth else
    (match oth with | .none => convertNone self | o => o)
  if !sameType self oth && !bothPlainNumbers self oth then
    match self, oth with
    | .bool _, _ => some false
    | .str _, .bool _ => some true
    | .str _, .num _ => some false
    | .str _, _ => pyLt self oth
    | .num _, _ => some true
    | _, _ => pyLt self oth
  else pyLt self oth

def cmpGtCore (self oth : CV) : Option Bool :=
  let oth := if sameType self oth then oth else
    (match oth with | .none => convertNone self | o => o)
  if !sameType self oth && !bothPlainNumbers self oth then
    match self, oth with
    | .bool _, _ => some true
    | .str _, .bool _ => some false
    | .str _, .num _ => some true
    | .str _, _ => pyLt oth self
    | .num _, _ => some false
    | _, _ => pyLt oth self
  else pyLt oth self

def cmpEqCore (self oth : CV) : Bool :=
  let oth := if sameType self oth then oth else
    (match oth with | .none => convertNone self | o => o)
  match self, oth with
  | .bool _, .bool _ => pyEq self oth
  | .bool _, _ => false
  | _, .bool _ => false
  | _, _ => pyEq self oth

/-- `__lt__` including the `self.value is None` flip -/
def cmpLt (self oth : CV) : Option Bool :=
  match self, oth with
  | .none, .none => some false
  | .none, o => cmpGtCore o .none
  | s, o => cmpLtCore s o

def cmpGt (self oth : CV) : Option Bool :=
  match self, oth with
  | .none, .none => some false
  | .none, o => cmpLtCore o .none
  | s, o => cmpGtCore s o

def cmpEq (self oth : CV) : Bool :=
  match self, oth with
  | .none, .none => true
  | .none, o => cmpEqCore o .none
  | s, o => cmpEqCore s o

/-- `evaluate_logic(op, lval, rval)` on scalars -/
def evalLogic (op : CmpOp) (l r : Value) : Res :=
  match isErr l with
  | some e => .ok (.err e)
  | none =>
  match isErr r with
  | some e => .ok (.err e)
  | none =>
  let a := toCV l
  let b := toCV r
  let wrap (o : Option Bool) : Res := match o with | some x => .ok (.bool x) | none => .error .error
  match op with
  | .lt => wrap (cmpLt a b)
  | .gt => wrap (cmpGt a b)
  | .eq => .ok (.bool (cmpEq a b))
  | .ne => .ok (.bool (!cmpEq a b))
  | .ge => wrap ((cmpGt a b).map (fun g => g || cmpEq a b))
  | .le => wrap ((cmpLt a b).map (fun g => g || cmpEq a b))

/-! ### `&` and unary minus (grammar reductions) -/

/-- `str(x)` for the operands whose text the statement fixes; `none` = not modelled
    (floats, dates, lists: Python's `repr`) -/
def pyStr? : Value → Option (List Char)
  | .str s => some s
  | .num (.int i) => some (PyNum.intToDec i)
  | .bool true => some "True".toList
  | .bool false => some "False".toList
  | .blank => some []
  | _ => none

def evalAmp (l r : Value) : Res :=
  match isErr l with
  | some e => .ok (.err e)
  | none =>
  match isErr r with
  | some e => .ok (.err e)
  | none =>
  match pyStr? l, pyStr? r with
  | some a, some b => .ok (.str (a ++ b))
  | _, _ => .ok (.other "text-of-float-date-or-list")

/-- `-p[2]` -/
def evalNeg : Value → Res
  | .err e => .ok (.err e)
  | .num n => .ok (.num (numNeg n))
  | .bool b => .ok (.num (.int (if b then -1 else 0)))
  | _ => .error .error      -- TypeError: bad operand type for unary -

end HotXL.Ops
