/-
  HotXL.Model.Cell — model of hotxlfp/helper/cell.py
  (row_label_to_index, row_index_to_label, column_label_to_index,
   column_index_to_label, extract_label, to_label).
-/
import HotXL.Model.Basic
import HotXL.Model.PyNum
import HotXL.Generated.Cell

namespace HotXL.Cell

/-- `COLUMN_LABEL_BASE` (generated from the source). -/
def base : List Char := Generated.columnLabelBase.toList
/-- `COLUMN_LABEL_BASE_LENGTH = len(COLUMN_LABEL_BASE)` -/
def baseLen : Nat := base.length

def isUpperAZ (c : Char) : Bool := 'A'.toNat ≤ c.toNat && c.toNat ≤ 'Z'.toNat
def isLowerAZ (c : Char) : Bool := 'a'.toNat ≤ c.toNat && c.toNat ≤ 'z'.toNat
def isLetter (c : Char) : Bool := isUpperAZ c || isLowerAZ c
def isDigit (c : Char) : Bool := '0'.toNat ≤ c.toNat && c.toNat ≤ '9'.toNat

/-- `str.upper()` restricted to what the label code can see (ASCII). -/
def upperChar (c : Char) : Char := if isLowerAZ c then Char.ofNat (c.toNat - 32) else c
def upper (s : List Char) : List Char := s.map upperChar

/-- `str.find(ch)`: index of the first occurrence, `-1` when absent. -/
def find (c : Char) : List Char → Int
  | [] => -1
  | d :: ds => if d = c then 0 else
      let r := find c ds
      if r < 0 then -1 else r + 1

/-- the `for i, j in zip(range(len), range(len-1,-1,-1))` loop:
    `sum 26**j * (BASE.find(label[i]) + 1)` with `j = len-1-i`. -/
def colSum : List Char → Int
  | [] => 0
  | c :: cs => (baseLen : Int) ^ cs.length * (find c base + 1) + colSum cs

/-- `column_label_to_index` (string argument). -/
def colLabelToIndex (label : List Char) : Int := colSum (upper label) - 1

/-- the `while column >= 0` loop of `column_index_to_label`; `acc` is `result`.
    (With a base of fewer than 2 letters the Python loop would not make progress /
    divide by zero; the model stops there — `Props/C19` proves the base has 26 letters.) -/
def colLoop (column : Int) (acc : List Char) : List Char :=
  if _h : column ≥ 0 ∧ baseLen ≥ 2 then
    colLoop (column / (baseLen : Int) - 1)
      (Char.ofNat ((column % (baseLen : Int)).toNat + Generated.columnChrOffset) :: acc)
  else acc
termination_by (column + 1).toNat
decreasing_by
  have h1 : column / (baseLen : Int) ≤ column := Int.ediv_le_self _ (by omega)
  omega

/-- `column_index_to_label` -/
def colIndexToLabel (column : Int) : List Char := upper (colLoop column [])

/-! ### rows: `int(label)` / `str(row + 1)` (see `HotXL.PyNum`) -/

/-- `row_label_to_index`: `max(int(label) - 1, -1)`, or -1 when `int` raises ValueError -/
def rowLabelToIndex (label : List Char) : Int :=
  match PyNum.pyInt? label with
  | some n => max (n - 1) (-1)
  | none => -1

/-- `row_index_to_label` -/
def rowIndexToLabel (row : Int) : List Char :=
  if row ≥ 0 then PyNum.intToDec (row + 1) else []

/-! ### extract_label / to_label -/

structure ParsedLabel where
  index : Int
  label : List Char
  isAbsolute : Bool
  deriving DecidableEq, Repr

/-- the regular expression the matcher below was written for -/
def expectedRegexp : String := "^([$])?([A-Za-z]+)([$])?([0-9]+)\\Z"

/-- matcher for `^([$])?([A-Za-z]+)([$])?([0-9]+)\Z`:
    returns the four groups (column_abs, column, row_abs, row). -/
def matchLabel (s : List Char) : Option (Bool × List Char × Bool × List Char) :=
  let (colAbs, s1) := match s with
    | '$' :: r => (true, r)
    | _ => (false, s)
  let col := s1.takeWhile isLetter
  let s2 := s1.dropWhile isLetter
  if col.isEmpty then none else
  let (rowAbs, s3) := match s2 with
    | '$' :: r => (true, r)
    | _ => (false, s2)
  if s3.isEmpty then none else
  if s3.all isDigit then some (colAbs, col, rowAbs, s3) else none

/-- `extract_label`: `[row, column]` or `[]` -/
def extractLabel (s : List Char) : Option (ParsedLabel × ParsedLabel) :=
  match matchLabel s with
  | none => none
  | some (colAbs, col, rowAbs, row) =>
    some ({ index := rowLabelToIndex row, label := row, isAbsolute := rowAbs },
          { index := colLabelToIndex col, label := col, isAbsolute := colAbs })

/-- `to_label(row, column)` -/
def toLabel (row col : ParsedLabel) : List Char :=
  let rowLabel := (if row.isAbsolute then ['$'] else []) ++ rowIndexToLabel row.index
  let colLabel := (if col.isAbsolute then ['$'] else []) ++ colIndexToLabel col.index
  colLabel ++ rowLabel

end HotXL.Cell
