/-
  HotXL.Model.Eval — evaluation of a formula as hotxlfp.Parser.parse performs it:
  ply reduces bottom-up, so sub-expressions are evaluated in post-order, left to right,
  each reduction calling into `Parser` (`call_function`, `call_variable`,
  `call_cell_value`, `call_range_value`, `_throw_error`) or into `operators`.
  A raised exception aborts the evaluation; `finish` is the `try/except` wrapper of
  `Parser.parse` that builds the `{'result', 'error'}` record.
-/
import HotXL.Model.Syntax
import HotXL.Model.Operators
import HotXL.Model.Cell
import HotXL.Model.Builtins

namespace HotXL.Eval
open HotXL HotXL.Syntax HotXL.Ops

/-! ### errors -/

/-- a raised Python exception: one of the XLError singletons, or any other exception
    (identified by `str(e)`) -/
inductive Exn where
  | xl (e : Err)
  | py (msg : String)
  | unmodelled            -- not an exception: a registered builtin outside the modelled families was
                          -- called, so the model has no opinion on this formula (the driver says so)
  deriving Repr

def errOfSingletonName : String → Option Err
  | "ERROR" => some .error | "DIV_ZERO" => some .div0 | "NAME" => some .name
  | "NOT_AVAILABLE" => some .na | "NULL" => some .null | "NUM" => some .num
  | "REF" => some .ref | "VALUE" => some .value | "DATA" => some .data | _ => none

/-- `error.from_message(message)`: the dict lookup on `str(message)` with its default -/
def fromMessage (msg : String) : Err :=
  let dflt := (errOfSingletonName Generated.errorDefault).getD .error
  match Generated.errorTable.find? (fun p => p.1 = msg) with
  | some p => (errOfSingletonName p.2).getD dflt
  | none => dflt

/-- `str(e)` of a singleton, from the generated module attributes -/
def singletonMessage (e : Err) : String :=
  let nm := match e with
    | .error => "ERROR" | .div0 => "DIV_ZERO" | .name => "NAME" | .na => "NOT_AVAILABLE"
    | .null => "NULL" | .num => "NUM" | .ref => "REF" | .value => "VALUE" | .data => "DATA"
  match Generated.errorSingletons.find? (fun p => p.1 = nm) with
  | some p => p.2
  | none => ""

def Exn.toErr : Exn → Err
  | .xl e => fromMessage (singletonMessage e)
  | .py m => fromMessage m
  | .unmodelled => .error

/-! ### environment, events -/

/-- a host function: evaluated arguments to a value, or raises -/
abbrev HostFn := List Value → Except Exn Value

structure Env where
  vars : List Char → Option Value          -- `self.variables` (besides the predefined ones)
  custom : List Char → Option HostFn       -- `self.functions`
  cellValue : List Char → Value            -- what the callCellValue listeners set (label upper-cased); blank if none
  rangeValue : List Char → List Char → Value

def Env.empty : Env :=
  { vars := fun _ => none, custom := fun _ => none, cellValue := fun _ => .blank, rangeValue := fun _ _ => .blank }

def predefined (name : List Char) : Option Value :=
  match Generated.predefinedVars.find? (fun p => p.1.toList = name) with
  | some (_, "true") => some (.bool true)
  | some (_, "false") => some (.bool false)
  | some (_, "none") => some .blank
  | some _ => some (.other "predefined")
  | none => none

inductive Event where
  | cell (label : List Char) (row col : Cell.ParsedLabel)
  | range (sLabel : List Char) (sRow sCol : Cell.ParsedLabel) (eLabel : List Char) (eRow eCol : Cell.ParsedLabel)
  | var (name : List Char)
  | fn (name : List Char) (args : List Value)
  deriving Repr

abbrev Log := List Event

/-! ### the setter handed to the listeners of the four events -/

/-- `new_value is None` -/
def _root_.HotXL.Value.isBlank : Value → Bool
  | .blank => true
  | _ => false

/-- the closure `valsetter` of `call_function` / `call_variable` / `call_cell_value` /
    `call_range_value`: `if new_value is not None: result['value'] = new_value` -/
def valsetter (result newValue : Value) : Value := if newValue.isBlank then result else newValue

/-- the value of a reference after the listeners of its event have run: `init` is what
    `result['value']` holds before `emit` (the function's return value, the stored variable,
    `None` for a cell or a range), `calls` the arguments of all setter calls in the order they were
    made (all listeners, several calls each) -/
def applySetters (init : Value) (calls : List Value) : Value := calls.foldl valsetter init

/-! ### leaves -/

def digitsVal (ds : List Char) : Nat := ds.foldl (fun a c => a * 10 + (c.toNat - 48)) 0

/-- `p_expression_number` -/
def evalNumLit : NumLit → Value
  | .int a => .num (.int (digitsVal a))
  | .dec a b => .num (.flt ((digitsVal a : Rat) + (digitsVal b : Rat) / ((10 ^ b.length : Nat) : Rat)))
  | .dotDec b => .num (.flt ((digitsVal b : Rat) / ((10 ^ b.length : Nat) : Rat)))
  | .pow a b => .num (.int ((digitsVal a : Int) ^ (digitsVal b)))
  | .pct a => .num (.flt ((digitsVal a : Rat) / 100))

/-- the guard of the `NUMBER CARET NUMBER` production: `base > 1 and (base.bit_length() - 1) *
    exponent >= 1024` — a literal power of at least 2^1024 raises `#NUM!` instead of being computed -/
def numLitTooBig : NumLit → Bool
  | .pow a b => decide (digitsVal a > 1) && decide (Nat.log2 (digitsVal a) * digitsVal b ≥ 1024)
  | _ => false

/-- tags under which the builtin models answer "no opinion" (a result the model does not compute:
    dateutil text, text of a float, a square root, …); host objects carry their Python type name -/
def noOpinionTags : List String :=
  ["text-of-float-date-or-list", "dateutil-text", "unmodelled", "unmodelled-fnmatch-class",
   "surrogate-code-point", "case-mapping-outside-table", "unmodelled-result-converter"]

/-- a builtin's "no opinion" answer: such a value must not flow on into operators or other
    functions as if it were known, so the whole evaluation becomes `Exn.unmodelled` -/
def isNoOpinion : Value → Bool
  | .other t => noOpinionTags.contains t || t.startsWith "sqrt:" || t.startsWith "root:"
  | _ => false

/-- `call_cell_value` -/
def callCell (env : Env) (label : List Char) (log : Log) : Except Exn Value × Log :=
  let lab := Cell.upper label
  match Cell.extractLabel lab with
  | none => (.error (.py "not enough values to unpack"), log)
  | some (row, col) => (.ok (env.cellValue lab), log ++ [.cell lab row col])

/-- `call_range_value` (after the label repair) -/
def callRange (env : Env) (a b : List Char) (log : Log) : Except Exn Value × Log :=
  let sl := Cell.upper a
  let el := Cell.upper b
  match Cell.extractLabel sl, Cell.extractLabel el with
  | some (sRow, sCol), some (eRow, eCol) =>
    let (r1, r2) := if sRow.index ≤ eRow.index then (sRow, eRow) else (eRow, sRow)
    let (c1, c2) := if sCol.index ≤ eCol.index then (sCol, eCol) else (eCol, sCol)
    let l1 := Cell.toLabel r1 c1
    let l2 := Cell.toLabel r2 c2
    (.ok (env.rangeValue l1 l2), log ++ [.range l1 r1 c1 l2 r2 c2])
  | _, _ => (.error (.py "not enough values to unpack"), log)

/-- `call_variable` -/
def callVariable (env : Env) (name : List Char) (log : Log) : Except Exn Value × Log :=
  let log' := log ++ [.var name]
  match env.vars name with
  | some v => (.ok v, log')
  | none => match predefined name with
    | some v => (.ok v, log')
    | none => (.error (.xl .name), log')

/-- lists and host objects: values whose comparison with one another is Python's own business -/
def isForeign : Value → Bool
  | .arr _ => true
  | .other _ => true
  | _ => false

/-- a comparison as the evaluator performs it: when both operands are lists or host objects the
    outcome is decided by Python's comparison of those objects (list order, identity, a class's own
    `__lt__`), which the model does not describe — it answers "no opinion" -/
def evalLogicG (op : Ops.CmpOp) (l r : Value) : Ops.Res :=
  if isForeign l && isForeign r then .ok (.other "comparison-of-two-foreign-values")
  else evalLogic op l r

/-- `call_function` (after the repairs): instance functions shadow the registry; a miss
    raises #NAME? before anything is called; an exception inside the function becomes the
    call's value -/
def callFunction (env : Env) (name : List Char) (args : List Value) (log : Log) : Except Exn Value × Log :=
  let nm := String.ofList name
  let fn? : Option HostFn :=
    match env.custom name with
    | some f => some f
    | none =>
      if Builtins.isRegistered nm then
        match Builtins.model? nm with
        | some b => some (fun a => match b a with
            | .ok v => if isNoOpinion v then .error .unmodelled else .ok v
            | .error e => .error (.xl e))
        | none => some (fun _ => .error .unmodelled)
      else none
  match fn? with
  | none => (.error (.xl .name), log)
  | some f =>
    match f args with
    | .ok v => (.ok v, log ++ [.fn name args])
    | .error .unmodelled => (.error .unmodelled, log)
    | .error x => (.ok (.err x.toErr), log ++ [.fn name args])

def binOfOp (op : BinOp) (l r : Value) : Except Exn Value :=
  let lift (x : Ops.Res) : Except Exn Value := match x with
    | .ok (.other _) => .error .unmodelled      -- text of a float/date/list under `&`: not modelled
    | .ok v => .ok v
    | .error e => .error (.py (singletonMessage e))
  match op with
  | .add => lift (evalArith 64 .add l r)
  | .sub => lift (evalArith 64 .sub l r)
  | .mul => lift (evalArith 64 .mul l r)
  | .div => lift (evalArith 64 .div l r)
  | .amp => lift (evalAmp l r)
  | .gt => lift (evalLogicG .gt l r)
  | .lt => lift (evalLogicG .lt l r)
  | .ge => lift (evalLogicG .ge l r)
  | .le => lift (evalLogicG .le l r)
  | .eq => lift (evalLogicG .eq l r)
  | .ne => lift (evalLogicG .ne l r)

/-- text of an error literal → `_throw_error(p[1])` raises `from_message(text)` -/
def throwErrorLit (text : List Char) : Exn := .xl (fromMessage (String.ofList text))

/-- values of a sequence: `flat` = the slots, `rows` = the list of the two rows -/
def seqValues (kind : SeqKind) (a b : List Value) : List Value :=
  match kind with
  | .empty => []
  | .flat => a
  | .rows => [.arr a, .arr b]

mutual
def evalExpr (env : Env) : Expr → Log → Except Exn Value × Log
  | .num l, log => if numLitTooBig l then (.error (.xl .num), log) else (.ok (evalNumLit l), log)
  | .str s, log => (.ok (.str s), log)
  | .errLit t, log => (.error (throwErrorLit t), log)
  | .blankSlot, log => (.ok .blank, log)
  | .neg e, log =>
    match evalExpr env e log with
    | (.error x, log') => (.error x, log')
    | (.ok v, log') =>
      (match evalNeg v with
       | .ok r => (.ok r, log')
       | .error e => (.error (.py (singletonMessage e)), log'))
  | .bin op l r, log =>
    match evalExpr env l log with
    | (.error x, log1) => (.error x, log1)
    | (.ok lv, log1) =>
      match evalExpr env r log1 with
      | (.error x, log2) => (.error x, log2)
      | (.ok rv, log2) => (binOfOp op lv rv, log2)
  | .call name kind a b, log =>
    match evalList env a log with
    | (.error x, log1) => (.error x, log1)
    | (.ok av, log1) =>
      match evalList env b log1 with
      | (.error x, log2) => (.error x, log2)
      | (.ok bv, log2) => callFunction env name (seqValues kind av bv) log2
  | .arr kind a b, log =>
    match evalList env a log with
    | (.error x, log1) => (.error x, log1)
    | (.ok av, log1) =>
      match evalList env b log1 with
      | (.error x, log2) => (.error x, log2)
      | (.ok bv, log2) => (.ok (.arr (seqValues kind av bv)), log2)
  | .var names, log => callVariable env (names.headD []) log
  | .cell label, log => callCell env label log
  | .range a b, log => callRange env a b log

def evalList (env : Env) : List Expr → Log → Except Exn (List Value) × Log
  | [], log => (.ok [], log)
  | e :: es, log =>
    match evalExpr env e log with
    | (.error x, log1) => (.error x, log1)
    | (.ok v, log1) =>
      match evalList env es log1 with
      | (.error x, log2) => (.error x, log2)
      | (.ok vs, log2) => (.ok (v :: vs), log2)
end

/-! ### the record -/

structure Record where
  result : Option Value       -- `none` = Python `None`
  error : Option Err
  deriving Repr

/-- the `try/except` + `isinstance(result, XLError)` wrapper of `Parser.parse` -/
def finish (o : Except Exn Value) : Record :=
  match o with
  | .error .unmodelled => { result := some (.other "unmodelled-builtin"), error := none }
  | .error x => { result := none, error := some x.toErr }
  | .ok (.err e) => { result := none, error := some (fromMessage (singletonMessage e)) }
  | .ok .blank => { result := none, error := none }
  | .ok v => { result := some v, error := none }

def exnOfPErr : PErr → Exn
  | .syntax => .xl (fromMessage (singletonMessage .error))   -- p_error: throw_error(error.ERROR)
  | .name => .xl .name                                        -- t_error: raise error.NAME

/-- `Parser.parse(expression)` with its event log -/
def parseTop (env : Env) (s : List Char) : Record × Log :=
  if s.isEmpty then ({ result := some (.str []), error := none }, [])
  else match parseFormula s with
    | .error e => (finish (.error (exnOfPErr e)), [])
    | .ok x =>
      let (o, log) := evalExpr env x []
      (finish o, log)

end HotXL.Eval
