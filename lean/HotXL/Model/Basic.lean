/-
  HotXL.Model.Basic — values that flow through a hotxlfp formula, and the
  S-expression wire format of the driver.  Core Lean only (no Mathlib).
-/
namespace HotXL

/-- The nine canonical error singletons of `hotxlfp/formulas/error.py`. -/
inductive Err where
  | error | div0 | name | na | null | num | ref | value | data
  deriving DecidableEq, Repr, Inhabited

/-- Python `int` / finite Python `float` (by exact rational value). -/
inductive Num where
  | int (i : Int)
  | flt (q : Rat)
  deriving DecidableEq, Repr, Inhabited

/-- Values: what a Python object flowing through a formula is modelled as. -/
inductive Value where
  | num (n : Num)
  | bool (b : Bool)
  | str (s : List Char)
  | blank
  | err (e : Err)
  | date (us : Int)            -- naive datetime, MICROseconds since 1900-01-01T00:00
  | arr (xs : List Value)
  | other (tag : String)       -- any other host object
  deriving Repr, Inhabited

/-! ## S-expressions (wire format) -/

inductive Sexp where
  | atom (s : String)
  | list (xs : List Sexp)
  deriving Repr, Inhabited

namespace Sexp

partial def toStr : Sexp → String
  | atom s => s
  | list xs => "(" ++ " ".intercalate (xs.map toStr) ++ ")"

/-- tokenise: parentheses are tokens, everything else splits on blanks -/
def tokens (cs : List Char) : List String :=
  let rec go (cs : List Char) (cur : List Char) (acc : List String) : List String :=
    let flush (acc : List String) := if cur.isEmpty then acc else (String.ofList cur.reverse) :: acc
    match cs with
    | [] => (flush acc).reverse
    | c :: rest =>
      if c == '(' || c == ')' then go rest [] (String.singleton c :: flush acc)
      else if c == ' ' || c == '\n' || c == '\r' || c == '\t' then go rest [] (flush acc)
      else go rest (c :: cur) acc
  go cs [] []

/-- parse a token list into a sequence of S-expressions -/
partial def parseSeq (ts : List String) : List Sexp × List String :=
  match ts with
  | [] => ([], [])
  | ")" :: rest => ([], rest)
  | "(" :: rest =>
    let (inner, rest') := parseSeq rest
    let (more, rest'') := parseSeq rest'
    (list inner :: more, rest'')
  | t :: rest =>
    let (more, rest') := parseSeq rest
    (atom t :: more, rest')

def parseLine (line : String) : List Sexp := (parseSeq (tokens line.toList)).1

end Sexp

/-! ## hex coding of strings (code points, 6 hex digits each would be wasteful: use
    `-`-separated decimal code points; empty string is `_`) -/

def encodeChars (cs : List Char) : String :=
  if cs.isEmpty then "_" else "-".intercalate (cs.map (fun c => toString c.toNat))

def decodeChars (s : String) : List Char :=
  if s == "_" then [] else (s.splitOn "-").filterMap (fun t => t.toNat?.map Char.ofNat)

def Err.code : Err → String
  | .error => "#ERROR!" | .div0 => "#DIV/0!" | .name => "#NAME?" | .na => "#N/A"
  | .null => "#NULL!" | .num => "#NUM!" | .ref => "#REF!" | .value => "#VALUE!"
  | .data => "#GETTING_DATA"

def Err.tag : Err → String
  | .error => "error" | .div0 => "div0" | .name => "name" | .na => "na"
  | .null => "null" | .num => "num" | .ref => "ref" | .value => "value" | .data => "data"

def Err.ofTag : String → Option Err
  | "error" => some .error | "div0" => some .div0 | "name" => some .name | "na" => some .na
  | "null" => some .null | "num" => some .num | "ref" => some .ref | "value" => some .value
  | "data" => some .data | _ => none

def Err.all : List Err := [.error, .div0, .name, .na, .null, .num, .ref, .value, .data]

partial def Value.toSexp : Value → Sexp
  | .num (.int i) => .list [.atom "i", .atom (toString i)]
  | .num (.flt q) => .list [.atom "f", .atom (toString q.num), .atom (toString q.den)]
  | .bool b => .list [.atom "b", .atom (if b then "1" else "0")]
  | .str s => .list [.atom "s", .atom (encodeChars s)]
  | .blank => .atom "nil"
  | .err e => .list [.atom "e", .atom e.tag]
  | .date us => .list [.atom "d", .atom (toString us)]
  | .arr xs => .list (.atom "a" :: xs.map Value.toSexp)
  | .other t => .list [.atom "o", .atom t]

partial def Value.ofSexp : Sexp → Option Value
  | .atom "nil" => some .blank
  | .list [.atom "i", .atom n] => n.toInt?.map (fun i => .num (.int i))
  | .list [.atom "f", .atom n, .atom d] =>
      match n.toInt?, d.toNat? with
      | some n, some d => if d == 0 then none else some (.num (.flt (mkRat n d)))
      | _, _ => none
  | .list [.atom "b", .atom b] => some (.bool (b == "1"))
  | .list [.atom "s", .atom s] => some (.str (decodeChars s))
  | .list [.atom "e", .atom t] => (Err.ofTag t).map .err
  | .list [.atom "d", .atom n] => n.toInt?.map .date
  | .list (.atom "a" :: xs) => (xs.mapM Value.ofSexp).map .arr
  | .list [.atom "o", .atom t] => some (.other t)
  | _ => none

end HotXL
