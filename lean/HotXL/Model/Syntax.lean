/-
  HotXL.Model.Syntax — expression trees and a deterministic operator-precedence parser
  standing for the LALR parser that ply.yacc builds from hotxlfp/grammarparser/parser.py.

  * binary operators, their levels and associativity are read from
    `HotXL.Generated.precedence` (regenerated from `Parser.precedence`);
  * unary minus uses the `%prec` name of the `MINUS expression` production
    (`HotXL.Generated.productions`);
  * argument / array-element sequences are parsed at the level of items
    (expression | separator) and accepted exactly for the shapes ply's tables accept
    (`acceptFlat`, `classify`).
  That ply's generated tables implement THIS parser is tied by the tree-shape
  correspondence check (trusted base), not proved.
-/
import HotXL.Model.Lexer
import HotXL.Generated.Grammar

namespace HotXL.Syntax
open HotXL HotXL.Lexer

inductive BinOp where
  | add | sub | mul | div | amp | gt | lt | ge | le | eq | ne
  deriving DecidableEq, Repr, Inhabited

def BinOp.ofTK : TK → Option BinOp
  | .PLUS => some .add | .MINUS => some .sub | .MULT => some .mul | .DIV => some .div
  | .AMP => some .amp | .GREATER => some .gt | .LESS => some .lt | .GREATEREQ => some .ge
  | .LESSEQ => some .le | .EQUAL => some .eq | .NOTEQUAL => some .ne | _ => none

def BinOp.tk : BinOp → TK
  | .add => .PLUS | .sub => .MINUS | .mul => .MULT | .div => .DIV | .amp => .AMP
  | .gt => .GREATER | .lt => .LESS | .ge => .GREATEREQ | .le => .LESSEQ | .eq => .EQUAL | .ne => .NOTEQUAL

def BinOp.text : BinOp → List Char
  | .add => ['+'] | .sub => ['-'] | .mul => ['*'] | .div => ['/'] | .amp => ['&']
  | .gt => ['>'] | .lt => ['<'] | .ge => ['>', '='] | .le => ['<', '='] | .eq => ['='] | .ne => ['<', '>']

inductive Assoc where
  | left | right | nonassoc
  deriving DecidableEq, Repr

/-- level (1 = loosest) and associativity of a precedence name in a yacc `precedence` table -/
def precIn (tbl : List (String × List String)) (name : String) : Option (Nat × Assoc) :=
  let rec go (t : List (String × List String)) (lvl : Nat) : Option (Nat × Assoc) :=
    match t with
    | [] => none
    | (a, names) :: rest =>
      if names.contains name then
        some (lvl, if a = "left" then .left else if a = "right" then .right else .nonassoc)
      else go rest (lvl + 1)
  go tbl 1

def precOf (name : String) : Option (Nat × Assoc) := precIn Generated.precedence name

/-- the `%prec` name of the production `expression : MINUS expression` -/
def uminusPrecName : String :=
  match Generated.productions.find? (fun p => p.2.1 = "expression" && p.2.2.1 = ["MINUS", "expression"]) with
  | some p => if p.2.2.2 = "" then "MINUS" else p.2.2.2
  | none => "MINUS"

def uminusLevel : Nat := match precOf uminusPrecName with | some (l, _) => l | none => 0

def binLevel (op : BinOp) : Option (Nat × Assoc) := precOf op.tk.name

/-- the five numeric literal forms of `p_expression_number` (digit strings) -/
inductive NumLit where
  | int (a : List Char)
  | dec (a b : List Char)
  | dotDec (b : List Char)
  | pow (a b : List Char)
  | pct (a : List Char)
  deriving DecidableEq, Repr, Inhabited

/-- how an argument / element sequence was written -/
inductive SeqKind where
  | empty            -- `F()`
  | flat             -- one separator kind: a flat list of slots
  | rows             -- `row ; row`: the list of the two rows
  deriving DecidableEq, Repr, Inhabited

inductive Expr where
  | num (l : NumLit)
  | str (s : List Char)
  | errLit (text : List Char)
  | neg (e : Expr)
  | bin (op : BinOp) (l r : Expr)
  | call (name : List Char) (kind : SeqKind) (a b : List Expr)
  | arr (kind : SeqKind) (a b : List Expr)
  | var (names : List (List Char))
  | cell (label : List Char)
  | range (a b : List Char)
  | blankSlot                  -- an omitted argument slot (`None`)
  deriving Repr, Inhabited

inductive PErr where
  | syntax      -- ply calls `p_error` -> `#ERROR!`
  | name        -- the lexer's `t_error` raised `#NAME?`
  deriving DecidableEq, Repr

abbrev PRes (α : Type) := Except PErr α

inductive Item where
  | e (x : Expr)
  | sep (k : TK)
  deriving Repr, Inhabited

def isSepTK (k : TK) : Bool := k = .COMMA || k = .SEMICOLON || k = .BACKSLASH
def isCellTK (k : TK) : Bool := k = .ABSOLUTE_CELL || k = .RELATIVE_CELL || k = .MIXED_CELL

/-- shapes of a one-separator sequence that ply's tables accept, over `true` = expression,
    `false` = separator:  `s^k (k ≥ 2)`  |  `s^k e (s{1,2} e)* s?` -/
def acceptTail : List Bool → Bool          -- after an expression
  | [] => true
  | [false] => true
  | false :: true :: rest => acceptTail rest
  | false :: false :: true :: rest => acceptTail rest
  | _ => false

def acceptFlat (shape : List Bool) : Bool :=
  let lead := shape.takeWhile (· = false)
  match shape.dropWhile (· = false) with
  | [] => lead.length ≥ 2
  | _ :: rest => acceptTail rest        -- first expression, then the tail

/-- slots of a flat item list: split at the separators, an empty piece is a blank -/
def slotsOf : List Item → List Expr
  | [] => [.blankSlot]
  | [.e x] => [x]
  | .e x :: .sep _ :: rest => x :: slotsOf rest
  | .sep _ :: rest => .blankSlot :: slotsOf rest
  | .e x :: rest => x :: slotsOf rest     -- adjacent expressions never pass `acceptFlat`

def shapeOf (items : List Item) : List Bool :=
  items.map (fun i => match i with | .e _ => true | .sep _ => false)

def sepKinds (items : List Item) : List TK :=
  (items.filterMap (fun i => match i with | .sep k => some k | .e _ => none)).eraseDups

def splitAtSemicolon : List Item → List Item × List Item
  | [] => ([], [])
  | .sep .SEMICOLON :: rest => ([], rest)
  | i :: rest => let (a, b) := splitAtSemicolon rest; (i :: a, b)

/-- what the item sequence between the brackets means, or `none` (syntax error) -/
def classify (items : List Item) : Option (SeqKind × List Expr × List Expr) :=
  let kinds := sepKinds items
  if kinds.length ≤ 1 then
    if items.isEmpty then none
    else if acceptFlat (shapeOf items) then some (.flat, slotsOf items, []) else none
  else
    let nSemi := (items.filter (fun i => match i with | .sep .SEMICOLON => true | _ => false)).length
    if kinds.length = 2 && kinds.contains .SEMICOLON && nSemi = 1 then
      let (rowA, rowB) := splitAtSemicolon items
      -- the first row must itself contain a separator (otherwise `e ;` starts a semicolon list)
      if (sepKinds rowA).length = 1 && !rowA.isEmpty && !rowB.isEmpty
          && acceptFlat (shapeOf rowA) && acceptFlat (shapeOf rowB) then
        some (.rows, slotsOf rowA, slotsOf rowB)
      else none
    else none

def stripQuotes (s : List Char) : List Char := (s.drop 1).dropLast

mutual
/-- `fuel` bounds the recursion depth; `2 * tokens + 2` is always enough -/
def parsePrimary : Nat → List Token → PRes (Expr × List Token)
  | 0, _ => .error .syntax
  | fuel + 1, ts =>
    match ts with
    | [] => .error .syntax
    | t :: r =>
      match t.kind with
      | .LEXERROR => .error .name
      | .NUMBER =>
        match r with
        | ⟨.DECIMAL, _⟩ :: r1 =>
          (match r1 with
           | ⟨.NUMBER, b⟩ :: r2 => .ok (.num (.dec t.text b), r2)
           | ⟨.LEXERROR, _⟩ :: _ => .error .name
           | _ => .error .syntax)
        | ⟨.CARET, _⟩ :: r1 =>
          (match r1 with
           | ⟨.NUMBER, b⟩ :: r2 => .ok (.num (.pow t.text b), r2)
           | ⟨.LEXERROR, _⟩ :: _ => .error .name
           | _ => .error .syntax)
        | ⟨.PERCENT, _⟩ :: r1 => .ok (.num (.pct t.text), r1)
        | _ => .ok (.num (.int t.text), r)
      | .DECIMAL =>
        (match r with
         | ⟨.NUMBER, b⟩ :: r2 => .ok (.num (.dotDec b), r2)
         | ⟨.LEXERROR, _⟩ :: _ => .error .name
         | _ => .error .syntax)
      | .STRING => .ok (.str (stripQuotes t.text), r)
      | .XLERROR => .ok (.errLit t.text, r)
      | .FUNCTION =>
        (match r with
         | ⟨.LPAREN, _⟩ :: ⟨.RPAREN, _⟩ :: r2 => .ok (.call t.text .empty [] [], r2)
         | ⟨.LPAREN, _⟩ :: r1 =>
           match parseItems fuel r1 with
           | .error e => .error e
           | .ok (items, r2) =>
             (match r2 with
              | ⟨.RPAREN, _⟩ :: r3 =>
                (match classify items with
                 | some (k, a, b) => .ok (.call t.text k a b, r3)
                 | none => .error .syntax)
              | ⟨.LEXERROR, _⟩ :: _ => .error .name
              | _ => .error .syntax)
         | ⟨.LEXERROR, _⟩ :: _ => .error .name
         | _ => .error .syntax)
      | .LBRACKET =>
        (match parseItems fuel r with
         | .error e => .error e
         | .ok (items, r2) =>
           (match r2 with
            | ⟨.RBRACKET, _⟩ :: r3 =>
              (match classify items with
               | some (k, a, b) => .ok (.arr k a b, r3)
               | none => .error .syntax)
            | ⟨.LEXERROR, _⟩ :: _ => .error .name
            | _ => .error .syntax))
      | .LPAREN =>
        (match parseExpr fuel 0 r with
         | .error e => .error e
         | .ok (x, r2) =>
           (match r2 with
            | ⟨.RPAREN, _⟩ :: r3 => .ok (x, r3)
            | ⟨.LEXERROR, _⟩ :: _ => .error .name
            | _ => .error .syntax))
      | .VARIABLE => parseVarSeq fuel [t.text] r
      | .MINUS =>
        (match parseExpr fuel uminusLevel r with
         | .error e => .error e
         | .ok (x, r2) => .ok (.neg x, r2))
      | k =>
        if isCellTK k then
          (match r with
           | ⟨.COLON, _⟩ :: r1 =>
             (match r1 with
              | t2 :: r2 =>
                if isCellTK t2.kind then .ok (.range t.text t2.text, r2)
                else if t2.kind = .LEXERROR then .error .name else .error .syntax
              | [] => .error .syntax)
           | _ => .ok (.cell t.text, r))
        else .error .syntax

/-- `variable_sequence : VARIABLE | variable_sequence DECIMAL VARIABLE` (names collected) -/
def parseVarSeq : Nat → List (List Char) → List Token → PRes (Expr × List Token)
  | 0, _, _ => .error .syntax
  | fuel + 1, acc, ts =>
    match ts with
    | ⟨.DECIMAL, _⟩ :: r1 =>
      (match r1 with
       | ⟨.VARIABLE, v⟩ :: r2 => parseVarSeq fuel (acc ++ [v]) r2
       | ⟨.LEXERROR, _⟩ :: _ => .error .name
       | _ => .error .syntax)
    | _ => .ok (.var acc, ts)

/-- an expression whose binary operators all have level ≥ `minLevel` -/
def parseExpr : Nat → Nat → List Token → PRes (Expr × List Token)
  | 0, _, _ => .error .syntax
  | fuel + 1, minLevel, ts =>
    match parsePrimary fuel ts with
    | .error e => .error e
    | .ok (l, r) => parseLoop fuel minLevel l r

def parseLoop : Nat → Nat → Expr → List Token → PRes (Expr × List Token)
  | 0, _, _, _ => .error .syntax
  | fuel + 1, minLevel, l, ts =>
    match ts with
    | [] => .ok (l, [])
    | t :: r =>
      match BinOp.ofTK t.kind with
      | none => .ok (l, ts)
      | some op =>
        match binLevel op with
        | none => .ok (l, ts)
        | some (lvl, assoc) =>
          if lvl ≥ minLevel then
            let next := match assoc with | .right => lvl | _ => lvl + 1
            match parseExpr fuel next r with
            | .error e => .error e
            | .ok (rhs, r2) => parseLoop fuel minLevel (.bin op l rhs) r2
          else .ok (l, ts)

/-- items (expressions and separators) up to the closing bracket -/
def parseItems : Nat → List Token → PRes (List Item × List Token)
  | 0, _ => .error .syntax
  | fuel + 1, ts =>
    match ts with
    | [] => .ok ([], [])
    | t :: r =>
      if t.kind = .RPAREN || t.kind = .RBRACKET then .ok ([], ts)
      else if isSepTK t.kind then
        match parseItems fuel r with
        | .error e => .error e
        | .ok (items, r2) => .ok (.sep t.kind :: items, r2)
      else
        match parseExpr fuel 0 ts with
        | .error e => .error e
        | .ok (x, r2) =>
          match parseItems fuel r2 with
          | .error e => .error e
          | .ok (items, r3) => .ok (.e x :: items, r3)
end

/-- `expressions : expression` over the whole token list -/
def parseTokens (ts : List Token) : PRes Expr :=
  match parseExpr (3 * ts.length + 3) 0 ts with
  | .error e => .error e
  | .ok (x, []) => .ok x
  | .ok (_, t :: _) => if t.kind = .LEXERROR then .error .name else .error .syntax

def parseFormula (s : List Char) : PRes Expr := parseTokens (tokenize s)

end HotXL.Syntax
