/-
  HotXL.Model.Calendar — the proleptic Gregorian calendar as CPython's `datetime`
  implements it (`_ymd2ord`, `_ord2ymd`, `_is_leap`, `_days_in_month`, `weekday`).
  Ordinals: 0001-01-01 is day 1.
-/
import HotXL.Model.Basic

namespace HotXL.Calendar

def isLeap (y : Int) : Bool := y % 4 = 0 && (y % 100 ≠ 0 || y % 400 = 0)

/-- `_DAYS_IN_MONTH[m]` (1-based; February = 28) -/
def daysInMonthCommon : Nat → Int
  | 1 => 31 | 2 => 28 | 3 => 31 | 4 => 30 | 5 => 31 | 6 => 30
  | 7 => 31 | 8 => 31 | 9 => 30 | 10 => 31 | 11 => 30 | 12 => 31 | _ => 0

def daysInMonth (y : Int) (m : Nat) : Int :=
  if m = 2 && isLeap y then 29 else daysInMonthCommon m

/-- `_DAYS_BEFORE_MONTH[m]` -/
def daysBeforeMonthCommon : Nat → Int
  | 1 => 0 | 2 => 31 | 3 => 59 | 4 => 90 | 5 => 120 | 6 => 151
  | 7 => 181 | 8 => 212 | 9 => 243 | 10 => 273 | 11 => 304 | 12 => 334 | _ => 0

def daysBeforeMonth (y : Int) (m : Nat) : Int :=
  daysBeforeMonthCommon m + (if m > 2 && isLeap y then 1 else 0)

def daysBeforeYear (y : Int) : Int :=
  let y1 := y - 1
  y1 * 365 + y1 / 4 - y1 / 100 + y1 / 400

/-- `_ymd2ord` -/
def ordinalOfYMD (y : Int) (m : Nat) (d : Int) : Int :=
  daysBeforeYear y + daysBeforeMonth y m + d

def validYMD (y : Int) (m : Nat) (d : Int) : Bool :=
  1 ≤ y && y ≤ 9999 && 1 ≤ m && m ≤ 12 && 1 ≤ d && d ≤ daysInMonth y m

/-- `_ord2ymd` (for ordinals ≥ 1) -/
def ymdOfOrdinal (ord : Int) : Int × Nat × Int :=
  let n := ord - 1
  let n400 := n / 146097
  let n := n % 146097
  let year := n400 * 400 + 1
  let n100 := n / 36524
  let n := n % 36524
  let n4 := n / 1461
  let n := n % 1461
  let n1 := n / 365
  let n := n % 365
  let year := year + n100 * 100 + n4 * 4 + n1
  if n1 = 4 || n100 = 4 then (year - 1, 12, 31) else
  let leapyear : Bool := n1 = 3 && (n4 ≠ 24 || n100 = 3)
  let month : Nat := ((n + 50) / 32).toNat
  let preceding := daysBeforeMonthCommon month + (if month > 2 && leapyear then 1 else 0)
  if preceding > n then
    let month' := month - 1
    let preceding' := preceding - (daysInMonthCommon month' + (if month' = 2 && leapyear then 1 else 0))
    (year, month', n - preceding' + 1)
  else (year, month, n - preceding + 1)

/-- `date.weekday()`: Monday = 0 … Sunday = 6 -/
def weekday (ord : Int) : Int := (ord + 6) % 7

end HotXL.Calendar
