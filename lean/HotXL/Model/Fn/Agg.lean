/-
  HotXL.Model.Fn.Agg — builtin functions of this family (filled in as the family is modelled).
-/
import HotXL.Model.Fn.Common

namespace HotXL.Fn.Agg
open HotXL HotXL.Ops HotXL.Fn

/-- SUM(*args) = sum(inumbers(args, try_parse=True))  (hotxlfp/formulas/mathtrig.py) -/
def SUM : Builtin := fun args => (inumbers true false args).map (fun xs => .num (pySum xs))

def table : List (String × Builtin) := [("SUM", SUM)]

end HotXL.Fn.Agg
