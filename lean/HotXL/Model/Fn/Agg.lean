/-
  HotXL.Model.Fn.Agg — SUM, PRODUCT, SUMIF, SUMIFS of hotxlfp/formulas/mathtrig.py and the
  criteria machinery of hotxlfp/formulas/utils.py (`REGEX_CRITERIA`, `OPERATOR_DICT`,
  `parse_criteria`) shared with the conditional aggregates of statistical.py
  (`HotXL.Model.Fn.Stat`).

  Conventions (see also `Fn/Common.lean`):
  * floats are exact rationals; `Num.int` / `Num.flt` follow the Python result TYPE;
  * `.error e` = the Python function raised (any non-XLError exception is `#ERROR!`);
  * `Value.other _` is an opaque host object: it is no number/text/list, `==` with it is false,
    ordering it raises TypeError, it is truthy and not iterable.
-/
import HotXL.Model.Fn.Common

namespace HotXL.Fn.Agg
open HotXL HotXL.Ops HotXL.Fn

/-! ### numeric helpers -/

/-- Python `type(x) is int` (logicals count as ints here) -/
def isInt : Num → Bool
  | .int _ => true
  | .flt _ => false

/-- no float among the items: Python keeps the result an `int` -/
def allInt (xs : List Num) : Bool := xs.all isInt

/-- exact values of the items -/
def rats (xs : List Num) : List Rat := xs.map Num.toRat

/-- Σ q -/
def ratSum : List Rat → Rat
  | [] => 0
  | q :: qs => q + ratSum qs

/-- ∏ q -/
def ratProd : List Rat → Rat
  | [] => 1
  | q :: qs => q * ratProd qs

def ratAbs (q : Rat) : Rat := if q < 0 then -q else q

/-! ### SUM, PRODUCT -/

/-- SUM(*args) = sum(inumbers(args, try_parse=True))  (hotxlfp/formulas/mathtrig.py) -/
def SUM : Builtin := fun args => (inumbers true false args).map (fun xs => .num (pySum xs))

/-- `reduce(operator.mul, xs)`: TypeError on an empty sequence, the single item itself, else
    the left-to-right product -/
def prodNums : List Num → Except Err Num
  | [] => .error .error
  | x :: xs => .ok (xs.foldl numMul x)

/-- PRODUCT(*args) = reduce(operator.mul, inumbers(args)) -/
def PRODUCT : Builtin := fun args =>
  match inumbers false false args with
  | .error e => .error e
  | .ok xs => (prodNums xs).map .num

/-! ### criteria: `parse_criteria` -/

/-- a parsed criterion: the three lambdas `parse_criteria` can return -/
inductive Crit where
  | cmp (op : CmpOp) (v : Value)     -- `lambda a: op(a, val)`, val = to_number(text after the operator)
  | glob (pat : List Char)           -- `lambda a: isinstance(a, str) and fnmatch.fnmatch(a, val)`
  | eq (v : Value)                   -- `lambda a: a == to_number(val)`
  deriving Repr

def isOpChar (c : Char) : Bool := c = '<' || c = '>' || c = '='

/-- text up to (not including) the first newline: what `.+` can match -/
def lineOf (t : List Char) : List Char := t.takeWhile (fun c => c ≠ '\n')

/-- `REGEX_CRITERIA.match(s)`: `(?P<op>[<>=]*)(?P<val>.+)` — the operator characters are taken
    greedily, but one is given back when nothing (or a newline) follows them, because `val`
    needs at least one character; `none` = no match.  Returns `(op, val)`. -/
def splitCriteria (s : List Char) : Option (List Char × List Char) :=
  let ops := s.takeWhile isOpChar
  let rest := s.dropWhile isOpChar
  let giveBack : Option (List Char × List Char) :=
    match ops.getLast? with
    | none => none
    | some c => some (ops.dropLast, [c])
  match rest with
  | [] => giveBack
  | c :: _ => if c = '\n' then giveBack else some (ops, lineOf rest)

/-- `OPERATOR_DICT[op]` for a non-empty run of `<`, `>`, `=`; `none` = KeyError -/
def opOf (op : List Char) : Option CmpOp :=
  if op = ['>'] then some .gt
  else if op = ['<'] then some .lt
  else if op = ['<', '>'] then some .ne
  else if op = ['='] then some .eq
  else if op = ['>', '='] then some .ge
  else if op = ['<', '='] then some .le
  else none

def hasWildcard (val : List Char) : Bool := val.any (fun c => c = '?' || c = '*')

/-- `parse_criteria(criteria)`; raises (`#ERROR!`) on a non-string (TypeError), on text the
    regular expression does not match (AttributeError on `None.group`) and on an operator that
    is not in `OPERATOR_DICT` such as `=<` (KeyError) -/
def parseCriteria (c : Value) : Except Err Crit :=
  match c with
  | .str s =>
    match splitCriteria s with
    | none => .error .error
    | some (op, val) =>
      if op.isEmpty then
        if hasWildcard val then .ok (.glob val) else .ok (.eq (toNumber (.str val)))
      else match opOf op with
        | some o => .ok (.cmp o (toNumber (.str val)))
        | none => .error .error
  | _ => .error .error

/-- all suffixes of a text, longest first -/
def suffixes : List Char → List (List Char)
  | [] => [[]]
  | c :: t => (c :: t) :: suffixes t

/-- `fnmatch.fnmatchcase(text, pat)` for patterns without `[`: `*` matches any run of
    characters (newlines included), `?` exactly one character, anything else itself -/
def globMatch : List Char → List Char → Bool
  | [], t => t.isEmpty
  | p :: ps, t =>
    if p = '*' then (suffixes t).any (fun u => globMatch ps u)
    else match t with
      | [] => false
      | c :: t' => (p = '?' || p = c) && globMatch ps t'

def ratCmp (op : CmpOp) (x y : Rat) : Bool :=
  match op with
  | .gt => y < x | .lt => x < y | .ge => y ≤ x | .le => x ≤ y | .eq => x = y | .ne => x ≠ y

def strCmp (op : CmpOp) (s t : List Char) : Bool :=
  match op with
  | .gt => strLt t s | .lt => strLt s t | .ge => !strLt s t | .le => !strLt t s
  | .eq => s = t | .ne => s ≠ t

/-- `compare(a)`: `op(a, val)` with `val` a number or text, `False` when that raises TypeError:
    `==`/`!=` never raise; the orderings are defined between numbers (logicals included) and
    between texts — any other cell (text against a number, blank, error value, date, list)
    does not satisfy the criterion -/
def cmpScalar (op : CmpOp) (a v : Value) : Bool :=
  match op with
  | .eq => pyEqValue a v
  | .ne => !pyEqValue a v
  | _ =>
    match pyNumeric? a, pyNumeric? v with
    | some x, some y => ratCmp op x y
    | _, _ =>
      match a, v with
      | .str s, .str t => strCmp op s t
      | _, _ => false

/-- the predicate applied to one item (it never raises) -/
def Crit.test : Crit → Value → Bool
  | .cmp op v, a => cmpScalar op a v
  | .glob p, a =>
    match a with
    | .str s => globMatch p s
    | _ => false
  | .eq v, a => pyEqValue a v

/-- the items satisfying the predicate, in order (`a for a in items if predicate(a)`) -/
def selectBy (c : Crit) (items : List Value) : List Value := items.filter c.test

/-- the selected items as Python numbers: `0 + a` / `b += a` is a TypeError for anything else
    (text, blank, error values, dates, lists) -/
def numsOf : List Value → Except Err (List Num)
  | [] => .ok []
  | v :: rest =>
    match asNumber? v with
    | none => .error .error
    | some n => (numsOf rest).map (n :: ·)

/-- criteria strings whose wildcard semantics the model covers: no `[` (fnmatch character
    classes are library behaviour) -/
def critModelled : Value → Bool
  | .str s => !s.contains '['
  | _ => true

/-- SUMIF(args, criteria) = sum(a for a in iflatten(args) if predicate(a)) -/
def SUMIF : Builtin
  | [args, criteria] =>
    match parseCriteria criteria with
    | .error e => .error e
    | .ok c => (numsOf (selectBy c (flattenValue args))).map (fun ns => .num (pySum ns))
  | _ => .error .error

/-! ### the `…IFS` family: criteria ranges aligned by index -/

/-- `zip(criteria[::2], (parse_criteria(c) for c in criteria[1::2]))`, built eagerly:
    a criterion that does not parse raises -/
def parsePairs : List Value → Except Err (List (Value × Crit))
  | r :: c :: rest =>
    match parseCriteria c with
    | .error e => .error e
    | .ok p => (parsePairs rest).map ((r, p) :: ·)
  | _ => .ok []

/-- Python `x[i]`: list item, character of a text; IndexError / TypeError = `none` -/
def indexValue (x : Value) (i : Nat) : Option Value :=
  match x with
  | .arr xs => xs[i]?
  | .str s => (s[i]?).map (fun c => .str [c])
  | _ => none

/-- what `enumerate(x)` / `len(x)` see: a list, or the characters of a text; `none` = TypeError -/
def seqOf : Value → Option (List Value)
  | .arr xs => some xs
  | .str s => some (s.map (fun c => .str [c]))
  | _ => none

/-- `all(pred(criteria_range[i]) for criteria_range, pred in range_and_preds)`: left to right,
    stopping at the first criterion that fails; `criteria_range[i]` may raise (IndexError on a
    short range, TypeError on a non-sequence) -/
def allCrit : List (Value × Crit) → Nat → Except Err Bool
  | [], _ => .ok true
  | (r, c) :: rest, i =>
    match indexValue r i with
    | none => .error .error
    | some v => if c.test v then allCrit rest i else .ok false

/-- the items of the value range whose row (index `i`, `i+1`, …) satisfies every criterion -/
def selectRows (preds : List (Value × Crit)) : List Value → Nat → Except Err (List Value)
  | [], _ => .ok []
  | a :: rest, i =>
    match allCrit preds i with
    | .error e => .error e
    | .ok b =>
      match selectRows preds rest (i + 1) with
      | .error e => .error e
      | .ok tail => .ok (if b then a :: tail else tail)

/-- the validation loop of SUMIFS: a text criteria range returns `#ERROR!`, a length mismatch
    returns `#VALUE!`, `len()` of a non-sequence raises; `none` = all fine -/
def validateRanges (n : Nat) : List (Value × Crit) → Option (Except Err Value)
  | [] => none
  | (r, _) :: rest =>
    match r with
    | .str _ => some (.ok (.err .error))
    | .arr xs => if xs.length ≠ n then some (.ok (.err .value)) else validateRanges n rest
    | _ => some (.error .error)

/-- SUMIFS(sum_args, *criteria) -/
def SUMIFS : Builtin
  | [] => .error .error
  | sumArgs :: criteria =>
    if criteria.length % 2 ≠ 0 then .ok (.err .error) else
    match parsePairs criteria with
    | .error e => .error e
    | .ok preds =>
      match seqOf sumArgs with
      | none => .error .error
      | some items =>
        match validateRanges items.length preds with
        | some r => r
        | none =>
          match selectRows preds items 0 with
          | .error e => .error e
          | .ok sel => (numsOf sel).map (fun ns => .num (pySum ns))

/-- a builtin whose criteria arguments (at the given positions) must be in the modelled
    fragment; otherwise the model has no opinion -/
def guardCriteria (isCrit : Nat → Bool) (f : Builtin) : Builtin := fun args =>
  if (args.zipIdx.all (fun p => !isCrit p.2 || critModelled p.1)) then f args
  else .ok (.other "unmodelled-fnmatch-class")

def table : List (String × Builtin) :=
  [("SUM", SUM), ("PRODUCT", PRODUCT),
   ("SUMIF", guardCriteria (fun i => i = 1) SUMIF),
   ("SUMIFS", guardCriteria (fun i => i ≥ 2 && i % 2 = 0) SUMIFS)]

end HotXL.Fn.Agg
