/-
  HotXL.Model.Fn.Eng — model of hotxlfp/formulas/engineering.py:
    HEX2DEC DEC2HEX COMPLEX IMREAL IMAGINARY DELTA

  A Python `complex` has no constructor of its own in `Value`; it is modelled as the tagged list
  `.arr [.other "complex", .num (.flt re), .num (.flt im)]` (both parts are floats, by exact
  value).  A real Python list of that shape would be a list whose first item is a complex
  number — nothing in hotxlfp builds one.
  The complex-text parser covers `a`, `bi`, `a±bi`, `i`, `±i`, `a±i` with plain decimal numbers
  (no exponent, `inf`, `nan`, parentheses); other texts are treated as unparseable (`#NUM!`).
-/
import HotXL.Model.Fn.Common
import HotXL.Model.Fn.Round
import HotXL.Generated.Round

namespace HotXL.Fn.Eng
open HotXL HotXL.Ops HotXL.Fn HotXL.Fn.Round

/-- digit alphabet of `hex(n)[2:].upper()` (Python builtin behaviour) -/
def hexAlphabet : List Char := "0123456789ABCDEF".toList

/-- `hex(n)[2:].upper()` for `n ≥ 0` -/
def hexText (n : Nat) : List Char :=
  if n = 0 then ['0'] else (baseDigits 16 n).reverse.map (fun d => hexAlphabet.getD d '?')

/-- HEX2DEC(hex): `int(hex, 16)` needs a string (anything else: TypeError) -/
def HEX2DEC : Builtin
  | [.str s] =>
    match pyIntBase? s Generated.hex2decBase with
    | none => .ok (.err .value)
    | some dec =>
      if dec < Generated.hex2decZero || Generated.hex2decLimit ≤ dec then .ok (.err .num)
      else .ok (.num (.int (if Generated.hex2decHalf ≤ dec then dec - Generated.hex2decWrap else dec)))
  | _ => .error .error

def dec2hexCore (d : Value) (places : Option Value) : Except Err Value :=
  match parseNumber d with
  | .error e => .ok (.err e)
  | .ok dec =>
    let pl : Except Err (Option Num) :=
      match places with
      | none => .ok none
      | some p => (parseNumber p).map some
    match pl with
    | .error e => .ok (.err e)
    | .ok pl =>
      if negPlaces pl then .ok (.err .num) else
      let q := Num.toRat dec
      if q < (Generated.dec2hexLow : Rat) || (Generated.dec2hexHigh : Rat) ≤ q then .ok (.err .num) else
      match dec with
      | .flt _ => .error .error            -- TypeError: hex() of a float
      | .int i =>
        let pl := if i < 0 then none else pl
        let n := if i < 0 then i + Generated.dec2hexWrap else i
        let result := hexText n.toNat
        match pl with
        | none => .ok (.str result)
        | some p =>
          if Num.toRat p < (result.length : Rat) then .ok (.err .num) else
          match p with
          | .int w => .ok (.str (rjustZero result w.toNat))
          | .flt _ => .error .error        -- TypeError in str.rjust

/-- DEC2HEX(dec, places=DEFAULT) -/
def DEC2HEX : Builtin
  | [d] => dec2hexCore d none
  | [d, p] => dec2hexCore d (some p)
  | _ => .error .error

/-! ### complex numbers -/

def mkComplex (re im : Rat) : Value := .arr [.other "complex", .num (.flt re), .num (.flt im)]

/-- COMPLEX(real, imaginary) -/
def COMPLEX : Builtin
  | [a, b] =>
    match parseNumber a, parseNumber b with
    | .ok x, .ok y => .ok (mkComplex (Num.toRat x) (Num.toRat y))
    | _, _ => .ok (.err .value)
  | _ => .error .error

/-- index of the last `+`/`-` that is not the first character -/
def lastSignPos (s : List Char) : Option Nat :=
  let rec go : List Char → Nat → Option Nat → Option Nat
    | [], _, best => best
    | c :: r, i, best => go r (i + 1) (if (c = '+' || c = '-') && i ≠ 0 then some i else best)
  go s 0 none

/-- the imaginary coefficient text (`""`, `"+"`, `"-"`, or a number) -/
def imagCoeff? (s : List Char) : Option Rat :=
  match s with
  | [] => some 1
  | ['+'] => some 1
  | ['-'] => some (-1)
  | _ => pyFloat? s

/-- `complex(text)` on the modelled fragment (after `i`→`j`, blanks removed) -/
def complexOfText (s : List Char) : Option (Rat × Rat) :=
  if s.any PyNum.isPySpace then none else
  let last := s.getLast?
  if last = some 'j' || last = some 'J' then
    let body := s.dropLast
    match lastSignPos body with
    | some i =>
      (match pyFloat? (body.take i), imagCoeff? (body.drop i) with
       | some re, some im => some (re, im)
       | _, _ => none)
    | none => (imagCoeff? body).map (fun im => (0, im))
  else (pyFloat? s).map (fun re => (re, 0))

inductive Cx where
  | ok (re im : Rat)
  | err (e : Err)             -- a returned error value
  | raise                     -- AttributeError: no `.replace`

/-- `utils.parse_complex` -/
def parseComplex : Value → Cx
  | .blank => .ok 0 0
  | .arr [.other "complex", .num (.flt re), .num (.flt im)] => .ok re im
  | .err e => .err e
  | .str s =>
    let t := (s.map (fun c => if c = 'i' then 'j' else c)).filter (fun c => c ≠ ' ')
    (match complexOfText t with
     | some (re, im) => .ok re im
     | none => .err .num)
  | _ => .raise

/-- IMREAL(compl): `int(compl.real)` -/
def IMREAL : Builtin
  | [v] =>
    match parseComplex v with
    | .ok re _ => .ok (.num (.int (ratTrunc re)))
    | .err e => .ok (.err e)
    | .raise => .error .error
  | _ => .error .error

/-- IMAGINARY(compl): `int(compl.imag)` -/
def IMAGINARY : Builtin
  | [v] =>
    match parseComplex v with
    | .ok _ im => .ok (.num (.int (ratTrunc im)))
    | .err e => .ok (.err e)
    | .raise => .error .error
  | _ => .error .error

/-- DELTA(number1, number2) -/
def DELTA : Builtin
  | [a, b] =>
    match parseNumber a, parseNumber b with
    | .ok x, .ok y => .ok (.num (.int (if Num.toRat x = Num.toRat y then 1 else 0)))
    | _, _ => .ok (.err .value)
  | _ => .error .error

def table : List (String × Builtin) :=
  [("HEX2DEC", HEX2DEC), ("DEC2HEX", DEC2HEX), ("COMPLEX", COMPLEX), ("IMREAL", IMREAL),
   ("IMAGINARY", IMAGINARY), ("DELTA", DELTA)]

end HotXL.Fn.Eng
