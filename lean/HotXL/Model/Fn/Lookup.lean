/-
  HotXL.Model.Fn.Lookup — model of hotxlfp/formulas/lookupandreference.py
  (CHOOSE, MATCH, INDEX), with the Python semantics the code relies on:

  * `a < b` / `a > b` between Python objects (`pyLtValue`; `none` = TypeError), `a == b`
    (`Fn.pyEqValue`);
  * subscripting `v[i]` (`pySubscript`) of lists AND of text (a Python `str` is subscriptable and
    gives a one-character string), with Python's negative indices counting from the end,
    IndexError / TypeError = `none`;
  * `fnmatch.fnmatch(item.lower(), pattern.lower())` (`globMatch` on `lowerAscii`): `*`, `?` and
    literal characters.  Patterns containing `[` (fnmatch's character classes) are NOT modelled:
    the model then answers `Value.other "unmodelled-fnmatch-class"` (no opinion).
    `str.lower` is modelled on ASCII letters only.
  * a host object (`Value.other`) is taken to be a plain `object()`: unordered, not subscriptable.
-/
import HotXL.Model.Fn.Common

namespace HotXL.Fn.Lookup
open HotXL HotXL.Ops

open HotXL.Fn

/-! ### Python `<` on the modelled values -/

mutual
/-- Python `a < b`; `none` = TypeError ("'<' not supported between instances of …").
    Numbers (int, float, bool) compare by value, text by code points, lists lexicographically,
    datetimes by instant; everything else (None, error objects, mixed kinds) raises. -/
def pyLtValue : Value → Value → Option Bool
  | .str a, .str b => some (strLt a b)
  | .date a, .date b => some (decide (a < b))
  | .arr a, .arr b => pyLtList a b
  | a, b => match pyNumeric? a, pyNumeric? b with
    | some x, some y => some (decide (x < y))
    | _, _ => none
/-- `list.__lt__`: the first pair of unequal items decides, else the shorter list is smaller -/
def pyLtList : List Value → List Value → Option Bool
  | [], [] => some false
  | [], _ :: _ => some true
  | _ :: _, [] => some false
  | x :: xs, y :: ys => if pyEqValue x y then pyLtList xs ys else pyLtValue x y
end

/-- Python `a > b` (the reflected `<` for every modelled class) -/
def pyGtValue (a b : Value) : Option Bool := pyLtValue b a

/-! ### Python subscripting -/

/-- `xs[i]` on a Python sequence: a negative index counts from the end; `none` = IndexError -/
def pyListGet {α : Type} (xs : List α) (i : Int) : Option α :=
  if 0 ≤ i then xs[i.toNat]?
  else if 0 ≤ (xs.length : Int) + i then xs[((xs.length : Int) + i).toNat]?
  else none

/-- `v[n]`: lists and text are subscriptable by an int (text gives a one-character string);
    `none` = IndexError or TypeError (float index, or a value that is not subscriptable) -/
def pySubscript (v : Value) (n : Num) : Option Value :=
  match n with
  | .flt _ => none
  | .int i =>
    match v with
    | .arr xs => pyListGet xs i
    | .str s => (pyListGet s i).map (fun c => .str [c])
    | _ => none

/-- `[row[n] for row in arr]`; `none` = one of the subscriptions raised -/
def subscriptAll (n : Num) : List Value → Option (List Value)
  | [] => some []
  | r :: rs =>
    match pySubscript r n, subscriptAll n rs with
    | some v, some vs => some (v :: vs)
    | _, _ => none

/-! ### CHOOSE -/

/-- CHOOSE(*args).  `index < 1` raises TypeError for anything that is not a number (text is NOT
    coerced); a float index passes the range tests and then fails as a list index. -/
def CHOOSE : Builtin := fun args =>
  if args.length < 2 then .ok (.err .na) else
  match args with
  | [] => .ok (.err .na)
  | idx :: _ =>
    match asNumber? idx with
    | none => .error .error
    | some n =>
      if Num.toRat n < 1 ∨ Num.toRat n > 254 then .ok (.err .value)
      else if ((args.length : Int) : Rat) < Num.toRat n + 1 then .ok (.err .value)
      else match n with
        | .int i => (match pyListGet args i with
            | some v => .ok v
            | none => .error .error)
        | .flt _ => .error .error

/-! ### INDEX -/

/-- `row_num` / `column_num` after `None → DEFAULT` and `utils.parse_number`:
    `.ok none` = DEFAULT (omitted or blank), `.error e` = the error value INDEX returns -/
def indexArg : Value → Except Err (Option Num)
  | .blank => .ok none
  | v => match parseNumber v with
    | .ok n => .ok (some n)
    | .error e => .error e

/-- `x if no exception else #REF!` -/
def refOr (o : Option Value) : Value := o.getD (.err .ref)

/-- `n - 1` -/
def pred1 (n : Num) : Num := numSub n (.int 1)

/-- the `try:` block of INDEX (`arr` is a list; `none` = DEFAULT) -/
def indexCore (arr : List Value) (bidim : Bool) : Option Num → Option Num → Value
  | none, none => .err .value          -- excluded before the block is reached
  | none, some c =>
    if Num.isZero c then .arr arr
    else if bidim then refOr ((subscriptAll (pred1 c) arr).map .arr)
    else refOr (pySubscript (.arr arr) (pred1 c))
  | some r, none =>
    if Num.isZero r then .arr arr
    else refOr (pySubscript (.arr arr) (pred1 r))
  | some r, some c =>
    if Num.isZero r && Num.isZero c then .arr arr
    else if Num.isZero r then
      if !bidim then .err .ref        -- the elements are not rows
      else refOr ((subscriptAll (pred1 c) arr).map .arr)
    else if Num.isZero c then refOr (pySubscript (.arr arr) (pred1 r))
    else if !bidim then
      if Num.toRat c = 1 then refOr (pySubscript (.arr arr) (pred1 r))
      else .err .ref                  -- the elements are not rows
    else refOr ((pySubscript (.arr arr) (pred1 r)).bind (fun row => pySubscript row (pred1 c)))

def isArr : Value → Bool
  | .arr _ => true
  | _ => false

def numNegative : Option Num → Bool
  | some n => decide (Num.toRat n < 0)
  | none => false

/-- INDEX(arr, row_num, column_num) on evaluated arguments (blank = omitted) -/
def index3 (a r c : Value) : Except Err Value :=
  match a with
  | .blank => .ok (.err .value)
  | _ =>
    match r, c with
    | .blank, .blank => .ok (.err .value)
    | _, _ =>
      let arr : List Value := match a with
        | .arr xs => xs
        | v => [.arr [v]]
      match arr with
      | [] => .error .error            -- `arr[0]`: IndexError outside the try
      | first :: _ =>
        match indexArg r with
        | .error e => .ok (.err e)
        | .ok row =>
          match indexArg c with
          | .error e => .ok (.err e)
          | .ok col =>
            if numNegative row || numNegative col then .ok (.err .value)
            else .ok (indexCore arr (isArr first) row col)

/-- INDEX(arr, row_num=DEFAULT, column_num=DEFAULT, area_num=DEFAULT); `area_num` is ignored -/
def INDEX : Builtin
  | [a] => index3 a .blank .blank
  | [a, r] => index3 a r .blank
  | [a, r, c] => index3 a r c
  | [a, r, c, _] => index3 a r c
  | _ => .error .error

/-! ### MATCH -/

/-- `str.lower()` on ASCII letters -/
def lowerChar (c : Char) : Char :=
  if 'A'.toNat ≤ c.toNat ∧ c.toNat ≤ 'Z'.toNat then Char.ofNat (c.toNat + 32) else c

def lowerAscii (s : List Char) : List Char := s.map lowerChar

/-- does `f` hold of some suffix of the text (the candidates for what follows a `*`)? -/
def anySuffix (f : List Char → Bool) : List Char → Bool
  | [] => f []
  | d :: s => f (d :: s) || anySuffix f s

/-- `fnmatch.fnmatchcase(text, pattern)` for patterns made of `*` (any sequence of characters,
    possibly empty), `?` (any one character) and literal characters.  Arguments: pattern, text. -/
def globMatch : List Char → List Char → Bool
  | [], s => s.isEmpty
  | c :: p, s =>
    if c = '*' then anySuffix (globMatch p) s
    else match s with
      | [] => false
      | d :: s' => (c = '?' || c = d) && globMatch p s'

/-- does the item at hand "equal" the lookup value at match type 0?  `none` = AttributeError
    (`item.lower()` on something that is not text) -/
def itemMatches (x item : Value) : Option Bool :=
  match x with
  | .str p =>
    (match item with
     | .str s => some (globMatch (lowerAscii p) (lowerAscii s))
     | _ => none)
  | _ => some (pyEqValue item x)

/-- 1-based position as a Python int -/
def posValue (idx : Nat) : Value := .num (.int ((idx + 1 : Nat) : Int))

/-- the loop at match type 0; `idx` = number of items already passed -/
def scanExact (x : Value) : List Value → Nat → Except Err Value
  | [], _ => .ok (.err .na)
  | item :: rest, idx =>
    match itemMatches x item with
    | none => .error .error
    | some true => .ok (posValue idx)
    | some false => scanExact x rest (idx + 1)

/-- `a < b` at type 1, `a > b` at type −1 -/
def before (asc : Bool) (a b : Value) : Option Bool := if asc then pyLtValue a b else pyGtValue a b

/-- the loop at match type 1 (`asc = true`) / −1 (`asc = false`): `best` = (`index`, `index_value`);
    `not index_value` is Python falsiness of the candidate's VALUE (a candidate 0 or "" counts as
    "none yet") -/
def scanBest (asc : Bool) (x : Value) : List Value → Nat → Option (Nat × Value) → Except Err Value
  | [], _, best => .ok (match best with
      | some (i, _) => .num (.int (i : Int))
      | none => .err .na)
  | item :: rest, idx, best =>
    if pyEqValue item x then .ok (posValue idx)
    else match before asc item x with
      | none => .error .error
      | some false => scanBest asc x rest (idx + 1) best
      | some true =>
        match best with
        | none => scanBest asc x rest (idx + 1) (some (idx + 1, item))
        | some (bi, bv) =>
          if !pyTruthy bv then scanBest asc x rest (idx + 1) (some (idx + 1, item))
          else match before asc bv item with      -- `item > index_value` / `item < index_value`
            | none => .error .error
            | some true => scanBest asc x rest (idx + 1) (some (idx + 1, item))
            | some false => scanBest asc x rest (idx + 1) (some (bi, bv))

inductive MatchType where
  | asc | exact | desc
  deriving DecidableEq, Repr

/-- `match_type not in (-1, 0, 1)` (by `==`: 1.0 and TRUE count as 1, FALSE as 0) -/
def matchType? (t : Value) : Option MatchType :=
  match pyNumeric? t with
  | some q => if q = 1 then some .asc else if q = 0 then some .exact else if q = -1 then some .desc else none
  | none => none

def hasBracket : Value → Bool
  | .str p => p.contains '['
  | _ => false

/-- MATCH(lookup_value, lookup_array, match_type) -/
def match3 (x a t : Value) : Except Err Value :=
  if !pyTruthy x && !pyTruthy a then .ok (.err .na) else
  match a with
  | .arr xs =>
    (match matchType? t with
     | none => .ok (.err .na)
     | some .asc => scanBest true x xs 0 none
     | some .exact =>
       if hasBracket x then .ok (.other "unmodelled-fnmatch-class") else scanExact x xs 0
     | some .desc => scanBest false x xs 0 none)
  | _ => .ok (.err .na)

/-- MATCH(lookup_value, lookup_array, match_type=1) -/
def MATCH : Builtin
  | [x, a] => match3 x a (.num (.int 1))
  | [x, a, t] => match3 x a t
  | _ => .error .error

def table : List (String × Builtin) := [("CHOOSE", CHOOSE), ("MATCH", MATCH), ("INDEX", INDEX)]

end HotXL.Fn.Lookup
