/-
  HotXL.Model.Fn.Math — builtin functions of this family (filled in as the family is modelled).
  `table` maps a registered function name to its model; a registered name with no entry
  here is reported by the evaluator as `Value.other "unmodelled-builtin"`.
-/
import HotXL.Model.Fn.Common

namespace HotXL.Fn.Math
open HotXL

open HotXL.Fn

/-- SUM(*args) = sum(inumbers(args, try_parse=True)) -/
def SUM : Builtin := fun args => (inumbers true false args).map (fun xs => .num (pySum xs))

def table : List (String × Builtin) := [("SUM", SUM)]

end HotXL.Fn.Math
