/-
  HotXL.Model.Fn.Math — model of the real-valued builtins of hotxlfp/formulas/mathtrig.py:
  ABS, ACOS, ACOSH, ACOT, ACOTH, SIN, SINH, ASIN, ASINH, COS, COSH, COT, TAN, TANH, ATAN,
  ATAN2, ATANH, SQRT, EXP, LN, LOG, LOG10, PI, POWER, RADIANS, DEGREES, RAND, RANDBETWEEN.

  The functions are written ONCE, generically over a number type `α` equipped with the
  operations of `ElemOps α` (the field operations and the PARTIAL elementary functions of
  Python's `math` module; `none` = the library call raises ValueError / ZeroDivisionError /
  OverflowError, which `Parser.call_function` turns into `#ERROR!`).  Two instances exist:

  * `floatOps : ElemOps Float` (this file; executable; Lean's `Float.sin`, `Float.log`, … are the
    same libm functions CPython calls, with CPython's own domain / overflow checks written
    out) — used only by the driver (`HotXL/Driver/Math.lean`) for the correspondence check;
  * `realOps : ElemOps ℝ` (`HotXL/Lemmas/RealOps.lean`; noncomputable; Mathlib's `Real.sin`,
    `Real.log`, … with the mathematical domains) — what the theorems of `Props/C16.lean` are about.

  Hand-written compositions (real content of the identity theorems): ACOT = atan(1/x) (π/2 at 0),
  ACOTH = ½·log((x+1)/(x−1)), COT = cos/sin, EXP = e ** x, LOG = log x / log b,
  RADIANS = x·(π/180), DEGREES = x·180/π, ATAN2(x, y) = atan2(y, x) with #DIV/0! at the origin,
  POWER with its NaN test and its integer-overflow guard (`intPowGuard`: two Python ints whose exact
  power has at least 1025 bits give #NUM! at once — Python would otherwise compute every digit of
  it, in time and memory unbounded in the arguments); the other functions call the `math` function
  of the same name.  The guard constants come from `HotXL.Generated.Power` (regenerated from /repo).

  The exact-rational `table` used by `eval` contains only what is exact: ABS.  Everything else
  is reached through the driver op `math NAME value…`.
-/
import HotXL.Model.Fn.Common
import HotXL.Generated.Power

namespace HotXL.Fn.Math
open HotXL HotXL.Ops HotXL.Fn

/-! ## the operations the functions are composed from -/

/-- field operations and partial elementary functions (`none` = the Python call raises) -/
structure ElemOps (α : Type) where
  /-- `float(q)`: the number denoted by a Python float / by decimal text -/
  ofRat : Rat → α
  /-- `float(i)` for a Python int (`none` = OverflowError: int too large to convert to float) -/
  ofInt : Int → Option α
  add : α → α → α
  sub : α → α → α
  mul : α → α → α
  neg : α → α
  abs : α → α
  /-- `x / y` (`none` = ZeroDivisionError) -/
  div : α → α → Option α
  /-- `x == 0` -/
  isZero : α → Bool
  /-- `math.isnan(x)` -/
  isNaN : α → Bool
  /-- `math.pi` -/
  pi : α
  /-- `math.e` -/
  e : α
  sqrt : α → Option α
  log : α → Option α
  exp : α → Option α
  sin : α → Option α
  cos : α → Option α
  tan : α → Option α
  asin : α → Option α
  acos : α → Option α
  atan : α → Option α
  sinh : α → Option α
  cosh : α → Option α
  tanh : α → Option α
  asinh : α → Option α
  acosh : α → Option α
  atanh : α → Option α
  /-- `math.atan2(y, x)` -/
  atan2 : α → α → Option α
  /-- `x ** y` on floats (`none` = ZeroDivisionError, OverflowError, or a complex result) -/
  pow : α → α → Option α

section generic
variable {α : Type} (O : ElemOps α)

/-- a raising library call becomes `#ERROR!` (`error.from_message` default) -/
def lift (r : Option α) : Except Err α :=
  match r with
  | some x => .ok x
  | none => .error .error

/-! ## the functions on numbers, as mathtrig.py composes them

  Result: `.ok x` = the number `x` is returned; `.error e` = the call's value is the error
  `e` (returned by the function, or raised and converted by `call_function`). -/

/-- `ACOT`: `math.pi / 2` at 0, else `math.atan(1 / number)` -/
def acot (x : α) : Option α :=
  if O.isZero x then O.div O.pi (O.ofRat 2)
  else do
    let r ← O.div (O.ofRat 1) x
    O.atan r

/-- `ACOTH`: `0.5 * math.log((number + 1) / (number - 1))` -/
def acoth (x : α) : Option α := do
  let q ← O.div (O.add x (O.ofRat 1)) (O.sub x (O.ofRat 1))
  let l ← O.log q
  pure (O.mul (O.ofRat (1 / 2)) l)

/-- `COT`: `math.cos(number) / math.sin(number)` -/
def cot (x : α) : Option α := do
  let c ← O.cos x
  let s ← O.sin x
  O.div c s

/-- `EXP`: `math.e ** number` -/
def expE (x : α) : Option α := O.pow O.e x

/-- `LOG`: `math.log(number, base)` = `log(number) / log(base)` -/
def logB (x b : α) : Option α := do
  let n ← O.log x
  let d ← O.log b
  O.div n d

/-- `ATAN2(x_num, y_num)`: `#DIV/0!` at the origin, else `math.atan2(y_num, x_num)` -/
def atan2' (x y : α) : Except Err α :=
  if O.isZero x && O.isZero y then .error .div0 else lift (O.atan2 y x)

/-- `POWER`: `number ** power`, `#NUM!` if the result is a NaN -/
def power (x y : α) : Except Err α :=
  match O.pow x y with
  | none => .error .error
  | some r => if O.isNaN r then .error .num else .ok r

/-- `RADIANS`: `number * (math.pi / 180)` -/
def radians (x : α) : Option α := do
  let d ← O.div O.pi (O.ofRat 180)
  pure (O.mul x d)

/-- `DEGREES`: `number * 180 / math.pi` -/
def degrees (x : α) : Option α := O.div (O.mul x (O.ofRat 180)) O.pi

/-! ## the integer-overflow guard of POWER and PV -/

/-- Python `abs(i).bit_length()`: the number of binary digits of `|i|` (0 for 0) -/
def bitLength (i : Int) : Nat := if i.natAbs = 0 then 0 else i.natAbs.log2 + 1

/-- `abs(number) > minAbs and power > minPow and (abs(number).bit_length() - less) * power >= bits`
    on two Python ints (the code has `minAbs = 1`, `minPow = 0`, `less = 1`, `bits = 1024`: the exact
    power is then at least `2 ** 1024`, beyond every double) -/
def intPowGuardWith (minAbs minPow less bits : Int) (x y : Int) : Bool :=
  decide (minAbs < (x.natAbs : Int)) && decide (minPow < y) && decide (bits ≤ ((bitLength x : Int) - less) * y)

/-- the guard of POWER with the constants of the source -/
def intPowGuard (x y : Int) : Bool :=
  intPowGuardWith Generated.powerGuardMinAbs Generated.powerGuardMinPow Generated.powerGuardLess Generated.powerGuardBits x y

/-- the guard of POWER on the two arguments as passed: it only fires when BOTH parse to Python ints
    (`isinstance(x, integer_types)`; a logical counts as the int 0 / 1, integer text as its int) -/
def powGuardArgs (a b : Value) : Bool :=
  match parseNumber a, parseNumber b with
  | .ok (.int x), .ok (.int y) => intPowGuard x y
  | _, _ => false

/-- the guard of PV on `growth = 1 + rate` and `periods` (both Python ints) with the constants of
    the source -/
def pvGuard (rate periods : Num) : Bool :=
  match rate, periods with
  | .int r, .int n =>
    intPowGuardWith Generated.pvGuardMinAbs Generated.pvGuardMinPow Generated.pvGuardLess Generated.pvGuardBits
      (Generated.pvGrowthOne + r) n
  | _, _ => false

/-! ## coercion of the arguments (`utils.parse_number`, then the conversion to a float) -/

/-- the float a Python number is converted to by the `math` functions and by mixed arithmetic -/
def ofNum (n : Num) : Option α :=
  match n with
  | .int i => O.ofInt i
  | .flt q => some (O.ofRat q)

/-- one-argument shape: `number = parse_number(number); if error: return it; return f(number)` -/
def un (f : α → Option α) : List Value → Except Err α
  | [v] =>
    match parseNumber v with
    | .error e => .error e
    | .ok n =>
      match ofNum O n with
      | none => .error .error
      | some x => lift (f x)
  | _ => .error .error

/-- two-argument shape of LOG / POWER: both parsed, `#VALUE!` if any is an error -/
def bin (f : α → α → Except Err α) (a b : Value) : Except Err α :=
  match parseNumber a, parseNumber b with
  | .ok m, .ok n =>
    match ofNum O m, ofNum O n with
    | some x, some y => f x y
    | _, _ => .error .error
  | _, _ => .error .value

def ABSf : List Value → Except Err α := un O (fun x => some (O.abs x))
def ACOS : List Value → Except Err α := un O O.acos
def ACOSH : List Value → Except Err α := un O O.acosh
def ACOT : List Value → Except Err α := un O (acot O)
def ACOTH : List Value → Except Err α := un O (acoth O)
def SIN : List Value → Except Err α := un O O.sin
def SINH : List Value → Except Err α := un O O.sinh
def ASIN : List Value → Except Err α := un O O.asin
def ASINH : List Value → Except Err α := un O O.asinh
def COS : List Value → Except Err α := un O O.cos
def COSH : List Value → Except Err α := un O O.cosh
def COT : List Value → Except Err α := un O (cot O)
def TAN : List Value → Except Err α := un O O.tan
def TANH : List Value → Except Err α := un O O.tanh
def ATAN : List Value → Except Err α := un O O.atan
def ATANH : List Value → Except Err α := un O O.atanh
def SQRT : List Value → Except Err α := un O O.sqrt
def EXP : List Value → Except Err α := un O (expE O)
def LN : List Value → Except Err α := un O O.log
def RADIANS : List Value → Except Err α := un O (radians O)
def DEGREES : List Value → Except Err α := un O (degrees O)

/-- `ATAN2(x_num, y_num)`: the first argument's error is returned first, then the second's -/
def ATAN2 : List Value → Except Err α
  | [a, b] =>
    match parseNumber a with
    | .error e => .error e
    | .ok m =>
      match parseNumber b with
      | .error e => .error e
      | .ok n =>
        match ofNum O m, ofNum O n with
        | some x, some y => atan2' O x y
        | _, _ => .error .error
  | _ => .error .error

/-- `LOG(number, base=10)` -/
def LOG : List Value → Except Err α
  | [a] => bin O (fun x b => lift (logB O x b)) a (.num (.int 10))
  | [a, b] => bin O (fun x b => lift (logB O x b)) a b
  | _ => .error .error

/-- `LOG10(number)` = `LOG(number, 10)` -/
def LOG10 : List Value → Except Err α
  | [a] => LOG O [a, .num (.int 10)]
  | _ => .error .error

/-- `POWER(number, power)`: the integer-overflow guard (independent of the number type `α`: it looks
    only at the parsed Python ints), then `number ** power` -/
def POWER : List Value → Except Err α
  | [a, b] => if powGuardArgs a b then .error .num else bin O (power O) a b
  | _ => .error .error

/-- `PI()` -/
def PI : List Value → Except Err α
  | [] => .ok O.pi
  | _ => .error .error

/-- registered name ↦ generic model (RAND / RANDBETWEEN are functions of the random source: below) -/
def fnTable : List (String × (List Value → Except Err α)) :=
  [("ABS", ABSf O), ("ACOS", ACOS O), ("ACOSH", ACOSH O), ("ACOT", ACOT O), ("ACOTH", ACOTH O),
   ("SIN", SIN O), ("SINH", SINH O), ("ASIN", ASIN O), ("ASINH", ASINH O), ("COS", COS O),
   ("COSH", COSH O), ("COT", COT O), ("TAN", TAN O), ("TANH", TANH O), ("ATAN", ATAN O),
   ("ATAN2", ATAN2 O), ("ATANH", ATANH O), ("SQRT", SQRT O), ("EXP", EXP O), ("LN", LN O),
   ("LOG", LOG O), ("LOG10", LOG10 O), ("PI", PI O), ("POWER", POWER O), ("RADIANS", RADIANS O),
   ("DEGREES", DEGREES O)]

/-- `RAND()`: whatever `random.random()` delivers -/
def RAND (random : Unit → α) : List Value → Except Err α
  | [] => .ok (random ())
  | _ => .error .error

end generic

/-! ## RANDBETWEEN: `random.randint(int(bottom), int(top))` -/

/-- Python `int(x)` of a number: truncation toward zero -/
def pyInt : Num → Int
  | .int i => i
  | .flt q => if q < 0 then -((-q).floor) else q.floor

/-- `RANDBETWEEN(bottom, top)`; `randint a b = none` = `random.randint` raises (empty range) -/
def RANDBETWEEN (randint : Int → Int → Option Int) : List Value → Except Err Int
  | [a, b] =>
    match parseNumber a, parseNumber b with
    | .ok m, .ok n =>
      match randint (pyInt m) (pyInt n) with
      | some r => .ok r
      | none => .error .error
    | _, _ => .error .value
  | _ => .error .error

/-! ## exact results: ABS (keeps ints ints), POWER on ints -/

def numAbs : Num → Num
  | .int i => .int (if i < 0 then -i else i)
  | .flt q => .flt (if q < 0 then -q else q)

/-- `ABS(number)`: `abs()` of the parsed number -/
def ABS : Builtin
  | [v] =>
    match parseNumber v with
    | .error e => .ok (.err e)
    | .ok n => .ok (.num (numAbs n))
  | _ => .error .error

/-- does `float(i)` raise OverflowError?  (round-half-even to 53 bits reaches 2^1024) -/
def intOverflowsFloat (i : Int) : Bool := decide (2 ^ 1024 - 2 ^ 970 ≤ i.natAbs)

/-- `x ** n` on Python ints, `n ≥ 0`; equal to `x ^ n` (`intPow_eq` of Lemmas/PowGuard.lean).  The
    bases 0, 1, −1 are answered without exponentiation: they are the only ones that reach this
    function with an exponent that is not below the guard's bound (Python answers `1 ** 10**15` at
    once, and so must the executable model) -/
def intPow (x : Int) (n : Nat) : Int :=
  if x = 0 then (if n = 0 then 1 else 0)
  else if x = 1 then 1
  else if x = -1 then (if n % 2 = 0 then 1 else -1)
  else x ^ n

/-- `POWER` on two Python ints with a non-negative exponent: `#NUM!` where the guard fires, else the
    exact int `x ** y` (below the guard it has fewer than 2048 bits — `power_below_guard_bounded` of
    Props/C16.lean), then `math.isnan(result)` converts it to a float (OverflowError beyond the
    float range).  `none` = not this case. -/
def powerIntExact (a b : Value) : Option (Except Err Int) :=
  match parseNumber a, parseNumber b with
  | .ok (.int x), .ok (.int y) =>
    if y < 0 then none
    else if intPowGuard x y then some (.error .num)
    else
      let r := intPow x y.toNat
      some (if intOverflowsFloat r then .error .error else .ok r)
  | _, _ => none

/-! ## the executable instance: IEEE doubles and libm, with CPython's checks -/

namespace FloatImpl

/-- correctly rounded (half-even) quotient `n / d` of positive naturals as a double -/
def natDivToFloat (n d : Nat) : Float :=
  let e0 : Int := (n.log2 : Int) - (d.log2 : Int)
  let ge : Bool := if e0 ≥ 0 then decide (d * 2 ^ e0.toNat ≤ n) else decide (d ≤ n * 2 ^ (-e0).toNat)
  let e : Int := if ge then e0 else e0 - 1
  let u : Int := max (e - 52) (-1074)
  let num : Nat := if u ≥ 0 then n else n * 2 ^ (-u).toNat
  let den : Nat := if u ≥ 0 then d * 2 ^ u.toNat else d
  let q := num / den
  let r := num % den
  let m := if 2 * r > den || (2 * r == den && q % 2 == 1) then q + 1 else q
  (Float.ofNat m).scaleB u

/-- `float()` of an exact rational: round to nearest, ties to even (inf beyond the range) -/
def ratToFloat (q : Rat) : Float :=
  if q.num = 0 then 0.0
  else
    let f := natDivToFloat q.num.natAbs q.den
    if q.num < 0 then -f else f

/-- the error convention of CPython's `math_1`: a NaN from a non-NaN argument is a
    ValueError, an infinity from a finite argument a ValueError / OverflowError -/
def chk (f : Float → Float) (x : Float) : Option Float :=
  let r := f x
  if r.isNaN && !x.isNaN then none
  else if r.isInf && x.isFinite then none
  else some r

/-- `math.log` of a float (`m_log`) -/
def pyLog (x : Float) : Option Float :=
  if x.isFinite then (if x > 0 then some (Float.log x) else none)
  else if x.isNaN then some x
  else if x > 0 then some x else none

/-- `float.__pow__` (`float_pow` of floatobject.c); `none` = ZeroDivisionError, OverflowError,
    or a negative base with a non-integral exponent (Python 3 returns a complex number) -/
def pyPow (x y : Float) : Option Float :=
  if y == 0 then some 1.0
  else if x.isNaN then some x
  else if y.isNaN then some (if x == 1.0 then 1.0 else y)
  else if y.isInf then
    let ax := x.abs
    some (if ax == 1.0 then 1.0 else if (y > 0) == (ax > 1.0) then Float.abs y else 0.0)
  else if x.isInf then some (Float.pow x y)
  else if x == 0 then (if y < 0 then none else some (Float.pow x y))
  else if x < 0 && y != y.floor then none
  else
    let r := Float.pow x y
    if r.isInf then none else some r

end FloatImpl

open FloatImpl in
/-- IEEE doubles with libm and CPython's `math` conventions -/
def floatOps : ElemOps Float where
  ofRat := ratToFloat
  ofInt := fun i => let f := ratToFloat (i : Rat); if f.isInf then none else some f
  add := (· + ·)
  sub := (· - ·)
  mul := (· * ·)
  neg := fun x => -x
  abs := Float.abs
  div := fun x y => if y == 0 then none else some (x / y)
  isZero := fun x => x == 0
  isNaN := Float.isNaN
  pi := Float.ofBits 0x400921FB54442D18
  e := Float.ofBits 0x4005BF0A8B145769
  sqrt := chk Float.sqrt
  log := pyLog
  exp := chk Float.exp
  sin := chk Float.sin
  cos := chk Float.cos
  tan := chk Float.tan
  asin := chk Float.asin
  acos := chk Float.acos
  atan := chk Float.atan
  sinh := chk Float.sinh
  cosh := chk Float.cosh
  tanh := chk Float.tanh
  asinh := chk Float.asinh
  acosh := chk Float.acosh
  atanh := chk Float.atanh
  atan2 := fun y x => some (Float.atan2 y x)
  pow := pyPow

/-- the exact-rational builtins of this family used by `eval` -/
def table : List (String × Builtin) := [("ABS", ABS)]

end HotXL.Fn.Math
