/-
  HotXL.Model.Fn.Math — builtin functions of this family (filled in as the family is modelled).
  `table` maps a registered function name to its model; a registered name with no entry
  here is reported by the evaluator as `Value.other "unmodelled-builtin"`.
-/
import HotXL.Model.Fn.Common

namespace HotXL.Fn.Math
open HotXL

open HotXL.Fn

def table : List (String × Builtin) := []

end HotXL.Fn.Math
