/-
  HotXL.Model.Fn.Info — model of hotxlfp/formulas/information.py
-/
import HotXL.Model.Fn.Common

namespace HotXL.Fn.Info
open HotXL HotXL.Ops HotXL.Fn

/-- `int(number)`: truncation toward zero -/
def truncNum : Num → Int
  | .int i => i
  | .flt q => if q ≥ 0 then q.floor else -((-q).floor)

/-- ERROR.TYPE: the dict lookup (unhashable lists raise TypeError) -/
def ERROR_TYPE : Builtin
  | [.err e] => .ok (match e with
      | .null => .num (.int 1) | .div0 => .num (.int 2) | .value => .num (.int 3) | .ref => .num (.int 4)
      | .name => .num (.int 5) | .num => .num (.int 6) | .na => .num (.int 7) | .data => .num (.int 8)
      | .error => .err .na)
  | [.arr _] => .error .error
  | [_] => .ok (.err .na)
  | _ => .error .error

def ISBLANK : Builtin
  | [v] => .ok (.bool (match v with | .blank => true | _ => false))
  | _ => .error .error
def ISERR : Builtin
  | [v] => .ok (.bool (match v with | .err .na => false | .err _ => true | _ => false))
  | _ => .error .error
def ISERROR : Builtin
  | [v] => .ok (.bool (match v with | .err _ => true | _ => false))
  | _ => .error .error
def ISNA : Builtin
  | [v] => .ok (.bool (match v with | .err .na => true | _ => false))
  | _ => .error .error
def ISEVEN : Builtin
  | [v] => match asNumber? v with
    | some n => .ok (.bool (truncNum n % 2 = 0))
    | none => .ok (.err .value)
  | _ => .error .error
/-- ISODD returns the integer `int(number) & 1` -/
def ISODD : Builtin
  | [v] => match asNumber? v with
    | some n => .ok (.num (.int (truncNum n % 2)))
    | none => .ok (.err .value)
  | _ => .error .error
def ISTEXT : Builtin
  | [v] => .ok (.bool (match v with | .str _ => true | _ => false))
  | _ => .error .error
def ISNONTEXT : Builtin
  | [v] => .ok (.bool (match v with | .str _ => false | _ => true))
  | _ => .error .error
def ISNUMBER : Builtin
  | [v] => .ok (.bool (match v with | .num _ => true | _ => false))
  | _ => .error .error
def ISLOGICAL : Builtin
  | [v] => .ok (.bool (match v with | .bool _ => true | _ => false))
  | _ => .error .error
def N : Builtin
  | [v] => .ok (match v with
      | .err e => .err e
      | .num n => .num n
      | .bool b => .bool b
      | .date us => .num (Dates.serialize us)
      | _ => .num (.int 0))
  | _ => .error .error
def NA : Builtin
  | [] => .ok (.err .na)
  | _ => .error .error
def T : Builtin
  | [v] => .ok (match v with
      | .err e => .err e
      | .str s => .str s
      | _ => .str [])
  | _ => .error .error

def table : List (String × Builtin) :=
  [("ERROR.TYPE", ERROR_TYPE), ("ISBLANK", ISBLANK), ("ISERR", ISERR), ("ISERROR", ISERROR), ("ISNA", ISNA),
   ("ISEVEN", ISEVEN), ("ISODD", ISODD), ("ISTEXT", ISTEXT), ("ISNONTEXT", ISNONTEXT), ("ISNUMBER", ISNUMBER),
   ("ISLOGICAL", ISLOGICAL), ("N", N), ("NA", NA), ("T", T)]

end HotXL.Fn.Info
