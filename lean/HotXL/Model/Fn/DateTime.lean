/-
  HotXL.Model.Fn.DateTime — builtin functions of this family (filled in as the family is modelled).
  `table` maps a registered function name to its model; a registered name with no entry
  here is reported by the evaluator as `Value.other "unmodelled-builtin"`.
-/
import HotXL.Model.Basic
import HotXL.Model.Operators

namespace HotXL.Fn.DateTime
open HotXL

/-- a builtin: evaluated arguments to a value, or a raised Python exception (as its error code) -/
abbrev Builtin := List Value → Except Err Value

def table : List (String × Builtin) := []

end HotXL.Fn.DateTime
