/-
  HotXL.Model.Fn.DateTime — builtin functions of this family (filled in as the family is modelled).
  `table` maps a registered function name to its model; a registered name with no entry
  here is reported by the evaluator as `Value.other "unmodelled-builtin"`.

  Modelled so far (property C13): `DATEVALUE`, `DAYS` of hotxlfp/formulas/dateandtime.py, through
  `utils.parse_date` / `utils.serialize_date` on any value.
-/
import HotXL.Model.Fn.Common

namespace HotXL.Fn.DateTime
open HotXL HotXL.Ops

open HotXL.Fn

/-- `utils.parse_date(v)`: `.ok (.date us)`, `.ok` of an error value (`#NUM!` below 0, `#VALUE!` for
    what is neither a number nor a date), `.error` = it RAISED (OverflowError beyond year 9999).
    Text: `to_number` first, then ISO-8601 dates; for any other text `dateutil` decides
    (library behaviour, `.other`: the model has no opinion). -/
def parseDate : Value → Except Err Value
  | .err e => .ok (.err e)
  | .date us => .ok (.date us)
  | .num n => (match parseDateValue (Num.toRat n) with | some v => .ok v | none => .error .error)
  | .bool b => (match parseDateValue (if b then 1 else 0) with | some v => .ok v | none => .error .error)
  | .str s =>
    (match toNumberText s with
     | .num n => (match parseDateValue (Num.toRat n) with | some v => .ok v | none => .error .error)
     | .text => (match isoDate? s with
       | some us => .ok (.date us)
       | none => .ok (.other "dateutil-text")))
  | _ => .ok (.err .value)

/-- `utils.serialize_date(v)`: the serial of `parse_date(v)`, `#VALUE!` if that is not a datetime -/
def serializeDate (v : Value) : Except Err Value :=
  match parseDate v with
  | .error e => .error e
  | .ok (.date us) => .ok (.num (Dates.serialize us))
  | .ok (.other t) => .ok (.other t)
  | .ok _ => .ok (.err .value)

/-- `DATEVALUE(date) = utils.serialize_date(date)` -/
def DATEVALUE : Builtin
  | [v] => serializeDate v
  | _ => .error .error

/-- `DAYS(end_date, start_date)`: both through `parse_date`; `#VALUE!` if either is an error;
    else `serialize_date(end) - serialize_date(start)` -/
def DAYS : Builtin
  | [e, s] =>
    match parseDate e with
    | .error x => .error x
    | .ok e' =>
      match parseDate s with
      | .error x => .error x
      | .ok s' =>
        match e', s' with
        | .other t, _ => .ok (.other t)
        | _, .other t => .ok (.other t)
        | .date a, .date b => .ok (.num (numSub (Dates.serialize a) (Dates.serialize b)))
        | _, _ => .ok (.err .value)
  | _ => .error .error

def table : List (String × Builtin) := [("DATEVALUE", DATEVALUE), ("DAYS", DAYS)]

end HotXL.Fn.DateTime
