/-
  HotXL.Model.Fn.DateTime — model of hotxlfp/formulas/dateandtime.py (DATE, TIME, DATEVALUE,
  TIMEVALUE, YEAR … SECOND, DAYS, DATEDIF, EDATE, WEEKDAY) and of `utils.parse_date` /
  `utils.serialize_date` on arbitrary values.  TODAY and NOW read the clock: they are not modelled.

  A datetime is `Value.date us`: MICROSECONDS since 1900-01-01T00:00.  Its calendar components are
  read through `HotXL.Calendar` (CPython's `_ord2ymd`): day index = ⌊us / 86400000000⌋,
  ordinal = ordinal(1900-01-01) + day index.

  The magic numbers of the Python functions (the 1900 offset of DATE, EDATE's own 12-entry
  month-length list and leap rule, the year limits, WEEKDAY's numbering constants, DATEDIF's unit
  names and borrow terms) and their comparison operators are read from `HotXL.Generated.DateTime`
  (integer literals / comparison operators of each function in source order).

  Not modelled (the model answers `Value.other …`, "no opinion"): text that is neither a decimal
  number nor ISO-8601 `YYYY-MM-DD[(T| )HH:MM[:SS]]` (dateutil's other formats).

  `parseDate`, `serializeDate`, `DATEVALUE`, `DAYS` are also what property C13's theorems are about
  (HotXL/Props/C13.lean): keep their names and definitions.
-/
import HotXL.Model.Fn.Common
import HotXL.Model.Calendar
import HotXL.Model.Dates
import HotXL.Generated.DateTime

namespace HotXL.Fn.DateTime
open HotXL HotXL.Ops HotXL.Fn

/-! ### datetimes as microsecond counts -/

/-- ordinal of 1900-01-01, the origin of `Value.date` -/
def epochOrd : Int := Calendar.ordinalOfYMD 1900 1 1

def usPerDay : Int := Dates.usPerDay

/-- ⌊us / day⌋ (Lean's `/` on `Int` with a positive divisor is the floor, as Python's `//`) -/
def dayIndex (us : Int) : Int := us / usPerDay
/-- microseconds since midnight -/
def timeOfDay (us : Int) : Int := us % usPerDay
/-- `date.toordinal()` -/
def ordinalOf (us : Int) : Int := epochOrd + dayIndex us

def yearOf (us : Int) : Int := (Calendar.ymdOfOrdinal (ordinalOf us)).1
def monthOf (us : Int) : Int := ((Calendar.ymdOfOrdinal (ordinalOf us)).2.1 : Nat)
def dayOf (us : Int) : Int := (Calendar.ymdOfOrdinal (ordinalOf us)).2.2
def hourOf (us : Int) : Int := timeOfDay us / 3600000000
def minuteOf (us : Int) : Int := timeOfDay us / 60000000 % 60
def secondOf (us : Int) : Int := timeOfDay us / 1000000 % 60

/-- `datetime.datetime(y, m, d, h, mi, s)`; `none` = ValueError (year outside 1..9999, month
    outside 1..12, day outside the month, hour/minute/second out of range) -/
def mkDateTime? (y m d h mi s : Int) : Option Int :=
  if 1 ≤ m && Calendar.validYMD y m.toNat d && 0 ≤ h && h < 24 && 0 ≤ mi && mi < 60 && 0 ≤ s && s < 60 then
    some ((Calendar.ordinalOfYMD y m.toNat d - epochOrd) * usPerDay + ((h * 60 + mi) * 60 + s) * 1000000)
  else none

/-- a Python comparison of two integers, named by its `ast` class -/
def cmpI (name : String) (a b : Int) : Bool :=
  match name with
  | "Lt" => a < b | "LtE" => a ≤ b | "Gt" => a > b | "GtE" => a ≥ b
  | "Eq" => a = b | "NotEq" => a ≠ b | _ => false

/-! ### `utils.parse_date`, `utils.serialize_date` -/

/-- `utils.parse_date(v)`: `.ok (.date us)`, `.ok` of an error value (`#NUM!` below 0, `#VALUE!` for
    what is neither a number nor a date), `.error` = it RAISED (OverflowError beyond year 9999).
    Numbers (logicals included: `bool` is an `int`) are serial numbers; text: `to_number` first, then
    ISO-8601 dates; for any other text `dateutil` decides (library behaviour, `.other`: the model has
    no opinion). -/
def parseDate : Value → Except Err Value
  | .err e => .ok (.err e)
  | .date us => .ok (.date us)
  | .num n => (match parseDateValue (Num.toRat n) with | some v => .ok v | none => .error .error)
  | .bool b => (match parseDateValue (if b then 1 else 0) with | some v => .ok v | none => .error .error)
  | .str s =>
    (match toNumberText s with
     | .num n => (match parseDateValue (Num.toRat n) with | some v => .ok v | none => .error .error)
     | .text => (match isoDate? s with
       | some us => .ok (.date us)
       | none => .ok (.other "dateutil-text")))
  | _ => .ok (.err .value)

/-- `utils.serialize_date(v)`: the serial of `parse_date(v)`, `#VALUE!` if that is not a datetime -/
def serializeDate (v : Value) : Except Err Value :=
  match parseDate v with
  | .error e => .error e
  | .ok (.date us) => .ok (.num (Dates.serialize us))
  | .ok (.other t) => .ok (.other t)
  | .ok _ => .ok (.err .value)

/-- outcome of `parse_date(v)`, classified -/
inductive PD where
  | date (us : Int)
  | err (e : Err)        -- an XLError is RETURNED
  | raised               -- a Python exception (OverflowError beyond year 9999)
  | unmodelled           -- text handed to dateutil that is not plain ISO-8601
  deriving Repr, DecidableEq

def pdOf (v : Value) : PD :=
  match parseDate v with
  | .error _ => .raised
  | .ok (.date us) => .date us
  | .ok (.err e) => .err e
  | .ok _ => .unmodelled

def unmodelled : Except Err Value := .ok (.other "dateutil-text")

def vInt (i : Int) : Value := .num (.int i)

/-! ### DATE, TIME -/

def dC (i : Nat) : Int := Generated.dateInts.getD i 0
def tC (i : Nat) : Int := Generated.timeInts.getD i 0

/-- `operator.index`: what `datetime.datetime(...)` accepts as a field (ints, logicals) -/
def numIndex? : Num → Option Int
  | .int i => some i
  | .flt _ => none

def rawIndex? : Value → Option Int
  | .num (.int i) => some i
  | .bool b => some (if b then 1 else 0)
  | _ => none

/-- DATE(year, month, day): `if year < 1900: year += 1900`, then `datetime.datetime(y, m, d)` -/
def DATE : Builtin
  | [y, m, d] =>
    match parseNumber y, parseNumber m, parseNumber d with
    | .ok yn, .ok mn, .ok dn =>
      -- `year < 1900` is evaluated on ints and floats alike; a float field is a TypeError afterwards
      match numIndex? yn, numIndex? mn, numIndex? dn with
      | some yi, some mi, some di =>
        let yi := if cmpI (Generated.dateCompares.getD 0 "") yi (dC 0) then yi + dC 1 else yi
        match mkDateTime? yi mi di 0 0 0 with
        | some us => .ok (.date us)
        | none => .error .error
      | _, _, _ => .error .error
    | _, _, _ => .ok (.err .value)
  | _ => .error .error

/-- TIME(hour, minute, second): the three arguments are validated through `parse_number`, but the
    hour handed to `datetime.datetime(1900, 1, 1, hour, minute, second)` is the RAW argument
    (numeric text is a TypeError there) -/
def TIME : Builtin
  | [h, mi, s] =>
    match parseNumber h, parseNumber mi, parseNumber s with
    | .ok _, .ok mn, .ok sn =>
      match rawIndex? h, numIndex? mn, numIndex? sn with
      | some hi, some mi, some si =>
        match mkDateTime? (tC 0) (tC 1) (tC 2) hi mi si with
        | some us => .ok (.date us)
        | none => .error .error
      | _, _, _ => .error .error
    | _, _, _ => .ok (.err .value)
  | _ => .error .error

/-! ### DATEVALUE, TIMEVALUE -/

/-- `DATEVALUE(date) = utils.serialize_date(date)` -/
def DATEVALUE : Builtin
  | [v] => serializeDate v
  | _ => .error .error

/-- TIMEVALUE(time) = `serialize_date(combine(date_1900, parse_date(time).time())) - 1`
    (an error value has no `.time()`: AttributeError) -/
def TIMEVALUE : Builtin
  | [v] =>
    match pdOf v with
    | .date us =>
      let base := (Dates.ordOf Generated.date1900 - epochOrd) * usPerDay
      .ok (.num (numSub (Dates.serialize (base + timeOfDay us)) (.int (Generated.timevalueInts.getD 0 0))))
    | .err _ => .error .error
    | .raised => .error .error
    | .unmodelled => unmodelled
  | _ => .error .error

/-! ### YEAR … SECOND -/

/-- `parse_date`, an error returned as it is, else the component -/
def component (f : Int → Int) : Builtin
  | [v] =>
    match pdOf v with
    | .date us => .ok (vInt (f us))
    | .err e => .ok (.err e)
    | .raised => .error .error
    | .unmodelled => unmodelled
  | _ => .error .error

def YEAR : Builtin := component yearOf
def MONTH : Builtin := component monthOf
def DAY : Builtin := component dayOf
def HOUR : Builtin := component hourOf
def MINUTE : Builtin := component minuteOf
def SECOND : Builtin := component secondOf

/-! ### DAYS -/

/-- `DAYS(end_date, start_date)`: both through `parse_date`; `#VALUE!` if either is an error;
    else `serialize_date(end) - serialize_date(start)` -/
def DAYS : Builtin
  | [e, s] =>
    match parseDate e with
    | .error x => .error x
    | .ok e' =>
      match parseDate s with
      | .error x => .error x
      | .ok s' =>
        match e', s' with
        | .other t, _ => .ok (.other t)
        | _, .other t => .ok (.other t)
        | .date a, .date b => .ok (.num (numSub (Dates.serialize a) (Dates.serialize b)))
        | _, _ => .ok (.err .value)
  | _ => .error .error

/-! ### DATEDIF -/

def fC (i : Nat) : Int := Generated.datedifInts.getD i 0
def fK (i : Nat) : String := Generated.datedifCompares.getD i ""
def fS (i : Nat) : List Char := (Generated.datedifStrs.getD i "").toList

/-- Python `int(x)` of a number: truncation toward zero -/
def numTrunc : Num → Int
  | .int i => i
  | .flt q => Int.tdiv q.num q.den

/-- `str.lower()` on the ASCII letters (no other character lowers to an ASCII letter that occurs
    in a unit name) -/
def asciiLower (s : List Char) : List Char :=
  s.map (fun c => if 65 ≤ c.toNat && c.toNat ≤ 90 then Char.ofNat (c.toNat + 32) else c)

/-- the unit arithmetic of DATEDIF on two datetimes `a` (start), `b` (end), unit already lowered -/
def datedifCore (a b : Int) (unit : List Char) : Except Err Value :=
  if cmpI (fK 1) a b then .ok (vInt (fC 0)) else
  if cmpI (fK 2) a b then
    let (sy, sm, sd) := (yearOf a, monthOf a, dayOf a)
    let (ey, em, ed) := (yearOf b, monthOf b, dayOf b)
    if unit = fS 0 then
      .ok (vInt (ey - sy - (if cmpI (fK 4) em sm || (cmpI (fK 5) em sm && cmpI (fK 6) ed sd) then fC 1 else fC 2)))
    else if unit = fS 1 then
      .ok (vInt ((ey - sy) * fC 3 + em - sm - (if cmpI (fK 8) ed sd then fC 4 else fC 5)))
    else if unit = fS 2 then
      .ok (vInt (numTrunc (numSub (Dates.serialize b) (Dates.serialize a))))
    else if unit = fS 3 then
      if cmpI (fK 11) ed sd then .ok (vInt (ed - sd))
      else
        let prev := em - fC 6
        let prevDays :=
          if [fC 8, fC 9, fC 10, fC 11].contains prev then fC 7
          else if cmpI (fK 13) prev (fC 13) then fC 12
          else if Calendar.isLeap ey then fC 14 else fC 15
        .ok (vInt (prevDays - sd + ed))
    else if unit = fS 4 then
      let md := (ey - sy) * fC 16 + em - sm
      let md := if cmpI (fK 15) ed sd then md - fC 17 else md
      .ok (vInt (md % fC 18))
    else if unit = fS 5 then
      match mkDateTime? ey sm sd 0 0 0 with
      | none => .error .error
      | some t =>
        if cmpI (fK 17) t b then
          match mkDateTime? (ey - fC 19) sm sd 0 0 0 with
          | none => .error .error
          | some t' => .ok (vInt (numTrunc (numSub (Dates.serialize b) (Dates.serialize t'))))
        else .ok (vInt (numTrunc (numSub (Dates.serialize b) (Dates.serialize t))))
    else .ok (.err .num)
  else .ok (.err .num)

/-- DATEDIF(start_date, end_date, unit) -/
def DATEDIF : Builtin
  | [s, e, u] =>
    match pdOf s with
    | .raised => .error .error
    | .unmodelled => unmodelled
    | ps =>
      match pdOf e with
      | .raised => .error .error
      | .unmodelled => unmodelled
      | pe =>
        match ps, pe with
        | .date a, .date b =>
          (match u with
           | .str unit => datedifCore a b (asciiLower unit)
           | _ => .ok (.err .name))
        | _, _ => .ok (.err .num)
  | _ => .error .error

/-! ### EDATE -/

def eC (i : Nat) : Int := Generated.edateInts.getD i 0
def eK (i : Nat) : String := Generated.edateCompares.getD i ""

/-- `int(month)`: ints, floats (truncated), logicals, integer text; `none` = TypeError / ValueError -/
def pyIntOf? : Value → Option Int
  | .num n => some (numTrunc n)
  | .bool b => some (if b then 1 else 0)
  | .str s => PyNum.pyInt? s
  | _ => none

/-- Python list indexing `l[i]` (negative indices count from the end); `none` = IndexError -/
def pyListGet? (l : List Int) (i : Int) : Option Int :=
  if 0 ≤ i then l[i.toNat]? else if -(l.length : Int) ≤ i then l[((l.length : Int) + i).toNat]? else none

/-- EDATE's first leap rule (default-date branch):
    `(year % 4 == 0 and year % 100 != 0) or (year % 400 == 0)` -/
def edateLeapA (year : Int) : Bool :=
  (cmpI (eK 5) (year % eC 14) (eC 15) && cmpI (eK 6) (year % eC 16) (eC 17)) || cmpI (eK 7) (year % eC 18) (eC 19)

/-- EDATE's second leap rule (inside the 12-entry list) -/
def edateLeapB (year : Int) : Bool :=
  (cmpI (eK 9) (year % eC 29) (eC 30) && cmpI (eK 10) (year % eC 31) (eC 32)) || cmpI (eK 11) (year % eC 33) (eC 34)

/-- EDATE's own month-length list `[31, 29 if leap else 28, 31, 30, …]` -/
def edateMonthList (year : Int) : List Int :=
  [eC 27, if edateLeapB year then eC 28 else eC 35, eC 36, eC 37, eC 38, eC 39, eC 40, eC 41, eC 42, eC 43,
   eC 44, eC 45]

/-- the month arithmetic of EDATE on a start datetime and `n = int(month)` -/
def edateCore (dflt : Bool) (us : Int) (n : Int) : Except Err Value :=
  let year := yearOf us + n / eC 3
  let month := monthOf us + n % eC 4
  let ym : Int × Int :=
    if cmpI (eK 2) month (eC 5) then (year + eC 7, month - eC 6)
    else if cmpI (eK 3) month (eC 8) then (year - eC 10, month + eC 9)
    else (year, month)
  let year := ym.1
  let month := ym.2
  let md : Option (Int × Int) :=
    if dflt then
      let month := month - eC 11
      let day :=
        if cmpI (eK 4) month (eC 12) then (if edateLeapA year then eC 13 else eC 20)
        else if [eC 21, eC 22, eC 23, eC 24].contains month then eC 25
        else eC 26
      some (month, day)
    else
      match pyListGet? (edateMonthList year) (month - eC 46) with
      | some len => some (month, min (dayOf us) len)
      | none => none
  match md with
  | none => .error .error
  | some (month, day) =>
    if cmpI (eK 12) year (eC 47) || cmpI (eK 13) year (eC 48) then .ok (.err .num)
    else match mkDateTime? year month day 0 0 0 with
      | some us' => .ok (.date us')
      | none => .error .error

/-- EDATE(start_date, month) -/
def EDATE : Builtin
  | [sd, mo] =>
    let dflt : Bool := match sd with | .blank => true | _ => false
    let start : PD :=
      if dflt then
        (match mkDateTime? (eC 0) (eC 1) (eC 2) 0 0 0 with
         | some us => .date us
         | none => .raised)
      else pdOf sd
    match start with
    | .raised => .error .error
    | .unmodelled => unmodelled
    | .err e =>
      (match mo with
       | .blank => .ok (.err e)
       | _ => .error .error)       -- `int(month)` fails or the error value has no `.year`
    | .date us =>
      match mo with
      | .blank => .ok (.date us)
      | _ =>
        match pyIntOf? mo with
        | none => .error .error
        | some n => edateCore dflt us n
  | _ => .error .error

/-! ### WEEKDAY -/

def wC (i : Nat) : Int := Generated.weekdayInts.getD i 0

/-- Python `return_type == k` for an integer literal `k` -/
def eqInt (v : Value) (k : Int) : Bool :=
  match pyNumeric? v with
  | some q => q = (k : Rat)
  | none => false

def weekdayCore (d t : Value) : Except Err Value :=
  match pdOf d with
  | .date us =>
    let wd := Calendar.weekday (ordinalOf us)
    if eqInt t (wC 1) then .ok (vInt wd)
    else if eqInt t (wC 2) then .ok (vInt (wd + wC 3))
    else if eqInt t (wC 4) then (if wd = wC 5 then .ok (vInt (wC 6)) else .ok (vInt (wd + wC 7)))
    else .ok (.err .num)
  | .err _ => .error .error         -- an error value has no `.weekday()`
  | .raised => .error .error
  | .unmodelled => unmodelled

/-- WEEKDAY(date, return_type=1) -/
def WEEKDAY : Builtin
  | [d] => weekdayCore d (vInt (wC 0))
  | [d, t] => weekdayCore d t
  | _ => .error .error

def table : List (String × Builtin) :=
  [("DATE", DATE), ("TIME", TIME), ("DATEVALUE", DATEVALUE), ("TIMEVALUE", TIMEVALUE),
   ("YEAR", YEAR), ("MONTH", MONTH), ("DAY", DAY), ("HOUR", HOUR), ("MINUTE", MINUTE), ("SECOND", SECOND),
   ("DAYS", DAYS), ("DATEDIF", DATEDIF), ("EDATE", EDATE), ("WEEKDAY", WEEKDAY)]

end HotXL.Fn.DateTime
