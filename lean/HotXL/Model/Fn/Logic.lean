/-
  HotXL.Model.Fn.Logic — model of hotxlfp/formulas/logic.py
-/
import HotXL.Model.Fn.Common

namespace HotXL.Fn.Logic
open HotXL HotXL.Ops HotXL.Fn

/-- AND(*args) -/
def AND : Builtin := fun args =>
  let xs := flattenList args
  match firstError xs with
  | some e => .ok (.err e)
  | none => .ok (.bool (xs.all pyTruthy))

/-- OR(*args) -/
def OR : Builtin := fun args =>
  let xs := flattenList args
  match firstError xs with
  | some e => .ok (.err e)
  | none => .ok (.bool (xs.any pyTruthy))

/-- XOR(*args): parity of the number of true arguments -/
def XOR : Builtin := fun args =>
  let xs := flattenList args
  match firstError xs with
  | some e => .ok (.err e)
  | none => .ok (.bool ((xs.filter pyTruthy).length % 2 = 1))

/-- NOT(boolean) -/
def NOT : Builtin
  | [.err e] => .ok (.err e)
  | [v] => .ok (.bool (!pyTruthy v))
  | _ => .error .error

/-- IF(test, then, otherwise) -/
def IF : Builtin
  | [.err e, _, _] => .ok (.err e)
  | [t, a, b] => .ok (if pyTruthy t then a else b)
  | _ => .error .error

/-- IFERROR(value, value_if_error) -/
def IFERROR : Builtin
  | [.err _, y] => .ok y
  | [v, _] => .ok v
  | _ => .error .error

/-- IFNA(value, value_if_na) -/
def IFNA : Builtin
  | [.err .na, y] => .ok y
  | [v, _] => .ok v
  | _ => .error .error

/-- the `for i in range(0, argc - 1, 2)` scan of SWITCH over the complete (case, result) pairs;
    `none` = no case matched.  A trailing unpaired element (the default) is never compared. -/
def switchScan (target : Value) : List Value → Option Value
  | c :: r :: rest => if pyEqValue target c then some r else switchScan target rest
  | _ => none

/-- SWITCH(target, *args) -/
def SWITCH : Builtin
  | [] => .error .error
  | .err e :: _ => .ok (.err e)
  | target :: args =>
    if args.length ≤ 1 then .ok (.err .na) else
    match switchScan target args with
    | some r => .ok r
    | none => if args.length % 2 = 0 then .ok (.err .na) else .ok (args.getLast?.getD .blank)

/-- the `zip(args[::2], args[1::2])` scan of IFS -/
def ifsScan : List Value → Value
  | c :: v :: rest =>
    match c with
    | .err e => .err e
    | _ => if pyTruthy c then v else ifsScan rest
  | _ => .err .na

def IFS : Builtin := fun args => .ok (ifsScan args)

def TRUE : Builtin
  | [] => .ok (.bool true)
  | _ => .error .error
def FALSE : Builtin
  | [] => .ok (.bool false)
  | _ => .error .error

def table : List (String × Builtin) :=
  [("AND", AND), ("OR", OR), ("XOR", XOR), ("NOT", NOT), ("IF", IF), ("IFERROR", IFERROR), ("IFNA", IFNA),
   ("SWITCH", SWITCH), ("IFS", IFS), ("TRUE", TRUE), ("FALSE", FALSE)]

end HotXL.Fn.Logic
