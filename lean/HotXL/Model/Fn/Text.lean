/-
  HotXL.Model.Fn.Text — model of hotxlfp/formulas/text.py (every function except TEXT(), whose
  number/date formatting is out of scope: TEXT has no entry in `table`, so the evaluator reports
  it as `unmodelled-builtin`).

  Text is `List Char` (Unicode scalar values).  Python strings may also contain lone surrogates
  (`chr(0xD800)`..`chr(0xDFFF)`), which are not Lean `Char`s: `CHAR` answers `.other` for them
  (no opinion) and the generators never produce them.

  Case mapping (`str.upper` / `str.lower` / `str.title`) is a table of the Unicode library, not of
  hotxlfp: the model is parametric in a `CaseMap`; the registered builtins use the ASCII instance,
  which has an opinion on ASCII text only (`covers`), anything else is `.other`.
-/
import HotXL.Model.Fn.Common

namespace HotXL.Fn.Text
open HotXL HotXL.Ops HotXL.Fn

/-! ### Python slicing, `len`, `str()` -/

/-- `text[:n]` for any integer `n` (a negative `n` counts from the end) -/
def sliceTo (s : List Char) (n : Int) : List Char :=
  if 0 ≤ n then s.take n.toNat else s.take (s.length - n.natAbs)

/-- `text[n:]` for any integer `n` (a negative `n` counts from the end) -/
def sliceFrom (s : List Char) (n : Int) : List Char :=
  if 0 ≤ n then s.drop n.toNat else s.drop (s.length - n.natAbs)

/-- marker value: the function was applied to something whose Python text / behaviour is library
    matter (repr of a float, a date, a list; a foreign host object) — the model has no opinion -/
def noOpinion : Value := .other "text-of-float-date-or-list"

/-- `text` after the common prologue `None → ''`, non-string → `str(text)`;
    `none` = not modelled (`pyStr?`: floats, dates, lists, foreign objects) -/
def textOf? (v : Value) : Option (List Char) := pyStr? v

/-! ### counts: `num_chars < 0`, slicing with it -/

/-- how Python sees a count argument: an `int` (bool included), a `float`, or an object on which
    `x < 0` raises TypeError (text, None, error objects, dates, lists) -/
inductive Count where
  | int (i : Int)
  | flt (q : Rat)
  | bad
  deriving Repr

def countOf : Value → Count
  | .num (.int i) => .int i
  | .num (.flt q) => .flt q
  | .bool b => .int (if b then 1 else 0)
  | _ => .bad

/-- Python `count < k` for an integer constant `k` (never evaluated on `.bad`) -/
def Count.lt (c : Count) (k : Int) : Bool :=
  match c with
  | .int i => i < k
  | .flt q => q < (k : Rat)
  | .bad => false

/-! ### CHAR, CODE -/

/-- is `n` a Unicode scalar value (a code point that is not a surrogate)? -/
def isScalar (n : Int) : Bool := (0 ≤ n && n < 0xD800) || (0xDFFF < n && n ≤ 0x10FFFF)

/-- CHAR(number): `chr(parse_number(number))`; `chr` of a float raises TypeError, outside
    0..0x10FFFF ValueError/OverflowError (→ #ERROR!) -/
def CHAR : Builtin
  | [v] =>
    match parseNumber v with
    | .error e => .ok (.err e)
    | .ok (.flt _) => .error .error
    | .ok (.int n) =>
      if isScalar n then .ok (.str [Char.ofNat n.toNat])
      else if 0 ≤ n && n ≤ 0x10FFFF then .ok (.other "surrogate-code-point")
      else .error .error
  | _ => .error .error

/-- CODE(char): `ord(char)` — TypeError unless the argument is a string of length one -/
def CODE : Builtin
  | [.str [c]] => .ok (.num (.int c.toNat))
  | [.other _] => .ok noOpinion
  | _ => .error .error

/-! ### CLEAN, LEN, UPPER, LOWER, PROPER -/

/-- `''.join(c for c in text if ord(c) > 31)` -/
def clean (s : List Char) : List Char := s.filter (fun c => 31 < c.toNat)

/-- the shared prologue of CLEAN/LEN/LOWER/UPPER/PROPER: error returned, None as `''`
    (LEN: 0, the same thing), other values through `str()` -/
def onText (f : List Char → Value) : Builtin
  | [.err e] => .ok (.err e)
  | [v] => match textOf? v with
    | some s => .ok (f s)
    | none => .ok noOpinion
  | _ => .error .error

def CLEAN : Builtin := onText (fun s => .str (clean s))

def LEN : Builtin := onText (fun s => .num (.int s.length))

/-- the three case mappings of Python's `str`, and the set of texts on which this table claims to
    describe them -/
structure CaseMap where
  upper : List Char → List Char
  lower : List Char → List Char
  title : List Char → List Char
  covers : List Char → Bool

def isAsciiLower (c : Char) : Bool := 97 ≤ c.toNat && c.toNat ≤ 122
def isAsciiUpper (c : Char) : Bool := 65 ≤ c.toNat && c.toNat ≤ 90
def isAsciiLetter (c : Char) : Bool := isAsciiLower c || isAsciiUpper c

def upperChar (c : Char) : Char := if isAsciiLower c then Char.ofNat (c.toNat - 32) else c
def lowerChar (c : Char) : Char := if isAsciiUpper c then Char.ofNat (c.toNat + 32) else c

/-- `str.title()` (CPython `do_title`): a character is title-cased when the previous character
    is not cased, lower-cased otherwise.  Among ASCII characters exactly the letters are cased, so
    digits, apostrophes, underscores … all start a new word: "it's" → "It'S", "a1b" → "A1B". -/
def titleGo (prevCased : Bool) : List Char → List Char
  | [] => []
  | c :: r => (if prevCased then lowerChar c else upperChar c) :: titleGo (isAsciiLetter c) r

/-- the ASCII part of Python's case mappings -/
def CaseMap.ascii : CaseMap where
  upper := fun s => s.map upperChar
  lower := fun s => s.map lowerChar
  title := titleGo false
  covers := fun s => s.all (fun c => c.toNat < 128)

def caseFn (cm : CaseMap) (f : List Char → List Char) : Builtin :=
  onText (fun s => if cm.covers s then .str (f s) else .other "case-mapping-outside-table")

def UPPERwith (cm : CaseMap) : Builtin := caseFn cm cm.upper
def LOWERwith (cm : CaseMap) : Builtin := caseFn cm cm.lower
def PROPERwith (cm : CaseMap) : Builtin := caseFn cm cm.title

def UPPER : Builtin := UPPERwith CaseMap.ascii
def LOWER : Builtin := LOWERwith CaseMap.ascii
def PROPER : Builtin := PROPERwith CaseMap.ascii

/-! ### CONCATENATE, TEXTJOIN -/

/-- CONCATENATE over the flattened items: `None` skipped, an error item is raised (and returned),
    text as it is, anything else through `str()`.  `none` inside = an item whose `str()` is not
    modelled. -/
def concatGo : List Value → Except Err (Option (List Char))
  | [] => .ok (some [])
  | .blank :: rest => concatGo rest
  | .err e :: _ => .error e
  | v :: rest =>
    match concatGo rest with
    | .error e => .error e
    | .ok r => .ok (match textOf? v, r with
      | some a, some b => some (a ++ b)
      | _, _ => none)

def CONCATENATE : Builtin := fun args =>
  match concatGo (flattenList args) with
  | .error e => .ok (.err e)
  | .ok (some s) => .ok (.str s)
  | .ok none => .ok noOpinion

/-- `delimiter.join(items)` -/
def pyJoin (d : List Char) : List (List Char) → List Char
  | [] => []
  | [x] => x
  | x :: y :: rest => x ++ d ++ pyJoin d (y :: rest)

/-- the generator handed to `join`: `none` = an item that is not a string (TypeError in `join`) -/
def joinItems (ignoreEmpty : Bool) : List Value → Option (List (List Char))
  | [] => some []
  | .blank :: rest => if ignoreEmpty then joinItems ignoreEmpty rest else (joinItems ignoreEmpty rest).map ([] :: ·)
  | .str s :: rest => (joinItems ignoreEmpty rest).map (s :: ·)
  | _ :: _ => none

/-- TEXTJOIN(delimiter, ignore_empty, *args): items are NOT converted to text — a number (or an
    error value) among them makes `str.join` raise TypeError -/
def TEXTJOIN : Builtin
  | .str d :: ig :: args =>
    match joinItems (pyTruthy ig) (flattenList args) with
    | some xs => .ok (.str (pyJoin d xs))
    | none => .error .error
  | _ :: _ :: _ => .ok (.err .value)
  | _ => .error .error

/-! ### LEFT, RIGHT, MID -/

def leftCore (t n : Value) : Except Err Value :=
  match countOf n with
  | .bad => .error .error                      -- `num_chars < 0` raises TypeError
  | .int i =>
    if i < 0 then .ok (.err .value) else
    match t with
    | .str s => .ok (.str (sliceTo s i))
    | _ => .ok (.err .value)
  | .flt q =>
    if q < 0 then .ok (.err .value) else
    match t with
    | .str _ => .error .error                  -- slice indices must be integers
    | _ => .ok (.err .value)

/-- LEFT(text, num_chars=1) -/
def LEFT : Builtin
  | [t] => leftCore t (.num (.int 1))
  | [t, n] => leftCore t n
  | _ => .error .error

def rightCore (t n : Value) : Except Err Value :=
  match countOf n with
  | .bad => .error .error
  | .int i =>
    if i < 0 then .ok (.err .value) else
    match t with
    | .str s => .ok (.str (sliceFrom s (max ((s.length : Int) - i) 0)))
    | _ => .ok (.err .value)
  | .flt q =>
    if q < 0 then .ok (.err .value) else
    match t with
    | .str s =>
      -- `max(len - q, 0)` is the int 0 when `len - q < 0`, otherwise the float `len - q`
      if ((s.length : Int) : Rat) - q < 0 then .ok (.str s) else .error .error
    | _ => .ok (.err .value)

/-- RIGHT(text, num_chars=1) -/
def RIGHT : Builtin
  | [t] => rightCore t (.num (.int 1))
  | [t, n] => rightCore t n
  | _ => .error .error

def midCore (t st n : Value) : Except Err Value :=
  match countOf st with
  | .bad => .error .error
  | sc =>
    if sc.lt 1 then .ok (.err .value) else
    match countOf n with
    | .bad => .error .error
    | nc =>
      if nc.lt 0 then .ok (.err .value) else
      match t with
      | .str s =>
        (match sc, nc with
         | .int a, .int b => .ok (.str (sliceTo (sliceFrom s (a - 1)) b))
         | _, _ => .error .error)              -- a float index
      | _ => .ok (.err .value)

/-- MID(text, start_num, num_chars=1) -/
def MID : Builtin
  | [t, st] => midCore t st (.num (.int 1))
  | [t, st, n] => midCore t st n
  | _ => .error .error

/-! ### TRIM -/

/-- `re.sub(' {2,}', ' ', v)`: every maximal run of spaces becomes one space
    (`prev` = the previous character was a space) -/
def collapseSpaces (prev : Bool) : List Char → List Char
  | [] => []
  | c :: r =>
    if c = ' ' then (if prev then collapseSpaces true r else ' ' :: collapseSpaces true r)
    else c :: collapseSpaces false r

def lstripSpaces (s : List Char) : List Char := s.dropWhile (· = ' ')

/-- `.strip(' ')` -/
def stripSpaces (s : List Char) : List Char := (lstripSpaces (lstripSpaces s).reverse).reverse

def trim (s : List Char) : List Char := stripSpaces (collapseSpaces false s)

/-- TRIM(value): a non-string is returned as it is -/
def TRIM : Builtin
  | [.str s] => .ok (.str (trim s))
  | [v] => .ok v
  | _ => .error .error

/-! ### SUBSTITUTE -/

/-- `text.replace(old, new)`: left to right, non-overlapping; `skip` = characters of the current
    match still to be dropped.  (`old = ''` — never reached from SUBSTITUTE — inserts `new` before
    every character and at the end.) -/
def replaceGo (old new : List Char) : Nat → List Char → List Char
  | _, [] => []
  | skip + 1, _ :: r => replaceGo old new skip r
  | 0, c :: r =>
    if old.isPrefixOf (c :: r) then new ++ replaceGo old new (old.length - 1) r
    else c :: replaceGo old new 0 r

def pyReplace (s old new : List Char) : List Char :=
  if old.isEmpty then new ++ s.flatMap (fun c => c :: new) else replaceGo old new 0 s

/-- the `for i in range(len(text) - len_old + 1)` scan: the text with the `k`-th (k ≥ 1) start
    position at which `old` occurs replaced; every start position is examined, so overlapping
    occurrences are counted.  `none` = fewer than `k` occurrences. -/
def kthScan (old new : List Char) : Nat → List Char → Option (List Char)
  | _, [] => none
  | k, c :: r =>
    if old.isPrefixOf (c :: r) then
      (if k ≤ 1 then some (new ++ (c :: r).drop old.length)
       else (kthScan old new (k - 1) r).map (c :: ·))
    else (kthScan old new k r).map (c :: ·)

/-- `instance_num` as the occurrence number it can be equal to: a positive number that is not an
    integer (1.5) equals no occurrence count -/
def instanceNat? : Num → Option Nat
  | .int i => some i.toNat
  | .flt q => if q.den = 1 then some q.num.toNat else none

/-- Python `instance_num <= 0` -/
def numNonPos : Num → Bool
  | .int i => i ≤ 0
  | .flt q => q ≤ 0

/-- does Python's `len(x)` work on the value?  `none` = the model has no opinion -/
def hasLen? : Value → Option Bool
  | .str _ => some true
  | .arr _ => none
  | .other _ => none
  | _ => some false

def substituteCore (text old new : Value) (inst : Option Num) : Except Err Value :=
  if !pyTruthy text || !pyTruthy old || (match new with | .blank => true | _ => false) then .ok text else
  match inst with
  | none =>
    (match text, old, new with
     | .str s, .str o, .str n => .ok (.str (pyReplace s o n))
     | .other _, _, _ => .ok noOpinion
     | .date _, _, _ => .ok noOpinion          -- `datetime.replace(year, month)`: another method of the same name
     | _, _, _ => .error .error)               -- AttributeError (no `.replace`) / TypeError
  | some k =>
    match hasLen? old, hasLen? text with
    | some false, _ => .error .error           -- `len(old_text)` raises
    | some true, some false => .error .error   -- `len(text)` raises
    | some true, some true =>
      (match text, old with
       | .str s, .str o =>
         (match instanceNat? k with
          | none => .ok text
          | some kn =>
            match new with
            | .str n => .ok (match kthScan o n kn s with | some r => .str r | none => text)
            | _ =>
              -- `text[0:i] + new_text` raises TypeError, but only if the k-th occurrence exists
              (match kthScan o [] kn s with | some _ => .error .error | none => .ok text))
       | _, _ => .ok noOpinion)
    | _, _ => .ok noOpinion

/-- SUBSTITUTE(text, old_text, new_text, instance_num=DEFAULT) -/
def SUBSTITUTE : Builtin
  | [t, o, n] => substituteCore t o n none
  | [t, o, n, k] =>
    match parseNumber k with
    | .error e => .ok (.err e)
    | .ok kn => if numNonPos kn then .ok (.err .value) else substituteCore t o n (some kn)
  | _ => .error .error

def table : List (String × Builtin) :=
  [("CHAR", CHAR), ("CODE", CODE), ("CLEAN", CLEAN), ("CONCAT", CONCATENATE), ("CONCATENATE", CONCATENATE),
   ("LEN", LEN), ("LENB", LEN), ("LOWER", LOWER), ("UPPER", UPPER), ("PROPER", PROPER),
   ("SUBSTITUTE", SUBSTITUTE), ("TEXTJOIN", TEXTJOIN), ("LEFT", LEFT), ("LEFTB", LEFT),
   ("RIGHT", RIGHT), ("RIGHTB", RIGHT), ("MID", MID), ("MIDB", MID), ("TRIM", TRIM)]

end HotXL.Fn.Text
