/-
  HotXL.Model.Fn.Stat — model of hotxlfp/formulas/statistical.py.

  The CPython `statistics` functions are modelled by what they compute on ints and floats
  (Python 3.12): exact rational arithmetic on the exact values of the items, then `_convert`:
  an `int` when no float was among the items and the result is integral, a (correctly
  rounded) float otherwise — here `Num.flt q` with the exact rational `q`.
  Irrational results are returned symbolically: `sqrtTag q` (the non-negative real whose square
  is `q`; STDEV family) and `rootTag n q` (the positive real whose `n`-th power is `q`; GEOMEAN).
  Logicals among the items are modelled by their integer value (Python would hand a `bool`
  through MIN/MAX/MEDIAN/MODE unchanged).
-/
import HotXL.Model.Fn.Common
import HotXL.Model.Fn.Agg

namespace HotXL.Fn.Stat
open HotXL HotXL.Ops HotXL.Fn HotXL.Fn.Agg

/-! ### `statistics` on lists of numbers -/

/-- `statistics._convert(q, T)` for T ∈ {int, float} -/
def convert (ints : Bool) (q : Rat) : Num :=
  if ints && q.den = 1 then .int q.num else .flt q

/-- `statistics.mean`: StatisticsError on empty data -/
def mean (xs : List Num) : Except Err Num :=
  if xs.isEmpty then .error .error
  else .ok (convert (allInt xs) (ratSum (rats xs) / (xs.length : Rat)))

/-- stable insertion by value (an item goes before the first item that is not smaller) -/
def insertNum (x : Num) : List Num → List Num
  | [] => [x]
  | y :: ys => if Num.toRat x ≤ Num.toRat y then x :: y :: ys else y :: insertNum x ys

/-- Python `sorted(xs)` (stable) -/
def sortNums : List Num → List Num
  | [] => []
  | x :: xs => insertNum x (sortNums xs)

/-- `statistics.median`: the middle item of the sorted data, or `(a + b) / 2` of the two middle
    items (true division: a float) -/
def median (xs : List Num) : Except Err Num :=
  let s := sortNums xs
  let n := s.length
  if n = 0 then .error .error
  else if n % 2 = 1 then .ok (s.getD (n / 2) (.int 0))
  else .ok (.flt ((Num.toRat (s.getD (n / 2 - 1) (.int 0)) + Num.toRat (s.getD (n / 2) (.int 0))) / 2))

/-- number of items equal (as numbers) to `x` -/
def countEq (x : Num) (xs : List Num) : Nat := xs.countP (fun y => Num.toRat y = Num.toRat x)

/-- `statistics.mode` (Python ≥ 3.8): the first item, in the original order, whose value is most
    frequent (`Counter(data).most_common(1)`: first maximal count in insertion order) -/
def mode (xs : List Num) : Except Err Num :=
  match xs with
  | [] => .error .error
  | x :: rest => .ok (rest.foldl (fun best y => if countEq best xs < countEq y xs then y else best) x)

/-- `_ss`: the exact sum of squared deviations, computed as (n·Σx² − (Σx)²)/n -/
def ssd (qs : List Rat) : Rat :=
  let n : Rat := (qs.length : Rat)
  (n * ratSum (qs.map (fun q => q * q)) - ratSum qs * ratSum qs) / n

/-- sample variance as an exact rational; StatisticsError below two items -/
def varianceQ (xs : List Num) : Except Err Rat :=
  if xs.length < 2 then .error .error else .ok (ssd (rats xs) / ((xs.length : Rat) - 1))

/-- population variance as an exact rational; StatisticsError on empty data -/
def pvarianceQ (xs : List Num) : Except Err Rat :=
  if xs.length < 1 then .error .error else .ok (ssd (rats xs) / (xs.length : Rat))

def variance (xs : List Num) : Except Err Num := (varianceQ xs).map (convert (allInt xs))
def pvariance (xs : List Num) : Except Err Num := (pvarianceQ xs).map (convert (allInt xs))

/-- the non-negative real number whose square is `q` (`_float_sqrt_of_frac`, correctly rounded
    in Python) -/
def sqrtTag (q : Rat) : Value := .other s!"sqrt:{q.num}/{q.den}"

/-- the positive real number `g` with `g ^ n = q` -/
def rootTag (n : Nat) (q : Rat) : Value := .other s!"root:{n}:{q.num}/{q.den}"

/-- the scan of `harmonic_mean` over two or more items: `_fail_neg` raises on the first
    negative item, `1 / x` raises ZeroDivisionError (→ result 0) on the first zero — whichever
    comes first in the order of the items decides; `none` = all items positive -/
def harmScan : List Num → Option (Except Err Num)
  | [] => none
  | x :: xs =>
    if Num.toRat x < 0 then some (.error .error)
    else if Num.toRat x = 0 then some (.ok (.int 0))
    else harmScan xs

/-- `statistics.harmonic_mean` -/
def harmean (xs : List Num) : Except Err Num :=
  match xs with
  | [] => .error .error
  | [x] => if Num.toRat x < 0 then .error .error else .ok x
  | _ =>
    match harmScan xs with
    | some r => r
    | none => .ok (.flt ((xs.length : Rat) / ratSum ((rats xs).map (fun q => 1 / q))))

/-- `statistics.geometric_mean` = exp(fmean(map(log, data))): StatisticsError on empty data and
    on any item ≤ 0 (math domain error); otherwise the `n`-th root of the product -/
def geomean (xs : List Num) : Except Err Value :=
  if xs.isEmpty then .error .error
  else if xs.any (fun x => Num.toRat x ≤ 0) then .error .error
  else .ok (rootTag xs.length (ratProd (rats xs)))

/-- Python `max(xs)`: ValueError on empty; the FIRST maximal item -/
def maxNums : List Num → Except Err Num
  | [] => .error .error
  | x :: xs => .ok (xs.foldl (fun b y => if Num.toRat b < Num.toRat y then y else b) x)

/-- Python `min(xs)`: ValueError on empty; the FIRST minimal item -/
def minNums : List Num → Except Err Num
  | [] => .error .error
  | x :: xs => .ok (xs.foldl (fun b y => if Num.toRat y < Num.toRat b then y else b) x)

/-- lift a statistic of the numeric items to a builtin over `inumbers(args, …)` -/
def overNumbers (tryParse textIsZero : Bool) (f : List Num → Except Err Value) : Builtin := fun args =>
  match inumbers tryParse textIsZero args with
  | .error e => .error e
  | .ok xs => f xs

def numV (r : Except Err Num) : Except Err Value := r.map .num

/-! ### the registered functions -/

def AVERAGE : Builtin := overNumbers true false (fun xs => numV (mean xs))
def AVERAGEA : Builtin := overNumbers true true (fun xs => numV (mean xs))

/-- Σ|x − μ| / n as computed by AVEDEV -/
def avedevQ (ns : List Num) (avg : Num) : Rat :=
  ratSum (ns.map (fun x => ratAbs (Num.toRat x - Num.toRat avg))) / (ns.length : Rat)

/-- the items as Python numbers for `arg - average`: anything else (text, even numeric text,
    blank, dates) is a TypeError -/
def allNumbers : List Value → Option (List Num)
  | [] => some []
  | v :: rest =>
    match asNumber? v, allNumbers rest with
    | some n, some ns => some (n :: ns)
    | _, _ => none

/-- AVEDEV(*args): `args = flatten(args)`; `AVERAGE(*args)` (which flattens again: a no-op, so
    the model hands it `args`); then `sum(abs(arg - average) …) / len(args)` over ALL items -/
def AVEDEV : Builtin := fun args =>
  match inumbers true false args with
  | .error e => .error e
  | .ok xs =>
    match mean xs with
    | .error e => .error e
    | .ok avg =>
      match allNumbers (flattenList args) with
      | none => .error .error
      | some ns => .ok (.num (.flt (avedevQ ns avg)))

/-- COUNT(*args) = len(flatten(args)): counts EVERY item, numeric or not -/
def COUNT : Builtin := fun args => .ok (.num (.int (flattenList args).length))

def isBlankLike : Value → Bool
  | .blank => true
  | .str s => s.isEmpty
  | _ => false

def COUNTA : Builtin := fun args =>
  .ok (.num (.int ((flattenList args).countP (fun a => !isBlankLike a))))
def COUNTBLANK : Builtin := fun args =>
  .ok (.num (.int ((flattenList args).countP isBlankLike)))

/-- COUNTIF(args, criteria) -/
def COUNTIF : Builtin
  | [args, criteria] =>
    match parseCriteria criteria with
    | .error e => .error e
    | .ok c => .ok (.num (.int (selectBy c (flattenValue args)).length))
  | _ => .error .error

/-- `average_range[i]` for the items `args[i]` that satisfy the predicate; IndexError when the
    average range is too short for a selected item -/
def selectAligned (c : Crit) : List Value → List Value → Except Err (List Value)
  | [], _ => .ok []
  | a :: rest, vs =>
    match selectAligned c rest (vs.drop 1) with
    | .error e => .error e
    | .ok tail =>
      if c.test a then
        match vs.head? with
        | none => .error .error
        | some v => .ok (v :: tail)
      else .ok tail

/-- `parse_number` of every selected item, added up with `result += …` (an error VALUE among
    the selected items is a TypeError) -/
def parsedNums : List Value → Except Err (List Num)
  | [] => .ok []
  | v :: rest =>
    match parseNumber v with
    | .error _ => .error .error
    | .ok n => (parsedNums rest).map (n :: ·)

/-- `sum / count` (true division): ZeroDivisionError / AttributeError(`error.DIV0`) when
    nothing was selected — `#ERROR!` either way -/
def averageOf (ns : List Num) : Except Err Value :=
  if ns.isEmpty then .error .error
  else .ok (.num (.flt (Num.toRat (pySum ns) / (ns.length : Rat))))

def averageif (args criteria avgRange : Value) : Except Err Value :=
  let ar := if pyTruthy avgRange then avgRange else args
  let items := flattenValue args
  let avs := flattenValue ar
  if avs.isEmpty then .ok (.err .value) else
  match parseCriteria criteria with
  | .error e => .error e
  | .ok c =>
    match selectAligned c items avs with
    | .error e => .error e
    | .ok sel =>
      match parsedNums sel with
      | .error e => .error e
      | .ok ns => averageOf ns

/-- AVERAGEIF(args, criteria, average_range=None) -/
def AVERAGEIF : Builtin
  | [args, criteria] => averageif args criteria .blank
  | [args, criteria, ar] => averageif args criteria ar
  | _ => .error .error

def MAX : Builtin := overNumbers false false (fun xs => numV (maxNums xs))
def MAXA : Builtin := overNumbers true true (fun xs => numV (maxNums xs))
def MIN : Builtin := overNumbers false false (fun xs => numV (minNums xs))
def MINA : Builtin := overNumbers true true (fun xs => numV (minNums xs))
def MEDIAN : Builtin := overNumbers true false (fun xs => numV (median xs))
def MODE : Builtin := overNumbers true false (fun xs => numV (mode xs))
def VAR : Builtin := overNumbers false false (fun xs => numV (variance xs))
def VAR_P : Builtin := overNumbers false false (fun xs => numV (pvariance xs))
def VARA : Builtin := overNumbers true true (fun xs => numV (variance xs))
def STDEV : Builtin := overNumbers false false (fun xs => (varianceQ xs).map sqrtTag)
def STDEV_P : Builtin := overNumbers false false (fun xs => (pvarianceQ xs).map sqrtTag)
def STDEVA : Builtin := overNumbers true true (fun xs => (varianceQ xs).map sqrtTag)
def STDEVPA : Builtin := overNumbers true true (fun xs => (pvarianceQ xs).map sqrtTag)
def HARMEAN : Builtin := overNumbers false false (fun xs => numV (harmean xs))
def GEOMEAN : Builtin := overNumbers false false geomean

/-- AVERAGEIFS(average_range, *criteria): the value range is NOT flattened -/
def AVERAGEIFS : Builtin
  | [] => .error .error
  | avgRange :: criteria =>
    if criteria.length % 2 ≠ 0 then .ok (.err .error) else
    match parsePairs criteria with
    | .error e => .error e
    | .ok preds =>
      match seqOf avgRange with
      | none => .error .error
      | some items =>
        match selectRows preds items 0 with
        | .error e => .error e
        | .ok sel =>
          match numsOf sel with
          | .error e => .error e
          | .ok ns => averageOf ns

mutual
/-- Python `a > b` on raw values: numbers (logicals included), texts, dates among themselves,
    lists lexicographically; anything else is a TypeError -/
def pyGtValue : Value → Value → Except Err Bool
  | .arr a, .arr b => pyGtList a b
  | .str s, .str t => .ok (strLt t s)
  | .date a, .date b => .ok (b < a)
  | a, b =>
    match pyNumeric? a, pyNumeric? b with
    | some x, some y => .ok (y < x)
    | _, _ => .error .error
def pyGtList : List Value → List Value → Except Err Bool
  | [], _ => .ok false
  | _ :: _, [] => .ok true
  | x :: xs, y :: ys => if pyEqValue x y then pyGtList xs ys else pyGtValue x y
end

/-- the running maximum of MAXIFS: `if b is None or a > b: b = a`; `b` starts as `None` (`.blank`)
    — and is `None` again after a selected blank item -/
def maxLoop : Value → List Value → Except Err Value
  | b, [] => .ok b
  | b, a :: rest =>
    match b with
    | .blank => maxLoop a rest
    | _ =>
      match pyGtValue a b with
      | .error e => .error e
      | .ok g => maxLoop (if g then a else b) rest

/-- MAXIFS(sum_args, *criteria) -/
def MAXIFS : Builtin
  | [] => .error .error
  | maxRange :: criteria =>
    if criteria.length % 2 ≠ 0 then .ok (.err .error) else
    match parsePairs criteria with
    | .error e => .error e
    | .ok preds =>
      match seqOf maxRange with
      | none => .error .error
      | some items =>
        match selectRows preds items 0 with
        | .error e => .error e
        | .ok sel =>
          match maxLoop .blank sel with
          | .error e => .error e
          | .ok .blank => .ok (.num (.int 0))
          | .ok b => .ok b

/-- n·Σxy − Σx·Σy and n·Σx² − (Σx)² of SLOPE -/
def slopeNum (xs ys : List Rat) : Rat :=
  (xs.length : Rat) * ratSum (List.zipWith (· * ·) xs ys) - ratSum xs * ratSum ys
def slopeDen (xs : List Rat) : Rat :=
  (xs.length : Rat) * ratSum (xs.map (fun x => x * x)) - ratSum xs * ratSum xs

/-- SLOPE(*yx): the first half of the positional arguments are the ys, the second half the xs;
    the arguments are NOT flattened (`sum` of a list/text/blank/error value is a TypeError) -/
def SLOPE : Builtin := fun yx =>
  if yx.length % 2 ≠ 0 then .ok (.err .div0) else
  let m := yx.length / 2
  if m = 0 then .ok (.err .div0) else
  match allNumbers (yx.take m), allNumbers (yx.drop m) with
  | some ys, some xs =>
    let den := slopeDen (rats xs)
    if den = 0 then .ok (.err .div0)
    else .ok (.num (.flt (slopeNum (rats xs) (rats ys) / den)))
  | _, _ => .error .error

/-- LARGE(arr, n): the `n`-th largest of the flattened numeric items (text counts as 0);
    `n` outside 1..(number of items) is `#NUM!`; a non-integral-typed `n` (a float) is a
    TypeError when used as a list index -/
def LARGE : Builtin
  | [arr, n] =>
    match parseNumber n with
    | .error e => .ok (.err e)
    | .ok k =>
      match inumbers true true [arr] with
      | .error e => .error e
      | .ok xs =>
        let s := sortNums xs
        if Num.toRat k < 1 || (s.length : Rat) < Num.toRat k then .ok (.err .num) else
        match k with
        | .flt _ => .error .error              -- list indices must be integers
        | .int i =>
          match s[s.length - i.toNat]? with
          | some v => .ok (.num v)
          | none => .error .error
  | _ => .error .error

def table : List (String × Builtin) :=
  [("AVERAGE", AVERAGE), ("AVEDEV", AVEDEV), ("AVERAGEA", AVERAGEA),
   ("AVERAGEIF", guardCriteria (fun i => i = 1) AVERAGEIF),
   ("COUNT", COUNT), ("COUNTA", COUNTA), ("COUNTBLANK", COUNTBLANK),
   ("COUNTIF", guardCriteria (fun i => i = 1) COUNTIF),
   ("MAX", MAX), ("MAXA", MAXA), ("MEDIAN", MEDIAN), ("MIN", MIN), ("MINA", MINA),
   ("MODE", MODE), ("MODE.SNGL", MODE), ("VAR", VAR), ("VAR.S", VAR), ("VAR.P", VAR_P), ("VARP", VAR_P),
   ("VARA", VARA), ("STDEV", STDEV), ("STDEV.S", STDEV), ("STDEV.P", STDEV_P), ("STDEVP", STDEV_P),
   ("STDEVA", STDEVA), ("STDEVPA", STDEVPA), ("HARMEAN", HARMEAN), ("GEOMEAN", GEOMEAN),
   ("AVERAGEIFS", guardCriteria (fun i => i ≥ 2 && i % 2 = 0) AVERAGEIFS),
   ("MAXIFS", guardCriteria (fun i => i ≥ 2 && i % 2 = 0) MAXIFS),
   ("SLOPE", SLOPE), ("LARGE", LARGE)]

end HotXL.Fn.Stat
