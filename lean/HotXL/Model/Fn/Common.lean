/-
  HotXL.Model.Fn.Common — helpers shared by the builtin families: Python truthiness,
  `==` between values, `utils.iflatten`, `helper.number.to_number`, `utils.parse_number`.
-/
import HotXL.Model.Basic
import HotXL.Model.Operators

namespace HotXL.Fn
open HotXL HotXL.Ops

/-- a builtin: evaluated arguments to a value, or a raised Python exception (as the error
    code it ends up as: `#ERROR!` for any non-XLError exception) -/
abbrev Builtin := List Value → Except Err Value

/-- Python `bool(x)` -/
def pyTruthy : Value → Bool
  | .num n => !Num.isZero n
  | .bool b => b
  | .str s => !s.isEmpty
  | .blank => false
  | .err _ => true
  | .date _ => true
  | .arr xs => !xs.isEmpty
  | .other _ => true

/-- numeric value of int / float / bool (Python's numeric tower for `==`) -/
def pyNumeric? : Value → Option Rat
  | .num n => some (Num.toRat n)
  | .bool b => some (if b then 1 else 0)
  | _ => none

mutual
/-- Python `a == b` on the modelled values -/
def pyEqValue : Value → Value → Bool
  | .str a, .str b => a = b
  | .blank, .blank => true
  | .err a, .err b => a = b           -- singletons: identity
  | .date a, .date b => a = b
  | .arr a, .arr b => pyEqList a b
  | a, b => match pyNumeric? a, pyNumeric? b with
    | some x, some y => x = y
    | _, _ => false
def pyEqList : List Value → List Value → Bool
  | [], [] => true
  | x :: xs, y :: ys => pyEqValue x y && pyEqList xs ys
  | _, _ => false
end

mutual
/-- `utils.flatten` / `iflatten`: depth-first, left to right -/
def flattenValue : Value → List Value
  | .arr xs => flattenList xs
  | v => [v]
def flattenList : List Value → List Value
  | [] => []
  | x :: xs => flattenValue x ++ flattenList xs
end

/-- `helper.number.to_number`: numbers as they are, text through int()/float(), logicals 1/0
    (never reached for bool since bool is a number type), anything else unchanged -/
def toNumber : Value → Value
  | .str s => match toNumberText s with
    | .num n => .num n
    | .text => .str s
  | v => v

/-- Python `isinstance(x, number_types)` (bool included) as a `Num` -/
def asNumber? : Value → Option Num
  | .num n => some n
  | .bool b => some (.int (if b then 1 else 0))
  | _ => none

/-- `utils.parse_number`: the number, an error passed through, or `#VALUE!` -/
def parseNumber (v : Value) : Except Err Num :=
  match toNumber v with
  | .num n => .ok n
  | .bool b => .ok (.int (if b then 1 else 0))
  | .err e => .error e
  | _ => .error .value

/-- `utils.inumbers(l, try_parse, text_is_zero)`: the numbers among the flattened items;
    an error item is RAISED (`.error e`) -/
def inumbers (tryParse textIsZero : Bool) (args : List Value) : Except Err (List Num) :=
  let rec go : List Value → Except Err (List Num)
    | [] => .ok []
    | .err e :: _ => .error e
    | v :: rest =>
      let v' := if tryParse then toNumber v else v
      match asNumber? v' with
      | some n => (go rest).map (n :: ·)
      | none =>
        match v' with
        | .str _ => if textIsZero then (go rest).map (Num.int 0 :: ·) else go rest
        | _ => go rest
  go (flattenList args)

/-- Python `sum(xs)` of numbers (start 0) -/
def pySum (xs : List Num) : Num := xs.foldl numAdd (.int 0)

/-- first error in a list (`_first_error` / `any_is_error` style scans) -/
def firstError : List Value → Option Err
  | [] => none
  | .err e :: _ => some e
  | _ :: xs => firstError xs

end HotXL.Fn
