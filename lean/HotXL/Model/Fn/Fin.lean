/-
  HotXL.Model.Fn.Fin — model of hotxlfp/formulas/financial.py: PV, written generically over
  the operations of `HotXL.Fn.Math.ElemOps` (see `Model/Fn/Math.lean`), with the integer-overflow
  guard `HotXL.Fn.Math.pvGuard` on the growth factor `1 + rate`.  Nothing here is an
  exact rational function (the power `(1 + rate) ** periods`), so the `table` used by `eval`
  is empty and PV is reached through the driver op `math PV value…`.
-/
import HotXL.Model.Fn.Common
import HotXL.Model.Fn.Math

namespace HotXL.Fn.Fin
open HotXL HotXL.Ops HotXL.Fn HotXL.Fn.Math

section generic
variable {α : Type} (O : ElemOps α)

/-- the body of `PV` on numbers:
    `-payment * periods - future` at `rate == 0`, else with `R = (1 + rate) ** periods`
    `(((1 - R) / rate) * payment * (1 + rate * type) - future) / R` -/
def pv (rate periods payment future type : α) : Option α :=
  if O.isZero rate then
    some (O.sub (O.mul (O.neg payment) periods) future)
  else do
    let one := O.ofRat 1
    let R ← O.pow (O.add one rate) periods
    let a ← O.div (O.sub one R) rate
    let b := O.mul (O.mul a payment) (O.add one (O.mul rate type))
    O.div (O.sub b future) R

/-- `PV(rate, periods, payment, future=None, type=None)`: `None` ↦ 0 for the two optional
    arguments, all five through `parse_number`, `#VALUE!` if any is an error -/
def PV : List Value → Except Err α
  | [r, n, p] => go r n p .blank .blank
  | [r, n, p, f] => go r n p f .blank
  | [r, n, p, f, t] => go r n p f t
  | _ => .error .error
where
  dflt (v : Value) : Value := match v with | .blank => .num (.int 0) | v => v
  go (r n p f t : Value) : Except Err α :=
    match parseNumber r, parseNumber n, parseNumber p, parseNumber (dflt f), parseNumber (dflt t) with
    | .ok r, .ok n, .ok p, .ok f, .ok t =>
      -- the integer-overflow guard on `growth = 1 + rate` (it cannot fire at `rate == 0`, where
      -- `abs(growth) = 1`, so testing it before the `rate == 0` branch of `pv` changes nothing)
      if pvGuard r n then .error .num else
      match ofNum O r, ofNum O n, ofNum O p, ofNum O f, ofNum O t with
      | some r, some n, some p, some f, some t => lift (pv O r n p f t)
      | _, _, _, _, _ => .error .error
    | _, _, _, _, _ => .error .value

/-- registered name ↦ generic model -/
def fnTable : List (String × (List Value → Except Err α)) := [("PV", PV O)]

end generic

def table : List (String × Builtin) := []

end HotXL.Fn.Fin
