/-
  HotXL.Model.Fn.Round — model of the rounding / integer / radix / roman-numeral builtins of
  hotxlfp/formulas/mathtrig.py:
    ROUND ROUNDUP ROUNDDOWN CEILING(.MATH/.PRECISE) FLOOR(.MATH/.PRECISE) INT EVEN ODD QUOTIENT MOD SIGN
    FACT FACTDOUBLE BASE DECIMAL ROMAN ARABIC

  Conventions
  * a Python `float` is its exact rational value (`Num.flt q`); float ROUNDING ERROR is not modelled
    (so `x / s`, `abs(x) * 10**d` … are the exact quotients/products), and neither are OVERFLOW /
    UNDERFLOW of a float intermediate (`abs(x) * 10**d` beyond the doubles, `10**d` with |d| ≥ 309
    meeting a float — OverflowError in Python —, `abs(i) / 10**k` underflowing to 0.0).
    Python `int` is `Num.int`.
    The int/float distinction of every result is modelled.
  * `.error e` = the Python function RAISED (TypeError … → `#ERROR!`); a *returned* error value is
    `.ok (.err e)`.
  * inputs the model does not describe (a non-integral `digits` — `10**0.5` is irrational —,
    `str()` of a float/date/list) give `unmodelled`; the harness skips those.
  * text handling is ASCII (Python's `int()` also takes non-ASCII digits, `str.upper()` maps a few
    non-ASCII letters to ASCII ones).
  The magic numbers / tables come from `HotXL.Generated.Round` (regenerated from /repo).
-/
import HotXL.Model.Fn.Common
import HotXL.Model.Fn.Math
import HotXL.Generated.Round

namespace HotXL.Fn.Round
open HotXL HotXL.Ops HotXL.Fn

/-- stand-in for an input outside the modelled fragment -/
def unmodelled : Except Err Value := .ok (.other "unmodelled")

/-! ### Python numeric helpers (exact) -/

def ratAbs (q : Rat) : Rat := if q < 0 then -q else q

/-- `int(x)` on a float: truncation toward zero -/
def ratTrunc (q : Rat) : Int := if 0 ≤ q then q.floor else q.ceil

/-- `10 ** d` (an int for `d ≥ 0`, a float otherwise — here: its exact value) -/
def pow10 (d : Int) : Rat :=
  if 0 ≤ d then ((10 ^ d.toNat : Nat) : Rat) else 1 / ((10 ^ (-d).toNat : Nat) : Rat)

/-- round-half-even to an integer (Python `round`) -/
def halfEven (q : Rat) : Int :=
  let f := q.floor
  let r := q - (f : Rat)
  if r < 1 / 2 then f
  else if 1 / 2 < r then f + 1
  else if f % 2 = 0 then f else f + 1

/-- the integer a `digits`-like argument denotes when it is integral (`2`, `2.0`, `True`) -/
def integral? : Num → Option Int
  | .int d => some d
  | .flt q => if q.den = 1 then some q.num else none

def numAbs : Num → Num
  | .int i => .int (if i < 0 then -i else i)
  | .flt q => .flt (ratAbs q)

/-- `k * s` for a Python int `k` -/
def mulInt (k : Int) : Num → Num
  | .int i => .int (k * i)
  | .flt q => .flt ((k : Rat) * q)

/-- Python `round(x, d)` with an int `d`: ints stay ints -/
def pyRound (x : Num) (d : Int) : Num :=
  match x with
  | .int i =>
    if 0 ≤ d then .int i
    else
      let m : Int := ((10 ^ (-d).toNat : Nat) : Int)
      .int (halfEven ((i : Rat) / (m : Rat)) * m)
  | .flt q => .flt ((halfEven (q * pow10 d) : Rat) / pow10 d)

/-- `number * 0` / `number + 0` keep the kind of the number: an int stays an int (`True + 0 = 1`) -/
def mulZero : Num → Num
  | .int _ => .int 0
  | .flt _ => .flt 0

/-- `_place_beyond(number, digits)`: `-digits > max(1024, size)` with `size` the bit length of an
    int number and 0 for a float.  Then one unit of the place, `10 ** -digits`, is more than twice
    the magnitude of the number (`10^k > 2^k`, `k > bit length`; every float is below `2^1024`).
    `digits` is compared as a number, so this also applies to a float `digits`. -/
def placeBeyond (x dn : Num) : Bool :=
  let size : Int :=
    match x with
    | .int i => (Math.bitLength i : Int)
    | .flt _ => Generated.placeFloatSize
  decide (((max Generated.placeMinDigits size : Int) : Rat) < -Num.toRat dn)

/-- ROUND(number, digits): where the place is beyond the number (tested BEFORE `round` looks at the
    type of `digits`) the nearest multiple is 0: `number * 0` at once (`round()` would compute
    `10 ** -digits` exactly) -/
def ROUND : Builtin
  | [a, b] =>
    match parseNumber a, parseNumber b with
    | .ok x, .ok dn =>
      if placeBeyond x dn then .ok (.num (mulZero x))
      else
        (match dn with
         | .int d => .ok (.num (pyRound x d))
         | .flt _ => .error .error)          -- TypeError: 'float' object cannot be interpreted as an integer
    | _, _ => .ok (.err .value)
  | _ => .error .error

/-- `digits ≥ 0`: `sign * (ceil|floor)(abs(number) * 10**digits) / 10**digits` — always a float -/
def roundDir (up : Bool) (q : Rat) (d : Int) : Rat :=
  let s : Rat := if 0 < q then 1 else -1
  let scaled := ratAbs q * pow10 d
  let k : Int := if up then scaled.ceil else scaled.floor
  s * (k : Rat) / pow10 d

/-- `digits < 0`: `sign * (ceil|floor)(abs(number) / 10**-digits) * 10**-digits` with the exact
    integer `10**-digits` — an int (when `digits` is an int) -/
def roundDirNeg (up : Bool) (q : Rat) (d : Int) : Int :=
  let s : Int := if 0 < q then 1 else -1
  let m : Int := ((10 ^ (-d).toNat : Nat) : Int)
  let scaled := ratAbs q / (m : Rat)
  let k : Int := if up then scaled.ceil else scaled.floor
  s * k * m

/-- the upper guard of ROUNDUP / ROUNDDOWN (`digits > 1074`) -/
def roundDirMax (up : Bool) : Int := if up then Generated.roundupDigitsMax else Generated.rounddownDigitsMax

/-- ROUNDUP / ROUNDDOWN.  The guards come first (and compare `digits` as a number, so they also
    apply to a non-integral float `digits`):
    `digits > 1074` gives `number + 0` (every float is a multiple of 2^-1074 = 5^1074·10^-1074:
    nothing to round);
    a place beyond the number (`placeBeyond`) gives `number * 0` — except ROUNDUP of a non-zero
    number, which is `#NUM!` (one unit of that place is beyond the range of XL numbers).
    Between the guards `10 ** |digits|` has at most max(1075, bit length + 1) digits: bounded. -/
def roundDirFn (up : Bool) : Builtin
  | [a, b] =>
    match parseNumber a, parseNumber b with
    | .ok x, .ok dn =>
      if (roundDirMax up : Rat) < Num.toRat dn then .ok (.num x)
      else if placeBeyond x dn then
        (if up && !Num.isZero x then .ok (.err .num) else .ok (.num (mulZero x)))
      else
      (match integral? dn with
       | some d =>
         if d < 0 then
           (match dn with
            | .int _ => .ok (.num (.int (roundDirNeg up (Num.toRat x) d)))
            | .flt _ => .ok (.num (.flt ((roundDirNeg up (Num.toRat x) d : Int) : Rat))))   -- `10**2.0` is a float
         else .ok (.num (.flt (roundDir up (Num.toRat x) d)))
       | none => unmodelled)
    | _, _ => .ok (.err .value)
  | _ => .error .error

/-- ROUNDUP(number, digits) -/
def ROUNDUP : Builtin := roundDirFn true
/-- ROUNDDOWN(number, digits) -/
def ROUNDDOWN : Builtin := roundDirFn false

/-- the body of CEILING after argument parsing -/
def ceilingNum (x s : Num) : Value :=
  if Num.isZero s then .num (.int 0) else
  let positive := 0 < Num.toRat s
  let sa := numAbs s
  let q := Num.toRat x
  if 0 ≤ q then .num (mulInt (q / Num.toRat sa).ceil sa)
  else if positive then .num (mulInt (-1 * (ratAbs q / Num.toRat sa).floor) sa)
  else .num (mulInt (-1 * (ratAbs q / Num.toRat sa).ceil) sa)

def ceilingCore (a b : Value) : Except Err Value :=
  match parseNumber a, parseNumber b with
  | .ok x, .ok s => .ok (ceilingNum x s)
  | _, _ => .ok (.err .value)

/-- CEILING(number, significance=1) (also CEILING.MATH, CEILING.PRECISE) -/
def CEILING : Builtin
  | [a] => ceilingCore a (.num (.int 1))
  | [a, b] => ceilingCore a b
  | _ => .error .error

/-- the body of FLOOR after argument parsing -/
def floorNum (x s : Num) : Value :=
  if Num.isZero s then .num (.int 0) else
  let q := Num.toRat x
  let positive := 0 < Num.toRat s
  if 0 < q && !positive then .err .num else
  let sa := numAbs s
  if 0 ≤ q then .num (mulInt (q / Num.toRat sa).floor sa)
  else if positive then .num (mulInt (-1 * (ratAbs q / Num.toRat sa).ceil) sa)
  else .num (mulInt (-1 * (ratAbs q / Num.toRat sa).floor) sa)

def floorCore (a b : Value) : Except Err Value :=
  match parseNumber a, parseNumber b with
  | .ok x, .ok s => .ok (floorNum x s)
  | _, _ => .ok (.err .value)

/-- FLOOR(number, significance=1) (also FLOOR.MATH, FLOOR.PRECISE) -/
def FLOOR : Builtin
  | [a] => floorCore a (.num (.int 1))
  | [a, b] => floorCore a b
  | _ => .error .error

/-- QUOTIENT(numerator, denominator): `int(numerator / denominator)` -/
def QUOTIENT : Builtin
  | [a, b] =>
    match parseNumber a, parseNumber b with
    | .ok n, .ok d =>
      if Num.isZero d then .ok (.err .div0)
      else .ok (.num (.int (ratTrunc (Num.toRat n / Num.toRat d))))
    | _, _ => .ok (.err .value)
  | _ => .error .error

/-- Python `a % b` (floor-based), `b ≠ 0` -/
def pyMod : Num → Num → Num
  | .int a, .int b => .int (Int.fmod a b)
  | a, b => .flt (Num.toRat a - Num.toRat b * ((Num.toRat a / Num.toRat b).floor : Rat))

/-- MOD(numerator, denominator) -/
def MOD : Builtin
  | [a, b] =>
    match parseNumber a with
    | .error e => .ok (.err e)
    | .ok n =>
      match parseNumber b with
      | .error e => .ok (.err e)
      | .ok d =>
        if Num.isZero d then .ok (.err .div0) else
        let modulus := numAbs (pyMod n d)
        .ok (.num (if 0 < Num.toRat d then modulus else numNeg modulus))
  | _ => .error .error

/-- ODD(number) -/
def ODD : Builtin
  | [a] =>
    match parseNumber a with
    | .error e => .ok (.err e)
    | .ok n =>
      let q := Num.toRat n
      let tmp := (ratAbs q).ceil
      let tmp := if tmp % 2 = 1 then tmp else tmp + 1
      .ok (.num (.int (if 0 ≤ q then tmp else -tmp)))
  | _ => .error .error

/-- EVEN(number) -/
def EVEN : Builtin
  | [a] =>
    match parseNumber a with
    | .error e => .ok (.err e)
    | .ok n =>
      let q := Num.toRat n
      let tmp := (ratAbs q).ceil
      let tmp := if tmp % 2 = 0 then tmp else tmp + 1
      .ok (.num (.int (if 0 < q then tmp else -tmp)))
  | _ => .error .error

/-- `math.factorial` -/
def fact : Nat → Nat
  | 0 => 1
  | n + 1 => (n + 1) * fact n

/-- `reduce(operator.mul, range(n, 1, -2))` with the `n in (0, 1)` guard -/
def dfact : Nat → Nat
  | 0 => 1
  | 1 => 1
  | n + 2 => (n + 2) * dfact n

/-- FACT(number): `#NUM!` below 0 and from 171 on (171! is beyond the range of XL numbers; the
    comparison is on the parsed number, BEFORE `int()` truncates it: FACT(170.9) = 170!) -/
def FACT : Builtin
  | [a] =>
    match parseNumber a with
    | .error e => .ok (.err e)
    | .ok n =>
      if Num.toRat n < 0 || (Generated.factLimit : Rat) ≤ Num.toRat n then .ok (.err .num)
      else .ok (.num (.int (fact (ratTrunc (Num.toRat n)).toNat)))
  | _ => .error .error

/-- FACTDOUBLE(number): `#NUM!` below 0 and from 301 on (301!! is beyond the range of XL numbers) -/
def FACTDOUBLE : Builtin
  | [a] =>
    match parseNumber a with
    | .error e => .ok (.err e)
    | .ok n =>
      if Num.toRat n < 0 || (Generated.factdoubleLimit : Rat) ≤ Num.toRat n then .ok (.err .num)
      else .ok (.num (.int (dfact (ratTrunc (Num.toRat n)).toNat)))
  | _ => .error .error

/-- INT(number): no text parsing, `isinstance(number, (int, float))` (bool is an int) -/
def INT : Builtin
  | [v] =>
    match asNumber? v with
    | none => .ok (.err .value)
    | some n =>
      let q := Num.toRat n
      let t := ratTrunc q
      if 0 ≤ q then .ok (.num (.int t))
      else if q < (t : Rat) then .ok (.num (.int (t - 1)))
      else .ok (.num (.int t))
  | _ => .error .error

/-- SIGN(number) -/
def SIGN : Builtin
  | [v] =>
    match asNumber? v with
    | none => .ok (.err .value)
    | some n =>
      let q := Num.toRat n
      if q = 0 then .ok (.num (.int 0))
      else if 0 < q then .ok (.num (.int 1))
      else .ok (.num (.int (-1)))
  | _ => .error .error

/-! ### text of a value, `int(text, base)` -/

/-- Python `str(x)` where its text is fixed by the language; `none` = float/date/list/object -/
def pyStrOf : Value → Option (List Char)
  | .str s => some s
  | .num (.int i) => some (PyNum.intToDec i)
  | .bool true => some "True".toList
  | .bool false => some "False".toList
  | .blank => some "None".toList
  | .err e => some e.code.toList
  | _ => none

/-- value of an ASCII digit/letter as a digit (`0-9`, `a-z`, `A-Z`) -/
def digitVal (c : Char) : Option Nat :=
  let n := c.toNat
  if 48 ≤ n && n ≤ 57 then some (n - 48)
  else if 65 ≤ n && n ≤ 90 then some (n - 55)
  else if 97 ≤ n && n ≤ 122 then some (n - 87)
  else none

/-- digits in radix `base` with single underscores allowed between digits; `prev` = the previous
    character was a digit (an underscore needs a digit on both sides; after a radix prefix a
    leading underscore is allowed, which the caller expresses by `prev = true`) -/
def digitsBase (base : Nat) : List Char → Nat → Bool → Option Nat
  | [], acc, prev => if prev then some acc else none
  | c :: rest, acc, prev =>
    if c = '_' then
      if prev then
        match rest with
        | [] => none
        | _ :: _ => digitsBase base rest acc false
      else none
    else
      match digitVal c with
      | some d => if d < base then digitsBase base rest (acc * base + d) true else none
      | none => none

/-- digits after a radix prefix (`0x…`): a leading underscore is allowed -/
def prefixedBody (b : Nat) (r : List Char) : Option Nat :=
  match r with
  | [] => none
  | c :: _ => if c = '_' then digitsBase b r 0 true else digitsBase b r 0 false

/-- digits without a prefix: no leading underscore -/
def plainBody (b : Nat) (s : List Char) : Option Nat :=
  match s with
  | [] => none
  | c :: _ => if c = '_' then none else digitsBase b s 0 false

/-- the unsigned body of an `int(text, base)` literal: optional `0x/0o/0b` prefix matching the
    base (base 0: the prefix chooses the base; no prefix: decimal without leading zeros unless all
    zeros) -/
def unsignedBase (base : Nat) (s : List Char) : Option Nat :=
  match s with
  | '0' :: p :: r =>
    if (p = 'x' || p = 'X') && (base = 16 || base = 0) then prefixedBody 16 r
    else if (p = 'o' || p = 'O') && (base = 8 || base = 0) then prefixedBody 8 r
    else if (p = 'b' || p = 'B') && (base = 2 || base = 0) then prefixedBody 2 r
    else if base = 0 then
      -- "0…" in base 0: only zeros (and underscores) may follow
      (match digitsBase 10 s 0 false with
       | some 0 => some 0
       | _ => none)
    else plainBody base s
  | _ => if base = 0 then plainBody 10 s else plainBody base s

/-- `int(text, base)`; `none` = ValueError (bad literal, or a base other than 0, 2…36) -/
def pyIntBase? (s : List Char) (base : Int) : Option Int :=
  if base < 0 then none else
  let b := base.toNat
  if !(b = 0 || (2 ≤ b && b ≤ 36)) then none else
  match PyNum.strip s with
  | '-' :: r => (unsignedBase b r).map (fun n => - (n : Int))
  | '+' :: r => (unsignedBase b r).map (fun n => (n : Int))
  | r => (unsignedBase b r).map (fun n => (n : Int))

/-- DECIMAL(text, base) -/
def DECIMAL : Builtin
  | [t, b] =>
    match parseNumber b with
    | .error e => .ok (.err e)
    | .ok (.flt _) => .error .error            -- TypeError: 'float' object cannot be interpreted as an integer
    | .ok (.int base) =>
      match pyStrOf t with
      | none => unmodelled
      | some s =>
        match pyIntBase? s base with
        | some dec => .ok (.num (.int (if Generated.decimalHalf ≤ dec then dec - Generated.decimalWrap else dec)))
        | none => .ok (.err .value)
  | _ => .error .error

/-! ### BASE -/

def alphabet : List Char := Generated.baseAlphabet.toList

/-- the `while value: digits.append(int(value % base)); value //= base` loop on ints: the digits,
    least significant first.  `value // base < value` for `base ≥ 2`, `value > 0` is the
    termination argument (for `base < 2` the loop does not terminate in Python — BASE guards it). -/
def baseDigits (b n : Nat) : List Nat :=
  if _h : 2 ≤ b ∧ n ≠ 0 then (n % b) :: baseDigits b (n / b) else []
termination_by n
decreasing_by exact Nat.div_lt_self (by omega) (by omega)

/-- the same loop when value or base is a float: after the first step the value is integral.
    `n` is the (integral) current value; the `dite` carries the decrease `⌊n / b⌋ < n`, which
    holds whenever `b ≥ 2` (so the `else` branch is only reached at `n = 0`). -/
def baseDigitsRat (b : Rat) (n : Nat) : List Nat :=
  if n = 0 then [] else
  let next := ((n : Rat) / b).floor.toNat
  let d := (ratTrunc ((n : Rat) - b * (((n : Rat) / b).floor : Rat))).toNat
  if _h : next < n then d :: baseDigitsRat b next else [d]
termination_by n

/-- `''.join(alphabet[n] for n in digits[::-1])` -/
def digitsText (ds : List Nat) : List Char := ds.reverse.map (fun d => alphabet.getD d '?')

/-- `str.rjust(width, '0')` -/
def rjustZero (s : List Char) (width : Nat) : List Char := List.replicate (width - s.length) '0' ++ s

/-- the text of the digit loop for `value > 0` -/
def baseText (value base : Num) : List Char :=
  match value, base with
  | .int v, .int b => digitsText (baseDigits b.toNat v.toNat)
  | v, b =>
    let q := Num.toRat v
    let r := Num.toRat b
    let fl := (q / r).floor
    let d0 := (ratTrunc (q - r * (fl : Rat))).toNat
    digitsText (d0 :: baseDigitsRat r fl.toNat)

/-- `places is not DEFAULT and places < 0` -/
def negPlaces : Option Num → Bool
  | some p => decide (Num.toRat p < 0)
  | none => false

def baseCore (v b : Value) (places : Option Value) : Except Err Value :=
  match parseNumber v with
  | .error e => .ok (.err e)
  | .ok value =>
    match parseNumber b with
    | .error e => .ok (.err e)
    | .ok base =>
      let pl : Except Err (Option Num) :=
        match places with
        | none => .ok none
        | some p => (parseNumber p).map some
      match pl with
      | .error e => .ok (.err e)
      | .ok pl =>
        if negPlaces pl then .ok (.err .num) else
        if Num.toRat value < 0 || Num.toRat base < (Generated.baseMin : Rat) || (Generated.baseMax : Rat) < Num.toRat base
        then .ok (.err .num) else
        if Num.isZero value then .ok (.str ['0']) else
        let result := baseText value base
        match pl with
        | none => .ok (.str result)
        | some p =>
          if Num.toRat p < (result.length : Rat) then .ok (.err .num) else
          match p with
          | .int w => .ok (.str (rjustZero result w.toNat))
          | .flt _ => .error .error            -- TypeError in str.rjust

/-- BASE(value, base, places=DEFAULT) -/
def BASE : Builtin
  | [v, b] => baseCore v b none
  | [v, b, p] => baseCore v b (some p)
  | _ => .error .error

/-! ### ROMAN -/

def romanMap : List (Nat × List Char) := Generated.romanNumeralMap.map (fun p => (p.1, p.2.toList))

/-- the inner loop of `numerals(compress)` over `numeral_map[i:]`: `acc` is the deque
    (`appendleft` = cons); `compress = none` stands for a value no length ever equals.
    (Nat subtraction: the map is strictly decreasing, pinned by a lemma.) -/
def inbetween (compress : Option Nat) (arabic : Nat) (roman : List Char) :
    List (Nat × List Char) → List (Nat × List Char) → List (Nat × List Char)
  | [], acc => acc
  | (sa, sr) :: rest, acc =>
    let v := arabic - sa
    if romanMap.contains (v, sr) then inbetween compress arabic roman rest acc
    else
      let acc' := (v, sr ++ roman) :: acc
      if some acc'.length = compress then acc' else inbetween compress arabic roman rest acc'

def numeralsFrom (compress : Option Nat) : List (Nat × List Char) → List (Nat × List Char)
  | [] => []
  | (a, r) :: rest => (a, r) :: (inbetween compress a r rest [] ++ numeralsFrom compress rest)

/-- the generator `numerals(compress)` as a list -/
def numerals (compress : Option Nat) : List (Nat × List Char) := numeralsFrom compress romanMap

def repeatStr (s : List Char) : Nat → List Char
  | 0 => []
  | n + 1 => s ++ repeatStr s n

/-- the greedy loop on an int `number` (`int(number / arabic)` = floor division for these sizes) -/
def romanLoop : List (Nat × List Char) → Nat → List Char
  | [], _ => []
  | (a, r) :: rest, n =>
    if n = 0 then [] else
    let c := n / a
    repeatStr r c ++ romanLoop rest (n - a * c)

/-- the greedy loop on a float `number` -/
def romanLoopRat : List (Nat × List Char) → Rat → List Char
  | [], _ => []
  | (a, r) :: rest, q =>
    if q = 0 then [] else
    let c := (ratTrunc (q / (a : Rat))).toNat
    repeatStr r c ++ romanLoopRat rest (q - ((a * c : Nat) : Rat))

/-- `numerals(form + 1)` for a numeric `form` -/
def compressOf (form : Num) : Option Nat :=
  match integral? form with
  | some f => some (f + 1).toNat
  | none => none

def romanCore (a : Value) (f : Value) : Except Err Value :=
  let form : Except Err Num :=
    match f with
    | .bool true => .ok (.int Generated.romanTrueForm)
    | .bool false => .ok (.int Generated.romanFalseForm)
    | _ => parseNumber f
  match parseNumber a, form with
  | .ok n, .ok fm =>
    let q := Num.toRat n
    let fq := Num.toRat fm
    if !(0 < q && q < (Generated.romanLimit : Rat) && 0 ≤ fq && fq ≤ (Generated.romanMaxForm : Rat)) then .ok (.err .value) else
    match n with
    | .int i => .ok (.str (romanLoop (numerals (compressOf fm)) i.toNat))
    | .flt q => .ok (.str (romanLoopRat (numerals (compressOf fm)) q))
  | _, _ => .ok (.err .value)

/-- ROMAN(number, form=0) -/
def ROMAN : Builtin
  | [a] => romanCore a (.num (.int 0))
  | [a, f] => romanCore a f
  | _ => .error .error

/-! ### ARABIC -/

/-- the regular expressions the hand-written matcher/tokeniser below stand for -/
def expectedArabicRegex : String := "^M{0,4}(CM|CD|D?C{0,3})(XC|XL|L?X{0,3})(IX|IV|V?I{0,3})$"
def expectedArabicTokenRegex : String := "[MDLV]|C[MD]?|X[CL]?|I[XV]?"

def upperAscii (c : Char) : Char :=
  if 97 ≤ c.toNat && c.toNat ≤ 122 then Char.ofNat (c.toNat - 32) else c

/-- drop up to `k` leading `c` -/
def dropUpTo (c : Char) : Nat → List Char → List Char
  | 0, s => s
  | _ + 1, [] => []
  | k + 1, x :: s => if x = c then dropUpTo c k s else x :: s

/-- one decimal place of the regex: `(ten|five-one | five? one{0,3})` with `one`, `five`, `ten`
    the three symbols; deterministic because no later part of the pattern can start with
    `five`, `ten` or a fourth `one` -/
def place (one five ten : Char) : List Char → List Char
  | a :: b :: r =>
    if a = one && b = ten then r
    else if a = one && b = five then r
    else if a = five then dropUpTo one 3 (b :: r)
    else dropUpTo one 3 (a :: b :: r)
  | [a] => if a = five then [] else dropUpTo one 3 [a]
  | [] => []

/-- `re.search(regex, text) is not None` (`$` also matches before one final newline) -/
def arabicMatch (s : List Char) : Bool :=
  let r := dropUpTo 'M' 4 s
  let r := place 'C' 'D' 'M' r
  let r := place 'X' 'L' 'C' r
  let r := place 'I' 'V' 'X' r
  r = [] || r = ['\n']

def arabicMap : List (List Char × Nat) := Generated.arabicNumeralMap.map (fun p => (p.1.toList, p.2))

/-- `numeral_map[token]` (every token of the tokeniser is a key — pinned by a lemma) -/
def tokenValue (t : List Char) : Nat :=
  match arabicMap.find? (fun p => p.1 = t) with
  | some p => p.2
  | none => 0

/-- `sum(numeral_map[m.group()] for m in re.finditer(tokenRegex, text))`: leftmost-greedy tokens,
    other characters skipped -/
def arabicSum : List Char → Nat
  | [] => 0
  | [c] => if c = 'M' || c = 'D' || c = 'L' || c = 'V' || c = 'C' || c = 'X' || c = 'I' then tokenValue [c] else 0
  | a :: b :: r =>
    if a = 'M' || a = 'D' || a = 'L' || a = 'V' then tokenValue [a] + arabicSum (b :: r)
    else if a = 'C' then
      if b = 'M' || b = 'D' then tokenValue [a, b] + arabicSum r else tokenValue [a] + arabicSum (b :: r)
    else if a = 'X' then
      if b = 'C' || b = 'L' then tokenValue [a, b] + arabicSum r else tokenValue [a] + arabicSum (b :: r)
    else if a = 'I' then
      if b = 'X' || b = 'V' then tokenValue [a, b] + arabicSum r else tokenValue [a] + arabicSum (b :: r)
    else arabicSum (b :: r)

/-- ARABIC(text) -/
def ARABIC : Builtin
  | [t] =>
    match pyStrOf t with
    | none => unmodelled
    | some s =>
      let u := s.map upperAscii
      if arabicMatch u then .ok (.num (.int (arabicSum u))) else .ok (.err .value)
  | _ => .error .error

def table : List (String × Builtin) :=
  [("ROUND", ROUND), ("ROUNDUP", ROUNDUP), ("ROUNDDOWN", ROUNDDOWN),
   ("CEILING", CEILING), ("CEILING.MATH", CEILING), ("CEILING.PRECISE", CEILING),
   ("FLOOR", FLOOR), ("FLOOR.MATH", FLOOR), ("FLOOR.PRECISE", FLOOR),
   ("QUOTIENT", QUOTIENT), ("MOD", MOD), ("ODD", ODD), ("EVEN", EVEN),
   ("FACT", FACT), ("FACTDOUBLE", FACTDOUBLE), ("INT", INT), ("SIGN", SIGN),
   ("DECIMAL", DECIMAL), ("BASE", BASE), ("ROMAN", ROMAN), ("ARABIC", ARABIC)]

end HotXL.Fn.Round
