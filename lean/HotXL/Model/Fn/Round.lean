/-
  HotXL.Model.Fn.Round — builtin functions of this family (filled in as the family is modelled).
-/
import HotXL.Model.Fn.Common

namespace HotXL.Fn.Round
open HotXL HotXL.Ops HotXL.Fn

def table : List (String × Builtin) := []

end HotXL.Fn.Round
