/-
  HotXL.Model.PyNum — Python's `int(str)` / `str(int)` on ASCII text, as used by
  hotxlfp (`helper/number.py: to_number`, `helper/cell.py: row_label_to_index`).
  Non-ASCII digits and spaces (which CPython also accepts) are not modelled.
-/
import HotXL.Model.Basic

namespace HotXL.PyNum

def isDigit (c : Char) : Bool := '0'.toNat ≤ c.toNat && c.toNat ≤ '9'.toNat

/-- ASCII characters `str.strip()` / `int()` / `float()` treat as white space -/
def isPySpace (c : Char) : Bool :=
  let n := c.toNat
  (9 ≤ n && n ≤ 13) || n == 32 || (28 ≤ n && n ≤ 31)

def stripLeft (s : List Char) : List Char := s.dropWhile isPySpace
def strip (s : List Char) : List Char := (stripLeft (stripLeft s).reverse).reverse

def digitChar (d : Nat) : Char := Char.ofNat (d + 48)

/-- digits of `n`, most significant first, in front of `acc` -/
def natDigitsAux (n : Nat) (acc : List Char) : List Char :=
  if _h : n < 10 then digitChar n :: acc
  else natDigitsAux (n / 10) (digitChar (n % 10) :: acc)
termination_by n
decreasing_by omega

/-- `str(n)` for a natural number -/
def natToDec (n : Nat) : List Char := natDigitsAux n []

/-- `str(i)` for an integer -/
def intToDec (i : Int) : List Char :=
  if i < 0 then '-' :: natToDec i.natAbs else natToDec i.toNat

/-- digits with single underscores between them (`1_000`); `acc` is the value so far,
    `prevDigit` says whether the previous character was a digit -/
def digitsUnderscore (s : List Char) (acc : Nat) (prevDigit : Bool) : Option Nat :=
  match s with
  | [] => if prevDigit then some acc else none
  | c :: rest =>
    if isDigit c then digitsUnderscore rest (acc * 10 + (c.toNat - 48)) true
    else if c = '_' && prevDigit then
      match rest with
      | d :: _ => if isDigit d then digitsUnderscore rest acc false else none
      | [] => none
    else none

/-- unsigned decimal literal as `int()` accepts it (non-empty, digits, inner underscores) -/
def decNat? (s : List Char) : Option Nat :=
  match s with
  | [] => none
  | c :: _ => if isDigit c then digitsUnderscore s 0 false else none

/-- `int(s)` (base 10) for ASCII text: `none` = ValueError -/
def pyInt? (s : List Char) : Option Int :=
  match strip s with
  | '-' :: r => (decNat? r).map (fun n => - (n : Int))
  | '+' :: r => (decNat? r).map (fun n => (n : Int))
  | r => (decNat? r).map (fun n => (n : Int))

end HotXL.PyNum
