/-
  HotXL.Model.Lexer — model of hotxlfp/grammarparser/lexer.py as ply.lex runs it:
  one master regular expression, alternatives in definition order, FIRST alternative
  that matches at the cursor wins (Python `re` alternation, not longest match);
  WHITESPACE tokens are dropped; a character no rule matches makes `t_error` raise #NAME?.

  Each token rule has a hand-written matcher for its regular expression; the rule ORDER and
  the regular-expression TEXTS come from `HotXL.Generated` (regenerated from /repo), and
  `Props/C05` checks by `decide` that every generated text is the one the matcher was
  written for.
-/
import HotXL.Model.Basic
import HotXL.Generated.Lexer

namespace HotXL.Lexer

inductive TK where
  | WHITESPACE | STRING | FUNCTION | XLERROR | ABSOLUTE_CELL | MIXED_CELL | RELATIVE_CELL
  | VARIABLE | NUMBER | LBRACKET | RBRACKET | AMP | SINGLESPACE | DECIMAL | COLON | SEMICOLON
  | COMMA | BACKSLASH | MULT | DIV | MINUS | PLUS | CARET | LPAREN | RPAREN | NOTEQUAL
  | GREATEREQ | LESSEQ | GREATER | LESS | QUOTATION | APOSTROPHE | EXCLAMATION | EQUAL
  | PERCENT | HASH
  | LEXERROR     -- pseudo token: the lexer's `t_error` would raise #NAME? when asked for this token
  deriving DecidableEq, Repr, Inhabited

def TK.ofName : String → Option TK
  | "WHITESPACE" => some .WHITESPACE | "STRING" => some .STRING | "FUNCTION" => some .FUNCTION
  | "XLERROR" => some .XLERROR | "ABSOLUTE_CELL" => some .ABSOLUTE_CELL
  | "MIXED_CELL" => some .MIXED_CELL | "RELATIVE_CELL" => some .RELATIVE_CELL
  | "VARIABLE" => some .VARIABLE | "NUMBER" => some .NUMBER | "LBRACKET" => some .LBRACKET
  | "RBRACKET" => some .RBRACKET | "AMP" => some .AMP | "SINGLESPACE" => some .SINGLESPACE
  | "DECIMAL" => some .DECIMAL | "COLON" => some .COLON | "SEMICOLON" => some .SEMICOLON
  | "COMMA" => some .COMMA | "BACKSLASH" => some .BACKSLASH | "MULT" => some .MULT
  | "DIV" => some .DIV | "MINUS" => some .MINUS | "PLUS" => some .PLUS | "CARET" => some .CARET
  | "LPAREN" => some .LPAREN | "RPAREN" => some .RPAREN | "NOTEQUAL" => some .NOTEQUAL
  | "GREATEREQ" => some .GREATEREQ | "LESSEQ" => some .LESSEQ | "GREATER" => some .GREATER
  | "LESS" => some .LESS | "QUOTATION" => some .QUOTATION | "APOSTROPHE" => some .APOSTROPHE
  | "EXCLAMATION" => some .EXCLAMATION | "EQUAL" => some .EQUAL | "PERCENT" => some .PERCENT
  | "HASH" => some .HASH | _ => none

def TK.name : TK → String
  | .WHITESPACE => "WHITESPACE" | .STRING => "STRING" | .FUNCTION => "FUNCTION"
  | .XLERROR => "XLERROR" | .ABSOLUTE_CELL => "ABSOLUTE_CELL" | .MIXED_CELL => "MIXED_CELL"
  | .RELATIVE_CELL => "RELATIVE_CELL" | .VARIABLE => "VARIABLE" | .NUMBER => "NUMBER"
  | .LBRACKET => "LBRACKET" | .RBRACKET => "RBRACKET" | .AMP => "AMP" | .SINGLESPACE => "SINGLESPACE"
  | .DECIMAL => "DECIMAL" | .COLON => "COLON" | .SEMICOLON => "SEMICOLON" | .COMMA => "COMMA"
  | .BACKSLASH => "BACKSLASH" | .MULT => "MULT" | .DIV => "DIV" | .MINUS => "MINUS" | .PLUS => "PLUS"
  | .CARET => "CARET" | .LPAREN => "LPAREN" | .RPAREN => "RPAREN" | .NOTEQUAL => "NOTEQUAL"
  | .GREATEREQ => "GREATEREQ" | .LESSEQ => "LESSEQ" | .GREATER => "GREATER" | .LESS => "LESS"
  | .QUOTATION => "QUOTATION" | .APOSTROPHE => "APOSTROPHE" | .EXCLAMATION => "EXCLAMATION"
  | .EQUAL => "EQUAL" | .PERCENT => "PERCENT" | .HASH => "HASH" | .LEXERROR => "LEXERROR"

/-- the regular expression each matcher below was written for (as in lexer.py) -/
def TK.expectedRegex : TK → String
  | .WHITESPACE => "\\s+"
  | .STRING => "\"(\\\\[\"]|[^\"])*\"|\\'(\\\\[\\']|[^\\'])*\\'"
  | .FUNCTION => "([A-Za-z]{1,}[A-Za-z_0-9\\.]+(?=[(]))|([A-Za-z\\.]+(?=[(]))"
  | .XLERROR => "\\#[A-Z0-9\\/]+(\\!|\\?)?"
  | .ABSOLUTE_CELL => "\\$[A-Za-z]+\\$[0-9]+"
  | .MIXED_CELL => "(\\$[A-Za-z]+[0-9]+)|([A-Za-z]+\\$[0-9]+)"
  | .RELATIVE_CELL => "[A-Za-z]+[0-9]+"
  | .VARIABLE => "([A-Za-z]{1,}[A-Za-z_0-9]+)|([A-Za-z_]+)"
  | .NUMBER => "[0-9]+"
  | .LBRACKET => "\\{" | .RBRACKET => "\\}" | .AMP => "\\&" | .SINGLESPACE => "\\ "
  | .DECIMAL => "\\." | .COLON => "\\:" | .SEMICOLON => "\\;" | .COMMA => "\\,"
  | .BACKSLASH => "\\\\" | .MULT => "\\*" | .DIV => "\\/" | .MINUS => "\\-" | .PLUS => "\\+"
  | .CARET => "\\^" | .LPAREN => "\\(" | .RPAREN => "\\)" | .NOTEQUAL => "\\<\\>"
  | .GREATEREQ => "\\>\\=" | .LESSEQ => "\\<\\=" | .GREATER => "\\>" | .LESS => "\\<"
  | .QUOTATION => "\\\"" | .APOSTROPHE => "\\'" | .EXCLAMATION => "\\!" | .EQUAL => "\\="
  | .PERCENT => "\\%" | .HASH => "\\#" | .LEXERROR => ""

structure Token where
  kind : TK
  text : List Char
  deriving DecidableEq, Repr, Inhabited

/-! ### character classes -/

def isUpper (c : Char) : Bool := 65 ≤ c.toNat && c.toNat ≤ 90
def isLower (c : Char) : Bool := 97 ≤ c.toNat && c.toNat ≤ 122
def isAlpha (c : Char) : Bool := isUpper c || isLower c
def isDigit (c : Char) : Bool := 48 ≤ c.toNat && c.toNat ≤ 57
/-- `[A-Za-z_0-9]` -/
def isWord (c : Char) : Bool := isAlpha c || isDigit c || c = '_'
/-- `[A-Za-z_0-9\.]` -/
def isWordDot (c : Char) : Bool := isWord c || c = '.'
/-- `[A-Za-z\.]` -/
def isAlphaDot (c : Char) : Bool := isAlpha c || c = '.'
/-- `[A-Za-z_]` -/
def isAlphaUnderscore (c : Char) : Bool := isAlpha c || c = '_'
/-- `[A-Z0-9\/]` -/
def isErrChar (c : Char) : Bool := isUpper c || isDigit c || c = '/'
/-- Python's `\s` for `str` patterns -/
def isSpace (c : Char) : Bool :=
  let n := c.toNat
  (9 ≤ n && n ≤ 13) || (28 ≤ n && n ≤ 32) || n = 133 || n = 160 || n = 5760 ||
  (8192 ≤ n && n ≤ 8202) || n = 8232 || n = 8233 || n = 8239 || n = 8287 || n = 12288

/-- length of the maximal prefix of `s` whose characters satisfy `p` -/
def spanLen (p : Char → Bool) : List Char → Nat
  | [] => 0
  | c :: cs => if p c then spanLen p cs + 1 else 0

/-! ### one matcher per rule: `some n` = the rule matches exactly the first `n` characters -/

/-- `"(\\["]|[^"])*"` after the opening quote `q`: index (in `s`) just past the closing
    quote.  A quote preceded by a backslash is first tried as an escaped quote; the first
    quote that is not so escaped closes; if the input ends first, the engine backtracks to the
    most recent escaped quote.  `prevBackslash` = the previous character is a backslash that can
    pair with a quote; `lastEsc` = end index of the most recent escaped quote seen. -/
def scanString (q : Char) : List Char → (pos : Nat) → (prevBackslash : Bool) → (lastEsc : Option Nat) → Option Nat
  | [], _, _, lastEsc => lastEsc
  | c :: cs, pos, prevBackslash, lastEsc =>
    if c = q then
      if prevBackslash then scanString q cs (pos + 1) false (some (pos + 1))
      else some (pos + 1)
    else scanString q cs (pos + 1) (c = '\\') lastEsc

def matchString (s : List Char) : Option Nat :=
  match s with
  | '"' :: rest => scanString '"' rest 1 false none
  | '\'' :: rest => scanString '\'' rest 1 false none
  | _ => none

/-- `([A-Za-z]{1,}[A-Za-z_0-9\.]+(?=[(]))|([A-Za-z\.]+(?=[(]))` -/
def matchFunction (s : List Char) : Option Nat :=
  let n := spanLen isWordDot s
  let alt1 := match s with
    | c :: _ => isAlpha c && n ≥ 2 && (s.drop n).head? = some '('
    | [] => false
  if alt1 then some n else
  let m := spanLen isAlphaDot s
  if m ≥ 1 && (s.drop m).head? = some '(' then some m else none

/-- `\#[A-Z0-9\/]+(\!|\?)?` -/
def matchXlError (s : List Char) : Option Nat :=
  match s with
  | '#' :: rest =>
    let n := spanLen isErrChar rest
    if n = 0 then none else
    match (rest.drop n).head? with
    | some '!' => some (n + 2)
    | some '?' => some (n + 2)
    | _ => some (n + 1)
  | _ => none

/-- `[A-Za-z]+[0-9]+` at the start of `s` -/
def matchLettersDigits (s : List Char) : Option Nat :=
  let a := spanLen isAlpha s
  if a = 0 then none else
  let d := spanLen isDigit (s.drop a)
  if d = 0 then none else some (a + d)

/-- `\$[A-Za-z]+\$[0-9]+` -/
def matchAbsoluteCell (s : List Char) : Option Nat :=
  match s with
  | '$' :: rest =>
    let a := spanLen isAlpha rest
    if a = 0 then none else
    match rest.drop a with
    | '$' :: r2 =>
      let d := spanLen isDigit r2
      if d = 0 then none else some (1 + a + 1 + d)
    | _ => none
  | _ => none

/-- `(\$[A-Za-z]+[0-9]+)|([A-Za-z]+\$[0-9]+)` -/
def matchMixedCell (s : List Char) : Option Nat :=
  match s with
  | '$' :: rest => (matchLettersDigits rest).map (· + 1)
  | _ =>
    let a := spanLen isAlpha s
    if a = 0 then none else
    match s.drop a with
    | '$' :: r2 =>
      let d := spanLen isDigit r2
      if d = 0 then none else some (a + 1 + d)
    | _ => none

/-- `([A-Za-z]{1,}[A-Za-z_0-9]+)|([A-Za-z_]+)` -/
def matchVariable (s : List Char) : Option Nat :=
  let n := spanLen isWord s
  let alt1 := match s with
    | c :: _ => isAlpha c && n ≥ 2
    | [] => false
  if alt1 then some n else
  let m := spanLen isAlphaUnderscore s
  if m ≥ 1 then some m else none

def matchLit (lit : List Char) (s : List Char) : Option Nat :=
  if lit.isPrefixOf s then some lit.length else none

def matchSpan (p : Char → Bool) (s : List Char) : Option Nat :=
  let n := spanLen p s
  if n = 0 then none else some n

def matchTok : TK → List Char → Option Nat
  | .WHITESPACE => matchSpan isSpace
  | .STRING => matchString
  | .FUNCTION => matchFunction
  | .XLERROR => matchXlError
  | .ABSOLUTE_CELL => matchAbsoluteCell
  | .MIXED_CELL => matchMixedCell
  | .RELATIVE_CELL => matchLettersDigits
  | .VARIABLE => matchVariable
  | .NUMBER => matchSpan isDigit
  | .LBRACKET => matchLit ['{'] | .RBRACKET => matchLit ['}'] | .AMP => matchLit ['&']
  | .SINGLESPACE => matchLit [' '] | .DECIMAL => matchLit ['.'] | .COLON => matchLit [':']
  | .SEMICOLON => matchLit [';'] | .COMMA => matchLit [','] | .BACKSLASH => matchLit ['\\']
  | .MULT => matchLit ['*'] | .DIV => matchLit ['/'] | .MINUS => matchLit ['-']
  | .PLUS => matchLit ['+'] | .CARET => matchLit ['^'] | .LPAREN => matchLit ['(']
  | .RPAREN => matchLit [')'] | .NOTEQUAL => matchLit ['<', '>'] | .GREATEREQ => matchLit ['>', '=']
  | .LESSEQ => matchLit ['<', '='] | .GREATER => matchLit ['>'] | .LESS => matchLit ['<']
  | .QUOTATION => matchLit ['"'] | .APOSTROPHE => matchLit ['\''] | .EXCLAMATION => matchLit ['!']
  | .EQUAL => matchLit ['='] | .PERCENT => matchLit ['%'] | .HASH => matchLit ['#']
  | .LEXERROR => fun _ => none

/-- rule order of ply's master regular expression (generated) -/
def ruleOrder : List TK := Generated.lexRules.filterMap (fun r => TK.ofName r.1)

/-- first rule, in master order, that matches a non-empty prefix -/
def lexOne (rules : List TK) (s : List Char) : Option (TK × Nat) :=
  rules.findSome? (fun k => match matchTok k s with
    | some n => if n = 0 then none else some (k, n)
    | none => none)

/-- the token stream ply would deliver, WHITESPACE dropped; if some character matches no
    rule the stream ends with a `LEXERROR` pseudo-token (asking for it raises #NAME?).
    `fuel` only needs to be ≥ the input length + 1. -/
def tokenizeAux (rules : List TK) : Nat → List Char → List Token
  | 0, _ => []
  | _ + 1, [] => []
  | fuel + 1, s =>
    match lexOne rules s with
    | none => [{ kind := .LEXERROR, text := s.take 1 }]
    | some (k, n) =>
      let rest := tokenizeAux rules fuel (s.drop n)
      if k = .WHITESPACE then rest else { kind := k, text := s.take n } :: rest

def tokenize (s : List Char) : List Token := tokenizeAux ruleOrder (s.length + 1) s

end HotXL.Lexer
