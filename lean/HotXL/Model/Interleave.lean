/-
  HotXL.Model.Interleave — an INTERLEAVING MODEL of formula evaluations ("activations") at the
  granularity of the lexer operations that ply's `LRParser.parse` performs, and a model of the
  per-instance bindings of `hotxlfp.Parser`.  Core Lean only (no Mathlib), total.

  What the Python code does (hotxlfp/grammarparser/parser.py, ply/yacc.py, ply/lex.py)
  ------------------------------------------------------------------------------------
  One call of `FormulaParser.parse(input)` = one ACTIVATION.  `LRParser.parseopt_notrack` keeps
  its whole parsing state (state stack, symbol stack, look-ahead, production slice) in LOCAL
  variables of that call; the only thing it shares with anybody is the LEXER OBJECT it fetches
  tokens from:  first `lexer.input(input)` (sets `lexdata`, resets `lexpos := 0`), then
  repeatedly `lexer.token()` (reads `lexdata` at `lexpos`, advances `lexpos`; returns `None`
  at the end of the data).  Between two fetches the parser reduces, and a reduction may call
  into the host (custom function, listener), which may run further complete evaluations
  (nesting) — and other threads may do their own fetches at any time (interleaving).

    * after the repair `parse` does `self.yacc.parse(input, lexer=self.lex.clone())`:
      every activation owns a fresh lexer object                       → `Config.owned`
    * before the repair `self.yacc.parse(input)` used the process-global `ply.lex.lexer`
      (the lexer of the most recently constructed parser) for EVERY activation of EVERY
      parser                                                             → `Config.shared`
    * the half-repair `lexer=self.lex` (no clone) gives one lexer per parser object
                                                                         → `Config.perParser`

  The model
  ---------
  * a lexer object is a `LexState`: its data, ALREADY CUT INTO TOKENS (`tokenize(lexdata)`;
    between two operations a ply lexer always stands at a token boundary of its current data,
    so nothing is lost), and a position counted in tokens;
  * the store maps lexer ids to lexer states;
  * an activation `a` has a token list `input a`, a reference `lexRef a` to the lexer it uses,
    a private machine state (`S`, arbitrary) driven by an arbitrary step function `δ a`
    (ply's LR automaton together with the semantic actions and whatever the host callbacks
    return), and the ghost list `seen` of the results of its `token()` calls;
  * ONE STEP of `a`:  its first step is `input()` (overwrites the data of lexer `lexRef a`,
    position 0); every later step is one `token()` on lexer `lexRef a` (advancing THAT lexer)
    followed by `δ a`; `a` is finished when `token()` returned end-of-input (`none`) or its
    machine state is `halted` (an exception left `parse`: syntax error, #NAME?, …); a step of
    a finished activation does nothing;
  * a SCHEDULE is a list of activation ids: `run` performs the steps in that order.  Threads:
    any list.  Nesting: the schedules of the shape `Eval.sched` (a callback runs a complete
    evaluation between two steps of the outer one); `execNest` is the call-stack semantics.

  NOT modelled (trusted; see harness/props/c03.py, which tests the real objects):
  * interleavings FINER than lexer operations inside ply — i.e. bytecode-level interleaving
    of two threads inside `Lexer.token`/`Lexer.input` themselves.  With owned lexers no two
    threads ever execute these methods on the same object, so there is nothing to interleave;
    for the `shared` configuration the model is coarser than reality (CPython's GIL makes each
    bytecode atomic, not each method).
  * CPython object internals (reference counts, dict resizing, the `copy.copy` in `clone`,
    the shared read-only master regular expression of the clones, the XLError singletons'
    `__traceback__`), and the attributes ply stores on the `LRParser` object (`token`,
    `statestack`, `symstack`, `state`, `errorok`): with hotxlfp's grammar none of them is read
    back (`p_error` always raises, so ply's error recovery never continues).
  * `token()` RAISING (`t_error` raises #NAME? on an illegal character): the driver represents it by
    a fetch of the pseudo-token `LEXERROR` on which the machine halts.  What a lexer object does
    when it is asked again after a raise (ply leaves `lexpos` on the illegal character) is not
    modelled; it matters only for the `shared` discipline, never for owned lexers (the only
    activation that could ask again has ended).
  * how `δ` arises from the grammar: it is a parameter.  A host callback's return value may
    depend on the OUTCOME of an evaluation nested in it; since that outcome is invariant
    (theorem `isolation_of_owned_lexers`), this is covered by `δ` being arbitrary per activation.
-/
import HotXL.Model.Eval

namespace HotXL.Interleave

abbrev ActId := Nat
abbrev LexId := Nat
abbrev ParserId := Nat

/-- pointwise update of a map -/
def upd {β : Type} (f : Nat → β) (k : Nat) (v : β) : Nat → β := fun i => if i = k then v else f i

/-! ### lexer objects -/

/-- the mutable part of a `ply.lex.Lexer`: `lexdata` (as its token sequence) and `lexpos`
    (counted in tokens) -/
structure LexState (Tok : Type) where
  data : List Tok
  pos : Nat

/-- `Lexer.input(s)` -/
def LexState.input {Tok : Type} (data : List Tok) : LexState Tok := { data := data, pos := 0 }

/-- `Lexer.token()`: the token at the position (`none` = end of input, Python `None`) and the
    lexer afterwards (ply advances `lexpos` at the end of the data too) -/
def LexState.token {Tok : Type} (l : LexState Tok) : Option Tok × LexState Tok :=
  (l.data[l.pos]?, { l with pos := l.pos + 1 })

/-! ### activations -/

/-- the static description of a set of activations -/
structure Config (Tok S : Type) where
  input : ActId → List Tok            -- `tokenize` of the formula of activation `a`
  lexRef : ActId → LexId              -- the lexer object `a` fetches from
  parserOf : ActId → ParserId         -- the `hotxlfp.Parser` it was started on
  init : S                            -- ply's initial machine state
  δ : ActId → S → Option Tok → S      -- machine step on a fetched token (`none` = `$end`)
  halted : S → Bool                   -- an exception has left `parse`

inductive Phase where
  | fresh      -- `parse` called, `lexer.input` not yet
  | running
  | finished
  deriving DecidableEq, Repr

structure ActState (Tok S : Type) where
  phase : Phase
  st : S
  seen : List (Option Tok)            -- ghost: what its `token()` calls returned, in order

structure Sys (Tok S : Type) where
  store : LexId → LexState Tok
  act : ActId → ActState Tok S

/-- every activation not yet started; the lexer objects exist already, in ANY state -/
def Sys.initial {Tok S : Type} (c : Config Tok S) (store : LexId → LexState Tok) : Sys Tok S :=
  { store := store, act := fun _ => { phase := .fresh, st := c.init, seen := [] } }

/-- one step of activation `a` -/
def step {Tok S : Type} (c : Config Tok S) (σ : Sys Tok S) (a : ActId) : Sys Tok S :=
  match (σ.act a).phase with
  | .finished => σ
  | .fresh =>
    { store := upd σ.store (c.lexRef a) (LexState.input (c.input a)),
      act := upd σ.act a { σ.act a with phase := .running } }
  | .running =>
    let r := (σ.store (c.lexRef a)).token
    let s' := c.δ a (σ.act a).st r.1
    { store := upd σ.store (c.lexRef a) r.2,
      act := upd σ.act a
        { phase := if r.1.isNone || c.halted s' then .finished else .running,
          st := s',
          seen := (σ.act a).seen ++ [r.1] } }

/-- a schedule = the order in which the steps happen -/
abbrev Schedule := List ActId

def run {Tok S : Type} (c : Config Tok S) (σ : Sys Tok S) (sched : Schedule) : Sys Tok S :=
  sched.foldl (step c) σ

/-- activation `a` run ALONE for `n` of its own steps -/
def solo {Tok S : Type} (c : Config Tok S) (store : LexId → LexState Tok) (a : ActId) (n : Nat) : Sys Tok S :=
  run c (Sys.initial c store) (List.replicate n a)

/-- what `a`'s `token()` calls have returned so far -/
def tokensSeenBy {Tok S : Type} (σ : Sys Tok S) (a : ActId) : List (Option Tok) := (σ.act a).seen

/-- the first `n` results of `token()` on a lexer that was given `inp` and is used by nobody else -/
def stream {Tok : Type} (inp : List Tok) (n : Nat) : List (Option Tok) := (List.range n).map (fun i => inp[i]?)

/-- the outcome of a completed activation (`out` = how the record is read off the machine state) -/
def outcome {Tok S R : Type} (out : S → R) (σ : Sys Tok S) (a : ActId) : Option R :=
  match (σ.act a).phase with
  | .finished => some (out (σ.act a).st)
  | _ => none

/-! ### the three lexer disciplines -/

/-- after the repair: `self.lex.clone()` per call — no two activations share a lexer -/
def Config.Owned {Tok S : Type} (c : Config Tok S) : Prop := ∀ a b, c.lexRef a = c.lexRef b → a = b

/-- before the repair: every activation of the process uses the global `ply.lex.lexer` -/
def Config.Shared {Tok S : Type} (c : Config Tok S) : Prop := ∀ a b, c.lexRef a = c.lexRef b

/-- `lexer=self.lex` without `clone`: one lexer per parser object -/
def Config.PerParser {Tok S : Type} (c : Config Tok S) : Prop := ∀ a, c.lexRef a = c.parserOf a

/-! ### nesting: call trees and their schedules -/

mutual
/-- the remaining course of one evaluation -/
inductive Body where
  | nil : Body                       -- no further step
  | own : Body → Body                -- one own step (`input()` or a `token()`), then the rest
  | call : Eval → Body → Body        -- a host callback runs a COMPLETE nested evaluation, then the rest
/-- an evaluation: which activation it is, and its course -/
inductive Eval where
  | mk : ActId → Body → Eval
end

mutual
/-- the schedule of a call tree: the nested evaluation's steps sit, contiguously, between two
    steps of the evaluation whose callback started it (stack discipline) -/
def Body.sched (a : ActId) : Body → Schedule
  | .nil => []
  | .own k => a :: k.sched a
  | .call e k => e.sched ++ k.sched a
def Eval.sched : Eval → Schedule
  | .mk a b => b.sched a
end

mutual
/-- call-stack semantics: a `call` runs the callee to completion (recursively), then resumes -/
def Body.exec {Tok S : Type} (c : Config Tok S) (a : ActId) : Body → Sys Tok S → Sys Tok S
  | .nil, σ => σ
  | .own k, σ => k.exec c a (step c σ a)
  | .call e k, σ => k.exec c a (e.exec c σ)
def Eval.exec {Tok S : Type} (c : Config Tok S) : Eval → Sys Tok S → Sys Tok S
  | .mk a b, σ => b.exec c a σ
end

mutual
/-- nesting depth of a call tree (1 = no nested evaluation) -/
def Body.depth : Body → Nat
  | .nil => 0
  | .own k => k.depth
  | .call e k => max e.depth k.depth
def Eval.depth : Eval → Nat
  | .mk _ b => b.depth + 1
end

/-! ### per-instance bindings of `hotxlfp.Parser` -/

/-- what one `hotxlfp.Parser` object holds: `variables` and `functions` and the effect of its
    `callCellValue`/`callRangeValue` listeners (all inside `Eval.Env`), and its emitter
    `_e`: event name ↦ ids of the registered listeners -/
structure Bindings where
  env : Eval.Env
  listeners : String → List Nat

def Bindings.empty : Bindings := { env := Eval.Env.empty, listeners := fun _ => [] }

/-- the heap of parser objects: every instance has its OWN maps (`Parser.__init__` creates new
    dicts; `Emitter.__init__` a new `defaultdict`) -/
abbrev World := ParserId → Bindings

/-- `P.set_variable(name, v)` -/
def setVariable (w : World) (P : ParserId) (name : List Char) (v : Value) : World :=
  upd w P { w P with env := { (w P).env with vars := fun n => if n = name then some v else (w P).env.vars n } }

/-- `P.set_function(name, f)` -/
def setFunction (w : World) (P : ParserId) (name : List Char) (f : Eval.HostFn) : World :=
  upd w P { w P with env := { (w P).env with custom := fun n => if n = name then some f else (w P).env.custom n } }

/-- `P.on(event, listener)` -/
def onEvent (w : World) (P : ParserId) (event : String) (listener : Nat) : World :=
  upd w P { w P with listeners := fun e => if e = event then (w P).listeners e ++ [listener] else (w P).listeners e }

/-- `P.on('callCellValue', λ cell, done: done(v) if cell.label == label)` — as the evaluation sees it -/
def onCellValue (w : World) (P : ParserId) (label : List Char) (v : Value) : World :=
  upd w P { w P with env := { (w P).env with cellValue := fun l => if l = label then v else (w P).env.cellValue l } }

def eventName : Eval.Event → String
  | .cell .. => "callCellValue"
  | .range .. => "callRangeValue"
  | .var .. => "callVariable"
  | .fn .. => "callFunction"

/-- `Q.parse(formula)`: the record, and the listener calls it makes — `call_variable`,
    `call_function` read `self.variables` / `self.functions` (then the module-global, read-only
    registry `formulas.get_for`, which is `Builtins` inside `Eval.callFunction` and NOT part of
    the world), and `self.emit` walks `self._e`: only `w Q` is consulted -/
def evalOn (w : World) (Q : ParserId) (formula : List Char) : Eval.Record × List (Nat × Eval.Event) :=
  let r := Eval.parseTop (w Q).env formula
  (r.1, r.2.flatMap (fun ev => ((w Q).listeners (eventName ev)).map (fun l => (l, ev))))

end HotXL.Interleave
