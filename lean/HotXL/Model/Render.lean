/-
  HotXL.Model.Render — printers from expression trees to TOKEN lists, used to state C04
  (precedence, associativity and parentheses determine expression structure).

  Nothing here models Python code: these are the "renderings" the property quantifies over.

  * `lvl`, `isLeft`       level / associativity of a binary operator, read from the generated table
  * `level`               level of a tree: a binary node has the level of its operator, every
                          other node (leaf, unary minus) the level of unary minus
  * `AtomToks e ts`       `ts` is the token spelling of the leaf `e` (numbers in the five literal
                          forms, strings, error literals, `F()`, variable sequences, cells, ranges)
  * `RendersAt m e ts`    `ts` spells the tree `e` so that it can stand where an operand of level
                          ≥ `m` is expected; any sub-expression may carry any number of redundant
                          parentheses
  * `Renders e ts`        `RendersAt 0 e ts`
  * `renderMin`           the rendering with parentheses only where the table makes them necessary
  * `renderFull`          the rendering with parentheses around every non-atomic operand
-/
import HotXL.Model.Syntax

namespace HotXL.Syntax
open HotXL HotXL.Lexer

/-- level of a binary operator in the generated table (0 = not in the table) -/
def lvl (op : BinOp) : Nat := ((binLevel op).map (·.1)).getD 0
/-- is the operator declared left-associative in the generated table? -/
def isLeft (op : BinOp) : Bool := (binLevel op).map (·.2) = some Assoc.left

/-- level of a tree as an operand: binary node = level of its operator; leaves and unary minus
    bind as tightly as unary minus -/
def level : Expr → Nat
  | .bin op _ _ => lvl op
  | _ => uminusLevel

/-! ### leaves -/

/-- `.v1.v2…` after the first name of a variable sequence (any text on the dots) -/
inductive VarTail : List (List Char) → List Token → Prop where
  | nil : VarTail [] []
  | cons (s v : List Char) {ns : List (List Char)} {ts : List Token} :
      VarTail ns ts → VarTail (v :: ns) (⟨.DECIMAL, s⟩ :: ⟨.VARIABLE, v⟩ :: ts)

/-- `AtomToks e ts`: the leaf `e` is spelled by the tokens `ts`.  Punctuation tokens may carry
    any text (the parser never looks at it); a cell may be lexed as any of the three cell kinds;
    a string token carries its two quote characters. -/
inductive AtomToks : Expr → List Token → Prop where
  | int (a : List Char) : AtomToks (.num (.int a)) [⟨.NUMBER, a⟩]
  | dec (a b s : List Char) : AtomToks (.num (.dec a b)) [⟨.NUMBER, a⟩, ⟨.DECIMAL, s⟩, ⟨.NUMBER, b⟩]
  | dotDec (b s : List Char) : AtomToks (.num (.dotDec b)) [⟨.DECIMAL, s⟩, ⟨.NUMBER, b⟩]
  | pow (a b s : List Char) : AtomToks (.num (.pow a b)) [⟨.NUMBER, a⟩, ⟨.CARET, s⟩, ⟨.NUMBER, b⟩]
  | pct (a s : List Char) : AtomToks (.num (.pct a)) [⟨.NUMBER, a⟩, ⟨.PERCENT, s⟩]
  | str (q q' : Char) (s : List Char) : AtomToks (.str s) [⟨.STRING, q :: s ++ [q']⟩]
  | errLit (t : List Char) : AtomToks (.errLit t) [⟨.XLERROR, t⟩]
  | call0 (name s1 s2 : List Char) :
      AtomToks (.call name .empty [] []) [⟨.FUNCTION, name⟩, ⟨.LPAREN, s1⟩, ⟨.RPAREN, s2⟩]
  | var (n : List Char) {ns : List (List Char)} {ts : List Token} :
      VarTail ns ts → AtomToks (.var (n :: ns)) (⟨.VARIABLE, n⟩ :: ts)
  | cell (k : TK) (label : List Char) : isCellTK k = true → AtomToks (.cell label) [⟨k, label⟩]
  | range (k1 k2 : TK) (a b s : List Char) : isCellTK k1 = true → isCellTK k2 = true →
      AtomToks (.range a b) [⟨k1, a⟩, ⟨.COLON, s⟩, ⟨k2, b⟩]

/-! ### all renderings -/

/-- `RendersAt m e ts`: the tokens `ts` spell the tree `e` in a position that requires an operand
    of level at least `m`.
    * a leaf may stand anywhere;
    * any rendering (for position 0) may be wrapped in one more pair of parentheses and then
      stand anywhere — so redundant parentheses may be added at will, around every sub-expression;
    * unary minus followed by an operand spelled for the level of unary minus;
    * `l op r` where `l` is spelled for the level of `op` (equal level on the left needs no
      parentheses: operators group left to right), `r` for one level higher, and the whole may
      stand only where the required level `m` is at most the level of `op`. -/
inductive RendersAt : Nat → Expr → List Token → Prop where
  | atom {m : Nat} {e : Expr} {ts : List Token} : AtomToks e ts → RendersAt m e ts
  | paren {m : Nat} {e : Expr} {ts : List Token} (s1 s2 : List Char) :
      RendersAt 0 e ts → RendersAt m e (⟨.LPAREN, s1⟩ :: ts ++ [⟨.RPAREN, s2⟩])
  | neg {m : Nat} {e : Expr} {ts : List Token} (s : List Char) :
      RendersAt uminusLevel e ts → RendersAt m (.neg e) (⟨.MINUS, s⟩ :: ts)
  | bin {m : Nat} {op : BinOp} {l r : Expr} {tl tr : List Token} (s : List Char) :
      m ≤ lvl op → RendersAt (lvl op) l tl → RendersAt (lvl op + 1) r tr →
      RendersAt m (.bin op l r) (tl ++ ⟨op.tk, s⟩ :: tr)

/-- `ts` is a rendering of the tree `e` as a whole formula -/
def Renders (e : Expr) (ts : List Token) : Prop := RendersAt 0 e ts

/-! ### the two canonical printers -/

def lparTok : Token := ⟨.LPAREN, ['(']⟩
def rparTok : Token := ⟨.RPAREN, [')']⟩
def minusTok : Token := ⟨.MINUS, ['-']⟩
def opTok (op : BinOp) : Token := ⟨op.tk, op.text⟩

def paren (b : Bool) (ts : List Token) : List Token := if b then lparTok :: ts ++ [rparTok] else ts

def varTailToks : List (List Char) → List Token
  | [] => []
  | v :: ns => ⟨.DECIMAL, ['.']⟩ :: ⟨.VARIABLE, v⟩ :: varTailToks ns

/-- canonical spelling of a leaf (`[]` for a node that is not a leaf) -/
def atomToks : Expr → List Token
  | .num (.int a) => [⟨.NUMBER, a⟩]
  | .num (.dec a b) => [⟨.NUMBER, a⟩, ⟨.DECIMAL, ['.']⟩, ⟨.NUMBER, b⟩]
  | .num (.dotDec b) => [⟨.DECIMAL, ['.']⟩, ⟨.NUMBER, b⟩]
  | .num (.pow a b) => [⟨.NUMBER, a⟩, ⟨.CARET, ['^']⟩, ⟨.NUMBER, b⟩]
  | .num (.pct a) => [⟨.NUMBER, a⟩, ⟨.PERCENT, ['%']⟩]
  | .str s => [⟨.STRING, '"' :: s ++ ['"']⟩]
  | .errLit t => [⟨.XLERROR, t⟩]
  | .call name .empty [] [] => [⟨.FUNCTION, name⟩, lparTok, rparTok]
  | .var (n :: ns) => ⟨.VARIABLE, n⟩ :: varTailToks ns
  | .cell label => [⟨.RELATIVE_CELL, label⟩]
  | .range a b => [⟨.RELATIVE_CELL, a⟩, ⟨.COLON, [':']⟩, ⟨.RELATIVE_CELL, b⟩]
  | _ => []

/-- the leaves the printers know how to spell -/
def isAtom : Expr → Bool
  | .num _ => true
  | .str _ => true
  | .errLit _ => true
  | .call _ .empty [] [] => true
  | .var (_ :: _) => true
  | .cell _ => true
  | .range _ _ => true
  | _ => false

/-- trees built from leaves, unary minus and the eleven binary operators -/
def WellFormedTree : Expr → Bool
  | .neg e => WellFormedTree e
  | .bin _ l r => WellFormedTree l && WellFormedTree r
  | e => isAtom e

/-- minimal parentheses: a left operand is parenthesised iff its level is lower than the
    operator's, a right operand iff its level is lower or equal, the operand of unary minus iff
    it is a binary node (its level is below that of unary minus) -/
def renderMin : Expr → List Token
  | .neg e => minusTok :: paren (decide (level e < uminusLevel)) (renderMin e)
  | .bin op l r =>
      paren (decide (level l < lvl op)) (renderMin l) ++ opTok op ::
        paren (decide (level r < lvl op + 1)) (renderMin r)
  | e => atomToks e

/-- full parentheses: every operand that is not a leaf is parenthesised -/
def renderFull : Expr → List Token
  | .neg e => minusTok :: paren (!isAtom e) (renderFull e)
  | .bin op l r => paren (!isAtom l) (renderFull l) ++ opTok op :: paren (!isAtom r) (renderFull r)
  | e => atomToks e

end HotXL.Syntax
