/-
  C20 — event emitter: ordered delivery, exact unsubscription, once means once.

  All theorems are about the model `HotXL.Model.Emitter` of hotxlfp/tinyemitter.py
  (`State`, `doOn/doOnce/doOff/doOffCb`, `runOps/step/deliver/call`, `run`).
  Specification vocabulary (defined in `HotXL.Lemmas.Emitter`):
    `Listener.cb l`      the host callback finally called by listener `l`
    `Listener.wid? l`    `some wid` for a once-wrapper, `none` for a plain `on` listener
    `Listener.isPlain l` `true` for a plain `on` listener
    `entryOf n arg d l`  the log entry `{cb := l.cb, arg, ctx := l.ctx, via := l.wid?, name := n, depth := d}`
    `viaCount w log`     number of entries of `log` delivered through once-wrapper `w`
    `WF σ`               well-formed state (see `WF_iff` below)
-/
import HotXL.Model.Emitter
import HotXL.Lemmas.Emitter

namespace HotXL.Props.C20
open HotXL HotXL.Emitter

/-! ## 1. `off(name)` -/

/-- unsubscribing a name removes all its listeners -/
theorem off_name (σ : State) (n : Name) : (doOff σ n).subs n = [] := by
  simp [doOff, setSubs]

/-- unsubscribing a name leaves the listeners of every other name untouched -/
theorem off_name_others (σ : State) {m n : Name} (h : m ≠ n) : (doOff σ n).subs m = σ.subs m :=
  setSubs_subs_of_ne σ h []

/-! ## 2. `off(name, callback)` -/

/-- `l` is the plain listener for host callback `cb`, or a once-wrapper of `cb` -/
def refersTo (cb : CbId) (l : Listener) : Bool :=
  match l.fn with
  | .plain c => c == cb
  | .wrapper _ c => c == cb

/-- `refersTo` spelled out -/
theorem refersTo_iff (cb : CbId) (l : Listener) :
    refersTo cb l = true ↔ (l.fn = .plain cb ∨ ∃ wid, l.fn = .wrapper wid cb) := by
  cases l with | mk fn ctx =>
  cases fn <;> simp [refersTo]

/-- unsubscribing a (name, callback) pair keeps, in their original order, exactly the listeners of
    that name that do not refer to the callback (neither directly nor as a once-wrapper) -/
theorem off_pair (σ : State) (n : Name) (cb : CbId) :
    (doOffCb σ n cb).subs n = (σ.subs n).filter (fun l => !refersTo cb l) := by
  rw [doOffCb, setSubs_subs_self]
  apply List.filter_congr
  intro l _
  cases l with | mk fn ctx =>
  cases fn <;> simp [keepsAgainstCb, refersTo, bne]

/-- … so what remains is a sub-sequence of the old list (order preserved) -/
theorem off_pair_sublist (σ : State) (n : Name) (cb : CbId) :
    ((doOffCb σ n cb).subs n).Sublist (σ.subs n) := by
  rw [off_pair]; exact List.filter_sublist

/-- after `off(name, callback)` no listener of that name refers to the callback: plain listeners
    and once-listeners for it are all removed -/
theorem off_pair_removes_all (σ : State) (n : Name) (cb : CbId) :
    ∀ l ∈ (doOffCb σ n cb).subs n, refersTo cb l = false := by
  intro l hl
  rw [off_pair] at hl
  simpa using (List.mem_filter.mp hl).2

/-- `off(name, callback)` keeps every listener of that name that does not refer to the callback -/
theorem off_pair_keeps_others (σ : State) (n : Name) (cb : CbId) :
    ∀ l ∈ σ.subs n, refersTo cb l = false → l ∈ (doOffCb σ n cb).subs n := by
  intro l hl hr
  rw [off_pair]
  exact List.mem_filter.mpr ⟨hl, by simp [hr]⟩

/-- `off(name, callback)` leaves the listeners of every other name untouched -/
theorem off_pair_others (σ : State) {m n : Name} (cb : CbId) (h : m ≠ n) :
    (doOffCb σ n cb).subs m = σ.subs m :=
  setSubs_subs_of_ne σ h _

/-! ## 3. `on` / `once`: subscription order -/

/-- `on` appends the new plain listener (with its bound context) at the end of that name's list and
    changes nothing else -/
theorem on_appends (σ : State) (n : Name) (cb : CbId) (ctx : Ctx) :
    (doOn σ n cb ctx).subs n = σ.subs n ++ [{ fn := .plain cb, ctx := ctx }] ∧
    (∀ m, m ≠ n → (doOn σ n cb ctx).subs m = σ.subs m) ∧
    (doOn σ n cb ctx).nextWid = σ.nextWid ∧ (doOn σ n cb ctx).fired = σ.fired := by
  refine ⟨by simp [doOn_subs], ?_, rfl, rfl⟩
  intro m hm; simp [doOn_subs, hm]

/-- `once` appends a new once-wrapper (id `σ.nextWid`, bound context `ctx`) at the end of that name's
    list, bumps the allocation counter and changes nothing else -/
theorem once_appends (σ : State) (n : Name) (cb : CbId) (ctx : Ctx) :
    (doOnce σ n cb ctx).subs n = σ.subs n ++ [{ fn := .wrapper σ.nextWid cb, ctx := ctx }] ∧
    (∀ m, m ≠ n → (doOnce σ n cb ctx).subs m = σ.subs m) ∧
    (doOnce σ n cb ctx).nextWid = σ.nextWid + 1 ∧ (doOnce σ n cb ctx).fired = σ.fired := by
  refine ⟨by simp [doOnce_subs], ?_, rfl, rfl⟩
  intro m hm; simp [doOnce_subs, hm]

/-- the wrapper id allocated by `once` is fresh in a well-formed state: no subscribed listener uses
    it and its flag is not set -/
theorem once_wrapper_fresh {σ : State} (h : WF σ) :
    (∀ m, ∀ l ∈ σ.subs m, l.wid? ≠ some σ.nextWid) ∧ σ.nextWid ∉ σ.fired := by
  refine ⟨?_, fun hf => Nat.lt_irrefl _ (h.fired_lt _ hf)⟩
  intro m l hl hw
  exact Nat.lt_irrefl _ (h.subs_lt m l _ hl hw)

/-! ## 7. Well-formedness and "once means once" (all histories, all callbacks) -/

/-- what `WF σ` says, with the once-wrappers written out as `Fn.wrapper wid cb` -/
theorem WF_iff (σ : State) :
    WF σ ↔
      (∀ n l wid cb, l ∈ σ.subs n → l.fn = .wrapper wid cb → wid < σ.nextWid) ∧
      (∀ w ∈ σ.fired, w < σ.nextWid) ∧
      (∀ w ∈ σ.fired, ∀ n l cb, l ∈ σ.subs n → l.fn ≠ .wrapper w cb) ∧
      (∀ m n l l' w cb cb', l ∈ σ.subs m → l' ∈ σ.subs n →
          l.fn = .wrapper w cb → l'.fn = .wrapper w cb' → m = n) ∧
      (∀ n, ((σ.subs n).filterMap Listener.wid?).Nodup) := by
  constructor
  · intro h
    refine ⟨?_, h.fired_lt, ?_, ?_, h.nodup⟩
    · intro n l wid cb hl hfn; exact h.subs_lt n l wid hl (wid?_of_wrapper hfn)
    · intro w hw n l cb hl hfn; exact h.fired_gone w hw n l hl (wid?_of_wrapper hfn)
    · intro m n l l' w cb cb' hl hl' hfn hfn'
      exact h.home m n l l' w hl hl' (wid?_of_wrapper hfn) (wid?_of_wrapper hfn')
  · rintro ⟨h1, h2, h3, h4, h5⟩
    refine ⟨?_, h2, ?_, ?_, h5⟩
    · intro n l w hl hw
      obtain ⟨cb, hfn⟩ := (Listener.wid?_eq_some_iff l w).mp hw
      exact h1 n l w cb hl hfn
    · intro w hw n l hl hwid
      obtain ⟨cb, hfn⟩ := (Listener.wid?_eq_some_iff l w).mp hwid
      exact h3 w hw n l cb hl hfn
    · intro m n l l' w hl hl' hw hw'
      obtain ⟨cb, hfn⟩ := (Listener.wid?_eq_some_iff l w).mp hw
      obtain ⟨cb', hfn'⟩ := (Listener.wid?_eq_some_iff l' w).mp hw'
      exact h4 m n l l' w cb cb' hl hl' hfn hfn'

/-- the initial (empty) emitter is well-formed -/
theorem WF_init : WF init := WF.init

/-- one operation (including an `emit` with arbitrary re-entrant callbacks) preserves well-formedness -/
theorem WF_step (fuel : Nat) (sc : Scripts) (depth : Nat) {σ : State} (op : Op) (h : WF σ) :
    WF (step fuel sc depth σ op).1 :=
  (wf_all sc).2.1 fuel depth σ op h

/-- any sequence of operations preserves well-formedness -/
theorem WF_runOps (fuel : Nat) (sc : Scripts) (depth : Nat) {σ : State} (ops : List Op) (h : WF σ) :
    WF (runOps fuel sc depth σ ops).1 :=
  (wf_all sc).1 fuel depth σ ops h

/-- every state reachable from the empty emitter is well-formed -/
theorem WF_run (fuel : Nat) (sc : Scripts) (ops : List Op) : WF (run fuel sc ops).1 :=
  WF_runOps fuel sc 0 ops WF.init

/-- ONCE MEANS ONCE, from any start state: in the log of any sequence of operations, with arbitrary
    callbacks (subscribing, unsubscribing, re-emitting the same event during delivery, …) and any
    nesting bound, no once-wrapper is called more than once -/
theorem once_at_most_once_from (fuel : Nat) (sc : Scripts) (depth : Nat) (σ : State) (ops : List Op)
    (w : Nat) :
    ((runOps fuel sc depth σ ops).2.filter (fun c => c.via = some w)).length ≤ 1 :=
  ((firedInv_all sc).1 fuel depth σ ops).le_one w

/-- ONCE MEANS ONCE: for every history run from the empty emitter, with arbitrary callbacks and any
    nesting bound, no once-listener is ever called twice -/
theorem once_at_most_once (fuel : Nat) (sc : Scripts) (ops : List Op) (w : Nat) :
    ((run fuel sc ops).2.filter (fun c => c.via = some w)).length ≤ 1 :=
  once_at_most_once_from fuel sc 0 init ops w

/-- the `fired` flags are never reset -/
theorem fired_mono (fuel : Nat) (sc : Scripts) (depth : Nat) (σ : State) (ops : List Op) :
    ∀ w ∈ σ.fired, w ∈ (runOps fuel sc depth σ ops).1.fired :=
  ((firedInv_all sc).1 fuel depth σ ops).mono

/-- a once-wrapper whose flag is already set is never called again -/
theorem fired_not_called (fuel : Nat) (sc : Scripts) (depth : Nat) (σ : State) (ops : List Op) :
    ∀ w ∈ σ.fired, ∀ c ∈ (runOps fuel sc depth σ ops).2, c.via ≠ some w := by
  intro w hw
  exact (viaCount_eq_zero_iff w _).mp (((firedInv_all sc).1 fuel depth σ ops).old w hw)

/-- a once-wrapper that was called has its flag set afterwards and (in a well-formed start state) is no
    longer subscribed under any name -/
theorem once_delivered_gone (fuel : Nat) (sc : Scripts) (depth : Nat) {σ : State} (hwf : WF σ)
    (ops : List Op) (w : Nat) (c : Call) (hc : c ∈ (runOps fuel sc depth σ ops).2)
    (hvia : c.via = some w) :
    w ∈ (runOps fuel sc depth σ ops).1.fired ∧
    ∀ m, ∀ l ∈ (runOps fuel sc depth σ ops).1.subs m, l.wid? ≠ some w := by
  have hf : w ∈ (runOps fuel sc depth σ ops).1.fired :=
    ((firedInv_all sc).1 fuel depth σ ops).marks w ((viaCount_pos_iff w _).mpr ⟨c, hc, hvia⟩)
  exact ⟨hf, fun m l hl => (WF_runOps fuel sc depth ops hwf).fired_gone w hf m l hl⟩

/-- a flag gets set only by calling that wrapper -/
theorem fired_only_by_call (fuel : Nat) (sc : Scripts) (depth : Nat) (σ : State) (ops : List Op) :
    ∀ w ∈ (runOps fuel sc depth σ ops).1.fired,
      w ∈ σ.fired ∨ ∃ c ∈ (runOps fuel sc depth σ ops).2, c.via = some w := by
  intro w hw
  rcases ((firedInv_all sc).1 fuel depth σ ops).new w hw with h | h
  · exact Or.inl h
  · exact Or.inr ((viaCount_pos_iff w _).mp h)

/-- a once-listener IS called by the first emit of its name: in a well-formed state, an emit of `n`
    (with arbitrary callbacks) calls every once-wrapper subscribed to `n` exactly once — at top
    level or inside a nested emit — even if a callback unsubscribes it meanwhile -/
theorem emit_calls_every_once (fuel : Nat) (sc : Scripts) (depth : Nat) {σ : State} (hwf : WF σ)
    (n : Name) (arg : Nat) (l : Listener) (hl : l ∈ σ.subs n) (w : Nat) (hw : l.wid? = some w) :
    ((step fuel sc depth σ (.emit n arg)).2.filter (fun c => c.via = some w)).length = 1 := by
  have hinv := (firedInv_all sc).2.1 fuel depth σ (.emit n arg)
  have hnf : w ∉ σ.fired := fun hf => hwf.fired_gone w hf n l hl hw
  have hfired : w ∈ (step fuel sc depth σ (.emit n arg)).1.fired := by
    rw [step_emit]; exact deliver_fires fuel sc depth n arg (σ.subs n) σ l hl w hw
  have h1 := hinv.le_one w
  have h2 : 0 < viaCount w (step fuel sc depth σ (.emit n arg)).2 := by
    rcases hinv.new w hfired with h | h
    · exact absurd h hnf
    · exact h
  show viaCount w _ = 1
  omega

/-! ## 4. Delivery to pure listeners -/

/-- fields of `entryOf`: the call of listener `l` for event `n` carries the emitted argument, the
    listener's bound context, the event name and the nesting depth of the emit -/
theorem entryOf_fields (n : Name) (arg d : Nat) (l : Listener) :
    (entryOf n arg d l).cb = l.cb ∧ (entryOf n arg d l).arg = arg ∧ (entryOf n arg d l).ctx = l.ctx ∧
    (entryOf n arg d l).via = l.wid? ∧ (entryOf n arg d l).name = n ∧ (entryOf n arg d l).depth = d :=
  ⟨rfl, rfl, rfl, rfl, rfl, rfl⟩

/-- with pure listeners (empty scripts) and a well-formed state, `emit n arg` logs exactly one call per
    listener subscribed to `n`, in subscription order, each with the emitted argument, its bound
    context, name `n` and the emit's depth; afterwards the once-wrappers of `n` are unsubscribed and
    flagged, and nothing else has changed -/
theorem emit_plain_delivery {sc : Scripts} (hsc : ∀ cb, sc cb = []) (fuel depth : Nat) {σ : State}
    (hwf : WF σ) (n : Name) (arg : Nat) :
    (step fuel sc depth σ (.emit n arg)).2 = (σ.subs n).map (entryOf n arg depth) ∧
    (step fuel sc depth σ (.emit n arg)).1.subs n = (σ.subs n).filter Listener.isPlain ∧
    (∀ m, m ≠ n → (step fuel sc depth σ (.emit n arg)).1.subs m = σ.subs m) ∧
    (step fuel sc depth σ (.emit n arg)).1.nextWid = σ.nextWid ∧
    (step fuel sc depth σ (.emit n arg)).1.fired
      = ((σ.subs n).filterMap Listener.wid?).reverse ++ σ.fired := by
  have hnf : ∀ w ∈ (σ.subs n).filterMap Listener.wid?, w ∉ σ.fired := by
    intro w hw hf
    obtain ⟨l, hl, hwid⟩ := List.mem_filterMap.mp hw
    exact hwf.fired_gone w hf n l hl hwid
  rw [step_emit, deliver_pure hsc fuel depth n arg (σ.subs n) σ hnf (hwf.nodup n)]
  refine ⟨rfl, ?_, ?_, rfl, rfl⟩
  · simp only [if_true]; exact filter_notWrapperIn_self _
  · intro m hm; simp [hm]

/-- once-listeners fire on the first emit only: with pure listeners, the second of two consecutive
    emits of `n` calls exactly the plain (`on`) listeners of `n` again, in order, and no once-listener -/
theorem emit_twice_once_only {sc : Scripts} (hsc : ∀ cb, sc cb = []) (fuel depth : Nat) {σ : State}
    (hwf : WF σ) (n : Name) (arg1 arg2 : Nat) :
    (step fuel sc depth (step fuel sc depth σ (.emit n arg1)).1 (.emit n arg2)).2
      = ((σ.subs n).filter Listener.isPlain).map (entryOf n arg2 depth) ∧
    (∀ c ∈ (step fuel sc depth (step fuel sc depth σ (.emit n arg1)).1 (.emit n arg2)).2,
      c.via = none) := by
  have hwf1 : WF (step fuel sc depth σ (.emit n arg1)).1 := WF_step fuel sc depth _ hwf
  have h1 := (emit_plain_delivery hsc fuel depth hwf n arg1).2.1
  have h2 := (emit_plain_delivery hsc fuel depth hwf1 n arg2).1
  rw [h1] at h2
  refine ⟨h2, ?_⟩
  intro c hc
  rw [h2] at hc
  obtain ⟨l, hl, rfl⟩ := List.mem_map.mp hc
  have hp := (List.mem_filter.mp hl).2
  exact (Listener.wid?_eq_none_iff l).mpr hp

/-! ## 5. Snapshot semantics of `emit` (arbitrary callbacks) -/

/-- entries logged by an emit at nesting `depth` have depth `≥ depth`; those with depth exactly `depth`
    are the calls made by this emit itself, deeper ones come from callbacks' own operations -/
theorem nested_depth (fuel : Nat) (sc : Scripts) (depth : Nat) (σ : State) (op : Op) :
    ∀ c ∈ (step fuel sc depth σ op).2, depth ≤ c.depth :=
  (depth_all sc).2.1 fuel depth σ op

/-- SNAPSHOT: whatever the callbacks do (subscribe, unsubscribe, emit), the calls made by
    `emit n arg` itself (the depth-`depth` entries of its log) are, in order, the entries
    `entryOf n arg depth l` for a sub-sequence `called` of the list `σ.subs n` as it was when the emit
    started; `called` contains every plain listener of that snapshot, and its once-wrappers were
    unflagged at the start.  Hence listeners subscribed during the delivery are not called by this
    emit, and listeners unsubscribed during it still are. -/
theorem emit_snapshot (fuel : Nat) (sc : Scripts) (depth : Nat) (σ : State) (n : Name) (arg : Nat) :
    ∃ called : List Listener,
      called.Sublist (σ.subs n) ∧
      called.filter Listener.isPlain = (σ.subs n).filter Listener.isPlain ∧
      (∀ l ∈ called, ∀ w, l.wid? = some w → w ∉ σ.fired) ∧
      (step fuel sc depth σ (.emit n arg)).2.filter (fun c => c.depth = depth)
        = called.map (entryOf n arg depth) := by
  rw [step_emit]; exact deliver_top fuel sc depth n arg (σ.subs n) σ

/-- the emit itself makes at most one call per snapshot listener -/
theorem emit_top_length_le (fuel : Nat) (sc : Scripts) (depth : Nat) (σ : State) (n : Name) (arg : Nat) :
    ((step fuel sc depth σ (.emit n arg)).2.filter (fun c => c.depth = depth)).length
      ≤ (σ.subs n).length := by
  obtain ⟨called, hsub, _, _, hlog⟩ := emit_snapshot fuel sc depth σ n arg
  rw [hlog, List.length_map]; exact hsub.length_le

/-- every plain listener subscribed to `n` when the emit starts is called by it (with the emitted
    argument and its context), even if a callback unsubscribes it during the delivery -/
theorem emit_calls_every_plain (fuel : Nat) (sc : Scripts) (depth : Nat) (σ : State) (n : Name)
    (arg : Nat) (l : Listener) (hl : l ∈ σ.subs n) (hp : l.isPlain = true) :
    entryOf n arg depth l ∈ (step fuel sc depth σ (.emit n arg)).2 := by
  obtain ⟨called, _, hplain, _, hlog⟩ := emit_snapshot fuel sc depth σ n arg
  have h1 : l ∈ called.filter Listener.isPlain := by
    rw [hplain]; exact List.mem_filter.mpr ⟨hl, hp⟩
  have h2 : entryOf n arg depth l ∈ called.map (entryOf n arg depth) :=
    List.mem_map.mpr ⟨l, (List.mem_filter.mp h1).1, rfl⟩
  rw [← hlog] at h2
  exact (List.mem_filter.mp h2).1

/-! ## 6. Names are independent -/

/-- events of one name never reach listeners of another: every call made by `emit n arg` itself
    carries name `n` and the emitted argument, and its callback, context and wrapper id are those of a
    listener that was subscribed to `n` when the emit started -/
theorem names_independent (fuel : Nat) (sc : Scripts) (depth : Nat) (σ : State) (n : Name) (arg : Nat) :
    ∀ c ∈ (step fuel sc depth σ (.emit n arg)).2, c.depth = depth →
      c.name = n ∧ c.arg = arg ∧ ∃ l ∈ σ.subs n, c.cb = l.cb ∧ c.ctx = l.ctx ∧ c.via = l.wid? := by
  intro c hc hd
  obtain ⟨called, hsub, _, _, hlog⟩ := emit_snapshot fuel sc depth σ n arg
  have hmem : c ∈ (step fuel sc depth σ (.emit n arg)).2.filter (fun c => c.depth = depth) :=
    List.mem_filter.mpr ⟨hc, by simp [hd]⟩
  rw [hlog] at hmem
  obtain ⟨l, hl, rfl⟩ := List.mem_map.mp hmem
  exact ⟨rfl, rfl, l, hsub.subset hl, rfl, rfl, rfl⟩

/-- … and for whole histories, at every nesting depth: each call in the log of `run fuel sc ops`
    is a call of a callback `cb` with context `ctx` under a name `n` such that some operation of the
    history or of a callback script subscribed exactly (`n`, `cb`, `ctx`) with `on` or `once` -/
theorem names_independent_global (fuel : Nat) (sc : Scripts) (ops : List Op) :
    ∀ c ∈ (run fuel sc ops).2,
      ∃ op, (op ∈ ops ∨ ∃ cb', op ∈ sc cb') ∧
        (op = .on c.name c.cb c.ctx ∨ op = .once c.name c.cb c.ctx) := by
  let S : Name → CbId → Ctx → Prop := fun n cb ctx =>
    ∃ op, (op ∈ ops ∨ ∃ cb', op ∈ sc cb') ∧ (op = .on n cb ctx ∨ op = .once n cb ctx)
  have hsc : ∀ cb, OpsOK S (sc cb) := fun cb op hop n c ctx h => ⟨op, Or.inr ⟨cb, hop⟩, h⟩
  have hops : OpsOK S ops := fun op hop n c ctx h => ⟨op, Or.inl hop, h⟩
  have hinit : SubsOK S init := fun m l hl => by simp [init] at hl
  exact ((provenance_all sc S hsc).1 fuel 0 init ops hops hinit).2

/-! ## 8. Non-vacuity: concrete histories -/

/-- scripts of the re-entrant example: callback 0 re-emits event 0 during delivery, callback 1 is pure -/
def scReentrant : Scripts := fun cb => if cb = 0 then [.emit 0 7] else []

/-- the re-entrant history (the repaired defect): `on 0 cb0; once 0 cb1; emit 0 1` with `cb0`
    re-emitting event 0 — the once-listener `cb1` is called exactly once (by the innermost emit) -/
example : (run 2 scReentrant [.on 0 0 0, .once 0 1 1, .emit 0 1]).2 =
    [⟨0, 1, 0, none, 0, 0⟩, ⟨0, 7, 0, none, 0, 1⟩, ⟨0, 7, 0, none, 0, 2⟩, ⟨1, 7, 1, some 0, 0, 2⟩] := by
  simp [run, runOps, step, deliver, call, doOn, doOnce, doOffWrapper, setSubs, init, scReentrant]

example : ((run 2 scReentrant [.on 0 0 0, .once 0 1 1, .emit 0 1]).2.filter (fun c => c.cb = 1)).length
    = 1 := by
  simp [run, runOps, step, deliver, call, doOn, doOnce, doOffWrapper, setSubs, init, scReentrant]

/-- pure listeners, two names, duplicates, once fires on the first emit only, `off(name, cb)` removes
    plain and once listeners of `cb` -/
example : (run 1 (fun _ => [])
    [.on 0 5 10, .once 0 6 11, .on 0 5 12, .on 1 7 13, .emit 0 1, .emit 0 2, .emit 1 3,
     .once 0 5 14, .offCb 0 5, .emit 0 4]).2 =
    [⟨5, 1, 10, none, 0, 0⟩, ⟨6, 1, 11, some 0, 0, 0⟩, ⟨5, 1, 12, none, 0, 0⟩,
     ⟨5, 2, 10, none, 0, 0⟩, ⟨5, 2, 12, none, 0, 0⟩,
     ⟨7, 3, 13, none, 1, 0⟩] := by
  simp [run, runOps, step, deliver, call, doOn, doOnce, doOffCb, doOffWrapper, setSubs, init,
    keepsAgainstCb, keepsAgainstWrapper, List.filter_cons]

/-- a callback that subscribes (cb 0 subscribes cb 2) and one that unsubscribes a later listener
    (cb 1 removes cb 3) during delivery: the first emit still calls cb 3 and not cb 2 (snapshot),
    the second emit calls cb 2 and not cb 3 -/
example : (run 1 (fun cb => if cb = 0 then [.on 0 2 0] else if cb = 1 then [.offCb 0 3] else [])
    [.on 0 1 0, .on 0 3 0, .emit 0 1, .off 0, .on 0 0 0, .emit 0 2, .emit 0 3]).2 =
    [⟨1, 1, 0, none, 0, 0⟩, ⟨3, 1, 0, none, 0, 0⟩,
     ⟨0, 2, 0, none, 0, 0⟩,
     ⟨0, 3, 0, none, 0, 0⟩, ⟨2, 3, 0, none, 0, 0⟩] := by
  simp [run, runOps, step, deliver, call, doOn, doOff, doOffCb, setSubs, init, keepsAgainstCb,
    List.filter_cons]

/-- the hypotheses of `emit_plain_delivery` / `emit_twice_once_only` are satisfiable on a non-trivial
    state: a reachable state with plain and once listeners under two names -/
example : ∃ σ : State, WF σ ∧ (σ.subs 0).length = 3 ∧ (σ.subs 0).filterMap Listener.wid? = [0] ∧
    (∀ cb, (fun _ => [] : Scripts) cb = []) :=
  ⟨(run 1 (fun _ => []) [.on 0 5 10, .once 0 6 11, .on 0 5 12, .on 1 7 13]).1,
   WF_run 1 _ _,
   by simp [run, runOps, step, doOn, doOnce, setSubs, init],
   by simp [run, runOps, step, doOn, doOnce, setSubs, init, Listener.wid?, List.filterMap_cons],
   fun _ => rfl⟩

/-- the hypotheses of `once_delivered_gone` are met in the re-entrant history: wrapper 0 is called -/
example : ∃ c ∈ (run 2 scReentrant [.on 0 0 0, .once 0 1 1, .emit 0 1]).2, c.via = some 0 :=
  ⟨⟨1, 7, 1, some 0, 0, 2⟩,
   by simp [run, runOps, step, deliver, call, doOn, doOnce, doOffWrapper, setSubs, init, scReentrant],
   rfl⟩

/-- `emit_calls_every_once` / `emit_calls_every_plain` / `names_independent` instantiated on the
    re-entrant history's state before the emit: the state is well-formed, has a once-wrapper (id 0) and
    a plain listener under name 0 -/
example : ∃ σ : State, WF σ ∧
    (∃ l ∈ σ.subs 0, l.wid? = some 0) ∧ (∃ l ∈ σ.subs 0, l.isPlain = true) ∧
    ((step 1 scReentrant 0 σ (.emit 0 1)).2.filter (fun c => c.via = some 0)).length = 1 := by
  refine ⟨(run 2 scReentrant [.on 0 0 0, .once 0 1 1]).1, WF_run 2 _ _, ?_, ?_, ?_⟩
  · exact ⟨⟨.wrapper 0 1, 1⟩, by simp [run, runOps, step, doOn, doOnce, setSubs, init], rfl⟩
  · exact ⟨⟨.plain 0, 0⟩, by simp [run, runOps, step, doOn, doOnce, setSubs, init], rfl⟩
  · exact emit_calls_every_once 1 scReentrant 0 (WF_run 2 _ _) 0 1 ⟨.wrapper 0 1, 1⟩
      (by simp [run, runOps, step, doOn, doOnce, setSubs, init]) 0 rfl

end HotXL.Props.C20
