/-
  C20 — event emitter: ordered delivery, exact unsubscription, once means once.
-/
import HotXL.Model.Emitter

namespace HotXL.Props.C20
open HotXL HotXL.Emitter

/-- unsubscribing a name removes all its listeners -/
theorem off_name (σ : State) (n : Name) : (doOff σ n).subs n = [] := by
  simp [doOff, setSubs]

end HotXL.Props.C20
