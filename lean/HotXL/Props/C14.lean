/-
  HotXL.Props.C14 — date and time functions agree with the proleptic Gregorian calendar.

  Part 1: the calendar itself.  `HotXL.Model.Calendar` transcribes CPython's `_ymd2ord`, `_ord2ymd`,
  `_is_leap`, `_days_in_month`, `weekday`; it is proved to be a lawful calendar for ALL years.
  Part 2: the builtins of hotxlfp/formulas/dateandtime.py (model: `HotXL.Fn.DateTime`) against it.

  Reading of "calendar difference in days" (DAYS, DATEDIF unit d): on dates from 1 March 1900 on;
  before that Excel's 1900 date system (phantom 29 Feb 1900, 1900-01-01 ↦ 0) governs, which is
  property C13's subject — the exact offsets are recorded here as `days_*_offset`.
-/
import HotXL.Lemmas.DateTime

namespace HotXL.Props.C14
open HotXL HotXL.Ops HotXL.Fn HotXL.Calendar HotXL.Fn.DateTime

/-! ## Part 1 — the calendar laws (all years, no bound) -/

/-- `_ord2ymd` then `_ymd2ord`: every integer ordinal decodes to a valid calendar date (month 1..12,
    day within the month) whose ordinal it is. -/
theorem calendar_ordinal_of_ymd_of_ordinal (n : Int) :
    ValidMD (ymdOfOrdinal n).1 (ymdOfOrdinal n).2.1 (ymdOfOrdinal n).2.2 ∧
    ordinalOfYMD (ymdOfOrdinal n).1 (ymdOfOrdinal n).2.1 (ymdOfOrdinal n).2.2 = n :=
  Calendar.ordinal_of_ymd_of_ordinal n

/-- On `date.min … date.max` (ordinals 1 … 3652059) the decoded date is one the model's
    `validYMD` accepts (year 1..9999). -/
theorem calendar_ordinal_of_ymd_of_ordinal_bounded (n : Int) (h1 : 1 ≤ n) (h2 : n ≤ 3652059) :
    validYMD (ymdOfOrdinal n).1 (ymdOfOrdinal n).2.1 (ymdOfOrdinal n).2.2 = true ∧
    ordinalOfYMD (ymdOfOrdinal n).1 (ymdOfOrdinal n).2.1 (ymdOfOrdinal n).2.2 = n :=
  ⟨Calendar.validYMD_ymdOfOrdinal n h1 h2, (Calendar.ordinal_of_ymd_of_ordinal n).2⟩

example : ymdOfOrdinal 693596 = (1900, 1, 1) ∧ ymdOfOrdinal 3652059 = (9999, 12, 31) := by decide

/-- `_ymd2ord` then `_ord2ymd`: a valid date (any year) is recovered from its ordinal. -/
theorem calendar_ymd_of_ordinal_of_ymd (y : Int) (m : Nat) (d : Int) (hv : ValidMD y m d) :
    ymdOfOrdinal (ordinalOfYMD y m d) = (y, m, d) :=
  Calendar.ymd_of_ordinal_of_ymd hv

example : ValidMD 2000 2 29 ∧ ValidMD (-400) 2 29 ∧ ¬ ValidMD 1900 2 29 := by decide

/-- On valid dates the lexicographic order of (year, month, day) is the order of the ordinals:
    later dates have larger ordinals and vice versa. -/
theorem calendar_ordinal_strict_mono (y : Int) (m : Nat) (d : Int) (y' : Int) (m' : Nat) (d' : Int)
    (hv : ValidMD y m d) (hv' : ValidMD y' m' d') :
    LexLt y m d y' m' d' ↔ ordinalOfYMD y m d < ordinalOfYMD y' m' d' :=
  Calendar.ordinal_strict_mono hv hv'

/-- A year has 366 days if it is a leap year (divisible by 4, not by 100 unless by 400), else 365. -/
theorem calendar_year_length (y : Int) :
    ordinalOfYMD (y + 1) 1 1 - ordinalOfYMD y 1 1 = if isLeap y then 366 else 365 :=
  Calendar.year_length y

/-- Consecutive calendar days have consecutive ordinals: inside a month, from the last day of a
    month to the first of the next, and from 31 December to 1 January. -/
theorem calendar_consecutive_days (y : Int) (m : Nat) (d : Int) :
    ordinalOfYMD y m (d + 1) = ordinalOfYMD y m d + 1 ∧
    (1 ≤ m → m < 12 → ordinalOfYMD y (m + 1) 1 = ordinalOfYMD y m (daysInMonth y m) + 1) ∧
    ordinalOfYMD (y + 1) 1 1 = ordinalOfYMD y 12 31 + 1 :=
  ⟨Calendar.ordinal_succ_day y m d, Calendar.ordinal_succ_month y m, Calendar.ordinal_succ_year y⟩

/-- The day after has the next weekday (mod 7), and the anchor: 1 January 1900 was a Monday
    (`date.weekday()` = 0).  Together with `calendar_consecutive_days` this fixes `weekday` as the
    true day of the week of every date. -/
theorem calendar_weekday_steps (n : Int) :
    weekday (n + 1) = (weekday n + 1) % 7 ∧ 0 ≤ weekday n ∧ weekday n < 7 ∧
    weekday (ordinalOfYMD 1900 1 1) = 0 :=
  ⟨Calendar.weekday_succ n, (Calendar.weekday_range n).1, (Calendar.weekday_range n).2, Calendar.weekday_anchor⟩

/-- The calendar repeats after 400 years = 146097 days = 20871 weeks. -/
theorem calendar_400_year_cycle (y : Int) (m : Nat) (d : Int) :
    ordinalOfYMD (y + 400) m d = ordinalOfYMD y m d + 146097 ∧ isLeap (y + 400) = isLeap y ∧
    weekday (ordinalOfYMD (y + 400) m d) = weekday (ordinalOfYMD y m d) := by
  refine ⟨Calendar.ordinal_add_400 y m d, Calendar.isLeap_add_400 y, ?_⟩
  rw [Calendar.ordinal_add_400]; unfold weekday; omega

/-! ## Part 2 — the source constants the model reads -/

/-- The integer literals, comparison operators, operator skeleton and unit names of DATE, TIME,
    EDATE, WEEKDAY, DATEDIF, DAYS, TIMEVALUE in /repo are the ones the theorems below are about. -/
theorem source_constants_pinned :
    Generated.dateInts = [1900, 1900] ∧ Generated.dateCompares = ["Lt"] ∧ Generated.dateOps = ["AugAdd"] ∧
    Generated.timeInts = [1900, 1, 1] ∧
    Generated.edateInts = [1900, 1, 1, 12, 12, 12, 12, 1, 1, 12, 1, 1, 2, 29, 4, 0, 100, 0, 400, 0, 28, 4, 6, 9, 11, 30, 31,
      31, 29, 4, 0, 100, 0, 400, 0, 28, 31, 30, 31, 30, 31, 31, 30, 31, 30, 31, 1, 9999, 1900] ∧
    Generated.edateCompares = ["Eq", "Eq", "Gt", "Lt", "Eq", "Eq", "NotEq", "Eq", "In", "Eq", "NotEq", "Eq", "Gt", "Lt"] ∧
    Generated.edateOps = ["Add", "FloorDiv", "Add", "Mod", "AugSub", "AugAdd", "AugAdd", "AugSub", "AugSub", "Or", "And",
      "Mod", "Mod", "Mod", "Or", "And", "Mod", "Mod", "Mod", "Sub", "Or"] ∧
    Generated.weekdayInts = [1, 3, 2, 1, 1, 6, 1, 2] ∧ Generated.weekdayCompares = ["Eq", "Eq", "Eq", "Eq"] ∧
    Generated.weekdayOps = ["Add", "Add"] ∧
    Generated.datedifInts = [0, 1, 0, 12, 1, 0, 1, 30, 4, 6, 9, 11, 31, 2, 29, 28, 12, 1, 12, 1] ∧
    Generated.datedifStrs = ["y", "m", "d", "md", "ym", "yd"] ∧
    Generated.datedifCompares = ["NotEq", "Eq", "Lt", "Eq", "Lt", "Eq", "Lt", "Eq", "Lt", "Eq", "Eq", "GtE", "In", "NotEq",
      "Eq", "Lt", "Eq", "Gt"] ∧
    Generated.datedifOps = ["Sub", "Sub", "Or", "And", "Add", "Mult", "Sub", "Sub", "Sub", "Sub", "Sub", "Sub", "Add", "Sub",
      "Sub", "Add", "Mult", "Sub", "AugSub", "Mod", "Sub", "Sub"] ∧
    Generated.daysOps = ["Sub"] ∧ Generated.timevalueInts = [1] ∧ Generated.timevalueOps = ["Sub"] := by
  decide

/-! ## Part 3 — components -/

/-- A datetime `us` = midnight of the valid date (y, m, d) plus `tod` µs (less than a day) has year,
    month, day (y, m, d), that ordinal, and time of day `tod`. -/
theorem components_of_datetime (y : Int) (m : Nat) (d tod : Int) (hv : ValidMD y m d)
    (h0 : 0 ≤ tod) (h1 : tod < usPerDay) :
    yearOf (dateUs y m d + tod) = y ∧ monthOf (dateUs y m d + tod) = (m : Int) ∧ dayOf (dateUs y m d + tod) = d ∧
    ordinalOf (dateUs y m d + tod) = ordinalOfYMD y m d ∧ timeOfDay (dateUs y m d + tod) = tod := by
  have ho := ordinalOf_dateUs y m d tod h0 h1
  have hr := Calendar.ymd_of_ordinal_of_ymd hv
  refine ⟨?_, ?_, ?_, ho, timeOfDay_dateUs y m d tod h0 h1⟩
  · simp only [yearOf, ho, hr]
  · simp only [monthOf, ho, hr]
  · simp only [dayOf, ho, hr]

/-- For every valid calendar date from 1900 to 9999: DATE(y,m,d) is the midnight of that date, and
    YEAR, MONTH, DAY of it return y, m, d. -/
theorem date_components (y : Int) (m : Nat) (d : Int) (hv : validYMD y m d = true) (hy : 1900 ≤ y) :
    DATE [vInt y, vInt m, vInt d] = .ok (.date (dateUs y m d)) ∧
    YEAR [.date (dateUs y m d)] = .ok (vInt y) ∧
    MONTH [.date (dateUs y m d)] = .ok (vInt m) ∧
    DAY [.date (dateUs y m d)] = .ok (vInt d) := by
  obtain ⟨_, _, hmd⟩ := (validYMD_iff y m d).mp hv
  obtain ⟨c1, c2, c3, _, _⟩ := components_of_datetime y m d 0 hmd (by omega) usPerDay_pos
  rw [Int.add_zero] at c1 c2 c3
  have hlt : ¬ y < 1900 := by omega
  refine ⟨?_, ?_, ?_, ?_⟩
  · rw [DATE_int, if_neg hlt, mkDateTime?_valid y m d 0 0 0 hv (by omega) (by omega) (by omega)]
    simp [todUs]
  · show Except.ok (vInt (yearOf (dateUs y m d))) = _; rw [c1]
  · show Except.ok (vInt (monthOf (dateUs y m d))) = _; rw [c2]
  · show Except.ok (vInt (dayOf (dateUs y m d))) = _; rw [c3]

example : validYMD 2000 2 29 = true ∧ validYMD 9999 12 31 = true ∧ validYMD 1900 2 29 = false := by decide

/-- An invalid day (e.g. 29 February 1900, 31 April) makes `datetime.datetime(...)` raise: `#ERROR!`. -/
theorem date_invalid (y : Int) (m : Nat) (d : Int) (hv : validYMD y m d = false) (hy : 1900 ≤ y) :
    DATE [vInt y, vInt m, vInt d] = .error .error := by
  have hlt : ¬ y < 1900 := by omega
  rw [DATE_int, if_neg hlt]
  simp [mkDateTime?, hv]

example : validYMD 1900 2 29 = false := by decide

/-- Years 0 … 1899 given to DATE mean 1900 + year (whatever the month and day arguments are).
    (A negative year is shifted once too: DATE(-5, …) is the year 1895, not DATE(1895, …) = 3795.) -/
theorem short_year (y : Int) (h0 : 0 ≤ y) (hy : y < 1900) (m d : Value) :
    DATE [vInt y, m, d] = DATE [vInt (1900 + y), m, d] := by
  have e1 : (if y < 1900 then y + 1900 else y) = 1900 + y := by rw [if_pos hy]; omega
  have e2 : (if 1900 + y < 1900 then 1900 + y + 1900 else 1900 + y) = 1900 + y := by
    by_cases h : 1900 + y < 1900
    · omega
    · rw [if_neg h]
  unfold DATE
  simp only [parseNumber_int]
  rcases parseNumber m with e | mn <;> rcases parseNumber d with e' | dn <;> try rfl
  cases mn <;> cases dn <;>
    simp only [numIndex?, dC, dateInts_pinned, dateCompares_pinned, List.getD_cons_zero, List.getD_cons_succ, cmpI_Lt,
      decide_eq_true_eq, e1, e2]

example : DATE [vInt 119, vInt 5, vInt 6] = .ok (.date (dateUs 2019 5 6)) := by
  rw [short_year 119 (by decide) (by decide)]; exact (date_components 2019 5 6 (by decide) (by decide)).1

/-- HOUR, MINUTE and SECOND of TIME(h,m,s) return h, m and s (TIME is that time on 1900-01-01). -/
theorem time_components (h mi s : Int) (h1 : 0 ≤ h ∧ h < 24) (h2 : 0 ≤ mi ∧ mi < 60) (h3 : 0 ≤ s ∧ s < 60) :
    TIME [vInt h, vInt mi, vInt s] = .ok (.date (todUs h mi s)) ∧
    HOUR [.date (todUs h mi s)] = .ok (vInt h) ∧
    MINUTE [.date (todUs h mi s)] = .ok (vInt mi) ∧
    SECOND [.date (todUs h mi s)] = .ok (vInt s) := by
  have hr := todUs_range h mi s h1 h2 h3
  have ht : timeOfDay (todUs h mi s) = todUs h mi s := by
    unfold timeOfDay; exact Int.emod_eq_of_lt hr.1 hr.2
  refine ⟨?_, ?_, ?_, ?_⟩
  · rw [TIME_int]
    have := mkDateTime?_valid 1900 1 1 h mi s (by decide) h1 h2 h3
    have z : dateUs 1900 1 1 = 0 := by decide
    rw [z, Int.zero_add] at this
    simp only [Nat.cast_one] at this
    rw [this]
  · show Except.ok (vInt (hourOf (todUs h mi s))) = _
    congr 2; unfold hourOf; rw [ht]; unfold todUs; omega
  · show Except.ok (vInt (minuteOf (todUs h mi s))) = _
    congr 2; unfold minuteOf; rw [ht]; unfold todUs; omega
  · show Except.ok (vInt (secondOf (todUs h mi s))) = _
    congr 2; unfold secondOf; rw [ht]; unfold todUs; omega

example : TIME [vInt 23, vInt 59, vInt 58] = .ok (.date (todUs 23 59 58)) :=
  (time_components 23 59 58 (by decide) (by decide) (by decide)).1

/-- The six components of any datetime value with a valid date part and an in-range time part —
    this is what YEAR … SECOND read from a datetime (ISO text is turned into such a value by
    `isoDate?`, see `iso_components`). -/
theorem datetime_components (y : Int) (m : Nat) (d h mi s : Int) (hv : validYMD y m d = true)
    (h1 : 0 ≤ h ∧ h < 24) (h2 : 0 ≤ mi ∧ mi < 60) (h3 : 0 ≤ s ∧ s < 60) :
    YEAR [.date (dateUs y m d + todUs h mi s)] = .ok (vInt y) ∧
    MONTH [.date (dateUs y m d + todUs h mi s)] = .ok (vInt m) ∧
    DAY [.date (dateUs y m d + todUs h mi s)] = .ok (vInt d) ∧
    HOUR [.date (dateUs y m d + todUs h mi s)] = .ok (vInt h) ∧
    MINUTE [.date (dateUs y m d + todUs h mi s)] = .ok (vInt mi) ∧
    SECOND [.date (dateUs y m d + todUs h mi s)] = .ok (vInt s) := by
  obtain ⟨_, _, hmd⟩ := (validYMD_iff y m d).mp hv
  have hr := todUs_range h mi s h1 h2 h3
  obtain ⟨c1, c2, c3, _, c5⟩ := components_of_datetime y m d (todUs h mi s) hmd hr.1 hr.2
  refine ⟨?_, ?_, ?_, ?_, ?_, ?_⟩
  · show Except.ok (vInt (yearOf _)) = _; rw [c1]
  · show Except.ok (vInt (monthOf _)) = _; rw [c2]
  · show Except.ok (vInt (dayOf _)) = _; rw [c3]
  · show Except.ok (vInt (hourOf _)) = _
    congr 2; unfold hourOf; rw [c5]; unfold todUs; omega
  · show Except.ok (vInt (minuteOf _)) = _
    congr 2; unfold minuteOf; rw [c5]; unfold todUs; omega
  · show Except.ok (vInt (secondOf _)) = _
    congr 2; unfold secondOf; rw [c5]; unfold todUs; omega

/-- The same components are read from ISO date-time text: for any text that is not a number and
    that the ISO reader (`isoDate?`: `YYYY-MM-DD[(T| )HH:MM[:SS]]`, the model's stand-in for
    dateutil) reads as the valid date (y, m, d) at h:mi:sec, YEAR … SECOND return y, m, d, h, mi, sec. -/
theorem iso_components (s : List Char) (y : Int) (m : Nat) (d h mi sec : Int)
    (hnum : toNumberText s = .text) (hiso : isoDate? s = some (dateUs y m d + todUs h mi sec))
    (hv : validYMD y m d = true) (h1 : 0 ≤ h ∧ h < 24) (h2 : 0 ≤ mi ∧ mi < 60) (h3 : 0 ≤ sec ∧ sec < 60) :
    YEAR [.str s] = .ok (vInt y) ∧ MONTH [.str s] = .ok (vInt m) ∧ DAY [.str s] = .ok (vInt d) ∧
    HOUR [.str s] = .ok (vInt h) ∧ MINUTE [.str s] = .ok (vInt mi) ∧ SECOND [.str s] = .ok (vInt sec) := by
  have hp := pdOf_text s _ hnum hiso
  obtain ⟨c1, c2, c3, c4, c5, c6⟩ := datetime_components y m d h mi sec hv h1 h2 h3
  refine ⟨?_, ?_, ?_, ?_, ?_, ?_⟩
  · rw [← c1]; simp only [YEAR, component, hp]; rfl
  · rw [← c2]; simp only [MONTH, component, hp]; rfl
  · rw [← c3]; simp only [DAY, component, hp]; rfl
  · rw [← c4]; simp only [HOUR, component, hp]; rfl
  · rw [← c5]; simp only [MINUTE, component, hp]; rfl
  · rw [← c6]; simp only [SECOND, component, hp]; rfl

example : toNumberText "2020-02-29T13:14:15".toList = .text := by rfl
example : isoDate? "2020-02-29T13:14:15".toList = some (dateUs 2020 2 29 + todUs 13 14 15) := by decide +kernel
example : isoDate? "9999-12-31 23:59".toList = some (dateUs 9999 12 31 + todUs 23 59 0) := by decide +kernel
example : isoDate? "1900-03-01".toList = some (dateUs 1900 3 1 + todUs 0 0 0) := by decide +kernel
example : YEAR [.str "2020-02-29T13:14:15".toList] = .ok (vInt 2020) ∧ SECOND [.str "2020-02-29T13:14:15".toList] = .ok (vInt 15) :=
  have h := iso_components "2020-02-29T13:14:15".toList 2020 2 29 13 14 15 (by rfl) (by decide +kernel) (by decide)
    (by decide) (by decide) (by decide)
  ⟨h.1, h.2.2.2.2.2⟩

/-- the number spelled by four / two decimal digit characters -/
def num4 (a b c d : Char) : Nat := ((dval a * 10 + dval b) * 10 + dval c) * 10 + dval d
def num2 (a b : Char) : Nat := dval a * 10 + dval b

/-- ISO text `YYYY-MM-DD(T| )HH:MM:SS` spelled with ANY decimal digit characters: if the digits
    spell a valid date and time, YEAR … SECOND of the text return exactly the numbers spelled. -/
theorem iso_datetime_text_components (sep y1 y2 y3 y4 m1 m2 d1 d2 h1 h2 i1 i2 s1 s2 : Char)
    (hsep : sep = 'T' ∨ sep = ' ')
    (hdig : PyNum.isDigit y1 = true ∧ PyNum.isDigit y2 = true ∧ PyNum.isDigit y3 = true ∧ PyNum.isDigit y4 = true ∧
      PyNum.isDigit m1 = true ∧ PyNum.isDigit m2 = true ∧ PyNum.isDigit d1 = true ∧ PyNum.isDigit d2 = true ∧
      PyNum.isDigit h1 = true ∧ PyNum.isDigit h2 = true ∧ PyNum.isDigit i1 = true ∧ PyNum.isDigit i2 = true ∧
      PyNum.isDigit s1 = true ∧ PyNum.isDigit s2 = true)
    (hv : validYMD (num4 y1 y2 y3 y4) (num2 m1 m2) (num2 d1 d2) = true)
    (ht : num2 h1 h2 < 24 ∧ num2 i1 i2 < 60 ∧ num2 s1 s2 < 60) :
    let s := [y1, y2, y3, y4, '-', m1, m2, '-', d1, d2, sep, h1, h2, ':', i1, i2, ':', s1, s2]
    YEAR [.str s] = .ok (vInt (num4 y1 y2 y3 y4)) ∧ MONTH [.str s] = .ok (vInt (num2 m1 m2)) ∧
    DAY [.str s] = .ok (vInt (num2 d1 d2)) ∧ HOUR [.str s] = .ok (vInt (num2 h1 h2)) ∧
    MINUTE [.str s] = .ok (vInt (num2 i1 i2)) ∧ SECOND [.str s] = .ok (vInt (num2 s1 s2)) := by
  intro s
  have hnum := toNumberText_isoDateTime sep y1 y2 y3 y4 m1 m2 d1 d2 h1 h2 i1 i2 s1 s2
    ⟨hdig.1, hdig.2.1, hdig.2.2.1, hdig.2.2.2.1, hdig.2.2.2.2.2.2.2.2.2.2.2.2.2⟩
  have hiso := isoDate?_datetime sep y1 y2 y3 y4 m1 m2 d1 d2 h1 h2 i1 i2 s1 s2 hsep hdig
  rw [if_pos ⟨hv, ht⟩] at hiso
  exact iso_components s _ _ _ _ _ _ hnum hiso hv (by omega) (by omega)
    (by omega)

/-- … likewise `YYYY-MM-DD(T| )HH:MM` (seconds 0) … -/
theorem iso_datetime_hm_text_components (sep y1 y2 y3 y4 m1 m2 d1 d2 h1 h2 i1 i2 : Char)
    (hsep : sep = 'T' ∨ sep = ' ')
    (hdig : PyNum.isDigit y1 = true ∧ PyNum.isDigit y2 = true ∧ PyNum.isDigit y3 = true ∧ PyNum.isDigit y4 = true ∧
      PyNum.isDigit m1 = true ∧ PyNum.isDigit m2 = true ∧ PyNum.isDigit d1 = true ∧ PyNum.isDigit d2 = true ∧
      PyNum.isDigit h1 = true ∧ PyNum.isDigit h2 = true ∧ PyNum.isDigit i1 = true ∧ PyNum.isDigit i2 = true)
    (hv : validYMD (num4 y1 y2 y3 y4) (num2 m1 m2) (num2 d1 d2) = true)
    (ht : num2 h1 h2 < 24 ∧ num2 i1 i2 < 60) :
    let s := [y1, y2, y3, y4, '-', m1, m2, '-', d1, d2, sep, h1, h2, ':', i1, i2]
    YEAR [.str s] = .ok (vInt (num4 y1 y2 y3 y4)) ∧ MONTH [.str s] = .ok (vInt (num2 m1 m2)) ∧
    DAY [.str s] = .ok (vInt (num2 d1 d2)) ∧ HOUR [.str s] = .ok (vInt (num2 h1 h2)) ∧
    MINUTE [.str s] = .ok (vInt (num2 i1 i2)) ∧ SECOND [.str s] = .ok (vInt 0) := by
  intro s
  have hnum := toNumberText_isoDateTime_hm sep y1 y2 y3 y4 m1 m2 d1 d2 h1 h2 i1 i2
    ⟨hdig.1, hdig.2.1, hdig.2.2.1, hdig.2.2.2.1, hdig.2.2.2.2.2.2.2.2.2.2.2⟩
  have hiso := isoDate?_datetime_hm sep y1 y2 y3 y4 m1 m2 d1 d2 h1 h2 i1 i2 hsep hdig
  rw [if_pos ⟨hv, ht⟩] at hiso
  exact iso_components s _ _ _ _ _ _ hnum hiso hv (by omega) (by omega)
    (by omega)

/-- … and the date alone, `YYYY-MM-DD` (midnight). -/
theorem iso_date_text_components (y1 y2 y3 y4 m1 m2 d1 d2 : Char)
    (hdig : PyNum.isDigit y1 = true ∧ PyNum.isDigit y2 = true ∧ PyNum.isDigit y3 = true ∧ PyNum.isDigit y4 = true ∧
      PyNum.isDigit m1 = true ∧ PyNum.isDigit m2 = true ∧ PyNum.isDigit d1 = true ∧ PyNum.isDigit d2 = true)
    (hv : validYMD (num4 y1 y2 y3 y4) (num2 m1 m2) (num2 d1 d2) = true) :
    let s := [y1, y2, y3, y4, '-', m1, m2, '-', d1, d2]
    YEAR [.str s] = .ok (vInt (num4 y1 y2 y3 y4)) ∧ MONTH [.str s] = .ok (vInt (num2 m1 m2)) ∧
    DAY [.str s] = .ok (vInt (num2 d1 d2)) ∧ HOUR [.str s] = .ok (vInt 0) ∧
    MINUTE [.str s] = .ok (vInt 0) ∧ SECOND [.str s] = .ok (vInt 0) := by
  intro s
  have hnum := toNumberText_isoDate y1 y2 y3 y4 m1 m2 d1 d2
    ⟨hdig.1, hdig.2.1, hdig.2.2.1, hdig.2.2.2.1, hdig.2.2.2.2.2.2.2⟩
  have hiso := isoDate?_date y1 y2 y3 y4 m1 m2 d1 d2 hdig
  rw [if_pos (by exact hv)] at hiso
  have z : todUs 0 0 0 = 0 := by decide
  have hiso' : isoDate? s = some (dateUs (num4 y1 y2 y3 y4) (num2 m1 m2) (num2 d1 d2) + todUs 0 0 0) := by
    rw [z, Int.add_zero]; exact hiso
  exact iso_components s _ _ _ 0 0 0 hnum hiso' hv (by omega) (by omega) (by omega)

example : PyNum.isDigit '0' = true ∧ PyNum.isDigit '9' = true ∧ num4 '2' '0' '2' '0' = 2020 ∧ num2 '2' '9' = 29 ∧
    validYMD (num4 '2' '0' '2' '0') (num2 '0' '2') (num2 '2' '9') = true := by decide

/-- YEAR, MONTH and DAY of a whole-day serial number 61 … 2958465 are the year, month and day of
    the date `s` days after 30 December 1899, which is a valid date of the years 1900 … 9999. -/
theorem serial_components (s : Int) (h1 : 61 ≤ s) (h2 : s ≤ 2958465) :
    YEAR [vInt s] = .ok (vInt (ymdOfOrdinal (ordinalOfYMD 1899 12 30 + s)).1) ∧
    MONTH [vInt s] = .ok (vInt ((ymdOfOrdinal (ordinalOfYMD 1899 12 30 + s)).2.1 : Nat)) ∧
    DAY [vInt s] = .ok (vInt (ymdOfOrdinal (ordinalOfYMD 1899 12 30 + s)).2.2) ∧
    validYMD (ymdOfOrdinal (ordinalOfYMD 1899 12 30 + s)).1 (ymdOfOrdinal (ordinalOfYMD 1899 12 30 + s)).2.1
      (ymdOfOrdinal (ordinalOfYMD 1899 12 30 + s)).2.2 = true ∧
    1900 ≤ (ymdOfOrdinal (ordinalOfYMD 1899 12 30 + s)).1 := by
  have hp := pdOf_serial s h1 h2
  have hb : ordinalOfYMD 1899 12 30 = 693594 := by decide
  have ho : ordinalOf ((s - 2) * 86400000000) = ordinalOfYMD 1899 12 30 + s := by
    unfold ordinalOf dayIndex; rw [usPerDay_eq, epochOrd_eq, hb]; omega
  refine ⟨?_, ?_, ?_, ?_, ?_⟩
  · simp only [YEAR, component, hp, yearOf, ho]
  · simp only [MONTH, component, hp, monthOf, ho]
  · simp only [DAY, component, hp, dayOf, ho]
  · exact Calendar.validYMD_ymdOfOrdinal _ (by rw [hb]; omega) (by rw [hb]; omega)
  · exact year_ge_1900 _ (by rw [hb]; omega)

example : ymdOfOrdinal (ordinalOfYMD 1899 12 30 + 61) = (1900, 3, 1) ∧
    ymdOfOrdinal (ordinalOfYMD 1899 12 30 + 2958465) = (9999, 12, 31) ∧
    ymdOfOrdinal (ordinalOfYMD 1899 12 30 + 43890) = (2020, 2, 29) := by decide

/-! ## Part 4 — EDATE -/

/-- EDATE's own 12-entry month-length list, with its own leap rule
    `(year % 4 == 0 and year % 100 != 0) or (year % 400 == 0)`, is the calendar's month length
    (both leap rules of EDATE are the calendar's leap rule). -/
theorem edate_month_table (y : Int) (m : Nat) (h1 : 1 ≤ m) (h2 : m ≤ 12) :
    pyListGet? (edateMonthList y) ((m : Int) - 1) = some (daysInMonth y m) ∧
    edateLeapA y = isLeap y ∧ edateLeapB y = isLeap y :=
  ⟨Fn.DateTime.edate_month_table y m h1 h2, edateLeapA_eq y, edateLeapB_eq y⟩

/-- EDATE moves by whole months: from a datetime on the valid date (y, m, d) (any time of day) and
    an integer offset `n` (ANY integer), the target (year', month') is `divMod (12·y + (m−1) + n) 12`;
    the result is midnight of (year', month', min d (length of that month)) when
    1900 ≤ year' ≤ 9999 and `#NUM!` otherwise. -/
theorem edate_spec (y : Int) (m : Nat) (d tod n : Int) (hv : validYMD y m d = true)
    (h0 : 0 ≤ tod) (h1 : tod < usPerDay) :
    EDATE [.date (dateUs y m d + tod), vInt n] =
      (if 1900 ≤ (12 * y + ((m : Int) - 1) + n) / 12 ∧ (12 * y + ((m : Int) - 1) + n) / 12 ≤ 9999 then
        .ok (.date (dateUs ((12 * y + ((m : Int) - 1) + n) / 12) (((12 * y + ((m : Int) - 1) + n) % 12 + 1).toNat)
          (min d (daysInMonth ((12 * y + ((m : Int) - 1) + n) / 12) (((12 * y + ((m : Int) - 1) + n) % 12 + 1).toNat)))))
      else .ok (.err .num)) := by
  obtain ⟨_, _, hmd⟩ := (validYMD_iff y m d).mp hv
  obtain ⟨c1, c2, c3, _, _⟩ := components_of_datetime y m d tod hmd h0 h1
  rw [← edateCore_spec (dateUs y m d + tod) n y m d c1 c2 c3 hv]
  rfl

example : EDATE [.date (dateUs 2020 1 31), vInt 1] = .ok (.date (dateUs 2020 2 29)) := by
  have := edate_spec 2020 1 31 0 1 (by decide) (by decide) (by decide)
  rw [Int.add_zero] at this
  rw [this, if_pos (by decide)]; rfl

example : EDATE [.date (dateUs 2020 1 15), vInt (-13)] = .ok (.date (dateUs 2018 12 15)) := by
  have := edate_spec 2020 1 15 0 (-13) (by decide) (by decide) (by decide)
  rw [Int.add_zero] at this
  rw [this, if_pos (by decide)]; rfl

example : EDATE [.date (dateUs 2020 1 31), vInt (-120000)] = .ok (.err .num) := by
  have := edate_spec 2020 1 31 0 (-120000) (by decide) (by decide) (by decide)
  rw [Int.add_zero] at this
  rw [this, if_neg (by decide)]

/-- The day of month is kept whenever the target month is long enough, and is otherwise the last
    day of the target month; the result is always a valid calendar date. -/
theorem edate_day_clamped (y' : Int) (m' : Nat) (d : Int) (hm : 1 ≤ m' ∧ m' ≤ 12) (hd : 1 ≤ d)
    (hy : 1900 ≤ y' ∧ y' ≤ 9999) :
    validYMD y' m' (min d (daysInMonth y' m')) = true ∧
    (d ≤ daysInMonth y' m' → min d (daysInMonth y' m') = d) ∧
    (daysInMonth y' m' < d → min d (daysInMonth y' m') = daysInMonth y' m') := by
  have hr := daysInMonth_range y' m' hm.1 hm.2
  refine ⟨?_, fun h => by omega, fun h => by omega⟩
  rw [validYMD_iff]
  exact ⟨by omega, by omega, hm.1, hm.2, by omega, by omega⟩

/-! ## Part 5 — DATEDIF, DAYS -/

/-- whole months: `12(Y₂−Y₁) + (M₂−M₁) − [D₂ < D₁]` -/
def refMonths (y1 : Int) (m1 : Nat) (d1 : Int) (y2 : Int) (m2 : Nat) (d2 : Int) : Int :=
  12 * (y2 - y1) + ((m2 : Int) - (m1 : Int)) - (if d2 < d1 then 1 else 0)

/-- whole years: `Y₂−Y₁ − [(M₂,D₂) < (M₁,D₁)]` -/
def refYears (y1 : Int) (m1 : Nat) (d1 : Int) (y2 : Int) (m2 : Nat) (d2 : Int) : Int :=
  y2 - y1 - (if m2 < m1 ∨ (m2 = m1 ∧ d2 < d1) then 1 else 0)

/-- DATEDIF(start, end, "m") for start ≤ end (date-times on valid dates) is the number of whole
    months `12(Y₂−Y₁) + (M₂−M₁) − [D₂ < D₁]`. -/
theorem datedif_m (y1 : Int) (m1 : Nat) (d1 t1 y2 : Int) (m2 : Nat) (d2 t2 : Int)
    (hv1 : ValidMD y1 m1 d1) (hv2 : ValidMD y2 m2 d2) (ht1 : 0 ≤ t1 ∧ t1 < usPerDay) (ht2 : 0 ≤ t2 ∧ t2 < usPerDay)
    (hab : dateUs y1 m1 d1 + t1 ≤ dateUs y2 m2 d2 + t2) :
    DATEDIF [.date (dateUs y1 m1 d1 + t1), .date (dateUs y2 m2 d2 + t2), .str ['m']] =
      .ok (vInt (refMonths y1 m1 d1 y2 m2 d2)) := by
  obtain ⟨a1, a2, a3, _, _⟩ := components_of_datetime y1 m1 d1 t1 hv1 ht1.1 ht1.2
  obtain ⟨b1, b2, b3, _, _⟩ := components_of_datetime y2 m2 d2 t2 hv2 ht2.1 ht2.2
  rw [DATEDIF_dates]
  show datedifCore _ _ ['m'] = _
  rcases Int.lt_or_eq_of_le hab with h | h
  · rw [datedifCore_m _ _ h, a1, a2, a3, b1, b2, b3]
    unfold refMonths; congr 2; omega
  · rw [h] at a1 a2 a3
    rw [h, datedifCore_eq]
    unfold refMonths
    have e1 : y1 = y2 := by omega
    have e2 : (m1 : Int) = m2 := by omega
    have e3 : d1 = d2 := by omega
    subst e1 e3
    rw [e2]; simp

/-- DATEDIF(start, end, "y") for start ≤ end is the number of whole years
    `Y₂−Y₁ − [(M₂,D₂) < (M₁,D₁)]`. -/
theorem datedif_y (y1 : Int) (m1 : Nat) (d1 t1 y2 : Int) (m2 : Nat) (d2 t2 : Int)
    (hv1 : ValidMD y1 m1 d1) (hv2 : ValidMD y2 m2 d2) (ht1 : 0 ≤ t1 ∧ t1 < usPerDay) (ht2 : 0 ≤ t2 ∧ t2 < usPerDay)
    (hab : dateUs y1 m1 d1 + t1 ≤ dateUs y2 m2 d2 + t2) :
    DATEDIF [.date (dateUs y1 m1 d1 + t1), .date (dateUs y2 m2 d2 + t2), .str ['y']] =
      .ok (vInt (refYears y1 m1 d1 y2 m2 d2)) := by
  obtain ⟨a1, a2, a3, _, _⟩ := components_of_datetime y1 m1 d1 t1 hv1 ht1.1 ht1.2
  obtain ⟨b1, b2, b3, _, _⟩ := components_of_datetime y2 m2 d2 t2 hv2 ht2.1 ht2.2
  rw [DATEDIF_dates]
  show datedifCore _ _ ['y'] = _
  rcases Int.lt_or_eq_of_le hab with h | h
  · rw [datedifCore_y _ _ h, a1, a2, a3, b1, b2, b3]
    unfold refYears
    congr 3
    by_cases c : m2 < m1 ∨ (m2 = m1 ∧ d2 < d1)
    · have c' : (m2 : Int) < m1 ∨ ((m2 : Int) = m1 ∧ d2 < d1) := by omega
      rw [if_pos c, if_pos c']
    · have c' : ¬ ((m2 : Int) < m1 ∨ ((m2 : Int) = m1 ∧ d2 < d1)) := by omega
      rw [if_neg c, if_neg c']
  · rw [h] at a1 a2 a3
    rw [h, datedifCore_eq]
    unfold refYears
    have e1 : y1 = y2 := by omega
    have e2 : m1 = m2 := by omega
    have e3 : d1 = d2 := by omega
    subst e1 e2 e3
    simp

/-- DATEDIF(start, end, "ym") for start ≤ end is the number of whole months modulo 12. -/
theorem datedif_ym (y1 : Int) (m1 : Nat) (d1 t1 y2 : Int) (m2 : Nat) (d2 t2 : Int)
    (hv1 : ValidMD y1 m1 d1) (hv2 : ValidMD y2 m2 d2) (ht1 : 0 ≤ t1 ∧ t1 < usPerDay) (ht2 : 0 ≤ t2 ∧ t2 < usPerDay)
    (hab : dateUs y1 m1 d1 + t1 ≤ dateUs y2 m2 d2 + t2) :
    DATEDIF [.date (dateUs y1 m1 d1 + t1), .date (dateUs y2 m2 d2 + t2), .str ['y', 'm']] =
      .ok (vInt (refMonths y1 m1 d1 y2 m2 d2 % 12)) := by
  obtain ⟨a1, a2, a3, _, _⟩ := components_of_datetime y1 m1 d1 t1 hv1 ht1.1 ht1.2
  obtain ⟨b1, b2, b3, _, _⟩ := components_of_datetime y2 m2 d2 t2 hv2 ht2.1 ht2.2
  rw [DATEDIF_dates]
  show datedifCore _ _ ['y', 'm'] = _
  rcases Int.lt_or_eq_of_le hab with h | h
  · rw [datedifCore_ym _ _ h, a1, a2, a3, b1, b2, b3]
    unfold refMonths; congr 3; omega
  · rw [h] at a1 a2 a3
    rw [h, datedifCore_eq]
    unfold refMonths
    have e1 : y1 = y2 := by omega
    have e2 : (m1 : Int) = m2 := by omega
    have e3 : d1 = d2 := by omega
    subst e1 e3
    rw [e2]; simp

example : DATEDIF [.date (dateUs 2020 1 31 + 0), .date (dateUs 2020 3 1 + 0), .str ['m']] = .ok (vInt 1) := by
  rw [datedif_m 2020 1 31 0 2020 3 1 0 (by decide) (by decide) (by decide) (by decide) (by decide)]; rfl

/-- When the start is later than the end, DATEDIF is `#NUM!` for every unit text. -/
theorem datedif_order (a b : Int) (u : List Char) (h : b < a) :
    DATEDIF [.date a, .date b, .str u] = .ok (.err .num) := by
  rw [DATEDIF_dates]; exact datedifCore_gt a b _ h

example : dateUs 2020 3 1 < dateUs 2021 1 1 := by decide

/-- The unit is matched case-insensitively: only its ASCII-lower-cased text matters. -/
theorem datedif_unit_case (a b : Int) (u u' : List Char) (h : asciiLower u = asciiLower u') :
    DATEDIF [.date a, .date b, .str u] = DATEDIF [.date a, .date b, .str u'] := by
  rw [DATEDIF_dates, DATEDIF_dates, h]

example : asciiLower ['Y', 'M'] = asciiLower ['y', 'm'] := by decide

/-- DAYS(end, start) on whole dates from 1 March 1900 on is the calendar difference in days
    (signed; the result is a float, as serial numbers are). -/
theorem days_spec (y1 : Int) (m1 : Nat) (d1 y2 : Int) (m2 : Nat) (d2 : Int)
    (h1 : ordinalOfYMD 1900 3 1 ≤ ordinalOfYMD y1 m1 d1) (h2 : ordinalOfYMD 1900 3 1 ≤ ordinalOfYMD y2 m2 d2) :
    DAYS [.date (dateUs y2 m2 d2), .date (dateUs y1 m1 d1)] =
      .ok (.num (.flt ((ordinalOfYMD y2 m2 d2 - ordinalOfYMD y1 m1 d1 : Int) : Rat))) := by
  have hm : ordinalOfYMD 1900 3 1 - ordinalOfYMD 1900 1 1 = 59 := by decide
  rw [dateUs_days, dateUs_days]
  show Except.ok (Value.num (numSub (Dates.serialize _) (Dates.serialize _))) = _
  rw [serialize_late_day _ (by omega), serialize_late_day _ (by omega), numSub_flt, serial_diff]
  congr 4; omega

/-- DATEDIF(start, end, "d") on whole dates from 1 March 1900 on with start ≤ end is the calendar
    difference in days. -/
theorem datedif_d (y1 : Int) (m1 : Nat) (d1 y2 : Int) (m2 : Nat) (d2 : Int)
    (h1 : ordinalOfYMD 1900 3 1 ≤ ordinalOfYMD y1 m1 d1)
    (hab : ordinalOfYMD y1 m1 d1 ≤ ordinalOfYMD y2 m2 d2) :
    DATEDIF [.date (dateUs y1 m1 d1), .date (dateUs y2 m2 d2), .str ['d']] =
      .ok (vInt (ordinalOfYMD y2 m2 d2 - ordinalOfYMD y1 m1 d1)) := by
  have hm : ordinalOfYMD 1900 3 1 - ordinalOfYMD 1900 1 1 = 59 := by decide
  rw [DATEDIF_dates]
  show datedifCore _ _ ['d'] = _
  rcases Int.lt_or_eq_of_le hab with h | h
  · have hlt : dateUs y1 m1 d1 < dateUs y2 m2 d2 := by rw [dateUs_days, dateUs_days]; omega
    rw [datedifCore_d _ _ hlt, dateUs_days, dateUs_days, serialize_late_day _ (by omega), serialize_late_day _ (by omega),
      numSub_flt, serial_diff, numTrunc_flt_int]
    congr 2; omega
  · have : dateUs y1 m1 d1 = dateUs y2 m2 d2 := by rw [dateUs_days, dateUs_days, h]
    rw [this, datedifCore_eq, h]; simp

example : ordinalOfYMD 1900 3 1 ≤ ordinalOfYMD 2020 2 29 ∧ ordinalOfYMD 2020 2 29 ≤ ordinalOfYMD 2021 3 1 ∧
    ordinalOfYMD 2021 3 1 - ordinalOfYMD 2020 2 29 = 366 := by decide

/-- Documentation of the region C14 does not judge (it is C13's Excel-1900 system): a start day
    `ka` days after 1900-01-01 with 1 ≤ ka < 59 (i.e. 2 Jan … 28 Feb 1900) and an end day `kb ≥ 59`
    (from 1 March 1900): DAYS counts the phantom 29 February 1900, one day more than the calendar. -/
theorem days_phantom_offset (ka kb : Int) (ha : 1 ≤ ka ∧ ka < 59) (hb : 59 ≤ kb) :
    DAYS [.date (kb * 86400000000), .date (ka * 86400000000)] = .ok (.num (.flt (((kb - ka + 1 : Int)) : Rat))) := by
  show Except.ok (Value.num (numSub (Dates.serialize _) (Dates.serialize _))) = _
  rw [serialize_late_day _ hb, serialize_early_day _ ha.1 ha.2, numSub_flt]
  congr 3; push_cast; ring

/-- … and from 1900-01-01 itself (serial 0, an `int`) two days more for an end from 1 March 1900,
    one more for an end before. -/
theorem days_from_1900_01_01_offset (kb : Int) :
    (59 ≤ kb → DAYS [.date (kb * 86400000000), .date 0] = .ok (.num (.flt (((kb + 2 : Int)) : Rat)))) ∧
    (1 ≤ kb → kb < 59 → DAYS [.date (kb * 86400000000), .date 0] = .ok (.num (.flt (((kb + 1 : Int)) : Rat)))) := by
  constructor
  · intro hb
    show Except.ok (Value.num (numSub (Dates.serialize _) (Dates.serialize _))) = _
    rw [serialize_late_day _ hb, serialize_zero]
    simp [numSub, Num.toRat]
  · intro h1 h2
    show Except.ok (Value.num (numSub (Dates.serialize _) (Dates.serialize _))) = _
    rw [serialize_early_day _ h1 h2, serialize_zero]
    simp [numSub, Num.toRat]

/-! ## Part 6 — WEEKDAY -/

/-- the three numberings of a weekday `wd` (Monday = 0 … Sunday = 6):
    type 1: Sunday = 1 … Saturday = 7; type 2: Monday = 1 … Sunday = 7; type 3: Monday = 0 … Sunday = 6 -/
def numbering (t wd : Int) : Int :=
  if t = 1 then (wd + 1) % 7 + 1 else if t = 2 then wd + 1 else wd

/-- WEEKDAY(date, t) for t ∈ {1, 2, 3} is the numbering `t` of the true weekday of the date
    (any time of day), and a missing type means type 1. -/
theorem weekday_spec (y : Int) (m : Nat) (d tod t : Int) (hv : ValidMD y m d) (h0 : 0 ≤ tod) (h1 : tod < usPerDay)
    (ht : t = 1 ∨ t = 2 ∨ t = 3) :
    WEEKDAY [.date (dateUs y m d + tod), vInt t] = .ok (vInt (numbering t (weekday (ordinalOfYMD y m d)))) ∧
    WEEKDAY [.date (dateUs y m d + tod)] = .ok (vInt (numbering 1 (weekday (ordinalOfYMD y m d)))) := by
  obtain ⟨_, _, _, ho, _⟩ := components_of_datetime y m d tod hv h0 h1
  have hr := Calendar.weekday_range (ordinalOfYMD y m d)
  have type1 : WEEKDAY [.date (dateUs y m d + tod), vInt 1] = .ok (vInt (numbering 1 (weekday (ordinalOfYMD y m d)))) := by
    rw [WEEKDAY_date, ho]
    have n1 : numbering 1 (weekday (ordinalOfYMD y m d)) = (weekday (ordinalOfYMD y m d) + 1) % 7 + 1 := by
      simp [numbering]
    rw [n1]
    have e3 : eqInt (vInt 1) 3 = false := by rw [eqInt_int]; decide
    have e2 : eqInt (vInt 1) 2 = false := by rw [eqInt_int]; decide
    have e1 : eqInt (vInt 1) 1 = true := by rw [eqInt_int]; decide
    simp only [e3, e2, e1, Bool.false_eq_true, if_false, if_true]
    by_cases h6 : weekday (ordinalOfYMD y m d) = 6
    · rw [if_pos h6, h6]; rfl
    · rw [if_neg h6]; congr 2; omega
  refine ⟨?_, ?_⟩
  · rcases ht with rfl | rfl | rfl
    · exact type1
    · rw [WEEKDAY_date, ho]; simp [eqInt_int, numbering]
    · rw [WEEKDAY_date, ho]; simp [eqInt_int, numbering]
  · rw [WEEKDAY_default]; exact type1

example : numbering 1 (weekday (ordinalOfYMD 1900 1 1)) = 2 ∧ numbering 2 (weekday (ordinalOfYMD 1900 1 1)) = 1 ∧
    numbering 3 (weekday (ordinalOfYMD 1900 1 1)) = 0 ∧ numbering 1 (weekday (ordinalOfYMD 2020 3 1)) = 1 := by decide

/-- WEEKDAY is `#NUM!` for every other numbering type: any value that is not equal (as a Python
    number) to 1, 2 or 3 — other integers, fractions, text, blank. -/
theorem weekday_other_types (us : Int) (t : Value) (h1 : eqInt t 1 = false) (h2 : eqInt t 2 = false)
    (h3 : eqInt t 3 = false) : WEEKDAY [.date us, t] = .ok (.err .num) := by
  rw [WEEKDAY_date]; simp [h1, h2, h3]

/-- in particular for integer types other than 1, 2, 3 -/
theorem weekday_other_int_types (us t : Int) (h : t ≠ 1 ∧ t ≠ 2 ∧ t ≠ 3) :
    WEEKDAY [.date us, vInt t] = .ok (.err .num) := by
  apply weekday_other_types <;> simp [eqInt_int, h.1, h.2.1, h.2.2]

example : eqInt (.num (.flt (5 / 2))) 1 = false ∧ eqInt (.str ['1']) 1 = false ∧ eqInt .blank 1 = false ∧
    eqInt (vInt 0) 1 = false ∧ eqInt (vInt 4) 3 = false ∧ eqInt (.num (.flt 2)) 2 = true := by decide +kernel

end HotXL.Props.C14
