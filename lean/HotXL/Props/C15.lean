/-
  HotXL.Props.C15 — text functions satisfy the string algebra they document.

  All theorems are about the model `HotXL.Fn.Text` of hotxlfp/formulas/text.py (text = `List Char`,
  any alphabet; counts = arbitrary integers).  `.ok v` = the Python function returns `v`,
  `.ok (.err .value)` = it returns `#VALUE!`.
-/
import HotXL.Lemmas.Text
import HotXL.Model.Eval

namespace HotXL.Props.C15
open HotXL HotXL.Ops HotXL.Fn HotXL.Fn.Text HotXL.Lemmas.Text

/-- an integer argument -/
abbrev iv (n : Int) : Value := .num (.int n)

/-! ## LEFT, RIGHT, MID, LEN -/

/-- LEFT(s,n) with n ≥ 0 is exactly the n leading characters of s (all of s if it has fewer). -/
theorem left_spec (s : List Char) (n : Int) (h : 0 ≤ n) :
    LEFT [.str s, iv n] = .ok (.str (s.take n.toNat)) := by
  simp [LEFT, leftCore, countOf, sliceTo, h, Int.not_lt.mpr h]

example : LEFT [.str "héllo".toList, iv 2] = .ok (.str "hé".toList) := left_spec _ 2 (by decide)

/-- RIGHT(s,n) with n ≥ 0 is exactly the n trailing characters of s (all of s if it has fewer):
    what remains after dropping the first `len s - n` characters (truncated subtraction). -/
theorem right_spec (s : List Char) (n : Int) (h : 0 ≤ n) :
    RIGHT [.str s, iv n] = .ok (.str (s.drop (s.length - n.toNat))) := by
  have e : (max ((s.length : Int) - n) 0).toNat = s.length - n.toNat := by omega
  have h0 : (0 : Int) ≤ max ((s.length : Int) - n) 0 := by omega
  simp [RIGHT, rightCore, countOf, sliceFrom, Int.not_lt.mpr h, h0, e]

example : RIGHT [.str "héllo".toList, iv 2] = .ok (.str "lo".toList) := right_spec _ 2 (by decide)

/-- MID(s,st,n) with st ≥ 1, n ≥ 0 is exactly the n characters of s from position st (1-based) on
    (fewer if s ends before). -/
theorem mid_spec (s : List Char) (st n : Int) (hs : 1 ≤ st) (h : 0 ≤ n) :
    MID [.str s, iv st, iv n] = .ok (.str ((s.drop (st.toNat - 1)).take n.toNat)) := by
  have e : (st - 1).toNat = st.toNat - 1 := by omega
  simp [MID, midCore, countOf, Count.lt, sliceFrom, sliceTo, Int.not_lt.mpr h, Int.not_lt.mpr hs, h, hs, e]

example : MID [.str "héllo".toList, iv 2, iv 3] = .ok (.str "éll".toList) := mid_spec _ 2 3 (by decide) (by decide)

/-- Asking for at least as many characters as there are gives the whole text (LEFT, RIGHT), or the
    whole rest of the text from the start position on (MID). -/
theorem take_all (s : List Char) (n : Int) (h : (s.length : Int) ≤ n) :
    LEFT [.str s, iv n] = .ok (.str s) ∧ RIGHT [.str s, iv n] = .ok (.str s) ∧
    ∀ st : Int, 1 ≤ st → (s.length : Int) ≤ n + (st - 1) →
      MID [.str s, iv st, iv n] = .ok (.str (s.drop (st.toNat - 1))) := by
  have h0 : 0 ≤ n := by omega
  refine ⟨?_, ?_, ?_⟩
  · rw [left_spec s n h0, List.take_of_length_le (by omega)]
  · rw [right_spec s n h0, show s.length - n.toNat = 0 by omega, List.drop_zero]
  · intro st hs hl
    rw [mid_spec s st n hs h0, List.take_of_length_le]
    simp only [List.length_drop]; omega

example : LEFT [.str "abc".toList, iv 5] = .ok (.str "abc".toList) := (take_all _ 5 (by decide)).1

/-- A count of zero gives the empty text (RIGHT(s,0) is the repaired defect). -/
theorem zero_count (s : List Char) :
    LEFT [.str s, iv 0] = .ok (.str []) ∧ RIGHT [.str s, iv 0] = .ok (.str []) ∧
    ∀ st : Int, 1 ≤ st → MID [.str s, iv st, iv 0] = .ok (.str []) := by
  refine ⟨?_, ?_, ?_⟩
  · rw [left_spec s 0 (by decide)]; simp
  · rw [right_spec s 0 (by decide)]; simp
  · intro st hs
    rw [mid_spec s st 0 hs (by decide)]; simp

/-- A negative count gives #VALUE! (whatever the start position of MID is). -/
theorem negative_count (s : List Char) (n : Int) (h : n < 0) :
    LEFT [.str s, iv n] = .ok (.err .value) ∧ RIGHT [.str s, iv n] = .ok (.err .value) ∧
    ∀ st : Int, MID [.str s, iv st, iv n] = .ok (.err .value) := by
  refine ⟨?_, ?_, ?_⟩
  · simp [LEFT, leftCore, countOf, h]
  · simp [RIGHT, rightCore, countOf, h]
  · intro st
    by_cases hs : st < 1 <;> simp [MID, midCore, countOf, Count.lt, h, hs]

example : LEFT [.str "abc".toList, iv (-1)] = .ok (.err .value) := (negative_count _ (-1) (by decide)).1

/-- LEFT(s,n) followed by RIGHT(s,LEN(s)-n) is s, for every 0 ≤ n ≤ LEN(s). -/
theorem left_right_split (s : List Char) (n : Int) (h0 : 0 ≤ n) (h1 : n ≤ s.length) :
    ∃ a b, LEFT [.str s, iv n] = .ok (.str a) ∧ RIGHT [.str s, iv ((s.length : Int) - n)] = .ok (.str b) ∧
      a ++ b = s := by
  refine ⟨_, _, left_spec s n h0, right_spec s _ (by omega), ?_⟩
  rw [show s.length - ((s.length : Int) - n).toNat = n.toNat by omega]
  exact List.take_append_drop _ _

example : ∃ a b, LEFT [.str "héllo".toList, iv 2] = .ok (.str a) ∧
    RIGHT [.str "héllo".toList, iv ((("héllo".toList).length : Int) - 2)] = .ok (.str b) ∧ a ++ b = "héllo".toList :=
  left_right_split _ 2 (by decide) (by decide)

/-- MID(t,1,v) = LEFT(t,v) for ALL argument values t and v (text or not, integer, negative,
    fractional, non-numeric count: the same result, the same error, the same exception). -/
theorem mid_left (t v : Value) : MID [t, iv 1, v] = LEFT [t, v] := by
  show midCore t (iv 1) v = leftCore t v
  unfold midCore leftCore
  have h1 : countOf (iv 1) = .int 1 := rfl
  rw [h1]
  cases hv : countOf v with
  | bad => simp [Count.lt]
  | int i =>
    by_cases hi : i < 0
    · simp [Count.lt, hi]
    · cases t <;> simp [Count.lt, hi, sliceFrom]
  | flt q =>
    by_cases hq : q < 0
    · simp [Count.lt, hq]
    · cases t <;> simp [Count.lt, hq]

/-- LEN of a text is its number of characters; LEN(a&b) = LEN(a)+LEN(b), evaluated through the model
    of the `&` and `+` operators. -/
theorem len_concat (a b : List Char) :
    LEN [.str a] = .ok (iv a.length) ∧ LEN [.str b] = .ok (iv b.length) ∧
    evalAmp (.str a) (.str b) = .ok (.str (a ++ b)) ∧
    LEN [.str (a ++ b)] = .ok (iv ((a.length : Int) + b.length)) ∧
    evalArith 64 .add (iv a.length) (iv b.length) = .ok (iv ((a.length : Int) + b.length)) := by
  refine ⟨?_, ?_, ?_, ?_, ?_⟩
  · simp [LEN, onText, textOf?, pyStr?]
  · simp [LEN, onText, textOf?, pyStr?]
  · simp [evalAmp, isErr, pyStr?]
  · simp [LEN, onText, textOf?, pyStr?]
  · exact add_ints _ _

/-- The identity LEFT(s,n)&RIGHT(s,LEN(s)-n) = s at the level of the formula: every intermediate
    value is the one the operator / builtin models produce (`LEN(s)-n` through `evaluate_arithmetic`,
    `&` through the grammar's `&` reduction). -/
theorem left_right_split_formula (s : List Char) (n : Int) (h0 : 0 ≤ n) (h1 : n ≤ s.length) :
    ∃ l len d r, LEFT [.str s, iv n] = .ok l ∧ LEN [.str s] = .ok len ∧
      evalArith 64 .sub len (iv n) = .ok d ∧ RIGHT [.str s, d] = .ok r ∧ evalAmp l r = .ok (.str s) := by
  obtain ⟨a, b, hl, hr, hab⟩ := left_right_split s n h0 h1
  refine ⟨.str a, iv s.length, iv ((s.length : Int) - n), .str b, hl, (len_concat s []).1, ?_, hr, ?_⟩
  · exact sub_ints _ _
  · simp [evalAmp, isErr, pyStr?, hab]

example : ∃ l len d r, LEFT [.str "abc".toList, iv 0] = .ok l ∧ LEN [.str "abc".toList] = .ok len ∧
      evalArith 64 .sub len (iv 0) = .ok d ∧ RIGHT [.str "abc".toList, d] = .ok r ∧
      evalAmp l r = .ok (.str "abc".toList) :=
  left_right_split_formula _ 0 (by decide) (by decide)

/-! ## TRIM, CLEAN -/

/-- TRIM changes only spaces: erasing every space from TRIM(s) and from s gives the same text; the
    result has no leading space, no trailing space and no two adjacent spaces. -/
theorem trim_only_spaces (s : List Char) :
    ∃ t, TRIM [.str s] = .ok (.str t) ∧ t.filter (· ≠ ' ') = s.filter (· ≠ ' ') ∧
      t.head? ≠ some ' ' ∧ t.getLast? ≠ some ' ' ∧ ¬ [' ', ' '] <:+: t := by
  have h := trim_props s
  exact ⟨trim s, rfl, h.2.2.2, h.2.1, h.2.2.1, (noDbl_iff _).mp h.1⟩

/-- TRIM changes ONLY surplus spaces: TRIM(s) is the space-separated words of s (maximal runs of
    non-space characters, in order, tabs and line breaks being ordinary characters) joined by single
    spaces. -/
theorem trim_words (s : List Char) : TRIM [.str s] = .ok (.str ([' '].intercalate (words s))) := by
  show Except.ok (Value.str (trim s)) = _
  rw [trim_eq_join_words]

example : words " \ta  b c ".toList = ["\ta".toList, "b".toList, "c".toList] := by decide

/-- A text without leading, trailing or doubled spaces is left alone by TRIM (in particular tabs and
    line breaks at the ends stay: the repaired defect). -/
theorem trim_fixed_point (t : List Char) (h1 : t.head? ≠ some ' ') (h2 : t.getLast? ≠ some ' ')
    (h3 : ¬ [' ', ' '] <:+: t) : TRIM [.str t] = .ok (.str t) := by
  show Except.ok (Value.str (trim t)) = _
  rw [trim_fixed t ((noDbl_iff _).mpr h3) h1 h2]

example : TRIM [.str "\ta b\n".toList] = .ok (.str "\ta b\n".toList) :=
  trim_fixed_point _ (by decide) (by decide) (by rw [← noDbl_iff]; decide)

/-- TRIM is idempotent. -/
theorem trim_idempotent (s t : List Char) (h : TRIM [.str s] = .ok (.str t)) :
    TRIM [.str t] = .ok (.str t) := by
  have e : t = trim s := by
    have : Except.ok (Value.str (trim s)) = Except.ok (Value.str t) := h
    injection this with this; injection this with this; exact this.symm
  have hp := trim_props s
  rw [e]
  exact trim_fixed_point _ hp.2.1 hp.2.2.1 ((noDbl_iff _).mp hp.1)

example : TRIM [.str "a b".toList] = .ok (.str "a b".toList) :=
  trim_idempotent "  a   b ".toList _ (by rfl)

example : TRIM [.str "  a   b ".toList] = .ok (.str "a b".toList) := by rfl

/-- CLEAN only deletes control characters: the result is a subsequence of s, contains no code point
    ≤ 31, and is shorter than s by exactly the number of code points ≤ 31 in s (so every other
    character is kept, in order); a text without control characters is unchanged. -/
theorem clean_only_controls (s : List Char) :
    ∃ t, CLEAN [.str s] = .ok (.str t) ∧ t.Sublist s ∧ (∀ c ∈ t, 31 < c.toNat) ∧
      t.length + s.countP (fun c => c.toNat ≤ 31) = s.length ∧
      ((∀ c ∈ s, 31 < c.toNat) → t = s) :=
  ⟨clean s, rfl, clean_sublist s, clean_no_control s, clean_length s, clean_fixed s⟩

/-- CLEAN is idempotent. -/
theorem clean_idempotent (s t : List Char) (h : CLEAN [.str s] = .ok (.str t)) :
    CLEAN [.str t] = .ok (.str t) := by
  have e : t = clean s := by
    have : Except.ok (Value.str (clean s)) = Except.ok (Value.str t) := h
    injection this with this; injection this with this; exact this.symm
  rw [e]
  show Except.ok (Value.str (clean (clean s))) = _
  rw [clean_idem]

example : CLEAN [.str "ab".toList] = .ok (.str "ab".toList) := clean_idempotent "a\tb\x00".toList _ (by rfl)

example : CLEAN [.str "a\tb\x00".toList] = .ok (.str "ab".toList) := by rfl

/-! ## UPPER, LOWER, PROPER -/

/-- the laws of a case-mapping table under which the generic theorems hold; "equal up to letter
    case" is expressed by `lower` (two texts with the same lower-case form) -/
structure LawfulCaseMap (cm : CaseMap) : Prop where
  covers_upper : ∀ s, cm.covers s = true → cm.covers (cm.upper s) = true
  covers_lower : ∀ s, cm.covers s = true → cm.covers (cm.lower s) = true
  covers_title : ∀ s, cm.covers s = true → cm.covers (cm.title s) = true
  upper_idem : ∀ s, cm.covers s = true → cm.upper (cm.upper s) = cm.upper s
  lower_idem : ∀ s, cm.covers s = true → cm.lower (cm.lower s) = cm.lower s
  title_idem : ∀ s, cm.covers s = true → cm.title (cm.title s) = cm.title s
  lower_upper : ∀ s, cm.covers s = true → cm.lower (cm.upper s) = cm.lower s
  lower_title : ∀ s, cm.covers s = true → cm.lower (cm.title s) = cm.lower s

/-- For ANY case-mapping table with the stated laws: UPPER is idempotent and changes only case. -/
theorem upper_generic (cm : CaseMap) (hl : LawfulCaseMap cm) (s : List Char) (h : cm.covers s = true) :
    ∃ t, UPPERwith cm [.str s] = .ok (.str t) ∧ UPPERwith cm [.str t] = .ok (.str t) ∧ cm.lower t = cm.lower s :=
  ⟨cm.upper s, caseFn_covered cm _ s h,
   by rw [UPPERwith, caseFn_covered cm _ _ (hl.covers_upper s h), hl.upper_idem s h], hl.lower_upper s h⟩

/-- For ANY case-mapping table with the stated laws: LOWER is idempotent and changes only case. -/
theorem lower_generic (cm : CaseMap) (hl : LawfulCaseMap cm) (s : List Char) (h : cm.covers s = true) :
    ∃ t, LOWERwith cm [.str s] = .ok (.str t) ∧ LOWERwith cm [.str t] = .ok (.str t) ∧ cm.lower t = cm.lower s :=
  ⟨cm.lower s, caseFn_covered cm _ s h,
   by rw [LOWERwith, caseFn_covered cm _ _ (hl.covers_lower s h), hl.lower_idem s h], hl.lower_idem s h⟩

/-- For ANY case-mapping table with the stated laws: PROPER is idempotent and changes only case. -/
theorem proper_generic (cm : CaseMap) (hl : LawfulCaseMap cm) (s : List Char) (h : cm.covers s = true) :
    ∃ t, PROPERwith cm [.str s] = .ok (.str t) ∧ PROPERwith cm [.str t] = .ok (.str t) ∧ cm.lower t = cm.lower s :=
  ⟨cm.title s, caseFn_covered cm _ s h,
   by rw [PROPERwith, caseFn_covered cm _ _ (hl.covers_title s h), hl.title_idem s h], hl.lower_title s h⟩

/-- The ASCII table satisfies the laws (so the generic theorems are not vacuous). -/
theorem ascii_lawful : LawfulCaseMap CaseMap.ascii where
  covers_upper := all_ascii_map upperChar ascii_upper
  covers_lower := all_ascii_map lowerChar ascii_lower
  covers_title := titleGo_all_ascii false
  upper_idem := fun s _ => by simp [CaseMap.ascii, upper_upper]
  lower_idem := fun s _ => by simp [CaseMap.ascii, lower_lower]
  title_idem := fun s _ => titleGo_idem false s
  lower_upper := fun s _ => by simp [CaseMap.ascii, lower_upper]
  lower_title := fun s _ => lower_titleGo false s

example : ∃ t, UPPERwith CaseMap.ascii [.str "aBc-1".toList] = .ok (.str t) ∧
    UPPERwith CaseMap.ascii [.str t] = .ok (.str t) ∧ CaseMap.ascii.lower t = CaseMap.ascii.lower "aBc-1".toList :=
  upper_generic _ ascii_lawful _ (by decide)
example : ∃ t, PROPERwith CaseMap.ascii [.str "o'neil 3rd".toList] = .ok (.str t) ∧
    PROPERwith CaseMap.ascii [.str t] = .ok (.str t) ∧ CaseMap.ascii.lower t = CaseMap.ascii.lower "o'neil 3rd".toList :=
  proper_generic _ ascii_lawful _ (by decide)

/-- `d` is the upper-case form of `c`: `c` itself unless `c` is a letter a..z, then the capital -/
def IsUpperOf (c d : Char) : Prop :=
  (isAsciiLower c = false ∧ d = c) ∨ (isAsciiLower c = true ∧ isAsciiUpper d = true ∧ d.toNat + 32 = c.toNat)
/-- `d` is the lower-case form of `c`: `c` itself unless `c` is a letter A..Z, then the small letter -/
def IsLowerOf (c d : Char) : Prop :=
  (isAsciiUpper c = false ∧ d = c) ∨ (isAsciiUpper c = true ∧ isAsciiLower d = true ∧ d.toNat = c.toNat + 32)

/-- the model's `upperChar` produces the upper-case form in the sense of `IsUpperOf` -/
theorem isUpperOf_upperChar (c : Char) : IsUpperOf c (upperChar c) := by
  rcases upperChar_cases c with h | h
  · by_cases hl : isAsciiLower c = true
    · have : upperChar c = Char.ofNat (c.toNat - 32) := by simp [upperChar, hl]
      have h2 := toNat_upperChar c
      simp only [isAsciiLower, Bool.and_eq_true, decide_eq_true_eq] at hl
      rw [if_pos hl, h] at h2
      omega
    · exact Or.inl ⟨by simpa using hl, h⟩
  · exact Or.inr h

/-- the model's `lowerChar` produces the lower-case form in the sense of `IsLowerOf` -/
theorem isLowerOf_lowerChar (c : Char) : IsLowerOf c (lowerChar c) := by
  rcases lowerChar_cases c with h | h
  · by_cases hl : isAsciiUpper c = true
    · have h2 := toNat_lowerChar c
      simp only [isAsciiUpper, Bool.and_eq_true, decide_eq_true_eq] at hl
      rw [if_pos hl, h] at h2
      omega
    · exact Or.inl ⟨by simpa using hl, h⟩
  · exact Or.inr h

/-- UPPER on ASCII text is idempotent. -/
theorem upper_idempotent (s t : List Char) (h : UPPER [.str s] = .ok (.str t)) : UPPER [.str t] = .ok (.str t) := by
  by_cases hc : CaseMap.ascii.covers s = true
  · obtain ⟨t', h1, h2, _⟩ := upper_generic _ ascii_lawful s hc
    have : t' = t := by
      have := h1.symm.trans h
      injection this with this; injection this
    rw [← this]; exact h2
  · simp [UPPER, UPPERwith, caseFn, onText, textOf?, pyStr?, hc] at h

example : UPPER [.str "AB1".toList] = .ok (.str "AB1".toList) := upper_idempotent "aB1".toList _ (by rfl)

/-- LOWER on ASCII text is idempotent. -/
theorem lower_idempotent (s t : List Char) (h : LOWER [.str s] = .ok (.str t)) : LOWER [.str t] = .ok (.str t) := by
  by_cases hc : CaseMap.ascii.covers s = true
  · obtain ⟨t', h1, h2, _⟩ := lower_generic _ ascii_lawful s hc
    have : t' = t := by
      have := h1.symm.trans h
      injection this with this; injection this
    rw [← this]; exact h2
  · simp [LOWER, LOWERwith, caseFn, onText, textOf?, pyStr?, hc] at h

example : LOWER [.str "ab1".toList] = .ok (.str "ab1".toList) := lower_idempotent "aB1".toList _ (by rfl)

/-- PROPER on ASCII text is idempotent. -/
theorem proper_idempotent (s t : List Char) (h : PROPER [.str s] = .ok (.str t)) : PROPER [.str t] = .ok (.str t) := by
  by_cases hc : CaseMap.ascii.covers s = true
  · obtain ⟨t', h1, h2, _⟩ := proper_generic _ ascii_lawful s hc
    have : t' = t := by
      have := h1.symm.trans h
      injection this with this; injection this
    rw [← this]; exact h2
  · simp [PROPER, PROPERwith, caseFn, onText, textOf?, pyStr?, hc] at h

example : PROPER [.str "It'S A1B".toList] = .ok (.str "It'S A1B".toList) := proper_idempotent "it's a1b".toList _ (by rfl)

/-- UPPER on ASCII text changes only letter case: same length, and at every position the character
    is unchanged unless it is a letter a..z, which becomes the corresponding capital. -/
theorem upper_only_case (s : List Char) (h : s.all (fun c => c.toNat < 128) = true) :
    ∃ t, UPPER [.str s] = .ok (.str t) ∧ t.length = s.length ∧
      ∀ i (h1 : i < s.length) (h2 : i < t.length), IsUpperOf s[i] t[i] := by
  refine ⟨s.map upperChar, caseFn_covered CaseMap.ascii _ s h, by simp, ?_⟩
  intro i h1 h2
  simp only [List.getElem_map]
  exact isUpperOf_upperChar _

example : ("it's a1b".toList).all (fun c => c.toNat < 128) = true := by decide

/-- LOWER on ASCII text changes only letter case: same length, and at every position the character
    is unchanged unless it is a letter A..Z, which becomes the corresponding small letter. -/
theorem lower_only_case (s : List Char) (h : s.all (fun c => c.toNat < 128) = true) :
    ∃ t, LOWER [.str s] = .ok (.str t) ∧ t.length = s.length ∧
      ∀ i (h1 : i < s.length) (h2 : i < t.length), IsLowerOf s[i] t[i] := by
  refine ⟨s.map lowerChar, caseFn_covered CaseMap.ascii _ s h, by simp, ?_⟩
  intro i h1 h2
  simp only [List.getElem_map]
  exact isLowerOf_lowerChar _

/-- PROPER on ASCII text changes only letter case: same length; the first character and every
    character that follows a non-letter is put in upper case, every character that follows a letter
    in lower case (digits and apostrophes are non-letters: "it's" ↦ "It'S"). -/
theorem proper_only_case (s : List Char) (h : s.all (fun c => c.toNat < 128) = true) :
    ∃ t, PROPER [.str s] = .ok (.str t) ∧ t.length = s.length ∧
      ∀ i (h1 : i < s.length) (h2 : i < t.length),
        if i = 0 ∨ isAsciiLetter (s[i - 1]'(by omega)) = false then IsUpperOf s[i] t[i] else IsLowerOf s[i] t[i] := by
  refine ⟨titleGo false s, caseFn_covered CaseMap.ascii _ s h, titleGo_length _ _, ?_⟩
  intro i h1 h2
  rw [titleGo_getElem false s i h1]
  by_cases hi : i = 0
  · subst hi
    simp only [if_true, true_or, Bool.false_eq_true, if_false]
    exact isUpperOf_upperChar _
  · simp only [hi, if_false, false_or]
    by_cases hl : isAsciiLetter (s[i - 1]'(by omega)) = true
    · simp only [hl, if_true, Bool.true_eq_false, if_false]
      exact isLowerOf_lowerChar _
    · have hl' : isAsciiLetter (s[i - 1]'(by omega)) = false := by simpa using hl
      simp only [hl', Bool.false_eq_true, if_false, if_true]
      exact isUpperOf_upperChar _

example : PROPER [.str "it's a1b".toList] = .ok (.str "It'S A1B".toList) := by rfl
example : UPPER [.str "héllo".toList] = .ok (.other "case-mapping-outside-table") := by rfl

/-! ## CODE(CHAR(n)) -/

/-- CODE(CHAR(n)) = n for every Unicode scalar value n (0..0x10FFFF except the surrogates). -/
theorem code_char (n : Int) (h : isScalar n = true) :
    ∃ c, CHAR [iv n] = .ok (.str [c]) ∧ CODE [.str [c]] = .ok (iv n) ∧
      (CHAR [iv n] >>= fun v => CODE [v]) = .ok (iv n) := by
  have hv : n.toNat.isValidChar := by
    simp only [isScalar, Bool.or_eq_true, Bool.and_eq_true, decide_eq_true_eq] at h
    rcases h with h | h
    · exact Or.inl (by omega)
    · exact Or.inr ⟨by omega, by omega⟩
  have h0 : 0 ≤ n := by
    simp only [isScalar, Bool.or_eq_true, Bool.and_eq_true, decide_eq_true_eq] at h
    omega
  have e1 : CHAR [iv n] = .ok (.str [Char.ofNat n.toNat]) := by
    simp [CHAR, parseNumber, toNumber, h]
  have e2 : CODE [.str [Char.ofNat n.toNat]] = .ok (iv n) := by
    simp only [CODE, toNat_ofNat_valid _ hv]
    congr 3
    omega
  refine ⟨_, e1, e2, ?_⟩
  rw [e1]
  exact e2

example : isScalar 0x10FFFF = true ∧ isScalar 0xD800 = false ∧ isScalar 0x4E2D = true := by decide

/-! ## CONCATENATE, TEXTJOIN -/

/-- items the statement speaks about: text, integers, blanks -/
def isItem : Value → Bool
  | .str _ => true
  | .num (.int _) => true
  | .blank => true
  | _ => false

def isTextItem : Value → Bool
  | .str _ => true
  | .blank => true
  | _ => false

def notBlank : Value → Bool
  | .blank => false
  | _ => true

/-- the text of an item: text as it is, an integer in decimal, a blank as the empty text -/
def itemText : Value → List Char
  | .str s => s
  | .num (.int i) => PyNum.intToDec i
  | _ => []

/-- the flattened-item scan of CONCATENATE on text / integer / blank items -/
theorem concatGo_items (l : List Value) (h : ∀ v ∈ l, isItem v = true) :
    concatGo l = .ok (some ((l.filter notBlank).map itemText).flatten) := by
  induction l with
  | nil => rfl
  | cons v r ih =>
    have hr := ih (fun w hw => h w (List.mem_cons_of_mem _ hw))
    have hv := h v List.mem_cons_self
    match v, hv with
    | .str s, _ => simp [concatGo, hr, textOf?, pyStr?, notBlank, itemText, List.filter_cons]
    | .num (.int i), _ => simp [concatGo, hr, textOf?, pyStr?, notBlank, itemText, List.filter_cons]
    | .blank, _ => simp [concatGo, hr, notBlank]

/-- CONCATENATE (and CONCAT) joins, in order and without separator, the texts of its flattened
    items (nested arrays are flattened depth-first), blanks skipped; integers are written in decimal. -/
theorem concatenate_spec (items : List Value) (h : ∀ v ∈ flattenList items, isItem v = true) :
    CONCATENATE items = .ok (.str (((flattenList items).filter notBlank).map itemText).flatten) := by
  simp [CONCATENATE, concatGo_items _ h]

/-- Skipping a blank or taking it as the empty text is the same for CONCATENATE. -/
theorem concatenate_blank_as_empty (items : List Value) (h : ∀ v ∈ flattenList items, isItem v = true) :
    CONCATENATE items = .ok (.str ((flattenList items).map itemText).flatten) := by
  rw [concatenate_spec items h]
  congr 2
  generalize flattenList items = l
  induction l with
  | nil => rfl
  | cons v r ih => cases v <;> simp [notBlank, itemText, List.filter_cons, ih]

example : CONCATENATE [.str "a".toList, .arr [.blank, .arr [.str "12".toList], .str "b".toList], .blank]
    = .ok (.str "a12b".toList) := by rfl
example : ∀ v ∈ flattenList [.str "a".toList, .arr [.blank, .arr [.num (.int 12)], .str "b".toList], .blank],
    isItem v = true := by decide

/-- the generator TEXTJOIN hands to `str.join`, on text / blank items -/
theorem joinItems_items (ig : Bool) (l : List Value) (h : ∀ v ∈ l, isTextItem v = true) :
    joinItems ig l = some (if ig then (l.filter notBlank).map itemText else l.map itemText) := by
  induction l with
  | nil => cases ig <;> rfl
  | cons v r ih =>
    have hr := ih (fun w hw => h w (List.mem_cons_of_mem _ hw))
    have hv := h v List.mem_cons_self
    match v, hv with
    | .str s, _ => cases ig <;> simp [joinItems, hr, notBlank, itemText, List.filter_cons]
    | .blank, _ =>
      cases ig
      · simp [joinItems, hr, itemText]
      · simp [joinItems, hr, notBlank]

/-- TEXTJOIN(d, ignore_empty, items…) joins the flattened items in order with the delimiter between
    consecutive items (`List.intercalate`); with a true `ignore_empty` the blanks are skipped, with a
    false one a blank counts as an empty text (and still gets its delimiters). -/
theorem textjoin_spec (d : List Char) (ig : Value) (items : List Value)
    (h : ∀ v ∈ flattenList items, isTextItem v = true) :
    TEXTJOIN (.str d :: ig :: items) =
      .ok (.str (d.intercalate (if pyTruthy ig then ((flattenList items).filter notBlank).map itemText
                                else (flattenList items).map itemText))) := by
  simp only [TEXTJOIN, joinItems_items _ _ h, pyJoin_eq_intercalate]

example : ∀ v ∈ flattenList [.str "a".toList, .blank, .arr [.str "b".toList, .blank]], isTextItem v = true := by decide

example : TEXTJOIN [.str ", ".toList, .bool true, .str "a".toList, .blank, .arr [.str "b".toList, .blank]]
    = .ok (.str "a, b".toList) := by rfl
example : TEXTJOIN [.str ",".toList, .bool false, .str "a".toList, .blank, .arr [.str "b".toList, .blank]]
    = .ok (.str "a,,b,".toList) := by rfl

/-! ## SUBSTITUTE -/

/-- SUBSTITUTE(s, old, new) with a non-empty `old` is `replaceAll old new s`: the independent
    specification "cut at the leftmost occurrence, put `new`, continue after the occurrence"
    (characterised by `replaceAll_characterised` below).  `new` may be empty. -/
theorem substitute_all (s old new : List Char) (hold : old ≠ []) :
    SUBSTITUTE [.str s, .str old, .str new] = .ok (.str (replaceAll old new s)) := by
  have ho : old.isEmpty = false := by simpa using hold
  cases s with
  | nil => simp [SUBSTITUTE, substituteCore, pyTruthy, replaceAll_nil hold]
  | cons c r =>
    simp only [SUBSTITUTE, substituteCore, pyTruthy, List.isEmpty_cons, ho, Bool.not_false, Bool.not_true,
      Bool.or_self, Bool.false_eq_true, if_false]
    rw [pyReplace_eq_replaceAll hold]

example : SUBSTITUTE [.str "a-b-c".toList, .str "-".toList, .str "+".toList]
    = .ok (.str (replaceAll "-".toList "+".toList "a-b-c".toList)) := substitute_all _ _ _ (by decide)
example : SUBSTITUTE [.str "a-b-c".toList, .str "-".toList, .str "+".toList] = .ok (.str "a+b+c".toList) := by rfl

/-- What makes `replaceAll` "replace every occurrence": `r = replaceAll old new s` iff `r` is related
    to `s` by the rules (1) a text in which `old` does not occur is unchanged, (2) if `s = a ++ old ++ b`
    and no occurrence of `old` starts inside `a` (`old` does not occur in `a ++ old.dropLast`) then the
    result is `a ++ new ++ b'` with `b'` the result for `b`.  Existence and uniqueness. -/
theorem replaceAll_characterised (old new s r : List Char) (hold : old ≠ []) :
    ReplAll old new s r ↔ r = replaceAll old new s :=
  ⟨ReplAll_unique hold, fun h => h ▸ replaceAll_rel hold new s⟩

/-- `replaceAll` leaves a text without occurrence alone. -/
theorem replaceAll_no_occurrence (old new s : List Char) (hold : old ≠ []) (h : ¬ old <:+: s) :
    replaceAll old new s = s :=
  replaceAll_none hold ((cutFirst_none_iff hold s).mpr h)

example : replaceAll "xy".toList "Q".toList "abc".toList = "abc".toList :=
  replaceAll_no_occurrence _ _ _ (by decide) (by rw [← cutFirst_none_iff (by decide)]; decide)

/-- `replaceAll` at the leftmost occurrence: when no occurrence starts before the shown one, that
    occurrence is replaced and the replacement continues behind it. -/
theorem replaceAll_leftmost (old new a b : List Char) (hold : old ≠ []) (h : ¬ old <:+: a ++ old.dropLast) :
    replaceAll old new (a ++ old ++ b) = a ++ new ++ replaceAll old new b :=
  replaceAll_some hold (cutFirst_of_spec hold a b h)

example : replaceAll "ab".toList "X".toList ("c".toList ++ "ab".toList ++ "ab".toList)
    = "c".toList ++ "X".toList ++ replaceAll "ab".toList "X".toList "ab".toList :=
  replaceAll_leftmost _ _ _ _ (by decide) (by decide)

/-- SUBSTITUTE returns the text unchanged when the old text does not occur in it. -/
theorem substitute_no_occurrence (s old new : List Char) (hold : old ≠ []) (h : ¬ old <:+: s) :
    SUBSTITUTE [.str s, .str old, .str new] = .ok (.str s) := by
  rw [substitute_all s old new hold, replaceAll_no_occurrence old new s hold h]

/-- Substituting by the EMPTY text deletes the occurrences (the repaired defect: the text used to
    come back unchanged). -/
theorem substitute_empty_new (s old : List Char) (hold : old ≠ []) :
    SUBSTITUTE [.str s, .str old, .str []] = .ok (.str (replaceAll old [] s)) :=
  substitute_all s old [] hold

example : SUBSTITUTE [.str "abcabc".toList, .str "b".toList, .str []] = .ok (.str "acac".toList) := by rfl

/-- SUBSTITUTE with an instance number, in terms of the list of occurrence positions -/
theorem substitute_kth_aux (s old new : List Char) (k : Nat) (hold : old ≠ []) (hk : 1 ≤ k) :
    SUBSTITUTE [.str s, .str old, .str new, iv k] =
      .ok (.str (match (occPositions old s)[k - 1]? with
        | some i => s.take i ++ new ++ s.drop (i + old.length)
        | none => s)) := by
  have ho : old.isEmpty = false := by simpa using hold
  have hk' : ¬ ((k : Int) ≤ 0) := by omega
  cases s with
  | nil => simp [SUBSTITUTE, substituteCore, pyTruthy, parseNumber, toNumber, numNonPos, occPositions]; omega
  | cons c r =>
    simp only [SUBSTITUTE, parseNumber, toNumber, numNonPos, hk', decide_false, Bool.false_eq_true, if_false,
      substituteCore, pyTruthy, List.isEmpty_cons, ho, Bool.not_false, Bool.not_true, Bool.or_self, hasLen?,
      instanceNat?, Int.toNat_natCast]
    rw [kthScan_spec old new (c :: r) k hk]
    cases (occPositions old (c :: r))[k - 1]? <;> rfl

/-- SUBSTITUTE(s, old, new, k): when the k-th start position (in scan order, overlapping occurrences
    counted) at which `old` occurs in `s` is `i`, exactly that occurrence is replaced — the text
    before position `i` and the text after the occurrence are untouched. -/
theorem substitute_kth (s old new : List Char) (k i : Nat) (hold : old ≠ []) (hk : 1 ≤ k)
    (hi : (occPositions old s)[k - 1]? = some i) :
    SUBSTITUTE [.str s, .str old, .str new, iv k] = .ok (.str (s.take i ++ new ++ s.drop (i + old.length))) := by
  rw [substitute_kth_aux s old new k hold hk, hi]

example : (occPositions "aba".toList "ababa".toList)[2 - 1]? = some 2 := by decide
example : SUBSTITUTE [.str "ababa".toList, .str "aba".toList, .str "X".toList, iv 2] = .ok (.str "abX".toList) := by rfl

/-- SUBSTITUTE(s, old, new, k) returns the text unchanged when `old` occurs fewer than k times. -/
theorem substitute_absent (s old new : List Char) (k : Nat) (hold : old ≠ []) (hk : 1 ≤ k)
    (hlt : (occPositions old s).length < k) :
    SUBSTITUTE [.str s, .str old, .str new, iv k] = .ok (.str s) := by
  rw [substitute_kth_aux s old new k hold hk, List.getElem?_eq_none (by omega)]

example : (occPositions "b".toList "abcabc".toList).length < 3 := by decide

/-- The positions listed by `occPositions` are exactly the start positions at which `old` occurs. -/
theorem occPositions_exact (old s : List Char) (i : Nat) :
    i ∈ occPositions old s ↔ i < s.length ∧ old <+: s.drop i :=
  mem_occPositions old s i

/-- Two occurrences of a non-self-overlapping old text (`NoBorder`: no proper non-empty prefix is also
    a suffix) never overlap. -/
theorem occurrences_do_not_overlap (old s : List Char) (hnb : NoBorder old) (i j : Nat)
    (hi : i ∈ occPositions old s) (hj : j ∈ occPositions old s) (hij : i < j) : i + old.length ≤ j :=
  occurrences_disjoint hnb s i j ((mem_occPositions old s i).mp hi).2 ((mem_occPositions old s j).mp hj).2 hij

/-- "Replaces EVERY occurrence": for a non-empty, non-self-overlapping old text, SUBSTITUTE(s,old,new)
    is s with the occurrence at EACH position of `occPositions old s` replaced by `new` and everything
    between the occurrences kept (`replaceAt`, the reference the oracle uses). -/
theorem substitute_every_occurrence (s old new : List Char) (hold : old ≠ []) (hnb : NoBorder old) :
    SUBSTITUTE [.str s, .str old, .str new] =
      .ok (.str (replaceAt old.length new (occPositions old s) 0 s)) := by
  rw [substitute_all s old new hold, ← replaceGo_eq_replaceAll hold, replaceGo_eq_replaceAt hold hnb]

example : NoBorder "ab".toList ∧ ¬ NoBorder "aba".toList := by
  constructor
  · intro k h1 h2
    have : k = 1 := by simp at h2; omega
    subst this; decide
  · intro h; exact h 1 (by decide) (by decide) (by decide)


/-! ## the identities through the whole evaluator (`Parser.parse` model) -/

open HotXL.Syntax HotXL.Eval

/-- the tree the parser model builds for `LEFT(s,n)&RIGHT(s,LEN(s)-n)` -/
def splitExpr : Expr :=
  .bin .amp (.call "LEFT".toList .flat [.var ["s".toList], .var ["n".toList]] [])
    (.call "RIGHT".toList .flat [.var ["s".toList],
      .bin .sub (.call "LEN".toList .flat [.var ["s".toList]] []) (.var ["n".toList])] [])

/-- the parser model builds that tree for the formula text -/
theorem parse_split : parseFormula "LEFT(s,n)&RIGHT(s,LEN(s)-n)".toList = .ok splitExpr := by rfl

/-- End to end: in any environment where the variable `s` is a text, `n` an integer with
    0 ≤ n ≤ LEN(s), and no custom function shadows the builtins, `Parser.parse` of the formula text
    "LEFT(s,n)&RIGHT(s,LEN(s)-n)" (lexer, parser, evaluator, registry lookup, operators) yields the
    record {result: s, error: None}. -/
theorem left_right_split_parse (env : Env) (s : List Char) (n : Int) (h0 : 0 ≤ n) (h1 : n ≤ s.length)
    (hs : env.vars "s".toList = some (.str s)) (hn : env.vars "n".toList = some (iv n))
    (hc : ∀ name, env.custom name = none) :
    (parseTop env "LEFT(s,n)&RIGHT(s,LEN(s)-n)".toList).1 = { result := some (.str s), error := none } := by
  obtain ⟨a, b, e1, e4, hab⟩ := left_right_split s n h0 h1
  have e2 := (len_concat s []).1
  have e3 := sub_ints s.length n
  have e5 : evalAmp (.str a) (.str b) = .ok (.str s) := by simp [evalAmp, isErr, pyStr?, hab]
  have hne : ("LEFT(s,n)&RIGHT(s,LEN(s)-n)".toList).isEmpty = false := by rfl
  rw [parseTop, hne]
  simp only [Bool.false_eq_true, if_false, parse_split, splitExpr]
  have hs' : env.vars ['s'] = some (.str s) := hs
  have hn' : env.vars ['n'] = some (iv n) := hn
  have cL := fun log => callBuiltin env ['L', 'E', 'F', 'T'] LEFT [.str s, iv n] _ log (hc _) (by decide) (by rfl) e1 (by rfl)
  have cN := fun log => callBuiltin env ['L', 'E', 'N'] LEN [.str s] _ log (hc _) (by decide) (by rfl) e2 (by rfl)
  have cR := fun log => callBuiltin env ['R', 'I', 'G', 'H', 'T'] RIGHT [.str s, _] _ log (hc _) (by decide) (by rfl) e4 (by rfl)
  simp [evalExpr, evalList, callVariable, hs', hn', seqValues, cL, cN, cR, binOfOp, e3, e5, finish]

/-- an environment satisfying the hypotheses of `left_right_split_parse` -/
def envExample : Env :=
  { Env.empty with vars := fun k => if k = ['s'] then some (.str "héllo".toList) else if k = ['n'] then some (iv 2) else none }

example : (parseTop envExample "LEFT(s,n)&RIGHT(s,LEN(s)-n)".toList).1 = { result := some (.str "héllo".toList), error := none } :=
  left_right_split_parse envExample _ 2 (by decide) (by decide) (by rfl) (by rfl) (fun _ => rfl)

/-- an environment satisfying the hypotheses of `len_concat_parse` -/
def envExample2 : Env :=
  { Env.empty with vars := fun k => if k = ['a'] then some (.str "hé".toList) else if k = ['b'] then some (.str "llo".toList) else none }

/-- End to end: `Parser.parse` gives the same number, LEN(a)+LEN(b) characters, for the formula texts
    "LEN(a&b)" and "LEN(a)+LEN(b)" when the variables `a`, `b` are texts. -/
theorem len_concat_parse (env : Env) (a b : List Char)
    (ha : env.vars "a".toList = some (.str a)) (hb : env.vars "b".toList = some (.str b))
    (hc : ∀ name, env.custom name = none) :
    (parseTop env "LEN(a&b)".toList).1 = { result := some (iv ((a.length : Int) + b.length)), error := none } ∧
    (parseTop env "LEN(a)+LEN(b)".toList).1 = { result := some (iv ((a.length : Int) + b.length)), error := none } := by
  obtain ⟨e1, e2, e3, e4, e5⟩ := len_concat a b
  have ha' : env.vars ['a'] = some (.str a) := ha
  have hb' : env.vars ['b'] = some (.str b) := hb
  have p1 : parseFormula "LEN(a&b)".toList =
      .ok (.call ['L', 'E', 'N'] .flat [.bin .amp (.var [['a']]) (.var [['b']])] []) := by rfl
  have p2 : parseFormula "LEN(a)+LEN(b)".toList =
      .ok (.bin .add (.call ['L', 'E', 'N'] .flat [.var [['a']]] []) (.call ['L', 'E', 'N'] .flat [.var [['b']]] [])) := by rfl
  have n1 : ("LEN(a&b)".toList).isEmpty = false := by rfl
  have n2 : ("LEN(a)+LEN(b)".toList).isEmpty = false := by rfl
  have cA := fun log => callBuiltin env ['L', 'E', 'N'] LEN [.str a] _ log (hc _) (by decide) (by rfl) e1 (by rfl)
  have cB := fun log => callBuiltin env ['L', 'E', 'N'] LEN [.str b] _ log (hc _) (by decide) (by rfl) e2 (by rfl)
  have cAB := fun log => callBuiltin env ['L', 'E', 'N'] LEN [.str (a ++ b)] _ log (hc _) (by decide) (by rfl) e4 (by rfl)
  constructor
  · rw [parseTop, n1]
    simp only [Bool.false_eq_true, if_false, p1]
    simp [evalExpr, evalList, callVariable, ha', hb', seqValues, cAB, binOfOp, e3, finish]
  · rw [parseTop, n2]
    simp only [Bool.false_eq_true, if_false, p2]
    simp [evalExpr, evalList, callVariable, ha', hb', seqValues, cA, cB, binOfOp, e5, finish]

example : (parseTop envExample2 "LEN(a&b)".toList).1 = { result := some (iv (2 + 3)), error := none } :=
  (len_concat_parse envExample2 "hé".toList "llo".toList (by rfl) (by rfl) (fun _ => rfl)).1

end HotXL.Props.C15
