/-
  C02 — evaluation is a pure, repeatable function of formula and registered bindings.

  All theorems are about `HotXL.Session.step` (model of a long-lived process holding several
  `hotxlfp.Parser` objects, see `HotXL.Model.Session`): a `parse` step computes its outcome (record +
  events delivered to the host) from the bindings of the addressed parser, and WRITES the hidden
  state the real code has (the LRParser's stacks and `errorok`, the clone lexer kept alive by
  `yacc.token`, the shared XLError singletons' traceback chains, stderr under `debug`).  The theorems
  say that nothing of what is written is ever read back into an outcome, and that what is retained does
  not grow with the number of evaluations.

  Host-value immutability ("evaluation never mutates a value supplied by the host"): in the model
  values are immutable mathematical objects and every operation builds new values, so that clause
  cannot even be stated here; at the model level it is represented by `bindings_preserved` (the
  registered values are the same values afterwards) and the real content — no in-place `sort`,
  `append`, `+=` on a host list anywhere in the builtins, the operators and the grammar actions — is
  carried by the oracle of `harness/props/c02.py` (deep copies, `id` of every nested list) on the
  real implementation.
-/
import HotXL.Model.Session
import HotXL.Lemmas.Session

namespace HotXL.Props.C02
open HotXL HotXL.Eval HotXL.Session

/-- outcome of a step -/
abbrev out (x : State × Out) : Out := x.2

/-! ### the outcome is a function of the formula and the bindings -/

/-- The outcome of `p.parse(f)` (record and events) is determined by the formula text and by what is
    registered on `p`: two parsers with the same bindings, in ANY two process states (whatever their
    LR stacks, `errorok`, lexers, traceback chains, stderr, other parsers), give the same outcome. -/
theorem outcome_depends_on_bindings_only (σ σ' : State) (pid pid' : Nat) (f : List Char)
    (h : bindings pid σ = bindings pid' σ') :
    out (step σ (.parse pid f)) = out (step σ' (.parse pid' f)) := by
  show (stepWith false σ (.parse pid f)).2 = (stepWith false σ' (.parse pid' f)).2
  rw [out_parse, out_parse, h]

/-- The LRParser field that the code READS (`errorok`, left `False` for ever by the first syntax
    error) and every other hidden field of the FormulaParser have no influence on an evaluation. -/
theorem hidden_never_matters (b : Bindings) (h h' : ParserHidden) (f : List Char) :
    evalRun b h f = evalRun b h' f := by
  rw [evalRun_eq, evalRun_eq]

/-- History independence: after ANY sequence of operations (evaluations that succeeded, failed, were
    aborted by raising callbacks; registrations that were undone; other parsers being built) that
    leaves the bindings of parser `pid` as they were, `parse f` on `pid` gives what it gave before. -/
theorem history_independent (h : List Op) (σ : State) (pid : Nat) (f : List Char)
    (hb : bindings pid (run h σ) = bindings pid σ) :
    out (step (run h σ) (.parse pid f)) = out (step σ (.parse pid f)) :=
  outcome_depends_on_bindings_only _ _ pid pid f hb

/-- An evaluation never changes what the host registered, on any parser (the model-level half of
    "evaluation never mutates a value supplied by the host"; see the header). -/
theorem bindings_preserved (σ : State) (pid q : Nat) (f : List Char) :
    bindings q (step σ (.parse pid f)).1 = bindings q σ :=
  bindings_parse false σ pid q f

/-- A history of evaluations only (on any parsers, any formulas) preserves all bindings. -/
theorem parse_preserves_bindings (h : List Op) (hp : ParseOnly h) (σ : State) (q : Nat) :
    bindings q (run h σ) = bindings q σ :=
  bindings_run_parseOnly h hp σ q

/-- In particular: earlier evaluations — valid, erroneous, aborted — never influence a later one. -/
theorem earlier_evaluations_irrelevant (h : List Op) (hp : ParseOnly h) (σ : State) (pid : Nat)
    (f : List Char) :
    out (step (run h σ) (.parse pid f)) = out (step σ (.parse pid f)) :=
  history_independent h σ pid f (parse_preserves_bindings h hp σ pid)

/-- Repeatable: evaluating the same formula again gives the same outcome. -/
theorem repeatable (σ : State) (pid : Nat) (f : List Char) :
    out (step (step σ (.parse pid f)).1 (.parse pid f)) = out (step σ (.parse pid f)) :=
  outcome_depends_on_bindings_only _ _ pid pid f (bindings_preserved σ pid pid f)

/-- A parser built now (its lexer becomes the process-global `ply.lex.lexer`) and given, by any
    sequence of operations `reg`, the bindings of the long-lived parser `pid`, evaluates every formula
    as `pid` does. -/
theorem fresh_parser_same (σ : State) (pid : Nat) (d : Bool) (reg : List Op) (f : List Char)
    (hb : bindings σ.parsers.length (run reg (step σ (.newParser d)).1) = bindings pid σ) :
    out (step (run reg (step σ (.newParser d)).1) (.parse σ.parsers.length f)) =
      out (step σ (.parse pid f)) :=
  outcome_depends_on_bindings_only _ _ _ _ f hb

/-- Building further parsers does not disturb an existing one. -/
theorem new_parser_irrelevant (σ : State) (pid : Nat) (d : Bool) (f : List Char)
    (hp : pid < σ.parsers.length) :
    out (step (step σ (.newParser d)).1 (.parse pid f)) = out (step σ (.parse pid f)) := by
  apply outcome_depends_on_bindings_only
  simp [bindings, step, stepWith, List.getElem?_append_left hp]

/-- The `debug` flag does not influence the outcome (it only adds tracebacks to stderr). -/
theorem debug_irrelevant (σ : State) (pid : Nat) (d : Bool) (f : List Char) :
    out (step (step σ (.setDebug pid d)).1 (.parse pid f)) = out (step σ (.parse pid f)) := by
  show (stepWith false _ (.parse pid f)).2 = (stepWith false σ (.parse pid f)).2
  rw [out_parse, out_parse]
  simp only [bindings, step, stepWith]
  cases h : σ.parsers[pid]? with
  | none => simp [h]
  | some p =>
    obtain ⟨hlt, he⟩ := List.getElem?_eq_some_iff.mp h
    subst he
    simp [setParser, hlt, outOf]

/-! ### the hidden state does not grow -/

/-- no operation of the repaired code lengthens a traceback chain -/
theorem tracebacks_never_grow (σ : State) (op : Op) (e : Err) :
    (step σ op).1.glob.tbLen e ≤ σ.glob.tbLen e := by
  cases op with
  | parse pid f => exact tbLen_parse_le σ pid f e
  | newParser d => exact Nat.le_refl _
  | setVariable pid n v => simp only [step, stepWith]; split <;> exact Nat.le_refl _
  | setFunction pid n g => simp only [step, stepWith]; split <;> exact Nat.le_refl _
  | setCell pid l v => simp only [step, stepWith]; split <;> exact Nat.le_refl _
  | setRange pid a b v => simp only [step, stepWith]; split <;> exact Nat.le_refl _
  | setDebug pid d => simp only [step, stepWith]; split <;> exact Nat.le_refl _

/-- In a process whose singletons carry no traceback (as at start-up), they carry none after any
    history: every raise is followed by the handler's reset. -/
theorem tracebacks_stay_empty (h : List Op) (σ : State) (hz : ∀ e, σ.glob.tbLen e = 0) (e : Err) :
    (run h σ).glob.tbLen e = 0 := by
  induction h generalizing σ with
  | nil => exact hz e
  | cons op h ih =>
    rw [run_cons]
    exact ih _ (fun e' => Nat.le_zero.mp (hz e' ▸ tracebacks_never_grow σ op e'))

theorem inv_run {c L : Nat} (hc : 2 * L + 4 ≤ c) (σ0 : State) (h : List Op) (hp : ParseOnlyUpTo L h)
    (σ : State) (w : Rel2 (Within c) σ.parsers σ0.parsers) (ht : ∀ e, σ.glob.tbLen e ≤ σ0.glob.tbLen e) :
    Rel2 (Within c) (run h σ).parsers σ0.parsers ∧ ∀ e, (run h σ).glob.tbLen e ≤ σ0.glob.tbLen e := by
  induction h generalizing σ with
  | nil => exact ⟨w, ht⟩
  | cons op h ih =>
    obtain ⟨pid, f, e, hf⟩ := hp op (by simp)
    subst e
    rw [run_cons]
    exact ih (fun o ho => hp o (by simp [ho])) _ (within_parse hc w pid f hf)
      (fun e => Nat.le_trans (tbLen_parse_le σ pid f e) (ht e))

/-- No memory per evaluation: starting from any process state `σ0`, after ANY number of evaluations
    (on any of its parsers, succeeding or failing) of formulas of at most `L` characters, the size of
    the hidden state — retained lexers and formula text, LR stack entries, traceback chains of the
    nine singletons — is below one bound `B` that depends on `σ0` and `L` only, not on the length of
    the history.  (Retention is bounded by the LAST formula of each parser.) -/
theorem hidden_state_bounded (σ0 : State) (L : Nat) :
    ∃ B, ∀ h, ParseOnlyUpTo L h → (run h σ0).hiddenSize ≤ B := by
  refine ⟨σ0.hiddenSize + σ0.parsers.length * (2 * L + 4), fun h hp => ?_⟩
  obtain ⟨w, ht⟩ := inv_run (Nat.le_refl _) σ0 h hp σ0 (forall2_refl _ _) (fun _ => Nat.le_refl _)
  have h1 := forall2_sum_le w
  have h2 := tbTotal_mono ht
  unfold State.hiddenSize
  omega

/-- the same, for unbounded repetition of one evaluation: the bound does not depend on `n` -/
theorem repetition_retains_nothing (σ0 : State) (pid : Nat) (f : List Char) (n : Nat) :
    (run (List.replicate n (.parse pid f)) σ0).hiddenSize ≤
      σ0.hiddenSize + σ0.parsers.length * (2 * f.length + 4) := by
  obtain ⟨w, ht⟩ := inv_run (L := f.length) (Nat.le_refl _) σ0 (List.replicate n (.parse pid f))
    (fun op hop => ⟨pid, f, (List.eq_of_mem_replicate hop), Nat.le_refl _⟩) σ0 (forall2_refl _ _)
    (fun _ => Nat.le_refl _)
  have h1 := forall2_sum_le w
  have h2 := tbTotal_mono ht
  unfold State.hiddenSize
  omega

/-! ### negative example: the code before the traceback repair -/

theorem leaky_step (σ : State) (pid : Nat) (f : List Char) (b : Bindings) (e : Err)
    (hb : bindings pid σ = some b) (ht : topExn b.env f = some (.xl e)) :
    σ.glob.tbLen e + 1 ≤ (stepLeaky σ (.parse pid f)).1.glob.tbLen e := by
  unfold bindings at hb
  obtain ⟨p, hp, rfl⟩ := Option.map_eq_some_iff.mp hb
  unfold stepLeaky
  rw [stepWith_parse_some hp]
  simp only [ht, Option.toList_some, List.foldl_append, List.foldl_cons, List.foldl_nil]
  have := foldl_raiseAndHandle_leaky_ge (caughtInCalls p.bindings.env (parseTop p.bindings.env f).2) σ.glob.tbLen e
  simp only [raiseAndHandle, singletonOf, if_true, bumpTb, framesPerRaise]
  omega

/-- Before the repair (`stepLeaky`: the handlers do not reset `__traceback__`), every evaluation that
    ends in a raised singleton `e` lengthened the chain of that shared object: after `n` evaluations it
    holds at least `n` more entries — memory grows without bound in a long-lived process. -/
theorem leaky_grows_general (n : Nat) (σ : State) (pid : Nat) (f : List Char) (b : Bindings) (e : Err)
    (hb : bindings pid σ = some b) (ht : topExn b.env f = some (.xl e)) :
    σ.glob.tbLen e + n ≤ (runLeaky (List.replicate n (.parse pid f)) σ).glob.tbLen e := by
  induction n generalizing σ with
  | zero => exact Nat.le_refl _
  | succ n ih =>
    rw [List.replicate_succ, runLeaky_cons]
    have h1 := leaky_step σ pid f b e hb ht
    have h2 := ih (stepLeaky σ (.parse pid f)).1 (by rw [← hb]; exact bindings_parse true σ pid pid f)
    omega

/-- a process with one freshly built parser -/
def σ1 : State := (step State.init (.newParser false)).1

/-- The repaired defect, concretely: `n` evaluations of the unknown name `foo` on a fresh parser left
    a traceback chain of at least `n` entries on the shared `error.NAME` object. -/
theorem leaky_grows (n : Nat) :
    n ≤ (runLeaky (List.replicate n (.parse 0 "foo".toList)) σ1).glob.tbLen .name := by
  have := leaky_grows_general n σ1 0 "foo".toList ⟨Env.empty, false⟩ .name rfl rfl
  omega

/-- … while in the code as it is the chain is empty after any number of them. -/
theorem repaired_stays_empty (n : Nat) (e : Err) :
    (run (List.replicate n (.parse 0 "foo".toList)) σ1).glob.tbLen e = 0 :=
  tracebacks_stay_empty _ σ1 (fun _ => rfl) e

/-! ### non-vacuity: the hidden state IS written, the hypotheses are satisfiable -/

/-- a parser with a variable, a raising custom function and a cell value -/
def σ2 : State :=
  run [.setVariable 0 "rate".toList (.num (.int 7)),
       .setFunction 0 "BOOM".toList (fun _ => .error (.xl .na)),
       .setCell 0 "A1".toList (.num (.int 5))] σ1

def history : List Op :=
  [.parse 0 "1+".toList, .parse 0 "foo".toList, .parse 0 "BOOM()&\"x\"".toList, .parse 0 "#REF!".toList,
   .parse 0 "NOSUCH(1)".toList, .parse 0 "{rate,A1}".toList, .parse 0 "".toList]

example : ParseOnly history := by
  intro op hop
  simp only [history, List.mem_cons, List.mem_nil_iff, or_false] at hop
  rcases hop with h | h | h | h | h | h | h <;> exact ⟨_, _, h⟩

example : ParseOnlyUpTo 10 history := by
  intro op hop
  simp only [history, List.mem_cons, List.mem_nil_iff, or_false] at hop
  rcases hop with h | h | h | h | h | h | h <;> exact ⟨_, _, h, by decide⟩

/-- the evaluations of `history` do what one expects: a syntax error, an unknown name, a callback that
    raises #N/A (trapped by `call_function`, so `&` propagates it), an error literal (raised through to
    `Parser.parse`), an unknown function, an array of a variable and a cell, the empty formula -/
example : outs history σ2 =
    [.record { result := none, error := some .error } [],
     .record { result := none, error := some .name } [.var "foo".toList],
     .record { result := none, error := some .na } [.fn "BOOM".toList []],
     .record { result := none, error := some .ref } [],
     .record { result := none, error := some .name } [],
     .record { result := some (.arr [.num (.int 7), .num (.int 5)]), error := none }
       [.var "rate".toList, .cell "A1".toList ⟨0, "1".toList, false⟩ ⟨0, "A".toList, false⟩],
     .record { result := some (.str []), error := none } []] := by
  rfl

/-- the syntax error of `1+` leaves `errorok = False` and a residue on the LR stacks; the clone lexer
    holding the text stays alive; the prototype lexer is untouched -/
example : (hidden 0 (run [.parse 0 "1+".toList] σ2)).map
      (fun h => (h.errorok, h.lrStacks, h.lastClone.map (·.lexdata), h.protoLexer.lexdata)) =
    some (false, [0, 10, 23], some (some "1+".toList), none) := by
  rfl

example : (hidden 0 σ2).map (fun h => (h.errorok, h.lrStacks)) = some (true, []) := by rfl

/-- … and yet the next evaluation is what it would have been (instance of `earlier_evaluations_irrelevant`) -/
example : out (step (run history σ2) (.parse 0 "IFERROR(BOOM(),rate)".toList)) =
    .record { result := some (.num (.int 7)), error := none }
      [.fn "BOOM".toList [], .var "rate".toList, .fn "IFERROR".toList [.err .na, .num (.int 7)]] ∧
    out (step σ2 (.parse 0 "IFERROR(BOOM(),rate)".toList)) =
    .record { result := some (.num (.int 7)), error := none }
      [.fn "BOOM".toList [], .var "rate".toList, .fn "IFERROR".toList [.err .na, .num (.int 7)]] := by
  constructor <;> rfl

/-- hypothesis of `history_independent` satisfied by histories that are NOT parse-only: `debug` is
    switched on and off again around a failing evaluation; a variable is changed, used, and restored -/
example : bindings 0 (run [.setDebug 0 true, .parse 0 "1+".toList, .setDebug 0 false] σ2) = bindings 0 σ2 := by
  rfl

example : bindings 0 (run [.setVariable 0 "rate".toList (.num (.int 9)), .parse 0 "rate".toList,
                           .setVariable 0 "rate".toList (.num (.int 7))] σ2) = bindings 0 σ2 := by
  simp only [bindings, σ2, σ1, run, step, stepWith, State.init, List.foldl, setParser, updEnv,
    ParserSt.fresh, Env.empty]
  simp
  funext k
  split <;> simp_all

/-- hypothesis of `fresh_parser_same` satisfied: a second parser receives the same registrations -/
example : bindings σ2.parsers.length
      (run [.setVariable 1 "rate".toList (.num (.int 7)),
            .setFunction 1 "BOOM".toList (fun _ => .error (.xl .na)),
            .setCell 1 "A1".toList (.num (.int 5))] (step (run history σ2) (.newParser false)).1) =
    bindings 0 (run history σ2) := by
  simp only [bindings, σ2, σ1, history, run, step, stepWith, State.init, List.foldl, setParser, updEnv,
    ParserSt.fresh, Env.empty]
  simp

/-- `debug` changes stderr, and only stderr -/
example : (step (step σ2 (.setDebug 0 true)).1 (.parse 0 "foo".toList)).1.glob.stderr =
    ["hotxlfp.formulas.error.XLError: #NAME?"] ∧
    (step σ2 (.parse 0 "foo".toList)).1.glob.stderr = [] := by
  constructor <;> rfl

/-- the process-global lexer pointer follows the LAST parser built -/
example : (step σ2 (.newParser true)).1.glob.globalLexer = some 1 ∧ σ2.glob.globalLexer = some 0 := by
  constructor <;> rfl

/-- hypotheses of `leaky_grows_general` on a callback-raised error: a custom function raising the
    singleton #N/A at top level is trapped by `call_function` (no top-level exception), an error
    LITERAL is raised through to `Parser.parse` -/
example : topExn Env.empty "#REF!".toList = some (.xl .ref) := by rfl

/-- with the leak: three failing evaluations, chain length 3; without: 0 -/
example : (runLeaky (List.replicate 3 (.parse 0 "#REF!".toList)) σ2).glob.tbLen .ref = 3 ∧
    (run (List.replicate 3 (.parse 0 "#REF!".toList)) σ2).glob.tbLen .ref = 0 := by
  constructor <;> rfl

/-- the interior raise of `BOOM()` (caught by `call_function`) also leaked before the repair -/
example : (runLeaky [.parse 0 "BOOM()&1".toList, .parse 0 "IFERROR(BOOM(),1)".toList] σ2).glob.tbLen .na = 2 := by
  rfl

end HotXL.Props.C02
