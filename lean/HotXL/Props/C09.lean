/-
  C09 — names resolve to what was registered; unknown names are `#NAME?`.

  The objects:
  * `Generated.registry` (the keys of `formulas.dispatcher._registry_`), `Generated.documented` (the
    bullets under "# Supported Formulas" of SUPPORTED_FORMULAS.md), `Generated.predefinedVars`
    (`Parser().variables` of a fresh parser), `Generated.lexRules` (rule order of the master regular
    expression) — all regenerated from /repo;
  * `Eval.callVariable` / `Eval.callFunction` (models of `Parser.call_variable` / `call_function`),
    `Eval.evalExpr` / `evalList` (post-order evaluation with an event log), `Eval.parseTop`
    (`Parser.parse`: record + log), `Lexer.tokenize`, `Syntax.parseFormula`;
  * `Names.VariableShaped` — the domain of the claim about variables,
    `^(?![A-Za-z]+[0-9])(?:[A-Za-z][A-Za-z_0-9]+|[A-Za-z_]+)$`;
  * `Names.Ctx` — expression trees with one hole (operand of a binary operator, operand of unary
    minus, argument of a call, array element; any index, any depth), `Ctx.before env c log` — the
    log at the moment evaluation reaches the hole, provided everything before it evaluated normally.

  An event `.fn name args` in the log = one call of the function `name` with the argument values
  `args` (this is what the `callFunction` event of the implementation reports; the harness checks
  it against a recording callable).
-/
import HotXL.Model.Eval
import HotXL.Lemmas.Names
import HotXL.Lemmas.Routes

namespace HotXL.Props.C09
open HotXL HotXL.Lexer HotXL.Syntax HotXL.Eval HotXL.Names

/-! ### 1. documented names, predefined variables -/

/-- Every function name listed as supported in SUPPORTED_FORMULAS.md is a key of the dispatcher
    registry (checked name by name over the whole generated list). -/
theorem documented_registered : ∀ n ∈ Generated.documented, n ∈ Generated.registry := by
  decide +kernel

/-- Conversely, every key of the dispatcher registry is a documented name: the built-ins are exactly
    the documented functions, so no undocumented spelling (an implementation's Python name such as
    `VAR_P`, an alias) resolves - it is `#NAME?` like any other unknown function. -/
theorem registered_documented : ∀ n ∈ Generated.registry, n ∈ Generated.documented := by
  decide +kernel

/-- The documented list has 156 entries, as many as its heading announces, and no entry twice. -/
theorem documented_count :
    Generated.documented.length = 156 ∧ Generated.documentedHeadingCount = 156 ∧
    Generated.documented.Nodup := by
  decide +kernel

/-- Every documented name resolves in `call_function`: with no custom function of that name the
    lookup does not end in `#NAME?` (it reaches the registered builtin). -/
theorem documented_resolves (env : Env) (n : String) (hn : n ∈ Generated.documented)
    (args : List Value) (log : Log) (hc : env.custom n.toList = none) :
    (callFunction env n.toList args log).1 ≠ .error (.xl .name) := by
  have hreg : Builtins.isRegistered n = true := by
    simp only [Builtins.isRegistered, List.contains_eq_mem, decide_eq_true_eq]
    exact documented_registered n hn
  unfold callFunction
  simp only [hc, String.ofList_toList, hreg, if_true]
  cases Builtins.model? n with
  | none => simp
  | some b =>
    simp only
    cases b args with
    | error e => simp
    | ok v => by_cases hv : isNoOpinion v = true <;> simp [hv]

/-- `TRUE`, `FALSE` and `NULL` are predefined (Python `True`, `False`, `None`), and nothing else is. -/
theorem predefined_true_false_null :
    predefined "TRUE".toList = some (.bool true) ∧ predefined "FALSE".toList = some (.bool false) ∧
    predefined "NULL".toList = some .blank ∧
    Generated.predefinedVars.map (·.1) = ["FALSE", "NULL", "TRUE"] := by
  refine ⟨by rfl, by rfl, by rfl, by decide +kernel⟩

/-- No other name is predefined. -/
theorem predefined_only (n : List Char) (h : predefined n ≠ none) :
    n = "TRUE".toList ∨ n = "FALSE".toList ∨ n = "NULL".toList := by
  unfold predefined at h
  cases hf : Generated.predefinedVars.find? (fun p => p.1.toList = n) with
  | none => simp [hf] at h
  | some p =>
    have hm := List.mem_of_find?_eq_some hf
    have hp := List.find?_some hf
    simp only [decide_eq_true_eq] at hp
    subst hp
    simp only [Generated.predefinedVars, List.mem_cons, List.not_mem_nil, or_false] at hm
    rcases hm with rfl | rfl | rfl
    · exact .inr (.inl rfl)
    · exact .inr (.inr rfl)
    · exact .inl rfl

/-! ### 2. variables -/

/-- `call_variable` of a name that was set returns exactly the stored value (one `callVariable`
    event). -/
theorem variable_resolves (env : Env) (name : List Char) (v : Value) (log : Log)
    (h : env.vars name = some v) : callVariable env name log = (.ok v, log ++ [.var name]) := by
  simp [callVariable, h]

/-- `call_variable` of a name that was never set and is not predefined raises `#NAME?`. -/
theorem unknown_variable (env : Env) (name : List Char) (log : Log)
    (h : env.vars name = none) (hp : predefined name = none) :
    callVariable env name log = (.error (.xl .name), log ++ [.var name]) := by
  simp [callVariable, h, hp]

/-- a predefined name that was not overwritten resolves to its predefined value -/
theorem predefined_variable (env : Env) (name : List Char) (v : Value) (log : Log)
    (h : env.vars name = none) (hp : predefined name = some v) :
    callVariable env name log = (.ok v, log ++ [.var name]) := by
  simp [callVariable, h, hp]

/-- Lexing: a name of the variable shape is exactly one `VARIABLE` token that carries the whole name
    (WHITESPACE, STRING, FUNCTION, XLERROR and the three cell rules, which precede VARIABLE in the
    generated rule order, do not match at its start), so the formula that consists of the name is
    the variable node of that name.  All shaped names: any length, digits anywhere the shape allows. -/
theorem shaped_name_is_variable (n : List Char) (h : VariableShaped n = true) :
    tokenize n = [⟨.VARIABLE, n⟩] ∧ parseFormula n = .ok (.var [n]) :=
  ⟨tokenize_shaped h, parseFormula_shaped h⟩

/-- the record and the log of a formula that parses to the variable node `n` -/
theorem parseTop_var (env : Env) (n : List Char) (hp : parseFormula n = .ok (.var [n])) :
    parseTop env n = (finish (callVariable env n []).1, (callVariable env n []).2) := by
  have hne : n.isEmpty = false := by
    cases n with
    | nil =>
      have h0 : parseFormula [] = .error .syntax := rfl
      rw [h0] at hp
      cases hp
    | cons => rfl
  simp [parseTop, hne, hp, evalExpr]

/-- After a variable is set, the formula consisting of its name evaluates to exactly that value:
    `finish (.ok v)` is the record `{result: v, error: None}` (for `None` the result is `None`, for
    an error value the record reports its code); `callVariable` is emitted once. -/
theorem variable_formula (env : Env) (n : List Char) (v : Value)
    (hs : VariableShaped n = true) (hv : env.vars n = some v) :
    parseTop env n = (finish (.ok v), [.var n]) := by
  rw [parseTop_var env n (parseFormula_shaped hs), variable_resolves env n v [] hv]
  rfl

/-- The same with `set_variable` spelled out: whatever the environment held before. -/
theorem set_variable_formula (env : Env) (n : List Char) (v : Value) (hs : VariableShaped n = true) :
    parseTop (setVariable env n v) n = (finish (.ok v), [.var n]) :=
  variable_formula _ n v hs (by simp [setVariable])

/-- Setting one variable does not change what another name resolves to. -/
theorem set_variable_other (env : Env) (n m : List Char) (v : Value) (hm : m ≠ n) (log : Log) :
    callVariable (setVariable env n v) m log = callVariable env m log := by
  simp [callVariable, setVariable, hm]

/-- A formula that consists of a name (of the variable shape) that was never set and is not
    predefined evaluates to `#NAME?`: result `None`, error `#NAME?` — not a value, not a blank. -/
theorem unknown_variable_formula (env : Env) (n : List Char)
    (hs : VariableShaped n = true) (hv : env.vars n = none) (hp : predefined n = none) :
    parseTop env n = ({ result := none, error := some .name }, [.var n]) := by
  rw [parseTop_var env n (parseFormula_shaped hs), unknown_variable env n [] hv hp]
  simp [finish, toErr_name]

/-- The formulas `TRUE`, `FALSE`, `NULL` evaluate to `True`, `False`, `None` (when not overwritten). -/
theorem predefined_formulas (env : Env)
    (h1 : env.vars "TRUE".toList = none) (h2 : env.vars "FALSE".toList = none)
    (h3 : env.vars "NULL".toList = none) :
    parseTop env "TRUE".toList = ({ result := some (.bool true), error := none }, [.var "TRUE".toList]) ∧
    parseTop env "FALSE".toList = ({ result := some (.bool false), error := none }, [.var "FALSE".toList]) ∧
    parseTop env "NULL".toList = ({ result := none, error := none }, [.var "NULL".toList]) := by
  obtain ⟨p1, p2, p3, _⟩ := predefined_true_false_null
  refine ⟨?_, ?_, ?_⟩
  · rw [parseTop_var env _ (parseFormula_shaped (by decide)), predefined_variable env _ _ [] h1 p1]; rfl
  · rw [parseTop_var env _ (parseFormula_shaped (by decide)), predefined_variable env _ _ [] h2 p2]; rfl
  · rw [parseTop_var env _ (parseFormula_shaped (by decide)), predefined_variable env _ _ [] h3 p3]; rfl

/-! ### 3. custom functions -/

/-- the value of a call of a host function: what it returned, or the error value that stands for
    the exception it raised -/
def hostValue (r : Except Exn Value) : Value :=
  match r with
  | .ok v => v
  | .error x => .err x.toErr

/-- A registered custom function is called with the given argument values and the value of the call
    is its result; the log gains exactly one entry, `.fn name args` (one event = one call).
    (`.unmodelled` is the model's marker for builtins outside the modelled families; a host function
    never produces it.) -/
theorem custom_call (env : Env) (name : List Char) (f : HostFn) (args : List Value) (log : Log)
    (h : env.custom name = some f) (hu : f args ≠ .error .unmodelled) :
    callFunction env name args log = (.ok (hostValue (f args)), log ++ [.fn name args]) := by
  unfold callFunction
  simp only [h]
  rcases hf : f args with x | v
  · cases x with
    | unmodelled => exact absurd hf hu
    | xl e => simp [hostValue]
    | py m => simp [hostValue]
  · simp [hostValue]

/-- Its return value is the call's value. -/
theorem custom_call_returns (env : Env) (name : List Char) (f : HostFn) (args : List Value) (log : Log)
    (v : Value) (h : env.custom name = some f) (hf : f args = .ok v) :
    callFunction env name args log = (.ok v, log ++ [.fn name args]) := by
  unfold callFunction
  simp [h, hf]

/-- A custom function takes precedence over a builtin of the same name: when `self.functions` has
    the name, the result of the call is determined by the custom function alone, whether or not the
    name is registered (the registry is not consulted). -/
theorem custom_shadows_builtin (env : Env) (name : List Char) (f : HostFn) (args : List Value) (log : Log)
    (v : Value) (_hreg : Builtins.isRegistered (String.ofList name) = true)
    (h : env.custom name = some f) (hf : f args = .ok v) :
    callFunction env name args log = (.ok v, log ++ [.fn name args]) :=
  custom_call_returns env name f args log v h hf

/-- Arguments are evaluated left to right, each exactly once, the log threading through. -/
theorem args_in_order (env : Env) (e : Expr) (es : List Expr) (log l1 l2 : Log) (v : Value) (vs : List Value)
    (he : evalExpr env e log = (.ok v, l1)) (hes : evalList env es l1 = (.ok vs, l2)) :
    evalList env (e :: es) log = (.ok (v :: vs), l2) := by
  simp [evalList, he, hes]

/-- A call site `name(a…)` of a custom function: the arguments are evaluated first (left to right;
    `l2` is the log after them, it extends `log` by the arguments' events, of which exactly
    one per call site inside the arguments is a function call), then the function is called ONCE with
    the evaluated arguments in order, and its return value is the value of the call site. -/
theorem call_once (env : Env) (name : List Char) (kind : SeqKind) (a b : List Expr) (f : HostFn)
    (log l1 l2 : Log) (av bv : List Value) (v : Value)
    (hc : env.custom name = some f)
    (ha : evalList env a log = (.ok av, l1)) (hb : evalList env b l1 = (.ok bv, l2))
    (hf : f (seqValues kind av bv) = .ok v) :
    evalExpr env (.call name kind a b) log = (.ok v, l2 ++ [.fn name (seqValues kind av bv)]) ∧
    Grows (callSitesL a + callSitesL b) log l2 := by
  constructor
  · simp only [evalExpr, ha, hb]
    exact custom_call_returns env name f _ l2 v hc hf
  · exact ((grows_callSites env).2 a log av l1 ha).trans ((grows_callSites env).2 b l1 bv l2 hb)

/-- Once per call site, for whole trees: when an expression evaluates normally, the log is extended
    (never rewritten) and the number of function-call events added equals the number of call sites
    of the tree — nested call sites included, each exactly once. -/
theorem calls_once_per_site (env : Env) (e : Expr) (log log' : Log) (v : Value)
    (h : evalExpr env e log = (.ok v, log')) :
    ∃ evs, log' = log ++ evs ∧ countFn evs = callSites e :=
  (grows_callSites env).1 e log v log' h

/-! ### 4. unknown functions -/

/-- A call of a name that is neither a custom function nor registered raises `#NAME?`; nothing is
    called (the log is unchanged). -/
theorem unknown_function (env : Env) (name : List Char) (args : List Value) (log : Log)
    (hc : env.custom name = none) (hr : Builtins.isRegistered (String.ofList name) = false) :
    callFunction env name args log = (.error (.xl .name), log) := by
  unfold callFunction
  simp [hc, hr]

/-- The record of an evaluation that raised `#NAME?`: result `None`, error `#NAME?`. -/
theorem name_record : finish (.error (.xl .name)) = { result := none, error := some .name } := by
  simp [finish, toErr_name]

/-- Abort propagation, in general: an exception raised by a sub-expression in ANY context (no bound
    on depth) reaches the root unchanged, provided everything evaluated before it evaluated normally;
    what stands after the hole is never evaluated (the log is the one of the moment of the raise). -/
theorem abort_propagates (env : Env) (c : Ctx) (e : Expr) (x : Exn) (log logH l : Log)
    (hb : c.before env log = some logH) (he : evalExpr env e logH = (.error x, l)) :
    evalExpr env (c.fill e) log = (.error x, l) :=
  abort_in_context env e x l c log logH hb he

/-- A call of an unknown function at any position of a formula: if everything that is evaluated
    before it (the context's earlier parts and the call's own arguments) evaluates normally, the whole
    expression raises `#NAME?` and the record is `{result: None, error: '#NAME?'}` — never a value,
    never a silent blank. -/
theorem unknown_function_aborts (env : Env) (c : Ctx) (name : List Char) (kind : SeqKind) (a b : List Expr)
    (log logH l1 l2 : Log) (av bv : List Value)
    (hc : env.custom name = none) (hr : Builtins.isRegistered (String.ofList name) = false)
    (hbefore : c.before env log = some logH)
    (ha : evalList env a logH = (.ok av, l1)) (hb : evalList env b l1 = (.ok bv, l2)) :
    evalExpr env (c.fill (.call name kind a b)) log = (.error (.xl .name), l2) ∧
    finish (evalExpr env (c.fill (.call name kind a b)) log).1 = { result := none, error := some .name } := by
  have he : evalExpr env (.call name kind a b) logH = (.error (.xl .name), l2) := by
    simp only [evalExpr, ha, hb]
    exact unknown_function env name _ l2 hc hr
  have := abort_in_context env _ _ _ c log logH hbefore he
  exact ⟨this, by rw [this]; exact name_record⟩

/-- The same for a reference to an unknown variable at any position. -/
theorem unknown_variable_aborts (env : Env) (c : Ctx) (n : List Char) (log logH : Log)
    (hv : env.vars n = none) (hp : predefined n = none)
    (hbefore : c.before env log = some logH) :
    evalExpr env (c.fill (.var [n])) log = (.error (.xl .name), logH ++ [.var n]) ∧
    finish (evalExpr env (c.fill (.var [n])) log).1 = { result := none, error := some .name } := by
  have he : evalExpr env (.var [n]) logH = (.error (.xl .name), logH ++ [.var n]) := by
    simp only [evalExpr, List.headD_cons]
    exact unknown_variable env n logH hv hp
  have := abort_in_context env _ _ _ c log logH hbefore he
  exact ⟨this, by rw [this]; exact name_record⟩

/-- At the level of `Parser.parse`: a formula whose tree has a call of an unknown function at any
    position (everything before it evaluating normally) returns `{result: None, error: '#NAME?'}`. -/
theorem unknown_function_formula (env : Env) (s : List Char) (c : Ctx) (name : List Char) (kind : SeqKind)
    (a b : List Expr) (logH l1 l2 : Log) (av bv : List Value)
    (hparse : parseFormula s = .ok (c.fill (.call name kind a b)))
    (hc : env.custom name = none) (hr : Builtins.isRegistered (String.ofList name) = false)
    (hbefore : c.before env [] = some logH)
    (ha : evalList env a logH = (.ok av, l1)) (hb : evalList env b l1 = (.ok bv, l2)) :
    parseTop env s = ({ result := none, error := some .name }, l2) := by
  have hne : s.isEmpty = false := by
    cases s with
    | nil =>
      have h0 : parseFormula [] = .error .syntax := rfl
      rw [h0] at hparse
      cases hparse
    | cons => rfl
  have h := (unknown_function_aborts env c name kind a b [] logH l1 l2 av bv hc hr hbefore ha hb).1
  simp only [parseTop, hne, hparse, h]
  simp [name_record]

/-! ### 5. route independence: a call is handed the VALUES of its arguments

  "called with the evaluated arguments in order": what a call evaluates to is a function of the values
  its argument expressions yield.  Whether a value was bound to a variable, answered by the host for a
  cell, returned by a custom function or written as a literal makes no difference to the call — the
  model-side statement of what the route layer of the harness (DESIGN.md 1.7) checks on the real code. -/

/-- Two calls of the same name whose argument expressions yield the same values, one by one, give
    the same record — whatever the expressions are, whatever they log and from whichever log the
    two evaluations start. -/
theorem call_sees_argument_values (env : Env) (name : List Char) (kind : SeqKind)
    {a a' b b' : List Expr} {av bv : List Value} (log log' : Log)
    (ha : Routes.Yield env a av) (ha' : Routes.Yield env a' av)
    (hb : Routes.Yield env b bv) (hb' : Routes.Yield env b' bv) :
    finish (evalExpr env (.call name kind a b) log).1 = finish (evalExpr env (.call name kind a' b') log').1 := by
  rw [ErrorFlow.evalExpr_fst, ErrorFlow.evalExpr_fst, Routes.call_congr env name kind ha ha' hb hb']

/-- The three host routes yield the host's value: a registered variable, a cell the listener
    answers, a custom function without arguments. -/
theorem host_routes_yield (env : Env) {n f l : List Char} {v : Value} {g : HostFn}
    {row col : Cell.ParsedLabel}
    (hv : env.vars n = some v) (hf : env.custom f = some g) (hg : g [] = .ok v)
    (hl : Cell.extractLabel (Cell.upper l) = some (row, col)) (hc : env.cellValue (Cell.upper l) = v) :
    ErrorFlow.outcome env (.var [n]) = .ok v ∧ ErrorFlow.outcome env (.call f .empty [] []) = .ok v ∧
      ErrorFlow.outcome env (.cell l) = .ok v :=
  ⟨Routes.var_route hv [], Routes.hostfn_route hf hg, by rw [Routes.cell_route hl, hc]⟩

/-- The same at the level of formula TEXT: two formulas that parse to calls of the same name whose
    argument expressions yield the same values are reported with the same record by `Parser.parse`. -/
theorem routed_formulas_agree (env : Env) {s s' : List Char} {name : List Char} {kind : SeqKind}
    {a a' b b' : List Expr} {av bv : List Value}
    (hs : parseFormula s = .ok (.call name kind a b)) (hs' : parseFormula s' = .ok (.call name kind a' b'))
    (ha : Routes.Yield env a av) (ha' : Routes.Yield env a' av)
    (hb : Routes.Yield env b bv) (hb' : Routes.Yield env b' bv) :
    (parseTop env s).1 = (parseTop env s').1 := by
  have hne : ∀ {t : List Char} {x : Expr}, parseFormula t = .ok x → t.isEmpty = false := by
    intro t x h
    cases t with
    | nil =>
      have h0 : parseFormula [] = .error .syntax := rfl
      rw [h0] at h
      cases h
    | cons => rfl
  simp only [parseTop, hne hs, hne hs', hs, hs']
  exact call_sees_argument_values env name kind [] [] ha ha' hb hb'

/-! ### non-vacuity -/

section Examples

private def nosuch : List Char := "NOSUCH".toList
private def one : Expr := .num (.int ['1'])
private def two : Expr := .num (.int ['2'])
private def isName (r : Record × Log) : Bool :=
  r.1.error == some .name && r.1.result.isNone

/-- hypotheses of `variable_formula` / `unknown_variable_formula`: names with digits and
    underscores, names of builtins, names that extend a predefined one -/
example : VariableShaped "rate_x1".toList = true ∧ VariableShaped "SUM".toList = true ∧
    VariableShaped "TRUEx".toList = true ∧ VariableShaped "_x".toList = true ∧
    VariableShaped "a_1b2".toList = true ∧ VariableShaped "x".toList = true ∧
    -- not in the domain: shaped like (the start of) a cell reference, dotted, digit after `_x`
    VariableShaped "A1".toList = false ∧ VariableShaped "ab12_c".toList = false ∧
    VariableShaped "a.b".toList = false ∧ VariableShaped "_x1".toList = false ∧
    VariableShaped "".toList = false := by decide

/-- the lexer lemma agrees with running the lexer -/
example : tokenize "rate_x1".toList = [⟨.VARIABLE, "rate_x1".toList⟩] := by decide +kernel

example : (parseTop (setVariable Env.empty "SUM".toList (.num (.int 7))) "SUM".toList) =
    (finish (.ok (.num (.int 7))), [.var "SUM".toList]) :=
  set_variable_formula _ _ _ (by decide)

example : predefined "TRUEx".toList = none ∧ predefined "true".toList = none := by decide +kernel

example : parseTop Env.empty "TRUEx".toList = ({ result := none, error := some .name }, [.var "TRUEx".toList]) :=
  unknown_variable_formula _ _ (by decide) rfl (by decide +kernel)

/-- `NOSUCH` is neither custom nor registered in the empty environment -/
example : Env.empty.custom nosuch = none ∧ Builtins.isRegistered (String.ofList nosuch) = false :=
  ⟨rfl, by decide +kernel⟩

/-- `NOSUCH(1)+1`: hole = left operand of `+` -/
example : parseTop Env.empty "NOSUCH(1)+1".toList = ({ result := none, error := some .name }, []) :=
  unknown_function_formula Env.empty _ (.binL .add .hole one) nosuch .flat [one] [] [] [] [] [.num (.int 1)] []
    (by rfl) rfl (by decide +kernel) rfl (by rfl) rfl

/-- `SUM(NOSUCH(1),2)`: hole = first argument of a builtin -/
example : parseTop Env.empty "SUM(NOSUCH(1),2)".toList = ({ result := none, error := some .name }, []) :=
  unknown_function_formula Env.empty _ (.callA "SUM".toList .flat [] .hole [two] []) nosuch .flat [one] []
    [] [] [] [.num (.int 1)] [] (by rfl) rfl (by decide +kernel) rfl (by rfl) rfl

/-- `IFERROR(NOSUCH(1),0)`: the trapping function never sees the call -/
example : parseTop Env.empty "IFERROR(NOSUCH(1),0)".toList = ({ result := none, error := some .name }, []) :=
  unknown_function_formula Env.empty _ (.callA "IFERROR".toList .flat [] .hole [.num (.int ['0'])] []) nosuch
    .flat [one] [] [] [] [] [.num (.int 1)] [] (by rfl) rfl (by decide +kernel) rfl (by rfl) rfl

/-- the same three and deeper positions, by running the model: right operand, under unary minus,
    nested argument, array element, after a variable event -/
example : isName (parseTop Env.empty "NOSUCH(1)+1".toList) = true ∧
    isName (parseTop Env.empty "SUM(NOSUCH(1),2)".toList) = true ∧
    isName (parseTop Env.empty "IFERROR(NOSUCH(1),0)".toList) = true ∧
    isName (parseTop Env.empty "1+2*-NOSUCH()".toList) = true ∧
    isName (parseTop Env.empty "IF(TRUE,SUM(1,{2,NOSUCH(3)}),4)".toList) = true ∧
    isName (parseTop Env.empty "ISERROR(nosuchvar)".toList) = true := by
  decide +kernel

/-- a context of depth 3 whose "before" part contains a variable reference: `TRUE&(-SUM(2,NOSUCH()))` -/
example : (Ctx.binR .amp (.var ["TRUE".toList]) (.neg (.callA "SUM".toList .flat [two] .hole [] []))).before
    Env.empty [] = some [.var "TRUE".toList] := by rfl

/-- a custom `SUM` shadows the builtin: `SUM(1,2)` is what the custom function returns (42), and it
    is called once with the two evaluated arguments -/
example :
    let env := setFunction Env.empty "SUM".toList (fun _ => .ok (.num (.int 42)))
    (match parseTop env "SUM(1,2)".toList with
     | ({ result := some (.num (.int 42)), error := none }, [.fn n [.num (.int 1), .num (.int 2)]]) => n == "SUM".toList
     | _ => false) = true ∧
    -- without the custom function the builtin answers 3
    (match parseTop Env.empty "SUM(1,2)".toList with
     | ({ result := some (.num (.int 3)), error := none }, [.fn _ _]) => true
     | _ => false) = true := by
  decide +kernel

/-- nested call sites are called in post-order, once each: `F(G(1),G(2))` with `F`, `G` returning
    their argument lists -/
example :
    let env := setFunction (setFunction Env.empty ['F'] (fun a => .ok (.arr a))) ['G'] (fun a => .ok (.arr a))
    (match (parseTop env "F(G(1),G(2))".toList).2 with
     | [.fn g1 [.num (.int 1)], .fn g2 [.num (.int 2)],
        .fn f [.arr [.num (.int 1)], .arr [.num (.int 2)]]] => g1 == ['G'] && g2 == ['G'] && f == ['F']
     | _ => false) = true := by
  decide +kernel

/-- `custom_call` / `custom_call_returns`: a host function that returns its argument list, and one
    that raises `#N/A` (the call's value is then the error value) -/
example : callFunction (setFunction Env.empty ['F'] (fun a => .ok (.arr a))) ['F'] [.num (.int 1)] [] =
    (.ok (.arr [.num (.int 1)]), [.fn ['F'] [.num (.int 1)]]) :=
  custom_call_returns _ _ (fun a => .ok (.arr a)) _ _ _ (by simp [setFunction]) rfl

example : callFunction (setFunction Env.empty ['F'] (fun _ => .error (.xl .na))) ['F'] [] [] =
    (.ok (hostValue (.error (.xl .na))), [.fn ['F'] []]) :=
  custom_call _ _ (fun _ => .error (.xl .na)) _ _ (by simp [setFunction]) (by simp)

example : hostValue (.error (.xl .na)) = .err .na := by
  simp only [hostValue]; congr 1

/-- `custom_shadows_builtin` on a registered name -/
example : callFunction (setFunction Env.empty "SUM".toList (fun _ => .ok (.num (.int 42)))) "SUM".toList
    [.num (.int 1), .num (.int 2)] [] = (.ok (.num (.int 42)), [.fn "SUM".toList [.num (.int 1), .num (.int 2)]]) :=
  custom_shadows_builtin _ _ (fun _ => .ok (.num (.int 42))) _ _ _ (by decide +kernel) (by simp [setFunction]) rfl

/-- `call_once`: `F(1,2)` after a variable event -/
example :
    let env := setFunction Env.empty ['F'] (fun a => .ok (.arr a))
    evalExpr env (.call ['F'] .flat [one, two] []) [.var ['x']] =
      (.ok (.arr [.num (.int 1), .num (.int 2)]), [.var ['x']] ++ [.fn ['F'] [.num (.int 1), .num (.int 2)]]) :=
  (call_once _ ['F'] .flat [one, two] [] (fun a => .ok (.arr a)) [.var ['x']] [.var ['x']] [.var ['x']]
    [.num (.int 1), .num (.int 2)] [] _ (by simp [setFunction]) (by rfl) (by rfl) rfl).1

/-- `calls_once_per_site`: the tree `F(G(1),{G(2)})` has three call sites and its evaluation logs
    three function-call events -/
example :
    let env := setFunction (setFunction Env.empty ['F'] (fun a => .ok (.arr a))) ['G'] (fun a => .ok (.arr a))
    let t : Expr := .call ['F'] .flat [.call ['G'] .flat [one] [], .arr .flat [.call ['G'] .flat [two] []] []] []
    callSites t = 3 ∧ countFn (evalExpr env t []).2 = 3 := by
  decide +kernel

/-- `unknown_variable_aborts`: `1+nosuch` -/
example : finish (evalExpr Env.empty ((Ctx.binR .add one .hole).fill (.var ["nosuch".toList])) []).1 =
    { result := none, error := some .name } :=
  (unknown_variable_aborts Env.empty (.binR .add one .hole) "nosuch".toList [] [] rfl (by decide +kernel) (by rfl)).2

/-- `documented_resolves`: `SUM` is documented -/
example : (callFunction Env.empty "SUM".toList [] []).1 ≠ .error (.xl .name) :=
  documented_resolves Env.empty "SUM" (by decide +kernel) [] [] rfl

/-- `abort_propagates` with an exception other than `#NAME?`: the error literal in `SUM(1,-#REF!)`
    reaches the root unchanged -/
example : evalExpr Env.empty ((Ctx.callA "SUM".toList .flat [one] (.neg .hole) [] []).fill (.errLit "#REF!".toList)) [] =
    (.error (throwErrorLit "#REF!".toList), []) :=
  abort_propagates Env.empty _ _ _ [] [] [] (by rfl) (by rfl)

/-- `call_sees_argument_values` / `host_routes_yield`: `F(x, 2)`, `F(b2, 2)` and `F(HF(), 2)` with the
    variable `x`, the cell `B2` and the custom function `HF` all carrying 5 give one record -/
example :
    let env : Env := { (setFunction (setFunction (setVariable Env.empty ['x'] (.num (.int 5))) ['F'] (fun a => .ok (.arr a)))
                        ['H', 'F'] (fun _ => .ok (.num (.int 5)))) with cellValue := fun _ => .num (.int 5) }
    finish (evalExpr env (.call ['F'] .flat [.var [['x']], two] []) []).1 =
      finish (evalExpr env (.call ['F'] .flat [.cell ['b', '2'], two] []) [.var ['y']]).1 ∧
    finish (evalExpr env (.call ['F'] .flat [.var [['x']], two] []) []).1 =
      finish (evalExpr env (.call ['F'] .flat [.call ['H', 'F'] .empty [] [], two] []) []).1 := by
  intro env
  have hx : ErrorFlow.outcome env (.var [['x']]) = .ok (.num (.int 5)) := Routes.var_route (by rfl) []
  have hc : ErrorFlow.outcome env (.cell ['b', '2']) = .ok (.num (.int 5)) := by rfl
  have hh : ErrorFlow.outcome env (.call ['H', 'F'] .empty [] []) = .ok (.num (.int 5)) :=
    Routes.hostfn_route (g := fun _ => .ok (.num (.int 5))) (by rfl) rfl
  have h2 : ErrorFlow.outcome env two = .ok (.num (.int 2)) := by rfl
  exact ⟨call_sees_argument_values env ['F'] .flat [] [.var ['y']] (av := [.num (.int 5), .num (.int 2)]) (bv := [])
            ⟨hx, h2, trivial⟩ ⟨hc, h2, trivial⟩ trivial trivial,
         call_sees_argument_values env ['F'] .flat [] [] (av := [.num (.int 5), .num (.int 2)]) (bv := [])
            ⟨hx, h2, trivial⟩ ⟨hh, h2, trivial⟩ trivial trivial⟩

end Examples

end HotXL.Props.C09
