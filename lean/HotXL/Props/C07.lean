/-
  C07 — comparisons form a consistent total order with number < text < logical.

  All theorems are about `HotXL.Ops.evalLogic` (model of `evaluate_logic` /
  `ExcelComparator` of hotxlfp/formulas/operators.py) and hold for ALL rationals, ALL
  strings and ALL date-times (no bound).  The order of the statement is defined
  independently of the comparator in `HotXL.Lemmas.Compare` (`Key`, `Key.lt`, `ordLt`,
  `ordEq`, `zeroLike`).
-/
import HotXL.Model.Operators
import HotXL.Lemmas.Compare

namespace HotXL.Props.C07
open HotXL HotXL.Ops HotXL.Compare

/-- two blanks are equal -/
theorem blank_eq_blank : cmpEq .none .none = true := by decide

/-! ### the text order is a strict total order (lexicographic by code point) -/

/-- no text is less than itself -/
theorem text_irreflexive (s : List Char) : strLt s s = false := strLt_irrefl s

/-- the text order is transitive -/
theorem text_transitive (s t u : List Char) (h1 : strLt s t = true) (h2 : strLt t u = true) :
    strLt s u = true := strLt_trans h1 h2

example : strLt "a".toList "ab".toList = true ∧ strLt "ab".toList "b".toList = true := by decide

/-- any two texts are comparable: one is less than the other or they are the same text -/
theorem text_trichotomous (s t : List Char) : strLt s t = true ∨ s = t ∨ strLt t s = true :=
  strLt_trichotomy s t

/-- the text order of the comparator is the lexicographic order of core Lean on lists of
    characters (characters ordered by code point) -/
theorem text_is_lexicographic (s t : List Char) : strLt s t = true ↔ s < t := strLt_iff_lt s t

/-! ### error operands -/

/-- an error on the left is returned, whatever the right operand is -/
theorem error_operand_left (op : CmpOp) (e : Err) (r : Value) :
    evalLogic op (.err e) r = .ok (.err e) := by
  simp [evalLogic, isErr]

/-- an error on the right is returned when the left operand is not an error -/
theorem error_operand_right (op : CmpOp) (l : Value) (e : Err) (h : isErr l = none) :
    evalLogic op l (.err e) = .ok (.err e) := by
  simp only [evalLogic, h]; simp [isErr]

example : isErr (.num (.int 3)) = none := rfl

/-- with two error operands the left one wins -/
theorem error_operand_left_first (op : CmpOp) (e f : Err) :
    evalLogic op (.err e) (.err f) = .ok (.err e) := error_operand_left op e _

/-! ### never raises, always a logical -/

/-- on scalar operands (number, date, text, logical, blank) each of the six comparison
    operators returns a logical: it never raises and never returns an error value -/
theorem never_raises {a b : Value} (ha : Scalar a) (hb : Scalar b) (op : CmpOp) :
    ∃ r : Bool, evalLogic op a b = .ok (.bool r) := by
  obtain ⟨l, g, _, _, h1, h2, h3, h4, h5, h6⟩ := evalLogic_six ha hb
  cases op
  · exact ⟨_, h2⟩
  · exact ⟨_, h1⟩
  · exact ⟨_, h5⟩
  · exact ⟨_, h4⟩
  · exact ⟨_, h3⟩
  · exact ⟨_, h6⟩

example : Scalar (.date 86400000000) ∧ Scalar .blank ∧ Scalar (.str "x".toList) := ⟨trivial, trivial, trivial⟩

/-- in particular the outcome is never a raised exception -/
theorem never_error {a b : Value} (ha : Scalar a) (hb : Scalar b) (op : CmpOp) (e : Err) :
    evalLogic op a b ≠ .error e := by
  obtain ⟨r, hr⟩ := never_raises ha hb op
  rw [hr]; intro h; cases h

/-! ### the comparator computes the described order (non-blank operands) -/

/-- `a < b` returns a logical, TRUE exactly when `a` is before `b` in the order
    number/date (numerically) < text (lexicographically) < logical (FALSE < TRUE) -/
theorem lt_result {a b : Value} (ha : Scalar a) (hb : Scalar b) (na : NonBlank a) (nb : NonBlank b) :
    ∃ l : Bool, evalLogic .lt a b = .ok (.bool l) ∧ (l = true ↔ ordLt a b) := by
  obtain ⟨x, hx⟩ := key_isSome ha na
  obtain ⟨y, hy⟩ := key_isSome hb nb
  obtain ⟨l, hl, hiff⟩ := cmpLt_key (key_eq_cvKey a ▸ hx) (key_eq_cvKey b ▸ hy)
  refine ⟨l, evalLogic_lt ha hb hl, ?_⟩
  simp only [ordLt, hx, hy]; exact hiff

/-- `a > b` returns a logical, TRUE exactly when `b` is before `a` in the order -/
theorem gt_result {a b : Value} (ha : Scalar a) (hb : Scalar b) (na : NonBlank a) (nb : NonBlank b) :
    ∃ g : Bool, evalLogic .gt a b = .ok (.bool g) ∧ (g = true ↔ ordLt b a) := by
  obtain ⟨x, hx⟩ := key_isSome ha na
  obtain ⟨y, hy⟩ := key_isSome hb nb
  obtain ⟨g, hg, hiff⟩ := cmpGt_key (key_eq_cvKey a ▸ hx) (key_eq_cvKey b ▸ hy)
  refine ⟨g, evalLogic_gt ha hb hg, ?_⟩
  simp only [ordLt, hx, hy]; exact hiff

/-- `a = b` returns a logical, TRUE exactly when both have the same rank and the same value
    (int 2 = float 2.0; a date equals the number that is its serial) -/
theorem eq_result {a b : Value} (ha : Scalar a) (hb : Scalar b) (na : NonBlank a) (nb : NonBlank b) :
    ∃ e : Bool, evalLogic .eq a b = .ok (.bool e) ∧ (e = true ↔ ordEq a b) := by
  obtain ⟨x, hx⟩ := key_isSome ha na
  obtain ⟨y, hy⟩ := key_isSome hb nb
  refine ⟨_, evalLogic_eq ha hb, ?_⟩
  simp only [ordEq, hx, hy]
  exact cmpEq_key (key_eq_cvKey a ▸ hx) (key_eq_cvKey b ▸ hy)

/-- `a < b` is TRUE iff `a` is before `b` in the described order -/
theorem lt_iff_order {a b : Value} (ha : Scalar a) (hb : Scalar b) (na : NonBlank a) (nb : NonBlank b) :
    evalLogic .lt a b = .ok (.bool true) ↔ ordLt a b := by
  obtain ⟨l, hl, hiff⟩ := lt_result ha hb na nb
  rw [hl, ← hiff]
  constructor
  · intro h; injection h with h; injection h
  · intro h; rw [h]

/-- `a > b` is TRUE iff `b` is before `a` in the described order -/
theorem gt_iff_order {a b : Value} (ha : Scalar a) (hb : Scalar b) (na : NonBlank a) (nb : NonBlank b) :
    evalLogic .gt a b = .ok (.bool true) ↔ ordLt b a := by
  obtain ⟨l, hl, hiff⟩ := gt_result ha hb na nb
  rw [hl, ← hiff]
  constructor
  · intro h; injection h with h; injection h
  · intro h; rw [h]

/-- `a = b` is TRUE iff `a` and `b` have the same rank and the same value -/
theorem eq_iff_order {a b : Value} (ha : Scalar a) (hb : Scalar b) (na : NonBlank a) (nb : NonBlank b) :
    evalLogic .eq a b = .ok (.bool true) ↔ ordEq a b := by
  obtain ⟨l, hl, hiff⟩ := eq_result ha hb na nb
  rw [hl, ← hiff]
  constructor
  · intro h; injection h with h; injection h
  · intro h; rw [h]

-- the hypotheses are satisfiable and the order is not trivial
example : ordLt (.num (.flt (-9/4))) (.num (.int 2)) := by simp [ordLt, key, Key.lt, Key.rank, Num.toRat]; grind
example : ordLt (.str "10".toList) (.str "2".toList) := by simp [ordLt, key, Key.lt, Key.rank]; decide
example : ordLt (.num (.int 1000000)) (.str []) := by simp [ordLt, key, Key.lt, Key.rank]
example : ordEq (.num (.int 2)) (.num (.flt 2)) := by simp [ordEq, key, Num.toRat]
example : ¬ ordEq (.num (.int 1)) (.bool true) := by simp [ordEq, key]
example : ¬ ordEq (.num (.int 2)) (.str "2".toList) := by simp [ordEq, key]

/-! ### numbers numerically, dates by serial, text lexicographically -/

/-- two numbers (int or float) compare by their numeric value -/
theorem numbers_order_numerically (m n : Num) :
    (evalLogic .lt (.num m) (.num n) = .ok (.bool true) ↔ Num.toRat m < Num.toRat n) ∧
    (evalLogic .gt (.num m) (.num n) = .ok (.bool true) ↔ Num.toRat n < Num.toRat m) ∧
    (evalLogic .eq (.num m) (.num n) = .ok (.bool true) ↔ Num.toRat m = Num.toRat n) := by
  refine ⟨?_, ?_, ?_⟩
  · rw [lt_iff_order (a := .num m) (b := .num n) trivial trivial trivial trivial]; simp [ordLt, key, Key.lt, Key.rank]
  · rw [gt_iff_order (a := .num m) (b := .num n) trivial trivial trivial trivial]; simp [ordLt, key, Key.lt, Key.rank]
  · rw [eq_iff_order (a := .num m) (b := .num n) trivial trivial trivial trivial]; simp [ordEq, key]

/-- two dates compare by their serial numbers, a date and a number by serial and value -/
theorem dates_order_by_serial (u v : Int) (n : Num) :
    (evalLogic .lt (.date u) (.date v) = .ok (.bool true) ↔
      Num.toRat (Dates.serialize u) < Num.toRat (Dates.serialize v)) ∧
    (evalLogic .lt (.date u) (.num n) = .ok (.bool true) ↔ Num.toRat (Dates.serialize u) < Num.toRat n) ∧
    (evalLogic .lt (.num n) (.date u) = .ok (.bool true) ↔ Num.toRat n < Num.toRat (Dates.serialize u)) ∧
    (evalLogic .eq (.date u) (.num n) = .ok (.bool true) ↔ Num.toRat (Dates.serialize u) = Num.toRat n) := by
  refine ⟨?_, ?_, ?_, ?_⟩
  · rw [lt_iff_order (a := .date u) (b := .date v) trivial trivial trivial trivial]; simp [ordLt, key, Key.lt, Key.rank]
  · rw [lt_iff_order (a := .date u) (b := .num n) trivial trivial trivial trivial]; simp [ordLt, key, Key.lt, Key.rank]
  · rw [lt_iff_order (a := .num n) (b := .date u) trivial trivial trivial trivial]; simp [ordLt, key, Key.lt, Key.rank]
  · rw [eq_iff_order (a := .date u) (b := .num n) trivial trivial trivial trivial]; simp [ordEq, key]

/-- two texts compare lexicographically by code point (numeric-looking text is text) -/
theorem text_orders_lexicographically (s t : List Char) :
    (evalLogic .lt (.str s) (.str t) = .ok (.bool true) ↔ s < t) ∧
    (evalLogic .gt (.str s) (.str t) = .ok (.bool true) ↔ t < s) ∧
    (evalLogic .eq (.str s) (.str t) = .ok (.bool true) ↔ s = t) := by
  refine ⟨?_, ?_, ?_⟩
  · rw [lt_iff_order (a := .str s) (b := .str t) trivial trivial trivial trivial]
    simp [ordLt, key, Key.lt, Key.rank, strLt_iff_lt]
  · rw [gt_iff_order (a := .str s) (b := .str t) trivial trivial trivial trivial]
    simp [ordLt, key, Key.lt, Key.rank, strLt_iff_lt]
  · rw [eq_iff_order (a := .str s) (b := .str t) trivial trivial trivial trivial]; simp [ordEq, key]

/-- FALSE < TRUE, and nothing else among logicals -/
theorem logicals_order (p q : Bool) :
    evalLogic .lt (.bool p) (.bool q) = .ok (.bool true) ↔ (p = false ∧ q = true) := by
  rw [lt_iff_order (a := .bool p) (b := .bool q) trivial trivial trivial trivial]; simp [ordLt, key, Key.lt, Key.rank]

/-! ### rank: number/date < text < logical -/

/-- every number or date is less than every text -/
theorem rank_number_text {a : Value} (ha : IsNumeric a) (s : List Char) :
    evalLogic .lt a (.str s) = .ok (.bool true) := by
  cases a <;> try exact ha.elim
  case num n =>
    rw [lt_iff_order (a := .num n) (b := .str s) trivial trivial trivial trivial]
    simp [ordLt, key, Key.lt, Key.rank]
  case date u =>
    rw [lt_iff_order (a := .date u) (b := .str s) trivial trivial trivial trivial]
    simp [ordLt, key, Key.lt, Key.rank]

/-- every text is less than every logical -/
theorem rank_text_logical (s : List Char) (p : Bool) :
    evalLogic .lt (.str s) (.bool p) = .ok (.bool true) := by
  rw [lt_iff_order (a := .str s) (b := .bool p) trivial trivial trivial trivial]
  simp [ordLt, key, Key.lt, Key.rank]

/-- every number or date is less than every logical -/
theorem rank_number_logical {a : Value} (ha : IsNumeric a) (p : Bool) :
    evalLogic .lt a (.bool p) = .ok (.bool true) := by
  cases a <;> try exact ha.elim
  case num n =>
    rw [lt_iff_order (a := .num n) (b := .bool p) trivial trivial trivial trivial]
    simp [ordLt, key, Key.lt, Key.rank]
  case date u =>
    rw [lt_iff_order (a := .date u) (b := .bool p) trivial trivial trivial trivial]
    simp [ordLt, key, Key.lt, Key.rank]

example : IsNumeric (.num (.flt (7/2))) ∧ IsNumeric (.date 0) := ⟨trivial, trivial⟩

/-! ### blanks -/

/-- a blank on the left compares as 0 against a number or a date, as empty text against
    text and as FALSE against a logical — for each of the six operators, with equal results -/
theorem blank_acts_as_left {b : Value} (hb : Scalar b) (op : CmpOp) :
    evalLogic op .blank b = evalLogic op (zeroLike b) b := by
  cases b <;> try exact hb.elim
  case num n => exact evalLogic_congr op rfl rfl rfl rfl (cmp_none_left n)
  case date us => exact evalLogic_congr op rfl rfl rfl rfl (cmp_none_left (Dates.serialize us))
  case str s => exact evalLogic_congr op rfl rfl rfl rfl (cmp_none_left_str s)
  case bool p => exact evalLogic_congr op rfl rfl rfl rfl (cmp_none_left_bool p)
  case blank => rfl

/-- the same with the blank on the right -/
theorem blank_acts_as_right {a : Value} (ha : Scalar a) (op : CmpOp) :
    evalLogic op a .blank = evalLogic op a (zeroLike a) := by
  cases a <;> try exact ha.elim
  case num n => exact evalLogic_congr op rfl rfl rfl rfl (cmp_none_right n)
  case date us => exact evalLogic_congr op rfl rfl rfl rfl (cmp_none_right (Dates.serialize us))
  case str s => exact evalLogic_congr op rfl rfl rfl rfl (cmp_none_right_str s)
  case bool p => exact evalLogic_congr op rfl rfl rfl rfl (cmp_none_right_bool p)
  case blank => rfl

/-- two blanks: equal, neither less nor greater -/
theorem blank_blank :
    evalLogic .lt .blank .blank = .ok (.bool false) ∧ evalLogic .gt .blank .blank = .ok (.bool false) ∧
    evalLogic .eq .blank .blank = .ok (.bool true) ∧ evalLogic .le .blank .blank = .ok (.bool true) ∧
    evalLogic .ge .blank .blank = .ok (.bool true) ∧ evalLogic .ne .blank .blank = .ok (.bool false) := by
  refine ⟨rfl, rfl, rfl, rfl, rfl, rfl⟩

/-! ### trichotomy, converse, derived relations, transitivity -/

/-- exactly one of three Booleans is true -/
def ExactlyOne (l e g : Bool) : Prop :=
  (l = true ∧ e = false ∧ g = false) ∨ (l = false ∧ e = true ∧ g = false) ∨
  (l = false ∧ e = false ∧ g = true)

private theorem bool_false_of_not {b : Bool} (h : ¬ b = true) : b = false := by
  cases b <;> simp at h ⊢

private theorem trichotomy_nonblank {a b : Value} (ha : Scalar a) (hb : Scalar b)
    (na : NonBlank a) (nb : NonBlank b) :
    ∃ l e g : Bool, evalLogic .lt a b = .ok (.bool l) ∧ evalLogic .eq a b = .ok (.bool e) ∧
      evalLogic .gt a b = .ok (.bool g) ∧ ExactlyOne l e g := by
  obtain ⟨x, hx⟩ := key_isSome ha na
  obtain ⟨y, hy⟩ := key_isSome hb nb
  obtain ⟨l, hl, hli⟩ := lt_result ha hb na nb
  obtain ⟨e, he, hei⟩ := eq_result ha hb na nb
  obtain ⟨g, hg, hgi⟩ := gt_result ha hb na nb
  simp only [ordLt, ordEq, hx, hy] at hli hei hgi
  refine ⟨l, e, g, hl, he, hg, ?_⟩
  rcases Key.lt_trichotomy x y with h | h | h
  · refine Or.inl ⟨hli.mpr h, bool_false_of_not ?_, bool_false_of_not ?_⟩
    · intro h'; have := hei.mp h'; subst this; exact Key.lt_irrefl x h
    · intro h'; exact Key.lt_asymm h (hgi.mp h')
  · subst h
    refine Or.inr (Or.inl ⟨bool_false_of_not ?_, hei.mpr rfl, bool_false_of_not ?_⟩)
    · intro h'; exact Key.lt_irrefl x (hli.mp h')
    · intro h'; exact Key.lt_irrefl x (hgi.mp h')
  · refine Or.inr (Or.inr ⟨bool_false_of_not ?_, bool_false_of_not ?_, hgi.mpr h⟩)
    · intro h'; exact Key.lt_asymm h (hli.mp h')
    · intro h'; have := hei.mp h'; subst this; exact Key.lt_irrefl x h

/-- for any two scalars (blanks included) `a<b`, `a=b`, `a>b` are logicals and exactly one
    of them is TRUE -/
theorem trichotomy {a b : Value} (ha : Scalar a) (hb : Scalar b) :
    ∃ l e g : Bool, evalLogic .lt a b = .ok (.bool l) ∧ evalLogic .eq a b = .ok (.bool e) ∧
      evalLogic .gt a b = .ok (.bool g) ∧ ExactlyOne l e g := by
  by_cases na : NonBlank a
  · by_cases nb : NonBlank b
    · exact trichotomy_nonblank ha hb na nb
    · have : b = .blank := by cases b <;> first | rfl | exact (nb trivial).elim
      subst this
      simp only [blank_acts_as_right ha]
      exact trichotomy_nonblank ha (zeroLike_scalar ha) na (zeroLike_nonBlank ha na)
  · have : a = .blank := by cases a <;> first | rfl | exact (na trivial).elim
    subst this
    by_cases nb : NonBlank b
    · simp only [blank_acts_as_left hb]
      exact trichotomy_nonblank (zeroLike_scalar hb) hb (zeroLike_nonBlank hb nb) nb
    · have : b = .blank := by cases b <;> first | rfl | exact (nb trivial).elim
      subst this
      exact ⟨false, true, false, rfl, rfl, rfl, Or.inr (Or.inl ⟨rfl, rfl, rfl⟩)⟩

/-- `a < b` and `b > a` give the same result, for all scalars (blanks included) -/
theorem converse {a b : Value} (ha : Scalar a) (hb : Scalar b) :
    evalLogic .lt a b = evalLogic .gt b a := by
  obtain ⟨l, hl⟩ := cmpLt_isSome (toCV_plain ha) (toCV_plain hb)
  rw [evalLogic_lt ha hb hl,
    evalLogic_gt hb ha ((cmpLt_eq_cmpGt_swap (toCV_plain ha) (toCV_plain hb)) ▸ hl)]

/-- `a < b` holds iff `b > a` holds -/
theorem lt_iff_gt {a b : Value} (ha : Scalar a) (hb : Scalar b) :
    evalLogic .lt a b = .ok (.bool true) ↔ evalLogic .gt b a = .ok (.bool true) := by
  rw [converse ha hb]

/-- `<=`, `>=` and `<>` are exactly the derived relations: `a<=b` is `a<b or a=b`,
    `a>=b` is `a>b or a=b`, `a<>b` is `not a=b` (all scalars, blanks included) -/
theorem derived {a b : Value} (ha : Scalar a) (hb : Scalar b) :
    ∃ l e g : Bool, evalLogic .lt a b = .ok (.bool l) ∧ evalLogic .eq a b = .ok (.bool e) ∧
      evalLogic .gt a b = .ok (.bool g) ∧
      evalLogic .le a b = .ok (.bool (l || e)) ∧
      evalLogic .ge a b = .ok (.bool (g || e)) ∧
      evalLogic .ne a b = .ok (.bool (!e)) := by
  obtain ⟨l, g, _, _, h1, h2, h3, h4, h5, h6⟩ := evalLogic_six ha hb
  exact ⟨l, _, g, h1, h3, h2, h4, h5, h6⟩

/-- the order is transitive on non-blank scalars: `a<b` and `b<c` imply `a<c` -/
theorem transitive {a b c : Value} (ha : Scalar a) (hb : Scalar b) (hc : Scalar c)
    (na : NonBlank a) (nb : NonBlank b) (nc : NonBlank c)
    (h1 : evalLogic .lt a b = .ok (.bool true)) (h2 : evalLogic .lt b c = .ok (.bool true)) :
    evalLogic .lt a c = .ok (.bool true) := by
  rw [lt_iff_order ha hb na nb] at h1
  rw [lt_iff_order hb hc nb nc] at h2
  rw [lt_iff_order ha hc na nc]
  exact ordLt_trans h1 h2

-- the hypotheses of `transitive` are satisfiable across the three ranks: 2 < "a" < TRUE
example : evalLogic .lt (.num (.int 2)) (.str "a".toList) = .ok (.bool true) ∧
    evalLogic .lt (.str "a".toList) (.bool true) = .ok (.bool true) :=
  ⟨rank_number_text (a := .num (.int 2)) trivial _, rank_text_logical _ _⟩

/-- equality is transitive too (non-blank scalars) -/
theorem eq_transitive {a b c : Value} (ha : Scalar a) (hb : Scalar b) (hc : Scalar c)
    (na : NonBlank a) (nb : NonBlank b) (nc : NonBlank c)
    (h1 : evalLogic .eq a b = .ok (.bool true)) (h2 : evalLogic .eq b c = .ok (.bool true)) :
    evalLogic .eq a c = .ok (.bool true) := by
  rw [eq_iff_order ha hb na nb] at h1
  rw [eq_iff_order hb hc nb nc] at h2
  rw [eq_iff_order ha hc na nc]
  obtain ⟨x, hx⟩ := key_isSome ha na
  obtain ⟨y, hy⟩ := key_isSome hb nb
  obtain ⟨z, hz⟩ := key_isSome hc nc
  simp only [ordEq, hx, hy, hz] at h1 h2 ⊢
  exact h1.trans h2

-- 2 = 2.0 = the date-time 1900-01-02T00:00 (serial 2)
example : evalLogic .eq (.num (.int 2)) (.num (.flt 2)) = .ok (.bool true) := rfl
example : evalLogic .eq (.num (.flt 2)) (.date 86400000000) = .ok (.bool true) := by
  rw [evalLogic_eq (a := .num (.flt 2)) (b := .date 86400000000) trivial trivial]
  have : cmpEq (toCV (.num (.flt 2))) (toCV (.date 86400000000)) = true := by decide +kernel
  rw [this]

/-! ### concrete instances, including the cases that were wrong before the repair -/

-- `1 = TRUE` is FALSE, `TRUE = 1` is FALSE
example : evalLogic .eq (.num (.int 1)) (.bool true) = .ok (.bool false) := by rfl
example : evalLogic .eq (.bool true) (.num (.int 1)) = .ok (.bool false) := by rfl
-- `TRUE < 3` is FALSE, `TRUE > 3` is TRUE
example : evalLogic .lt (.bool true) (.num (.int 3)) = .ok (.bool false) := by rfl
example : evalLogic .gt (.bool true) (.num (.int 3)) = .ok (.bool true) := by rfl
-- `2 < "a"`, `"a" < TRUE` and `2 < TRUE`
example : evalLogic .lt (.num (.int 2)) (.str "a".toList) = .ok (.bool true) := by rfl
example : evalLogic .lt (.str "a".toList) (.bool true) = .ok (.bool true) := by rfl
example : evalLogic .lt (.num (.int 2)) (.bool true) = .ok (.bool true) := by rfl
-- a date is less than a logical: `DATE(..) < TRUE` (any date)
example (us : Int) : evalLogic .lt (.date us) (.bool true) = .ok (.bool true) :=
  rank_number_logical (a := .date us) trivial true
-- numeric-looking text is text: `10 < "2"`, `"10" < "2"`, `"" < "a"`
example : evalLogic .lt (.num (.int 10)) (.str "2".toList) = .ok (.bool true) := by rfl
example : evalLogic .lt (.str "10".toList) (.str "2".toList) = .ok (.bool true) := by rfl
example : evalLogic .lt (.str []) (.str "a".toList) = .ok (.bool true) := by rfl
-- negative and fractional numbers: `-2.25 < -1`, `2 = 2.0`
example : evalLogic .lt (.num (.flt (-9/4))) (.num (.int (-1))) = .ok (.bool true) := by
  rw [(numbers_order_numerically _ _).1]; simp only [Num.toRat]; grind
example : evalLogic .eq (.num (.int 2)) (.num (.flt 2)) = .ok (.bool true) := by rfl
-- blanks: blank = 0, blank = "", blank = FALSE, blank < 1, blank > -1, blank < TRUE
example : evalLogic .eq .blank (.num (.int 0)) = .ok (.bool true) := by rfl
example : evalLogic .eq .blank (.str []) = .ok (.bool true) := by rfl
example : evalLogic .eq .blank (.bool false) = .ok (.bool true) := by rfl
example : evalLogic .lt .blank (.num (.int 1)) = .ok (.bool true) := by rfl
example : evalLogic .gt .blank (.num (.int (-1))) = .ok (.bool true) := by rfl
example : evalLogic .lt .blank (.bool true) = .ok (.bool true) := by rfl
-- the date 1900-01-01 (serial 0 in the code) equals a blank
example : evalLogic .eq (.date 0) .blank = .ok (.bool true) := by rfl

end HotXL.Props.C07
