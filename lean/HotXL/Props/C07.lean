/-
  C07 — comparisons form a consistent total order with number < text < logical.
-/
import HotXL.Model.Operators

namespace HotXL.Props.C07
open HotXL HotXL.Ops

/-- two blanks are equal -/
theorem blank_eq_blank : cmpEq .none .none = true := by decide

end HotXL.Props.C07
