/-
  C04 — precedence, associativity and parentheses determine expression structure.
-/
import HotXL.Model.Syntax

namespace HotXL.Props.C04
open HotXL HotXL.Syntax

/-- level of a binary operator in the generated table (0 = not in the table) -/
def lvl (op : BinOp) : Nat := ((binLevel op).map (·.1)).getD 0
/-- is the operator declared left-associative in the generated table? -/
def isLeft (op : BinOp) : Bool := (binLevel op).map (·.2) = some Assoc.left

/-- the generated precedence table has the shape the statement requires: every comparison is
    looser than `+ -` and than `&`; `+ -` share a level, `* /` share a tighter level; unary minus
    is tighter than every binary operator; all binary operators are in the table and
    left-associative -/
theorem table_shape :
    (∀ c ∈ [BinOp.eq, .ne, .lt, .gt, .le, .ge], ∀ a ∈ [BinOp.add, .sub, .mul, .div, .amp], lvl c < lvl a) ∧
    lvl .add = lvl .sub ∧ lvl .mul = lvl .div ∧ lvl .add < lvl .mul ∧
    (∀ op ∈ [BinOp.add, .sub, .mul, .div, .amp, .eq, .ne, .lt, .gt, .le, .ge],
        0 < lvl op ∧ lvl op < uminusLevel ∧ isLeft op = true) := by
  decide +kernel

end HotXL.Props.C04
