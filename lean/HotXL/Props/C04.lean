/-
  C04 — precedence, associativity and parentheses determine expression structure.

  The objects: expression trees (`Syntax.Expr`) built from leaves (number literals in the five
  forms of `p_expression_number`, strings, error literals, `F()`, variables, cells, ranges),
  unary minus and the eleven binary operators; token lists that spell such a tree
  (`Syntax.RendersAt`, `Syntax.Renders` — ANY amount of redundant parentheses around ANY
  sub-expression; `renderMin` — only the parentheses the generated precedence table makes
  necessary; `renderFull` — parentheses around every operand that is not a leaf); the model of the
  ply parser `Syntax.parseTokens` (precedence climbing with a fuel argument, driven by
  `HotXL.Generated.precedence`) and the evaluator `Eval.evalExpr`.

  Every theorem below that depends on the precedence table goes through `table_shape`,
  `Syntax.table_left` or `Syntax.table_below_uminus`, which are `decide +kernel` facts about
  `HotXL.Generated.precedence`: when the generated table changes so that an operator leaves the
  table, stops being left-associative, climbs above unary minus, or the order
  comparisons < `+ -` < `* /`, comparisons < `&` is disturbed, these proofs break.
-/
import HotXL.Model.Eval
import HotXL.Model.Render
import HotXL.Lemmas.Syntax

namespace HotXL.Props.C04
open HotXL HotXL.Lexer HotXL.Syntax

/-- the generated precedence table has the shape the statement requires: every comparison is
    looser than `+ -` and than `&`; `+ -` share a level, `* /` share a tighter level; unary minus
    is tighter than every binary operator; all binary operators are in the table and
    left-associative -/
theorem table_shape :
    (∀ c ∈ [BinOp.eq, .ne, .lt, .gt, .le, .ge], ∀ a ∈ [BinOp.add, .sub, .mul, .div, .amp], lvl c < lvl a) ∧
    lvl .add = lvl .sub ∧ lvl .mul = lvl .div ∧ lvl .add < lvl .mul ∧
    (∀ op ∈ [BinOp.add, .sub, .mul, .div, .amp, .eq, .ne, .lt, .gt, .le, .ge],
        0 < lvl op ∧ lvl op < uminusLevel ∧ isLeft op = true) := by
  decide +kernel

/-! ### fuel -/

/-- Fuel monotonicity: if the expression parser succeeds with fuel `f`, it succeeds with the same
    tree and the same remaining tokens with every larger fuel (the same holds for the other four
    functions of the mutual block: `Syntax.mono_all`). -/
theorem fuel_monotone {f f' m : Nat} {ts : List Token} {v : Expr × List Token}
    (h : parseExpr f m ts = .ok v) (hle : f ≤ f') : parseExpr f' m ts = .ok v :=
  parseExpr_mono h hle

/-- Fuel bound: for every rendering `ts` of a tree `t` (of any shape and depth), fuel
    `2 * length ts + 1` is enough for the expression parser to consume all of `ts` and build `t`;
    `parseTokens` runs with `3 * length ts + 3`. -/
theorem fuel_sufficient {t : Expr} {ts : List Token} (h : Renders t ts) (f : Nat)
    (hf : 2 * ts.length + 1 ≤ f) : parseExpr f 0 ts = .ok (t, []) := by
  have h1 : parseExpr f 0 (ts ++ []) = .ok (t, []) :=
    parseExpr_rendersAt h 0 (Nat.le_refl _) [] trivial 1 (t, []) (by simp [parseLoop]) f (by omega)
  simpa using h1

/-! ### the round trip -/

/-- Parsing any rendering of a tree gives back exactly that tree — whatever redundant parentheses
    the rendering carries, whatever the shape and depth of the tree.  (The structure of the parsed
    expression is determined by levels, left-to-right grouping and parentheses alone.) -/
theorem parse_renders (t : Expr) (toks : List Token) (h : Renders t toks) : parseTokens toks = .ok t :=
  parseTokens_renders h

/-- The minimally parenthesised rendering (parentheses only around a left operand of lower level,
    a right operand of lower or equal level, and a binary operand of unary minus) parses to the
    tree it was printed from. -/
theorem parse_renderMin (t : Expr) (h : WellFormedTree t = true) : parseTokens (renderMin t) = .ok t :=
  parse_renders t _ (renderMin_renders t h)

/-- The fully parenthesised rendering parses to the tree it was printed from. -/
theorem parse_renderFull (t : Expr) (h : WellFormedTree t = true) : parseTokens (renderFull t) = .ok t :=
  parse_renders t _ (renderFull_renders t h).1

/-- `renderMin` and `renderFull` are renderings in the sense of `Renders` (so the general theorem
    applies to them), and wrapping a whole rendering in parentheses gives a rendering again. -/
theorem printers_render (t : Expr) (h : WellFormedTree t = true) :
    Renders t (renderMin t) ∧ Renders t (renderFull t) ∧
    Renders t (lparTok :: renderMin t ++ [rparTok]) :=
  ⟨renderMin_renders t h, (renderFull_renders t h).1, .paren _ _ (renderMin_renders t h)⟩

/-- Redundant parentheses never change the structure: the minimal and the full rendering of a
    tree parse to the same tree. -/
theorem paren_transparent (t : Expr) (h : WellFormedTree t = true) :
    parseTokens (renderMin t) = parseTokens (renderFull t) := by
  rw [parse_renderMin t h, parse_renderFull t h]

/-- Any two renderings of the same tree parse alike. -/
theorem renderings_agree (t : Expr) (ts ts' : List Token) (h : Renders t ts) (h' : Renders t ts') :
    parseTokens ts = parseTokens ts' := by
  rw [parse_renders t ts h, parse_renders t ts' h']

/-! ### values -/

/-- parse a token list and evaluate the tree (with an empty event log), as `Parser.parse` does -/
def evalTokens (env : Eval.Env) (toks : List Token) : PRes (Except Eval.Exn Value × Eval.Log) :=
  match parseTokens toks with
  | .error e => .error e
  | .ok x => .ok (Eval.evalExpr env x [])

/-- The value (and event log) of any rendering of a tree is the value of the tree, in every
    environment. -/
theorem eval_renders (env : Eval.Env) (t : Expr) (toks : List Token) (h : Renders t toks) :
    evalTokens env toks = .ok (Eval.evalExpr env t []) := by
  simp [evalTokens, parse_renders t toks h]

/-- A fully parenthesised and a minimally parenthesised rendering of the same tree evaluate
    identically, namely to the value of the tree. -/
theorem eval_paren_transparent (env : Eval.Env) (t : Expr) (h : WellFormedTree t = true) :
    evalTokens env (renderMin t) = .ok (Eval.evalExpr env t []) ∧
    evalTokens env (renderFull t) = .ok (Eval.evalExpr env t []) :=
  ⟨eval_renders env t _ (renderMin_renders t h), eval_renders env t _ (renderFull_renders t h).1⟩

/-- The same at the level of `Parser.parse` (`Eval.parseTop`): if the token stream of a non-empty
    formula is a rendering of the tree `t`, the record and the event log returned for the formula
    are those of evaluating `t`. -/
theorem formula_value_is_tree_value (env : Eval.Env) (s : List Char) (t : Expr) (hs : s ≠ [])
    (h : Renders t (tokenize s)) :
    Eval.parseTop env s = (Eval.finish (Eval.evalExpr env t []).1, (Eval.evalExpr env t []).2) := by
  have hp : parseFormula s = .ok t := parse_renders t _ h
  have he : s.isEmpty = false := by cases s <;> simp_all
  simp [Eval.parseTop, he, hp]

/-! ### three operands -/

/-- an operand that binds as tightly as unary minus: a leaf, a negation, or anything in parentheses -/
def Operand (x : Expr) (tx : List Token) : Prop := RendersAt uminusLevel x tx

/-- every leaf spelling is an operand -/
theorem operand_of_atom {x : Expr} {tx : List Token} (h : AtomToks x tx) : Operand x tx := .atom h

/-- `x a y b z` with tight operands: if `b` does not bind tighter than `a` the parse is
    `(x a y) b z`, otherwise `x a (y b z)`. -/
theorem three_operands (a b : BinOp) {x y z : Expr} {tx ty tz : List Token}
    (hx : Operand x tx) (hy : Operand y ty) (hz : Operand z tz) :
    parseTokens (tx ++ opTok a :: ty ++ opTok b :: tz) =
      .ok (if lvl b ≤ lvl a then .bin b (.bin a x y) z else .bin a x (.bin b y z)) := by
  have ha := table_below_uminus a
  have hb := table_below_uminus b
  by_cases hab : lvl b ≤ lvl a
  · rw [if_pos hab]
    exact parse_renders _ _ (.bin _ (Nat.zero_le _)
      (.bin _ hab (hx.mono (by omega)) (hy.mono (by omega))) (hz.mono (by omega)))
  · rw [if_neg hab, List.append_assoc, List.cons_append]
    exact parse_renders _ _ (.bin _ (Nat.zero_le _) (hx.mono (by omega))
      (.bin _ (by omega) (hy.mono (by omega)) (hz.mono (by omega))))

/-- Operators of equal level group left to right: `x a y b z` is `(x a y) b z`. -/
theorem left_assoc (a b : BinOp) (hab : lvl a = lvl b) {x y z : Expr} {tx ty tz : List Token}
    (hx : Operand x tx) (hy : Operand y ty) (hz : Operand z tz) :
    parseTokens (tx ++ opTok a :: ty ++ opTok b :: tz) = .ok (.bin b (.bin a x y) z) := by
  rw [three_operands a b hx hy hz, if_pos (by omega)]

/-- In particular `+ -` chains and `* /` chains group left to right. -/
theorem left_assoc_additive_multiplicative {x y z : Expr} {tx ty tz : List Token}
    (hx : Operand x tx) (hy : Operand y ty) (hz : Operand z tz) :
    (∀ a ∈ [BinOp.add, .sub], ∀ b ∈ [BinOp.add, .sub],
      parseTokens (tx ++ opTok a :: ty ++ opTok b :: tz) = .ok (.bin b (.bin a x y) z)) ∧
    (∀ a ∈ [BinOp.mul, .div], ∀ b ∈ [BinOp.mul, .div],
      parseTokens (tx ++ opTok a :: ty ++ opTok b :: tz) = .ok (.bin b (.bin a x y) z)) := by
  obtain ⟨_, h1, h2, _, _⟩ := table_shape
  constructor
  · intro a ha b hb
    apply left_assoc a b _ hx hy hz
    simp only [List.mem_cons, List.not_mem_nil, or_false] at ha hb
    rcases ha with rfl | rfl <;> rcases hb with rfl | rfl <;> omega
  · intro a ha b hb
    apply left_assoc a b _ hx hy hz
    simp only [List.mem_cons, List.not_mem_nil, or_false] at ha hb
    rcases ha with rfl | rfl <;> rcases hb with rfl | rfl <;> omega

/-- `* /` bind tighter than `+ -`: `x + y * z` is `x + (y * z)` and `x * y + z` is `(x * y) + z`
    (for each of `+ -` and each of `* /`). -/
theorem mul_over_add {x y z : Expr} {tx ty tz : List Token}
    (hx : Operand x tx) (hy : Operand y ty) (hz : Operand z tz) :
    ∀ a ∈ [BinOp.add, .sub], ∀ b ∈ [BinOp.mul, .div],
      parseTokens (tx ++ opTok a :: ty ++ opTok b :: tz) = .ok (.bin a x (.bin b y z)) ∧
      parseTokens (tx ++ opTok b :: ty ++ opTok a :: tz) = .ok (.bin a (.bin b x y) z) := by
  obtain ⟨_, h1, h2, h3, _⟩ := table_shape
  intro a ha b hb
  have hlt : lvl a < lvl b := by
    simp only [List.mem_cons, List.not_mem_nil, or_false] at ha hb
    rcases ha with rfl | rfl <;> rcases hb with rfl | rfl <;> omega
  constructor
  · rw [three_operands a b hx hy hz, if_neg (by omega)]
  · rw [three_operands b a hx hy hz, if_pos (by omega)]

/-- Comparisons bind loosest: with `c` a comparison and `a` one of `+ - * / &`,
    `x a y c z` is `(x a y) c z` and `x c y a z` is `x c (y a z)`. -/
theorem cmp_loosest {x y z : Expr} {tx ty tz : List Token}
    (hx : Operand x tx) (hy : Operand y ty) (hz : Operand z tz) :
    ∀ c ∈ [BinOp.eq, .ne, .lt, .gt, .le, .ge], ∀ a ∈ [BinOp.add, .sub, .mul, .div, .amp],
      parseTokens (tx ++ opTok a :: ty ++ opTok c :: tz) = .ok (.bin c (.bin a x y) z) ∧
      parseTokens (tx ++ opTok c :: ty ++ opTok a :: tz) = .ok (.bin c x (.bin a y z)) := by
  intro c hc a ha
  have hlt : lvl c < lvl a := table_shape.1 c hc a ha
  constructor
  · rw [three_operands a c hx hy hz, if_pos (by omega)]
  · rw [three_operands c a hx hy hz, if_neg (by omega)]

/-- `&` binds tighter than every comparison: `x & y = z` is `(x & y) = z`, `x = y & z` is
    `x = (y & z)`, for each of the six comparisons. -/
theorem amp_over_cmp {x y z : Expr} {tx ty tz : List Token}
    (hx : Operand x tx) (hy : Operand y ty) (hz : Operand z tz) :
    ∀ c ∈ [BinOp.eq, .ne, .lt, .gt, .le, .ge],
      parseTokens (tx ++ opTok .amp :: ty ++ opTok c :: tz) = .ok (.bin c (.bin .amp x y) z) ∧
      parseTokens (tx ++ opTok c :: ty ++ opTok .amp :: tz) = .ok (.bin c x (.bin .amp y z)) :=
  fun c hc => cmp_loosest hx hy hz c hc .amp (by simp)

/-- Unary minus binds tightest: `- x op y` is `(- x) op y` and `x op - y` is `x op (- y)`, for
    every binary operator; in particular `- x * y` is `(- x) * y`. -/
theorem uminus_tightest (op : BinOp) {x y : Expr} {tx ty : List Token}
    (hx : Operand x tx) (hy : Operand y ty) :
    parseTokens (minusTok :: tx ++ opTok op :: ty) = .ok (.bin op (.neg x) y) ∧
    parseTokens (tx ++ opTok op :: minusTok :: ty) = .ok (.bin op x (.neg y)) := by
  have hop := table_below_uminus op
  constructor
  · exact parse_renders _ _ (.bin (tl := minusTok :: tx) _ (Nat.zero_le _) (.neg _ hx) (hy.mono (by omega)))
  · exact parse_renders _ _ (.bin _ (Nat.zero_le _) (hx.mono (by omega)) (.neg _ hy))

/-! ### non-vacuity: concrete trees of depth ≥ 3 -/

section Examples

private def n (s : String) : Expr := .num (.int s.toList)
private def v (s : String) : Expr := .var [s.toList]
private def c (s : String) : Expr := .cell s.toList
private def showToks (ts : List Token) : String := String.join (ts.map (fun t => String.ofList t.text))

/-- `-(1-x)*B2+4 < 5&(6/(7/8))`, depth 6 -/
def ex1 : Expr :=
  .bin .lt
    (.bin .add (.bin .mul (.neg (.bin .sub (n "1") (v "x"))) (c "B2")) (n "4"))
    (.bin .amp (n "5") (.bin .div (n "6") (.bin .div (n "7") (n "8"))))

/-- `1-(2-(3-(4-x)))=(A1=B2)`, right-nested same-level operators, depth 5 -/
def ex2 : Expr :=
  .bin .eq (.bin .sub (n "1") (.bin .sub (n "2") (.bin .sub (n "3") (.bin .sub (n "4") (v "x")))))
    (.bin .eq (c "A1") (c "B2"))

/-- `--(1.5+2^3*50%)/PI()`, the other literal forms, depth 5 -/
def ex3 : Expr :=
  .bin .div
    (.neg (.neg (.bin .add (.num (.dec ['1'] ['5']))
      (.bin .mul (.num (.pow ['2'] ['3'])) (.num (.pct ['5', '0']))))))
    (.call "PI".toList .empty [] [])

example : WellFormedTree ex1 = true ∧ WellFormedTree ex2 = true ∧ WellFormedTree ex3 = true := by decide
example : showToks (renderMin ex1) = "-(1-x)*B2+4<5&(6/(7/8))" := by decide +kernel
example : showToks (renderFull ex1) = "(((-(1-x))*B2)+4)<(5&(6/(7/8)))" := by decide +kernel
example : showToks (renderMin ex2) = "1-(2-(3-(4-x)))=(A1=B2)" := by decide +kernel
example : showToks (renderFull ex2) = "(1-(2-(3-(4-x))))=(A1=B2)" := by decide +kernel
example : showToks (renderMin ex3) = "--(1.5+2^3*50%)/PI()" := by decide +kernel
example : showToks (renderFull ex3) = "(-(-(1.5+(2^3*50%))))/PI()" := by decide +kernel
-- the theorems, instantiated
example : parseTokens (renderMin ex1) = .ok ex1 := parse_renderMin ex1 (by decide)
example : parseTokens (renderFull ex2) = .ok ex2 := parse_renderFull ex2 (by decide)
-- and re-computed by evaluating the model parser itself
example : parseTokens (renderMin ex1) = .ok ex1 := by rfl
example : parseTokens (renderFull ex1) = .ok ex1 := by rfl
example : parseTokens (renderMin ex2) = .ok ex2 := by rfl
example : parseTokens (renderFull ex2) = .ok ex2 := by rfl
example : parseTokens (renderMin ex3) = .ok ex3 := by rfl
example : parseTokens (renderFull ex3) = .ok ex3 := by rfl

/-- a rendering with redundant parentheses that is neither `renderMin` nor `renderFull`:
    `((1))+(((2)*x))` for the tree `1+2*x` -/
example : Renders (.bin .add (n "1") (.bin .mul (n "2") (v "x")))
    ((lparTok :: (lparTok :: [⟨.NUMBER, ['1']⟩] ++ [rparTok]) ++ [rparTok]) ++ opTok .add ::
      (lparTok :: (lparTok :: ((lparTok :: [⟨.NUMBER, ['2']⟩] ++ [rparTok]) ++ opTok .mul ::
        [⟨.VARIABLE, ['x']⟩]) ++ [rparTok]) ++ [rparTok])) :=
  .bin _ (Nat.zero_le _) (.paren _ _ (.paren _ _ (.atom (.int _))))
    (.paren _ _ (.paren _ _ (.bin _ (Nat.zero_le _) (.paren _ _ (.atom (.int _))) (.atom (.var _ .nil)))))

/-- the token stream of an actual formula string is a rendering: `Parser.parse("1+2*x")` evaluates
    the tree `1+(2*x)` -/
example : Renders (.bin .add (n "1") (.bin .mul (n "2") (v "x"))) (tokenize "1+2*x".toList) := by
  have h : tokenize "1+2*x".toList =
      [⟨.NUMBER, ['1']⟩] ++ opTok .add :: ([⟨.NUMBER, ['2']⟩] ++ opTok .mul :: [⟨.VARIABLE, ['x']⟩]) := by
    decide +kernel
  rw [h]
  exact .bin _ (Nat.zero_le _) (.atom (.int _))
    (.bin _ (by have := table_shape.2.2.2.1; omega) (.atom (.int _)) (.atom (.var _ .nil)))

/-- operands of the three-operand theorems exist: leaves, negations, parenthesised trees -/
example : Operand (n "1") [⟨.NUMBER, ['1']⟩] ∧
    Operand (.neg (v "x")) [minusTok, ⟨.VARIABLE, ['x']⟩] ∧
    Operand ex1 (lparTok :: renderMin ex1 ++ [rparTok]) :=
  ⟨.atom (.int _), .neg _ (.atom (.var _ .nil)), .paren _ _ (renderMin_renders ex1 (by decide))⟩

end Examples

end HotXL.Props.C04
