/-
  Property C17 — rounding and integer functions meet their specs; radix conversions invert.

  The theorems are about the executable model of hotxlfp/formulas/mathtrig.py and engineering.py
  (`HotXL.Fn.Round`, `HotXL.Fn.Eng`): `F [args] = .ok v` says "the call F(args) returns v"
  (`.ok (.err e)` = the error value `e`).  Numbers are exact rationals (`Num.toRat`), so the
  statements hold for ALL ints and ALL finite floats (as exact values), every `digits`, every
  significance; float rounding error is outside the model (trusted base of the harness).
  `10^-digits` is written `1 / pow10 d`, "a multiple of `10^-digits`" is `k / pow10 d`.
-/
import HotXL.Model.Builtins
import HotXL.Lemmas.Round
import HotXL.Lemmas.RoundNum
import HotXL.Lemmas.RoundRoman
import HotXL.Lemmas.RoundRomanA
import HotXL.Lemmas.RoundRomanB
import HotXL.Lemmas.RoundRomanC

namespace HotXL.Props.C17
open HotXL HotXL.Ops HotXL.Fn HotXL.Fn.Round HotXL.Lemmas.Round

/-- test helpers for the concrete examples (`Value` has no decidable equality) -/
def isInt (r : Except Err Value) (n : Int) : Bool := match r with | .ok (.num (.int m)) => m == n | _ => false
def isFlt (r : Except Err Value) (q : Rat) : Bool := match r with | .ok (.num (.flt m)) => m == q | _ => false
def isStr (r : Except Err Value) (s : String) : Bool := match r with | .ok (.str t) => t == s.toList | _ => false
def isErr (r : Except Err Value) (e : Err) : Bool := match r with | .ok (.err x) => x == e | _ => false

/-! ## the constants and tables of the source the proofs rely on (regenerated from /repo) -/

/-- the 40-bit limits of HEX2DEC / DEC2HEX / DECIMAL and the radix bounds of BASE in the source are
    2^40, 2^39, -2^39, 2 and 36 -/
theorem source_constants :
    Generated.hex2decBase = 16 ∧ Generated.hex2decZero = 0 ∧ Generated.hex2decLimit = 2 ^ 40 ∧
    Generated.hex2decWrap = 2 ^ 40 ∧ Generated.hex2decHalf = 2 ^ 39 ∧
    Generated.dec2hexLow = -(2 ^ 39) ∧ Generated.dec2hexHigh = 2 ^ 39 ∧ Generated.dec2hexWrap = 2 ^ 40 ∧
    Generated.decimalWrap = 2 ^ 40 ∧ Generated.decimalHalf = 2 ^ 39 ∧
    Generated.baseMin = 2 ∧ Generated.baseMax = 36 ∧
    Generated.romanLimit = 4000 ∧ Generated.romanMaxForm = 4 ∧ Generated.romanTrueForm = 0 ∧ Generated.romanFalseForm = 4 := by
  decide

/-- the literal lists of the sources have the shape the named constants were read from
    (a changed guard changes one of these lists) -/
theorem source_literals :
    Generated.hex2decInts = [16, 0, 1099511627776, 1099511627776, 549755813888] ∧
    Generated.dec2hexInts = [0, -549755813888, 549755813888, 0, 1099511627776, 2, -1, -1] ∧
    Generated.decimalInts = [1099511627776, 549755813888] ∧
    Generated.baseInts = [0, 0, 2, 36, 0, -1] ∧
    Generated.romanInts = [0, 0, 4, 0, 4000, 0, 4, 1, 1] ∧
    Generated.intsRoundup = [1, 0, -1, 0, 10, 10, 10, 10] ∧ Generated.intsRounddown = [1, 0, -1, 0, 10, 10, 10, 10] ∧
    Generated.intsOdd = [2, 1, 1, 0] ∧ Generated.intsEven = [2, 0, 1, 0] ∧
    Generated.intsFactdouble = [0, 0, 1, 1, 1, -2] := by
  decide

/-- the digit alphabet of BASE is 0-9 then A-Z, and `int(text, radix)` reads each of its first
    36 characters back as its index -/
theorem base_alphabet :
    Generated.baseAlphabet = "0123456789ABCDEFGHIJKLMNOPQRSTUVWXYZ" ∧
    GoodAlphabet (fun d => alphabet.getD d '?') 36 :=
  ⟨by decide, alphabet_good⟩

/-- the regular expressions of ARABIC are the ones the hand-written matcher and tokeniser of the
    model stand for, the numeral tables of ROMAN / ARABIC are the classic ones, ROMAN's table is
    strictly decreasing (so `arabic - smaller_arabic` never goes negative) and every token of the
    tokeniser is a key of ARABIC's table -/
theorem roman_tables :
    Generated.arabicRegex = expectedArabicRegex ∧ Generated.arabicTokenRegex = expectedArabicTokenRegex ∧
    Generated.romanNumeralMap = [(1000, "M"), (500, "D"), (100, "C"), (50, "L"), (10, "X"), (5, "V"), (1, "I")] ∧
    Generated.arabicNumeralMap = [("M", 1000), ("CM", 900), ("D", 500), ("CD", 400), ("C", 100), ("XC", 90), ("L", 50),
      ("XL", 40), ("X", 10), ("IX", 9), ("V", 5), ("IV", 4), ("I", 1)] ∧
    (romanMap.map (·.1)).Pairwise (· > ·) ∧
    (∀ t ∈ ["M", "D", "L", "V", "C", "CM", "CD", "X", "XC", "XL", "I", "IX", "IV"],
      (arabicMap.find? (fun p => p.1 = String.toList t)).isSome = true) := by
  decide

/-! ## radix conversions invert -/

/-- HEX2DEC(DEC2HEX(n)) = n for every n of the 40-bit two's-complement range -2^39 ≤ n < 2^39 -/
theorem hex_roundtrip (n : Int) (h1 : -549755813888 ≤ n) (h2 : n < 549755813888) :
    (Eng.DEC2HEX [.num (.int n)] >>= fun t => Eng.HEX2DEC [t]) = .ok (.num (.int n)) := by
  rw [dec2hex_int n h1 h2]
  show Eng.HEX2DEC [.str _] = _
  simp only [Eng.HEX2DEC, Generated.hex2decBase, hexText_parse, Generated.hex2decZero, Generated.hex2decLimit,
    Generated.hex2decHalf, Generated.hex2decWrap]
  by_cases hn : n < 0
  · simp only [hn, if_true]
    have : ((n + 1099511627776).toNat : Int) = n + 1099511627776 := Int.toNat_of_nonneg (by omega)
    rw [this]
    simp
    rw [if_neg (by omega), if_pos (by omega)]
  · simp only [hn, if_false]
    have : (n.toNat : Int) = n := Int.toNat_of_nonneg (by omega)
    rw [this]
    simp
    rw [if_neg (by omega), if_neg (by omega)]

example : (Eng.DEC2HEX [.num (.int (-2))] >>= fun t => Eng.HEX2DEC [t]) = .ok (.num (.int (-2))) :=
  hex_roundtrip (-2) (by decide) (by decide)
example : isStr (Eng.DEC2HEX [.num (.int (-2))]) "FFFFFFFFFE" = true := by decide +kernel

/-- outside the 40-bit range DEC2HEX gives #NUM!, and HEX2DEC gives #NUM! for every text that
    `int(text, 16)` reads as a negative number or as 2^40 or more (no silent wrap-around) -/
theorem hex_out_of_range :
    (∀ n : Int, n < -549755813888 ∨ 549755813888 ≤ n → Eng.DEC2HEX [.num (.int n)] = .ok (.err .num)) ∧
    (∀ (s : List Char) (dec : Int), pyIntBase? s 16 = some dec → dec < 0 ∨ 1099511627776 ≤ dec →
      Eng.HEX2DEC [.str s] = .ok (.err .num)) :=
  ⟨dec2hex_out, hex2dec_out⟩

example : Eng.DEC2HEX [.num (.int 549755813888)] = .ok (.err .num) := hex_out_of_range.1 _ (by decide)
example : Eng.HEX2DEC [.str "10000000000".toList] = .ok (.err .num) :=
  hex_out_of_range.2 _ 1099511627776 (by decide +kernel) (by decide)

/-- DECIMAL(BASE(n, r), r) = n for every radix 2 ≤ r ≤ 36 and every 0 ≤ n < 2^39 (DECIMAL applies
    the 40-bit two's-complement adjustment from 2^39 on, so the statement stops there) -/
theorem base_roundtrip (n r : Int) (hn : 0 ≤ n) (hn' : n < 549755813888) (h2 : 2 ≤ r) (h36 : r ≤ 36) :
    (BASE [.num (.int n), .num (.int r)] >>= fun t => DECIMAL [t, .num (.int r)]) = .ok (.num (.int n)) := by
  rw [base_int n r hn h2 h36]
  simp only [bind, Except.bind]
  obtain ⟨b, rfl⟩ := Int.eq_ofNat_of_zero_le (show 0 ≤ r by omega)
  obtain ⟨m, rfl⟩ := Int.eq_ofNat_of_zero_le hn
  have h := baseText_parse b m (by omega) (by omega)
  simp only [Int.toNat_natCast]
  have hm0 : ((m : Int) = 0) ↔ m = 0 := by omega
  simp only [hm0]
  simp only [DECIMAL, parseNumber_num, pyStrOf, h, Generated.decimalHalf, Generated.decimalWrap]
  simp
  omega

example : isStr (BASE [.num (.int 255), .num (.int 16)]) "FF" = true := by decide +kernel
example : isStr (BASE [.num (.int 1295), .num (.int 36)]) "ZZ" = true := by decide +kernel
example : (BASE [.num (.int 255), .num (.int 16)] >>= fun t => DECIMAL [t, .num (.int 16)]) = .ok (.num (.int 255)) :=
  base_roundtrip 255 16 (by decide) (by decide) (by decide) (by decide)

/-- the text BASE produces for n > 0 consists of digit characters of the radix only: each is one of
    the first r characters of the alphabet (letters above 9) -/
theorem base_digits (n r : Int) (hn : 0 < n) (h2 : 2 ≤ r) (h36 : r ≤ 36) :
    ∃ ds : List Nat, (∀ d ∈ ds, d < r.toNat) ∧ ofDigits r.toNat ds = n.toNat ∧
      BASE [.num (.int n), .num (.int r)] = .ok (.str (ds.reverse.map (fun d => alphabet.getD d '?'))) := by
  refine ⟨baseDigits r.toNat n.toNat, baseDigits_lt _ (by omega) _, ofDigits_baseDigits _ (by omega) _, ?_⟩
  rw [base_int n r hn.le h2 h36, if_neg (by omega)]
  rfl

example := base_digits 255 16 (by decide) (by decide) (by decide)

/-- BASE with a radix outside 2..36 or a negative number gives #NUM! (it used to loop forever) -/
theorem base_guard (n r : Int) (h : n < 0 ∨ r < 2 ∨ 36 < r) :
    BASE [.num (.int n), .num (.int r)] = .ok (.err .num) := by
  simp only [BASE, baseCore, parseNumber_num, negPlaces, Num.toRat, Generated.baseMin, Generated.baseMax]
  have a1 : ((n : Rat) < 0) ↔ n < 0 := by exact_mod_cast Iff.rfl
  have a2 : ((r : Rat) < 2) ↔ r < 2 := by exact_mod_cast Iff.rfl
  have a3 : ((36 : Rat) < (r : Rat)) ↔ 36 < r := by exact_mod_cast Iff.rfl
  simp [a1, a2, a3]
  intro h'
  omega

example : BASE [.num (.int 5), .num (.int 1)] = .ok (.err .num) := base_guard 5 1 (by decide)

/-- the digit loop of BASE terminates: `value //= base` strictly decreases a positive value when
    base ≥ 2 (this is the `decreasing_by` obligation of the total definition `baseDigits`), and it
    runs exactly ⌊log_b n⌋ + 1 times: b^(len-1) ≤ n < b^len -/
theorem base_terminates (b n : Nat) (hb : 2 ≤ b) (hn : n ≠ 0) :
    n / b < n ∧ baseDigits b n = (n % b) :: baseDigits b (n / b) ∧
    b ^ ((baseDigits b n).length - 1) ≤ n ∧ n < b ^ (baseDigits b n).length :=
  ⟨Nat.div_lt_self (by omega) (by omega), baseDigits_step b n hb hn, baseDigits_lower b hb n hn, baseDigits_bound b hb n⟩

example : (baseDigits 2 5).length = 3 := by decide +kernel
example := base_terminates 2 5 (by decide) (by decide)

/-! ## roman numerals: complete over 1..3999 × forms 0..4 (kernel-decided in chunks of ≤ 1000) -/

/-- for every n in 1..3999 and every conciseness form 0..4, ROMAN(n, form) is a numeral that
    denotes n under the additive/subtractive reading -/
theorem roman_denotes (n form : Int) (h1 : 1 ≤ n) (h2 : n ≤ 3999) (hf0 : 0 ≤ form) (hf4 : form ≤ 4) :
    ∃ s : List Char, ROMAN [.num (.int n), .num (.int form)] = .ok (.str s) ∧ denote s = n := by
  refine ⟨_, roman_int n form h1 h2 hf0 hf4, ?_⟩
  obtain ⟨m, rfl⟩ := Int.eq_ofNat_of_zero_le (show 0 ≤ n by omega)
  obtain ⟨f, rfl⟩ := Int.eq_ofNat_of_zero_le hf0
  have hm1 : 1 ≤ m := by omega
  have hm2 : m ≤ 3999 := by omega
  have hf : f ≤ 4 := by omega
  have key : denotesOK f m = true := by
    have hcases : f = 0 ∨ f = 1 ∨ f = 2 ∨ f = 3 ∨ f = 4 := by omega
    rcases hcases with rfl | rfl | rfl | rfl | rfl
    · exact denotes_0 m hm1 hm2
    · exact denotes_1 m hm1 hm2
    · exact denotes_2 m hm1 hm2
    · exact denotes_3 m hm1 hm2
    · exact denotes_4 m hm1 hm2
  have := denote_of_ok key
  simpa using this

example : isStr (ROMAN [.num (.int 499), .num (.int 4)]) "ID" = true := by decide +kernel
example : denote "ID".toList = 499 := by decide
example := roman_denotes 499 4 (by decide) (by decide) (by decide) (by decide)

/-- ARABIC(ROMAN(n)) = n for every n in 1..3999 (classic form) -/
theorem arabic_roman (n : Int) (h1 : 1 ≤ n) (h2 : n ≤ 3999) :
    (ROMAN [.num (.int n)] >>= fun t => ARABIC [t]) = .ok (.num (.int n)) := by
  rw [roman_int_default n h1 h2]
  simp only [bind, Except.bind]
  rw [arabic_str]
  obtain ⟨m, rfl⟩ := Int.eq_ofNat_of_zero_le (show 0 ≤ n by omega)
  have key := arabic_all m (by omega) (by omega)
  simp only [arabicOK, beq_iff_eq, Int.toNat_natCast] at key ⊢
  rw [key]

example : (ROMAN [.num (.int 1994)] >>= fun t => ARABIC [t]) = .ok (.num (.int 1994)) :=
  arabic_roman 1994 (by decide) (by decide)

/-- IMREAL / IMAGINARY recover the integer parts given to COMPLEX (all integers, either sign) -/
theorem complex_parts (a b : Int) :
    (Eng.COMPLEX [.num (.int a), .num (.int b)] >>= fun z => Eng.IMREAL [z]) = .ok (.num (.int a)) ∧
    (Eng.COMPLEX [.num (.int a), .num (.int b)] >>= fun z => Eng.IMAGINARY [z]) = .ok (.num (.int b)) :=
  Lemmas.Round.complex_parts a b

/-! ## integer functions -/

/-- INT is the floor, for every int and float -/
theorem int_is_floor (x : Num) : INT [.num x] = .ok (.num (.int (Num.toRat x).floor)) := int_floor x

/-- SIGN is the sign -/
theorem sign_spec (x : Num) :
    SIGN [.num x] = .ok (.num (.int (if Num.toRat x < 0 then -1 else if Num.toRat x = 0 then 0 else 1))) :=
  sign_spec' x

/-- EVEN is the even integer at or beyond the number away from zero, less than 2 away in
    magnitude, with the number's sign (EVEN(0) = 0 follows) -/
theorem even_spec (x : Num) :
    ∃ r : Int, EVEN [.num x] = .ok (.num (.int r)) ∧ r % 2 = 0 ∧
      |Num.toRat x| ≤ |(r : Rat)| ∧ |(r : Rat)| < |Num.toRat x| + 2 ∧
      (0 ≤ Num.toRat x → 0 ≤ r) ∧ (Num.toRat x ≤ 0 → r ≤ 0) := even_spec' x

/-- ODD is the odd integer at or beyond the number away from zero, less than 2 away in
    magnitude; positive for numbers ≥ 0 (ODD(0) = 1), negative for negative numbers -/
theorem odd_spec (x : Num) :
    ∃ r : Int, ODD [.num x] = .ok (.num (.int r)) ∧ r % 2 = 1 ∧
      |Num.toRat x| ≤ |(r : Rat)| ∧ |(r : Rat)| < |Num.toRat x| + 2 ∧
      (0 ≤ Num.toRat x → 0 < r) ∧ (Num.toRat x < 0 → r < 0) := odd_spec' x

example : isInt (ODD [.num (.int 0)]) 1 = true := by decide +kernel

/-- QUOTIENT is the quotient truncated toward zero; a zero divisor gives #DIV/0! -/
theorem quotient_trunc (n d : Num) :
    (Num.toRat d = 0 → QUOTIENT [.num n, .num d] = .ok (.err .div0)) ∧
    (Num.toRat d ≠ 0 → ∃ t : Int, QUOTIENT [.num n, .num d] = .ok (.num (.int t)) ∧
      (0 ≤ Num.toRat n / Num.toRat d → (t : Rat) ≤ Num.toRat n / Num.toRat d ∧ Num.toRat n / Num.toRat d < (t : Rat) + 1) ∧
      (Num.toRat n / Num.toRat d < 0 → (t : Rat) - 1 < Num.toRat n / Num.toRat d ∧ Num.toRat n / Num.toRat d ≤ (t : Rat))) := by
  constructor
  · intro h
    have : Num.isZero d = true := (isZero_iff d).mpr h
    simp [QUOTIENT, parseNumber_num, this]
  · intro h
    have : ¬ (Num.isZero d = true) := fun hz => h ((isZero_iff d).mp hz)
    refine ⟨ratTrunc (Num.toRat n / Num.toRat d), by simp [QUOTIENT, parseNumber_num, this], ?_⟩
    exact ratTrunc_spec _

example : isInt (QUOTIENT [.num (.int (-7)), .num (.int 2)]) (-3) = true := by decide +kernel
example := (quotient_trunc (.int (-7)) (.int 2)).2 (by decide +kernel)
example := (quotient_trunc (.int (-7)) (.int 0)).1 (by decide +kernel)

/-- MOD is the remainder with the divisor's sign: number = divisor·k + MOD for an integer k,
    |MOD| < |divisor|, MOD ≥ 0 for a positive and ≤ 0 for a negative divisor; a zero divisor
    gives #DIV/0! -/
theorem mod_spec (n d : Num) :
    (Num.toRat d = 0 → MOD [.num n, .num d] = .ok (.err .div0)) ∧
    (Num.toRat d ≠ 0 → ∃ r : Num, MOD [.num n, .num d] = .ok (.num r) ∧
      (∃ k : Int, Num.toRat n = Num.toRat d * (k : Rat) + Num.toRat r) ∧
      |Num.toRat r| < |Num.toRat d| ∧
      (0 < Num.toRat d → 0 ≤ Num.toRat r) ∧ (Num.toRat d < 0 → Num.toRat r ≤ 0)) := by
  constructor
  · intro h
    have : Num.isZero d = true := (isZero_iff d).mpr h
    simp [MOD, parseNumber_num, this]
  · intro h
    obtain ⟨r, hr, hv⟩ := mod_value n d h
    obtain ⟨hk, hpos, hneg⟩ := pyMod_spec n d h
    refine ⟨r, hr, by rw [hv]; exact hk, ?_, fun hd => by rw [hv]; exact (hpos hd).1, fun hd => by rw [hv]; exact (hneg hd).2⟩
    rw [hv]
    rcases lt_or_gt_of_ne h with hd | hd
    · obtain ⟨b1, b2⟩ := hneg hd
      rw [abs_of_nonpos b2, abs_of_neg hd]; linarith
    · obtain ⟨b1, b2⟩ := hpos hd
      rw [abs_of_nonneg b1, abs_of_pos hd]; exact b2

example : isInt (MOD [.num (.int (-7)), .num (.int 3)]) 2 = true := by decide +kernel
example : isFlt (MOD [.num (.flt (15 / 2)), .num (.int (-2))]) (-1 / 2) = true := by decide +kernel
example := (mod_spec (.int (-7)) (.int 3)).2 (by decide +kernel)

/-- FACT(n) = n! for every natural number n; a negative argument gives #NUM! -/
theorem fact_spec :
    (∀ n : Nat, FACT [.num (.int n)] = .ok (.num (.int (n.factorial : Nat)))) ∧
    (∀ x : Num, Num.toRat x < 0 → FACT [.num x] = .ok (.err .num)) :=
  ⟨fact_nat, fun x h => (fact_neg x h).1⟩

example : isInt (FACT [.num (.int 5)]) 120 = true := by decide +kernel
example := fact_spec.2 (.flt (-1 / 2)) (by decide +kernel)

/-- FACTDOUBLE(n) = n!! for every natural number n; a negative argument gives #NUM! -/
theorem factdouble_spec :
    (∀ n : Nat, FACTDOUBLE [.num (.int n)] = .ok (.num (.int (n.doubleFactorial : Nat)))) ∧
    (∀ x : Num, Num.toRat x < 0 → FACTDOUBLE [.num x] = .ok (.err .num)) :=
  ⟨factdouble_nat, fun x h => (fact_neg x h).2⟩

example : isInt (FACTDOUBLE [.num (.int 7)]) 105 = true := by decide +kernel

/-! ## rounding -/

/-- ROUND(x, d) is a multiple of 10^-d within half a unit of x (all ints and floats, all d) -/
theorem round_spec (x : Num) (d : Int) :
    ∃ r : Num, ROUND [.num x, .num (.int d)] = .ok (.num r) ∧
      (∃ k : Int, Num.toRat r = (k : Rat) / pow10 d) ∧
      |Num.toRat r - Num.toRat x| ≤ (1 / 2) / pow10 d :=
  ⟨pyRound x d, rfl, pyRound_spec x d⟩

/-- ROUNDUP(x, d) is the multiple of 10^-d with |x| ≤ |r| < |x| + 10^-d and the sign of x -/
theorem roundup_spec (x : Num) (d : Int) :
    ∃ r : Num, ROUNDUP [.num x, .num (.int d)] = .ok (.num r) ∧
      (∃ k : Int, Num.toRat r = (k : Rat) / pow10 d) ∧
      |Num.toRat x| ≤ |Num.toRat r| ∧ |Num.toRat r| < |Num.toRat x| + 1 / pow10 d ∧
      (0 ≤ Num.toRat x → 0 ≤ Num.toRat r) ∧ (Num.toRat x ≤ 0 → Num.toRat r ≤ 0) := by
  obtain ⟨r, hr, hv⟩ := roundDirFn_value true x d
  refine ⟨r, hr, ?_⟩
  rw [hv]
  exact roundDir_up_spec (Num.toRat x) d

/-- the repaired defect: ROUNDUP(300000, -5) is 300000 (the float `10**-5` made it 399999.99999999994) -/
example : isInt (ROUNDUP [.num (.int 300000), .num (.int (-5))]) 300000 = true := by decide +kernel
example : isFlt (ROUNDUP [.num (.int 3), .num (.int 0)]) 3 = true := by decide +kernel

example : isInt (ROUND [.num (.int 25), .num (.int (-1))]) 20 = true := by decide +kernel
example : isFlt (ROUND [.num (.flt (5 / 2)), .num (.int 0)]) 2 = true := by decide +kernel

/-- ROUNDDOWN(x, d) is the multiple of 10^-d with |x| - 10^-d < |r| ≤ |x| and the sign of x -/
theorem rounddown_spec (x : Num) (d : Int) :
    ∃ r : Num, ROUNDDOWN [.num x, .num (.int d)] = .ok (.num r) ∧
      (∃ k : Int, Num.toRat r = (k : Rat) / pow10 d) ∧
      |Num.toRat x| - 1 / pow10 d < |Num.toRat r| ∧ |Num.toRat r| ≤ |Num.toRat x| ∧
      (0 ≤ Num.toRat x → 0 ≤ Num.toRat r) ∧ (Num.toRat x ≤ 0 → Num.toRat r ≤ 0) := by
  obtain ⟨r, hr, hv⟩ := roundDirFn_value false x d
  refine ⟨r, hr, ?_⟩
  rw [hv]
  exact roundDir_down_spec (Num.toRat x) d

/-- CEILING(x, s), s ≠ 0, is a multiple of s less than |s| away from x; at or above x when
    x ≥ 0 or s > 0 (rounded up), at or below x when both are negative (away from zero) -/
theorem ceiling_spec (x s : Num) (hs : Num.toRat s ≠ 0) :
    ∃ r : Num, CEILING [.num x, .num s] = .ok (.num r) ∧
      (∃ k : Int, Num.toRat r = (k : Rat) * Num.toRat s) ∧
      |Num.toRat r - Num.toRat x| < |Num.toRat s| ∧
      ((0 ≤ Num.toRat x ∨ 0 < Num.toRat s) → Num.toRat x ≤ Num.toRat r) ∧
      ((Num.toRat x < 0 ∧ Num.toRat s < 0) → Num.toRat r ≤ Num.toRat x) := by
  obtain ⟨r, hr, h⟩ := ceilingNum_spec x s hs
  exact ⟨r, by simp [CEILING, ceilingCore, parseNumber_num, hr], h⟩

example : isInt (CEILING [.num (.flt (-11 / 2)), .num (.int 2)]) (-4) = true := by decide +kernel
example := ceiling_spec (.flt (-11 / 2)) (.int 2) (by decide +kernel)

/-- FLOOR(x, s), s ≠ 0: #NUM! for a positive number with a negative significance; otherwise a
    multiple of s less than |s| away from x, at or below x — except when both are negative,
    where it is at or above x (toward zero) -/
theorem floor_spec (x s : Num) (hs : Num.toRat s ≠ 0) :
    ((0 < Num.toRat x ∧ Num.toRat s < 0) → FLOOR [.num x, .num s] = .ok (.err .num)) ∧
    (¬ (0 < Num.toRat x ∧ Num.toRat s < 0) →
      ∃ r : Num, FLOOR [.num x, .num s] = .ok (.num r) ∧
        (∃ k : Int, Num.toRat r = (k : Rat) * Num.toRat s) ∧
        |Num.toRat r - Num.toRat x| < |Num.toRat s| ∧
        ((Num.toRat x < 0 ∧ Num.toRat s < 0) → Num.toRat x ≤ Num.toRat r) ∧
        (¬ (Num.toRat x < 0 ∧ Num.toRat s < 0) → Num.toRat r ≤ Num.toRat x)) := by
  constructor
  · intro h
    simp [FLOOR, floorCore, parseNumber_num, floorNum_num x s h.1 h.2]
  · intro h
    obtain ⟨r, hr, h'⟩ := floorNum_spec x s hs h
    exact ⟨r, by simp [FLOOR, floorCore, parseNumber_num, hr], h'⟩

example : isInt (FLOOR [.num (.flt (-11 / 2)), .num (.int (-2))]) (-4) = true := by decide +kernel
example : isErr (FLOOR [.num (.flt (11 / 2)), .num (.int (-2))]) .num = true := by decide +kernel
example := (floor_spec (.flt (-11 / 2)) (.int (-2)) (by decide +kernel)).2 (by decide +kernel)
example := (floor_spec (.flt (11 / 2)) (.int (-2)) (by decide +kernel)).1 (by decide +kernel)

/-- with the significance omitted CEILING and FLOOR use 1 -/
theorem ceiling_floor_default (x : Value) :
    CEILING [x] = CEILING [x, .num (.int 1)] ∧ FLOOR [x] = FLOOR [x, .num (.int 1)] := ⟨rfl, rfl⟩

/-- the registry maps the names (with the .MATH / .PRECISE aliases) to the modelled functions -/
theorem registered :
    (Builtins.table.map (·.1)).filter (fun n => n ∈ ["ROUND", "ROUNDUP", "ROUNDDOWN", "CEILING", "CEILING.MATH",
      "CEILING.PRECISE", "FLOOR", "FLOOR.MATH", "FLOOR.PRECISE", "QUOTIENT", "MOD", "ODD", "EVEN", "FACT", "FACTDOUBLE",
      "INT", "SIGN", "DECIMAL", "BASE", "ROMAN", "ARABIC", "HEX2DEC", "DEC2HEX", "COMPLEX", "IMREAL", "IMAGINARY", "DELTA"])
    = ["ROUND", "ROUNDUP", "ROUNDDOWN", "CEILING", "CEILING.MATH", "CEILING.PRECISE", "FLOOR", "FLOOR.MATH",
       "FLOOR.PRECISE", "QUOTIENT", "MOD", "ODD", "EVEN", "FACT", "FACTDOUBLE", "INT", "SIGN", "DECIMAL", "BASE",
       "ROMAN", "ARABIC", "HEX2DEC", "DEC2HEX", "COMPLEX", "IMREAL", "IMAGINARY", "DELTA"] := by
  decide +kernel

end HotXL.Props.C17
