/-
  Property C17 — rounding and integer functions meet their specs; radix conversions invert.

  The theorems are about the executable model of hotxlfp/formulas/mathtrig.py and engineering.py
  (`HotXL.Fn.Round`, `HotXL.Fn.Eng`): `F [args] = .ok v` says "the call F(args) returns v"
  (`.ok (.err e)` = the error value `e`).  Numbers are exact rationals (`Num.toRat`), so the
  statements hold for ALL ints and ALL finite floats (as exact values), EVERY int `digits` (the two
  shortcuts of the code for far-away places are exact: `InDoubleRange` / `OnDoubleGrid` say what
  they use of a float — it is below 2^1024 and a multiple of 2^-1074, as every double is), every
  significance; float rounding error, overflow and underflow are outside the model (trusted base
  of the harness — see the header of Model/Fn/Round.lean).
  `10^-digits` is written `1 / pow10 d`, "a multiple of `10^-digits`" is `k / pow10 d`.

  Termination.  Every model function is a total Lean definition (structural or well-founded
  recursion, no `partial`), so "the model returns" is true by construction and cannot be the
  content of a theorem.  What the repaired guards of the code are about is the SIZE of the work
  hidden in Python's exact integers: `math.factorial(10**15)`, `10 ** 10**15` do terminate in
  principle but not in practice.  The theorems `fact_bounded`, `round_dir_bounded` state that with
  the guards the exact integers the code computes are bounded in terms of the SIZE of the arguments
  (a factorial of at most 170 / 300, a power of ten with at most max(1075, bit length + 1)
  digits — not 10^15 of them); the harness observes the same thing on the implementation as a
  line-event / wall-clock budget.
-/
import HotXL.Model.Builtins
import HotXL.Lemmas.Round
import HotXL.Lemmas.RoundNum
import HotXL.Lemmas.RoundRoman
import HotXL.Lemmas.RoundRomanA
import HotXL.Lemmas.RoundRomanB
import HotXL.Lemmas.RoundRomanC
import HotXL.Lemmas.RomanFloat

namespace HotXL.Props.C17
open HotXL HotXL.Ops HotXL.Fn HotXL.Fn.Round HotXL.Lemmas.Round

/-- test helpers for the concrete examples (`Value` has no decidable equality) -/
def isInt (r : Except Err Value) (n : Int) : Bool := match r with | .ok (.num (.int m)) => m == n | _ => false
def isFlt (r : Except Err Value) (q : Rat) : Bool := match r with | .ok (.num (.flt m)) => m == q | _ => false
def isStr (r : Except Err Value) (s : String) : Bool := match r with | .ok (.str t) => t == s.toList | _ => false
def isErr (r : Except Err Value) (e : Err) : Bool := match r with | .ok (.err x) => x == e | _ => false

/-! ## the constants and tables of the source the proofs rely on (regenerated from /repo) -/

/-- the 40-bit limits of HEX2DEC / DEC2HEX / DECIMAL and the radix bounds of BASE in the source are
    2^40, 2^39, -2^39, 2 and 36; FACT is cut off at 171, FACTDOUBLE at 301; ROUNDUP / ROUNDDOWN return
    the number beyond 1074 digits, `_place_beyond` compares `-digits` with max(1024, size), size 0 for
    a float -/
theorem source_constants :
    Generated.hex2decBase = 16 ∧ Generated.hex2decZero = 0 ∧ Generated.hex2decLimit = 2 ^ 40 ∧
    Generated.hex2decWrap = 2 ^ 40 ∧ Generated.hex2decHalf = 2 ^ 39 ∧
    Generated.dec2hexLow = -(2 ^ 39) ∧ Generated.dec2hexHigh = 2 ^ 39 ∧ Generated.dec2hexWrap = 2 ^ 40 ∧
    Generated.decimalWrap = 2 ^ 40 ∧ Generated.decimalHalf = 2 ^ 39 ∧
    Generated.baseMin = 2 ∧ Generated.baseMax = 36 ∧
    Generated.romanLimit = 4000 ∧ Generated.romanMaxForm = 4 ∧ Generated.romanTrueForm = 0 ∧ Generated.romanFalseForm = 4 ∧
    Generated.factLimit = 171 ∧ Generated.factdoubleLimit = 301 ∧
    Generated.roundupDigitsMax = 1074 ∧ Generated.rounddownDigitsMax = 1074 ∧
    Generated.placeMinDigits = 1024 ∧ Generated.placeFloatSize = 0 := by
  decide

/-- the literal lists of the sources have the shape the named constants were read from
    (a changed guard changes one of these lists) -/
theorem source_literals :
    Generated.hex2decInts = [16, 0, 1099511627776, 1099511627776, 549755813888] ∧
    Generated.dec2hexInts = [0, -549755813888, 549755813888, 0, 1099511627776, 2, -1, -1] ∧
    Generated.decimalInts = [1099511627776, 549755813888] ∧
    Generated.baseInts = [0, 0, 2, 36, 0, -1] ∧
    Generated.romanInts = [0, 0, 4, 0, 4000, 0, 4, 1, 1] ∧
    Generated.intsRound = [0] ∧ Generated.intsPlaceBeyond = [0, 1024] ∧
    Generated.intsRoundup = [1, 0, -1, 1074, 0, 0, 0, 10, 10, 10, 10] ∧
    Generated.intsRounddown = [1, 0, -1, 1074, 0, 0, 0, 10, 10, 10, 10] ∧
    Generated.intsOdd = [2, 1, 1, 0] ∧ Generated.intsEven = [2, 0, 1, 0] ∧
    Generated.intsFact = [0, 171] ∧ Generated.intsFactdouble = [0, 301, 0, 1, 1, 1, -2] := by
  decide

/-- the digit alphabet of BASE is 0-9 then A-Z, and `int(text, radix)` reads each of its first
    36 characters back as its index -/
theorem base_alphabet :
    Generated.baseAlphabet = "0123456789ABCDEFGHIJKLMNOPQRSTUVWXYZ" ∧
    GoodAlphabet (fun d => alphabet.getD d '?') 36 :=
  ⟨by decide, alphabet_good⟩

/-- the regular expressions of ARABIC are the ones the hand-written matcher and tokeniser of the
    model stand for, the numeral tables of ROMAN / ARABIC are the classic ones, ROMAN's table is
    strictly decreasing (so `arabic - smaller_arabic` never goes negative) and every token of the
    tokeniser is a key of ARABIC's table -/
theorem roman_tables :
    Generated.arabicRegex = expectedArabicRegex ∧ Generated.arabicTokenRegex = expectedArabicTokenRegex ∧
    Generated.romanNumeralMap = [(1000, "M"), (500, "D"), (100, "C"), (50, "L"), (10, "X"), (5, "V"), (1, "I")] ∧
    Generated.arabicNumeralMap = [("M", 1000), ("CM", 900), ("D", 500), ("CD", 400), ("C", 100), ("XC", 90), ("L", 50),
      ("XL", 40), ("X", 10), ("IX", 9), ("V", 5), ("IV", 4), ("I", 1)] ∧
    (romanMap.map (·.1)).Pairwise (· > ·) ∧
    (∀ t ∈ ["M", "D", "L", "V", "C", "CM", "CD", "X", "XC", "XL", "I", "IX", "IV"],
      (arabicMap.find? (fun p => p.1 = String.toList t)).isSome = true) := by
  decide

/-! ## radix conversions invert -/

/-- HEX2DEC(DEC2HEX(n)) = n for every n of the 40-bit two's-complement range -2^39 ≤ n < 2^39 -/
theorem hex_roundtrip (n : Int) (h1 : -549755813888 ≤ n) (h2 : n < 549755813888) :
    (Eng.DEC2HEX [.num (.int n)] >>= fun t => Eng.HEX2DEC [t]) = .ok (.num (.int n)) := by
  rw [dec2hex_int n h1 h2]
  show Eng.HEX2DEC [.str _] = _
  simp only [Eng.HEX2DEC, Generated.hex2decBase, hexText_parse, Generated.hex2decZero, Generated.hex2decLimit,
    Generated.hex2decHalf, Generated.hex2decWrap]
  by_cases hn : n < 0
  · simp only [hn, if_true]
    have : ((n + 1099511627776).toNat : Int) = n + 1099511627776 := Int.toNat_of_nonneg (by omega)
    rw [this]
    simp
    rw [if_neg (by omega), if_pos (by omega)]
  · simp only [hn, if_false]
    have : (n.toNat : Int) = n := Int.toNat_of_nonneg (by omega)
    rw [this]
    simp
    rw [if_neg (by omega), if_neg (by omega)]

example : (Eng.DEC2HEX [.num (.int (-2))] >>= fun t => Eng.HEX2DEC [t]) = .ok (.num (.int (-2))) :=
  hex_roundtrip (-2) (by decide) (by decide)
example : isStr (Eng.DEC2HEX [.num (.int (-2))]) "FFFFFFFFFE" = true := by decide +kernel

/-- outside the 40-bit range DEC2HEX gives #NUM!, and HEX2DEC gives #NUM! for every text that
    `int(text, 16)` reads as a negative number or as 2^40 or more (no silent wrap-around) -/
theorem hex_out_of_range :
    (∀ n : Int, n < -549755813888 ∨ 549755813888 ≤ n → Eng.DEC2HEX [.num (.int n)] = .ok (.err .num)) ∧
    (∀ (s : List Char) (dec : Int), pyIntBase? s 16 = some dec → dec < 0 ∨ 1099511627776 ≤ dec →
      Eng.HEX2DEC [.str s] = .ok (.err .num)) :=
  ⟨dec2hex_out, hex2dec_out⟩

example : Eng.DEC2HEX [.num (.int 549755813888)] = .ok (.err .num) := hex_out_of_range.1 _ (by decide)
example : Eng.HEX2DEC [.str "10000000000".toList] = .ok (.err .num) :=
  hex_out_of_range.2 _ 1099511627776 (by decide +kernel) (by decide)

/-- DECIMAL(BASE(n, r), r) = n for every radix 2 ≤ r ≤ 36 and every 0 ≤ n < 2^39 (DECIMAL applies
    the 40-bit two's-complement adjustment from 2^39 on, so the statement stops there) -/
theorem base_roundtrip (n r : Int) (hn : 0 ≤ n) (hn' : n < 549755813888) (h2 : 2 ≤ r) (h36 : r ≤ 36) :
    (BASE [.num (.int n), .num (.int r)] >>= fun t => DECIMAL [t, .num (.int r)]) = .ok (.num (.int n)) := by
  rw [base_int n r hn h2 h36]
  simp only [bind, Except.bind]
  obtain ⟨b, rfl⟩ := Int.eq_ofNat_of_zero_le (show 0 ≤ r by omega)
  obtain ⟨m, rfl⟩ := Int.eq_ofNat_of_zero_le hn
  have h := baseText_parse b m (by omega) (by omega)
  simp only [Int.toNat_natCast]
  have hm0 : ((m : Int) = 0) ↔ m = 0 := by omega
  simp only [hm0]
  simp only [DECIMAL, parseNumber_num, pyStrOf, h, Generated.decimalHalf, Generated.decimalWrap]
  simp
  omega

example : isStr (BASE [.num (.int 255), .num (.int 16)]) "FF" = true := by decide +kernel
example : isStr (BASE [.num (.int 1295), .num (.int 36)]) "ZZ" = true := by decide +kernel
example : (BASE [.num (.int 255), .num (.int 16)] >>= fun t => DECIMAL [t, .num (.int 16)]) = .ok (.num (.int 255)) :=
  base_roundtrip 255 16 (by decide) (by decide) (by decide) (by decide)

/-- the text BASE produces for n > 0 consists of digit characters of the radix only: each is one of
    the first r characters of the alphabet (letters above 9) -/
theorem base_digits (n r : Int) (hn : 0 < n) (h2 : 2 ≤ r) (h36 : r ≤ 36) :
    ∃ ds : List Nat, (∀ d ∈ ds, d < r.toNat) ∧ ofDigits r.toNat ds = n.toNat ∧
      BASE [.num (.int n), .num (.int r)] = .ok (.str (ds.reverse.map (fun d => alphabet.getD d '?'))) := by
  refine ⟨baseDigits r.toNat n.toNat, baseDigits_lt _ (by omega) _, ofDigits_baseDigits _ (by omega) _, ?_⟩
  rw [base_int n r hn.le h2 h36, if_neg (by omega)]
  rfl

example := base_digits 255 16 (by decide) (by decide) (by decide)

/-- BASE with a radix outside 2..36 or a negative number gives #NUM! (it used to loop forever) -/
theorem base_guard (n r : Int) (h : n < 0 ∨ r < 2 ∨ 36 < r) :
    BASE [.num (.int n), .num (.int r)] = .ok (.err .num) := by
  simp only [BASE, baseCore, parseNumber_num, negPlaces, Num.toRat, Generated.baseMin, Generated.baseMax]
  have a1 : ((n : Rat) < 0) ↔ n < 0 := by exact_mod_cast Iff.rfl
  have a2 : ((r : Rat) < 2) ↔ r < 2 := by exact_mod_cast Iff.rfl
  have a3 : ((36 : Rat) < (r : Rat)) ↔ 36 < r := by exact_mod_cast Iff.rfl
  simp [a1, a2, a3]
  intro h'
  omega

example : BASE [.num (.int 5), .num (.int 1)] = .ok (.err .num) := base_guard 5 1 (by decide)

/-- the digit loop of BASE terminates: `value //= base` strictly decreases a positive value when
    base ≥ 2 (this is the `decreasing_by` obligation of the total definition `baseDigits`), and it
    runs exactly ⌊log_b n⌋ + 1 times: b^(len-1) ≤ n < b^len -/
theorem base_terminates (b n : Nat) (hb : 2 ≤ b) (hn : n ≠ 0) :
    n / b < n ∧ baseDigits b n = (n % b) :: baseDigits b (n / b) ∧
    b ^ ((baseDigits b n).length - 1) ≤ n ∧ n < b ^ (baseDigits b n).length :=
  ⟨Nat.div_lt_self (by omega) (by omega), baseDigits_step b n hb hn, baseDigits_lower b hb n hn, baseDigits_bound b hb n⟩

example : (baseDigits 2 5).length = 3 := by decide +kernel
example := base_terminates 2 5 (by decide) (by decide)

/-! ## roman numerals: complete over 1..3999 × forms 0..4 (kernel-decided in chunks of ≤ 1000) -/

/-- for every n in 1..3999 and every conciseness form 0..4, ROMAN(n, form) is a numeral that
    denotes n under the additive/subtractive reading -/
theorem roman_denotes (n form : Int) (h1 : 1 ≤ n) (h2 : n ≤ 3999) (hf0 : 0 ≤ form) (hf4 : form ≤ 4) :
    ∃ s : List Char, ROMAN [.num (.int n), .num (.int form)] = .ok (.str s) ∧ denote s = n := by
  refine ⟨_, roman_int n form h1 h2 hf0 hf4, ?_⟩
  obtain ⟨m, rfl⟩ := Int.eq_ofNat_of_zero_le (show 0 ≤ n by omega)
  obtain ⟨f, rfl⟩ := Int.eq_ofNat_of_zero_le hf0
  have hm1 : 1 ≤ m := by omega
  have hm2 : m ≤ 3999 := by omega
  have hf : f ≤ 4 := by omega
  have key : denotesOK f m = true := by
    have hcases : f = 0 ∨ f = 1 ∨ f = 2 ∨ f = 3 ∨ f = 4 := by omega
    rcases hcases with rfl | rfl | rfl | rfl | rfl
    · exact denotes_0 m hm1 hm2
    · exact denotes_1 m hm1 hm2
    · exact denotes_2 m hm1 hm2
    · exact denotes_3 m hm1 hm2
    · exact denotes_4 m hm1 hm2
  have := denote_of_ok key
  simpa using this

example : isStr (ROMAN [.num (.int 499), .num (.int 4)]) "ID" = true := by decide +kernel
example : denote "ID".toList = 499 := by decide
example := roman_denotes 499 4 (by decide) (by decide) (by decide) (by decide)

/-- ARABIC(ROMAN(n)) = n for every n in 1..3999 (classic form) -/
theorem arabic_roman (n : Int) (h1 : 1 ≤ n) (h2 : n ≤ 3999) :
    (ROMAN [.num (.int n)] >>= fun t => ARABIC [t]) = .ok (.num (.int n)) := by
  rw [roman_int_default n h1 h2]
  simp only [bind, Except.bind]
  rw [arabic_str]
  obtain ⟨m, rfl⟩ := Int.eq_ofNat_of_zero_le (show 0 ≤ n by omega)
  have key := arabic_all m (by omega) (by omega)
  simp only [arabicOK, beq_iff_eq, Int.toNat_natCast] at key ⊢
  rw [key]

example : (ROMAN [.num (.int 1994)] >>= fun t => ARABIC [t]) = .ok (.num (.int 1994)) :=
  arabic_roman 1994 (by decide) (by decide)

/-! ### a whole number that arrives as a float (`ROMAN(1994.0)`)

  For a float `number` the code runs the same greedy loop with `int(number / arabic)` on floats;
  the model runs it on the exact rational (`romanLoopRat`).  On a whole number both loops take the
  same steps. -/

/-- the float loop of ROMAN on a natural number is the integer loop, for every table whose keys
    are positive (truncation of the exact quotient `n / a` is the floor division `n // a`, and the
    remainder `n - a * (n // a)` stays a natural number) -/
theorem romanLoopRat_natCast (tbl : List (Nat × List Char)) (h : ∀ p ∈ tbl, 0 < p.1) (n : Nat) :
    romanLoopRat tbl (n : Rat) = romanLoop tbl n :=
  Lemmas.Round.romanLoopRat_natCast tbl h n

/-- every key of the table `numerals(form + 1)` is positive for the five forms 0..4 (so
    `number / arabic` never divides by zero) -/
theorem roman_numerals_pos (f : Nat) (hf : f ≤ 4) : ∀ p ∈ numerals (some (f + 1)), 0 < p.1 :=
  numerals_pos f hf

/-- for every n in 1..3999 and every form 0..4, ROMAN of the FLOAT n.0 is ROMAN of the int n
    (floats are exact rationals in the model: float rounding of `number / arabic` is outside it,
    see the header of Model/Fn/Round.lean) -/
theorem roman_float_whole (n form : Int) (h1 : 1 ≤ n) (h2 : n ≤ 3999) (hf0 : 0 ≤ form) (hf4 : form ≤ 4) :
    ROMAN [.num (.flt (n : Rat)), .num (.int form)] = ROMAN [.num (.int n), .num (.int form)] := by
  have a1 : (0 : Rat) < (n : Rat) := by exact_mod_cast (show (0 : Int) < n by omega)
  have a2 : (n : Rat) < 4000 := by exact_mod_cast (show n < 4000 by omega)
  rw [roman_flt (n : Rat) form a1 a2 hf0 hf4, roman_int n form h1 h2 hf0 hf4]
  obtain ⟨m, rfl⟩ := Int.eq_ofNat_of_zero_le (show 0 ≤ n by omega)
  obtain ⟨f, rfl⟩ := Int.eq_ofNat_of_zero_le hf0
  have hf : ((f : Int) + 1).toNat = f + 1 := by omega
  rw [hf, Int.toNat_natCast, Int.cast_natCast, romanLoopRat_natCast _ (numerals_pos f (by omega)) m]

/-- the same with the default form: ROMAN(n.0) = ROMAN(n) -/
theorem roman_float_whole_default (n : Int) (h1 : 1 ≤ n) (h2 : n ≤ 3999) :
    ROMAN [.num (.flt (n : Rat))] = ROMAN [.num (.int n)] := by
  have a1 : (0 : Rat) < (n : Rat) := by exact_mod_cast (show (0 : Int) < n by omega)
  have a2 : (n : Rat) < 4000 := by exact_mod_cast (show n < 4000 by omega)
  rw [roman_flt_default (n : Rat) a1 a2, roman_int_default n h1 h2]
  obtain ⟨m, rfl⟩ := Int.eq_ofNat_of_zero_le (show 0 ≤ n by omega)
  rw [Int.toNat_natCast, Int.cast_natCast, romanLoopRat_natCast _ (numerals_pos 0 (by omega)) m]

/-- for every n in 1..3999 and every form 0..4, ROMAN(n.0, form) is a numeral that denotes n -/
theorem roman_float_denotes (n form : Int) (h1 : 1 ≤ n) (h2 : n ≤ 3999) (hf0 : 0 ≤ form) (hf4 : form ≤ 4) :
    ∃ s : List Char, ROMAN [.num (.flt (n : Rat)), .num (.int form)] = .ok (.str s) ∧ denote s = n := by
  rw [roman_float_whole n form h1 h2 hf0 hf4]
  exact roman_denotes n form h1 h2 hf0 hf4

/-- ARABIC(ROMAN(n.0)) = n for every n in 1..3999 (classic form) -/
theorem arabic_roman_float (n : Int) (h1 : 1 ≤ n) (h2 : n ≤ 3999) :
    (ROMAN [.num (.flt (n : Rat))] >>= fun t => ARABIC [t]) = .ok (.num (.int n)) := by
  rw [roman_float_whole_default n h1 h2]
  exact arabic_roman n h1 h2

example : isStr (ROMAN [.num (.flt 1994), .num (.int 0)]) "MCMXCIV" = true := by decide +kernel
example : ROMAN [.num (.flt ((1994 : Int) : Rat)), .num (.int 0)] = ROMAN [.num (.int 1994), .num (.int 0)] :=
  roman_float_whole 1994 0 (by decide) (by decide) (by decide) (by decide)
example := roman_float_denotes 1994 0 (by decide) (by decide) (by decide) (by decide)

/-- IMREAL / IMAGINARY recover the integer parts given to COMPLEX (all integers, either sign) -/
theorem complex_parts (a b : Int) :
    (Eng.COMPLEX [.num (.int a), .num (.int b)] >>= fun z => Eng.IMREAL [z]) = .ok (.num (.int a)) ∧
    (Eng.COMPLEX [.num (.int a), .num (.int b)] >>= fun z => Eng.IMAGINARY [z]) = .ok (.num (.int b)) :=
  Lemmas.Round.complex_parts a b

/-! ## integer functions -/

/-- INT is the floor, for every int and float -/
theorem int_is_floor (x : Num) : INT [.num x] = .ok (.num (.int (Num.toRat x).floor)) := int_floor x

/-- SIGN is the sign -/
theorem sign_spec (x : Num) :
    SIGN [.num x] = .ok (.num (.int (if Num.toRat x < 0 then -1 else if Num.toRat x = 0 then 0 else 1))) :=
  sign_spec' x

/-- EVEN is the even integer at or beyond the number away from zero, less than 2 away in
    magnitude, with the number's sign (EVEN(0) = 0 follows) -/
theorem even_spec (x : Num) :
    ∃ r : Int, EVEN [.num x] = .ok (.num (.int r)) ∧ r % 2 = 0 ∧
      |Num.toRat x| ≤ |(r : Rat)| ∧ |(r : Rat)| < |Num.toRat x| + 2 ∧
      (0 ≤ Num.toRat x → 0 ≤ r) ∧ (Num.toRat x ≤ 0 → r ≤ 0) := even_spec' x

/-- ODD is the odd integer at or beyond the number away from zero, less than 2 away in
    magnitude; positive for numbers ≥ 0 (ODD(0) = 1), negative for negative numbers -/
theorem odd_spec (x : Num) :
    ∃ r : Int, ODD [.num x] = .ok (.num (.int r)) ∧ r % 2 = 1 ∧
      |Num.toRat x| ≤ |(r : Rat)| ∧ |(r : Rat)| < |Num.toRat x| + 2 ∧
      (0 ≤ Num.toRat x → 0 < r) ∧ (Num.toRat x < 0 → r < 0) := odd_spec' x

example : isInt (ODD [.num (.int 0)]) 1 = true := by decide +kernel

/-- QUOTIENT is the quotient truncated toward zero; a zero divisor gives #DIV/0! -/
theorem quotient_trunc (n d : Num) :
    (Num.toRat d = 0 → QUOTIENT [.num n, .num d] = .ok (.err .div0)) ∧
    (Num.toRat d ≠ 0 → ∃ t : Int, QUOTIENT [.num n, .num d] = .ok (.num (.int t)) ∧
      (0 ≤ Num.toRat n / Num.toRat d → (t : Rat) ≤ Num.toRat n / Num.toRat d ∧ Num.toRat n / Num.toRat d < (t : Rat) + 1) ∧
      (Num.toRat n / Num.toRat d < 0 → (t : Rat) - 1 < Num.toRat n / Num.toRat d ∧ Num.toRat n / Num.toRat d ≤ (t : Rat))) := by
  constructor
  · intro h
    have : Num.isZero d = true := (isZero_iff d).mpr h
    simp [QUOTIENT, parseNumber_num, this]
  · intro h
    have : ¬ (Num.isZero d = true) := fun hz => h ((isZero_iff d).mp hz)
    refine ⟨ratTrunc (Num.toRat n / Num.toRat d), by simp [QUOTIENT, parseNumber_num, this], ?_⟩
    exact ratTrunc_spec _

example : isInt (QUOTIENT [.num (.int (-7)), .num (.int 2)]) (-3) = true := by decide +kernel
example := (quotient_trunc (.int (-7)) (.int 2)).2 (by decide +kernel)
example := (quotient_trunc (.int (-7)) (.int 0)).1 (by decide +kernel)

/-- MOD is the remainder with the divisor's sign: number = divisor·k + MOD for an integer k,
    |MOD| < |divisor|, MOD ≥ 0 for a positive and ≤ 0 for a negative divisor; a zero divisor
    gives #DIV/0! -/
theorem mod_spec (n d : Num) :
    (Num.toRat d = 0 → MOD [.num n, .num d] = .ok (.err .div0)) ∧
    (Num.toRat d ≠ 0 → ∃ r : Num, MOD [.num n, .num d] = .ok (.num r) ∧
      (∃ k : Int, Num.toRat n = Num.toRat d * (k : Rat) + Num.toRat r) ∧
      |Num.toRat r| < |Num.toRat d| ∧
      (0 < Num.toRat d → 0 ≤ Num.toRat r) ∧ (Num.toRat d < 0 → Num.toRat r ≤ 0)) := by
  constructor
  · intro h
    have : Num.isZero d = true := (isZero_iff d).mpr h
    simp [MOD, parseNumber_num, this]
  · intro h
    obtain ⟨r, hr, hv⟩ := mod_value n d h
    obtain ⟨hk, hpos, hneg⟩ := pyMod_spec n d h
    refine ⟨r, hr, by rw [hv]; exact hk, ?_, fun hd => by rw [hv]; exact (hpos hd).1, fun hd => by rw [hv]; exact (hneg hd).2⟩
    rw [hv]
    rcases lt_or_gt_of_ne h with hd | hd
    · obtain ⟨b1, b2⟩ := hneg hd
      rw [abs_of_nonpos b2, abs_of_neg hd]; linarith
    · obtain ⟨b1, b2⟩ := hpos hd
      rw [abs_of_nonneg b1, abs_of_pos hd]; exact b2

example : isInt (MOD [.num (.int (-7)), .num (.int 3)]) 2 = true := by decide +kernel
example : isFlt (MOD [.num (.flt (15 / 2)), .num (.int (-2))]) (-1 / 2) = true := by decide +kernel
example := (mod_spec (.int (-7)) (.int 3)).2 (by decide +kernel)

/-- FACT(n) = n! for every natural number n ≤ 170 (170! is the largest factorial that is an XL
    number); more generally FACT(x) = ⌊x⌋! for every number 0 ≤ x < 171 (the cut-off is applied to
    the number before it is truncated: FACT(170.9) = 170!); every number ≥ 171 — however large —
    gives #NUM!, and so does a negative argument -/
theorem fact_spec :
    (∀ n : Nat, n ≤ 170 → FACT [.num (.int n)] = .ok (.num (.int (n.factorial : Nat)))) ∧
    (∀ x : Num, 0 ≤ Num.toRat x → Num.toRat x < 171 →
      FACT [.num x] = .ok (.num (.int (((Num.toRat x).floor.toNat).factorial : Nat)))) ∧
    (∀ x : Num, 171 ≤ Num.toRat x → FACT [.num x] = .ok (.err .num)) ∧
    (∀ x : Num, Num.toRat x < 0 → FACT [.num x] = .ok (.err .num)) :=
  ⟨fact_nat, fact_value, fun x h => (fact_big x).1 h, fun x h => (fact_neg x h).1⟩

example : isInt (FACT [.num (.int 5)]) 120 = true := by decide +kernel
example := fact_spec.1 170 (by decide)
example := fact_spec.2.1 (.flt (1709 / 10)) (by decide +kernel) (by decide +kernel)
example : (Num.toRat (.flt (1709 / 10))).floor.toNat = 170 := by decide +kernel
example := fact_spec.2.2.1 (.int 171) (by decide +kernel)
example := fact_spec.2.2.1 (.int (10 ^ 15)) (by decide +kernel)
example := fact_spec.2.2.2 (.flt (-1 / 2)) (by decide +kernel)
example : isErr (FACT [.num (.int 171)]) .num = true := by decide +kernel
example : isErr (FACT [.num (.int (10 ^ 15))]) .num = true := by decide +kernel

/-- FACTDOUBLE(n) = n!! for every natural number n ≤ 300 (300!! is the largest double factorial
    that is an XL number), FACTDOUBLE(x) = ⌊x⌋!! for every number 0 ≤ x < 301; every number ≥ 301
    gives #NUM!, and so does a negative argument -/
theorem factdouble_spec :
    (∀ n : Nat, n ≤ 300 → FACTDOUBLE [.num (.int n)] = .ok (.num (.int (n.doubleFactorial : Nat)))) ∧
    (∀ x : Num, 0 ≤ Num.toRat x → Num.toRat x < 301 →
      FACTDOUBLE [.num x] = .ok (.num (.int (((Num.toRat x).floor.toNat).doubleFactorial : Nat)))) ∧
    (∀ x : Num, 301 ≤ Num.toRat x → FACTDOUBLE [.num x] = .ok (.err .num)) ∧
    (∀ x : Num, Num.toRat x < 0 → FACTDOUBLE [.num x] = .ok (.err .num)) :=
  ⟨factdouble_nat, factdouble_value, fun x h => (fact_big x).2 h, fun x h => (fact_neg x h).2⟩

example : isInt (FACTDOUBLE [.num (.int 7)]) 105 = true := by decide +kernel
example := factdouble_spec.1 300 (by decide)
example := factdouble_spec.2.2.1 (.int 301) (by decide +kernel)
example : isErr (FACTDOUBLE [.num (.int 301)]) .num = true := by decide +kernel

/-- the work of FACT / FACTDOUBLE is bounded independently of the argument: whenever a number is
    returned it is the factorial of some n ≤ 170 (the double factorial of some n ≤ 300) — the
    recursion of `fact` / `dfact` (Python: `math.factorial`, the `reduce` over `range(n, 1, -2)`)
    is never entered with anything larger (before the repair FACT(10^15) did not return) -/
theorem fact_bounded (x r : Num) :
    (FACT [.num x] = .ok (.num r) → ∃ n : Nat, n ≤ 170 ∧ r = .int (n.factorial : Nat)) ∧
    (FACTDOUBLE [.num x] = .ok (.num r) → ∃ n : Nat, n ≤ 300 ∧ r = .int (n.doubleFactorial : Nat)) := by
  have key : ∀ (B : Int) (q : Rat), 0 ≤ q → q < (B : Rat) → q.floor.toNat ≤ (B - 1).toNat := by
    intro B q h0 hB
    have h1 : (q.floor : Rat) < (B : Rat) := lt_of_le_of_lt (fl_le q) hB
    have h2 : q.floor < B := by exact_mod_cast h1
    omega
  constructor
  · intro h
    by_cases h0 : Num.toRat x < 0
    · rw [(fact_neg x h0).1] at h; cases h
    · by_cases h1 : (171 : Rat) ≤ Num.toRat x
      · rw [(fact_big x).1 h1] at h; cases h
      · rw [fact_value x (not_lt.mp h0) (not_le.mp h1)] at h
        cases h
        exact ⟨_, key 171 _ (not_lt.mp h0) (by exact_mod_cast not_le.mp h1), rfl⟩
  · intro h
    by_cases h0 : Num.toRat x < 0
    · rw [(fact_neg x h0).2] at h; cases h
    · by_cases h1 : (301 : Rat) ≤ Num.toRat x
      · rw [(fact_big x).2 h1] at h; cases h
      · rw [factdouble_value x (not_lt.mp h0) (not_le.mp h1)] at h
        cases h
        exact ⟨_, key 301 _ (not_lt.mp h0) (by exact_mod_cast not_le.mp h1), rfl⟩

example := (fact_bounded (.int 5) _).1 (fact_spec.1 5 (by decide))

/-! ## rounding -/

-- `2 ^ 1024`, `10 ^ 1025` appear as literals in the statements below
set_option exponentiation.threshold 1200

/-- ROUND(x, d) is a multiple of 10^-d within half a unit of x: ALL ints, all floats below 2^1024 in
    magnitude (every double), ALL int digits.  (Where the place is far left of the number —
    `-d > max(1024, bit length)` — the code answers `number * 0` at once; that IS the nearest
    multiple, since one unit is more than twice the number.) -/
theorem round_spec (x : Num) (d : Int) (hx : InDoubleRange x) :
    ∃ r : Num, ROUND [.num x, .num (.int d)] = .ok (.num r) ∧
      (∃ k : Int, Num.toRat r = (k : Rat) / pow10 d) ∧
      |Num.toRat r - Num.toRat x| ≤ (1 / 2) / pow10 d := by
  cases hb : placeBeyond x (.int d)
  · exact ⟨pyRound x d, round_value x d hb, pyRound_spec x d⟩
  · obtain ⟨_, h2, _⟩ := beyond_magnitude x d hb hx
    refine ⟨mulZero x, round_beyond x _ hb, ⟨0, by simp [toRat_mulZero]⟩, ?_⟩
    rw [toRat_mulZero, zero_sub, abs_neg]
    have e : (1 / 2 : Rat) / pow10 d = (1 / 2) * (1 / pow10 d) := by ring
    rw [e]; linarith

example := round_spec (.int 25) (-1) (fun _ h => by cases h)
example := round_spec (.int (10 ^ 310)) (-309) (fun _ h => by cases h)
example := round_spec (.flt (5 / 2)) (-(10 ^ 15)) (fun q h => by cases h; decide +kernel)
example : isInt (ROUND [.num (.int 7), .num (.int (-10 ^ 15))]) 0 = true := by decide +kernel
example : isInt (ROUND [.num (.int (10 ^ 310)), .num (.int (-309))]) (10 ^ 310) = true := by decide +kernel

/-- the shortcut of ROUND (an int or a float `digits`): `number * 0`, a zero of the number's kind,
    exactly where `-digits > max(1024, size)`, size = bit length of an int, 0 for a float -/
theorem round_place_beyond (x dn : Num) :
    (placeBeyond x dn = true ↔ ((max 1024 (numSize x) : Int) : Rat) < -Num.toRat dn) ∧
    (placeBeyond x dn = true → ROUND [.num x, .num dn] = .ok (.num (mulZero x)) ∧ Num.toRat (mulZero x) = 0 ∧
      (∀ i : Int, x = .int i → mulZero x = .int 0)) :=
  ⟨placeBeyond_iff x dn, fun h => ⟨round_beyond x dn h, toRat_mulZero x, fun i hi => by subst hi; rfl⟩⟩

example := (round_place_beyond (.flt (5 / 2)) (.flt (-2051 / 2))).2 (by decide +kernel)
example : placeBeyond (.int (2 ^ 1030)) (.int (-1031)) = false ∧ placeBeyond (.int (2 ^ 1030)) (.int (-1032)) = true ∧
    placeBeyond (.int (2 ^ 1030 - 1)) (.int (-1031)) = true ∧ placeBeyond (.flt (5 / 2)) (.int (-1024)) = false ∧
    placeBeyond (.flt (5 / 2)) (.int (-1025)) = true := by decide +kernel

/-- a float `digits` that does not put the place beyond the number is a TypeError of `round`
    (→ #ERROR!) -/
theorem round_float_digits (x : Num) (q : Rat) (h : placeBeyond x (.flt q) = false) :
    ROUND [.num x, .num (.flt q)] = .error .error := by
  simp [ROUND, parseNumber_num, h]

/-- ROUNDUP(x, d) is the multiple of 10^-d with |x| ≤ |r| < |x| + 10^-d and the sign of x: ALL ints,
    all floats that are multiples of 2^-1074 (every double), ALL int digits —
    except where the place is far left of a NON-ZERO number (`roundup_beyond_num`: #NUM!).
    (Beyond 1074 digits the code returns the number at once: it IS a multiple of 10^-d then.) -/
theorem roundup_spec (x : Num) (d : Int) (hg : OnDoubleGrid x)
    (h : placeBeyond x (.int d) = true → Num.toRat x = 0) :
    ∃ r : Num, ROUNDUP [.num x, .num (.int d)] = .ok (.num r) ∧
      (∃ k : Int, Num.toRat r = (k : Rat) / pow10 d) ∧
      |Num.toRat x| ≤ |Num.toRat r| ∧ |Num.toRat r| < |Num.toRat x| + 1 / pow10 d ∧
      (0 ≤ Num.toRat x → 0 ≤ Num.toRat r) ∧ (Num.toRat x ≤ 0 → Num.toRat r ≤ 0) := by
  have hp : 0 < 1 / pow10 d := by have := pow10_pos d; positivity
  by_cases h1 : 1074 < d
  · have hr : (1074 : Rat) < Num.toRat (.int d) := by simp only [Num.toRat]; exact_mod_cast h1
    exact ⟨x, roundDirFn_above true x _ hr, multiple_above x d h1 hg, le_refl _, by linarith, id, id⟩
  · cases hb : placeBeyond x (.int d)
    · obtain ⟨r, hr, hv⟩ := roundDirFn_value true x d (by omega) hb
      refine ⟨r, hr, ?_⟩
      rw [hv]
      exact roundDir_up_spec (Num.toRat x) d
    · have hz := h hb
      have := roundDirFn_beyond true x (.int d) hb
      rw [if_neg (fun hc => hc.2 hz)] at this
      refine ⟨mulZero x, this, ⟨0, by simp [toRat_mulZero]⟩, ?_⟩
      rw [toRat_mulZero, hz, abs_zero]
      exact ⟨le_refl _, by linarith, fun _ => le_refl _, fun _ => le_refl _⟩

example := roundup_spec (.int 300000) (-5) (fun _ h => by cases h) (fun h => by revert h; decide +kernel)
example := roundup_spec (.int 3) 1075 (fun _ h => by cases h) (fun h => by revert h; decide +kernel)
example := roundup_spec (.int 0) (-2000) (fun _ h => by cases h) (fun _ => by decide +kernel)
example : OnDoubleGrid (.flt (1 / 2 ^ 1022)) := fun q h => by cases h; exact ⟨2 ^ 52, by norm_num⟩
example := roundup_spec (.flt (1 / 2 ^ 1022)) 1075 (fun q h => by cases h; exact ⟨2 ^ 52, by norm_num⟩)
  (fun h => by revert h; decide +kernel)
example : isInt (ROUNDUP [.num (.int 3), .num (.int (10 ^ 15))]) 3 = true := by decide +kernel

/-- ROUNDUP of a non-zero number to a place far left of it (`-digits > max(1024, size)`, an int or a
    float `digits`) is #NUM!, of a zero the zero of its kind.  #NUM! is justified: every multiple
    of 10^-d at or above the number in magnitude is at least 10^1025, beyond the XL numbers -/
theorem roundup_beyond_num (x dn : Num) (hb : placeBeyond x dn = true) :
    (Num.toRat x ≠ 0 → ROUNDUP [.num x, .num dn] = .ok (.err .num)) ∧
    (Num.toRat x = 0 → ROUNDUP [.num x, .num dn] = .ok (.num (mulZero x))) ∧
    (∀ (d : Int) (k : Int), dn = .int d → InDoubleRange x → Num.toRat x ≠ 0 →
      |Num.toRat x| ≤ |(k : Rat) / pow10 d| → (10 : Rat) ^ 1025 ≤ |(k : Rat) / pow10 d|) := by
  have hbb := roundDirFn_beyond true x dn hb
  refine ⟨fun hx => ?_, fun hx => ?_, ?_⟩
  · rw [ROUNDUP, hbb, if_pos ⟨rfl, hx⟩]
  · rw [ROUNDUP, hbb, if_neg (fun hc => hc.2 hx)]
  · intro d k hd hr hx hle
    subst hd
    obtain ⟨_, _, hu⟩ := beyond_magnitude x d hb hr
    have hp := pow10_pos d
    have hk : k ≠ 0 := by
      rintro rfl
      have : |Num.toRat x| ≤ 0 := by simpa using hle
      exact hx (abs_eq_zero.mp (le_antisymm this (abs_nonneg _)))
    have hk1 : (1 : Rat) ≤ |(k : Rat)| := by
      have : (1 : Int) ≤ |k| := Int.one_le_abs hk
      exact_mod_cast this
    rw [abs_div, abs_of_pos hp, div_eq_mul_one_div]
    calc (10 : Rat) ^ 1025 ≤ 1 * (1 / pow10 d) := by linarith
      _ ≤ |(k : Rat)| * (1 / pow10 d) := mul_le_mul_of_nonneg_right hk1 (by positivity)

example := (roundup_beyond_num (.int 5) (.int (-1025)) (by decide +kernel)).1 (by decide +kernel)
example := (roundup_beyond_num (.flt 0) (.int (-1025)) (by decide +kernel)).2.1 (by decide +kernel)
example : isErr (ROUNDUP [.num (.int 5), .num (.int (-10 ^ 15))]) .num = true := by decide +kernel
example : isErr (ROUNDUP [.num (.int (10 ^ 310)), .num (.int (-1031))]) .num = true := by decide +kernel

/-- the repaired defect: ROUNDUP(300000, -5) is 300000 (the float `10**-5` made it 399999.99999999994) -/
example : isInt (ROUNDUP [.num (.int 300000), .num (.int (-5))]) 300000 = true := by decide +kernel
example : isFlt (ROUNDUP [.num (.int 3), .num (.int 0)]) 3 = true := by decide +kernel

example : isInt (ROUND [.num (.int 25), .num (.int (-1))]) 20 = true := by decide +kernel
example : isFlt (ROUND [.num (.flt (5 / 2)), .num (.int 0)]) 2 = true := by decide +kernel

/-- ROUNDDOWN(x, d) is the multiple of 10^-d with |x| - 10^-d < |r| ≤ |x| and the sign of x: ALL
    ints, all floats that are below 2^1024 and multiples of 2^-1074 (every double), ALL int digits.
    (Beyond 1074 digits the code returns the number at once, far left of the number `number * 0`:
    both ARE the multiple the statement asks for.) -/
theorem rounddown_spec (x : Num) (d : Int) (hx : InDoubleRange x) (hg : OnDoubleGrid x) :
    ∃ r : Num, ROUNDDOWN [.num x, .num (.int d)] = .ok (.num r) ∧
      (∃ k : Int, Num.toRat r = (k : Rat) / pow10 d) ∧
      |Num.toRat x| - 1 / pow10 d < |Num.toRat r| ∧ |Num.toRat r| ≤ |Num.toRat x| ∧
      (0 ≤ Num.toRat x → 0 ≤ Num.toRat r) ∧ (Num.toRat x ≤ 0 → Num.toRat r ≤ 0) := by
  have hp : 0 < 1 / pow10 d := by have := pow10_pos d; positivity
  by_cases h1 : 1074 < d
  · have hr : (1074 : Rat) < Num.toRat (.int d) := by simp only [Num.toRat]; exact_mod_cast h1
    exact ⟨x, roundDirFn_above false x _ hr, multiple_above x d h1 hg, by linarith, le_refl _, id, id⟩
  · cases hb : placeBeyond x (.int d)
    · obtain ⟨r, hr, hv⟩ := roundDirFn_value false x d (by omega) hb
      refine ⟨r, hr, ?_⟩
      rw [hv]
      exact roundDir_down_spec (Num.toRat x) d
    · obtain ⟨_, h2, _⟩ := beyond_magnitude x d hb hx
      have := roundDirFn_beyond false x (.int d) hb
      rw [if_neg (by simp)] at this
      refine ⟨mulZero x, this, ⟨0, by simp [toRat_mulZero]⟩, ?_⟩
      rw [toRat_mulZero, abs_zero]
      have := abs_nonneg (Num.toRat x)
      exact ⟨by linarith, this, fun _ => le_refl _, fun _ => le_refl _⟩

example := rounddown_spec (.flt (-11 / 4)) (-308) (fun q h => by cases h; decide +kernel)
  (fun q h => by cases h; exact ⟨-11 * 2 ^ 1072, by norm_num⟩)
example := rounddown_spec (.int (10 ^ 310)) (-1031) (fun _ h => by cases h) (fun _ h => by cases h)
example : isInt (ROUNDDOWN [.num (.int (10 ^ 310)), .num (.int (-1031))]) 0 = true := by decide +kernel
example : isFlt (ROUNDDOWN [.num (.flt (-5 / 2)), .num (.int (-10 ^ 15))]) 0 = true := by decide +kernel
example : isFlt (ROUNDDOWN [.num (.flt (1 / 2 ^ 1022)), .num (.int 1075)]) (1 / 2 ^ 1022) = true := by decide +kernel

/-- beyond 1074 digits (an int or a float `digits`) ROUNDUP and ROUNDDOWN return the number itself,
    of the same kind (`number + 0`), at once — `10 ** digits` is not computed; for an int and for
    every multiple of 2^-1074 that is a multiple of 10^-d (so the statements above cover it) -/
theorem round_dir_above (x dn : Num) (h : 1074 < Num.toRat dn) :
    ROUNDUP [.num x, .num dn] = .ok (.num x) ∧ ROUNDDOWN [.num x, .num dn] = .ok (.num x) ∧
    (∀ d : Int, dn = .int d → OnDoubleGrid x → ∃ k : Int, Num.toRat x = (k : Rat) / pow10 d) := by
  refine ⟨roundDirFn_above true x dn h, roundDirFn_above false x dn h, ?_⟩
  intro d hd hg
  subst hd
  have : (1074 : Rat) < ((d : Int) : Rat) := by simpa [Num.toRat] using h
  exact multiple_above x d (by exact_mod_cast this) hg

example := round_dir_above (.flt (5 / 2)) (.flt (2149 / 2)) (by decide +kernel)

/-- the work of ROUND / ROUNDUP / ROUNDDOWN is bounded in the size of the number: whatever the
    arguments, either a shortcut answers at once or `-max(1024, size) ≤ digits` (and `digits ≤ 1074`
    for ROUNDUP / ROUNDDOWN), so the power of ten the code computes, `10 ** |digits|`, has at most
    max(1075, bit length + 1) digits (before the repairs ROUNDUP(1, -10^15) computed a power of ten
    with 10^15 digits) -/
theorem round_dir_bounded (up : Bool) (x : Num) (d : Int) :
    ((1074 < d ∧ roundDirFn up [.num x, .num (.int d)] = .ok (.num x)) ∨
     (max 1024 (numSize x) < -d ∧ roundDirFn up [.num x, .num (.int d)] =
       if up = true ∧ Num.toRat x ≠ 0 then .ok (.err .num) else .ok (.num (mulZero x))) ∨
     (-(max 1024 (numSize x)) ≤ d ∧ d ≤ 1074 ∧ ∃ r : Num, roundDirFn up [.num x, .num (.int d)] = .ok (.num r) ∧
       Num.toRat r = roundDir up (Num.toRat x) d)) ∧
    ((max 1024 (numSize x) < -d ∧ ROUND [.num x, .num (.int d)] = .ok (.num (mulZero x))) ∨
     (-(max 1024 (numSize x)) ≤ d ∧ ROUND [.num x, .num (.int d)] = .ok (.num (pyRound x d)))) := by
  constructor
  · by_cases h1 : 1074 < d
    · exact .inl ⟨h1, roundDirFn_above up x (.int d) (by simp only [Num.toRat]; exact_mod_cast h1)⟩
    · cases hb : placeBeyond x (.int d)
      · have : ¬ (max 1024 (numSize x) < -d) := fun hc => by
          rw [(placeBeyond_int x d).mpr hc] at hb; cases hb
        exact .inr (.inr ⟨by omega, by omega, roundDirFn_value up x d (by omega) hb⟩)
      · exact .inr (.inl ⟨(placeBeyond_int x d).mp hb, roundDirFn_beyond up x (.int d) hb⟩)
  · cases hb : placeBeyond x (.int d)
    · have : ¬ (max 1024 (numSize x) < -d) := fun hc => by
        rw [(placeBeyond_int x d).mpr hc] at hb; cases hb
      exact .inr ⟨by omega, round_value x d hb⟩
    · exact .inl ⟨(placeBeyond_int x d).mp hb, round_beyond x _ hb⟩

/-- CEILING(x, s), s ≠ 0, is a multiple of s less than |s| away from x; at or above x when
    x ≥ 0 or s > 0 (rounded up), at or below x when both are negative (away from zero) -/
theorem ceiling_spec (x s : Num) (hs : Num.toRat s ≠ 0) :
    ∃ r : Num, CEILING [.num x, .num s] = .ok (.num r) ∧
      (∃ k : Int, Num.toRat r = (k : Rat) * Num.toRat s) ∧
      |Num.toRat r - Num.toRat x| < |Num.toRat s| ∧
      ((0 ≤ Num.toRat x ∨ 0 < Num.toRat s) → Num.toRat x ≤ Num.toRat r) ∧
      ((Num.toRat x < 0 ∧ Num.toRat s < 0) → Num.toRat r ≤ Num.toRat x) := by
  obtain ⟨r, hr, h⟩ := ceilingNum_spec x s hs
  exact ⟨r, by simp [CEILING, ceilingCore, parseNumber_num, hr], h⟩

example : isInt (CEILING [.num (.flt (-11 / 2)), .num (.int 2)]) (-4) = true := by decide +kernel
example := ceiling_spec (.flt (-11 / 2)) (.int 2) (by decide +kernel)

/-- FLOOR(x, s), s ≠ 0: #NUM! for a positive number with a negative significance; otherwise a
    multiple of s less than |s| away from x, at or below x — except when both are negative,
    where it is at or above x (toward zero) -/
theorem floor_spec (x s : Num) (hs : Num.toRat s ≠ 0) :
    ((0 < Num.toRat x ∧ Num.toRat s < 0) → FLOOR [.num x, .num s] = .ok (.err .num)) ∧
    (¬ (0 < Num.toRat x ∧ Num.toRat s < 0) →
      ∃ r : Num, FLOOR [.num x, .num s] = .ok (.num r) ∧
        (∃ k : Int, Num.toRat r = (k : Rat) * Num.toRat s) ∧
        |Num.toRat r - Num.toRat x| < |Num.toRat s| ∧
        ((Num.toRat x < 0 ∧ Num.toRat s < 0) → Num.toRat x ≤ Num.toRat r) ∧
        (¬ (Num.toRat x < 0 ∧ Num.toRat s < 0) → Num.toRat r ≤ Num.toRat x)) := by
  constructor
  · intro h
    simp [FLOOR, floorCore, parseNumber_num, floorNum_num x s h.1 h.2]
  · intro h
    obtain ⟨r, hr, h'⟩ := floorNum_spec x s hs h
    exact ⟨r, by simp [FLOOR, floorCore, parseNumber_num, hr], h'⟩

example : isInt (FLOOR [.num (.flt (-11 / 2)), .num (.int (-2))]) (-4) = true := by decide +kernel
example : isErr (FLOOR [.num (.flt (11 / 2)), .num (.int (-2))]) .num = true := by decide +kernel
example := (floor_spec (.flt (-11 / 2)) (.int (-2)) (by decide +kernel)).2 (by decide +kernel)
example := (floor_spec (.flt (11 / 2)) (.int (-2)) (by decide +kernel)).1 (by decide +kernel)

/-- with the significance omitted CEILING and FLOOR use 1 -/
theorem ceiling_floor_default (x : Value) :
    CEILING [x] = CEILING [x, .num (.int 1)] ∧ FLOOR [x] = FLOOR [x, .num (.int 1)] := ⟨rfl, rfl⟩

/-- the registry maps the names (with the .MATH / .PRECISE aliases) to the modelled functions -/
theorem registered :
    (Builtins.table.map (·.1)).filter (fun n => n ∈ ["ROUND", "ROUNDUP", "ROUNDDOWN", "CEILING", "CEILING.MATH",
      "CEILING.PRECISE", "FLOOR", "FLOOR.MATH", "FLOOR.PRECISE", "QUOTIENT", "MOD", "ODD", "EVEN", "FACT", "FACTDOUBLE",
      "INT", "SIGN", "DECIMAL", "BASE", "ROMAN", "ARABIC", "HEX2DEC", "DEC2HEX", "COMPLEX", "IMREAL", "IMAGINARY", "DELTA"])
    = ["ROUND", "ROUNDUP", "ROUNDDOWN", "CEILING", "CEILING.MATH", "CEILING.PRECISE", "FLOOR", "FLOOR.MATH",
       "FLOOR.PRECISE", "QUOTIENT", "MOD", "ODD", "EVEN", "FACT", "FACTDOUBLE", "INT", "SIGN", "DECIMAL", "BASE",
       "ROMAN", "ARABIC", "HEX2DEC", "DEC2HEX", "COMPLEX", "IMREAL", "IMAGINARY", "DELTA"] := by
  decide +kernel

end HotXL.Props.C17
