/-
  C18 — lookup functions return the addressed element or an error, never another one.

  All theorems are about `HotXL.Fn.Lookup.CHOOSE / INDEX / MATCH` (model of
  hotxlfp/formulas/lookupandreference.py) and hold for arrays of ANY length.  A builtin's
  result `.ok v` is the value the Python function returns; `.error e` means it raised, which
  `Parser.call_function` turns into the error value `e` — so both `.ok (.err e)` and `.error e`
  are "an error" for the formula.

  Vocabulary (defined in `HotXL.Lemmas.Lookup`):
  * `idxVal none` = an omitted / blank index, `idxVal (some i)` = the integer `i`;
  * `arr2 rows` = the nested (two-dimensional) array with these rows, `column? rows k` = its
    column `k` (0-based) when every row is long enough;
  * `spec2d` / `spec1d` = what the statement prescribes for nested / flat arrays, written with
    Lean's `xs[k]?` (which never wraps around);
  * `GlobMatches` = the textbook meaning of `*` and `?`;  `eqv x item` = "item equals x" at
    match type 0;  `TextOK x xs` = a text lookup value has no `[` and then all items are text;
  * `Ascending ns` / `Descending ns` = `List.Pairwise (≤)` / `(≥)` on the numeric values;
    `posValue i` = the 1-based position `i + 1` as a value.
-/
import HotXL.Lemmas.Lookup
import HotXL.Lemmas.Routes

namespace HotXL.Props.C18
open HotXL HotXL.Ops HotXL.Fn HotXL.Fn.Lookup HotXL.Lookup

/-! ## CHOOSE -/

/-- CHOOSE(i, v1..vn) returns `vi` for every integer 1 ≤ i ≤ n (n ≤ 254) -/
theorem choose_spec (i : Int) (vs : List Value) (h1 : 1 ≤ i) (hn : i ≤ vs.length) (h254 : i ≤ 254) :
    ∃ h : (i - 1).toNat < vs.length, CHOOSE (.num (.int i) :: vs) = .ok vs[(i - 1).toNat] := by
  have hlt : (i - 1).toNat < vs.length := by omega
  refine ⟨hlt, ?_⟩
  have hlen : ¬ (vs.length + 1 < 2) := by omega
  have c1 : ¬ ((i:Rat) < 1 ∨ (i:Rat) > 254) := by
    rw [cast_lt_one, cast_gt_254]; omega
  have c2 : ¬ ((((vs.length + 1 : Nat) : Int) : Rat) < (i:Rat) + 1) := by
    rw [cast_len_lt]; omega
  simp only [CHOOSE, hlen, if_false, asNumber?, Num.toRat, c1, List.length_cons, c2,
    pyListGet_cons_pos _ _ _ h1, List.getElem?_eq_getElem hlt]

example : CHOOSE [.num (.int 2), .str "a".toList, .str "b".toList, .str "c".toList] = .ok (.str "b".toList) := by
  obtain ⟨_, h⟩ := choose_spec 2 [.str "a".toList, .str "b".toList, .str "c".toList] (by decide) (by decide) (by decide)
  exact h

/-- CHOOSE with an integer index outside 1..n (or beyond 254) is `#VALUE!` -/
theorem choose_outside (i : Int) (vs : List Value) (hvs : vs ≠ [])
    (h : i < 1 ∨ (vs.length : Int) < i ∨ 254 < i) :
    CHOOSE (.num (.int i) :: vs) = .ok (.err .value) := by
  have hlen : ¬ (vs.length + 1 < 2) := by
    cases vs with
    | nil => exact absurd rfl hvs
    | cons _ _ => simp
  simp only [CHOOSE, List.length_cons, hlen, if_false, asNumber?, Num.toRat]
  by_cases c1 : ((i:Rat) < 1 ∨ (i:Rat) > 254)
  · simp only [c1, if_true]
  · simp only [c1, if_false]
    have c2 : ((((vs.length + 1 : Nat) : Int) : Rat) < (i:Rat) + 1) := by
      rw [cast_len_lt]
      rw [cast_lt_one, cast_gt_254] at c1
      omega
    simp only [c2, if_true]

example : CHOOSE [.num (.int 0), .num (.int 7)] = .ok (.err .value) :=
  choose_outside 0 [.num (.int 7)] (by simp) (by decide)
example : CHOOSE [.num (.int (-1)), .num (.int 7), .num (.int 8)] = .ok (.err .value) :=
  choose_outside (-1) _ (by simp) (by decide)

/-- A value that is an ARRAY is chosen whole: `CHOOSE(i, {v1..vm})` has ONE value - index 1 addresses the array itself,
    every other index is outside 1..1 (`#VALUE!`), whatever the array's length. -/
theorem choose_array_value (i : Int) (xs : List Value) :
    (i = 1 → CHOOSE [.num (.int i), .arr xs] = .ok (.arr xs)) ∧
    (i ≠ 1 → CHOOSE [.num (.int i), .arr xs] = .ok (.err .value)) := by
  constructor
  · intro h
    subst h
    obtain ⟨_, h2⟩ := choose_spec 1 [.arr xs] (by decide) (by simp) (by decide)
    simpa using h2
  · intro h
    exact choose_outside i [.arr xs] (by simp) (by
      by_cases h1 : i < 1
      · exact Or.inl h1
      · right; left
        simp only [List.length_cons, List.length_nil]
        omega)

/-- CHOOSE with no value to choose from is `#N/A` -/
theorem choose_no_values (args : List Value) (h : args.length < 2) : CHOOSE args = .ok (.err .na) := by
  simp only [CHOOSE, h, if_true]

example : CHOOSE [.num (.int 1)] = .ok (.err .na) := choose_no_values _ (by decide)

/-- CHOOSE does not coerce its index: text, a blank, an error, a date or a list as index raise
    (`#ERROR!`) -/
theorem choose_not_number (idx : Value) (vs : List Value) (hvs : vs ≠ []) (h : asNumber? idx = none) :
    CHOOSE (idx :: vs) = .error .error := by
  have hlen : ¬ (vs.length + 1 < 2) := by
    cases vs with
    | nil => exact absurd rfl hvs
    | cons _ _ => simp
  simp only [CHOOSE, List.length_cons, hlen, if_false, h]

example : CHOOSE [.str "1".toList, .num (.int 7)] = .error .error :=
  choose_not_number _ _ (by simp) rfl

/-- never another one: whatever the index is (float, logical, text, …), a result of CHOOSE that is
    not an error value is the value number `i` for an integer index `i` within 1..254 -/
theorem choose_never_other (idx v : Value) (vs : List Value) (h : CHOOSE (idx :: vs) = .ok v) :
    (∃ e, v = .err e) ∨
    (∃ i : Int, asNumber? idx = some (.int i) ∧ 1 ≤ i ∧ i ≤ 254 ∧ vs[(i - 1).toNat]? = some v) := by
  simp only [CHOOSE, List.length_cons] at h
  split at h
  · left; exact ⟨.na, by cases h; rfl⟩
  · split at h
    · cases h
    · rename_i n hn
      split at h
      · left; exact ⟨.value, by cases h; rfl⟩
      · rename_i c1
        split at h
        · left; exact ⟨.value, by cases h; rfl⟩
        · cases n with
          | flt q => cases h
          | int i =>
            simp only [Num.toRat] at c1
            rw [cast_lt_one, cast_gt_254] at c1
            have h1 : 1 ≤ i := by omega
            simp only [pyListGet_cons_pos _ _ _ h1] at h
            split at h
            · rename_i w hw
              right
              refine ⟨i, hn, h1, by omega, ?_⟩
              cases h; exact hw
            · cases h

example : ∃ v, CHOOSE [.num (.int 1), .num (.int 7), .num (.int 8)] = .ok v ∧
    ((∃ e, v = .err e) ∨ [Value.num (.int 7), .num (.int 8)][0]? = some v) := by
  obtain ⟨_, h⟩ := choose_spec 1 [.num (.int 7), .num (.int 8)] (by decide) (by decide) (by decide)
  exact ⟨_, h, Or.inr rfl⟩

/-! ## INDEX -/

/-- the argument forms: `INDEX(a)`, `INDEX(a,r)` are `INDEX(a,r,c)` with omitted indices, and a
    fourth argument (`area_num`) is ignored -/
theorem index_forms (a r c area : Value) :
    INDEX [a] = INDEX [a, .blank, .blank] ∧ INDEX [a, r] = INDEX [a, r, .blank] ∧
    INDEX [a, r, c, area] = INDEX [a, r, c] := ⟨rfl, rfl, rfl⟩

/-- INDEX on a nested (two-dimensional) array, completely: for ALL integer or omitted indices the
    result is `spec2d` — `#VALUE!` for a negative index or no index, the whole array for 0/omitted
    twice, column `c` for row 0/omitted, row `r` for column 0/omitted, the element otherwise, and
    `#REF!` whenever the row, the column or the element does not exist (`rows[k]?` does not wrap) -/
theorem index_2d_complete (rows : List (List Value)) (hne : rows ≠ []) (r c : Option Int) :
    INDEX [arr2 rows, idxVal r, idxVal c] = .ok (spec2d rows r c) :=
  index_2d_spec rows hne r c

/-- INDEX on a flat (one-dimensional) array of scalars, completely: a single index (in either
    place) addresses by position; with both indices the array is one column (`c` must be 0 or 1);
    everything else is `#VALUE!` (negative) or `#REF!` -/
theorem index_1d_complete (x0 : Value) (rest : List Value) (h0 : isArr x0 = false) (r c : Option Int) :
    INDEX [.arr (x0 :: rest), idxVal r, idxVal c] = .ok (spec1d (x0 :: rest) r c) :=
  index_1d_spec x0 rest h0 r c

example : INDEX [arr2 [[.num (.int 1), .num (.int 2)], [.num (.int 3), .num (.int 4)]], idxVal (some 2), idxVal none]
    = .ok (.arr [.num (.int 3), .num (.int 4)]) := by
  rw [index_2d_complete _ (by simp)]; rfl
example : INDEX [.arr [.str "abc".toList, .str "de".toList], idxVal none, idxVal (some 2)] = .ok (.str "de".toList) := by
  rw [index_1d_complete _ _ rfl]; rfl

/-- a value that is not a list is a 1×1 array -/
theorem index_scalar (a r c : Value) (h1 : isArr a = false) (h2 : a ≠ .blank) :
    INDEX [a, r, c] = INDEX [arr2 [[a]], r, c] := by
  cases a <;> first | rfl | (exact absurd rfl h2) | (simp [isArr] at h1)

example : INDEX [.num (.int 1), .num (.int 1), .num (.int 2)] = .ok (.err .ref) := by
  rw [index_scalar _ _ _ rfl (by simp)]
  exact index_2d_complete [[.num (.int 1)]] (by simp) (some 1) (some 2)

/-- inside a two-dimensional array INDEX(array, r, c) is the element in row `r`, column `c` -/
theorem index_inside_2d (rows : List (List Value)) (r c : Int) (row : List Value) (v : Value)
    (hr : 1 ≤ r) (hc : 1 ≤ c)
    (hrow : rows[(r - 1).toNat]? = some row) (hv : row[(c - 1).toNat]? = some v) :
    INDEX [arr2 rows, .num (.int r), .num (.int c)] = .ok v := by
  have hne : rows ≠ [] := by intro h; subst h; simp at hrow
  have h := index_2d_spec rows hne (some r) (some c)
  simp only [idxVal] at h
  rw [h, spec2d_nonneg rows (some r) (some c) (by simp) (by simp only [Option.getD]; omega)]
  simp only [Option.getD]
  rw [if_neg (by omega), if_neg (by omega), if_neg (by omega), hrow]
  simp only [Option.bind, hv, refOr, Option.getD]

example : INDEX [arr2 [[.num (.int 1), .num (.int 2)], [.num (.int 3), .num (.int 4)]], .num (.int 2), .num (.int 1)]
    = .ok (.num (.int 3)) :=
  index_inside_2d _ 2 1 [.num (.int 3), .num (.int 4)] _ (by decide) (by decide) rfl rfl

/-- a whole row: INDEX(array, r) = INDEX(array, r, ) = INDEX(array, r, 0) = row `r` -/
theorem index_whole_row (rows : List (List Value)) (r : Int) (row : List Value) (hr : 1 ≤ r)
    (hrow : rows[(r - 1).toNat]? = some row) :
    INDEX [arr2 rows, .num (.int r)] = .ok (.arr row) ∧
    INDEX [arr2 rows, .num (.int r), .blank] = .ok (.arr row) ∧
    INDEX [arr2 rows, .num (.int r), .num (.int 0)] = .ok (.arr row) := by
  have hne : rows ≠ [] := by intro h; subst h; simp at hrow
  have ha := index_2d_spec rows hne (some r) none
  have hb := index_2d_spec rows hne (some r) (some 0)
  simp only [idxVal] at ha hb
  have e : spec2d rows (some r) none = .arr row := by
    rw [spec2d_nonneg rows (some r) none (by simp) (by simp only [Option.getD]; omega)]
    simp only [Option.getD]
    generalize (r - 1).toNat = k at hrow ⊢
    simp [show ¬ r = 0 by omega, hrow, refOr]
  have e' : spec2d rows (some r) (some 0) = .arr row := by
    rw [spec2d_nonneg rows (some r) (some 0) (by simp) (by simp only [Option.getD]; omega)]
    simp only [Option.getD]
    generalize (r - 1).toNat = k at hrow ⊢
    simp [show ¬ r = 0 by omega, hrow, refOr]
  rw [e] at ha; rw [e'] at hb
  exact ⟨ha, ha, hb⟩

example : INDEX [arr2 [[.num (.int 1), .num (.int 2)], [.num (.int 3), .num (.int 4)]], .num (.int 2)]
    = .ok (.arr [.num (.int 3), .num (.int 4)]) :=
  (index_whole_row _ 2 _ (by decide) rfl).1

/-- a whole column: INDEX(array, , c) = INDEX(array, 0, c) = the list of the `c`-th items of all
    rows (`col.map some = rows.map (·[c-1]?)`: same length, item by item) -/
theorem index_whole_col (rows : List (List Value)) (c : Int) (hne : rows ≠ []) (hc : 1 ≤ c)
    (hlen : ∀ row ∈ rows, (c - 1).toNat < row.length) :
    ∃ col : List Value, col.map some = rows.map (fun row => row[(c - 1).toNat]?) ∧
      INDEX [arr2 rows, .blank, .num (.int c)] = .ok (.arr col) ∧
      INDEX [arr2 rows, .num (.int 0), .num (.int c)] = .ok (.arr col) := by
  obtain ⟨col, hcol⟩ := column?_isSome rows (c - 1).toNat hlen
  refine ⟨col, (column?_eq_some_iff rows _ col).mp hcol, ?_, ?_⟩
  · have ha := index_2d_spec rows hne none (some c)
    simp only [idxVal] at ha
    rw [ha, spec2d_nonneg rows none (some c) (by simp) (by simp only [Option.getD]; omega)]
    simp only [Option.getD]
    generalize (c - 1).toNat = k at hcol ⊢
    simp [show ¬ c = 0 by omega, hcol, refOr]
  · have ha := index_2d_spec rows hne (some 0) (some c)
    simp only [idxVal] at ha
    rw [ha, spec2d_nonneg rows (some 0) (some c) (by simp) (by simp only [Option.getD]; omega)]
    simp only [Option.getD]
    generalize (c - 1).toNat = k at hcol ⊢
    simp [show ¬ c = 0 by omega, hcol, refOr]

example : INDEX [arr2 [[.num (.int 1), .num (.int 2), .num (.int 3)], [.num (.int 4), .num (.int 5), .num (.int 6)]],
    .blank, .num (.int 2)] = .ok (.arr [.num (.int 2), .num (.int 5)]) := by rfl

/-- the whole array: both indices 0 or omitted (not both omitted) -/
theorem index_whole_array (rows : List (List Value)) (hne : rows ≠ []) :
    INDEX [arr2 rows, .num (.int 0)] = .ok (arr2 rows) ∧
    INDEX [arr2 rows, .num (.int 0), .num (.int 0)] = .ok (arr2 rows) ∧
    INDEX [arr2 rows, .blank, .num (.int 0)] = .ok (arr2 rows) := by
  have ha := index_2d_spec rows hne (some 0) none
  have hb := index_2d_spec rows hne (some 0) (some 0)
  have hc := index_2d_spec rows hne none (some 0)
  simp only [idxVal] at ha hb hc
  exact ⟨ha, hb, hc⟩

example : INDEX [arr2 [[.str "a".toList], [.str "b".toList]], .num (.int 0), .num (.int 0)]
    = .ok (arr2 [[.str "a".toList], [.str "b".toList]]) :=
  (index_whole_array _ (by simp)).2.1

/-- outside a rectangular two-dimensional array (R rows of C items) — an index negative, a row
    index beyond R or a column index beyond C, in any of the forms — the result is an error value:
    `#VALUE!` for a negative index, `#REF!` otherwise.  Never an element. -/
theorem index_outside_2d (rows : List (List Value)) (C : Nat) (hne : rows ≠ [])
    (hrect : ∀ row ∈ rows, row.length = C) (r c : Option Int)
    (hout : r.getD 0 < 0 ∨ c.getD 0 < 0 ∨ (rows.length : Int) < r.getD 0 ∨ (C : Int) < c.getD 0) :
    INDEX [arr2 rows, idxVal r, idxVal c] =
      .ok (.err (if r.getD 0 < 0 ∨ c.getD 0 < 0 then .value else .ref)) := by
  rw [index_2d_spec rows hne r c]
  congr 1
  by_cases hneg : r.getD 0 < 0 ∨ c.getD 0 < 0
  · rw [if_pos hneg, spec2d_neg rows r c hneg]
  · rw [if_neg hneg]
    have hnn : ¬ (r = none ∧ c = none) := by
      rintro ⟨rfl, rfl⟩
      simp only [Option.getD] at hout
      omega
    rw [spec2d_nonneg rows r c hnn hneg]
    have hbig : (rows.length : Int) < r.getD 0 ∨ (C : Int) < c.getD 0 := by omega
    have hpos : 0 < rows.length := List.length_pos_iff.mpr hne
    by_cases hr0 : r.getD 0 = 0
    · have hcC : (C : Int) < c.getD 0 := by omega
      have hcol : column? rows (c.getD 0 - 1).toNat = none :=
        column?_none rows _ hne (fun row hrow => by have := hrect row hrow; omega)
      rw [if_neg (by omega), if_pos hr0, hcol]
      rfl
    · by_cases hrR : (rows.length : Int) < r.getD 0
      · have hnone : rows[(r.getD 0 - 1).toNat]? = none := by
          apply List.getElem?_eq_none; omega
        rw [if_neg (by omega), if_neg hr0, hnone]
        by_cases hc0 : c.getD 0 = 0
        · rw [if_pos hc0]; rfl
        · rw [if_neg hc0]; rfl
      · have hcC : (C : Int) < c.getD 0 := by omega
        have hlt : (r.getD 0 - 1).toNat < rows.length := by omega
        have hrow : rows[(r.getD 0 - 1).toNat]? = some rows[(r.getD 0 - 1).toNat] :=
          List.getElem?_eq_getElem hlt
        have hl := hrect _ (List.getElem_mem hlt)
        have hnone : (rows[(r.getD 0 - 1).toNat])[(c.getD 0 - 1).toNat]? = none := by
          apply List.getElem?_eq_none; omega
        rw [if_neg (by omega), if_neg hr0, if_neg (by omega), hrow, Option.bind_some, hnone]
        rfl

example : INDEX [arr2 [[.num (.int 1), .num (.int 2)], [.num (.int 3), .num (.int 4)]], .num (.int (-1)), .num (.int 1)]
    = .ok (.err .value) :=
  index_outside_2d _ 2 (by simp) (by simp) (some (-1)) (some 1) (by decide)
example : INDEX [arr2 [[.num (.int 1), .num (.int 2)], [.num (.int 3), .num (.int 4)]], .num (.int 2), .num (.int 3)]
    = .ok (.err .ref) :=
  index_outside_2d _ 2 (by simp) (by simp) (some 2) (some 3) (by decide)

/-- inside a one-dimensional array INDEX addresses by position: INDEX(v, i), INDEX(v, , i),
    INDEX(v, i, 1) (and INDEX(v, i, 0)) are the `i`-th item -/
theorem index_inside_1d (x0 : Value) (rest : List Value) (h0 : isArr x0 = false) (i : Int) (v : Value)
    (hi : 1 ≤ i) (hv : (x0 :: rest)[(i - 1).toNat]? = some v) :
    INDEX [.arr (x0 :: rest), .num (.int i)] = .ok v ∧
    INDEX [.arr (x0 :: rest), .blank, .num (.int i)] = .ok v ∧
    INDEX [.arr (x0 :: rest), .num (.int i), .num (.int 1)] = .ok v ∧
    INDEX [.arr (x0 :: rest), .num (.int i), .num (.int 0)] = .ok v := by
  have ha := index_1d_spec x0 rest h0 (some i) none
  have hb := index_1d_spec x0 rest h0 none (some i)
  have hc := index_1d_spec x0 rest h0 (some i) (some 1)
  have hd := index_1d_spec x0 rest h0 (some i) (some 0)
  simp only [idxVal] at ha hb hc hd
  have h1 : ¬ i < 0 := by omega
  have h2 : ¬ i = 0 := by omega
  have e : single1d (x0 :: rest) i = v := by
    simp only [single1d, h1, h2, if_false, hv, refOr, Option.getD]
  have e1 : spec1d (x0 :: rest) (some i) (some 1) = v := by
    have g1 : ¬ (i < 0 ∨ (1:Int) < 0) := by omega
    have g2 : ¬ (i = 0 ∧ (1:Int) = 0) := by omega
    simp only [spec1d]
    generalize (i - 1).toNat = k at hv ⊢
    simp [h1, h2, hv, refOr]
  have e0 : spec1d (x0 :: rest) (some i) (some 0) = v := by
    have g1 : ¬ (i < 0 ∨ (0:Int) < 0) := by omega
    have g2 : ¬ (i = 0 ∧ (0:Int) = 0) := by omega
    simp only [spec1d]
    generalize (i - 1).toNat = k at hv ⊢
    simp [h1, h2, hv, refOr]
  simp only [spec1d, e] at ha hb
  rw [e1] at hc; rw [e0] at hd
  exact ⟨ha, hb, hc, hd⟩

example : INDEX [.arr [.num (.int 25), .num (.int 38), .num (.int 40)], .num (.int 2)] = .ok (.num (.int 38)) :=
  (index_inside_1d _ _ rfl 2 _ (by decide) rfl).1

/-- a single index 0 gives the whole one-dimensional array -/
theorem index_whole_1d (x0 : Value) (rest : List Value) (h0 : isArr x0 = false) :
    INDEX [.arr (x0 :: rest), .num (.int 0)] = .ok (.arr (x0 :: rest)) ∧
    INDEX [.arr (x0 :: rest), .blank, .num (.int 0)] = .ok (.arr (x0 :: rest)) ∧
    INDEX [.arr (x0 :: rest), .num (.int 0), .num (.int 0)] = .ok (.arr (x0 :: rest)) := by
  have ha := index_1d_spec x0 rest h0 (some 0) none
  have hb := index_1d_spec x0 rest h0 none (some 0)
  have hc := index_1d_spec x0 rest h0 (some 0) (some 0)
  simp only [idxVal] at ha hb hc
  exact ⟨ha, hb, hc⟩

example : INDEX [.arr [.str "a".toList, .str "b".toList], .num (.int 0)]
    = .ok (.arr [.str "a".toList, .str "b".toList]) :=
  (index_whole_1d _ _ rfl).1

/-- the positions a flat array of `n` items has: a single index 0..n, or (r, c) with r in 1..n and
    c in {0, 1} (one column), or (0, 0) -/
def Addressed1d (n : Nat) : Option Int → Option Int → Prop
  | none, none => False
  | none, some i => 0 ≤ i ∧ i ≤ n
  | some i, none => 0 ≤ i ∧ i ≤ n
  | some r, some c => (r = 0 ∧ c = 0) ∨ (1 ≤ r ∧ r ≤ n ∧ (c = 0 ∨ c = 1))

/-- outside a one-dimensional array of scalars (whatever they are: numbers, TEXT, …) the result is
    an error value — `#VALUE!` for a negative index or no index at all, `#REF!` otherwise; in
    particular a second coordinate never reaches into a text element -/
theorem index_outside_1d (x0 : Value) (rest : List Value) (h0 : isArr x0 = false) (r c : Option Int)
    (hout : ¬ Addressed1d (x0 :: rest).length r c) :
    INDEX [.arr (x0 :: rest), idxVal r, idxVal c] =
      .ok (.err (if r.getD 0 < 0 ∨ c.getD 0 < 0 ∨ (r = none ∧ c = none) then .value else .ref)) := by
  rw [index_1d_spec x0 rest h0 r c]
  congr 1
  have single_out : ∀ i : Int, ¬ (0 ≤ i ∧ i ≤ ((x0 :: rest).length : Nat)) →
      single1d (x0 :: rest) i = .err (if i < 0 then .value else .ref) := by
    intro i hi
    by_cases hneg : i < 0
    · simp only [single1d, hneg, if_true]
    · have h2 : ¬ i = 0 := by omega
      have hnone : (x0 :: rest)[(i - 1).toNat]? = none := by
        apply List.getElem?_eq_none; omega
      simp only [single1d, hneg, h2, if_false, hnone, refOr, Option.getD]
  cases r with
  | none =>
    cases c with
    | none => simp [spec1d]
    | some c =>
      simp only [Addressed1d] at hout
      simp only [spec1d, single_out c hout, Option.getD]
      by_cases hneg : c < 0 <;> simp [hneg]
  | some r =>
    cases c with
    | none =>
      simp only [Addressed1d] at hout
      simp only [spec1d, single_out r hout, Option.getD]
      by_cases hneg : r < 0 <;> simp [hneg]
    | some c =>
      simp only [Addressed1d] at hout
      simp only [spec1d, Option.getD]
      by_cases hneg : r < 0 ∨ c < 0
      · simp [hneg]
      · have hneg' : ¬ (r < 0 ∨ c < 0 ∨ (some r = none ∧ some c = none)) := by simp; omega
        rw [if_neg hneg, if_neg hneg']
        have h00 : ¬ (r = 0 ∧ c = 0) := fun h => hout (Or.inl h)
        rw [if_neg h00]
        by_cases hr0 : r = 0
        · rw [if_pos hr0]
        · rw [if_neg hr0]
          by_cases hc01 : c = 0 ∨ c = 1
          · rw [if_pos hc01]
            have hnone : (x0 :: rest)[(r - 1).toNat]? = none := by
              apply List.getElem?_eq_none
              have : ¬ (1 ≤ r ∧ r ≤ ((x0 :: rest).length : Nat)) := fun h => hout (Or.inr ⟨h.1, h.2, hc01⟩)
              omega
            simp only [hnone, refOr, Option.getD]
          · rw [if_neg hc01]

/-- the defect found and repaired while checking C18: a second coordinate on a one-dimensional
    array of text is `#REF!` (it used to be a CHARACTER of the element: "b") -/
theorem index_text_second_coordinate :
    INDEX [.arr [.str "abc".toList, .str "de".toList], .num (.int 1), .num (.int 2)] = .ok (.err .ref) ∧
    INDEX [.arr [.str "abc".toList, .str "de".toList], .num (.int 0), .num (.int 1)] = .ok (.err .ref) :=
  ⟨index_outside_1d _ _ rfl (some 1) (some 2) (by simp [Addressed1d]),
   index_outside_1d _ _ rfl (some 0) (some 1) (by simp [Addressed1d])⟩

example : INDEX [.arr [.num (.int 1), .num (.int 2), .num (.int 3)], .num (.int (-1))] = .ok (.err .value) :=
  index_outside_1d _ _ rfl (some (-1)) none (by simp [Addressed1d])
example : INDEX [.arr [.num (.int 1), .num (.int 2), .num (.int 3)], .num (.int 4)] = .ok (.err .ref) :=
  index_outside_1d _ _ rfl (some 4) none (by simp [Addressed1d])

/-! ## glob patterns (`fnmatch` on patterns without `[`) -/

/-- `globMatch` decides exactly the textbook relation: `*` any sequence, `?` any one character,
    a literal character itself -/
theorem glob_spec (p s : List Char) : globMatch p s = true ↔ GlobMatches p s :=
  ⟨glob_sound p s, glob_complete p s⟩

example : globMatch "f?o".toList "foo".toList = true ∧ globMatch "f?o".toList "fo".toList = false ∧
    globMatch "a*c".toList "abbbc".toList = true ∧ globMatch "a*c".toList "ac".toList = true ∧
    globMatch "*".toList [] = true ∧ globMatch "a*".toList "ba".toList = false := by decide

/-- `*` stands for any (possibly empty) sequence of characters -/
theorem glob_star (p s : List Char) :
    globMatch ('*' :: p) s = true ↔ ∃ u v, s = u ++ v ∧ globMatch p v = true := by
  rw [globMatch_star, anySuffix_iff]

/-- `?` stands for exactly one character -/
theorem glob_qmark (p s : List Char) :
    globMatch ('?' :: p) s = true ↔ ∃ c v, s = c :: v ∧ globMatch p v = true := by
  cases s with
  | nil => simp [globMatch_cons_nil '?' p (by decide)]
  | cons d s =>
    simp only [globMatch_cons_cons '?' d p s (by decide), decide_true, Bool.true_or, Bool.true_and,
      List.cons.injEq]
    constructor
    · intro h; exact ⟨d, s, ⟨rfl, rfl⟩, h⟩
    · rintro ⟨c, v, ⟨rfl, rfl⟩, h⟩; exact h

/-- a pattern without wildcard characters matches exactly itself -/
theorem glob_no_wildcards (p s : List Char) (h : NoWild p) : globMatch p s = true ↔ p = s :=
  glob_literal p s h

example : globMatch "abc".toList "abc".toList = true := (glob_no_wildcards _ _ (by unfold NoWild; decide)).mpr rfl

/-! ## MATCH, type 0 -/

example : TextOK (.str "f?o".toList) [.str "eee".toList, .str "FOA".toList] :=
  ⟨rfl, fun _ _ v hv => by simp at hv; rcases hv with h | h <;> exact ⟨_, h⟩⟩
example : TextOK (.num (.int 3)) [.num (.int 1), .str "x".toList, .blank] := ⟨rfl, fun _ hp => by cases hp⟩

/-- MATCH(x, array, 0) = the 1-based position of the FIRST item equal to x (`List.findIdx?`), or
    `#N/A` when there is none — numbers by `==`, text by the lower-cased glob -/
theorem match_exact (x : Value) (xs : List Value) (h : TextOK x xs) :
    MATCH [x, .arr xs, .num (.int 0)] = .ok (match xs.findIdx? (eqv x) with
      | some i => posValue i
      | none => .err .na) :=
  match_exact_findIdx x xs h

/-- "equal" for numbers: the same numeric value (1 = 1.0) -/
theorem eqv_num (a b : Num) : eqv (.num a) (.num b) = decide (Num.toRat b = Num.toRat a) := by
  simp [eqv, pyEqValue, pyNumeric?]

/-- "equal" for text: the lower-cased item matches the lower-cased lookup text as a glob pattern;
    without wildcard characters: the two texts are equal ignoring (ASCII) case -/
theorem eqv_text (p s : List Char) :
    eqv (.str p) (.str s) = globMatch (lowerAscii p) (lowerAscii s) ∧
    (NoWild p → (eqv (.str p) (.str s) = true ↔ lowerAscii p = lowerAscii s)) := by
  refine ⟨rfl, fun h => ?_⟩
  simp only [eqv]
  exact glob_literal _ _ (noWild_lower p h)

/-- the position MATCH(x, array, 0) returns is the first one whose item equals x -/
theorem match_exact_found (x : Value) (xs : List Value) (h : TextOK x xs) (i : Nat) :
    MATCH [x, .arr xs, .num (.int 0)] = .ok (posValue i) ↔
      ∃ hi : i < xs.length, eqv x xs[i] = true ∧ ∀ j (hj : j < i), eqv x (xs[j]'(by omega)) = false := by
  rw [match_exact x xs h]
  cases hf : xs.findIdx? (eqv x) with
  | none =>
    simp only [posValue]
    constructor
    · intro h; cases h
    · rintro ⟨hi, he, _⟩
      rw [List.findIdx?_eq_none_iff] at hf
      have := hf xs[i] (List.getElem_mem hi)
      rw [he] at this; cases this
  | some k =>
    rw [List.findIdx?_eq_some_iff_getElem] at hf
    obtain ⟨hk, hek, hbefore⟩ := hf
    simp only [posValue, Except.ok.injEq, Value.num.injEq, Num.int.injEq]
    constructor
    · intro hki
      have : k = i := by omega
      subst this
      exact ⟨hk, hek, fun j hj => by simpa using hbefore j hj⟩
    · rintro ⟨hi, he, hb⟩
      have : k = i := by
        rcases Nat.lt_trichotomy k i with h1 | h1 | h1
        · have := hb k h1; rw [hek] at this; cases this
        · exact h1
        · have := hbefore i h1; rw [he] at this; simp at this
      omega

/-- MATCH(x, array, 0) is `#N/A` exactly when no item equals x -/
theorem match_exact_na (x : Value) (xs : List Value) (h : TextOK x xs) :
    MATCH [x, .arr xs, .num (.int 0)] = .ok (.err .na) ↔ ∀ item ∈ xs, eqv x item = false := by
  rw [match_exact x xs h]
  cases hf : xs.findIdx? (eqv x) with
  | none =>
    rw [List.findIdx?_eq_none_iff] at hf
    simp only [true_iff]
    intro item hi
    have := hf item hi
    simpa using this
  | some k =>
    rw [List.findIdx?_eq_some_iff_getElem] at hf
    obtain ⟨hk, hek, _⟩ := hf
    simp only [posValue]
    constructor
    · intro h; cases h
    · intro hall
      have := hall xs[k] (List.getElem_mem hk)
      rw [hek] at this; cases this

example : MATCH [.str "f?o".toList, .arr [.str "eee".toList, .str "aaa".toList, .str "FOA".toList, .str "foo".toList],
    .num (.int 0)] = .ok (.num (.int 4)) := by
  rfl

/-! ## MATCH, types 1 and −1 -/

/-- with type 1 on an ascending array of numbers (duplicates, zeros and negatives allowed) the
    position MATCH returns holds an item ≤ x that is the largest such item -/
theorem match_asc (q : Num) (ns : List Num) (hs : Ascending ns) (i : Nat)
    (h : MATCH [.num q, .arr (ns.map .num), .num (.int 1)] = .ok (posValue i)) :
    ∃ hi : i < ns.length, Num.toRat ns[i] ≤ Num.toRat q ∧
      ∀ y ∈ ns, Num.toRat y ≤ Num.toRat q → Num.toRat y ≤ Num.toRat ns[i] := by
  have g := (match_sorted true q ns (asc_leD ns hs)).pos i h
  simpa [leD] using g

/-- … and it is `#N/A` exactly when no item is ≤ x -/
theorem match_asc_na (q : Num) (ns : List Num) (hs : Ascending ns) :
    MATCH [.num q, .arr (ns.map .num), .num (.int 1)] = .ok (.err .na) ↔
      ∀ y ∈ ns, ¬ Num.toRat y ≤ Num.toRat q := by
  have g := (match_sorted true q ns (asc_leD ns hs)).na_iff
  simpa [leD] using g

/-- … and nothing else can happen: a position inside the array or `#N/A` (no exception, although
    the loop's `if not index_value` treats a candidate 0 as "none yet": harmless on sorted arrays) -/
theorem match_asc_total (q : Num) (ns : List Num) (hs : Ascending ns) :
    (∃ i, i < ns.length ∧ MATCH [.num q, .arr (ns.map .num), .num (.int 1)] = .ok (posValue i)) ∨
    MATCH [.num q, .arr (ns.map .num), .num (.int 1)] = .ok (.err .na) :=
  (match_sorted true q ns (asc_leD ns hs)).total

/-- an omitted match type is type 1 -/
theorem match_default_type (x a : Value) : MATCH [x, a] = MATCH [x, a, .num (.int 1)] := rfl

example : Ascending [.int (-2), .int 0, .int 0, .int 1, .int 3] := by
  simp [Ascending, Num.toRat]; decide
example : MATCH [.num (.int 2), .arr ([.int (-2), .int 0, .int 0, .int 1, .int 3].map .num), .num (.int 1)]
    = .ok (.num (.int 4)) := by rfl
example : MATCH [.num (.int (-1)), .arr ([.int (-2), .int 0, .int 0, .int 1, .int 3].map .num), .num (.int 1)]
    = .ok (.num (.int 1)) := by rfl

/-- with type −1 on a descending array of numbers the position MATCH returns holds an item ≥ x
    that is the smallest such item -/
theorem match_desc (q : Num) (ns : List Num) (hs : Descending ns) (i : Nat)
    (h : MATCH [.num q, .arr (ns.map .num), .num (.int (-1))] = .ok (posValue i)) :
    ∃ hi : i < ns.length, Num.toRat q ≤ Num.toRat ns[i] ∧
      ∀ y ∈ ns, Num.toRat q ≤ Num.toRat y → Num.toRat ns[i] ≤ Num.toRat y := by
  have g := (match_sorted false q ns (desc_leD ns hs)).pos i h
  simpa [leD] using g

/-- … and it is `#N/A` exactly when no item is ≥ x -/
theorem match_desc_na (q : Num) (ns : List Num) (hs : Descending ns) :
    MATCH [.num q, .arr (ns.map .num), .num (.int (-1))] = .ok (.err .na) ↔
      ∀ y ∈ ns, ¬ Num.toRat q ≤ Num.toRat y := by
  have g := (match_sorted false q ns (desc_leD ns hs)).na_iff
  simpa [leD] using g

/-- … and nothing else can happen -/
theorem match_desc_total (q : Num) (ns : List Num) (hs : Descending ns) :
    (∃ i, i < ns.length ∧ MATCH [.num q, .arr (ns.map .num), .num (.int (-1))] = .ok (posValue i)) ∨
    MATCH [.num q, .arr (ns.map .num), .num (.int (-1))] = .ok (.err .na) :=
  (match_sorted false q ns (desc_leD ns hs)).total

example : Descending [.int 3, .int 0, .int 0, .int (-1)] := by
  simp [Descending, Num.toRat]; decide
example : MATCH [.num (.int (-1)), .arr ([.int 3, .int 0, .int 0, .int (-1)].map .num), .num (.int (-1))]
    = .ok (.num (.int 4)) := by rfl
example : MATCH [.num (.int 1), .arr ([.int 3, .int 0, .int 0, .int (-1)].map .num), .num (.int (-1))]
    = .ok (.num (.int 1)) := by rfl

/-- the falsy-candidate quirk is real on UNSORTED arrays (outside the statement): the candidate 0
    is dropped for the smaller −1, so position 2 is returned although 0 is the largest item ≤ 5 -/
theorem match_zero_quirk_unsorted :
    MATCH [.num (.int 5), .arr [.num (.int 0), .num (.int (-1))], .num (.int 1)] = .ok (.num (.int 2)) := by
  rfl

/-! ## INDEX ∘ MATCH -/

/-- INDEX(array, MATCH(x, array, 0)) is the first item equal to x whenever some item equals x
    (one-dimensional array of scalars) -/
theorem index_match (x : Value) (xs : List Value) (hsc : ∀ v ∈ xs, isArr v = false) (ht : TextOK x xs)
    (hocc : ∃ y ∈ xs, eqv x y = true) :
    ∃ (m : Value) (i : Nat) (hi : i < xs.length),
      MATCH [x, .arr xs, .num (.int 0)] = .ok m ∧ INDEX [.arr xs, m] = .ok xs[i] ∧
      eqv x xs[i] = true ∧ ∀ j (hj : j < i), eqv x (xs[j]'(by omega)) = false := by
  obtain ⟨y, hy, hey⟩ := hocc
  cases hf : xs.findIdx? (eqv x) with
  | none =>
    rw [List.findIdx?_eq_none_iff] at hf
    have := hf y hy
    rw [hey] at this; cases this
  | some i =>
    have hm := match_exact x xs ht
    rw [hf] at hm
    have hfound := (match_exact_found x xs ht i).mp hm
    obtain ⟨hi, hei, hbefore⟩ := hfound
    refine ⟨posValue i, i, hi, hm, ?_, hei, hbefore⟩
    cases xs with
    | nil => simp at hi
    | cons x0 rest =>
      have h0 : isArr x0 = false := hsc x0 (by simp)
      have hv : (x0 :: rest)[(((i + 1 : Nat) : Int) - 1).toNat]? = some (x0 :: rest)[i] := by
        have : (((i + 1 : Nat) : Int) - 1).toNat = i := by omega
        rw [this]; exact List.getElem?_eq_getElem hi
      exact (index_inside_1d x0 rest h0 ((i + 1 : Nat) : Int) _ (by omega) hv).1

/-- for numbers: INDEX(array, MATCH(x, array, 0)) is numerically equal to x whenever x occurs -/
theorem index_match_numbers (q : Num) (ns : List Num) (hocc : ∃ n ∈ ns, Num.toRat n = Num.toRat q) :
    ∃ (m : Value) (n : Num), MATCH [.num q, .arr (ns.map .num), .num (.int 0)] = .ok m ∧
      INDEX [.arr (ns.map .num), m] = .ok (.num n) ∧ n ∈ ns ∧ Num.toRat n = Num.toRat q := by
  obtain ⟨n0, hn0, he0⟩ := hocc
  have hsc : ∀ v ∈ ns.map Value.num, isArr v = false := by
    intro v hv; simp only [List.mem_map] at hv; obtain ⟨n, _, rfl⟩ := hv; rfl
  have ht : TextOK (.num q) (ns.map .num) := ⟨rfl, fun p hp => by cases hp⟩
  obtain ⟨m, i, hi, hm, hidx, hei, _⟩ := index_match (.num q) (ns.map .num) hsc ht
    ⟨.num n0, by simp only [List.mem_map]; exact ⟨n0, hn0, rfl⟩, by rw [eqv_num]; simpa using he0⟩
  have hi' : i < ns.length := by simpa using hi
  have hget : (ns.map Value.num)[i] = .num ns[i] := by simp
  rw [hget] at hidx hei
  rw [eqv_num] at hei
  exact ⟨m, ns[i], hm, hidx, List.getElem_mem hi', by simpa using hei⟩

/-- for text without wildcard characters (and without `[`): INDEX(array, MATCH(x, array, 0)) is
    x up to (ASCII) case whenever x occurs in the array of texts -/
theorem index_match_text (p : List Char) (ss : List (List Char)) (hw : NoWild p) (hb : p.contains '[' = false)
    (hocc : ∃ s ∈ ss, lowerAscii s = lowerAscii p) :
    ∃ (m : Value) (s : List Char), MATCH [.str p, .arr (ss.map .str), .num (.int 0)] = .ok m ∧
      INDEX [.arr (ss.map .str), m] = .ok (.str s) ∧ s ∈ ss ∧ lowerAscii s = lowerAscii p := by
  obtain ⟨s0, hs0, he0⟩ := hocc
  have hsc : ∀ v ∈ ss.map Value.str, isArr v = false := by
    intro v hv; simp only [List.mem_map] at hv; obtain ⟨n, _, rfl⟩ := hv; rfl
  have ht : TextOK (.str p) (ss.map .str) := ⟨hb, fun _ _ v hv => by
    simp only [List.mem_map] at hv; obtain ⟨s, _, rfl⟩ := hv; exact ⟨s, rfl⟩⟩
  obtain ⟨m, i, hi, hm, hidx, hei, _⟩ := index_match (.str p) (ss.map .str) hsc ht
    ⟨.str s0, by simp only [List.mem_map]; exact ⟨s0, hs0, rfl⟩, ((eqv_text p s0).2 hw).mpr he0.symm⟩
  have hi' : i < ss.length := by simpa using hi
  have hget : (ss.map Value.str)[i] = .str ss[i] := by simp
  rw [hget] at hidx hei
  exact ⟨m, ss[i], hm, hidx, List.getElem_mem hi', (((eqv_text p ss[i]).2 hw).mp hei).symm⟩

example : ∃ (m : Value) (n : Num),
    MATCH [.num (.int 2), .arr ([Num.int 1, .flt 2, .int 2].map .num), .num (.int 0)] = .ok m ∧
    INDEX [.arr ([Num.int 1, .flt 2, .int 2].map .num), m] = .ok (.num n) ∧ n ∈ [Num.int 1, .flt 2, .int 2] ∧
    Num.toRat n = Num.toRat (.int 2) :=
  index_match_numbers (.int 2) [.int 1, .flt 2, .int 2] ⟨.flt 2, by simp, by decide⟩
example : ∃ (m : Value) (s : List Char),
    MATCH [.str "hello".toList, .arr (["abc".toList, "Hello".toList].map .str), .num (.int 0)] = .ok m ∧
    INDEX [.arr (["abc".toList, "Hello".toList].map .str), m] = .ok (.str s) ∧ s ∈ ["abc".toList, "Hello".toList] ∧
    lowerAscii s = lowerAscii "hello".toList :=
  index_match_text "hello".toList ["abc".toList, "Hello".toList] (by unfold NoWild; decide) (by decide)
    ⟨"Hello".toList, by simp, by decide⟩
example : ∃ m, MATCH [.str "HELLO".toList, .arr [.str "abc".toList, .str "Hello".toList], .num (.int 0)] = .ok m ∧
    INDEX [.arr [.str "abc".toList, .str "Hello".toList], m] = .ok (.str "Hello".toList) :=
  ⟨.num (.int 2), by rfl, by rfl⟩

/-! ## CHOOSE as a route (DESIGN.md 1.7): `CHOOSE(1,x)` hands the value of `x` on -/

/-- In a formula, on a parser whose host did not redefine `CHOOSE`, `CHOOSE(1,x)` evaluates to what
    `x` evaluates to — for every expression `x` with a known value. -/
theorem choose_hands_on {env : Eval.Env} (hc : env.custom "CHOOSE".toList = none) {x : Syntax.Expr} {v : Value}
    (hx : ErrorFlow.outcome env x = .ok v) (hno : Eval.isNoOpinion v = false) :
    ErrorFlow.outcome env (.call "CHOOSE".toList .flat [.num (.int ['1']), x] []) = .ok v := by
  have hch : CHOOSE [.num (.int 1), v] = .ok v := by
    obtain ⟨_, h⟩ := choose_spec 1 [v] (by decide) (by simp) (by decide)
    simpa using h
  have hargs : ErrorFlow.outcomes env [.num (.int ['1']), x] = .ok [.num (.int 1), v] :=
    ErrorFlow.outcomes_two (ErrorFlow.outcome_num_int env ['1']) hx
  have h := ErrorFlow.outcome_builtin_call (b := CHOOSE) hc (by decide +kernel) (by rfl) hargs
    (by rw [hch]; exact hno)
  rw [hch] at h
  exact h

/-- non-vacuity: `CHOOSE(1,"ab")` -/
example : ErrorFlow.outcome Eval.Env.empty (.call "CHOOSE".toList .flat [.num (.int ['1']), .str "ab".toList] []) =
    .ok (.str "ab".toList) :=
  choose_hands_on rfl rfl rfl

end HotXL.Props.C18
