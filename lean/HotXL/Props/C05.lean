/-
  C05 — lexical conventions: literals, whitespace, separators, case, empty arguments.

  A. SLOTS      `slots_of_derivation`, `slots_one_per_separator`, `rows_of_derivation`,
                `three_separators_same_shape`, `semicolon_has_two_row_forms`,
                `sequences_used_by_calls_and_arrays`, `accepted_shapes_derivable`,
                `classify_flat_slots`, `classify_rows`
  B. LITERALS   `number_literal_parse`, `number_literal`, `huge_power_literal_is_num`,
                `huge_power_literal_exceeds`, `small_power_literal_bounded`,
                `digitsVal_positional`, `string_literal`
  C. WHITESPACE `whitespace_leading_trailing`, `whitespace_at_token_boundary`,
                `single_character_tokens_selfdelimiting`, `quoted_literal_selfdelimiting`,
                `whitespace_between_selfdelimiting_tokens`
  D. CASE       `cell_case_insensitive_call`, `cell_case_insensitive_call_same_upper`,
                `cell_label_parses`, `cell_case_insensitive`
  E. SEPARATORS `separator_irrelevant`
-/
import HotXL.Model.Lexer
import HotXL.Model.Syntax
import HotXL.Model.Eval
import HotXL.Lemmas.Slots
import HotXL.Lemmas.Lexer

namespace HotXL.Props.C05
open HotXL HotXL.Lexer HotXL.Syntax HotXL.Slots HotXL.Eval

/-- every rule of the generated master regular expression is one the model has a matcher for,
    with exactly the regular-expression text the matcher was written for -/
theorem lex_rules_are_the_modelled_ones :
    Generated.lexRules.all (fun r => match TK.ofName r.1 with
      | some k => k.expectedRegex == r.2
      | none => false) = true := by
  decide +kernel

/-! ## A. one argument per slot -/

/-- **One argument per slot, in order, blank for an omitted slot.**  `Derives` is the
    `expseq` nonterminal of parser.py (six productions, each with the list its Python action
    builds; the same for `,`, `;` and `\`).  Whatever derivation reduces the item word `w`
    (expressions and separators between the brackets of a call or an array literal) — hence
    whichever one ply's LALR tables pick among the conflicts of this ambiguous grammar — the
    list handed to the function is `slots w`: `w` split at its separators, an empty piece
    arriving as `None`. -/
theorem slots_of_derivation {α : Type} (w : List (ItemOf α)) (l : List (Option α))
    (h : Derives w l) : l = slots w :=
  Slots.slots_of_derivation w l h

/-- an accepted sequence passes exactly (number of separators + 1) arguments, and no two
    expressions are adjacent in it (every piece between separators holds at most one
    expression, so `slots` forgets nothing) -/
theorem slots_one_per_separator {α : Type} (w : List (ItemOf α)) (l : List (Option α))
    (h : Derives w l) : l.length = sepCount w + 1 ∧ NoAdjacent w := by
  refine ⟨?_, noAdjacent_of_derivation h⟩
  rw [Slots.slots_of_derivation w l h, length_slots]

/-- **Two rows.**  The row production `expseqcomma SEMICOLON expseqcomma` (and its backslash
    copy) with action `[p[1]] + [p[3]]`: every derivation yields the list of the two rows,
    each row the slots of its own word. -/
theorem rows_of_derivation {α : Type} (w : List (RowItem α)) (r : List (List (Option α)))
    (h : RowsDerive w r) : r = rowsOf w :=
  Slots.rows_of_derivation w r h

example : Derives (α := Nat) [.expr 1, .sep, .sep, .expr 3] [some 1, none, some 3] :=
  (Derives.single 1).snocSepExpr 3
example : slots (α := Nat) [.expr 1, .sep, .sep, .expr 3] = [some 1, none, some 3] := rfl
example : Derives (α := Nat) [.sep, .expr 2, .sep] [none, some 2, none] :=
  ((Derives.single 2).snocSep).sepCons
/-- the grammar is ambiguous: a second derivation of the same word (same value, as proved) -/
example : Derives (α := Nat) [.sep, .expr 2, .sep] [none, some 2, none] :=
  ((Derives.single 2).sepCons).snocSep
example : RowsDerive (α := Nat)
    ([ItemOf.expr 1, .sep, .expr 2].map .inner ++ .semi :: [ItemOf.expr 3, .sep, .expr 4].map .inner)
    [[some 1, some 2], [some 3, some 4]] :=
  .rows ((Derives.single 1).snocExpr 2) ((Derives.single 3).snocExpr 4)

/-! ### tie to the generated grammar table -/

/-- symbols of the right-hand sides of `Derives`: expression, separator token, the
    nonterminal itself -/
inductive Sym where
  | E | S | L
  deriving DecidableEq, Repr

/-- the right-hand sides of the six constructors of `Derives`, in order -/
def derivesShapes : List (List Sym) :=
  [[.E], [.S, .S], [.S, .L], [.L, .S], [.L, .S, .E], [.L, .S, .S, .E]]

def Sym.name (nt sep : String) : Sym → String
  | .E => "expression" | .S => sep | .L => nt

/-- the six shapes written with a given nonterminal and separator token -/
def sixShapes (nt sep : String) : List (List String) :=
  derivesShapes.map (·.map (Sym.name nt sep))

/-- (carrying function, right-hand side, %prec) of the productions of a nonterminal, in order -/
def prodsOf (nt : String) : List (String × List String × String) :=
  (Generated.productions.filter (fun p => p.2.1 = nt)).map (fun p => (p.1, p.2.2.1, p.2.2.2))

def rhsOf (nt : String) : List (List String) := (prodsOf nt).map (·.2.1)

def renameSym (tbl : List (String × String)) (s : String) : String :=
  match tbl.find? (fun p => p.1 = s) with
  | some p => p.2
  | none => s

/-- **The three separator rules are one rule.**  In the grammar extracted from parser.py the
    productions of `expseqcomma`, of `expseqbackslash`, and the first six of `expseqsemicolon`
    are exactly the six right-hand sides of `Derives`, written with the respective separator
    token; they are images of one another under renaming the separator and the nonterminal;
    each is carried by its `p_expseq_*` function and has no `%prec`.  (An edit of one
    production, or of one copy and not the others, breaks this proof.) -/
theorem three_separators_same_shape :
    rhsOf "expseqcomma" = sixShapes "expseqcomma" "COMMA" ∧
    rhsOf "expseqbackslash" = sixShapes "expseqbackslash" "BACKSLASH" ∧
    (rhsOf "expseqsemicolon").take 6 = sixShapes "expseqsemicolon" "SEMICOLON" ∧
    (rhsOf "expseqcomma").map (·.map (renameSym [("expseqcomma", "expseqbackslash"), ("COMMA", "BACKSLASH")]))
      = rhsOf "expseqbackslash" ∧
    (rhsOf "expseqcomma").map (·.map (renameSym [("expseqcomma", "expseqsemicolon"), ("COMMA", "SEMICOLON")]))
      = (rhsOf "expseqsemicolon").take 6 ∧
    (prodsOf "expseqcomma").all (fun p => p.1 = "p_expseq_comma" && p.2.2 = "") = true ∧
    (prodsOf "expseqbackslash").all (fun p => p.1 = "p_expseq_backslash" && p.2.2 = "") = true ∧
    (prodsOf "expseqsemicolon").all (fun p => p.1 = "p_expseq_semicolon" && p.2.2 = "") = true := by
  decide +kernel

/-- `expseqsemicolon` has exactly two more productions: the two row forms
    `expseqcomma ; expseqcomma` and `expseqbackslash ; expseqbackslash` (the shape of
    `RowsDerive`) -/
theorem semicolon_has_two_row_forms :
    (rhsOf "expseqsemicolon").drop 6 =
      [["expseqcomma", "SEMICOLON", "expseqcomma"], ["expseqbackslash", "SEMICOLON", "expseqbackslash"]] := by
  decide +kernel

/-- the three sequence nonterminals are used, and only used, between the parentheses of a
    call and between the braces of an array literal (besides their own productions) -/
theorem sequences_used_by_calls_and_arrays :
    (Generated.productions.filter (fun p =>
        (p.2.2.1.contains "expseqcomma" || p.2.2.1.contains "expseqsemicolon" || p.2.2.1.contains "expseqbackslash")
        && !(p.2.1 = "expseqcomma" || p.2.1 = "expseqsemicolon" || p.2.1 = "expseqbackslash"))).map
      (fun p => (p.1, p.2.1, p.2.2.1)) =
    [("p_expression_wargs", "expression", ["FUNCTION", "LPAREN", "expseqcomma", "RPAREN"]),
     ("p_expression_wargs", "expression", ["FUNCTION", "LPAREN", "expseqsemicolon", "RPAREN"]),
     ("p_expression_wargs", "expression", ["FUNCTION", "LPAREN", "expseqbackslash", "RPAREN"]),
     ("p_array", "array", ["LBRACKET", "expseqsemicolon", "RBRACKET"]),
     ("p_array", "array", ["LBRACKET", "expseqcomma", "RBRACKET"]),
     ("p_array", "array", ["LBRACKET", "expseqbackslash", "RBRACKET"])] := by
  decide +kernel

/-! ### tie to the model parser -/

/-- **The model accepts nothing the grammar cannot derive.**  If all separators of an item
    list are of one kind and the model's acceptance test `acceptFlat` passes, the word is
    derivable by the six productions. -/
theorem accepted_shapes_derivable (items : List Item) (k : TK)
    (_hk : ∀ j, Item.sep j ∈ items → j = k)
    (h : acceptFlat (shapeOf items) = true) : ∃ l, Derives (toItems items) l :=
  derives_of_acceptFlat items h

/-- **Flat sequences of the model parser.**  Whenever `classify` (what the model parser does
    with the items between the brackets of a call or array literal) answers "flat list `a`":
    all separators are of one kind, the second component is empty, `a` is `slotsOf items`,
    which is `slots` of the word (a blank arriving as `Expr.blankSlot`, which evaluates to
    Python `None`), it has one entry per slot (number of separators + 1), and the word is
    derivable by the six productions with exactly this value. -/
theorem classify_flat_slots (items : List Item) (a b : List Expr)
    (h : classify items = some (.flat, a, b)) :
    b = [] ∧ a = slotsOf items ∧ a = (slots (toItems items)).map slotExpr ∧
    a.length = sepCount (toItems items) + 1 ∧
    (∃ k, ∀ j, Item.sep j ∈ items → j = k) ∧
    ∃ l, Derives (toItems items) l ∧ a = l.map slotExpr := by
  obtain ⟨hk, hacc, ha, hb⟩ := classify_flat_inv h
  obtain ⟨l, hl⟩ := derives_of_acceptFlat items hacc
  have hs : slotsOf items = (slots (toItems items)).map slotExpr :=
    slotsOf_eq_slots items (noAdjacent_of_derivation hl)
  refine ⟨hb, ha, ha.trans hs, ?_, single_kind_of_sepKinds hk, l, hl, ?_⟩
  · rw [ha, hs, List.length_map, length_slots]
  · rw [ha, hs, Slots.slots_of_derivation _ _ hl]

/-- **Two-row sequences of the model parser.**  Whenever `classify` answers "rows `a`, `b`":
    the items are `A ; B` with exactly one semicolon, all other separators are of one kind
    `k` (not the semicolon) which occurs in the first row, `a` and `b` are the slots of the
    two rows, and the word is derivable by the row production with value `[a, b]`. -/
theorem classify_rows (items : List Item) (a b : List Expr)
    (h : classify items = some (.rows, a, b)) :
    ∃ A B k, items = A ++ Item.sep .SEMICOLON :: B ∧ k ≠ TK.SEMICOLON ∧
      (∀ j, Item.sep j ∈ A ++ B → j = k) ∧ Item.sep k ∈ A ∧
      a = (slots (toItems A)).map slotExpr ∧ b = (slots (toItems B)).map slotExpr ∧
      (rowsOf (toRowItems items)).map (·.map slotExpr) = [a, b] ∧
      ∃ r, RowsDerive (toRowItems items) r ∧ r.map (·.map slotExpr) = [a, b] := by
  obtain ⟨hk2, hsemi, hn, hkA, haccA, haccB, ha, hb⟩ := classify_rows_inv h
  obtain ⟨hitems, hA, hB⟩ := splitAtSemicolon_spec items (by omega)
  generalize (splitAtSemicolon items).1 = A at *
  generalize (splitAtSemicolon items).2 = B at *
  have hB' : B.filter isSemi = [] := List.eq_nil_of_length_eq_zero (by omega)
  obtain ⟨k, hkA', hkmem⟩ := sepKinds_eq_singleton hkA
  have hkne : k ≠ .SEMICOLON := by
    intro hk; subst hk
    have := not_isSemi_of_filter_nil hA hkmem
    simp [isSemi] at this
  have hkitems : k ∈ sepKinds items := by
    rw [mem_sepKinds, hitems]; exact List.mem_append_left _ hkmem
  have hall : ∀ j, Item.sep j ∈ A ++ B → j = k := by
    intro j hj
    have hjitems : j ∈ sepKinds items := by
      rw [mem_sepKinds, hitems]
      rcases List.mem_append.mp hj with hj | hj
      · exact List.mem_append_left _ hj
      · exact List.mem_append_right _ (List.mem_cons_of_mem _ hj)
    have hjs : isSemi (.sep j) = false := by
      rcases List.mem_append.mp hj with hj | hj
      · exact not_isSemi_of_filter_nil hA hj
      · exact not_isSemi_of_filter_nil hB' hj
    rcases mem_of_length_two hk2 hsemi hkitems (Ne.symm hkne) hjitems with h1 | h1
    · subst h1; simp [isSemi] at hjs
    · exact h1
  obtain ⟨lA, hlA⟩ := derives_of_acceptFlat A haccA
  obtain ⟨lB, hlB⟩ := derives_of_acceptFlat B haccB
  have hsA := slotsOf_eq_slots A (noAdjacent_of_derivation hlA)
  have hsB := slotsOf_eq_slots B (noAdjacent_of_derivation hlB)
  have hrow : toRowItems items = (toItems A).map RowItem.inner ++ .semi :: (toItems B).map RowItem.inner := by
    rw [hitems, toRowItems_append, toRowItems_of_no_semi A hA]
    simp [toRowItems, toRowItems_of_no_semi B hB']
  refine ⟨A, B, k, hitems, hkne, hall, hkmem, ha.trans hsA, hb.trans hsB, ?_, [lA, lB], ?_, ?_⟩
  · rw [hrow, rowsOf_two, ha, hb, hsA, hsB]; rfl
  · rw [hrow]; exact .rows hlA hlB
  · rw [Slots.slots_of_derivation _ _ hlA, Slots.slots_of_derivation _ _ hlB, ha, hb, hsA, hsB]; rfl

/-- every call node the model parser builds from a `FUNCTION` token is either the empty call
    `F()` or gets its kind and argument lists from `classify` applied to the items between the
    parentheses -/
theorem call_node_from_classify (fuel : Nat) (f : List Char) (r rest : List Token) (e : Expr)
    (h : parsePrimary (fuel + 1) (⟨.FUNCTION, f⟩ :: r) = .ok (e, rest)) :
    e = .call f .empty [] [] ∨
    ∃ items k a b, classify items = some (k, a, b) ∧ e = .call f k a b := by
  rw [parsePrimary.eq_def] at h
  simp only at h
  split at h
  · simp only [Except.ok.injEq, Prod.mk.injEq] at h
    exact Or.inl h.1.symm
  · split at h
    · cases h
    · rename_i items r2 _
      split at h
      · split at h
        · rename_i k a b hc
          simp only [Except.ok.injEq, Prod.mk.injEq] at h
          exact Or.inr ⟨items, k, a, b, hc, h.1.symm⟩
        · cases h
      · cases h
      · cases h
  · cases h
  · cases h

/-- every array node the model parser builds from a `{` token gets its kind and element lists
    from `classify` applied to the items between the braces -/
theorem array_node_from_classify (fuel : Nat) (t : List Char) (r rest : List Token) (e : Expr)
    (h : parsePrimary (fuel + 1) (⟨.LBRACKET, t⟩ :: r) = .ok (e, rest)) :
    ∃ items k a b, classify items = some (k, a, b) ∧ e = .arr k a b := by
  rw [parsePrimary.eq_def] at h
  simp only at h
  split at h
  · cases h
  · rename_i items r2 _
    split at h
    · split at h
      · rename_i k a b hc
        simp only [Except.ok.injEq, Prod.mk.injEq] at h
        exact ⟨items, k, a, b, hc, h.1.symm⟩
      · cases h
    · cases h
    · cases h

/-- **An accepted call passes exactly one argument per slot.**  If the model parser accepts a
    call with a flat argument list `a`, then `a` is the slot list of the items between the
    parentheses (split at the separators, a blank for an omitted slot), one argument per slot,
    and it is the value of a derivation by the grammar's six productions. -/
theorem accepted_call_passes_slots (fuel : Nat) (f name : List Char) (r rest : List Token)
    (a b : List Expr)
    (h : parsePrimary (fuel + 1) (⟨.FUNCTION, f⟩ :: r) = .ok (.call name .flat a b, rest)) :
    ∃ items, b = [] ∧ a = (slots (toItems items)).map slotExpr ∧
      a.length = sepCount (toItems items) + 1 ∧
      ∃ l, Derives (toItems items) l ∧ a = l.map slotExpr := by
  rcases call_node_from_classify fuel f r rest _ h with h' | ⟨items, k, a', b', hc, h'⟩
  · simp at h'
  · simp only [Expr.call.injEq] at h'
    obtain ⟨_, rfl, rfl, rfl⟩ := h'
    obtain ⟨hb, _, ha, hlen, _, hd⟩ := classify_flat_slots items a b hc
    exact ⟨items, hb, ha, hlen, hd⟩

/-- an omitted slot arrives as blank (Python `None`), without any callback -/
theorem blank_slot_is_blank (env : Env) (log : Log) : evalExpr env .blankSlot log = (.ok .blank, log) := by
  simp only [evalExpr]

-- `F(1,,3)`: three slots, the middle one blank; `;` and `\` give the same tree
/-- the tree of `F(1,,3)` -/
def exampleTree : Expr := .call ['F'] .flat [.num (.int ['1']), .blankSlot, .num (.int ['3'])] []
example : parseFormula "F(1,,3)".toList = .ok exampleTree := by rfl
example : parseFormula "F(1;;3)".toList = .ok exampleTree := by rfl
example : parseFormula "F(1\\\\3)".toList = .ok exampleTree := by rfl
example : parseFormula "F( 1 , , 3 )".toList = .ok exampleTree := by rfl
-- `{1,2;3,4}`: the list of the two rows
example : parseFormula "{1,2;3,4}".toList =
    .ok (.arr .rows [.num (.int ['1']), .num (.int ['2'])] [.num (.int ['3']), .num (.int ['4'])]) := by rfl
example : classify [.e (.num (.int ['1'])), .sep .COMMA, .sep .COMMA, .e (.num (.int ['3']))] =
    some (.flat, [.num (.int ['1']), .blankSlot, .num (.int ['3'])], []) := by rfl
example : classify [.e (.num (.int ['1'])), .sep .COMMA, .e (.num (.int ['2'])), .sep .SEMICOLON,
      .e (.num (.int ['3'])), .sep .COMMA, .e (.num (.int ['4']))] =
    some (.rows, [.num (.int ['1']), .num (.int ['2'])], [.num (.int ['3']), .num (.int ['4'])]) := by rfl
-- rejected shapes stay rejected: `F(,)`, `F(1,,)`
example : parseFormula "F(,)".toList = .error .syntax := by rfl
example : parseFormula "F(1,,)".toList = .error .syntax := by rfl

/-! ## E. the choice of separator -/

/-- **The choice of `,` `;` or `\` never changes what a sequence means.**  For an item list
    whose separators are all of one kind `k`, renaming them to any other kind `k'` leaves
    `classify` — acceptance, shape and the slot list — unchanged. -/
theorem separator_irrelevant (items : List Item) (k k' : TK)
    (h : ∀ j, Item.sep j ∈ items → j = k) :
    classify (renameSeps k' items) = classify items := by
  have h1 : (sepKinds items).length ≤ 1 := sepKinds_length_le_one h
  have h2 : (sepKinds (renameSeps k' items)).length ≤ 1 :=
    sepKinds_length_le_one (k := k') (fun j hj => mem_renameSeps hj)
  unfold classify
  simp only [h1, h2, ite_true, renameSeps_isEmpty, shapeOf_renameSeps, slotsOf_renameSeps]


/-! ## B. literals -/

/-- what `Parser.parse` answers for a formula that parses to a numeric literal below the
    guard of the literal-power production (every literal that is not a power of at least
    2^1024, see `numLitTooBig`) -/
theorem parseTop_of_num (env : Env) {s : List Char} {l : NumLit} (hs : s ≠ [])
    (h : parseFormula s = .ok (.num l)) (hsmall : numLitTooBig l = false) :
    parseTop env s = ({ result := some (evalNumLit l), error := none }, []) := by
  have he : s.isEmpty = false := by cases s with | nil => exact absurd rfl hs | cons _ _ => rfl
  unfold parseTop
  rw [he, h]
  simp only [Bool.false_eq_true, ite_false, evalExpr, hsmall]
  cases l <;> rfl

/-- what `Parser.parse` answers for a formula that parses to a numeric literal at or above the
    guard of the literal-power production: `#NUM!`, no result, no callback -/
theorem parseTop_of_num_too_big (env : Env) {s : List Char} {l : NumLit} (hs : s ≠ [])
    (h : parseFormula s = .ok (.num l)) (hbig : numLitTooBig l = true) :
    parseTop env s = ({ result := none, error := some .num }, []) := by
  have he : s.isEmpty = false := by cases s with | nil => exact absurd rfl hs | cons _ _ => rfl
  unfold parseTop
  rw [he, h]
  simp only [Bool.false_eq_true, ite_false, evalExpr, hbig, ite_true]
  rfl

example : parseFormula "2^10".toList = .ok (.num (.pow ['2'] ['1', '0'])) ∧
    numLitTooBig (.pow ['2'] ['1', '0']) = false := ⟨by rfl, by decide⟩
example : parseFormula "2^1024".toList = .ok (.num (.pow ['2'] ['1', '0', '2', '4'])) ∧
    numLitTooBig (.pow ['2'] ['1', '0', '2', '4']) = true := ⟨by rfl, by decide⟩

/-- the guard `base > 1 and (base.bit_length() - 1) * exponent >= 1024` of the literal-power
    production, on the digit strings of `a^b` (`Nat.log2 n = n.bit_length() - 1` for `n ≥ 1`) -/
def PowGuard (a b : List Char) : Prop :=
  digitsVal a > 1 ∧ Nat.log2 (digitsVal a) * digitsVal b ≥ 1024

/-- the model's guard `numLitTooBig` on a literal power is exactly `PowGuard` -/
theorem numLitTooBig_pow_iff (a b : List Char) : numLitTooBig (.pow a b) = true ↔ PowGuard a b := by
  simp [numLitTooBig, PowGuard]

/-- **Numeric literals parse to what they spell.**  For non-empty digit strings `a`, `b`, the
    formula texts `a`, `a.b`, `.b`, `a%`, `a^b` are tokenized and parsed to the literal forms
    `int a`, `dec a b`, `dotDec b`, `pct a`, `pow a b` (nothing else in the tree). -/
theorem number_literal_parse (a b : List Char) (hna : a ≠ []) (ha : ∀ c ∈ a, isDigit c = true)
    (hnb : b ≠ []) (hb : ∀ c ∈ b, isDigit c = true) :
    parseFormula a = .ok (.num (.int a)) ∧
    parseFormula (a ++ '.' :: b) = .ok (.num (.dec a b)) ∧
    parseFormula ('.' :: b) = .ok (.num (.dotDec b)) ∧
    parseFormula (a ++ ['%']) = .ok (.num (.pct a)) ∧
    parseFormula (a ++ '^' :: b) = .ok (.num (.pow a b)) := by
  refine ⟨?_, ?_, ?_, ?_, ?_⟩
  · unfold parseFormula; rw [tokenize_int hna ha]; rfl
  · unfold parseFormula; rw [tokenize_dec hna ha hnb hb]; rfl
  · unfold parseFormula; rw [tokenize_dot_digits hnb hb]; rfl
  · unfold parseFormula; rw [tokenize_pct hna ha]; rfl
  · unfold parseFormula; rw [tokenize_pow hna ha hnb hb]; rfl

/-- **A numeric literal evaluates to exactly the number it spells** (`digitsVal` = the
    positional decimal value, see `digitsVal_positional`): `a` is the integer `a`; `a.b` the
    rational `a + b / 10^|b|`; `.b` is `b / 10^|b|`; `a%` is `a / 100`; `a^b` the integer power
    — unless the guard of the production holds (`PowGuard`: base above 1 and
    `(bit_length(base) - 1) * exponent ≥ 1024`, so that the power is at least 2^1024, see
    `huge_power_literal_exceeds`), in which case `Parser.parse` reports `#NUM!` with no result.
    (Floats are exact rationals in the model; Python rounds them to the nearest double —
    trusted base.)  Stated for the whole of `Parser.parse`: the record has this result, no
    error, and no callback is called. -/
theorem number_literal (env : Env) (a b : List Char) (hna : a ≠ []) (ha : ∀ c ∈ a, isDigit c = true)
    (hnb : b ≠ []) (hb : ∀ c ∈ b, isDigit c = true) :
    parseTop env a = ({ result := some (.num (.int (digitsVal a))), error := none }, []) ∧
    parseTop env (a ++ '.' :: b) =
      ({ result := some (.num (.flt ((digitsVal a : Rat) + (digitsVal b : Rat) / ((10 ^ b.length : Nat) : Rat)))),
         error := none }, []) ∧
    parseTop env ('.' :: b) =
      ({ result := some (.num (.flt ((digitsVal b : Rat) / ((10 ^ b.length : Nat) : Rat)))), error := none }, []) ∧
    parseTop env (a ++ ['%']) =
      ({ result := some (.num (.flt ((digitsVal a : Rat) / 100))), error := none }, []) ∧
    (¬ (digitsVal a > 1 ∧ Nat.log2 (digitsVal a) * digitsVal b ≥ 1024) →
      parseTop env (a ++ '^' :: b) =
        ({ result := some (.num (.int ((digitsVal a : Int) ^ digitsVal b))), error := none }, [])) ∧
    ((digitsVal a > 1 ∧ Nat.log2 (digitsVal a) * digitsVal b ≥ 1024) →
      parseTop env (a ++ '^' :: b) = ({ result := none, error := some .num }, [])) := by
  obtain ⟨h1, h2, h3, h4, h5⟩ := number_literal_parse a b hna ha hnb hb
  refine ⟨parseTop_of_num env hna h1 rfl, parseTop_of_num env (by simp) h2 rfl,
    parseTop_of_num env (by simp) h3 rfl, parseTop_of_num env (by simp) h4 rfl, ?_, ?_⟩
  · intro hg
    refine parseTop_of_num env (by simp) h5 ?_
    cases hbig : numLitTooBig (.pow a b) with
    | false => rfl
    | true => exact absurd ((numLitTooBig_pow_iff a b).mp hbig) hg
  · intro hg
    exact parseTop_of_num_too_big env (by simp) h5 ((numLitTooBig_pow_iff a b).mpr hg)

/-- **A literal power at or above the guard is `#NUM!`, whatever its size.**  For digit strings
    `a`, `b` with `a > 1` and `(bit_length(a) - 1) * b ≥ 1024`, `Parser.parse("a^b")` is the
    record `{result: None, error: '#NUM!'}` and calls nothing back: the answer is read off the
    two operands, the power is never computed (`9^99999999` used to be computed exactly, in
    unbounded time and memory). -/
theorem huge_power_literal_is_num (env : Env) (a b : List Char) (hna : a ≠ [])
    (ha : ∀ c ∈ a, isDigit c = true) (hnb : b ≠ []) (hb : ∀ c ∈ b, isDigit c = true)
    (hbase : digitsVal a > 1) (hexp : Nat.log2 (digitsVal a) * digitsVal b ≥ 1024) :
    parseTop env (a ++ '^' :: b) = ({ result := none, error := some .num }, []) :=
  (number_literal env a b hna ha hnb hb).2.2.2.2.2 ⟨hbase, hexp⟩

/-- **`#NUM!` is only reported for powers of at least 2^1024** (beyond the largest double,
    which is below 2^1024): when the guard holds, the exact power `a^b` is at least `2^1024`. -/
theorem huge_power_literal_exceeds (a b : List Char)
    (hbase : digitsVal a > 1) (hexp : Nat.log2 (digitsVal a) * digitsVal b ≥ 1024) :
    2 ^ 1024 ≤ digitsVal a ^ digitsVal b := by
  have h1 : 2 ^ Nat.log2 (digitsVal a) ≤ digitsVal a := Nat.log2_self_le (by omega)
  calc 2 ^ 1024 ≤ 2 ^ (Nat.log2 (digitsVal a) * digitsVal b) := Nat.pow_le_pow_right (by decide) hexp
    _ = (2 ^ Nat.log2 (digitsVal a)) ^ digitsVal b := Nat.pow_mul _ _ _
    _ ≤ digitsVal a ^ digitsVal b := Nat.pow_le_pow_left h1 _

/-- a power is bounded by its bit-length estimate: `n^e ≤ 2^((log2 n + 1) * e)` -/
theorem pow_le_two_pow_bits (n e : Nat) : n ^ e ≤ 2 ^ ((Nat.log2 n + 1) * e) := by
  have h1 : n ≤ 2 ^ (Nat.log2 n + 1) := Nat.le_of_lt Nat.lt_log2_self
  calc n ^ e ≤ (2 ^ (Nat.log2 n + 1)) ^ e := Nat.pow_le_pow_left h1 _
    _ = 2 ^ ((Nat.log2 n + 1) * e) := (Nat.pow_mul _ _ _).symm

/-- **Below the guard the computed power is small** (the point of the repair: the time and
    memory of evaluating a literal are bounded): whenever the guard of the production does not
    hold, the integer `a^b` that `Parser.parse` computes is at most `2^2046`, hence below
    `2^2047` — at most 2047 bits. -/
theorem small_power_literal_bounded (a b : List Char)
    (hg : ¬ (digitsVal a > 1 ∧ Nat.log2 (digitsVal a) * digitsVal b ≥ 1024)) :
    digitsVal a ^ digitsVal b ≤ 2 ^ 2046 ∧ digitsVal a ^ digitsVal b < 2 ^ 2047 := by
  have key : digitsVal a ^ digitsVal b ≤ 2 ^ 2046 := by
    generalize digitsVal a = n at hg ⊢
    generalize digitsVal b = e at hg ⊢
    by_cases hn : n > 1
    · have hle : Nat.log2 n * e ≤ 1023 := by omega
      have hL : 1 ≤ Nat.log2 n := by
        have := (Nat.le_log2 (n := n) (k := 1) (by omega)).mpr (by omega)
        exact this
      have he : e ≤ Nat.log2 n * e := Nat.le_mul_of_pos_left e hL
      have hb : (Nat.log2 n + 1) * e ≤ 2046 := by rw [Nat.add_mul, Nat.one_mul]; omega
      calc n ^ e ≤ 2 ^ ((Nat.log2 n + 1) * e) := pow_le_two_pow_bits n e
        _ ≤ 2 ^ 2046 := Nat.pow_le_pow_right (Nat.zero_lt_two) hb
    · have h1 : n ^ e ≤ 1 ^ e := Nat.pow_le_pow_left (by omega) e
      rw [Nat.one_pow] at h1
      exact Nat.le_trans h1 (Nat.one_le_two_pow (n := 2046))
  have hlt : ∀ j k : Nat, j < k → 2 ^ j < 2 ^ k := fun j k h => Nat.pow_lt_pow_right (Nat.lt_succ_self 1) h
  exact ⟨key, Nat.lt_of_le_of_lt key (hlt 2046 2047 (Nat.lt_succ_self 2046))⟩

-- the guard at its boundary: `2^1023`, `3^646`, `10^308` are computed, `2^1024`, `3^1024`,
-- `10^342`, `9^99999999` are `#NUM!` (note `3^647 > 2^1024` is still computed: the guard uses
-- the bit length of the base, so it is exact for powers of two only)
-- the hypotheses of `huge_power_literal_is_num` / `huge_power_literal_exceeds` and of
-- `small_power_literal_bounded` are satisfiable (`9^99999999`; `3^1023`, about 2^1621)
example : digitsVal "9".toList > 1 ∧ Nat.log2 (digitsVal "9".toList) * digitsVal "99999999".toList ≥ 1024 := by decide
example : ¬ (digitsVal "3".toList > 1 ∧ Nat.log2 (digitsVal "3".toList) * digitsVal "1023".toList ≥ 1024) := by decide
example : numLitTooBig (.pow "2".toList "1023".toList) = false := by decide
example : numLitTooBig (.pow "2".toList "1024".toList) = true := by decide
example : numLitTooBig (.pow "3".toList "1023".toList) = false := by decide
example : numLitTooBig (.pow "3".toList "1024".toList) = true := by decide
example : numLitTooBig (.pow "10".toList "341".toList) = false := by decide
example : numLitTooBig (.pow "10".toList "342".toList) = true := by decide
example : numLitTooBig (.pow "9".toList "99999999".toList) = true := by decide
example : numLitTooBig (.pow "1".toList "99999999".toList) = false := by decide
example : numLitTooBig (.pow "0".toList "99999999".toList) = false := by decide
example (env : Env) : parseTop env "9^99999999".toList = ({ result := none, error := some .num }, []) :=
  huge_power_literal_is_num env "9".toList "99999999".toList (by decide) (by decide) (by decide) (by decide)
    (by decide) (by decide)
example (env : Env) : parseTop env "2^1024".toList = ({ result := none, error := some .num }, []) :=
  huge_power_literal_is_num env "2".toList "1024".toList (by decide) (by decide) (by decide) (by decide)
    (by decide) (by decide)
example (env : Env) : parseTop env "2^1023".toList =
    ({ result := some (.num (.int ((2 : Int) ^ 1023))), error := none }, []) :=
  (number_literal env "2".toList "1023".toList (by decide) (by decide) (by decide) (by decide)).2.2.2.2.1
    (by decide)
example (env : Env) : parseTop env "10^308".toList =
    ({ result := some (.num (.int ((10 : Int) ^ 308))), error := none }, []) :=
  (number_literal env "10".toList "308".toList (by decide) (by decide) (by decide) (by decide)).2.2.2.2.1
    (by decide)

/-- `digitsVal` is the usual positional value of a digit string: empty is 0, appending a digit
    `d` gives `10 * value + digit d`, concatenation shifts by a power of ten, and the decimal
    spelling `str(n)` of a natural number has value `n`. -/
theorem digitsVal_positional :
    digitsVal [] = 0 ∧
    (∀ (a : List Char) (d : Char), digitsVal (a ++ [d]) = 10 * digitsVal a + (d.toNat - 48)) ∧
    (∀ a b : List Char, digitsVal (a ++ b) = digitsVal a * 10 ^ b.length + digitsVal b) ∧
    (∀ n : Nat, digitsVal (PyNum.natToDec n) = n) :=
  ⟨digitsVal_nil, digitsVal_snoc, digitsVal_append, digitsVal_natToDec⟩

example : parseFormula "12.50".toList = .ok (.num (.dec ['1', '2'] ['5', '0'])) := by rfl
example : parseFormula ".5".toList = .ok (.num (.dotDec ['5'])) := by rfl
example : parseFormula "50%".toList = .ok (.num (.pct ['5', '0'])) := by rfl
example : parseFormula "2^10".toList = .ok (.num (.pow ['2'] ['1', '0'])) := by rfl
example : evalNumLit (.pow ['2'] ['1', '0']) = .num (.int 1024) := by rfl
example : evalNumLit (.dec ['1', '2'] ['5', '0']) = .num (.flt (25 / 2)) :=
  congrArg (fun q => Value.num (Num.flt q)) (by decide +kernel)
example : evalNumLit (.pct ['5', '0']) = .num (.flt (1 / 2)) :=
  congrArg (fun q => Value.num (Num.flt q)) (by decide +kernel)

/-- **A quoted literal is exactly the characters between its quotes.**  For either quote
    character `q` and every text `s` that does not contain `q` — backslashes are allowed,
    also a trailing one (`"a\"`: the matcher backtracks from reading `\"` as an escaped
    quote) — the formula `q s q` is one `STRING` token, parses to `Expr.str s`, and
    `Parser.parse` answers the text `s` with no error and no callback. -/
theorem string_literal (env : Env) (q : Char) (hq : q = '"' ∨ q = '\'') (s : List Char) (hs : q ∉ s) :
    parseFormula (q :: s ++ [q]) = .ok (.str s) ∧
    parseTop env (q :: s ++ [q]) = ({ result := some (.str s), error := none }, []) := by
  have hp : parseFormula (q :: s ++ [q]) = .ok (.str s) := by
    unfold parseFormula
    rw [tokenize_string hq hs]
    show Except.ok (Expr.str (stripQuotes (q :: s ++ [q]))) = _
    simp [stripQuotes]
  refine ⟨hp, ?_⟩
  unfold parseTop
  rw [hp]
  simp only [List.cons_append, List.isEmpty_cons, Bool.false_eq_true, ite_false, evalExpr]
  rfl

example : parseFormula ['"', 'a', '\\', '"'] = .ok (.str ['a', '\\']) := by rfl
example : parseFormula "'say \"hi\", 1;2'".toList = .ok (.str "say \"hi\", 1;2".toList) := by rfl
example : ('"' : Char) ∉ ['a', '\\'] := by decide

/-! ## D. case of cell references -/

/-- **`call_cell_value` is case-insensitive**: the label is upper-cased before anything else,
    and upper-casing is idempotent, so a label and its upper-case spelling give the same value
    and the same `callCellValue` event. -/
theorem cell_case_insensitive_call (env : Env) (l : List Char) (log : Log) :
    callCell env (Cell.upper l) log = callCell env l log := by
  unfold callCell
  rw [Cell.upper_idem]

/-- two spellings with the same upper-case form are the same cell to `call_cell_value` -/
theorem cell_case_insensitive_call_same_upper (env : Env) (l l' : List Char) (log : Log)
    (h : Cell.upper l = Cell.upper l') : callCell env l log = callCell env l' log := by
  rw [← cell_case_insensitive_call env l, ← cell_case_insensitive_call env l', h]

/-- a cell-shaped label (optional `$`, letters, optional `$`, digits) is one cell token and
    parses to a cell reference with exactly that text -/
theorem cell_label_parses (ca ra : Bool) (cs ds : List Char) (hcs : cs ≠ [])
    (hl : ∀ c ∈ cs, isAlpha c = true) (hds : ds ≠ []) (hd : ∀ c ∈ ds, isDigit c = true) :
    parseFormula (cellText ca ra cs ds) = .ok (.cell (cellText ca ra cs ds)) := by
  unfold parseFormula
  rw [tokenize_cell hcs hl hds hd]
  cases ca <;> cases ra <;> rfl

/-- **Cell references are case-insensitive.**  For a cell-shaped label `l` (optional `$`,
    letters of either case, optional `$`, digits) the formulas `l` and `upper l` — and any two
    spellings `l`, `l'` of the same letters in different case — give the same record and the
    same events (the `callCellValue` listener sees the upper-case label both times). -/
theorem cell_case_insensitive (env : Env) (ca ra : Bool) (cs cs' ds : List Char) (hcs : cs ≠ [])
    (hl : ∀ c ∈ cs, isAlpha c = true) (hl' : ∀ c ∈ cs', isAlpha c = true)
    (hds : ds ≠ []) (hd : ∀ c ∈ ds, isDigit c = true) (hsame : Cell.upper cs = Cell.upper cs') :
    parseTop env (cellText ca ra cs ds) = parseTop env (cellText ca ra cs' ds) ∧
    parseTop env (cellText ca ra cs ds) = parseTop env (Cell.upper (cellText ca ra cs ds)) := by
  have hcs' : cs' ≠ [] := by
    intro e; subst e
    exact hcs (Cell.upper_eq_nil_iff.mp (by rw [hsame]; rfl))
  have hne : ∀ x : List Char, x ≠ [] → (cellText ca ra x ds).isEmpty = false := by
    intro x hx
    cases x with
    | nil => exact absurd rfl hx
    | cons c x => cases ca <;> simp [cellText]
  have top : ∀ x : List Char, x ≠ [] → (∀ c ∈ x, isAlpha c = true) →
      parseTop env (cellText ca ra x ds) =
        (finish (callCell env (cellText ca ra x ds) []).1, (callCell env (cellText ca ra x ds) []).2) := by
    intro x hx hlx
    unfold parseTop
    rw [hne x hx, cell_label_parses ca ra x ds hx hlx hds hd]
    simp only [Bool.false_eq_true, ite_false, evalExpr]
  have hupper : ∀ c ∈ Cell.upper cs, isAlpha c = true := by
    intro c hc
    simp only [Cell.upper, List.mem_map] at hc
    obtain ⟨d, hdm, rfl⟩ := hc
    exact isAlpha_upperChar (hl d hdm)
  have hune : Cell.upper cs ≠ [] := fun e => hcs (Cell.upper_eq_nil_iff.mp e)
  have hlab : ∀ x y : List Char, Cell.upper x = Cell.upper y →
      Cell.upper (cellText ca ra x ds) = Cell.upper (cellText ca ra y ds) := by
    intro x y hxy
    rw [upper_cellText ca ra x ds hd, upper_cellText ca ra y ds hd, hxy]
  constructor
  · rw [top cs hcs hl, top cs' hcs' hl', cell_case_insensitive_call_same_upper env _ _ [] (hlab cs cs' hsame)]
  · rw [upper_cellText ca ra cs ds hd, top cs hcs hl, top _ hune hupper,
      cell_case_insensitive_call_same_upper env _ _ [] (hlab cs (Cell.upper cs) (Cell.upper_idem cs).symm)]

example : parseFormula "$ab$12".toList = .ok (.cell "$ab$12".toList) := by rfl
example : Cell.upper "aB".toList = Cell.upper "Ab".toList := by decide


/-! ## C. white space

  What is proved, precisely:
  * `whitespace_leading_trailing` — for EVERY text: white space before and after it is dropped;
  * `whitespace_at_token_boundary` — white space inserted at ONE real token boundary at the
    cursor is dropped; "real boundary" = the text `t1` is a token on its own and the lexer takes
    exactly `t1` from `t1 ++ rest` (this excludes by itself the function name before `(`, which
    only is a `FUNCTION` token with the parenthesis after it, and places inside a token);
  * `whitespace_between_selfdelimiting_tokens` — for texts made of self-delimiting tokens (the
    17 single-character tokens `{ } & : ; , \ * / - + ^ ( ) ! = %` and quoted literals), white
    space of any amount, also none, before / between / after ALL tokens at once is dropped.
  Not proved: insertion at several boundaries at once between maximal-munch tokens
  (identifiers, numbers, `<` `>`-operators) in one statement; each such boundary is covered one
  at a time by `whitespace_at_token_boundary` (at the lexer's cursor). -/

/-- equal token streams give equal `Parser.parse` answers (for non-empty texts) -/
theorem parseTop_congr (env : Env) {s t : List Char} (hs : s ≠ []) (ht : t ≠ [])
    (h : tokenize s = tokenize t) : parseTop env s = parseTop env t := by
  have e1 : s.isEmpty = false := by cases s with | nil => exact absurd rfl hs | cons _ _ => rfl
  have e2 : t.isEmpty = false := by cases t with | nil => exact absurd rfl ht | cons _ _ => rfl
  unfold parseTop parseFormula
  rw [e1, e2, h]

/-- **Leading and trailing white space never matter.**  For every text `s` and all runs `ws`,
    `ws'` of white-space characters (Python's `\s`), `ws ++ s ++ ws'` has the same token stream,
    hence the same parse, and (for a non-empty `s`) the same `Parser.parse` record and events. -/
theorem whitespace_leading_trailing (env : Env) (s ws ws' : List Char)
    (hws : ∀ c ∈ ws, isSpace c = true) (hws' : ∀ c ∈ ws', isSpace c = true) :
    tokenize (ws ++ s ++ ws') = tokenize s ∧
    parseFormula (ws ++ s ++ ws') = parseFormula s ∧
    (s ≠ [] → parseTop env (ws ++ s ++ ws') = parseTop env s) := by
  have h : tokenize (ws ++ s ++ ws') = tokenize s := by
    rw [List.append_assoc, tokenize_leading_ws hws, tokenize_trailing_ws hws' _ _ (Nat.le_refl _)]
  refine ⟨h, by unfold parseFormula; rw [h], fun hs => parseTop_congr env ?_ hs h⟩
  cases s with
  | nil => exact absurd rfl hs
  | cons c cs => cases ws <;> simp

/-- **White space at a real token boundary is dropped.**  Let `t1` be a text that on its own is
    exactly one token of kind `k` (not white space), and let the lexer, standing in front of
    `t1 ++ rest`, take exactly `t1` as a `k` token (the boundary after `t1` is a real one:
    nothing of `rest` fuses with it).  Then for every run `ws` of white-space characters the
    lexer produces the same tokens from `t1 ++ ws ++ rest` as from `t1 ++ rest`: the token
    `t1` followed by the tokens of `rest`. -/
theorem whitespace_at_token_boundary (t1 rest ws : List Char) (k : TK)
    (hws : ∀ c ∈ ws, isSpace c = true)
    (h1 : lexOne ruleOrder t1 = some (k, t1.length))
    (h2 : lexOne ruleOrder (t1 ++ rest) = some (k, t1.length)) (hk : k ≠ .WHITESPACE) :
    tokenize (t1 ++ ws ++ rest) = tokenize (t1 ++ rest) ∧
    tokenize (t1 ++ rest) = ⟨k, t1⟩ :: tokenize rest ∧
    parseFormula (t1 ++ ws ++ rest) = parseFormula (t1 ++ rest) := by
  obtain ⟨ha, hb⟩ := tokenize_insert_ws hws h1 h2 hk
  rw [List.append_assoc]
  refine ⟨ha.trans hb.symm, hb, ?_⟩
  unfold parseFormula
  rw [ha, hb]

-- the hypotheses are satisfiable: `12` before `+3`, `<` before `5`, `A1` before `:B2`
example : lexOne ruleOrder "12".toList = some (.NUMBER, 2) ∧
    lexOne ruleOrder ("12".toList ++ "+3".toList) = some (.NUMBER, 2) := by decide +kernel
example : lexOne ruleOrder "<".toList = some (.LESS, 1) ∧
    lexOne ruleOrder ("<".toList ++ "5".toList) = some (.LESS, 1) := by decide +kernel
example : lexOne ruleOrder "A1".toList = some (.RELATIVE_CELL, 2) ∧
    lexOne ruleOrder ("A1".toList ++ ":B2".toList) = some (.RELATIVE_CELL, 2) := by decide +kernel
-- and they fail where they must: a function name is no `FUNCTION` token on its own, `<` fuses with `=`
example : lexOne ruleOrder "SUM".toList = some (.VARIABLE, 3) ∧
    lexOne ruleOrder "SUM(1)".toList = some (.FUNCTION, 3) := by decide +kernel
example : lexOne ruleOrder "<=".toList = some (.LESSEQ, 2) := by decide +kernel
example : tokenize "SUM (1)".toList ≠ tokenize "SUM(1)".toList := by decide +kernel

/-- the 17 single-character tokens are self-delimiting: taken as one token whatever follows -/
theorem single_character_tokens_selfdelimiting (c : Char) (k : TK) (h : (c, k) ∈ singles) :
    SelfDelim k [c] := selfDelim_single h

/-- a quoted literal whose text contains neither its quote character nor a final backslash is
    self-delimiting -/
theorem quoted_literal_selfdelimiting (q : Char) (hq : q = '"' ∨ q = '\'') (body : List Char)
    (hb : q ∉ body) (hlast : body.getLast? ≠ some '\\') : SelfDelim .STRING (q :: body ++ [q]) :=
  selfDelim_string hq hb hlast

/-- **White space between self-delimiting tokens is dropped, everywhere at once.**  For a list
    of self-delimiting tokens (`SelfDelim`: e.g. the single-character tokens and quoted
    literals above), written with arbitrary runs of white space — possibly empty — before each
    token and after the last, the token stream is the list of the tokens; so it is the same
    for every choice of the gaps, in particular the same as with no white space at all. -/
theorem whitespace_between_selfdelimiting_tokens (items : List (List Char × TK × List Char))
    (tail : List Char)
    (h : ∀ i ∈ items, (∀ c ∈ i.1, isSpace c = true) ∧ SelfDelim i.2.1 i.2.2)
    (ht : ∀ c ∈ tail, isSpace c = true) :
    tokenize (renderGaps items tail) = items.map (fun i => ⟨i.2.1, i.2.2⟩) ∧
    tokenize (renderGaps items tail) = tokenize (renderGaps (items.map (fun i => ([], i.2))) []) := by
  have h1 := tokenize_renderGaps items tail h ht
  have h2 := tokenize_renderGaps (items.map (fun i => ([], i.2))) []
    (by
      intro i hi
      simp only [List.mem_map] at hi
      obtain ⟨j, hj, rfl⟩ := hi
      exact ⟨by simp, (h j hj).2⟩)
    (by simp)
  refine ⟨h1, ?_⟩
  rw [h1, h2, List.map_map]
  rfl

example : renderGaps [(" ".toList, .LPAREN, "(".toList), ("\t".toList, .STRING, "'a b'".toList),
    ([], .COMMA, ",".toList), ("\n ".toList, .RPAREN, ")".toList)] " ".toList = " (\t'a b',\n ) ".toList := by
  decide
example : isSpace ' ' = true ∧ isSpace '\t' = true ∧ isSpace '\n' = true ∧ isSpace ' ' = true := by decide

end HotXL.Props.C05
