/-
  C05 — lexical conventions: literals, whitespace, separators, case, empty arguments.
-/
import HotXL.Model.Lexer
import HotXL.Model.Syntax

namespace HotXL.Props.C05
open HotXL HotXL.Lexer

/-- every rule of the generated master regular expression is one the model has a matcher for,
    with exactly the regular-expression text the matcher was written for -/
theorem lex_rules_are_the_modelled_ones :
    Generated.lexRules.all (fun r => match TK.ofName r.1 with
      | some k => k.expectedRegex == r.2
      | none => false) = true := by
  decide +kernel

end HotXL.Props.C05
