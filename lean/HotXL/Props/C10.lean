/-
  C10 — reference events deliver canonical coordinates, once, in evaluation order.

  "Each cell reference, range reference, variable reference and function call in a formula raises
   exactly one corresponding event, in left-to-right evaluation order with arguments before their
   call.  A cell event carries the upper-cased label, the zero-based row and column it denotes and
   its absolute markers; a range event carries the top-left and bottom-right cells however the
   corners were written, each cell's label agreeing with its coordinates.  The last value other
   than None handed to the event's setter - including 0, FALSE and empty text - becomes the value
   of the reference, and with no listener a cell or range is blank."

  The objects: `Eval.evalExpr` / `Eval.evalList` (the semantic actions ply runs bottom-up, threading
  the log of emitted events), `Eval.callCell`, `callRange`, `callVariable`, `callFunction` (models of
  `Parser.call_cell_value`, `call_range_value`, `call_variable`, `call_function`), `Eval.parseTop`
  (`Parser.parse`), `Eval.applySetters` (the `valsetter` closure folded over all setter calls),
  `Cell.extractLabel` / `Cell.toLabel` (C19).  Specification vocabulary (`HotXL/Lemmas/Events.lean`):
  `RefNode`, `refsPostorder` (the reference / call nodes of a tree in post-order), `nodeEvents`
  (what the `call_*` model logs for one node), `allEvents` (all of them, in post-order), `rowPart`,
  `colPart` (the row / column part `extract_label` delivers), `lo` / `hi` (the part with the smaller
  / larger index).  Labels are written with `Props.C19.fmt ca cs ra n` = optional `$`, letters `cs`
  of either case, optional `$`, the row number `n ≥ 1` in decimal.
-/
import HotXL.Model.Eval
import HotXL.Lemmas.Events
import HotXL.Lemmas.Routes
import HotXL.Props.C04
import HotXL.Props.C19

namespace HotXL.Props.C10
open HotXL HotXL.Syntax HotXL.Eval HotXL.Events HotXL.Cell HotXL.Lexer
open HotXL.Props.C19 (fmt)

/-! ## 1. one event per reference, in post-order -/

/-- Whatever the log so far, evaluating a tree only appends to it, and neither the value nor the
    appended events depend on what was logged before. -/
theorem log_only_grows (env : Env) (t : Expr) (log : Log) :
    evalExpr env t log = ((evalExpr env t []).1, log ++ (evalExpr env t []).2) :=
  evalExpr_writer env t log

/-- If the evaluation of a tree does not abort (no exception reaches `Parser.parse`), the events it
    raises are exactly those of its cell, range, variable and call nodes in post-order — left
    operand before right operand, the arguments of a call (left to right) before the call — and
    every such node raises exactly one event. -/
theorem events_postorder (env : Env) (t : Expr) (log : Log) (v : Value)
    (h : (evalExpr env t log).1 = .ok v) :
    (evalExpr env t log).2 = log ++ allEvents env t ∧
    ∀ n ∈ refsPostorder t, ∃ e, nodeEvents env n = [e] := by
  rw [evalExpr_writer env t log] at h ⊢
  obtain ⟨h1, h2⟩ := (evalExpr_spec env t).2 v h
  exact ⟨by rw [h1], h2⟩

/-- Multiplicities: without an abort the number of events raised is the number of reference and
    call nodes of the tree. -/
theorem events_count (env : Env) (t : Expr) (log : Log) (v : Value)
    (h : (evalExpr env t log).1 = .ok v) :
    ((evalExpr env t log).2).length = log.length + (refsPostorder t).length := by
  obtain ⟨h1, h2⟩ := events_postorder env t log v h
  rw [h1, List.length_append]
  congr 1
  unfold allEvents
  generalize refsPostorder t = ns at h2
  induction ns with
  | nil => rfl
  | cons n ns ih =>
    obtain ⟨e, he⟩ := h2 n (by simp)
    rw [List.flatMap_cons, List.length_append, he, ih (fun m hm => h2 m (by simp [hm]))]
    simp
    omega

/-- When the evaluation aborts (or not), the events raised are a prefix of the post-order list: the
    references evaluated before the abort have raised their events, in order, and nothing else was
    raised. -/
theorem events_prefix_on_abort (env : Env) (t : Expr) (log : Log) :
    ∃ evs, (evalExpr env t log).2 = log ++ evs ∧ evs <+: allEvents env t := by
  rw [evalExpr_writer env t log]
  exact ⟨_, rfl, (evalExpr_spec env t).1⟩

/-- What the single event of a node carries: a cell node the upper-cased label and the two parts
    `extract_label` finds in it; a range node the two corners chosen by `call_range_value` from the
    parts of both labels; a variable node its name; a call node its name and the values of its
    arguments. -/
theorem node_event_fields (env : Env) :
    (∀ l e, nodeEvents env (.cell l) = [e] →
      ∃ row col, extractLabel (upper l) = some (row, col) ∧ e = .cell (upper l) row col) ∧
    (∀ a b e, nodeEvents env (.range a b) = [e] →
      ∃ ra ca rb cb, extractLabel (upper a) = some (ra, ca) ∧ extractLabel (upper b) = some (rb, cb) ∧
        e = .range (toLabel (lo ra rb) (lo ca cb)) (lo ra rb) (lo ca cb)
                   (toLabel (hi ra rb) (hi ca cb)) (hi ra rb) (hi ca cb)) ∧
    (∀ n, nodeEvents env (.var n) = [.var n]) ∧
    (∀ name kind a b e, nodeEvents env (.call name kind a b) = [e] →
      e = .fn name (seqValues kind (valuesOf env a) (valuesOf env b))) := by
  refine ⟨?_, ?_, ?_, ?_⟩
  · intro l e h
    simp only [nodeEvents, callCell] at h
    cases hx : extractLabel (upper l) with
    | none => simp [hx] at h
    | some p => simp [hx] at h; exact ⟨p.1, p.2, rfl, h.symm⟩
  · intro a b e h
    simp only [nodeEvents, callRange] at h
    cases hx : extractLabel (upper a) with
    | none => simp [hx] at h
    | some p =>
      cases hy : extractLabel (upper b) with
      | none => simp [hx, hy] at h
      | some q =>
        simp only [hx, hy, List.nil_append, List.cons.injEq, and_true] at h
        refine ⟨p.1, p.2, q.1, q.2, rfl, rfl, ?_⟩
        rw [← h]
        unfold lo hi
        by_cases h1 : p.1.index ≤ q.1.index <;> by_cases h2 : p.2.index ≤ q.2.index <;> simp [h1, h2]
  · intro n
    exact callVariable_events env n
  · intro name kind a b e h
    simp only [nodeEvents] at h
    rcases hc : callFunction env name (callArgs env kind a b) [] with ⟨r, lg⟩
    rw [hc] at h
    simp only at h
    subst h
    cases r with
    | ok v => have := callFunction_ok hc; simpa [callArgs] using this
    | error x =>
      -- an aborted call logs nothing
      exfalso
      rw [callFunction_eq] at hc
      unfold callWith at hc
      split at hc
      · simp at hc
      · split at hc <;> simp at hc

/-- The same for the TEXT of a formula: if the token stream of a non-empty formula is a rendering
    of the tree `t` (any amount of redundant parentheses, C04) and the evaluation does not abort,
    the events `Parser.parse` raises are those of the nodes of `t` in post-order, one per node, and
    the record returned is that of the tree's value. -/
theorem formula_events_postorder (env : Env) (s : List Char) (t : Expr) (hs : s ≠ [])
    (hr : Renders t (tokenize s)) (v : Value) (h : (evalExpr env t []).1 = .ok v) :
    parseTop env s = (finish (.ok v), allEvents env t) ∧
    ∀ n ∈ refsPostorder t, ∃ e, nodeEvents env n = [e] := by
  obtain ⟨h1, h2⟩ := events_postorder env t [] v h
  rw [C04.formula_value_is_tree_value env s t hs hr, h, h1]
  exact ⟨rfl, h2⟩

/-- … and for every formula the model parser accepts (calls with arguments, arrays, omitted
    argument slots included): the events are those of the parsed tree in post-order, one per node,
    when the evaluation does not abort; a prefix of them otherwise. -/
theorem parsed_formula_events (env : Env) (s : List Char) (t : Expr) (hs : s ≠ [])
    (hp : parseFormula s = .ok t) :
    (parseTop env s).2 <+: allEvents env t ∧
    ∀ v, (evalExpr env t []).1 = .ok v →
      parseTop env s = (finish (.ok v), allEvents env t) ∧
      ∀ n ∈ refsPostorder t, ∃ e, nodeEvents env n = [e] := by
  have he : s.isEmpty = false := by cases s <;> simp_all
  have hpt : parseTop env s = (finish (evalExpr env t []).1, (evalExpr env t []).2) := by
    simp [parseTop, he, hp]
  refine ⟨?_, ?_⟩
  · rw [hpt]; exact (evalExpr_spec env t).1
  · intro v h
    obtain ⟨h1, h2⟩ := events_postorder env t [] v h
    rw [hpt, h, h1]
    exact ⟨rfl, h2⟩

/-- With an abort, for the text of any rendering of a tree: the events raised are a prefix of the
    post-order list. -/
theorem formula_events_prefix (env : Env) (s : List Char) (t : Expr) (hs : s ≠ [])
    (hr : Renders t (tokenize s)) : (parseTop env s).2 <+: allEvents env t := by
  rw [C04.formula_value_is_tree_value env s t hs hr]
  exact (evalExpr_spec env t).1

/-! ## 2. cell events -/

/-- A cell reference written as a valid label in any case and with any `$` pattern (letters `cs`,
    row number `n ≥ 1`) raises one event carrying the upper-cased label, the zero-based row `n - 1`
    and the column number of the letters, the `$` markers of the row and of the column, and a label
    that is `to_label` of these two parts; its value is what the listeners set for that label. -/
theorem cell_event (env : Env) (ca ra : Bool) (cs : List Char) (n : Nat)
    (hcs : cs ≠ []) (hl : ∀ c ∈ cs, isLetter c = true) (hn : 1 ≤ n) (log : Log) :
    ∃ row col,
      callCell env (fmt ca cs ra n) log =
        (.ok (env.cellValue (upper (fmt ca cs ra n))), log ++ [.cell (upper (fmt ca cs ra n)) row col]) ∧
      row.index = (n : Int) - 1 ∧ col.index = colLabelToIndex cs ∧
      row.isAbsolute = ra ∧ col.isAbsolute = ca ∧
      row.label = PyNum.natToDec n ∧ col.label = upper cs ∧
      toLabel row col = upper (fmt ca cs ra n) ∧
      extractLabel (upper (fmt ca cs ra n)) = some (row, col) :=
  ⟨rowPart ra n, colPart ca cs, callCell_fmt env ca ra cs n hcs hl hn log, rfl, rfl, rfl, rfl, rfl, rfl,
    toLabel_parts ca ra cs n hcs hl hn, extract_upper_fmt ca ra cs n hcs hl hn⟩

/-- Case does not matter: the lower-cased, the upper-cased and the original spelling of a label
    (valid or not) raise the same event and have the same value. -/
theorem cell_event_case_insensitive (env : Env) (ca ra : Bool) (cs : List Char) (n : Nat) (log : Log) :
    callCell env (fmt ca (upper cs) ra n) log = callCell env (fmt ca cs ra n) log ∧
    callCell env (fmt ca (lower cs) ra n) log = callCell env (fmt ca cs ra n) log := by
  have key : ∀ l l' : List Char, upper l = upper l' → callCell env l log = callCell env l' log := by
    intro l l' h
    unfold callCell
    rw [h]
  constructor
  · apply key; rw [upper_fmt, upper_fmt, upper_idem]
  · apply key; rw [upper_fmt, upper_fmt, upper_lower]

example (env : Env) (log : Log) :
    callCell env "xfd7".toList log = callCell env "XFD7".toList log := by
  have h := (cell_event_case_insensitive env false false "xfd".toList 7 log).1
  have h7 : PyNum.natToDec 7 = ['7'] := by simp [PyNum.natToDec_lt_ten, PyNum.digitChar]
  have hu : upper "xfd".toList = "XFD".toList := by decide
  rw [hu] at h
  simpa [fmt, h7] using h.symm

/-! ## 3. range events -/

/-- A range written with two valid labels `a` (letters `cs`, row `n`, markers `ca`/`ra`) and `b`
    (`ds`, `m`, `cb`/`rb`) in any case raises one event with a start cell and an end cell such that
    * start row ≤ end row and start column ≤ end column, the rows being the smaller and the larger
      of the two written rows, the columns the smaller and the larger of the two written columns
      (whatever corners were written);
    * each row part (index, text, `$` marker) is the row part of one of the written labels and each
      column part the column part of one of them — the markers travel with their row / column;
    * each corner's label is `to_label` of its own coordinates, and decomposing that label gives
      back exactly the corner's row and column (the repaired defect: labels agree with coordinates);
    * the value is what the listeners set for that pair of labels. -/
theorem range_normalised (env : Env) (ca ra cb rb : Bool) (cs ds : List Char) (n m : Nat)
    (hcs : cs ≠ []) (hl : ∀ c ∈ cs, isLetter c = true) (hn : 1 ≤ n)
    (hds : ds ≠ []) (hl' : ∀ c ∈ ds, isLetter c = true) (hm : 1 ≤ m) (log : Log) :
    ∃ sl sr sc el er ec,
      callRange env (fmt ca cs ra n) (fmt cb ds rb m) log =
        (.ok (env.rangeValue sl el), log ++ [.range sl sr sc el er ec]) ∧
      sr.index ≤ er.index ∧ sc.index ≤ ec.index ∧
      sr.index = min ((n : Int) - 1) ((m : Int) - 1) ∧ er.index = max ((n : Int) - 1) ((m : Int) - 1) ∧
      sc.index = min (colLabelToIndex cs) (colLabelToIndex ds) ∧
      ec.index = max (colLabelToIndex cs) (colLabelToIndex ds) ∧
      ((sr = rowPart ra n ∧ er = rowPart rb m) ∨ (sr = rowPart rb m ∧ er = rowPart ra n)) ∧
      ((sc = colPart ca cs ∧ ec = colPart cb ds) ∨ (sc = colPart cb ds ∧ ec = colPart ca cs)) ∧
      sl = toLabel sr sc ∧ el = toLabel er ec ∧
      extractLabel sl = some (sr, sc) ∧ extractLabel el = some (er, ec) := by
  refine ⟨_, _, _, _, _, _, callRange_fmt env ca ra cb rb cs ds n m hcs hl hn hds hl' hm log, ?_⟩
  have hr := lo_hi_cases (rowPart ra n) (rowPart rb m)
  have hc := lo_hi_cases (colPart ca cs) (colPart cb ds)
  have ri1 : (rowPart ra n).index = (n : Int) - 1 := rfl
  have ri2 : (rowPart rb m).index = (m : Int) - 1 := rfl
  have ci1 : (colPart ca cs).index = colLabelToIndex cs := rfl
  have ci2 : (colPart cb ds).index = colLabelToIndex ds := rfl
  have e11 := extract_toLabel_parts ca ra cs n hcs hl hn
  have e12 := extract_toLabel_parts cb ra ds n hds hl' hn
  have e21 := extract_toLabel_parts ca rb cs m hcs hl hm
  have e22 := extract_toLabel_parts cb rb ds m hds hl' hm
  rcases hr with ⟨r1, r2, r3⟩ | ⟨r1, r2, r3⟩ <;> rcases hc with ⟨c1, c2, c3⟩ | ⟨c1, c2, c3⟩ <;>
    rw [r1, r2, c1, c2] <;> rw [ri1, ri2] at r3 <;> rw [ci1, ci2] at c3 <;>
    simp only [ri1, ri2, ci1, ci2, and_true, or_true, true_or, and_self,
      e11, e12, e21, e22] <;>
    omega

/-- The four ways of naming the same rectangle by two opposite corners — rows `n`, `m` and columns
    `cs`, `ds`, each carrying its own `$` marker — raise the same event and have the same value,
    provided the two rows (columns) are different or carry the same marker (for a one-row or
    one-column range whose two row (column) parts differ only by `$`, "top-left" is not determined
    by the rectangle). -/
theorem range_corner_order_irrelevant (env : Env) (ca ra cb rb : Bool) (cs ds : List Char) (n m : Nat)
    (hcs : cs ≠ []) (hl : ∀ c ∈ cs, isLetter c = true) (hn : 1 ≤ n)
    (hds : ds ≠ []) (hl' : ∀ c ∈ ds, isLetter c = true) (hm : 1 ≤ m)
    (hrow : n = m → ra = rb) (hcol : colLabelToIndex cs = colLabelToIndex ds → colPart ca cs = colPart cb ds)
    (log : Log) :
    callRange env (fmt cb ds rb m) (fmt ca cs ra n) log = callRange env (fmt ca cs ra n) (fmt cb ds rb m) log ∧
    callRange env (fmt ca cs rb m) (fmt cb ds ra n) log = callRange env (fmt ca cs ra n) (fmt cb ds rb m) log ∧
    callRange env (fmt cb ds ra n) (fmt ca cs rb m) log = callRange env (fmt ca cs ra n) (fmt cb ds rb m) log := by
  have hlo : lo (rowPart rb m) (rowPart ra n) = lo (rowPart ra n) (rowPart rb m) ∧
      hi (rowPart rb m) (rowPart ra n) = hi (rowPart ra n) (rowPart rb m) := by
    unfold lo hi
    have ri1 : (rowPart ra n).index = (n : Int) - 1 := rfl
    have ri2 : (rowPart rb m).index = (m : Int) - 1 := rfl
    rw [ri1, ri2]
    by_cases h1 : (m : Int) - 1 ≤ (n : Int) - 1 <;> by_cases h2 : (n : Int) - 1 ≤ (m : Int) - 1 <;>
      simp only [h1, h2, if_true, if_false, and_self]
    · have : n = m := by omega
      subst this; rw [hrow rfl]; exact ⟨rfl, rfl⟩
    · omega
  have hco : lo (colPart cb ds) (colPart ca cs) = lo (colPart ca cs) (colPart cb ds) ∧
      hi (colPart cb ds) (colPart ca cs) = hi (colPart ca cs) (colPart cb ds) := by
    unfold lo hi
    have ci1 : (colPart ca cs).index = colLabelToIndex cs := rfl
    have ci2 : (colPart cb ds).index = colLabelToIndex ds := rfl
    rw [ci1, ci2]
    by_cases h1 : colLabelToIndex ds ≤ colLabelToIndex cs <;>
      by_cases h2 : colLabelToIndex cs ≤ colLabelToIndex ds <;>
      simp only [h1, h2, if_true, if_false, and_self]
    · rw [hcol (by omega)]; exact ⟨rfl, rfl⟩
    · omega
  rw [callRange_fmt env cb rb ca ra ds cs m n hds hl' hm hcs hl hn,
    callRange_fmt env ca rb cb ra cs ds m n hcs hl hm hds hl' hn,
    callRange_fmt env cb ra ca rb ds cs n m hds hl' hn hcs hl hm,
    callRange_fmt env ca ra cb rb cs ds n m hcs hl hn hds hl' hm,
    hlo.1, hlo.2, hco.1, hco.2]
  exact ⟨rfl, rfl, rfl⟩

/-! ## 4. the setter -/

/-- `Value.isBlank` is the test `new_value is None` -/
theorem isBlank_iff (v : Value) : v.isBlank = true ↔ v = .blank := by
  cases v <;> simp [Value.isBlank]

/-- After any sequence of setter calls (from any number of listeners), the value of the reference is
    the last value other than `None` that was handed over, and the initial value (the function's
    return value, the stored variable, `None` for a cell or range) if there is none. -/
theorem setter_last_non_blank (init : Value) (calls : List Value) :
    applySetters init calls = ((calls.filter (fun v => !v.isBlank)).getLast?).getD init := by
  induction calls generalizing init with
  | nil => rfl
  | cons c cs ih =>
    rw [show applySetters init (c :: cs) = applySetters (valsetter init c) cs from rfl, ih]
    unfold valsetter
    by_cases h : c.isBlank = true
    · simp [h]
    · simp [h, List.getLast?_cons]

/-- The same without `filter`: a value other than `None` followed only by `None`s is the result,
    whatever came before it. -/
theorem setter_last_wins (init v : Value) (before after : List Value) (hv : v ≠ .blank)
    (ha : ∀ w ∈ after, w = .blank) : applySetters init (before ++ v :: after) = v := by
  have hvb : v.isBlank = false := by
    cases hb : v.isBlank with
    | false => rfl
    | true => exact absurd ((isBlank_iff v).mp hb) hv
  have hf : after.filter (fun w => !w.isBlank) = [] := by
    rw [List.filter_eq_nil_iff]
    intro w hw
    rw [ha w hw]
    decide
  rw [setter_last_non_blank, List.filter_append, List.filter_cons, hvb, hf]
  simp

/-- 0 handed to the setter is kept (it is not mistaken for "no value"). -/
theorem setter_keeps_zero (init : Value) (before : List Value) :
    applySetters init (before ++ [.num (.int 0)]) = .num (.int 0) ∧
    applySetters init (before ++ [.num (.flt 0)]) = .num (.flt 0) :=
  ⟨setter_last_wins init _ before [] (by simp) (by simp),
   setter_last_wins init _ before [] (by simp) (by simp)⟩

/-- FALSE handed to the setter is kept. -/
theorem setter_keeps_false (init : Value) (before : List Value) :
    applySetters init (before ++ [.bool false]) = .bool false :=
  setter_last_wins init _ before [] (by simp) (by simp)

/-- Empty text handed to the setter is kept. -/
theorem setter_keeps_empty_text (init : Value) (before : List Value) :
    applySetters init (before ++ [.str []]) = .str [] :=
  setter_last_wins init _ before [] (by simp) (by simp)

/-- `None` handed to the setter changes nothing, wherever it occurs. -/
theorem setter_ignores_none (init : Value) (before after : List Value) :
    applySetters init (before ++ .blank :: after) = applySetters init (before ++ after) := by
  rw [setter_last_non_blank, setter_last_non_blank, List.filter_append, List.filter_append,
    List.filter_cons]
  simp [Value.isBlank]

/-- With no listener (no setter call at all), or with listeners that only hand over `None`, a cell
    or a range is blank; a variable keeps its stored value and a call its return value. -/
theorem no_listener_blank :
    applySetters .blank [] = .blank ∧
    (∀ calls : List Value, (∀ v ∈ calls, v = .blank) → applySetters .blank calls = .blank) ∧
    (∀ init : Value, applySetters init [] = init) ∧
    (∀ (init : Value) (calls : List Value), (∀ v ∈ calls, v = .blank) → applySetters init calls = init) := by
  have key : ∀ (init : Value) (calls : List Value), (∀ v ∈ calls, v = .blank) →
      applySetters init calls = init := by
    intro init calls h
    have hf : calls.filter (fun w => !w.isBlank) = [] := by
      rw [List.filter_eq_nil_iff]
      intro w hw
      rw [h w hw]
      decide
    rw [setter_last_non_blank, hf]
    rfl
  exact ⟨rfl, key .blank, fun _ => rfl, key⟩

/-- In the evaluator's environment a cell without a listener is blank, and so is a range: with
    `Env.empty` every valid cell / range reference evaluates to blank (and still raises its event). -/
theorem no_listener_blank_reference (ca ra cb rb : Bool) (cs ds : List Char) (n m : Nat)
    (hcs : cs ≠ []) (hl : ∀ c ∈ cs, isLetter c = true) (hn : 1 ≤ n)
    (hds : ds ≠ []) (hl' : ∀ c ∈ ds, isLetter c = true) (hm : 1 ≤ m) (log : Log) :
    (callCell Env.empty (fmt ca cs ra n) log).1 = .ok .blank ∧
    (callRange Env.empty (fmt ca cs ra n) (fmt cb ds rb m) log).1 = .ok .blank := by
  rw [callCell_fmt Env.empty ca ra cs n hcs hl hn, callRange_fmt Env.empty ca ra cb rb cs ds n m hcs hl hn hds hl' hm]
  exact ⟨rfl, rfl⟩

/-! ## non-vacuity -/

section Examples

private theorem dec1 : PyNum.natToDec 1 = ['1'] := by simp [PyNum.natToDec_lt_ten, PyNum.digitChar]
private theorem dec5 : PyNum.natToDec 5 = ['5'] := by simp [PyNum.natToDec_lt_ten, PyNum.digitChar]
private theorem decMax : PyNum.natToDec 1048576 = "1048576".toList := by
  simp [PyNum.natToDec_ge_ten, PyNum.natToDec_lt_ten, PyNum.digitChar]

/-- `$xfd$1048576`: upper-cased label `$XFD$1048576`, row index 1048575, column index 16383, both
    markers set -/
example (env : Env) (log : Log) : ∃ row col,
    callCell env "$xfd$1048576".toList log =
      (.ok (env.cellValue "$XFD$1048576".toList), log ++ [.cell "$XFD$1048576".toList row col]) ∧
    row.index = 1048575 ∧ col.index = 16383 ∧ row.isAbsolute = true ∧ col.isAbsolute = true ∧
    toLabel row col = "$XFD$1048576".toList := by
  obtain ⟨row, col, h1, h2, h3, h4, h5, _, _, h8, _⟩ :=
    cell_event env true true "xfd".toList 1048576 (by decide) (by decide) (by omega) log
  have hf : fmt true "xfd".toList true 1048576 = "$xfd$1048576".toList := by
    simp [fmt, decMax]
  have hu : upper "$xfd$1048576".toList = "$XFD$1048576".toList := by decide
  rw [hf, hu] at h1 h8
  refine ⟨row, col, h1, ?_, ?_, h4, h5, h8⟩
  · rw [h2]; rfl
  · rw [h3]; decide +kernel

/-- `B5:a1` (the repaired defect): start cell `A1` at (0,0), end cell `B5` at (4,1) — the labels are
    those of the coordinates, not the ones written -/
example (env : Env) (log : Log) : ∃ sr sc er ec,
    callRange env "B5".toList "a1".toList log =
      (.ok (env.rangeValue "A1".toList "B5".toList),
        log ++ [.range "A1".toList sr sc "B5".toList er ec]) ∧
    sr.index = 0 ∧ sc.index = 0 ∧ er.index = 4 ∧ ec.index = 1 := by
  obtain ⟨sl, sr, sc, el, er, ec, h1, _, _, h4, h5, h6, h7, h8, h9, h10, h11, _, _⟩ :=
    range_normalised env false false false false "B".toList "a".toList 5 1
      (by decide) (by decide) (by omega) (by decide) (by decide) (by omega) log
  have hfa : fmt false "B".toList false 5 = "B5".toList := by simp [fmt, dec5]
  have hfb : fmt false "a".toList false 1 = "a1".toList := by simp [fmt, dec1]
  have hcB : colLabelToIndex "B".toList = 1 := by decide +kernel
  have hca : colLabelToIndex "a".toList = 0 := by decide +kernel
  rw [hcB, hca] at h6 h7
  -- rows: 5 > 1 and columns: B > a, so both parts are swapped
  have hr : sr = rowPart false 1 ∧ er = rowPart false 5 := by
    rcases h8 with ⟨a, b⟩ | h
    · rw [a] at h4; exact absurd h4 (by decide)
    · exact h
  have hc : sc = colPart false "a".toList ∧ ec = colPart false "B".toList := by
    rcases h9 with ⟨a, b⟩ | h
    · rw [a] at h6; exact absurd h6 (by decide +kernel)
    · exact h
  have hsl : sl = "A1".toList := by
    rw [h10, hr.1, hc.1, toLabel_parts false false "a".toList 1 (by decide) (by decide) (by omega), hfb]
    decide
  have hel : el = "B5".toList := by
    rw [h11, hr.2, hc.2, toLabel_parts false false "B".toList 5 (by decide) (by decide) (by omega), hfa]
    decide
  rw [hfa, hfb, hsl, hel] at h1
  exact ⟨sr, sc, er, ec, h1, by rw [h4]; decide, by rw [h6]; decide, by rw [h5]; decide, by rw [h7]; decide⟩

/-- the four corner orders of `a1:$B5` (distinct rows and columns, mixed markers and case) -/
example (env : Env) (log : Log) :
    callRange env "$B5".toList "a1".toList log = callRange env "a1".toList "$B5".toList log ∧
    callRange env "a5".toList "$B1".toList log = callRange env "a1".toList "$B5".toList log ∧
    callRange env "$B1".toList "a5".toList log = callRange env "a1".toList "$B5".toList log := by
  have h := range_corner_order_irrelevant env false false true false "a".toList "B".toList 1 5
    (by decide) (by decide) (by omega) (by decide) (by decide) (by omega) (by omega)
    (fun h => absurd h (by decide +kernel)) log
  simpa [fmt, dec1, dec5] using h

/-- `SUM(A1,F(B5:a1,x))=G($xfd$1048576)`: a formula with nested calls, a reversed range, a variable
    and cells; its tree, its reference nodes in post-order, and an environment in which the
    evaluation does not abort (so `parsed_formula_events` applies and gives seven events) -/
def exTree : Expr :=
  .bin .eq
    (.call "SUM".toList .flat
      [.cell "A1".toList,
       .call "F".toList .flat [.range "B5".toList "a1".toList, .var ["x".toList]] []] [])
    (.call "G".toList .flat [.cell "$xfd$1048576".toList] [])

def exToks : List Token :=
  [⟨.FUNCTION, "SUM".toList⟩, ⟨.LPAREN, ['(']⟩, ⟨.RELATIVE_CELL, "A1".toList⟩, ⟨.COMMA, [',']⟩,
   ⟨.FUNCTION, ['F']⟩, ⟨.LPAREN, ['(']⟩, ⟨.RELATIVE_CELL, "B5".toList⟩, ⟨.COLON, [':']⟩,
   ⟨.RELATIVE_CELL, "a1".toList⟩, ⟨.COMMA, [',']⟩, ⟨.VARIABLE, ['x']⟩, ⟨.RPAREN, [')']⟩,
   ⟨.RPAREN, [')']⟩, ⟨.EQUAL, ['=']⟩, ⟨.FUNCTION, ['G']⟩, ⟨.LPAREN, ['(']⟩,
   ⟨.ABSOLUTE_CELL, "$xfd$1048576".toList⟩, ⟨.RPAREN, [')']⟩]

def exEnv : Env :=
  { Env.empty with
    vars := fun n => if n = "x".toList then some (.num (.int 3)) else none
    custom := fun n => if n = "F".toList then some (fun a => .ok (a.headD .blank))
                       else if n = "G".toList then some (fun _ => .ok (.num (.int 7))) else none }

theorem exFormula_parses :
    parseFormula "SUM(A1,F(B5:a1,x))=G($xfd$1048576)".toList = .ok exTree := by
  have ht : tokenize "SUM(A1,F(B5:a1,x))=G($xfd$1048576)".toList = exToks := by decide +kernel
  unfold parseFormula
  rw [ht]
  rfl

theorem exTree_refs : refsPostorder exTree =
    [.cell "A1".toList, .range "B5".toList "a1".toList, .var "x".toList,
     .call "F".toList .flat [.range "B5".toList "a1".toList, .var ["x".toList]] [],
     .call "SUM".toList .flat [.cell "A1".toList,
        .call "F".toList .flat [.range "B5".toList "a1".toList, .var ["x".toList]] []] [],
     .cell "$xfd$1048576".toList,
     .call "G".toList .flat [.cell "$xfd$1048576".toList] []] := by
  simp [exTree, refsPostorder, refsList]

example : ∃ v, (evalExpr exEnv exTree []).1 = .ok v := by
  have h : ((evalExpr exEnv exTree []).1).isOk = true := by rfl
  cases hv : (evalExpr exEnv exTree []).1 with
  | ok v => exact ⟨v, rfl⟩
  | error x => rw [hv] at h; cases h

/-- so: parsing that text raises exactly seven events, those of the seven nodes in post-order -/
example : ((parseTop exEnv "SUM(A1,F(B5:a1,x))=G($xfd$1048576)".toList).2).length = 7 := by
  have h : ((evalExpr exEnv exTree []).1).isOk = true := by rfl
  cases hv : (evalExpr exEnv exTree []).1 with
  | error x => rw [hv] at h; cases h
  | ok v =>
    have h1 := ((parsed_formula_events exEnv _ exTree (by decide) exFormula_parses).2 v hv).1
    have h2 := events_count exEnv exTree [] v hv
    rw [h1]
    rw [(events_postorder exEnv exTree [] v hv).1, exTree_refs] at h2
    simpa using h2

/-- an aborting evaluation exists: in the empty environment `x` is unknown and the evaluation stops
    there (`events_prefix_on_abort` / `parsed_formula_events` then give a prefix of the seven events) -/
example : ∃ x, (evalExpr Env.empty exTree []).1 = .error x := by
  have h : ((evalExpr Env.empty exTree []).1).isOk = false := by rfl
  cases hv : (evalExpr Env.empty exTree []).1 with
  | ok v => rw [hv] at h; cases h
  | error x => exact ⟨x, rfl⟩

/-- the text-level theorem for renderings applies: the token stream of `a1=B5:a1<>x` is a rendering
    of the tree `a1 = (B5:a1 <> x)`, whose evaluation in `exEnv` does not abort; parsing the text raises
    the three events cell, range, variable in that order -/
example : (parseTop exEnv "a1=B5:a1<>x".toList).2 =
    allEvents exEnv (.bin .eq (.cell "a1".toList)
      (.bin .ne (.range "B5".toList "a1".toList) (.var ["x".toList]))) ∧
    refsPostorder (.bin .eq (.cell "a1".toList)
      (.bin .ne (.range "B5".toList "a1".toList) (.var ["x".toList]))) =
      [.cell "a1".toList, .range "B5".toList "a1".toList, .var "x".toList] := by
  have ht : tokenize "a1=B5:a1<>x".toList =
      [⟨.RELATIVE_CELL, "a1".toList⟩] ++ opTok .eq ::
        ([⟨.RELATIVE_CELL, "B5".toList⟩, ⟨.COLON, [':']⟩, ⟨.RELATIVE_CELL, "a1".toList⟩] ++ opTok .ne ::
          [⟨.VARIABLE, ['x']⟩]) := by decide +kernel
  have hr : Renders (.bin .eq (.cell "a1".toList)
      (.bin .ne (.range "B5".toList "a1".toList) (.var ["x".toList]))) (tokenize "a1=B5:a1<>x".toList) := by
    rw [ht]
    exact .bin _ (Nat.zero_le _) (.atom (.cell _ _ rfl))
      (.bin _ (by decide +kernel) (.atom (.range _ _ _ _ _ rfl rfl)) (.atom (.var _ .nil)))
  have hok : ((evalExpr exEnv (.bin .eq (.cell "a1".toList)
      (.bin .ne (.range "B5".toList "a1".toList) (.var ["x".toList]))) []).1).isOk = true := by rfl
  cases hv : (evalExpr exEnv (.bin .eq (.cell "a1".toList)
      (.bin .ne (.range "B5".toList "a1".toList) (.var ["x".toList]))) []).1 with
  | error x => rw [hv] at hok; cases hok
  | ok v =>
    have h := (formula_events_postorder exEnv _ _ (by decide) hr v hv).1
    rw [h]
    exact ⟨rfl, by simp [refsPostorder]⟩

/-- setter sequences: two listeners, the second hands over 0 and then `None` -/
example : applySetters .blank [.str ['x'], .num (.int 0), .blank] = .num (.int 0) := by rfl
example : applySetters (.num (.int 5)) [.blank, .blank] = .num (.int 5) := by rfl
example : applySetters (.num (.int 5)) [.bool true, .str []] = .str [] := by rfl

end Examples

/-! ### references as routes (DESIGN.md 1.7): a reference evaluates to what the host set for it -/

/-- A cell reference evaluates to the value the host's listener set for the upper-cased label, a
    range reference to the value set for some pair of corner labels — whatever the formula around it. -/
theorem references_yield_host_values (env : Env) {l a b : List Char}
    {row col sRow sCol eRow eCol : Cell.ParsedLabel}
    (hl : Cell.extractLabel (Cell.upper l) = some (row, col))
    (ha : Cell.extractLabel (Cell.upper a) = some (sRow, sCol))
    (hb : Cell.extractLabel (Cell.upper b) = some (eRow, eCol)) :
    ErrorFlow.outcome env (.cell l) = .ok (env.cellValue (Cell.upper l)) ∧
    ∃ l1 l2 : List Char, ErrorFlow.outcome env (.range a b) = .ok (env.rangeValue l1 l2) :=
  ⟨Routes.cell_route hl, Routes.range_route ha hb⟩

end HotXL.Props.C10