/-
  C19 — cell labels and row/column indices correspond one-to-one.
  Property theorems about `HotXL.Cell` (model of hotxlfp/helper/cell.py) over the
  tables regenerated from /repo (`HotXL.Generated`).
-/
import HotXL.Model.Cell

namespace HotXL.Props.C19
open HotXL HotXL.Cell

/-- the generated `COLUMN_LABEL_BASE` is the alphabet in order -/
theorem base_is_alphabet :
    Cell.base = (List.range 26).map (fun i => Char.ofNat (65 + i)) := by decide

/-- the generated regular expression is the one the hand-written matcher implements -/
theorem regexp_is_the_modelled_one : Generated.labelExtractRegexp = Cell.expectedRegexp := by decide

/-- `chr(… + 97)` then `.upper()`: the offset is that of the lower-case alphabet -/
theorem chr_offset : Generated.columnChrOffset = 97 := by decide

end HotXL.Props.C19
