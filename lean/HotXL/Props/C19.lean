/-
  C19 — cell labels and row/column indices correspond one-to-one.
  Property theorems about `HotXL.Cell` (model of hotxlfp/helper/cell.py) over the
  tables regenerated from /repo (`HotXL.Generated`).

  "Column letters and zero-based column indices correspond one-to-one in bijective base-26 order
   (A=0, Z=25, AA=26, ...), case-insensitively on input, and row labels and zero-based row indices
   by label = index+1.  Decomposing any cell label (letters then a positive row number without
   leading zeros, with or without $ markers) into its row and column parts and recomposing them
   yields the same label in upper case, with the absolute markers reported faithfully.  Strings
   that are not cell labels decompose to nothing."
-/
import HotXL.Model.Cell
import HotXL.Lemmas.PyNum
import HotXL.Lemmas.Cell

namespace HotXL.Props.C19
open HotXL HotXL.Cell

/-- the generated `COLUMN_LABEL_BASE` is the alphabet in order -/
theorem base_is_alphabet :
    Cell.base = (List.range 26).map (fun i => Char.ofNat (65 + i)) := by decide

/-- the generated regular expression is the one the hand-written matcher implements -/
theorem regexp_is_the_modelled_one : Generated.labelExtractRegexp = Cell.expectedRegexp := by decide

/-- `chr(… + 97)` then `.upper()`: the offset is that of the lower-case alphabet -/
theorem chr_offset : Generated.columnChrOffset = 97 := by decide

/-! ## columns -/

/-- `column_label_to_index(column_index_to_label(n)) = n` for every column number `n ≥ 0`:
    distinct column numbers get distinct labels, and the label can be read back. -/
theorem col_left_inv : ∀ n : Nat, colLabelToIndex (colIndexToLabel (n : Int)) = (n : Int) := by
  intro n
  obtain ⟨_, hup, hval⟩ := colIndexToLabel_spec n
  rw [colLabelToIndex_upper hup, hval]
  omega

/-- `column_index_to_label(column_label_to_index(l)) = l` for every non-empty label `l` made of
    upper-case letters A–Z: every such label is the label of exactly one column number. -/
theorem col_right_inv : ∀ l : List Char, l ≠ [] → (∀ c ∈ l, isUpperAZ c = true) →
    colIndexToLabel (colLabelToIndex l) = l := by
  intro l hne hup
  have hpos := colVal_pos hne hup
  rw [colLabelToIndex_upper hup,
    show (colVal l : Int) - 1 = ((colVal l - 1 : Nat) : Int) by omega]
  exact colIndexToLabel_colVal l hne hup

example : colIndexToLabel (colLabelToIndex "XFD".toList) = "XFD".toList :=
  col_right_inv _ (by decide) (by decide)

/-- the column number of a non-empty all-letter label (either case) is `≥ 0`; together with
    `col_left_inv` / `col_right_inv` this makes `column_label_to_index` a bijection between
    non-empty upper-case labels and the natural numbers. -/
theorem col_index_nonneg : ∀ l : List Char, l ≠ [] → (∀ c ∈ l, isLetter c = true) →
    0 ≤ colLabelToIndex l := by
  intro l hne hl
  have hup := all_upper_upper hl
  have hne' : upper l ≠ [] := fun h => hne (upper_eq_nil_iff.mp h)
  have hpos := colVal_pos hne' hup
  unfold colLabelToIndex
  rw [colSum_eq_colVal hup]
  omega

example : 0 ≤ colLabelToIndex "aZ".toList := col_index_nonneg _ (by decide) (by decide)

/-- the label produced for a column number `n ≥ 0` is non-empty and consists of upper-case
    letters A–Z only (so it is in the domain of `col_right_inv`). -/
theorem col_label_wellformed : ∀ n : Nat, colIndexToLabel (n : Int) ≠ [] ∧
    ∀ c ∈ colIndexToLabel (n : Int), isUpperAZ c = true := by
  intro n
  obtain ⟨h1, h2, _⟩ := colIndexToLabel_spec n
  exact ⟨h1, h2⟩

/-- `column_label_to_index` is injective on non-empty upper-case labels -/
theorem col_label_injective : ∀ a b : List Char, a ≠ [] → b ≠ [] →
    (∀ c ∈ a, isUpperAZ c = true) → (∀ c ∈ b, isUpperAZ c = true) →
    colLabelToIndex a = colLabelToIndex b → a = b := by
  intro a b ha hb hua hub h
  rw [← col_right_inv a ha hua, ← col_right_inv b hb hub, h]

example : "QX".toList = "QX".toList :=
  col_label_injective _ _ (by decide) (by decide) (by decide) (by decide) rfl

/-- `column_label_to_index` upper-cases its input first: upper-casing beforehand changes nothing. -/
theorem col_case_insensitive : ∀ l : List Char, colLabelToIndex (upper l) = colLabelToIndex l := by
  intro l
  unfold colLabelToIndex
  rw [upper_idem]

/-- `column_label_to_index` gives the same number for the lower-cased label (`lower` = ASCII
    `str.lower()`, `Cell.lower` in `HotXL/Lemmas/Cell.lean`). Holds for every string. -/
theorem col_case_insensitive_lower : ∀ l : List Char,
    colLabelToIndex (lower l) = colLabelToIndex l := by
  intro l
  unfold colLabelToIndex
  rw [upper_lower]

example : lower "aBz".toList = "abz".toList := by decide
example : colLabelToIndex "xfd".toList = colLabelToIndex "XFD".toList := by
  rw [← col_case_insensitive "xfd".toList]
  rfl

/-- bijective base-26 order: for non-empty upper-case labels, the column numbers are ordered
    first by label length and then lexicographically (by code point). -/
theorem col_shortlex : ∀ a b : List Char, a ≠ [] → b ≠ [] →
    (∀ c ∈ a, isUpperAZ c = true) → (∀ c ∈ b, isUpperAZ c = true) →
    (colLabelToIndex a < colLabelToIndex b ↔
      (a.length < b.length ∨ (a.length = b.length ∧ a < b))) := by
  intro a b _ _ ha hb
  rw [colLabelToIndex_upper ha, colLabelToIndex_upper hb]
  have hiff : (colVal a : Int) - 1 < (colVal b : Int) - 1 ↔ colVal a < colVal b := by omega
  rw [hiff]
  rcases Nat.lt_trichotomy a.length b.length with hlt | heq | hgt
  · have := colVal_lt_of_length_lt ha hb hlt
    constructor
    · intro _; exact Or.inl hlt
    · intro _; exact this
  · rw [colVal_lt_iff_lex a b heq ha hb]
    constructor
    · intro h; exact Or.inr ⟨heq, h⟩
    · intro h
      rcases h with h | ⟨_, h⟩
      · omega
      · exact h
  · have := colVal_lt_of_length_lt hb ha hgt
    constructor
    · intro h; omega
    · intro h
      rcases h with h | ⟨h, _⟩ <;> omega

example : colLabelToIndex "Z".toList < colLabelToIndex "AA".toList :=
  (col_shortlex "Z".toList "AA".toList (by decide) (by decide) (by decide) (by decide)).mpr
    (Or.inl (by decide))
example : colLabelToIndex "AZ".toList < colLabelToIndex "BA".toList :=
  (col_shortlex "AZ".toList "BA".toList (by decide) (by decide) (by decide) (by decide)).mpr
    (Or.inr ⟨rfl, by decide⟩)
example : ¬ "BA".toList < "AZ".toList := by decide

example : colLabelToIndex "A".toList = 0 := by decide +kernel
example : colLabelToIndex "Z".toList = 25 := by decide +kernel
example : colLabelToIndex "AA".toList = 26 := by decide +kernel
example : colLabelToIndex "XFD".toList = 16383 := by decide +kernel
example : colLabelToIndex "xfd".toList = 16383 := by decide +kernel
example : colIndexToLabel 0 = "A".toList := by
  rw [show (0 : Int) = ((0 : Nat) : Int) from rfl, colIndexToLabel_lt (by omega)]; rfl
example : colIndexToLabel 16383 = "XFD".toList := by
  have := col_right_inv "XFD".toList (by decide) (by decide)
  rwa [show colLabelToIndex "XFD".toList = 16383 by decide +kernel] at this

/-! ## rows -/

/-- `row_label_to_index(str(n)) = n - 1` and `row_index_to_label(n - 1) = str(n)` for every row
    number `n ≥ 1`: row labels and zero-based row indices correspond by label = index + 1. -/
theorem row_roundtrip : ∀ n : Nat, 1 ≤ n →
    rowLabelToIndex (PyNum.natToDec n) = (n : Int) - 1 ∧
    rowIndexToLabel ((n : Int) - 1) = PyNum.natToDec n := by
  intro n hn
  constructor
  · unfold rowLabelToIndex
    rw [PyNum.pyInt?_natToDec]
    show max ((n : Int) - 1) (-1) = (n : Int) - 1
    omega
  · unfold rowIndexToLabel
    rw [if_pos (by omega)]
    unfold PyNum.intToDec
    rw [if_neg (by omega)]
    congr 1
    omega

example : rowLabelToIndex "1048576".toList = 1048575 := by
  have h := (row_roundtrip 1048576 (by omega)).1
  have hs : PyNum.natToDec 1048576 = "1048576".toList := by
    simp [PyNum.natToDec_ge_ten, PyNum.natToDec_lt_ten, PyNum.digitChar]
  rw [hs] at h
  exact h

/-- row indices are recovered from their labels: `row_label_to_index(row_index_to_label(r)) = r`
    for every `r ≥ 0` -/
theorem row_left_inv : ∀ r : Nat, rowLabelToIndex (rowIndexToLabel (r : Int)) = (r : Int) := by
  intro r
  have h := row_roundtrip (r + 1) (by omega)
  have hc : ((r + 1 : Nat) : Int) - 1 = (r : Int) := by omega
  rw [hc] at h
  rw [h.2, h.1]

/-! ## whole labels -/

/-- a cell label written out: optional `$`, column letters, optional `$`, row number `str(n)` -/
def fmt (ca : Bool) (cs : List Char) (ra : Bool) (n : Nat) : List Char :=
  (if ca then ['$'] else []) ++ cs ++ (if ra then ['$'] else []) ++ PyNum.natToDec n

/-- Decomposing a cell label — column letters of either case, a row number `n ≥ 1` written without
    leading zeros, each optionally preceded by `$` — succeeds; the `$` markers are reported
    faithfully, the indices are `n - 1` and the column number of the letters, and recomposing the
    two parts with `to_label` gives the original label in upper case. -/
theorem label_roundtrip : ∀ (ca ra : Bool) (cs : List Char) (n : Nat),
    cs ≠ [] → (∀ c ∈ cs, isLetter c = true) → 1 ≤ n →
    ∃ row col, extractLabel (fmt ca cs ra n) = some (row, col) ∧
      toLabel row col = upper (fmt ca cs ra n) ∧
      row.isAbsolute = ra ∧ col.isAbsolute = ca ∧
      row.index = (n : Int) - 1 ∧ col.index = colLabelToIndex cs := by
  intro ca ra cs n hcs hl hn
  have hd : ∀ c ∈ PyNum.natToDec n, isDigit c = true := PyNum.natToDec_all_digits n
  have hrow := row_roundtrip n hn
  refine ⟨_, _, extractLabel_of_shape ca ra cs _ hcs hl (PyNum.natToDec_ne_nil n) hd,
    ?_, rfl, rfl, hrow.1, rfl⟩
  have hcol : colIndexToLabel (colLabelToIndex cs) = upper cs := by
    rw [← col_case_insensitive cs]
    exact col_right_inv (upper cs) (fun h => hcs (upper_eq_nil_iff.mp h)) (all_upper_upper hl)
  unfold toLabel fmt
  simp only [hrow.1, hrow.2, hcol]
  rw [show (if ca then ['$'] else []) = dollar ca from rfl,
    show (if ra then ['$'] else []) = dollar ra from rfl,
    upper_append, upper_append, upper_append, upper_dollar, upper_dollar, upper_of_all_digits hd]
  simp only [List.append_assoc]

example : ∃ row col, extractLabel "$ab$12".toList = some (row, col) ∧
    toLabel row col = "$AB$12".toList ∧ row.index = 11 ∧ col.index = 27 := by
  obtain ⟨row, col, h1, h2, _, _, h5, h6⟩ :=
    label_roundtrip true true "ab".toList 12 (by decide) (by decide) (by omega)
  have hf : fmt true "ab".toList true 12 = "$ab$12".toList := by
    simp [fmt, PyNum.natToDec_ge_ten, PyNum.natToDec_lt_ten, PyNum.digitChar]
  rw [hf] at h1 h2
  refine ⟨row, col, h1, ?_, ?_, ?_⟩
  · rw [h2]; decide
  · rw [h5]; rfl
  · rw [h6]; decide +kernel

/-- Anything `extract_label` decomposes has the shape of a cell label: optional `$`, one or more
    ASCII letters, optional `$`, one or more ASCII digits.  Contrapositive: strings that are not
    cell labels decompose to nothing. -/
theorem non_label_decomposes_to_nothing : ∀ s : List Char, extractLabel s ≠ none →
    ∃ (ca : Bool) (cs : List Char) (ra : Bool) (ds : List Char),
      s = (if ca then ['$'] else []) ++ cs ++ (if ra then ['$'] else []) ++ ds ∧
      cs ≠ [] ∧ (∀ c ∈ cs, isLetter c = true) ∧ ds ≠ [] ∧ (∀ c ∈ ds, isDigit c = true) := by
  intro s h
  unfold extractLabel at h
  split at h
  · exact absurd rfl h
  · next ca cs ra ds hm =>
    exact ⟨ca, cs, ra, ds, shape_of_matchLabel hm⟩

/-- Conversely every string of that shape is decomposed (into exactly its parts). -/
theorem label_shaped_decomposes : ∀ (ca ra : Bool) (cs ds : List Char),
    cs ≠ [] → (∀ c ∈ cs, isLetter c = true) → ds ≠ [] → (∀ c ∈ ds, isDigit c = true) →
    ∃ row col, extractLabel ((if ca then ['$'] else []) ++ cs ++ (if ra then ['$'] else []) ++ ds)
        = some (row, col) ∧
      row.label = ds ∧ col.label = cs ∧ row.isAbsolute = ra ∧ col.isAbsolute = ca := by
  intro ca ra cs ds hcs hl hds hd
  exact ⟨_, _, extractLabel_of_shape ca ra cs ds hcs hl hds hd, rfl, rfl, rfl, rfl⟩

example : ∃ row col, extractLabel "$a007".toList = some (row, col) ∧ row.label = "007".toList ∧
    col.label = "a".toList ∧ row.isAbsolute = false ∧ col.isAbsolute = true :=
  label_shaped_decomposes true false "a".toList "007".toList (by decide) (by decide) (by decide)
    (by decide)

example : extractLabel "A1:".toList = none := by decide
example : extractLabel "$$A1".toList = none := by decide
example : extractLabel "1A".toList = none := by decide
example : extractLabel "".toList = none := by decide
example : extractLabel "é1".toList = none := by decide
example : extractLabel "A01".toList ≠ none := by decide

/-- The same round trip stated on the text of the label: letters (either case), then a non-empty
    digit string that does not start with `0`, each optionally preceded by `$`.  Every such string
    is a label in the sense of `label_roundtrip` (its digits are `str(n)` for some `n ≥ 1`), so it
    decomposes and recomposes to itself in upper case. -/
theorem label_roundtrip_syntactic : ∀ (ca ra : Bool) (cs ds : List Char),
    cs ≠ [] → (∀ c ∈ cs, isLetter c = true) →
    ds ≠ [] → (∀ c ∈ ds, isDigit c = true) → ds.head? ≠ some '0' →
    ∃ row col,
      extractLabel ((if ca then ['$'] else []) ++ cs ++ (if ra then ['$'] else []) ++ ds)
        = some (row, col) ∧
      toLabel row col
        = upper ((if ca then ['$'] else []) ++ cs ++ (if ra then ['$'] else []) ++ ds) ∧
      row.isAbsolute = ra ∧ col.isAbsolute = ca := by
  intro ca ra cs ds hcs hl hds hd hz
  obtain ⟨h1, h2⟩ := PyNum.natToDec_decVal ds hds hd hz
  obtain ⟨row, col, e1, e2, e3, e4, _, _⟩ := label_roundtrip ca ra cs (PyNum.decVal 0 ds) hcs hl h1
  unfold fmt at e1 e2
  rw [h2] at e1 e2
  exact ⟨row, col, e1, e2, e3, e4⟩

example : ∃ row col, extractLabel "bc$907".toList = some (row, col) ∧
    toLabel row col = "BC$907".toList := by
  obtain ⟨row, col, h1, h2, _, _⟩ := label_roundtrip_syntactic false true "bc".toList "907".toList
    (by decide) (by decide) (by decide) (by decide) (by decide)
  exact ⟨row, col, h1, by rw [h2]; decide⟩

/-- a leading zero in the row number is *not* preserved (`A01` recomposes to `A1`): the
    no-leading-zero hypothesis of the round trip is needed -/
theorem leading_zero_not_preserved : ∃ row col, extractLabel "A01".toList = some (row, col) ∧
    toLabel row col = "A1".toList := by
  have h := extractLabel_of_shape false false "A".toList "01".toList (by decide) (by decide)
    (by decide) (by decide)
  refine ⟨_, _, h, ?_⟩
  have hr : rowLabelToIndex "01".toList = 0 := by
    unfold rowLabelToIndex
    rw [PyNum.pyInt?_digits _ (by decide) (by decide)]
    simp [PyNum.decVal, PyNum.digitVal_eq]
    omega
  have hc : colLabelToIndex "A".toList = 0 := by decide +kernel
  unfold toLabel
  simp only [hr, hc]
  rw [show (0 : Int) = ((0 : Nat) : Int) from rfl, colIndexToLabel_lt (by omega)]
  simp [rowIndexToLabel, PyNum.intToDec, PyNum.natToDec_lt_ten, PyNum.digitChar]

/-- negative indices have the empty label (`column_index_to_label(-1) = ''`,
    `row_index_to_label(-1) = ''`) -/
theorem negative_index_empty_label : ∀ i : Int, i < 0 →
    colIndexToLabel i = [] ∧ rowIndexToLabel i = [] := by
  intro i hi
  constructor
  · unfold colIndexToLabel
    rw [colLoop_neg hi]; rfl
  · unfold rowIndexToLabel
    rw [if_neg (by omega)]

example : (-3 : Int) < 0 := by decide

end HotXL.Props.C19
