/-
  C03 — parser instances are isolated; evaluation is re-entrant and thread-independent.

  The theorems are about the interleaving model `HotXL.Model.Interleave` (read its header for
  what one step is and what is NOT modelled: interleavings finer than ply's lexer operations,
  i.e. bytecode level, and CPython object internals) and about the per-instance bindings
  `World = ParserId → Bindings` evaluated by the evaluation model `HotXL.Eval.parseTop`.

  * `isolation_of_owned_lexers`, `interleaved_eq_solo`, `outcome_interleaved_eq_solo`,
    `completed_sees_whole_input`: with one lexer object per activation (`parse` clones the
    lexer per call) EVERY schedule — any length, any number of activations, any interleaving —
    leaves each activation with exactly the tokens, machine state and outcome of its solo run.
  * `nesting_is_a_schedule`, `reentrancy_any_depth`: the call-stack semantics of nested
    evaluations (a callback runs a complete evaluation between two steps of the outer one, to
    any depth, on the same parser or another one) is a special case of a schedule.
  * `per_parser_lexer_isolates_other_parsers` / `per_parser_lexer_breaks_reentrancy` and
    `shared_lexer_breaks`: the two defective disciplines (the documented negative examples).
  * `bindings_private` …: variables, functions and listeners of parser P are invisible to Q ≠ P.
-/
import HotXL.Lemmas.Interleave

namespace HotXL.Props.C03
open HotXL HotXL.Interleave

variable {Tok S : Type}

/-! ## isolation under arbitrary interleaving -/

/-- LOCAL FORM.  Along ANY schedule in which no other activation fetches from the lexer object
    that activation `a` uses, whatever the lexer objects contained before: (1) the tokens `a`
    has seen are the prefix of its OWN token stream (`tokenize(input a)` followed by
    end-of-input) of the length it consumed, (2) its private machine state is the LR machine
    run on exactly these tokens, (3) once started, its lexer holds its own input and stands
    right behind the tokens it consumed. -/
theorem isolation_of_unshared_lexer (c : Config Tok S) (store : LexId → LexState Tok)
    (sched : Schedule) (a : ActId)
    (hown : ∀ b ∈ sched, b ≠ a → c.lexRef b ≠ c.lexRef a) :
    let σ := run c (Sys.initial c store) sched
    tokensSeenBy σ a = stream (c.input a) (tokensSeenBy σ a).length ∧
    (σ.act a).st = (tokensSeenBy σ a).foldl (c.δ a) c.init ∧
    ((σ.act a).phase ≠ .fresh →
      σ.store (c.lexRef a) = { data := c.input a, pos := (tokensSeenBy σ a).length }) := by
  intro σ
  have h := inv_run c a sched hown _ (inv_initial c store a)
  exact ⟨h.seen, h.st, h.lex⟩

/-- ISOLATION (the repaired code: `self.lex.clone()` per `parse` call, so `lexRef` is
    injective).  For EVERY schedule — any length, any number of activations, any thread
    interleaving, nested or not — and EVERY activation `a`: the tokens `a` saw are exactly the
    prefix of `tokenize(input a)`+end-of-input consumed by `a`'s own steps, and its machine
    state is the machine run on these tokens.  No step of any other activation shows. -/
theorem isolation_of_owned_lexers (c : Config Tok S) (hown : c.Owned)
    (store : LexId → LexState Tok) (sched : Schedule) (a : ActId) :
    let σ := run c (Sys.initial c store) sched
    tokensSeenBy σ a = stream (c.input a) (tokensSeenBy σ a).length ∧
    (σ.act a).st = (tokensSeenBy σ a).foldl (c.δ a) c.init ∧
    ((σ.act a).phase ≠ .fresh →
      σ.store (c.lexRef a) = { data := c.input a, pos := (tokensSeenBy σ a).length }) :=
  isolation_of_unshared_lexer c store sched a (fun b _ hb hl => hb (hown b a hl))

/-- INTERLEAVED = SOLO.  With owned lexers the complete private state of `a` (phase, machine
    state, tokens seen) after any schedule is the one `a` reaches when it runs ALONE — from
    any other initial contents of the lexer objects — for as many steps as the schedule gives it. -/
theorem interleaved_eq_solo (c : Config Tok S) (hown : c.Owned)
    (store store' : LexId → LexState Tok) (sched : Schedule) (a : ActId) :
    (run c (Sys.initial c store) sched).act a = (solo c store' a (sched.count a)).act a :=
  (sim_run c a sched (fun b _ hb hl => hb (hown b a hl)) _ _ (sim_initial c a store store')).1

/-- hence every activation yields, under any interleaving, the outcome it yields when run
    alone (`none` on both sides as long as it has not completed) -/
theorem outcome_interleaved_eq_solo {R : Type} (out : S → R) (c : Config Tok S) (hown : c.Owned)
    (store store' : LexId → LexState Tok) (sched : Schedule) (a : ActId) :
    outcome out (run c (Sys.initial c store) sched) a =
      outcome out (solo c store' a (sched.count a)) a := by
  unfold outcome
  rw [interleaved_eq_solo c hown store store' sched a]

/-- a completed activation is final: no later step of anybody (shared lexers or not) changes
    its private state, so "the outcome of `a`" is well defined once it has finished -/
theorem finished_is_final (c : Config Tok S) (a : ActId) (sched : Schedule) :
    ∀ σ : Sys Tok S, (σ.act a).phase = .finished → (run c σ sched).act a = σ.act a := by
  induction sched with
  | nil => intro σ _; rfl
  | cons b rest ih =>
    intro σ h
    rw [run_cons]
    by_cases hb : b = a
    · subst hb
      rw [step_finished c σ b h]
      exact ih σ h
    · have e := step_act_other c σ a b (Ne.symm hb)
      rw [ih (step c σ b) (by rw [e]; exact h), e]

/-- with owned lexers an activation that completes without an exception has seen its WHOLE
    input, token by token, and then end-of-input — under any interleaving -/
theorem completed_sees_whole_input (c : Config Tok S) (hown : c.Owned)
    (store : LexId → LexState Tok) (sched : Schedule) (a : ActId)
    (hfin : ((run c (Sys.initial c store) sched).act a).phase = .finished)
    (hok : c.halted ((run c (Sys.initial c store) sched).act a).st = false) :
    tokensSeenBy (run c (Sys.initial c store) sched) a = (c.input a).map some ++ [none] := by
  have h := inv_run c a sched (fun b _ hb hl => hb (hown b a hl)) _ (inv_initial c store a)
  obtain ⟨pre, last, hseen, hpre, hlast⟩ := h.finished hfin
  have hs := h.seen
  unfold tokensSeenBy
  generalize ((run c (Sys.initial c store) sched).act a).seen = seen at hseen hs
  generalize ((run c (Sys.initial c store) sched).act a).st = st at hok hlast
  have hl : last = none := by
    rcases hlast with h1 | h1
    · exact h1
    · rw [hok] at h1; cases h1
  subst hl
  subst hseen
  simp only [List.length_append, List.length_singleton] at hs
  rw [stream_succ] at hs
  have hpre2 : pre = stream (c.input a) pre.length := by
    have := List.append_inj_left hs (by simp [stream_length])
    exact this
  have hnone : (c.input a)[pre.length]? = none := by
    have := List.append_inj_right hs (by simp [stream_length])
    simpa using this.symm
  have hge : (c.input a).length ≤ pre.length := by
    simpa [List.getElem?_eq_none_iff] using hnone
  have hle : pre.length ≤ (c.input a).length := by
    apply Nat.le_of_not_lt
    intro hlt
    have hmem : (c.input a)[(c.input a).length]? ∈ pre := by
      rw [hpre2, mem_stream]
      exact ⟨(c.input a).length, hlt, rfl⟩
    have := hpre _ hmem
    simp at this
  have hlen : pre.length = (c.input a).length := Nat.le_antisymm hle hge
  rw [hs, hlen, ← stream_succ, stream_full]

/-! ## nesting is a special case -/

/-- NESTING IS A SCHEDULE.  Running a call tree with the call-stack semantics (`call` = the
    host callback runs the nested evaluation to completion, then the outer one resumes) is the
    same as running the flat schedule `e.sched`; so everything proved for all schedules holds
    for re-entrant evaluation to ANY depth. -/
theorem nesting_is_a_schedule (c : Config Tok S) (e : Eval) (σ : Sys Tok S) :
    e.exec c σ = run c σ e.sched :=
  eval_exec_eq_run c e σ

/-- RE-ENTRANCY.  With owned lexers, for every call tree — any nesting depth, inner evaluations
    on the same parser or on others (there is no hypothesis on `parserOf`: `parse` clones the
    lexer per CALL, so two activations of one parser have different lexer objects) — every
    activation ends in the private state, hence with the outcome, of its solo run. -/
theorem reentrancy_any_depth (c : Config Tok S) (hown : c.Owned)
    (store store' : LexId → LexState Tok) (e : Eval) (a : ActId) :
    (e.exec c (Sys.initial c store)).act a = (solo c store' a (e.sched.count a)).act a := by
  rw [nesting_is_a_schedule]
  exact interleaved_eq_solo c hown store store' e.sched a

/-! ## the half-repair `lexer=self.lex` (one lexer per parser, no clone) -/

/-- one lexer per PARSER isolates an activation from the activations of OTHER parsers: if no
    other activation of the schedule runs on `a`'s parser, `a` behaves as in its solo run -/
theorem per_parser_lexer_isolates_other_parsers (c : Config Tok S) (hpp : c.PerParser)
    (store store' : LexId → LexState Tok) (sched : Schedule) (a : ActId)
    (hother : ∀ b ∈ sched, b ≠ a → c.parserOf b ≠ c.parserOf a) :
    (run c (Sys.initial c store) sched).act a = (solo c store' a (sched.count a)).act a :=
  (sim_run c a sched (fun b hb hne hl => hother b hb hne (by rw [← hpp b, ← hpp a]; exact hl))
    _ _ (sim_initial c a store store')).1

/-! ## concrete instances: the documented defect, and non-vacuity -/

/-- tokens of the concrete examples -/
inductive T where
  | EVAL | LP | STR | RP | PLUS | N10 | N1
  deriving DecidableEq, Repr

/-- activation 0 evaluates `EVAL("1+1")+10`, activation 1 (started by EVAL's callback)
    evaluates `1+1`; both on parser 0 (re-entrancy on the SAME parser) unless told otherwise -/
def exInput : ActId → List T
  | 0 => [.EVAL, .LP, .STR, .RP, .PLUS, .N10]
  | 1 => [.N1, .PLUS, .N1]
  | _ => []

/-- the concrete token lists are what the lexer model makes of the two formulas -/
example :
    (Lexer.tokenize "EVAL(\"1+1\")+10".toList).map (·.kind)
      = [.FUNCTION, .LPAREN, .STRING, .RPAREN, .PLUS, .NUMBER] ∧
    (Lexer.tokenize "1+1".toList).map (·.kind) = [.NUMBER, .PLUS, .NUMBER] := by
  decide +kernel

/-- the machine just counts its fetches; it never halts on its own -/
def exConfig (lexRef : ActId → LexId) (parserOf : ActId → ParserId) : Config T Nat :=
  { input := exInput, lexRef := lexRef, parserOf := parserOf, init := 0,
    δ := fun _ n _ => n + 1, halted := fun _ => false }

/-- ply fetches the look-ahead `+` before it reduces the call: the callback runs after the
    outer evaluation's `input()` and 5 fetches; the inner evaluation does `input()` and 4
    fetches (`1`, `+`, `1`, end); then the outer one fetches twice more (`10`, end) -/
def exNest : Eval :=
  .mk 0 (.own (.own (.own (.own (.own (.own
    (.call (.mk 1 (.own (.own (.own (.own (.own .nil))))))
      (.own (.own .nil)))))))))

def exStore : LexId → LexState T := fun _ => { data := [.N10, .N10], pos := 1 }

/-- SHARED LEXER BREAKS (the defect that was repaired: `yacc.parse(input)` fetched from the
    process-global lexer).  There is a 2-activation configuration on a shared lexer and a
    (nested, hence stack-disciplined) schedule in which the outer activation — the evaluation of
    `EVAL("1+1")+10` whose callback evaluates `1+1` — sees END OF INPUT where its own input
    has the token `10`; alone it sees `10` there.  (In hotxlfp: `#ERROR!` instead of 12.) -/
theorem shared_lexer_breaks :
    ∃ (c : Config T Nat) (e : Eval), c.Shared ∧ e.depth = 2 ∧
      tokensSeenBy (run c (Sys.initial c exStore) e.sched) 0
        = [some .EVAL, some .LP, some .STR, some .RP, some .PLUS, none] ∧
      tokensSeenBy (solo c exStore 0 (e.sched.count 0)) 0
        = [some .EVAL, some .LP, some .STR, some .RP, some .PLUS, some .N10, none] ∧
      tokensSeenBy (run c (Sys.initial c exStore) e.sched) 0
        ≠ stream (c.input 0) (tokensSeenBy (run c (Sys.initial c exStore) e.sched) 0).length := by
  refine ⟨exConfig (fun _ => 0) (fun _ => 0), exNest, fun _ _ => rfl, by decide, by decide, by decide, by decide⟩

/-- the same on two THREADS with distinct parsers: a shared lexer lets thread 1's `input()`
    redirect thread 0's fetches to thread 1's data -/
theorem shared_lexer_breaks_threads :
    ∃ (c : Config T Nat) (sched : Schedule), c.Shared ∧ c.parserOf 0 ≠ c.parserOf 1 ∧
      tokensSeenBy (run c (Sys.initial c exStore) sched) 0 = [some .EVAL, some .PLUS, some .N1, none] ∧
      tokensSeenBy (run c (Sys.initial c exStore) sched) 1 = [some .N1, none] := by
  refine ⟨exConfig (fun _ => 0) id, [0, 0, 1, 1, 0, 0, 0, 1], fun _ _ => rfl, by decide, by decide, by decide⟩

/-- ONE LEXER PER PARSER (`lexer=self.lex` without `clone`) still breaks re-entrancy on the
    SAME parser: same call tree, both activations on parser 0 -/
theorem per_parser_lexer_breaks_reentrancy :
    ∃ (c : Config T Nat) (e : Eval), c.PerParser ∧ c.parserOf 0 = c.parserOf 1 ∧
      tokensSeenBy (e.exec c (Sys.initial c exStore)) 0
        = [some .EVAL, some .LP, some .STR, some .RP, some .PLUS, none] := by
  refine ⟨exConfig (fun _ => 0) (fun _ => 0), exNest, fun _ => rfl, rfl, ?_⟩
  rw [nesting_is_a_schedule]
  decide

/-- non-vacuity of `Owned` and of the isolation theorems: the SAME call tree on the SAME parser
    with owned lexers (`lexRef` injective) — the outer activation sees all of its input, the
    inner one too, both complete -/
example :
    let c := exConfig id (fun _ => 0)
    c.Owned ∧
    tokensSeenBy (exNest.exec c (Sys.initial c exStore)) 0
      = [some .EVAL, some .LP, some .STR, some .RP, some .PLUS, some .N10, none] ∧
    tokensSeenBy (exNest.exec c (Sys.initial c exStore)) 1
      = [some .N1, some .PLUS, some .N1, none] ∧
    outcome id (exNest.exec c (Sys.initial c exStore)) 0 = some 7 ∧
    outcome id (exNest.exec c (Sys.initial c exStore)) 1 = some 4 := by
  intro c
  refine ⟨fun _ _ h => h, ?_, ?_, ?_, ?_⟩ <;> (rw [nesting_is_a_schedule]; decide)

/-- non-vacuity for threads: an arbitrary (not stack-disciplined) interleaving of three
    activations with owned lexers, one of them cut short by the schedule -/
example :
    let c := exConfig id id
    let σ := run c (Sys.initial c exStore) [1, 0, 0, 1, 2, 0, 1, 2, 1, 0, 1, 0]
    tokensSeenBy σ 0 = [some .EVAL, some .LP, some .STR, some .RP] ∧
    tokensSeenBy σ 1 = [some .N1, some .PLUS, some .N1, none] ∧
    tokensSeenBy σ 2 = [none] ∧
    outcome id σ 0 = none ∧ outcome id σ 1 = some 4 := by
  decide

/-- non-vacuity of the LOCAL form `isolation_of_unshared_lexer`: activations 1 and 2 share lexer 1
    (and spoil each other: 1 sees end-of-input at once), activation 0 has lexer 0 to itself and
    sees its own tokens -/
example :
    let c := exConfig (fun a => if a = 0 then 0 else 1) id
    let sched := [1, 0, 2, 0, 1, 0, 2, 0]
    (∀ b ∈ sched, b ≠ 0 → c.lexRef b ≠ c.lexRef 0) ∧
    tokensSeenBy (run c (Sys.initial c exStore) sched) 0 = [some .EVAL, some .LP, some .STR] ∧
    tokensSeenBy (run c (Sys.initial c exStore) sched) 1 = [none] := by
  decide

/-- non-vacuity of `per_parser_lexer_isolates_other_parsers`: per-parser lexers, two threads on
    different parsers -/
example :
    (exConfig id id).PerParser ∧
    (∀ b ∈ [0, 1, 1, 0, 0, 1], b ≠ 0 → (exConfig id id).parserOf b ≠ (exConfig id id).parserOf 0) := by
  refine ⟨fun _ => rfl, by decide⟩

/-- non-vacuity of `completed_sees_whole_input`: completed and not halted -/
example :
    let c := exConfig id id
    let σ := run c (Sys.initial c exStore) [1, 0, 1, 1, 0, 1, 1]
    (σ.act 1).phase = .finished ∧ c.halted (σ.act 1).st = false := by
  decide

/-! ## bindings are per instance -/

/-- BINDINGS ARE PRIVATE (general form).  Whatever is done to parser P's bindings — any new
    variables, functions, listeners — an evaluation on another parser Q returns the same record
    and makes the same listener calls: `Q.parse` consults `Q`'s maps only (and the read-only
    builtin registry, which is not part of any instance). -/
theorem bindings_private (w : World) (P Q : ParserId) (hPQ : P ≠ Q) (b : Bindings) (formula : List Char) :
    evalOn (upd w P b) Q formula = evalOn w Q formula := by
  unfold evalOn
  rw [upd_other w P Q b (Ne.symm hPQ)]

/-- an evaluation on Q depends on the world only through Q's own bindings -/
theorem eval_reads_own_bindings_only (w w' : World) (Q : ParserId) (h : w Q = w' Q) (formula : List Char) :
    evalOn w Q formula = evalOn w' Q formula := by
  unfold evalOn
  rw [h]

/-- `P.set_variable` leaves the bindings of every other parser untouched -/
theorem set_variable_frame (w : World) (P Q : ParserId) (hPQ : P ≠ Q) (name : List Char) (v : Value) :
    setVariable w P name v Q = w Q :=
  upd_other w P Q _ (Ne.symm hPQ)

/-- a variable set on P is invisible on Q ≠ P: every formula evaluates on Q as before -/
theorem set_variable_private (w : World) (P Q : ParserId) (hPQ : P ≠ Q) (name : List Char) (v : Value)
    (formula : List Char) :
    evalOn (setVariable w P name v) Q formula = evalOn w Q formula :=
  bindings_private w P Q hPQ _ formula

/-- a custom function registered on P is invisible on Q ≠ P -/
theorem set_function_private (w : World) (P Q : ParserId) (hPQ : P ≠ Q) (name : List Char) (f : Eval.HostFn)
    (formula : List Char) :
    evalOn (setFunction w P name f) Q formula = evalOn w Q formula :=
  bindings_private w P Q hPQ _ formula

/-- a listener registered on P (any event) is never called by an evaluation on Q ≠ P, and a
    cell-value listener of P does not supply values to Q -/
theorem listener_private (w : World) (P Q : ParserId) (hPQ : P ≠ Q) (event : String) (l : Nat)
    (label : List Char) (v : Value) (formula : List Char) :
    evalOn (onEvent w P event l) Q formula = evalOn w Q formula ∧
    evalOn (onCellValue w P label v) Q formula = evalOn w Q formula :=
  ⟨bindings_private w P Q hPQ _ formula, bindings_private w P Q hPQ _ formula⟩

/-- the listeners an evaluation on Q calls are all registered on Q -/
theorem only_own_listeners_called (w : World) (Q : ParserId) (formula : List Char) (l : Nat) (ev : Eval.Event)
    (h : (l, ev) ∈ (evalOn w Q formula).2) : l ∈ (w Q).listeners (eventName ev) := by
  unfold evalOn at h
  simp only [List.mem_flatMap, List.mem_map, Prod.mk.injEq] at h
  obtain ⟨ev', _, l', hl', rfl, rfl⟩ := h
  exact hl'

/-- and the binding IS visible on the parser it was set on (the frame theorems are not vacuous):
    after `P.set_variable(name, v)` the lookup `call_variable(name)` on P yields `v` -/
theorem set_variable_visible_on_own_parser (w : World) (P : ParserId) (name : List Char) (v : Value) (log : Eval.Log) :
    Eval.callVariable (setVariable w P name v P).env name log = (.ok v, log ++ [.var name]) := by
  simp [Eval.callVariable, setVariable, upd_same]

/-- non-vacuity on a concrete formula: `rate` set on parser 0 to 7 — parser 0 evaluates
    `rate` without error, parser 1 (untouched) gives #NAME?; a `callVariable` listener of
    parser 0 is called by parser 0 and not by parser 1 -/
example :
    let w := onEvent (setVariable (fun _ => Bindings.empty) 0 "rate".toList (.num (.int 7))) 0 "callVariable" 42
    (evalOn w 0 "rate".toList).1.error = none ∧
    (evalOn w 1 "rate".toList).1.error = some .name ∧
    ((evalOn w 0 "rate".toList).2.map (·.1)) = [42] ∧
    ((evalOn w 1 "rate".toList).2.map (·.1)) = [] := by
  decide +kernel

end HotXL.Props.C03
