/-
  C11 — aggregates equal their definitions over exactly the selected items.

  All theorems are about the models `HotXL.Fn.Agg` (SUM, PRODUCT, SUMIF, SUMIFS of mathtrig.py and
  `parse_criteria` of utils.py) and `HotXL.Fn.Stat` (statistical.py), over ALL lists (no bound on the
  length), all rationals, all nestings.  Floats are exact rationals (`Num.flt q`); the model keeps
  Python's result TYPE (`Num.int` / `Num.flt`).  Vocabulary (from `HotXL.Lemmas.Aggregates`):
    `flattenList args`         the items in flatten order (`utils.flatten`)
    `NumericItems args ns`     after flattening, `args` is exactly the numbers `ns`
    `rats ns`                  their exact values;  `ratSum`, `ratProd`  Σ and ∏ over `Rat`
    `meanQ qs = Σ/n`, `sqDevFrom c qs = Σ(q−c)²`, `absDevFrom c qs = Σ|q−c|`
    `sortQ qs`                 the ascending rearrangement (`sortQ_spec`), `medianQ` its middle
    `resultRat r`              the numeric value of a result, forgetting int-vs-float
    `sqrtTag q`, `rootTag n q` symbolic irrational results: the non-negative real with square `q`,
                               the positive real whose `n`-th power is `q`
    `SemOp`, `Glob`            the statement's reading of a criterion (written independently of the code)
    `selectIdx sat vals 0`     the items of `vals` at the indices satisfying `sat` (index alignment)
    `rowSat preds i`           row `i` satisfies every criterion
-/
import HotXL.Model.Builtins
import HotXL.Model.Eval
import HotXL.Generated.Criteria
import HotXL.Lemmas.Aggregates

namespace HotXL.Props.C11
open HotXL HotXL.Ops HotXL.Fn HotXL.Fn.Agg HotXL.Fn.Stat HotXL.Agg

/-! ## 0. The constants of the criteria compiler are the ones the model was written for -/

/-- `REGEX_CRITERIA` is `(?P<op>[\<\>\=]*)(?P<val>.+)` with flags `re.UNICODE` only (no DOTALL), and
    the keys of `OPERATOR_DICT` made of `<`, `>`, `=` are exactly `<  <=  <>  =  >  >=` with the
    expected operators — regenerated from /repo at every check -/
theorem criteria_tables_pinned :
    Generated.criteriaRegex = "(?P<op>[\\<\\>\\=]*)(?P<val>.+)" ∧ Generated.criteriaRegexFlags = 32 ∧
    Generated.criteriaOperators.filter (fun p => p.1.toList.all isOpChar) =
      [("<", "lt"), ("<=", "le"), ("<>", "ne"), ("=", "eq"), (">", "gt"), (">=", "ge")] := by
  decide

/-- the model's operator lookup `opOf` agrees with the generated `OPERATOR_DICT` -/
theorem opOf_follows_table (op : CmpOp) :
    opOf (opText op) = some op ∧
    (Generated.criteriaOperators.find? (fun p => p.1.toList = opText op)).map (·.2) =
      some (match op with | .gt => "gt" | .lt => "lt" | .ne => "ne" | .eq => "eq" | .ge => "ge" | .le => "le") := by
  cases op <;> exact ⟨by decide, by decide⟩

/-- every modelled name is a registered builtin of the current /repo -/
theorem models_registered :
    (Fn.Agg.table ++ Fn.Stat.table).all (fun p => Builtins.isRegistered p.1) = true := by
  decide

/-- the registered conditional aggregates are the models below whenever the criteria strings
    are in the modelled fragment (no `[`, i.e. no fnmatch character class) -/
theorem guarded_eq (isCrit : Nat → Bool) (f : Builtin) (args : List Value)
    (h : ∀ p ∈ args.zipIdx, isCrit p.2 = true → critModelled p.1 = true) :
    guardCriteria isCrit f args = f args := by
  have : args.zipIdx.all (fun p => !isCrit p.2 || critModelled p.1) = true := by
    rw [List.all_eq_true]
    intro p hp
    by_cases hc : isCrit p.2 = true
    · simp [hc, h p hp hc]
    · simp [hc]
  simp [guardCriteria, this]

example : guardCriteria (fun i => i = 1) SUMIF [.arr [.num (.int 1)], .str ">0".toList] =
    SUMIF [.arr [.num (.int 1)], .str ">0".toList] :=
  guarded_eq _ _ _ (by decide)

/-! ## 1. Regrouping: only the flattened items matter -/

/-- flattening distributes over concatenation of argument lists -/
theorem flatten_append (xs ys : List Value) :
    flattenList (xs ++ ys) = flattenList xs ++ flattenList ys := flattenList_append xs ys

/-- an array argument contributes exactly its (recursively flattened) items -/
theorem flatten_array (xs rest : List Value) :
    flattenList (.arr xs :: rest) = flattenList xs ++ flattenList rest := by
  rw [flattenList_cons, flattenValue_arr]

/-- wrapping all arguments into one array changes nothing -/
theorem flatten_singleton_array (xs : List Value) : flattenList [.arr xs] = flattenList xs :=
  flattenList_singleton_arr xs

/-- flattening is idempotent: the flattened list contains no array any more -/
theorem flatten_idempotent (xs : List Value) :
    flattenList (flattenList xs) = flattenList xs ∧ ∀ v ∈ flattenList xs, ∀ ys, v ≠ .arr ys := by
  refine ⟨flattenList_idem xs, ?_⟩
  intro v hv ys h
  have := flattenList_all_leaf xs v hv
  subst h
  simp [isLeaf] at this

/-- REGROUP: two argument lists with the same flattened items (any split into separate arguments
    and arbitrarily nested arrays) give the same result — result type, value and error included —
    for every `*args` aggregate -/
theorem regroup {a b : List Value} (h : flattenList a = flattenList b) :
    SUM a = SUM b ∧ PRODUCT a = PRODUCT b ∧ AVERAGE a = AVERAGE b ∧ AVERAGEA a = AVERAGEA b ∧
    AVEDEV a = AVEDEV b ∧ COUNT a = COUNT b ∧ COUNTA a = COUNTA b ∧ COUNTBLANK a = COUNTBLANK b ∧
    MAX a = MAX b ∧ MAXA a = MAXA b ∧ MIN a = MIN b ∧ MINA a = MINA b ∧ MEDIAN a = MEDIAN b ∧
    MODE a = MODE b ∧ VAR a = VAR b ∧ VAR_P a = VAR_P b ∧ VARA a = VARA b ∧ STDEV a = STDEV b ∧
    STDEV_P a = STDEV_P b ∧ STDEVA a = STDEVA b ∧ STDEVPA a = STDEVPA b ∧ HARMEAN a = HARMEAN b ∧
    GEOMEAN a = GEOMEAN b := by
  have hi : ∀ tp tz, inumbers tp tz a = inumbers tp tz b := fun tp tz => inumbers_regroup tp tz h
  refine ⟨?_, ?_, ?_, ?_, ?_, ?_, ?_, ?_, ?_, ?_, ?_, ?_, ?_, ?_, ?_, ?_, ?_, ?_, ?_, ?_, ?_, ?_, ?_⟩
  all_goals first
    | exact overNumbers_regroup _ _ _ h
    | simp only [SUM, AVEDEV, COUNT, COUNTA, COUNTBLANK, hi, h]

/-- REGROUP for the functions taking one array argument: LARGE, SUMIF, COUNTIF, AVERAGEIF see only
    the flattened items of that argument (and of the average range) -/
theorem regroup_array_argument {a b : Value} (h : flattenValue a = flattenValue b) (k c : Value) :
    LARGE [a, k] = LARGE [b, k] ∧ SUMIF [a, c] = SUMIF [b, c] ∧ COUNTIF [a, c] = COUNTIF [b, c] ∧
    (∀ r r', flattenValue r = flattenValue r' → pyTruthy r = true → pyTruthy r' = true →
      AVERAGEIF [a, c, r] = AVERAGEIF [b, c, r']) := by
  have h1 : flattenList [a] = flattenList [b] := by simp [flattenList_singleton, h]
  refine ⟨?_, ?_, ?_, ?_⟩
  · simp only [LARGE, inumbers_regroup true true h1]
  · simp only [SUMIF, h]
  · simp only [COUNTIF, h]
  · intro r r' hr ht ht'
    simp only [AVERAGEIF, averageif, ht, ht', if_true, h, hr]

example : flattenList [.arr [.num (.int 1), .arr [.num (.int 2)]], .num (.int 3)] =
    flattenList [.num (.int 1), .num (.int 2), .num (.int 3)] := by
  simp [flattenList, flattenValue]

/-- e.g. LARGE({1,2,3,4},k) = LARGE({1,2;3,4},k) for every k (the repaired regrouping defect) -/
theorem large_rows_regroup (x1 x2 x3 x4 k : Value) :
    LARGE [.arr [.arr [x1, x2], .arr [x3, x4]], k] = LARGE [.arr [x1, x2, x3, x4], k] := by
  apply (regroup_array_argument _ k k).1
  simp [flattenValue, flattenList]

/-! ## 2. Reordering: permutation invariance on numeric items -/

/-- REORDER (exact): permuting the numeric items changes neither value nor result type of
    SUM, PRODUCT, AVERAGE, COUNT, VAR, VAR.P, STDEV, STDEV.P, AVEDEV, GEOMEAN (errors included) -/
theorem perm_invariant {a b : List Value} {ns ms : List Num}
    (ha : NumericItems a ns) (hb : NumericItems b ms) (h : ns.Perm ms) :
    SUM a = SUM b ∧ PRODUCT a = PRODUCT b ∧ AVERAGE a = AVERAGE b ∧ COUNT a = COUNT b ∧
    VAR a = VAR b ∧ VAR_P a = VAR_P b ∧ STDEV a = STDEV b ∧ STDEV_P a = STDEV_P b ∧
    AVEDEV a = AVEDEV b ∧ GEOMEAN a = GEOMEAN b := by
  have ia : ∀ tp tz, inumbers tp tz a = .ok ns := fun tp tz => inumbers_nums tp tz ha
  have ib : ∀ tp tz, inumbers tp tz b = .ok ms := fun tp tz => inumbers_nums tp tz hb
  refine ⟨?_, ?_, ?_, ?_, ?_, ?_, ?_, ?_, ?_, ?_⟩
  · simp only [SUM, ia, ib, Except.map, pySum_perm h]
  · simp only [PRODUCT, ia, ib, prodNums_perm h]
  · simp only [AVERAGE, overNumbers, ia, ib, mean_perm h]
  · simp only [COUNT]; rw [ha, hb]; simp [h.length_eq]
  · simp only [VAR, overNumbers, ia, ib, variance, varianceQ_perm h, allInt_perm h]
  · simp only [VAR_P, overNumbers, ia, ib, pvariance, pvarianceQ_perm h, allInt_perm h]
  · simp only [STDEV, overNumbers, ia, ib, varianceQ_perm h]
  · simp only [STDEV_P, overNumbers, ia, ib, pvarianceQ_perm h]
  · by_cases hn : ns = []
    · subst hn
      have := h.symm.eq_nil; subst this
      exact (regroup (numericItems_nil ha hb)).2.2.2.2.1
    · rw [AVEDEV_nums ha hn, AVEDEV_nums hb (perm_ne_nil h hn), meanQ_perm (rats_perm h),
        absDevFrom_perm _ (rats_perm h), h.length_eq]
  · simp only [GEOMEAN, overNumbers, ia, ib, geomean_perm h]

/-- REORDER (value): permuting the numeric items does not change the value of MIN, MAX, MEDIAN
    (the result may be the int 1 for one order and the float 1.0 for another when both occur) -/
theorem perm_invariant_value {a b : List Value} {ns ms : List Num}
    (ha : NumericItems a ns) (hb : NumericItems b ms) (h : ns.Perm ms) :
    resultRat (MIN a) = resultRat (MIN b) ∧ resultRat (MAX a) = resultRat (MAX b) ∧
    resultRat (MEDIAN a) = resultRat (MEDIAN b) := by
  refine ⟨?_, ?_, ?_⟩
  · simp only [MIN, overNumbers_nums _ _ _ ha, overNumbers_nums _ _ _ hb, resultRat_numV, minNums_perm h]
  · simp only [MAX, overNumbers_nums _ _ _ ha, overNumbers_nums _ _ _ hb, resultRat_numV, maxNums_perm h]
  · simp only [MEDIAN, overNumbers_nums _ _ _ ha, overNumbers_nums _ _ _ hb, resultRat_numV, median_perm h]

/-- REORDER, HARMEAN: on positive items (the domain of the harmonic mean) permuting them changes
    nothing -/
theorem perm_invariant_harmean {a b : List Value} {ns ms : List Num}
    (ha : NumericItems a ns) (hb : NumericItems b ms) (h : ns.Perm ms)
    (hpos : ∀ x ∈ ns, 0 < Num.toRat x) : HARMEAN a = HARMEAN b := by
  simp only [HARMEAN, overNumbers_nums _ _ _ ha, overNumbers_nums _ _ _ hb, harmean_perm h hpos]

/-- the full-strength reorder claim for HARMEAN over items of any sign is FALSE for the code:
    `harmonic_mean` raises on the first negative item and returns 0 on the first zero, whichever
    comes first (HARMEAN(0,-1) = 0, HARMEAN(-1,0) = #ERROR!).  The property is read on positive
    items (see `perm_invariant_harmean`); this `def` keeps the unrestricted statement visible. -/
def HarmeanReorderAnySign : Prop :=
  ∀ (a b : List Value) (ns ms : List Num), NumericItems a ns → NumericItems b ms → ns.Perm ms →
    HARMEAN a = HARMEAN b

/-- … and the model indeed refutes it -/
theorem harmean_reorder_any_sign_fails : ¬ HarmeanReorderAnySign := by
  intro h
  have := h [.num (.int 0), .num (.int (-1))] [.num (.int (-1)), .num (.int 0)] [.int 0, .int (-1)] [.int (-1), .int 0]
    rfl rfl (List.Perm.swap _ _ _)
  have h1 : HARMEAN [.num (.int 0), .num (.int (-1))] = .ok (.num (.int 0)) := by rfl
  have h2 : HARMEAN [.num (.int (-1)), .num (.int 0)] = .error .error := by rfl
  rw [h1, h2] at this
  exact absurd this (by simp)

/-- REORDER, LARGE: for every `k` (valid or not) the value of LARGE(arr, k) does not depend on the
    order (or nesting) of the numeric items of `arr` -/
theorem perm_invariant_large {a b : Value} {ns ms : List Num}
    (ha : flattenValue a = ns.map .num) (hb : flattenValue b = ms.map .num) (h : ns.Perm ms) (k : Value) :
    resultRat (LARGE [a, k]) = resultRat (LARGE [b, k]) := by
  have ia : inumbers true true [a] = .ok ns := inumbers_nums true true (by rw [flattenList_singleton, ha])
  have ib : inumbers true true [b] = .ok ms := inumbers_nums true true (by rw [flattenList_singleton, hb])
  have hl : (sortNums ns).length = (sortNums ms).length := by
    rw [sortNums_length, sortNums_length, h.length_eq]
  have hs : rats (sortNums ns) = rats (sortNums ms) := by
    rw [rats_sortNums, rats_sortNums, sortQ_perm_eq (rats_perm h)]
  simp only [LARGE, ia, ib, hl]
  cases parseNumber k with
  | error e => rfl
  | ok kk =>
    simp only
    split
    · rfl
    · cases kk with
      | flt q => rfl
      | int i =>
        simp only
        have hget : ((sortNums ns)[(sortNums ms).length - i.toNat]?).map Num.toRat =
            ((sortNums ms)[(sortNums ms).length - i.toNat]?).map Num.toRat := by
          have := congrArg (fun l => l[(sortNums ms).length - i.toNat]?) hs
          simpa [rats, List.getElem?_map] using this
        cases h1 : (sortNums ns)[(sortNums ms).length - i.toNat]? <;>
          cases h2 : (sortNums ms)[(sortNums ms).length - i.toNat]? <;>
          simp_all [resultRat]

example : NumericItems [.arr [.num (.int 3), .arr [.num (.flt (1/2))]], .num (.int 3)] [.int 3, .flt (1/2), .int 3] := by
  simp [NumericItems, flattenList, flattenValue]

/-! ## 3. The aggregates equal their textbook definitions on numeric items -/

/-- SUM = Σ of the items; an int exactly when every item is an int -/
theorem SUM_def {args : List Value} {ns : List Num} (h : NumericItems args ns) :
    ∃ s, SUM args = .ok (.num s) ∧ Num.toRat s = ratSum (rats ns) ∧ isInt s = allInt ns := by
  refine ⟨pySum ns, ?_, toRat_pySum ns, isInt_pySum ns⟩
  simp only [SUM, inumbers_nums true false h]; rfl

/-- PRODUCT = ∏ of the items (an int exactly when every item is); no item at all is an error -/
theorem PRODUCT_def {args : List Value} {ns : List Num} (h : NumericItems args ns) :
    (ns = [] → PRODUCT args = .error .error) ∧
    (ns ≠ [] → ∃ p, PRODUCT args = .ok (.num p) ∧ Num.toRat p = ratProd (rats ns) ∧ isInt p = allInt ns) := by
  constructor
  · rintro rfl; simp only [PRODUCT, inumbers_nums false false h, prodNums]; rfl
  · intro hne
    cases ns with
    | nil => exact absurd rfl hne
    | cons x xs =>
      obtain ⟨p, hp, hv, ht⟩ := prodNums_cons x xs
      exact ⟨p, by simp only [PRODUCT, inumbers_nums false false h, hp]; rfl, hv, ht⟩

/-- AVERAGE = Σ/n, an int when all items are ints and the mean is integral, else a float;
    no item: error -/
theorem AVERAGE_def {args : List Value} {ns : List Num} (h : NumericItems args ns) :
    (ns = [] → AVERAGE args = .error .error) ∧
    (ns ≠ [] → AVERAGE args = .ok (.num (convert (allInt ns) (meanQ (rats ns)))) ∧
      resultRat (AVERAGE args) = .ok (some (ratSum (rats ns) / (ns.length : Rat)))) := by
  constructor
  · rintro rfl; simp only [AVERAGE, overNumbers_nums _ _ _ h, mean_nil]; rfl
  · intro hne
    have : AVERAGE args = .ok (.num (convert (allInt ns) (meanQ (rats ns)))) := by
      simp only [AVERAGE, overNumbers_nums _ _ _ h, mean_eq hne]; rfl
    refine ⟨this, ?_⟩
    rw [this]; simp [resultRat, toRat_convert, meanQ, rats_length]

/-- COUNT = the number of (flattened) items — of ANY kind; on numeric items, their number -/
theorem COUNT_def (args : List Value) :
    COUNT args = .ok (.num (.int (flattenList args).length)) ∧
    ∀ ns, NumericItems args ns → COUNT args = .ok (.num (.int ns.length)) := by
  refine ⟨rfl, ?_⟩
  intro ns h
  simp only [COUNT]; rw [h]; simp

/-- MAX is an item that is ≥ every item; MIN an item that is ≤ every item; no item: error -/
theorem MIN_MAX_def {args : List Value} {ns : List Num} (h : NumericItems args ns) :
    (ns = [] → MAX args = .error .error ∧ MIN args = .error .error) ∧
    (ns ≠ [] →
      (∃ m, MAX args = .ok (.num m) ∧ m ∈ ns ∧ ∀ y ∈ ns, Num.toRat y ≤ Num.toRat m) ∧
      (∃ m, MIN args = .ok (.num m) ∧ m ∈ ns ∧ ∀ y ∈ ns, Num.toRat m ≤ Num.toRat y)) := by
  constructor
  · rintro rfl
    constructor
    · simp only [MAX, overNumbers_nums _ _ _ h, maxNums]; rfl
    · simp only [MIN, overNumbers_nums _ _ _ h, minNums]; rfl
  · intro hne
    obtain ⟨m, hm, hmem, hall⟩ := maxNums_spec hne
    obtain ⟨m', hm', hmem', hall'⟩ := minNums_spec hne
    exact ⟨⟨m, by simp only [MAX, overNumbers_nums _ _ _ h, hm]; rfl, hmem, hall⟩,
      ⟨m', by simp only [MIN, overNumbers_nums _ _ _ h, hm']; rfl, hmem', hall'⟩⟩

/-- `sortQ qs` is THE ascending rearrangement of `qs`: it is ascending, it is a permutation of `qs`,
    and every ascending permutation of `qs` equals it -/
theorem sortQ_spec (qs : List Rat) :
    (sortQ qs).Pairwise (· ≤ ·) ∧ (sortQ qs).Perm qs ∧
    ∀ l : List Rat, l.Pairwise (· ≤ ·) → l.Perm qs → l = sortQ qs :=
  ⟨sortQ_sorted qs, sortQ_perm qs, fun _ hs hp => sorted_perm_unique hs hp⟩

/-- MEDIAN = the middle item of the ascending rearrangement (odd count), or the mean of its two
    middle items (even count); no item: error -/
theorem MEDIAN_def {args : List Value} {ns : List Num} (h : NumericItems args ns) :
    (ns = [] → MEDIAN args = .error .error) ∧
    (ns ≠ [] → resultRat (MEDIAN args) = .ok (some
      (let s := sortQ (rats ns)
       if ns.length % 2 = 1 then s.getD (ns.length / 2) 0
       else (s.getD (ns.length / 2 - 1) 0 + s.getD (ns.length / 2) 0) / 2))) := by
  constructor
  · rintro rfl; simp only [MEDIAN, overNumbers_nums _ _ _ h]; rfl
  · intro hne
    simp only [MEDIAN, overNumbers_nums _ _ _ h, resultRat_numV, median_toRat, hne, if_false, medianQ,
      sortQ_length, rats_length]
    rfl

/-- MODE is an item whose value occurs at least as often as every other item's value — the FIRST
    such item in the original order (any equally frequent item `y` stands at or after it) -/
theorem MODE_def {args : List Value} {ns : List Num} (h : NumericItems args ns) (hne : ns ≠ []) :
    ∃ m, MODE args = .ok (.num m) ∧ m ∈ ns ∧ (∀ y ∈ ns, countEq y ns ≤ countEq m ns) ∧
      ∀ pre y post, ns = pre ++ y :: post → countEq m ns ≤ countEq y ns → m ∈ pre ∨ m = y := by
  obtain ⟨m, hm, hmem, hall⟩ := mode_spec hne
  exact ⟨m, by simp only [MODE, overNumbers_nums _ _ _ h, hm]; rfl, hmem, hall, mode_first hm⟩

/-- VAR = Σ(x−μ)²/(n−1) (two or more items, else an error); VAR.P = Σ(x−μ)²/n (one or more) -/
theorem VAR_def {args : List Value} {ns : List Num} (h : NumericItems args ns) :
    (ns.length < 2 → VAR args = .error .error) ∧
    (2 ≤ ns.length → resultRat (VAR args) =
      .ok (some (sqDevFrom (meanQ (rats ns)) (rats ns) / ((ns.length : Rat) - 1)))) ∧
    (ns = [] → VAR_P args = .error .error) ∧
    (ns ≠ [] → resultRat (VAR_P args) =
      .ok (some (sqDevFrom (meanQ (rats ns)) (rats ns) / (ns.length : Rat)))) := by
  refine ⟨?_, ?_, ?_, ?_⟩
  · intro hl
    simp only [VAR, overNumbers_nums _ _ _ h, variance, varianceQ, hl, if_true]; rfl
  · intro hl
    have hne : ns ≠ [] := by intro he; subst he; simp at hl
    have : ¬ ns.length < 2 := by omega
    simp only [VAR, overNumbers_nums _ _ _ h, variance, varianceQ, this, if_false,
      ssd_eq_sqDev (rats_ne_nil hne)]
    simp [numV, Except.map, resultRat, toRat_convert]
  · rintro rfl
    simp only [VAR_P, overNumbers_nums _ _ _ h]; rfl
  · intro hne
    have : ¬ ns.length < 1 := by
      have := List.length_pos_iff.mpr hne; omega
    simp only [VAR_P, overNumbers_nums _ _ _ h, pvariance, pvarianceQ, this, if_false,
      ssd_eq_sqDev (rats_ne_nil hne)]
    simp [numV, Except.map, resultRat, toRat_convert]

/-- STDEV / STDEV.P are the non-negative square roots of VAR / VAR.P: the symbolic result
    `sqrtTag q` carries exactly the textbook variance -/
theorem STDEV_def {args : List Value} {ns : List Num} (h : NumericItems args ns) :
    (ns.length < 2 → STDEV args = .error .error) ∧
    (2 ≤ ns.length → STDEV args =
      .ok (sqrtTag (sqDevFrom (meanQ (rats ns)) (rats ns) / ((ns.length : Rat) - 1)))) ∧
    (ns = [] → STDEV_P args = .error .error) ∧
    (ns ≠ [] → STDEV_P args = .ok (sqrtTag (sqDevFrom (meanQ (rats ns)) (rats ns) / (ns.length : Rat)))) := by
  refine ⟨?_, ?_, ?_, ?_⟩
  · intro hl
    simp only [STDEV, overNumbers_nums _ _ _ h, varianceQ, hl, if_true]; rfl
  · intro hl
    have hne : ns ≠ [] := by intro he; subst he; simp at hl
    have : ¬ ns.length < 2 := by omega
    simp only [STDEV, overNumbers_nums _ _ _ h, varianceQ, this, if_false, ssd_eq_sqDev (rats_ne_nil hne)]
    rfl
  · rintro rfl
    simp only [STDEV_P, overNumbers_nums _ _ _ h]; rfl
  · intro hne
    have : ¬ ns.length < 1 := by
      have := List.length_pos_iff.mpr hne; omega
    simp only [STDEV_P, overNumbers_nums _ _ _ h, pvarianceQ, this, if_false, ssd_eq_sqDev (rats_ne_nil hne)]
    rfl

/-- AVEDEV = Σ|x−μ|/n with μ = Σx/n (a float) -/
theorem AVEDEV_def {args : List Value} {ns : List Num} (h : NumericItems args ns) (hne : ns ≠ []) :
    AVEDEV args =
      .ok (.num (.flt (absDevFrom (ratSum (rats ns) / (ns.length : Rat)) (rats ns) / (ns.length : Rat)))) := by
  rw [AVEDEV_nums h hne, meanQ, rats_length]

/-- GEOMEAN of positive items is the positive real `g` with `g ^ n = ∏ x` -/
theorem GEOMEAN_def {args : List Value} {ns : List Num} (h : NumericItems args ns) (hne : ns ≠ [])
    (hpos : ∀ x ∈ ns, 0 < Num.toRat x) :
    GEOMEAN args = .ok (rootTag ns.length (ratProd (rats ns))) := by
  simp only [GEOMEAN, overNumbers_nums _ _ _ h, geomean_pos hne hpos]

/-- HARMEAN of positive items = n / Σ(1/x) -/
theorem HARMEAN_def {args : List Value} {ns : List Num} (h : NumericItems args ns) (hne : ns ≠ [])
    (hpos : ∀ x ∈ ns, 0 < Num.toRat x) :
    resultRat (HARMEAN args) = .ok (some ((ns.length : Rat) / ratSum ((rats ns).map (fun q => 1 / q)))) := by
  simp only [HARMEAN, overNumbers_nums _ _ _ h, resultRat_numV, harmean_pos hne hpos]; rfl

/-- LARGE(arr, k) = the k-th largest item: position k−1 of the descending arrangement, for
    1 ≤ k ≤ n; `#NUM!` for an integer k outside that range — n being the number of FLATTENED items -/
theorem LARGE_def {arr : Value} {ns : List Num} (h : flattenValue arr = ns.map .num) :
    (∀ k : Nat, 1 ≤ k → k ≤ ns.length →
      ∃ v, LARGE [arr, .num (.int k)] = .ok (.num v) ∧ (sortQ (rats ns)).reverse[k - 1]? = some (Num.toRat v)) ∧
    (∀ k : Int, k < 1 ∨ (ns.length : Int) < k → LARGE [arr, .num (.int k)] = .ok (.err .num)) :=
  ⟨fun _ h1 h2 => LARGE_nums h h1 h2, fun _ hk => LARGE_out_of_range h hk⟩

/-- SLOPE(y₁…yₙ, x₁…xₙ) = (nΣxy − ΣxΣy)/(nΣx² − (Σx)²), `#DIV/0!` when the denominator vanishes -/
theorem SLOPE_def (ys xs : List Num) (hlen : ys.length = xs.length) (hne : xs ≠ []) :
    SLOPE (ys.map .num ++ xs.map .num) =
      (let n : Rat := (xs.length : Rat)
       let sx := ratSum (rats xs)
       let sy := ratSum (rats ys)
       let sxx := ratSum ((rats xs).map (fun x => x * x))
       let sxy := ratSum (List.zipWith (· * ·) (rats xs) (rats ys))
       if n * sxx - sx * sx = 0 then .ok (.err .div0)
       else .ok (.num (.flt ((n * sxy - sx * sy) / (n * sxx - sx * sx))))) := by
  rw [SLOPE_nums ys xs hlen hne]
  simp only [slopeDen, slopeNum, rats_length]

example : (∀ x ∈ [Num.int 2, Num.flt (1/2)], 0 < Num.toRat x) := by
  intro x hx
  simp only [List.mem_cons, List.not_mem_nil, or_false] at hx
  rcases hx with rfl | rfl <;> norm_num [Num.toRat]

/-! ## 4. Criteria strings: what `parse_criteria` compiles means what the statement says -/

/-- the wildcard matcher decides the wildcard semantics `Glob`: `*` any run of characters, `?`
    exactly one character, any other character itself -/
theorem glob_spec (pat text : List Char) : globMatch pat text = true ↔ Glob pat text :=
  globMatch_iff pat text

/-- FORM 1, "a comparison operator followed by a number": for every operator `> < >= <= = <>` and
    every text `t` that `to_number` reads as the number `n`, the compiled predicate holds of a cell
    exactly when the cell is a number (or logical) in that relation to `n` (`<>`: exactly when it is
    not a number equal to `n`); a text, blank, error or list cell satisfies no ordering or `=`
    criterion and never raises (the repaired defect) -/
theorem criteria_operator_number (op : CmpOp) {c : Char} {t : List Char} {n : Num}
    (hc : isOpChar c = false) (hnl : ∀ d ∈ c :: t, d ≠ '\n') (hn : toNumberText (c :: t) = .num n) :
    ∃ p, parseCriteria (.str (opText op ++ c :: t)) = .ok p ∧
      ∀ cell, p.test cell = true ↔ SemOp op (Num.toRat n) cell := by
  refine ⟨.cmp op (.num n), ?_, fun cell => cmpScalar_num op cell n⟩
  rw [parseCriteria_op op hc hnl]; simp [toNumber, hn]

example : isOpChar '2' = false ∧ (∀ d ∈ "25".toList, d ≠ '\n') ∧
    toNumberText "25".toList = .num (.int 25) := ⟨by decide, by decide, by rfl⟩

/-- FORM 2, "a bare value meaning equality": text that does not start with `<`, `>`, `=` and has no
    wildcard compiles to equality with the number it spells, or else with the text itself -/
theorem criteria_bare_value {c : Char} {t : List Char}
    (hc : isOpChar c = false) (hnl : ∀ d ∈ c :: t, d ≠ '\n') (hw : hasWildcard (c :: t) = false) :
    ∃ p, parseCriteria (.str (c :: t)) = .ok p ∧
      (∀ n, toNumberText (c :: t) = .num n → ∀ cell, p.test cell = true ↔ pyNumeric? cell = some (Num.toRat n)) ∧
      (toNumberText (c :: t) = .text → ∀ cell, p.test cell = true ↔ cell = .str (c :: t)) := by
  refine ⟨.eq (toNumber (.str (c :: t))), ?_, ?_, ?_⟩
  · rw [parseCriteria_plain hc hnl]; simp [hw]
  · intro n hn cell
    simp only [Crit.test, toNumber, hn, pyEqValue_num]
  · intro hn cell
    simp only [Crit.test, toNumber, hn, pyEqValue_str]

/-- FORM 3, "text with * and ? wildcards": the predicate holds exactly of the TEXT cells that the
    pattern matches — the cell is the text, the criterion the pattern (the repaired argument swap) -/
theorem criteria_wildcard {c : Char} {t : List Char}
    (hc : isOpChar c = false) (hnl : ∀ d ∈ c :: t, d ≠ '\n') (hw : hasWildcard (c :: t) = true) :
    ∃ p, parseCriteria (.str (c :: t)) = .ok p ∧
      ∀ cell, p.test cell = true ↔ ∃ s, cell = .str s ∧ Glob (c :: t) s := by
  refine ⟨.glob (c :: t), ?_, fun cell => test_glob _ cell⟩
  rw [parseCriteria_plain hc hnl]; simp [hw]

/-- a run of `<`, `>`, `=` that is not an operator (such as `=<`) in front of a value raises
    (KeyError → `#ERROR!`), as does a non-text criterion -/
theorem criteria_malformed :
    (∀ {ops : List Char} {c : Char} {t : List Char}, (∀ o ∈ ops, isOpChar o = true) → ops ≠ [] →
      opOf ops = none → isOpChar c = false → (∀ d ∈ c :: t, d ≠ '\n') →
      parseCriteria (.str (ops ++ c :: t)) = .error .error) ∧
    (∀ v, (∀ s, v ≠ .str s) → parseCriteria v = .error .error) := by
  refine ⟨fun h hne hbad hc hnl => parseCriteria_bad_op h hne hbad hc hnl, ?_⟩
  intro v hv
  cases v <;> simp_all [parseCriteria]

example : parseCriteria (.str "=<2".toList) = .error .error := by rfl

/-! ## 5. The conditional aggregates are the statistics of exactly the selected items -/

/-- a row satisfies every criterion iff each criterion's predicate holds of that row's cell -/
theorem rowSat_iff (preds : List (Value × Crit)) (i : Nat) :
    rowSat preds i = true ↔ ∀ p ∈ preds, ∃ v, indexValue p.1 i = some v ∧ p.2.test v = true := by
  simp only [rowSat, List.all_eq_true]
  constructor
  · intro h p hp
    have := h p hp
    cases hv : indexValue p.1 i with
    | none => simp [hv] at this
    | some v => exact ⟨v, rfl, by simpa [hv] using this⟩
  · intro h p hp
    obtain ⟨v, hv, ht⟩ := h p hp
    simp [hv, ht]

/-- `selectIdx` is selection by index alignment: the items paired with their index, filtered -/
theorem selectIdx_spec (sat : Nat → Bool) (vals : List Value) :
    selectIdx sat vals 0 = ((vals.zipIdx).filter (fun p => sat p.2)).map (·.1) :=
  selectIdx_eq_filter sat vals 0

/-- SUMIF / COUNTIF: the sum / the number of exactly the flattened items satisfying the criterion -/
theorem SUMIF_COUNTIF_spec {args crit : Value} {p : Crit} (hp : parseCriteria crit = .ok p) :
    COUNTIF [args, crit] = .ok (.num (.int ((flattenValue args).filter p.test).length)) ∧
    (∀ ns : List Num, flattenValue args = ns.map .num →
      SUMIF [args, crit] = .ok (.num (pySum (ns.filter (fun n => p.test (.num n))))) ∧
      COUNTIF [args, crit] = .ok (.num (.int (ns.filter (fun n => p.test (.num n))).length))) := by
  refine ⟨by simp only [COUNTIF, hp, selectBy], ?_⟩
  intro ns h
  have hf : (ns.map Value.num).filter p.test = (ns.filter (fun n => p.test (.num n))).map .num := by
    rw [List.filter_map]; rfl
  constructor
  · simp only [SUMIF, hp, selectBy, h, hf, numsOf_nums]; rfl
  · simp only [COUNTIF, hp, selectBy, h, hf, List.length_map]

/-- AVERAGEIF(range, criterion, average_range): the mean of exactly the `average_range[i]` whose
    `range[i]` satisfies the criterion (both flattened; index alignment); nothing selected: error -/
theorem AVERAGEIF_spec {args crit avg : Value} {p : Crit} {ns : List Num}
    (hp : parseCriteria crit = .ok p) (ht : pyTruthy avg = true) (hne : ns ≠ [])
    (hlen : (flattenValue args).length = ns.length) (havg : flattenValue avg = ns.map .num) :
    let sel := ((flattenValue args).zip ns).filter (fun q => p.test q.1) |>.map (·.2)
    AVERAGEIF [args, crit, avg] =
      if sel = [] then .error .error
      else .ok (.num (.flt (ratSum (rats sel) / (sel.length : Rat)))) := by
  intro sel
  have hal : alignedSel p (flattenValue args) (ns.map .num) = sel.map .num := by
    simp only [alignedSel, sel, List.zip_map_right, List.filter_map, List.map_map]
    rfl
  simp only [AVERAGEIF, averageif, ht, if_true, hp, havg]
  rw [selectAligned_eq p (by simp [hlen]), hal]
  simp only [parsedNums_nums, averageOf]
  by_cases hs : sel = []
  · simp [hs, hne]
  · have : sel.isEmpty = false := by cases hsel : sel <;> simp_all
    simp [hs, hne, this, toRat_pySum]

/-- AVERAGEIF(range, criterion) without an average range averages the selected cells themselves -/
theorem AVERAGEIF_spec_two {args crit : Value} {p : Crit} {ns : List Num}
    (hp : parseCriteria crit = .ok p) (hne : ns ≠ []) (h : flattenValue args = ns.map .num) :
    let sel := ns.filter (fun n => p.test (.num n))
    AVERAGEIF [args, crit] =
      if sel = [] then .error .error
      else .ok (.num (.flt (ratSum (rats sel) / (sel.length : Rat)))) := by
  intro sel
  have hal : alignedSel p (ns.map .num) (ns.map .num) = sel.map .num := by
    have gen : ∀ ms : List Num, alignedSel p (ms.map .num) (ms.map .num) =
        (ms.filter (fun n => p.test (.num n))).map .num := by
      intro ms
      induction ms with
      | nil => rfl
      | cons m ms ih =>
        simp only [alignedSel, List.map_cons, List.zip_cons_cons, List.filter_cons] at ih ⊢
        split <;> simp [ih]
    exact gen ns
  simp only [AVERAGEIF, averageif, pyTruthy, Bool.false_eq_true, if_false, hp, h]
  rw [selectAligned_eq p (Nat.le_refl _), hal]
  simp only [parsedNums_nums, averageOf]
  by_cases hs : sel = []
  · simp [hs, hne]
  · have : sel.isEmpty = false := by cases hsel : sel <;> simp_all
    simp [hs, hne, this, toRat_pySum]

/-- SUMIFS / AVERAGEIFS / MAXIFS over criteria ranges as long as the value range: the selected
    items are exactly the `vals[i]` whose row `i` satisfies every criterion (`selectIdx`, `rowSat`);
    SUMIFS adds them up, AVERAGEIFS divides by their number, MAXIFS takes the running maximum -/
theorem IFS_selected_spec {vals criteria : List Value} {preds : List (Value × Crit)}
    (hpar : criteria.length % 2 = 0) (hp : parsePairs criteria = .ok preds)
    (hfit : RangesFit preds vals.length) :
    let sel := selectIdx (rowSat preds) vals 0
    SUMIFS (.arr vals :: criteria) = (numsOf sel).map (fun ns => .num (pySum ns)) ∧
    AVERAGEIFS (.arr vals :: criteria) = (match numsOf sel with
      | .error e => .error e
      | .ok ns => averageOf ns) ∧
    MAXIFS (.arr vals :: criteria) = (match maxLoop .blank sel with
      | .error e => .error e
      | .ok .blank => .ok (.num (.int 0))
      | .ok b => .ok b) := by
  intro sel
  have h0 : ¬ criteria.length % 2 ≠ 0 := by omega
  refine ⟨?_, ?_, ?_⟩
  · simp only [SUMIFS, h0, if_false, hp, seqOf, validateRanges_fit hfit, selectRows_fit hfit]; rfl
  · simp only [AVERAGEIFS, h0, if_false, hp, seqOf, selectRows_fit hfit]; rfl
  · simp only [MAXIFS, h0, if_false, hp, seqOf, selectRows_fit hfit]; rfl

/-- … on numeric selected items: SUMIFS = Σ, AVERAGEIFS = Σ/count, MAXIFS = the largest selected
    item (also when all selected items are negative: the repaired start value) -/
theorem IFS_numeric_spec {vals criteria : List Value} {preds : List (Value × Crit)} {ns : List Num}
    (hpar : criteria.length % 2 = 0) (hp : parsePairs criteria = .ok preds)
    (hfit : RangesFit preds vals.length) (hsel : selectIdx (rowSat preds) vals 0 = ns.map .num) :
    (∃ s, SUMIFS (.arr vals :: criteria) = .ok (.num s) ∧ Num.toRat s = ratSum (rats ns)) ∧
    (ns ≠ [] → AVERAGEIFS (.arr vals :: criteria) =
      .ok (.num (.flt (ratSum (rats ns) / (ns.length : Rat))))) ∧
    (ns ≠ [] → ∃ m, MAXIFS (.arr vals :: criteria) = .ok (.num m) ∧ m ∈ ns ∧
      ∀ y ∈ ns, Num.toRat y ≤ Num.toRat m) := by
  obtain ⟨h1, h2, h3⟩ := IFS_selected_spec hpar hp hfit
  simp only [hsel, numsOf_nums] at h1 h2 h3
  refine ⟨⟨pySum ns, h1, toRat_pySum ns⟩, ?_, ?_⟩
  · intro hne
    have : ns.isEmpty = false := by cases ns <;> simp_all
    rw [h2]; simp [averageOf, this, toRat_pySum]
  · intro hne
    obtain ⟨m, hm, hmem, hall⟩ := maxNums_spec hne
    refine ⟨m, ?_, hmem, hall⟩
    rw [h3, maxLoop_nums]
    cases ns with
    | nil => exact absurd rfl hne
    | cons n ns => simp only [hm, Except.map]

/-- EMPTY SELECTION: 0 for SUMIF, COUNTIF, SUMIFS and MAXIFS, an error for AVERAGEIF and AVERAGEIFS -/
theorem empty_selection :
    (∀ {args crit : Value} {p : Crit}, parseCriteria crit = .ok p →
      (flattenValue args).filter p.test = [] →
      SUMIF [args, crit] = .ok (.num (.int 0)) ∧ COUNTIF [args, crit] = .ok (.num (.int 0)) ∧
      (¬ (flattenValue args).isEmpty → AVERAGEIF [args, crit] = .error .error)) ∧
    (∀ {vals criteria : List Value} {preds : List (Value × Crit)}, criteria.length % 2 = 0 →
      parsePairs criteria = .ok preds → RangesFit preds vals.length →
      selectIdx (rowSat preds) vals 0 = [] →
      SUMIFS (.arr vals :: criteria) = .ok (.num (.int 0)) ∧
      MAXIFS (.arr vals :: criteria) = .ok (.num (.int 0)) ∧
      AVERAGEIFS (.arr vals :: criteria) = .error .error) := by
  constructor
  · intro args crit p hp hsel
    refine ⟨?_, ?_, ?_⟩
    · simp only [SUMIF, hp, selectBy, hsel, numsOf]; rfl
    · simp only [COUNTIF, hp, selectBy, hsel]; rfl
    · intro hne
      have hne' : (flattenValue args).isEmpty = false := by simpa using hne
      have hal : ∀ (items vs : List Value), items.filter p.test = [] → selectAligned p items vs = .ok [] := by
        intro items
        induction items with
        | nil => intro vs _; rfl
        | cons a rest ih =>
          intro vs hf
          have ha : p.test a = false := by
            by_cases h : p.test a = true
            · simp [h] at hf
            · simpa using h
          have hr : rest.filter p.test = [] := by simpa [List.filter_cons, ha] using hf
          simp only [selectAligned, ih _ hr, ha, Bool.false_eq_true, if_false]
      simp only [AVERAGEIF, averageif, pyTruthy, Bool.false_eq_true, if_false, hne', hp, hal _ _ hsel,
        parsedNums, averageOf, List.isEmpty_nil, if_true]
  · intro vals criteria preds hpar hp hfit hsel
    obtain ⟨h1, h2, h3⟩ := IFS_selected_spec hpar hp hfit
    simp only [hsel] at h1 h2 h3
    exact ⟨h1, h3, h2⟩

example : parsePairs [.arr [.num (.int 1), .str "a".toList], .str ">0".toList] =
    .ok [(.arr [.num (.int 1), .str "a".toList], .cmp .gt (.num (.int 0)))] ∧
    RangesFit [(.arr [.num (.int 1), .str "a".toList], .cmp .gt (.num (.int 0)))] 2 ∧
    selectIdx (rowSat [(.arr [.num (.int 1), .str "a".toList], .cmp .gt (.num (.int 0)))])
      [.num (.int 5), .num (.int 7)] 0 = [.num (.int 5)] := by
  refine ⟨by rfl, ?_, by rfl⟩
  intro p hp
  simp at hp
  subst hp
  exact ⟨_, rfl, rfl⟩

/-! ## 6. An error value among the items is the result -/

/-- ERROR ITEM: if the first error value among the flattened items (at any nesting depth) is `e`,
    then SUM, PRODUCT, AVERAGE, MIN, MAX and MEDIAN raise exactly `e` -/
theorem error_item {args : List Value} {e : Err} (h : firstError (flattenList args) = some e) :
    SUM args = .error e ∧ PRODUCT args = .error e ∧ AVERAGE args = .error e ∧ MIN args = .error e ∧
    MAX args = .error e ∧ MEDIAN args = .error e := by
  refine ⟨?_, ?_, ?_, ?_, ?_, ?_⟩
  · simp only [SUM, inumbers_firstError true false h]; rfl
  · simp only [PRODUCT, inumbers_firstError false false h]
  all_goals exact overNumbers_error _ _ _ h

/-- `firstError` is the first error value in flatten order -/
theorem firstError_is_first {l : List Value} {e : Err} :
    firstError l = some e ↔ ∃ pre post, l = pre ++ .err e :: post ∧ ∀ v ∈ pre, ∀ e', v ≠ .err e' :=
  firstError_eq_some

/-- an error value anywhere among the items makes the result an error that IS one of the items -/
theorem error_item_exists {args : List Value} {e : Err} (h : Value.err e ∈ flattenList args) :
    ∃ e', Value.err e' ∈ flattenList args ∧
      SUM args = .error e' ∧ PRODUCT args = .error e' ∧ AVERAGE args = .error e' ∧ MIN args = .error e' ∧
      MAX args = .error e' ∧ MEDIAN args = .error e' := by
  obtain ⟨e', h1, h2⟩ := firstError_of_mem h
  exact ⟨e', h2, error_item h1⟩

/-- a raised error value is the value of the call: `Parser.call_function` turns the raised
    `XLError` `e` into the error value `e` itself (`from_message(str(e))`) -/
theorem raised_error_is_call_value (e : Err) : Eval.Exn.toErr (.xl e) = e := by
  cases e <;> decide

/-- in a formula: a call of SUM, PRODUCT, AVERAGE, MIN, MAX or MEDIAN (not shadowed by a host
    function) whose arguments contain an error value evaluates to the first such error -/
theorem error_item_call (env : Eval.Env) (name : String) (args : List Value) (e : Err) (log : Eval.Log)
    (hn : name ∈ ["SUM", "PRODUCT", "AVERAGE", "MIN", "MAX", "MEDIAN"])
    (hc : env.custom name.toList = none) (h : firstError (flattenList args) = some e) :
    (Eval.callFunction env name.toList args log).1 = .ok (.err e) := by
  obtain ⟨h1, h2, h3, h4, h5, h6⟩ := error_item h
  simp only [List.mem_cons, List.not_mem_nil, or_false] at hn
  rcases hn with rfl | rfl | rfl | rfl | rfl | rfl
  · have hr : Builtins.isRegistered "SUM" = true := by decide
    have hm : Builtins.model? "SUM" = some SUM := by rfl
    simp only [Eval.callFunction, hc, String.ofList_toList, hr, if_true, hm, h1, raised_error_is_call_value]
  · have hr : Builtins.isRegistered "PRODUCT" = true := by decide
    have hm : Builtins.model? "PRODUCT" = some PRODUCT := by rfl
    simp only [Eval.callFunction, hc, String.ofList_toList, hr, if_true, hm, h2, raised_error_is_call_value]
  · have hr : Builtins.isRegistered "AVERAGE" = true := by decide
    have hm : Builtins.model? "AVERAGE" = some AVERAGE := by rfl
    simp only [Eval.callFunction, hc, String.ofList_toList, hr, if_true, hm, h3, raised_error_is_call_value]
  · have hr : Builtins.isRegistered "MIN" = true := by decide
    have hm : Builtins.model? "MIN" = some MIN := by rfl
    simp only [Eval.callFunction, hc, String.ofList_toList, hr, if_true, hm, h4, raised_error_is_call_value]
  · have hr : Builtins.isRegistered "MAX" = true := by decide
    have hm : Builtins.model? "MAX" = some MAX := by rfl
    simp only [Eval.callFunction, hc, String.ofList_toList, hr, if_true, hm, h5, raised_error_is_call_value]
  · have hr : Builtins.isRegistered "MEDIAN" = true := by decide
    have hm : Builtins.model? "MEDIAN" = some MEDIAN := by rfl
    simp only [Eval.callFunction, hc, String.ofList_toList, hr, if_true, hm, h6, raised_error_is_call_value]

example : firstError (flattenList [.num (.int 1), .arr [.arr [.err .div0], .err .na]]) = some .div0 := by decide

end HotXL.Props.C11
